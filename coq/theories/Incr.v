(** * Incr: the vanilla / chance-sampled traversal as a list of atomic increments.

    [vrec] (the model of [recurse_single] + [recurse_player], and — with the
    shared infosets updated by atomic operations — of [recurse_multi]) mutates the
    infoset state in three ways only:
    - [IStrat pl i w]  : [cum_strat[i] += w * strat[i]] row-wise (under the mutex);
    - [IReg pl i a x]  : [cum_regret[i][a] += x]      ([fetch_add]);
    - [IRegAll pl i x] : every cell of [cum_regret[i]] [-= x]   ([fetch_sub]).
    None of them writes [strat], and the value returned by the traversal and the
    increments themselves depend on the state through [strat] only.  Hence
    - [vrec_incs]   : [vrec] = (pure value, fold of the pure list of increments);
    - [apply_incr_comm], [apply_perm] : over the reals the increments commute, so
      every interleaving (= permutation) of a set of increments yields the same state.

    Definitions are generic in [Num]; theorems are about [RNum]. *)
From Coq Require Import Reals List Lra Lia Bool Arith NArith Permutation FunctionalExtensionality.
From Cfr.theories Require Import Num RInst Tree Strat Eval Solve SolveValidProofs.
Import ListNotations.
Local Open Scope nat_scope.

Section Incr.
  Context {NN : Num}.
  Local Notation T := (T NN).
  Local Notation node := (@node NN).
  Local Notation pstate := (@pstate NN).
  Local Notation rinfo := (@rinfo NN).

  Inductive incr :=
  | IStrat (pl : bool) (i : nat) (w : T)        (* cum_strat[i] += w * strat[i], row-wise *)
  | IReg (pl : bool) (i a : nat) (x : T)        (* cum_regret[i][a] += x *)
  | IRegAll (pl : bool) (i : nat) (x : T).      (* every cell of cum_regret[i] -= x *)

  Definition incr_pl (x : incr) : bool :=
    match x with IStrat pl _ _ => pl | IReg pl _ _ _ => pl | IRegAll pl _ _ => pl end.
  Definition incr_ix (x : incr) : nat :=
    match x with IStrat _ i _ => i | IReg _ i _ _ => i | IRegAll _ i _ => i end.

  (** the effect of an increment on the infoset it addresses *)
  Definition incr_fn (x : incr) (ri : rinfo) : rinfo :=
    match x with
    | IStrat _ _ w =>
        mkRinfo (cum_regret ri)
                (map (fun vc => add NN (snd vc) (mul NN w (fst vc)))
                     (combine (strat ri) (cum_strat ri)))
                (strat ri)
    | IReg _ _ a v =>
        let cr := cum_regret ri in
        mkRinfo (upd cr a (add NN (nth a cr (zero NN)) v)) (cum_strat ri) (strat ri)
    | IRegAll _ _ v =>
        mkRinfo (map (fun c => sub NN c v) (cum_regret ri)) (cum_strat ri) (strat ri)
    end.

  (** same [nth]/[upd] defaults as [vrec]: an infoset index out of range reads the
      empty infoset and writes nothing *)
  Definition apply_incr (st : pstate) (x : incr) : pstate :=
    ri_set st (incr_pl x) (incr_ix x) (incr_fn x (ri_get st (incr_pl x) (incr_ix x))).

  (** what the traversals read of the state *)
  Definition strat_view (st : pstate) : bool -> nat -> list T :=
    fun pl i => strat (ri_get st pl i).

  (** ** the inner loops, abstracted over the recursive calls *)
  Section Loops.
    Context (recv : node -> T) (reci : node -> T -> T -> T -> list incr).

    Definition val_pick :=
      fix pick (ks : list node) (k : nat) {struct ks} : T :=
        match ks with
        | [] => zero NN
        | c :: r => match k with
                    | O => add NN (zero NN) (mul NN (one NN) (recv c))
                    | S k' => pick r k'
                    end
        end.

    Definition val_chance :=
      fix go (ps : list T) (ks : list node) (ex : T) {struct ks} : T :=
        match ps, ks with
        | p :: ps', c :: ks' => go ps' ks' (add NN ex (mul NN p (recv c)))
        | _, _ => ex
        end.

    (** [expected_one] of [recurse_player] *)
    Definition val_player :=
      fix go (ks : list node) (ss : list T) (e1 : T) {struct ks} : T :=
        match ks, ss with
        | c :: ks', prob :: ss' => go ks' ss' (add NN e1 (mul NN prob (recv c)))
        | _, _ => e1
        end.

    (** [expected] of [recurse_player] *)
    Definition exp_player (mult : T) :=
      fix go (ks : list node) (ss : list T) (e : T) {struct ks} : T :=
        match ks, ss with
        | c :: ks', prob :: ss' => go ks' ss' (add NN e (mul NN (mul NN (recv c) mult) prob))
        | _, _ => e
        end.

    Definition incs_pick (pc p1 p2 : T) :=
      fix pick (ks : list node) (k : nat) {struct ks} : list incr :=
        match ks with
        | [] => []
        | c :: r => match k with
                    | O => reci c (mul NN pc (one NN)) p1 p2
                    | S k' => pick r k'
                    end
        end.

    Definition incs_chance (pc p1 p2 : T) :=
      fix go (ps : list T) (ks : list node) {struct ks} : list incr :=
        match ps, ks with
        | p :: ps', c :: ks' => reci c (mul NN pc p) p1 p2 ++ go ps' ks'
        | _, _ => []
        end.

    Definition incs_player (pl : bool) (i : nat) (pc p1 p2 mult : T) :=
      fix go (ks : list node) (ss : list T) (ai : nat) {struct ks} : list incr :=
        match ks, ss with
        | c :: ks', prob :: ss' =>
            let '(q1, q2) := if pl then (mul NN p1 prob, p2) else (p1, mul NN p2 prob) in
            reci c pc q1 q2 ++ IReg pl i ai (mul NN (recv c) mult) :: go ks' ss' (S ai)
        | _, _ => []
        end.
  End Loops.

  (** ** the value [vrec] returns, as a function of the strategies only *)
  Fixpoint vval (chance : list (list T)) (sampled : bool) (draw : oracle) (pass : N)
           (sg : bool -> nat -> list T) (n : node) {struct n} : T :=
    match n with
    | Term x => x
    | Chance ci kids =>
        if sampled
        then val_pick (vval chance sampled draw pass sg) kids (draw true ci pass (row chance ci))
        else val_chance (vval chance sampled draw pass sg) (row chance ci) kids (zero NN)
    | Player pl i kids =>
        val_player (vval chance sampled draw pass sg) kids (sg pl i) (zero NN)
    end.

  (** ** the increments [vrec] performs, in traversal order *)
  Fixpoint vincs (chance : list (list T)) (sampled : bool) (draw : oracle) (pass : N)
           (sg : bool -> nat -> list T) (n : node) (pc p1 p2 : T) {struct n} : list incr :=
    match n with
    | Term _ => []
    | Chance ci kids =>
        if sampled
        then incs_pick (vincs chance sampled draw pass sg) pc p1 p2 kids
                       (draw true ci pass (row chance ci))
        else incs_chance (vincs chance sampled draw pass sg) pc p1 p2 (row chance ci) kids
    | Player pl i kids =>
        let mine := if pl then p1 else p2 in
        let mult := if pl then mul NN pc p2 else mul NN (neg NN p1) pc in
        IStrat pl i mine ::
        incs_player (vval chance sampled draw pass sg) (vincs chance sampled draw pass sg)
                    pl i pc p1 p2 mult kids (sg pl i) O ++
        [IRegAll pl i (exp_player (vval chance sampled draw pass sg) mult kids (sg pl i) (zero NN))]
    end.

  (** ** reading and writing one infoset (generic) *)
  Lemma nth_upd {A} (l : list A) i j v d :
    nth j (upd l i v) d = if Nat.eqb i j && Nat.ltb i (length l) then v else nth j l d.
  Proof.
    revert i j; induction l as [|x l IH]; intros i j.
    - cbn [upd length]. destruct (Nat.eqb i j); reflexivity.
    - destruct i as [|i], j as [|j]; cbn [upd nth length]; try reflexivity.
      rewrite IH. reflexivity.
  Qed.

  Lemma upd_oob {A} (l : list A) i v : length l <= i -> upd l i v = l.
  Proof.
    revert i; induction l as [|x l IH]; intros i H; [reflexivity|].
    destruct i as [|i]; cbn [length] in H; [lia|]. cbn [upd]. rewrite IH by lia. reflexivity.
  Qed.

  Lemma upd_upd_same {A} (l : list A) i v w : upd (upd l i v) i w = upd l i w.
  Proof.
    revert i; induction l as [|x l IH]; intros i; [reflexivity|].
    destruct i as [|i]; cbn [upd]; [reflexivity|now rewrite IH].
  Qed.

  Lemma upd_upd_comm {A} (l : list A) i j v w :
    i <> j -> upd (upd l i v) j w = upd (upd l j w) i v.
  Proof.
    revert i j; induction l as [|x l IH]; intros i j H; [reflexivity|].
    destruct i as [|i], j as [|j]; cbn [upd]; try reflexivity; [lia|].
    rewrite IH by lia. reflexivity.
  Qed.

  Lemma upd_len {A} (l : list A) i v : length (upd l i v) = length l.
  Proof.
    revert i; induction l as [|x l IH]; intros i; destruct i; cbn [upd length]; auto.
  Qed.

  (** [upd_at st pl i f]: apply [f] to infoset [(pl, i)] *)
  Definition upd_at (st : pstate) (pl : bool) (i : nat) (f : rinfo -> rinfo) : pstate :=
    ri_set st pl i (f (ri_get st pl i)).

  Lemma apply_incr_upd_at st x :
    apply_incr st x = upd_at st (incr_pl x) (incr_ix x) (incr_fn x).
  Proof. reflexivity. Qed.

  Lemma ri_get_upd_at st pl i f pl' i' :
    ri_get (upd_at st pl i f) pl' i' =
    if Bool.eqb pl pl' && Nat.eqb i i' && Nat.ltb i (length (ps_get st pl))
    then f (ri_get st pl i) else ri_get st pl' i'.
  Proof.
    destruct st as [l1 l2].
    unfold upd_at, ri_get, ri_set, ps_set, ps_get.
    destruct pl, pl'; cbn [fst snd Bool.eqb andb]; try reflexivity; rewrite nth_upd;
      destruct (Nat.eqb_spec i i') as [->|Hne]; cbn [andb]; reflexivity.
  Qed.

  Lemma upd_at_comm st pl i f pl' i' g :
    ((pl, i) <> (pl', i') \/ (forall r, f (g r) = g (f r))) ->
    upd_at (upd_at st pl i f) pl' i' g = upd_at (upd_at st pl' i' g) pl i f.
  Proof.
    intros H.
    destruct (Bool.bool_dec pl pl') as [<-|Hpl].
    - destruct (Nat.eq_dec i i') as [<-|Hi].
      + (* same infoset *)
        destruct H as [H|H]; [congruence|].
        destruct st as [l1 l2]. unfold upd_at, ri_get, ri_set, ps_set, ps_get.
        destruct pl; cbn [fst snd]; rewrite !nth_upd, !upd_upd_same, Nat.eqb_refl; cbn [andb];
          (destruct (Nat.ltb_spec i (length l1)); destruct (Nat.ltb_spec i (length l2));
           try (rewrite H; reflexivity); rewrite !upd_oob by lia; reflexivity).
      + destruct st as [l1 l2]. unfold upd_at, ri_get, ri_set, ps_set, ps_get.
        destruct pl; cbn [fst snd]; rewrite !nth_upd;
          destruct (Nat.eqb_spec i i'); try lia; destruct (Nat.eqb_spec i' i); try lia;
          cbn [andb]; rewrite upd_upd_comm by lia; reflexivity.
    - destruct st as [l1 l2]. unfold upd_at, ri_get, ri_set, ps_set, ps_get.
      destruct pl, pl'; try congruence; cbn [fst snd]; reflexivity.
  Qed.

  (** ** increments never write [strat] *)
  Lemma incr_fn_strat x ri : strat (incr_fn x ri) = strat ri.
  Proof. destruct x; reflexivity. Qed.

  Lemma apply_incr_strat_pt st x pl i : strat_view (apply_incr st x) pl i = strat_view st pl i.
  Proof.
    unfold strat_view. rewrite apply_incr_upd_at, ri_get_upd_at.
    destruct (Bool.eqb_spec (incr_pl x) pl) as [<-|]; cbn [andb]; [|reflexivity].
    destruct (Nat.eqb_spec (incr_ix x) i) as [<-|]; cbn [andb]; [|reflexivity].
    destruct (Nat.ltb _ _); [apply incr_fn_strat|reflexivity].
  Qed.

  Lemma apply_incr_strat st x : strat_view (apply_incr st x) = strat_view st.
  Proof.
    apply functional_extensionality; intros pl. apply functional_extensionality; intros i.
    apply apply_incr_strat_pt.
  Qed.

  Lemma fold_incr_strat l st : strat_view (fold_left apply_incr l st) = strat_view st.
  Proof.
    revert st; induction l as [|x l IH]; intros st; cbn [fold_left]; [reflexivity|].
    rewrite IH. apply apply_incr_strat.
  Qed.

  (** increments keep the shape of the state *)
  Lemma apply_incr_len st x pl :
    length (ps_get (apply_incr st x) pl) = length (ps_get st pl).
  Proof.
    destruct st as [l1 l2]. unfold apply_incr, ri_set, ps_set, ps_get.
    destruct (incr_pl x), pl; cbn [fst snd]; try reflexivity; apply upd_len.
  Qed.
End Incr.

Arguments incr : clear implicits.
Arguments incr {NN}.

(** ** Theorems over the reals *)
Local Notation nodeR := (@node RNum).
Local Notation pstateR := (@pstate RNum).
Local Notation rinfoR := (@rinfo RNum).
Local Notation incrR := (@incr RNum).
Local Open Scope R_scope.

(** *** the increments commute *)
Lemma cs_add_comm (w w' : R) (s c : list R) :
  map (fun vc : R * R => snd vc + w * fst vc)
      (combine s (map (fun vc : R * R => snd vc + w' * fst vc) (combine s c))) =
  map (fun vc : R * R => snd vc + w' * fst vc)
      (combine s (map (fun vc : R * R => snd vc + w * fst vc) (combine s c))).
Proof.
  revert c; induction s as [|x s IH]; intros c; [reflexivity|].
  destruct c as [|y c]; [reflexivity|]. cbn [combine map fst snd]. rewrite IH. f_equal. lra.
Qed.

Lemma reg_add_comm (cr : list R) a b x y :
  upd (upd cr a (nth a cr 0 + x)) b (nth b (upd cr a (nth a cr 0 + x)) 0 + y) =
  upd (upd cr b (nth b cr 0 + y)) a (nth a (upd cr b (nth b cr 0 + y)) 0 + x).
Proof.
  revert a b; induction cr as [|v cr IH]; intros a b; [reflexivity|].
  destruct a as [|a], b as [|b]; cbn [upd nth]; try reflexivity.
  - f_equal. lra.
  - f_equal. apply IH.
Qed.

Lemma reg_sub_comm (cr : list R) a x y :
  map (fun c => c - y) (upd cr a (nth a cr 0 + x)) =
  upd (map (fun c => c - y) cr) a (nth a (map (fun c => c - y) cr) 0 + x).
Proof.
  revert a; induction cr as [|v cr IH]; intros a; [reflexivity|].
  destruct a as [|a]; cbn [upd nth map]; f_equal; [lra|apply IH].
Qed.

Lemma incr_fn_comm (x y : incrR) (r : rinfoR) :
  incr_fn x (incr_fn y r) = incr_fn y (incr_fn x r).
Proof.
  destruct x as [pl i w|pl i a v|pl i v], y as [pl' i' w'|pl' i' a' v'|pl' i' v'];
    unfold incr_fn; cbn [cum_regret cum_strat strat];
    change (add RNum) with Rplus; change (mul RNum) with Rmult; change (sub RNum) with Rminus;
    change (zero RNum) with 0; try reflexivity; f_equal.
  - apply cs_add_comm.
  - apply reg_add_comm.
  - symmetry. apply reg_sub_comm.
  - apply reg_sub_comm.
  - rewrite !map_map. apply map_ext. intros c. lra.
Qed.

Theorem apply_incr_comm (st : pstateR) (x y : incrR) :
  apply_incr (apply_incr st x) y = apply_incr (apply_incr st y) x.
Proof.
  rewrite !apply_incr_upd_at. apply upd_at_comm. right. intros r. apply incr_fn_comm.
Qed.

(** *** every schedule: any permutation of the increments gives the same state *)
Theorem apply_perm (l l' : list incrR) (st : pstateR) :
  Permutation l l' -> fold_left apply_incr l st = fold_left apply_incr l' st.
Proof.
  intros H; revert st; induction H as [|x l l' H IH|x y l|l l' l'' H1 IH1 H2 IH2]; intros st.
  - reflexivity.
  - cbn [fold_left]. apply IH.
  - cbn [fold_left]. rewrite apply_incr_comm. reflexivity.
  - rewrite IH1. apply IH2.
Qed.

(** *** [vrec] = pure value + fold of the pure increments *)
Section VrecIncs.
  Context (chance : list (list R)) (sampled : bool) (draw : @oracle RNum) (pass : N).

  Local Notation vrecR := (@vrec RNum chance sampled draw pass).
  Local Notation vvalR := (@vval RNum chance sampled draw pass).
  Local Notation vincsR := (@vincs RNum chance sampled draw pass).

  Definition VI (c : nodeR) : Prop :=
    forall pc p1 p2 st,
      vrecR c pc p1 p2 st =
      (vvalR (strat_view st) c, fold_left apply_incr (vincsR (strat_view st) c pc p1 p2) st).

  Lemma vpick_incs pc p1 p2 st ks k :
    Forall VI ks ->
    vpick vrecR pc p1 p2 st ks k =
    (val_pick (vvalR (strat_view st)) ks k,
     fold_left apply_incr (incs_pick (vincsR (strat_view st)) pc p1 p2 ks k) st).
  Proof.
    intros HK; revert k; induction HK as [|c ks Hc HK IH]; intros k;
      cbn [vpick val_pick incs_pick]; [reflexivity|].
    destruct k as [|k]; [|apply IH]. rewrite Hc. reflexivity.
  Qed.

  Lemma vgo_chance_incs pc p1 p2 ks :
    Forall VI ks -> forall ps ex st,
    vgo_chance vrecR pc p1 p2 ps ks ex st =
    (val_chance (vvalR (strat_view st)) ps ks ex,
     fold_left apply_incr (incs_chance (vincsR (strat_view st)) pc p1 p2 ps ks) st).
  Proof.
    induction 1 as [|c ks Hc HK IH]; intros ps ex st; destruct ps as [|p ps];
      cbn [vgo_chance val_chance incs_chance]; try reflexivity.
    rewrite Hc, IH, fold_left_app, fold_incr_strat. reflexivity.
  Qed.

  Lemma vgo_player_incs pl i pc p1 p2 mult ks :
    Forall VI ks -> forall ss ai e1 e st,
    vgo_player vrecR pl i pc p1 p2 mult ks ss ai e1 e st =
    (val_player (vvalR (strat_view st)) ks ss e1,
     exp_player (vvalR (strat_view st)) mult ks ss e,
     fold_left apply_incr
               (incs_player (vvalR (strat_view st)) (vincsR (strat_view st))
                            pl i pc p1 p2 mult ks ss ai) st).
  Proof.
    induction 1 as [|c ks Hc HK IH]; intros ss ai e1 e st; destruct ss as [|prob ss];
      cbn [vgo_player val_player exp_player incs_player]; try reflexivity.
    change (mul RNum) with Rmult. change (add RNum) with Rplus.
    destruct pl; cbv beta iota zeta; rewrite Hc;
      match goal with
      | |- context [@ri_set RNum ?s ?b i _] =>
          match goal with
          | |- context [Rmult (Rmult ?u mult) prob] =>
              change (@ri_set RNum s b i _) with (@apply_incr RNum s (@IReg RNum b i ai (u * mult)))
          end
      end;
      rewrite IH, fold_left_app; cbn [fold_left];
      rewrite apply_incr_strat, fold_incr_strat; reflexivity.
  Qed.

End VrecIncs.

Theorem vrec_incs chance sampled draw pass n pc p1 p2 st :
  @vrec RNum chance sampled draw pass n pc p1 p2 st =
  (@vval RNum chance sampled draw pass (strat_view st) n,
   fold_left apply_incr (@vincs RNum chance sampled draw pass (strat_view st) n pc p1 p2) st).
Proof.
  revert pc p1 p2 st. change (VI chance sampled draw pass n).
  induction n as [x|ci kids IH|pl i kids IH] using node_ind'; intros pc p1 p2 st.
  - reflexivity.
  - rewrite vrec_Chance. cbn [vval vincs].
    destruct sampled; [now apply vpick_incs|now apply vgo_chance_incs].
  - rewrite vrec_Player. cbv zeta.
    set (mine := if pl then p1 else p2).
    set (mult := if pl then pc * p2 else - p1 * pc).
    change (@ri_set RNum st pl i _) with (@apply_incr RNum st (@IStrat RNum pl i mine)).
    rewrite (vgo_player_incs chance sampled draw pass pl i pc p1 p2 mult kids IH).
    rewrite apply_incr_strat.
    change (strat (@ri_get RNum st pl i)) with (strat_view st pl i).
    set (st2 := fold_left apply_incr _ (apply_incr st (IStrat pl i mine))).
    set (e := @exp_player RNum _ mult kids _ 0).
    change (@ri_set RNum st2 pl i _) with (@apply_incr RNum st2 (@IRegAll RNum pl i e)).
    cbn [vval vincs]. change (zero RNum) with 0. f_equal.
    cbn [fold_left]. rewrite fold_left_app. reflexivity.
Qed.

(** [fold_left apply_incr] over a concatenation, and over a list of lists *)
Lemma fold_incr_app (l1 l2 : list incrR) st :
  fold_left apply_incr (l1 ++ l2) st = fold_left apply_incr l2 (fold_left apply_incr l1 st).
Proof. apply fold_left_app. Qed.
