(** * ExternalMartingale: over a whole run of the external-sampled solver the sampled regret
    increments are a martingale-difference estimator of the true counterfactual regret
    increments.

    One iteration of the external method makes two passes: player one is active in the
    first (chance draws [d1], actions of player two [e1] drawn from player two's current
    strategies), then player one's infosets are advanced, then player two is active in the
    second pass (chance draws [d2], actions of player one [e2] drawn from player one's
    *new* strategies), then player two's infosets are advanced.  The weights of the draws
    therefore depend on the state: the expectation over a run threads the state
    ([expect_run_ext]).

    - [ext_step]: the model's own [one_iter g External] under the oracle [draw_iter] that
      answers with the four draw vectors of the iteration; [ext_step_eq] exhibits the state
      [ext_mid] between the two passes.
    - [ext_md_step]: conditional on the state at the start of an iteration, the sampled
      increment of the iteration and the true increment (at the strategies in force during
      the pass of the active player) have the same mean.
    - [ext_run_tower]: E[sum_t sampled_t] = E[sum_t true_t] over [n] iterations. *)
From Coq Require Import Reals List Lra Lia Bool Arith NArith.
From Cfr.theories Require Import Num RInst Tree GameWF Strat Eval Solve Valid TruncProofs
     SolveValidProofs LoopProofs Incr IterChar RmPotential CfMass CfrRate ExtIncr SampledRate
     ExternalProofs ExternalRate Unbiased ExternalUnbiased.
Import ListNotations.
Open Scope R_scope.

Local Notation nodeR := (@node RNum).
Local Notation gameR := (@game RNum).
Local Notation pstateR := (@pstate RNum).
Local Notation paramsR := (@params RNum).
Local Notation oracleR := (@oracle RNum).

(** the draws of one iteration *)
Record edraws := mkED { ed_d1 : list nat; ed_e1 : list nat; ed_d2 : list nat; ed_e2 : list nat }.

(** the oracle of iteration [it]: the first pass consults chance with pass index
    [2 (it - 1)] and player two's infosets with [it - 1], the second pass chance with
    [2 (it - 1) + 1] and player one's infosets with [it] *)
Definition draw_iter (noff : nat) (it : N) (x : edraws) : oracleR :=
  fun kind id pass _ =>
    if kind then (if N.eqb pass (2 * (it - 1)) then nth id (ed_d1 x) O else nth id (ed_d2 x) O)
    else (if N.eqb pass (it - 1) then nth (id - noff) (ed_e1 x) O else nth id (ed_e2 x) O).

Lemma expect_ext_all rows (f h : list nat -> R) :
  (forall d, f d = h d) -> expect rows f = expect rows h.
Proof. intros H. apply expect_ext. intros d _. apply H. Qed.

Section ExtRun.
  Context (g : gameR) (p : paramsR).
  Local Notation noff := (length (g_infos1 g)).
  Local Notation chance := (g_chance g).
  Local Notation root := (g_root g).
  Local Notation IA := (InvA (arities g true) (arities g false)).

  (** one iteration of the model's external-sampled solver *)
  Definition ext_step (it : N) (st : pstateR) (x : edraws) : pstateR :=
    fst (@one_iter RNum g External (draw_iter noff it x) p it st).

  (** the state between the two passes: player one's pass, then [advance] of its infosets *)
  Definition ext_mid (it : N) (st : pstateR) (d1 e1 : list nat) : pstateR :=
    let st1 := snd (@erec RNum chance (draw2 true noff d1 e1) (2 * (it - 1))%N (it - 1)%N noff
                          true root st) in
    (fst (@advance_all RNum p it (it - 1)%N (fst st1) 0), snd st1).

  Lemma ext_step_eq it st x :
    (1 <= it)%N ->
    ext_step it st x =
    let st2 := ext_mid it st (ed_d1 x) (ed_e1 x) in
    let st3 := snd (@erec RNum chance (draw2 false noff (ed_d2 x) (ed_e2 x)) (2 * (it - 1) + 1)%N it
                          noff false root st2) in
    (fst st3, fst (@advance_all RNum p it it (snd st3) 0)).
  Proof.
    intros Hit. unfold ext_step, ext_mid. cbn [one_iter]. rewrite external_iter_eq. cbv zeta.
    cbn [fst].
    rewrite (one_draw_per_cell chance (draw_iter noff it x) (draw2 true noff (ed_d1 x) (ed_e1 x))
                               (2 * (it - 1))%N (it - 1)%N noff true root st).
    2:{ intros ci. unfold draw_iter, draw2. now rewrite N.eqb_refl. }
    2:{ intros pl i. unfold draw_iter, draw2. now rewrite N.eqb_refl. }
    set (st2 := (fst (advance_all _ _ _ _ _), snd (snd (erec _ _ _ _ _ true _ _)))).
    rewrite (one_draw_per_cell chance (draw_iter noff it x) (draw2 false noff (ed_d2 x) (ed_e2 x))
                               (2 * (it - 1) + 1)%N it noff false root st2).
    - reflexivity.
    - intros ci. unfold draw_iter, draw2.
      destruct (N.eqb_spec (2 * (it - 1) + 1) (2 * (it - 1))) as [E|_]; [lia|reflexivity].
    - intros pl i. unfold draw_iter, draw2.
      destruct (N.eqb_spec it (it - 1)) as [E|_]; [lia|]. now rewrite Nat.sub_0_r.
  Qed.

  (** *** Invariants *)
  Lemma ext_step_inv it st x : IA st -> IA (ext_step it st x).
  Proof. intros H. exact (one_iter_inv _ _ g External _ p it st H). Qed.

  Lemma ext_mid_inv it st d1 e1 : IA st -> IA (ext_mid it st d1 e1).
  Proof.
    intros H. unfold ext_mid. cbv zeta.
    pose proof (erec_inv _ _ chance (draw2 true noff d1 e1) (2 * (it - 1))%N (it - 1)%N noff true
                         root st H) as [H1 H2].
    split; cbn [fst snd]; [now apply advance_all_inv|assumption].
  Qed.

  (** *** The increments of one iteration at [(me, i, a)] *)
  Definition ext_pass_inc (me : bool) (i a : nat) (cpass ppass : N) (st : pstateR)
             (d e : list nat) : R :=
    reg_sum me i a (map tr (eincs chance (draw2 me noff d e) cpass ppass noff me (strat_view st) root)).

  (** the pass of player [me] is what adds to its cumulative regrets *)
  Lemma ext_pass_inc_spec me i a cpass ppass st d e :
    (a < length (cum_regret (@ri_get RNum st me i)))%nat ->
    nth a (cum_regret (@ri_get RNum
       (snd (@erec RNum chance (draw2 me noff d e) cpass ppass noff me root st)) me i)) 0 =
    nth a (cum_regret (@ri_get RNum st me i)) 0 + ext_pass_inc me i a cpass ppass st d e.
  Proof.
    intros Ha. rewrite erec_incs. cbn [snd]. rewrite e_fold_tr.
    now rewrite fold_incr_regret_nth.
  Qed.

  (** the state whose strategies are in force during the pass of player [me] *)
  Definition ext_state_of (me : bool) (it : N) (st : pstateR) (x : edraws) : pstateR :=
    if me then st else ext_mid it st (ed_d1 x) (ed_e1 x).

  Definition ext_sampled_inc (me : bool) (i a : nat) (it : N) (st : pstateR) (x : edraws) : R :=
    if me then ext_pass_inc true i a (2 * (it - 1))%N (it - 1)%N st (ed_d1 x) (ed_e1 x)
    else ext_pass_inc false i a (2 * (it - 1) + 1)%N it (ext_mid it st (ed_d1 x) (ed_e1 x))
                      (ed_d2 x) (ed_e2 x).

  Definition ext_true_inc (me : bool) (i a : nat) (it : N) (st : pstateR) (x : edraws) : R :=
    cfr_inc chance (strat_view (ext_state_of me it st x)) me i a root 1 1 1.

  (** *** The expectation over the draws of one iteration started in state [st] *)
  Definition prows (st : pstateR) (pl : bool) : list (list R) :=
    map (strat_view st pl) (seq 0 (length (g_infos g pl))).

  Definition expect_iter (it : N) (st : pstateR) (f : edraws -> R) : R :=
    expect (prows st false) (fun e1 =>
      expect chance (fun d1 =>
        expect (prows (ext_mid it st d1 e1) true) (fun e2 =>
          expect chance (fun d2 => f (mkED d1 e1 d2 e2))))).

  Lemma expect_iter_ext it st (f h : edraws -> R) :
    (forall x, f x = h x) -> expect_iter it st f = expect_iter it st h.
  Proof.
    intros H. unfold expect_iter.
    apply expect_ext_all; intros e1. apply expect_ext_all; intros d1.
    apply expect_ext_all; intros e2. apply expect_ext_all; intros d2. apply H.
  Qed.

  Lemma expect_iter_plus it st (f h : edraws -> R) :
    expect_iter it st (fun x => f x + h x) = expect_iter it st f + expect_iter it st h.
  Proof.
    unfold expect_iter. rewrite <- expect_plus.
    apply expect_ext_all; intros e1. rewrite <- expect_plus.
    apply expect_ext_all; intros d1. rewrite <- expect_plus.
    apply expect_ext_all; intros e2. now rewrite <- expect_plus.
  Qed.

  Context (HWF : WFgame g) (HPR : PerfectRecall g) (HCO : ChanceOK g) (HNR : NoRepeat root).

  Lemma prows_sums st pl : IA st -> Forall (fun r => Rsum r = 1) (prows st pl).
  Proof.
    intros HI. unfold prows. apply Forall_forall. intros r Hr.
    apply in_map_iff in Hr as (j & <- & Hj). apply in_seq in Hj.
    apply Inv_strat_sum; [eapply Inv_of_InvA; eauto|].
    rewrite (IA_len g st pl HI). unfold NI. lia.
  Qed.

  Lemma expect_iter_const it st c : IA st -> expect_iter it st (fun _ => c) = c.
  Proof.
    intros HI. unfold expect_iter. pose proof (ChanceOK_sums g HCO) as Hc.
    rewrite (expect_ext_all _ _ (fun _ => c)); [apply expect_const; now apply prows_sums|].
    intros e1. rewrite (expect_ext_all _ _ (fun _ => c)); [now apply expect_const|].
    intros d1. rewrite (expect_ext_all _ _ (fun _ => c)).
    - apply expect_const. apply prows_sums. now apply ext_mid_inv.
    - intros e2. now apply expect_const.
  Qed.

  (** a function of the first pass only *)
  Lemma expect_iter_first it st (f : list nat -> list nat -> R) :
    IA st ->
    expect_iter it st (fun x => f (ed_d1 x) (ed_e1 x)) =
    expect (prows st false) (fun e1 => expect chance (fun d1 => f d1 e1)).
  Proof.
    intros HI. unfold expect_iter. pose proof (ChanceOK_sums g HCO) as Hc.
    apply expect_ext_all; intros e1. apply expect_ext_all; intros d1. cbn [ed_d1 ed_e1].
    rewrite (expect_ext_all _ _ (fun _ => f d1 e1)).
    - apply expect_const. apply prows_sums. now apply ext_mid_inv.
    - intros e2. now apply expect_const.
  Qed.

  (** ** The martingale-difference property of one iteration *)
  Theorem ext_md_step me i a it st :
    IA st ->
    expect_iter it st (ext_sampled_inc me i a it st) = expect_iter it st (ext_true_inc me i a it st).
  Proof.
    intros HI. destruct me.
    - (* player one: first pass, strategies of [st] *)
      unfold ext_sampled_inc, ext_true_inc, ext_state_of.
      rewrite expect_iter_const by assumption.
      rewrite (expect_iter_first it st
                 (fun d1 e1 => ext_pass_inc true i a (2 * (it - 1))%N (it - 1)%N st d1 e1))
        by assumption.
      unfold ext_pass_inc, prows.
      exact (external_unbiased_game g st true (2 * (it - 1))%N (it - 1)%N i a HWF HPR HCO HI HNR).
    - (* player two: second pass, strategies of the state between the passes *)
      unfold ext_sampled_inc, ext_true_inc, ext_state_of, expect_iter.
      pose proof (ChanceOK_sums g HCO) as Hc.
      apply expect_ext_all; intros e1. apply expect_ext_all; intros d1. cbn [ed_d1 ed_e1 ed_d2 ed_e2].
      assert (HI2 : IA (ext_mid it st d1 e1)) by now apply ext_mid_inv.
      rewrite (expect_ext_all _ (fun _ => expect chance (fun _ => cfr_inc _ _ _ _ _ _ _ _ _))
                              (fun _ => cfr_inc chance (strat_view (ext_mid it st d1 e1)) false i a
                                                root 1 1 1))
        by (intros e2; now apply expect_const).
      rewrite expect_const by now apply prows_sums.
      unfold ext_pass_inc, prows.
      exact (external_unbiased_game g (ext_mid it st d1 e1) false (2 * (it - 1) + 1)%N it i a
                                    HWF HPR HCO HI2 HNR).
  Qed.

  (** ** The expectation over a run: the state is threaded through *)
  Fixpoint expect_run_ext (n : nat) (it : N) (st : pstateR) (f : list edraws -> R) : R :=
    match n with
    | O => f []
    | S n' => expect_iter it st
                (fun x => expect_run_ext n' (it + 1) (ext_step it st x) (fun xs => f (x :: xs)))
    end.

  Lemma expect_run_ext_ext n : forall it st (f h : list edraws -> R),
    (forall xs, f xs = h xs) -> expect_run_ext n it st f = expect_run_ext n it st h.
  Proof.
    induction n as [|n IH]; intros it st f h H; cbn [expect_run_ext]; [apply H|].
    apply expect_iter_ext. intros x. apply IH. intros xs. apply H.
  Qed.

  Lemma expect_run_ext_plus n : forall it st (f h : list edraws -> R),
    expect_run_ext n it st (fun xs => f xs + h xs) =
    expect_run_ext n it st f + expect_run_ext n it st h.
  Proof.
    induction n as [|n IH]; intros it st f h; cbn [expect_run_ext]; [reflexivity|].
    rewrite <- expect_iter_plus. apply expect_iter_ext. intros x. apply IH.
  Qed.

  Lemma expect_run_ext_const n c : forall it st, IA st -> expect_run_ext n it st (fun _ => c) = c.
  Proof.
    induction n as [|n IH]; intros it st HI; cbn [expect_run_ext]; [reflexivity|].
    rewrite (expect_iter_ext it st _ (fun _ => c)); [now apply expect_iter_const|].
    intros x. apply IH. now apply ext_step_inv.
  Qed.

  (** the run itself, and the sums of the increments along it *)
  Fixpoint ext_run_from (it : N) (st : pstateR) (xs : list edraws) : pstateR :=
    match xs with
    | [] => st
    | x :: xs' => ext_run_from (it + 1) (ext_step it st x) xs'
    end.

  Lemma ext_run_from_inv xs : forall it st, IA st -> IA (ext_run_from it st xs).
  Proof.
    induction xs as [|x xs IH]; intros it st H; cbn [ext_run_from]; [exact H|].
    apply IH. now apply ext_step_inv.
  Qed.

  Fixpoint ext_sampled_sum (me : bool) (i a : nat) (it : N) (st : pstateR) (xs : list edraws) : R :=
    match xs with
    | [] => 0
    | x :: xs' => ext_sampled_inc me i a it st x + ext_sampled_sum me i a (it + 1) (ext_step it st x) xs'
    end.

  Fixpoint ext_true_sum (me : bool) (i a : nat) (it : N) (st : pstateR) (xs : list edraws) : R :=
    match xs with
    | [] => 0
    | x :: xs' => ext_true_inc me i a it st x + ext_true_sum me i a (it + 1) (ext_step it st x) xs'
    end.

  (** ** The tower theorem *)
  Theorem ext_run_tower_from me i a n : forall it st,
    IA st ->
    expect_run_ext n it st (ext_sampled_sum me i a it st) =
    expect_run_ext n it st (ext_true_sum me i a it st).
  Proof.
    induction n as [|n IH]; intros it st HI; cbn [expect_run_ext]; [reflexivity|].
    cbn [ext_sampled_sum ext_true_sum].
    rewrite (expect_iter_ext it st _
               (fun x => ext_sampled_inc me i a it st x +
                         expect_run_ext n (it + 1) (ext_step it st x)
                                        (ext_true_sum me i a (it + 1) (ext_step it st x)))).
    2:{ intros x. rewrite expect_run_ext_plus, expect_run_ext_const by now apply ext_step_inv.
        f_equal. apply IH. now apply ext_step_inv. }
    rewrite expect_iter_plus, ext_md_step, <- expect_iter_plus by assumption.
    apply expect_iter_ext. intros x.
    now rewrite expect_run_ext_plus, expect_run_ext_const by now apply ext_step_inv.
  Qed.

  Theorem ext_run_tower me i a n :
    expect_run_ext n 1 (@init_state RNum g) (ext_sampled_sum me i a 1 (@init_state RNum g)) =
    expect_run_ext n 1 (@init_state RNum g) (ext_true_sum me i a 1 (@init_state RNum g)).
  Proof. apply ext_run_tower_from. now apply init_InvA. Qed.
End ExtRun.

(** ** Non-vacuity: matching pennies, two iterations *)
Example mp_ext_run_tower (p : paramsR) me i a :
  expect_run_ext mp_game p 2 1 (@init_state RNum mp_game)
                 (ext_sampled_sum mp_game p me i a 1 (@init_state RNum mp_game)) =
  expect_run_ext mp_game p 2 1 (@init_state RNum mp_game)
                 (ext_true_sum mp_game p me i a 1 (@init_state RNum mp_game)).
Proof. exact (ext_run_tower mp_game p mp_WF mp_PR mp_ChanceOK mp_NoRepeat me i a 2). Qed.

(** ** The final statements *)
Check ext_step_eq :
  forall (g : gameR) (p : paramsR) it st x,
    (1 <= it)%N ->
    ext_step g p it st x =
    let st2 := ext_mid g p it st (ed_d1 x) (ed_e1 x) in
    let st3 := snd (@erec RNum (g_chance g) (draw2 false (length (g_infos1 g)) (ed_d2 x) (ed_e2 x))
                          (2 * (it - 1) + 1)%N it (length (g_infos1 g)) false (g_root g) st2) in
    (fst st3, fst (@advance_all RNum p it it (snd st3) 0)).
Check ext_md_step :
  forall (g : gameR) (p : paramsR),
    WFgame g -> PerfectRecall g -> ChanceOK g -> NoRepeat (g_root g) ->
    forall me i a it st,
      InvA (arities g true) (arities g false) st ->
      expect_iter g p it st (ext_sampled_inc g p me i a it st) =
      expect_iter g p it st (ext_true_inc g p me i a it st).
Check ext_run_tower_from :
  forall (g : gameR) (p : paramsR),
    WFgame g -> PerfectRecall g -> ChanceOK g -> NoRepeat (g_root g) ->
    forall me i a n it st,
      InvA (arities g true) (arities g false) st ->
      expect_run_ext g p n it st (ext_sampled_sum g p me i a it st) =
      expect_run_ext g p n it st (ext_true_sum g p me i a it st).
Check ext_run_tower :
  forall (g : gameR) (p : paramsR),
    WFgame g -> PerfectRecall g -> ChanceOK g -> NoRepeat (g_root g) ->
    forall me i a n,
      expect_run_ext g p n 1 (@init_state RNum g) (ext_sampled_sum g p me i a 1 (@init_state RNum g)) =
      expect_run_ext g p n 1 (@init_state RNum g) (ext_true_sum g p me i a 1 (@init_state RNum g)).
