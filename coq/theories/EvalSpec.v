(** * EvalSpec: what the evaluator ([regret.rs]) is supposed to compute.

    Specification-level definitions, independent of the recursion scheme of the model
    ([Eval.v]): no accumulator, no stack order, no skipping of zero-probability actions.

    - [u]       expected payoff of player one under a behavioural profile and the chance
                distribution, by structural recursion on the compact tree;
    - [leaves]  the terminal nodes with their reach probabilities ([u] is the sum of
                reach times payoff: [u_leaves] in [EvalProofs.v]);
    - [u_me]    the utility of player [me] when [me] plays [tau] and the opponent [so];
    - [StratOf] / [PureOf]  behavioural / pure strategies of a player of a game. *)
From Coq Require Import Reals List Bool Arith Lra Lia.
From Cfr.theories Require Import Num RInst Tree Eval Valid.
Import ListNotations.
Open Scope R_scope.

Local Notation node := (@node RNum).
Local Notation game := (@game RNum).

(** [sum_k a_k * b_k] over the common prefix of the two lists *)
Definition dot (a b : list R) : R := Rsum (map (fun p => fst p * snd p) (combine a b)).

(** row [i] of a table of distributions (the empty row when out of range) *)
Definition rowR (tbl : list (list R)) (i : nat) : list R := nth i tbl [].

Lemma rowR_row tbl i : rowR tbl i = @row RNum tbl i.
Proof. reflexivity. Qed.

(** ** Expected payoff of player one *)
Fixpoint u (chance s1 s2 : list (list R)) (n : node) : R :=
  match n with
  | Term x => x
  | Chance ci kids => dot (rowR chance ci) (map (u chance s1 s2) kids)
  | Player pl i kids => dot (rowR (if pl then s1 else s2) i) (map (u chance s1 s2) kids)
  end.

(** the same, written as a plain sum over [combine] of probabilities and children *)
Lemma dot_map {A} (f : A -> R) ps (ks : list A) :
  dot ps (map f ks) = Rsum (map (fun pk => fst pk * f (snd pk)) (combine ps ks)).
Proof.
  unfold dot. revert ks; induction ps as [|p ps IH]; intros [|k ks]; cbn [map combine Rsum fst snd];
    try reflexivity. now rewrite IH.
Qed.

Lemma u_Chance chance s1 s2 ci kids :
  u chance s1 s2 (Chance ci kids) =
  Rsum (map (fun pk => fst pk * u chance s1 s2 (snd pk)) (combine (rowR chance ci) kids)).
Proof. cbn [u]. apply dot_map. Qed.

Lemma u_Player chance s1 s2 pl i kids :
  u chance s1 s2 (Player pl i kids) =
  Rsum (map (fun pk => fst pk * u chance s1 s2 (snd pk))
            (combine (rowR (if pl then s1 else s2) i) kids)).
Proof. cbn [u]. apply dot_map. Qed.

Definition u_game (g : game) (s1 s2 : list (list R)) : R := u (g_chance g) s1 s2 (g_root g).

(** ** Leaf enumeration: (reach probability, payoff) of every terminal node *)
Definition scale_leaves (p : R) (l : list (R * R)) : list (R * R) :=
  map (fun rx => (p * fst rx, snd rx)) l.

Fixpoint leaves (chance s1 s2 : list (list R)) (n : node) : list (R * R) :=
  match n with
  | Term x => [(1, x)]
  | Chance ci kids =>
      concat (map (fun pl => scale_leaves (fst pl) (snd pl))
                  (combine (rowR chance ci) (map (leaves chance s1 s2) kids)))
  | Player pl i kids =>
      concat (map (fun pl => scale_leaves (fst pl) (snd pl))
                  (combine (rowR (if pl then s1 else s2) i) (map (leaves chance s1 s2) kids)))
  end.

(** ** Utility of player [me] playing [tau] against [so] *)
Definition u_me (g : game) (me : bool) (tau so : list (list R)) : R :=
  if me then u_game g tau so else - u_game g so tau.

(** ** Strategies *)
Definition NonnegRows (s : list (list R)) : Prop := Forall (Forall (fun x => 0 <= x)) s.

(** a behavioural strategy of player [me]: one distribution per infoset, of the right arity *)
Definition StratOf (g : game) (me : bool) (tau : list (list R)) : Prop :=
  Forall VRow tau /\ map (@length R) tau = arities g me.

Fixpoint onehot (a n : nat) {struct n} : list R :=
  match n with
  | O => []
  | S n' => match a with O => 1 :: repeat 0 n' | S a' => 0 :: onehot a' n' end
  end.

(** a pure strategy: every row puts probability one on a single action *)
Definition PureOf (g : game) (me : bool) (s : list (list R)) : Prop :=
  map (@length R) s = arities g me /\
  Forall (fun r => exists a, (a < length r)%nat /\ r = onehot a (length r)) s.
