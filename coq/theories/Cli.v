(** * Cli: model of the binary's pipeline after text parsing —
    [gambit.rs] ([get_global_info], [JoinedNode::into_game_node], [from_str]),
    [json.rs] ([State::into_game_node]) and the [Output] assembly of [main.rs].

    It starts from the *parsed* files: [serde_json] and [gambit-parser] (with its
    validation) are dependencies, not repository code.  Strings are numbers: the
    driver maps every infoset / action / outcome name to its rank in byte order, so
    that sorting by name is sorting by number; [numname k] is the name (rank) of the
    decimal string of the infoset number [k] (the fallback name of an unnamed infoset).

    Generic in [Num]: executed at binary64 against the binary, reasoned about at [R]. *)
From Coq Require Import List NArith Bool Arith.
From Cfr.theories Require Import Num Tree Strat Eval.
Import ListNotations.

(** why a file is rejected after parsing (the documented diagnostics) *)
Inductive reject :=
| RDuplicateInfosets      (* #duplicate-infosets: numeric fallback clash or one name for two infosets *)
| RNonFinite              (* "received non-finite payoffs in gambit format" *)
| RNotConstantSum         (* #constant-sum *)
| RGame (e : gerr).       (* #game-error: [Game::from_root] refused the tree *)

Inductive loaded (A : Type) := Loaded (a : A) | Rejected (r : reject).
Arguments Loaded {A}. Arguments Rejected {A}.

Section Cli.
  Context {NN : Num}.
  Local Notation T := (T NN).
  Local Notation gnode := (@gnode NN).
  Local Notation game := (@game NN).

  (** ** JSON DSL ([json.rs]): maps are [BTreeMap]s, i.e. iterated in key order *)
  Inductive jnode :=
  | JTerm (x : T)
  | JChance (info : option N) (outs : list (N * (T * jnode)))      (* outcome name -> (prob, state) *)
  | JPlayer (pl : bool) (info : N) (acts : list (N * jnode)).      (* action name -> state *)

  (** stable insertion sort by key *)
  Fixpoint insert_by {A} (leb : A -> A -> bool) (x : A) (l : list A) : list A :=
    match l with
    | [] => [x]
    | y :: r => if leb x y then x :: l else y :: insert_by leb x r
    end.
  Definition sort_by {A} (leb : A -> A -> bool) (l : list A) : list A :=
    fold_right (insert_by leb) [] l.

  Fixpoint json_to_gnode (j : jnode) : gnode :=
    match j with
    | JTerm x => GTerm x
    | JChance info outs =>
        let kids := (fix go (l : list (N * (T * jnode))) : list (N * (T * gnode)) :=
                       match l with
                       | [] => []
                       | (k, (p, c)) :: r => (k, (p, json_to_gnode c)) :: go r
                       end) outs in
        GChance info (map snd (sort_by (fun a b => N.leb (fst a) (fst b)) kids))
    | JPlayer pl info acts =>
        let kids := (fix go (l : list (N * jnode)) : list (N * gnode) :=
                       match l with
                       | [] => []
                       | (k, c) :: r => (k, json_to_gnode c) :: go r
                       end) acts in
        GPlayer pl info (sort_by (fun a b => N.leb (fst a) (fst b)) kids)
    end.

  Definition load_tree (t : gnode) (sum : T) : loaded (game * T) :=
    match from_root t with
    | Ok g => Loaded (g, sum)
    | Err e => Rejected (RGame e)
    end.

  (** [json::from_state]: the constant is 0 *)
  Definition json_load (j : jnode) : loaded (game * T) := load_tree (json_to_gnode j) (zero NN).

  (** ** Gambit ([gambit.rs]).  Two players; payoffs are pairs.  [oid = 0] is the null
      outcome; a non-terminal node may repeat an outcome without its payoffs. *)
  Inductive enode :=
  | ETerm (oid : N) (pay : T * T)
  | EChance (info : N) (acts : list (N * T * enode)) (oid : N) (pay : option (T * T))
  | EPlayer (pl : bool) (info : N) (name : option N) (acts : list (N * enode)) (oid : N)
            (pay : option (T * T)).

  Fixpoint e_fold {A} (f : enode -> A -> A) (n : enode) (acc : A) {struct n} : A :=
    match n with
    | ETerm _ _ => f n acc
    | EChance _ acts _ _ =>
        (fix go (l : list (N * T * enode)) (acc : A) : A :=
           match l with [] => acc | (_, _, c) :: r => go r (e_fold f c acc) end) acts (f n acc)
    | EPlayer _ _ _ acts _ _ =>
        (fix go (l : list (N * enode)) (acc : A) : A :=
           match l with [] => acc | (_, c) :: r => go r (e_fold f c acc) end) acts (f n acc)
    end.

  Fixpoint alookup {A} (k : N) (l : list (N * A)) : option A :=
    match l with
    | [] => None
    | (k', v) :: r => if N.eqb k k' then Some v else alookup k r
    end.

  (** outcome table: the payoffs attached to an outcome id anywhere in the file (the
      parser's validation guarantees they agree; the first one found is used) *)
  Definition outcomes_of (root : enode) : list (N * (T * T)) :=
    e_fold (fun n acc =>
              match n with
              | ETerm oid p => acc ++ [(oid, p)]
              | EChance _ _ oid (Some p) => acc ++ [(oid, p)]
              | EPlayer _ _ _ _ oid (Some p) => acc ++ [(oid, p)]
              | _ => acc
              end) root [].

  (** given infoset names and the set of infoset numbers of one player *)
  Definition given_names (me : bool) (root : enode) : list (N * N) :=
    e_fold (fun n acc =>
              match n with
              | EPlayer pl info (Some nm) _ _ _ =>
                  if Bool.eqb pl me then
                    match alookup info acc with Some _ => acc | None => acc ++ [(info, nm)] end
                  else acc
              | _ => acc
              end) root [].

  Definition infoset_numbers (me : bool) (root : enode) : list N :=
    e_fold (fun n acc =>
              match n with
              | EPlayer pl info _ _ _ _ =>
                  if Bool.eqb pl me && negb (existsb (N.eqb info) acc) then acc ++ [info] else acc
              | _ => acc
              end) root [].

  (** final names of one player: given names, then the numeric fallback; [None] = the
      duplicate-infosets diagnostic (either of its two causes) *)
  Definition final_names (numname : N -> N) (me : bool) (root : enode) : option (list (N * N)) :=
    let given := given_names me root in
    let unnamed := filter (fun k => match alookup k given with Some _ => false | None => true end)
                          (infoset_numbers me root) in
    let used := map snd given in
    if existsb (fun k => existsb (N.eqb (numname k)) used) unnamed then None
    else
      let all := given ++ map (fun k => (k, numname k)) unnamed in
      if nodupb (map snd all) then Some all else None.

  Definition pay_of (tab : list (N * (T * T))) (oid : N) : T * T :=
    if N.eqb oid 0 then (zero NN, zero NN)
    else match alookup oid tab with Some p => p | None => (zero NN, zero NN) end.

  (** the terminals' cumulative payoff pairs (each player's own payoffs summed along the path) *)
  Fixpoint terminal_pairs (tab : list (N * (T * T))) (n : enode) (c1 c2 : T) {struct n}
    : list (T * T) :=
    match n with
    | ETerm oid _ =>
        let p := pay_of tab oid in [(add NN c1 (fst p), add NN c2 (snd p))]
    | EChance _ acts oid _ =>
        let p := pay_of tab oid in
        let d1 := add NN c1 (fst p) in let d2 := add NN c2 (snd p) in
        (fix go (l : list (N * T * enode)) : list (T * T) :=
           match l with [] => [] | (_, _, c) :: r => terminal_pairs tab c d1 d2 ++ go r end) acts
    | EPlayer _ _ _ acts oid _ =>
        let p := pay_of tab oid in
        let d1 := add NN c1 (fst p) in let d2 := add NN c2 (snd p) in
        (fix go (l : list (N * enode)) : list (T * T) :=
           match l with [] => [] | (_, c) :: r => terminal_pairs tab c d1 d2 ++ go r end) acts
    end.

  (** [sum = one + (two - one) / 2] per terminal *)
  Definition half_sum (p : T * T) : T := add NN (fst p) (div NN (sub NN (snd p) (fst p)) two).

  Record csum := mkCsum { cs_min : T; cs_max : T; cs_omin : T; cs_omax : T }.

  (** running minimum / maximum of the half sums and of player one's payoffs; the code
      starts from [+-inf], which the first (finite) terminal replaces: [None] is that
      initial state, so that the definition also reads correctly over the reals.
      Outer [None] = a non-finite half sum was met (the non-finite-payoffs diagnostic). *)
  Definition scan_step (acc : option (option csum)) (p : T * T) : option (option csum) :=
    match acc with
    | None => None
    | Some st =>
        let s := half_sum p in
        if is_fin NN s then
          Some (Some (match st with
                      | None => mkCsum s s (fst p) (fst p)
                      | Some c => mkCsum (fmin NN (cs_min c) s) (fmax NN (cs_max c) s)
                                         (fmin NN (cs_omin c) (fst p)) (fmax NN (cs_omax c) (fst p))
                      end))
        else None
    end.

  Definition scan_sums (pairs : list (T * T)) : option csum :=
    match fold_left scan_step pairs (Some None) with
    | Some (Some c) => Some c
    | _ => None            (* non-finite, or no terminal at all (impossible for a parsed file) *)
    end.

  Definition thousand : T := of_N NN 1000.

  Definition not_constant_sum (c : csum) : bool :=
    ltb NN (sub NN (cs_omax c) (cs_omin c)) (mul NN (sub NN (cs_max c) (cs_min c)) thousand).

  Definition game_sum (c : csum) : T :=
    add NN (cs_min c) (div NN (sub NN (cs_max c) (cs_min c)) two).

  (** [JoinedNode::into_game_node] *)
  Definition name_of (names : list (N * N)) (info : N) : N :=
    match alookup info names with Some n => n | None => 0%N end.

  Fixpoint joined (tab : list (N * (T * T))) (n1 n2 : list (N * N)) (sum : T)
           (n : enode) (cum : T) {struct n} : gnode :=
    match n with
    | ETerm oid _ => GTerm (sub NN (add NN cum (fst (pay_of tab oid))) sum)
    | EChance info acts oid _ =>
        let cum' := add NN cum (fst (pay_of tab oid)) in
        let kids := (fix go (l : list (N * T * enode)) : list (N * (T * gnode)) :=
                       match l with
                       | [] => []
                       | (a, p, c) :: r => (a, (p, joined tab n1 n2 sum c cum')) :: go r
                       end) acts in
        GChance (Some info)
                (map snd (sort_by (fun x y =>
                                     N.ltb (fst x) (fst y) ||
                                     (N.eqb (fst x) (fst y) && leb NN (fst (snd x)) (fst (snd y))))
                                  kids))
    | EPlayer pl info _ acts oid _ =>
        let cum' := add NN cum (fst (pay_of tab oid)) in
        let kids := (fix go (l : list (N * enode)) : list (N * gnode) :=
                       match l with
                       | [] => []
                       | (a, c) :: r => (a, joined tab n1 n2 sum c cum') :: go r
                       end) acts in
        GPlayer pl (name_of (if pl then n1 else n2) info)
                (sort_by (fun x y => N.leb (fst x) (fst y)) kids)
    end.

  (** [gambit::from_str] after parsing and the two-player test *)
  Definition gambit_tree (numname : N -> N) (root : enode) : loaded (gnode * T) :=
    match final_names numname true root, final_names numname false root with
    | Some n1, Some n2 =>
        let tab := outcomes_of root in
        match scan_sums (terminal_pairs tab root (zero NN) (zero NN)) with
        | None => Rejected RNonFinite
        | Some c =>
            if not_constant_sum c then Rejected RNotConstantSum
            else let sum := game_sum c in Loaded (joined tab n1 n2 sum root (zero NN), sum)
        end
    | _, _ => Rejected RDuplicateInfosets
    end.

  Definition gambit_load (numname : N -> N) (root : enode) : loaded (game * T) :=
    match gambit_tree numname root with
    | Loaded (t, sum) => load_tree t sum
    | Rejected r => Rejected r
    end.

  (** ** The [Output] of [main.rs]: choose between the solved profile and its pruning *)
  Record output := mkOutput {
    o_regret : T; o_util1 : T; o_util2 : T; o_reg1 : T; o_reg2 : T;
    o_prof : list T * list T; o_pruned : bool
  }.

  Definition cli_choose (g : game) (sum clip : T) (prof : list T * list T) : output :=
    let i0 := info g prof in
    let q := truncate g clip prof in
    let i1 := info g q in
    let pruned := ltb NN (si_regret i1) (si_regret i0) in
    let i := if pruned then i1 else i0 in
    mkOutput (si_regret i) (add NN (si_utility i true) sum) (add NN (si_utility i false) sum)
             (si_reg1 i) (si_reg2 i) (if pruned then q else prof) pruned.

  (** what is printed for one player: the named view, zero-probability actions omitted
      ([as_named] already omits them; [Strategy::from] filters once more) *)
  Definition printed_strategy (g : game) (pl : bool) (prof : list T * list T) : list (N * list (N * T)) :=
    map (fun e => (fst e, filter (fun ap => ltb NN (zero NN) (snd ap)) (snd e)))
        (as_named g pl (if pl then fst prof else snd prof)).
End Cli.
