(** * LoopProofs: the iteration loop of the solver ([solve_loop] / [solve_single])
    and early termination (property C09).

    The early-termination test is an arbitrary predicate [stop : R -> bool] on the
    total bound [Rmax b1 b2]; the real threshold [r] is [stop_at r], a NaN
    threshold is [never].  Everything holds for an arbitrary game, method, oracle
    and parameter tuple. *)
From Coq Require Import Reals List NArith Bool Arith Lra Lia.
From Cfr.theories Require Import Num RInst Tree Strat Eval Solve.
Import ListNotations.
Open Scope R_scope.

(** the test that never fires: no threshold, or a NaN threshold *)
Definition never : R -> bool := fun _ => false.

Definition regs_bound (regs : option (R * R)) : option R :=
  match regs with Some (b1, b2) => Some (Rmax b1 b2) | None => None end.

(** does [stop] fire on an (optional) bound; no iteration = no bound = no *)
Definition fires (stop : R -> bool) (ob : option R) : bool :=
  match ob with Some b => stop b | None => false end.

(** bounded search: the least [k] in [t+1 .. t+rem] with [f k = true], or [t+rem] *)
Fixpoint first_fire (f : nat -> bool) (rem t : nat) : nat :=
  match rem with
  | O => t
  | S r => if f (S t) then S t else first_fire f r (S t)
  end.

Lemma first_fire_spec f rem t :
  let k := first_fire f rem t in
  (t <= k <= t + rem)%nat /\ ((1 <= rem)%nat -> (t < k)%nat) /\
  (forall j, (t < j < k)%nat -> f j = false) /\
  ((k < t + rem)%nat -> f k = true).
Proof.
  revert t; induction rem as [|r IH]; intros t; cbn [first_fire].
  - cbv zeta. split; [lia|]. split; [lia|]. split; [intros j Hj; lia|lia].
  - destruct (f (S t)) eqn:E; cbv zeta.
    + split; [lia|]. split; [lia|]. split; [intros j Hj; lia|intros _; exact E].
    + specialize (IH (S t)). cbv zeta in IH. destruct IH as (H1 & H2 & H3 & H4).
      split; [lia|]. split; [lia|]. split.
      * intros j Hj. destruct (Nat.eq_dec j (S t)) as [->|Hne]; [exact E|]. apply H3; lia.
      * intros Hk. apply H4; lia.
Qed.

Lemma first_fire_ext f f' rem t :
  (forall k, (t < k)%nat -> f k = f' k) -> first_fire f rem t = first_fire f' rem t.
Proof.
  revert t; induction rem as [|r IH]; intros t H; cbn [first_fire]; [reflexivity|].
  rewrite (H (S t)) by lia. destruct (f' (S t)); [reflexivity|]. apply IH. intros k Hk; apply H; lia.
Qed.

Lemma first_fire_shift f f' rem t :
  (forall k, (t < k)%nat -> f (S k) = f' k) ->
  first_fire f rem (S t) = S (first_fire f' rem t).
Proof.
  revert t; induction rem as [|r IH]; intros t H; cbn [first_fire]; [reflexivity|].
  rewrite (H (S t)) by lia. destruct (f' (S t)); [reflexivity|]. apply IH. intros k Hk; apply H; lia.
Qed.

(** [first_fire] is THE least index, characterised without reference to the code *)
Lemma first_fire_least f rem t j :
  (t < j <= t + rem)%nat -> f j = true ->
  (first_fire f rem t <= j)%nat /\ f (first_fire f rem t) = true.
Proof.
  intros Hj Hf. destruct (first_fire_spec f rem t) as (H1 & H2 & H3 & H4).
  assert (Hle : (first_fire f rem t <= j)%nat).
  { destruct (le_lt_dec (first_fire f rem t) j) as [|Hlt]; [assumption|].
    rewrite H3 in Hf by lia. discriminate. }
  split; [exact Hle|].
  destruct (Nat.eq_dec (first_fire f rem t) j) as [->|Hne]; [exact Hf|]. apply H4; lia.
Qed.

Lemma first_fire_none f rem t :
  (forall j, (t < j <= t + rem)%nat -> f j = false) -> first_fire f rem t = (t + rem)%nat.
Proof.
  intros H. destruct (first_fire_spec f rem t) as (H1 & H2 & H3 & H4).
  destruct (Nat.eq_dec (first_fire f rem t) (t + rem)) as [|Hne]; [assumption|].
  assert (Hlt : (first_fire f rem t < t + rem)%nat) by lia.
  specialize (H4 Hlt).
  destruct rem as [|r]; [lia|]. rewrite H in H4; [discriminate|]. specialize (H2 ltac:(lia)). lia.
Qed.

Section Loop.
  Context (g : @game RNum) (m : method) (draw : @oracle RNum) (p : @params RNum).

  Local Notation loop := (@solve_loop RNum g m draw p).
  Local Notation iter := (@one_iter RNum g m draw p).
  Local Notation pstate := (@pstate RNum).

  Lemma loop_S (stop : R -> bool) r it (st : pstate) regs ran :
    loop stop (S r) it st regs ran =
    let '(st', (r1, r2)) := iter it st in
    if stop (Rmax r1 r2) then (st', Some (r1, r2), it)
    else loop stop r (it + 1)%N st' (Some (r1, r2)) it.
  Proof. reflexivity. Qed.

  (** bound after [k] unthresholded iterations started at iteration number [it] in state [st] *)
  Definition bound_from (it : N) (st : pstate) (k : nat) : option R :=
    regs_bound (snd (fst (loop never k it st None 0%N))).

  (** once an iteration has run, the initial [regs]/[ran] are forgotten *)
  Lemma loop_never_forgets k it (st : pstate) regs ran regs' ran' :
    (1 <= k)%nat ->
    loop never k it st regs ran = loop never k it st regs' ran'.
  Proof. destruct k; [lia|reflexivity]. Qed.

  (** KEY LEMMA: a thresholded run is the unthresholded run cut at the first
      iteration at which the test fires *)
  Lemma loop_stop_never (stop : R -> bool) rem it (st : pstate) regs ran :
    loop stop rem it st regs ran =
    loop never (first_fire (fun k => fires stop (bound_from it st k)) rem 0) it st regs ran.
  Proof.
    revert it st regs ran; induction rem as [|r IH]; intros it st regs ran; [reflexivity|].
    cbn [first_fire].
    assert (Hb1 : bound_from it st 1 =
                  let '(_, (r1, r2)) := iter it st in Some (Rmax r1 r2)).
    { unfold bound_from. rewrite loop_S. destruct (iter it st) as [st' [r1 r2]].
      unfold never at 1. reflexivity. }
    rewrite Hb1. rewrite loop_S.
    destruct (iter it st) as [st' [r1 r2]] eqn:E. cbn [fires].
    destruct (stop (Rmax r1 r2)) eqn:Es.
    - rewrite loop_S, E. unfold never at 1. reflexivity.
    - rewrite (first_fire_shift _ (fun k => fires stop (bound_from (it + 1)%N st' k))).
      + rewrite loop_S, E. unfold never at 1. apply IH.
      + intros k Hk. f_equal. unfold bound_from. rewrite loop_S, E. unfold never at 1.
        rewrite (loop_never_forgets k _ _ (Some (r1, r2)) it None 0%N) by lia. reflexivity.
  Qed.

  (** number of iterations reported by an unthresholded run *)
  Lemma loop_never_ran k it (st : pstate) regs ran :
    snd (loop never k it st regs ran) =
    match k with O => ran | S _ => (it + N.of_nat k - 1)%N end.
  Proof.
    revert it st regs ran; induction k as [|k IH]; intros it st regs ran; [reflexivity|].
    rewrite loop_S. destruct (iter it st) as [st' [r1 r2]]. unfold never at 1.
    rewrite IH. destruct k; lia.
  Qed.

  (** budget and the meaning of stopping early, for the general loop *)
  Lemma loop_budget (stop : R -> bool) rem it (st : pstate) regs ran st' regs' ran' :
    loop stop rem it st regs ran = (st', regs', ran') ->
    (rem = 0%nat /\ st' = st /\ regs' = regs /\ ran' = ran) \/
    ((it <= ran')%N /\ (ran' < it + N.of_nat rem)%N /\
     exists b1 b2, regs' = Some (b1, b2) /\
                   ((ran' + 1 < it + N.of_nat rem)%N -> stop (Rmax b1 b2) = true)).
  Proof.
    revert it st regs ran; induction rem as [|r IH]; intros it st regs ran H.
    - left. cbn [solve_loop] in H. injection H as <- <- <-. auto.
    - right. rewrite loop_S in H. destruct (iter it st) as [st1 [r1 r2]].
      destruct (stop (Rmax r1 r2)) eqn:Es.
      + injection H as <- <- <-. split; [lia|]. split; [lia|]. exists r1, r2. auto.
      + apply IH in H. destruct H as [(-> & -> & -> & ->)|(H1 & H2 & b1 & b2 & -> & H3)].
        * split; [lia|]. split; [lia|]. exists r1, r2. split; [reflexivity|]. intros; lia.
        * split; [lia|]. split; [lia|]. exists b1, b2. split; [reflexivity|]. intros; apply H3; lia.
  Qed.

  (** ** Non-negativity of the bounds *)
  Lemma cum_regret_bound_nonneg it (cr : list R) :
    (1 <= it)%N -> 0 <= @cum_regret_bound RNum it cr.
  Proof.
    intros Hit. unfold cum_regret_bound, two. cbn [div mul fmax zero one add of_N RNum].
    set (mx := match @reduce_max RNum cr with Some m0 => m0 | None => 0 end).
    assert (0 < INR (N.to_nat it)) by (apply lt_0_INR; lia).
    pose proof (Rmax_r mx 0).
    unfold Rdiv. apply Rmult_le_pos; [apply Rmult_le_pos; lra|].
    left. now apply Rinv_0_lt_compat.
  Qed.

  Lemma advance_all_ge it it_avg (l : list (@rinfo RNum)) (acc : R) l' acc' :
    (1 <= it)%N -> @advance_all RNum p it it_avg l acc = (l', acc') -> acc <= acc'.
  Proof.
    intros Hit. revert acc l' acc'; induction l as [|ri l IH]; intros acc l' acc' H.
    - cbn [advance_all] in H. injection H as <- <-. lra.
    - cbn [advance_all] in H. unfold advance in H.
      destruct (advance_all p it it_avg l _) as [r' acc''] eqn:E.
      injection H as <- <-. apply IH in E.
      pose proof (cum_regret_bound_nonneg it (discount_cum_regret p it (cum_regret ri)) Hit).
      cbn [add RNum] in E. lra.
  Qed.

  Lemma one_iter_nonneg it (st st' : pstate) (r1 r2 : R) :
    (1 <= it)%N -> iter it st = (st', (r1, r2)) -> 0 <= r1 /\ 0 <= r2.
  Proof.
    intros Hit. unfold one_iter. destruct m; unfold vanilla_iter, external_iter.
    1,2: destruct (vrec _ _ _ _ _ _ _ _ _) as [u st1];
      destruct (advance_all p it it (fst st1) _) as [l1 b1] eqn:E1;
      destruct (advance_all p it it (snd st1) _) as [l2 b2] eqn:E2;
      intros H; injection H as <- <- <-;
      apply advance_all_ge in E1, E2; try assumption; cbn [zero RNum] in *; lra.
    destruct (erec _ _ _ _ _ _ _ _) as [u st1].
    destruct (advance_all p it _ (fst st1) _) as [l1 b1] eqn:E1.
    destruct (erec _ _ _ _ _ _ _ _) as [u' st3].
    destruct (advance_all p it it (snd st3) _) as [l2 b2] eqn:E2.
    intros H; injection H as <- <- <-.
    apply advance_all_ge in E1, E2; try assumption; cbn [zero RNum] in *; lra.
  Qed.

  (** a test that is false on every non-negative number never fires *)
  Lemma loop_nonstop (stop : R -> bool) rem it (st : pstate) regs ran :
    (forall b, 0 <= b -> stop b = false) -> (1 <= it)%N ->
    loop stop rem it st regs ran = loop never rem it st regs ran.
  Proof.
    intros Hs. revert it st regs ran; induction rem as [|r IH]; intros it st regs ran Hit; [reflexivity|].
    rewrite !loop_S. destruct (iter it st) as [st' [r1 r2]] eqn:E.
    destruct (one_iter_nonneg it st st' r1 r2 Hit E) as [H1 H2].
    rewrite Hs by (pose proof (Rmax_l r1 r2); lra). unfold never at 1. apply IH. lia.
  Qed.
End Loop.

(** ** The unthresholded trajectory and [tstar] *)
Definition bound_at (g : @game RNum) (m : method) (draw : @oracle RNum) (p : @params RNum)
           (t : nat) : option R :=
  regs_bound (snd (fst (@solve_single RNum g m draw p t never))).

(** the first iteration in [1..N] after which the test fires on the unthresholded
    trajectory, or [N] *)
Definition tstar (g : @game RNum) (m : method) (draw : @oracle RNum) (p : @params RNum)
           (stop : R -> bool) (N : nat) : nat :=
  first_fire (fun t => fires stop (bound_at g m draw p t)) N 0.

Section Single.
  Context (g : @game RNum) (m : method) (draw : @oracle RNum) (p : @params RNum).

  Lemma solve_single_loop budget (stop : R -> bool) :
    @solve_single RNum g m draw p budget stop =
    let '(st, regs, ran) := @solve_loop RNum g m draw p stop budget 1%N (init_state g) None 0%N in
    (final_strats st, regs, ran).
  Proof. reflexivity. Qed.

  Lemma bound_at_from t : bound_at g m draw p t = bound_from g m draw p 1%N (init_state g) t.
  Proof.
    unfold bound_at, bound_from. rewrite solve_single_loop.
    destruct (solve_loop _ _ _ _ _ _ _ _ _ _) as [[st regs] ran]. reflexivity.
  Qed.

  Lemma bound_at_0 : bound_at g m draw p 0 = None.
  Proof. reflexivity. Qed.

  Lemma tstar_spec (stop : R -> bool) N :
    let k := tstar g m draw p stop N in
    (k <= N)%nat /\ ((1 <= N)%nat -> (1 <= k)%nat) /\
    (forall j, (1 <= j < k)%nat -> fires stop (bound_at g m draw p j) = false) /\
    ((k < N)%nat -> fires stop (bound_at g m draw p k) = true).
  Proof.
    cbv zeta. unfold tstar.
    destruct (first_fire_spec (fun t => fires stop (bound_at g m draw p t)) N 0) as (H1 & H2 & H3 & H4).
    split; [lia|]. split; [intros HN; specialize (H2 HN); lia|]. split.
    - intros j Hj; apply H3; lia.
    - intros Hk; apply H4; lia.
  Qed.

  Lemma tstar_least (stop : R -> bool) N j :
    (1 <= j <= N)%nat -> fires stop (bound_at g m draw p j) = true ->
    (tstar g m draw p stop N <= j)%nat /\
    fires stop (bound_at g m draw p (tstar g m draw p stop N)) = true.
  Proof.
    intros Hj Hf. unfold tstar.
    apply (first_fire_least (fun t => fires stop (bound_at g m draw p t)) N 0 j); [lia|exact Hf].
  Qed.

  Lemma tstar_none (stop : R -> bool) N :
    (forall j, (1 <= j <= N)%nat -> fires stop (bound_at g m draw p j) = false) ->
    tstar g m draw p stop N = N.
  Proof.
    intros H. unfold tstar. rewrite first_fire_none; [lia|]. intros j Hj; apply H; lia.
  Qed.

  (** C09.1: a thresholded solve is the unthresholded solve with budget [tstar] *)
  Lemma early_stop_exact (stop : R -> bool) N :
    @solve_single RNum g m draw p N stop =
    @solve_single RNum g m draw p (tstar g m draw p stop N) never.
  Proof.
    rewrite !solve_single_loop. rewrite loop_stop_never. unfold tstar.
    rewrite (first_fire_ext _ (fun t => fires stop (bound_at g m draw p t))); [reflexivity|].
    intros k _. now rewrite bound_at_from.
  Qed.

  Lemma solve_single_never_ran k :
    snd (@solve_single RNum g m draw p k never) = N.of_nat k.
  Proof.
    rewrite solve_single_loop.
    pose proof (loop_never_ran g m draw p k 1%N (init_state g) None 0%N) as H.
    destruct (solve_loop _ _ _ _ _ _ _ _ _ _) as [[st regs] ran]. cbn [snd] in *.
    rewrite H. destruct k; lia.
  Qed.

  Lemma early_stop_ran (stop : R -> bool) N :
    snd (@solve_single RNum g m draw p N stop) = N.of_nat (tstar g m draw p stop N).
  Proof. rewrite early_stop_exact. apply solve_single_never_ran. Qed.

  (** C09.2 *)
  Lemma budget_never_exceeded (stop : R -> bool) N strats regs ran :
    @solve_single RNum g m draw p N stop = (strats, regs, ran) ->
    (ran <= N.of_nat N)%N /\
    ((1 <= N)%nat -> (1 <= ran)%N /\ exists b1 b2, regs = Some (b1, b2)) /\
    ((ran < N.of_nat N)%N ->
     exists b1 b2, regs = Some (b1, b2) /\ stop (Rmax b1 b2) = true).
  Proof.
    rewrite solve_single_loop.
    destruct (solve_loop _ _ _ _ _ _ _ _ _ _) as [[st regs'] ran'] eqn:E.
    intros H; injection H as <- <- <-.
    apply loop_budget in E.
    destruct E as [(-> & _ & -> & ->)|(H1 & H2 & b1 & b2 & -> & H3)].
    - split; [lia|]. split; intros; lia.
    - split; [lia|]. split.
      + intros _. split; [lia|]. exists b1, b2; reflexivity.
      + intros Hlt. exists b1, b2. split; [reflexivity|]. apply H3; lia.
  Qed.

  (** C09.3 *)
  Lemma bounds_nonneg (stop : R -> bool) N strats b1 b2 ran :
    @solve_single RNum g m draw p N stop = (strats, Some (b1, b2), ran) -> 0 <= b1 /\ 0 <= b2.
  Proof.
    rewrite solve_single_loop.
    destruct (solve_loop _ _ _ _ _ _ _ _ _ _) as [[st regs'] ran'] eqn:E.
    intros H; injection H as _ -> _.
    assert (Hgen : forall rem it (st0 : @pstate RNum) regs0 ran0 st1 ran1,
               (1 <= it)%N ->
               (forall c1 c2, regs0 = Some (c1, c2) -> 0 <= c1 /\ 0 <= c2) ->
               @solve_loop RNum g m draw p stop rem it st0 regs0 ran0 = (st1, Some (b1, b2), ran1) ->
               0 <= b1 /\ 0 <= b2).
    { induction rem as [|r IH]; intros it st0 regs0 ran0 st1 ran1 Hit Hr H.
      - cbn [solve_loop] in H. injection H as _ -> _. now apply Hr.
      - rewrite loop_S in H. destruct (one_iter g m draw p it st0) as [st' [r1 r2]] eqn:Ei.
        pose proof (one_iter_nonneg g m draw p it st0 st' r1 r2 Hit Ei) as Hnn.
        destruct (stop (Rmax r1 r2)).
        + injection H as _ <- <- _. exact Hnn.
        + eapply IH; [| |exact H]; [lia|]. intros c1 c2 Hc; injection Hc as <- <-. exact Hnn. }
    eapply Hgen; [| |exact E]; [lia|]. intros; discriminate.
  Qed.

  Lemma nonstop_on_nonneg (stop : R -> bool) N :
    (forall b, 0 <= b -> stop b = false) ->
    @solve_single RNum g m draw p N stop = @solve_single RNum g m draw p N never.
  Proof.
    intros Hs. rewrite !solve_single_loop. rewrite loop_nonstop; [reflexivity|exact Hs|lia].
  Qed.

  Lemma nonpositive_threshold (r : R) N :
    r <= 0 ->
    @solve_single RNum g m draw p N (@stop_at RNum r) = @solve_single RNum g m draw p N never.
  Proof.
    intros Hr. apply nonstop_on_nonneg. intros b Hb. unfold stop_at. cbn [ltb RNum].
    apply Rltb_false. lra.
  Qed.
End Single.

(** ** A concrete run: one decision node of player one with payoffs 1 and 0, vanilla CFR *)
Definition ex_game : @game RNum :=
  mkGame [] [mkPinfo 0%N [0%N; 1%N] None] [] [] []
         (@Player RNum true 0 [@Term RNum 1; @Term RNum 0]).
Definition ex_draw : @oracle RNum := fun _ _ _ _ => 0%nat.

Lemma ex_iter (it : N) (a b c d e f : R) :
  (1 <= it)%N -> 0 < a + 1 - e -> b - e < 0 ->
  exists c' d' : R,
  @one_iter RNum ex_game Full ex_draw p_vanilla it ([@mkRinfo RNum [a; b] [c; d] [e; f]], []) =
  (([@mkRinfo RNum [a + 1 - e; b - e] [c'; d'] [1; 0]], []),
   (2 * (a + 1 - e) / INR (N.to_nat it), 0)).
Proof.
  intros Hit Hx Hy. unfold one_iter, vanilla_iter. cbn [ex_game g_chance g_root].
  cbn -[Rmax Rltb Rleb Reqb Rdiv Rplus Rmult Rminus Ropp INR N.to_nat regret_match].
  set (X := a + 1 * (1 * 1) - _). set (Y := b + 0 * (1 * 1) - _).
  assert (HX : X = a + 1 - e) by (unfold X; ring).
  assert (HY : Y = b - e) by (unfold Y; ring).
  assert (E1 : Rltb 0 X = true) by (apply Rltb_true; lra).
  assert (E2 : Rltb 0 Y = false) by (apply Rltb_false; lra).
  assert (E3 : Rltb Y 0 = true) by (apply Rltb_true; lra).
  assert (E4 : Rltb 0 (0 + X) = true) by (apply Rltb_true; lra).
  unfold regret_match, sum.
  cbn -[Rmax Rltb Rleb Reqb Rdiv Rplus Rmult Rminus Ropp INR N.to_nat].
  rewrite ?E1, ?E2, ?E3. cbn [fold_left]. rewrite ?E4.
  rewrite (Rmax_left (X * 1) (Y * 1)) by lra; rewrite (Rmax_left (X * 1) 0) by lra.
  replace (X * 1) with (a + 1 - e) by lra. replace (Y * 1) with (b - e) by lra.
  replace (X / (0 + X)) with 1 by (field; lra).
  replace (0 + (1 + 1) * (a + 1 - e) / INR (N.to_nat it)) with (2 * (a + 1 - e) / INR (N.to_nat it))
    by (unfold Rdiv; ring).
  destruct (Rltb 0 0); eexists; eexists; reflexivity.
Qed.

Lemma ex_bounds :
  bound_at ex_game Full ex_draw p_vanilla 1 = Some 1 /\
  bound_at ex_game Full ex_draw p_vanilla 2 = Some (/ 2).
Proof.
  rewrite !bound_at_from. unfold bound_from.
  set (e0 := 1 / (1 + 1)).
  assert (Hinit : @init_state RNum ex_game = ([@mkRinfo RNum [0; 0] [0; 0] [e0; e0]], [])) by reflexivity.
  rewrite Hinit.
  destruct (ex_iter 1 0 0 0 0 e0 e0 ltac:(lia) ltac:(unfold e0; lra) ltac:(unfold e0; lra))
    as (c1 & d1 & H1).
  destruct (ex_iter 2 (0 + 1 - e0) (0 - e0) c1 d1 1 0
                    ltac:(lia) ltac:(unfold e0; lra) ltac:(unfold e0; lra))
    as (c2 & d2 & H2).
  replace (INR (N.to_nat 1)) with 1 in H1 by (simpl; lra).
  replace (INR (N.to_nat 2)) with 2 in H2 by (simpl; lra).
  split.
  - rewrite loop_S, H1. unfold never at 1. cbn [solve_loop snd fst regs_bound].
    f_equal. rewrite Rmax_left; unfold e0; lra.
  - rewrite loop_S, H1. unfold never at 1. change (1 + 1)%N with 2%N.
    rewrite loop_S, H2. unfold never at 1. cbn [solve_loop snd fst regs_bound].
    f_equal. rewrite Rmax_left; unfold e0; lra.
Qed.

(** with threshold 3/4 and budget 5 the run stops after iteration 2: 1 < t* < N *)
Lemma ex_tstar : tstar ex_game Full ex_draw p_vanilla (@stop_at RNum (3 / 4)) 5 = 2%nat.
Proof.
  unfold tstar. destruct ex_bounds as [H1 H2]. cbn [first_fire]. rewrite H1, H2. cbn [fires].
  unfold stop_at. cbn [ltb RNum].
  replace (Rltb 1 (3 / 4)) with false by (symmetry; apply Rltb_false; lra).
  replace (Rltb (/ 2) (3 / 4)) with true by (symmetry; apply Rltb_true; lra).
  reflexivity.
Qed.

(** ** Packaged statements (used by Properties/C09.v) *)
Lemma below_threshold_when_short :
  forall g m draw p (r : R) N strats regs ran,
    @solve_single RNum g m draw p N (@stop_at RNum r) = (strats, regs, ran) ->
    (ran < N.of_nat N)%N ->
    exists b1 b2, regs = Some (b1, b2) /\ Rmax b1 b2 < r.
Proof.
  intros g m draw p r N strats regs ran H Hlt.
  destruct (budget_never_exceeded g m draw p _ N strats regs ran H) as (_ & _ & H3).
  destruct (H3 Hlt) as (b1 & b2 & -> & Hs). exists b1, b2. split; [reflexivity|now apply Rltb_true].
Qed.

Lemma example_run :
  bound_at ex_game Full ex_draw p_vanilla 1 = Some 1 /\
  bound_at ex_game Full ex_draw p_vanilla 2 = Some (/ 2) /\
  tstar ex_game Full ex_draw p_vanilla (@stop_at RNum (3 / 4)) 5 = 2%nat /\
  snd (@solve_single RNum ex_game Full ex_draw p_vanilla 5 (@stop_at RNum (3 / 4))) = 2%N.
Proof.
  destruct ex_bounds as [H1 H2]. repeat split; try assumption; [exact ex_tstar|].
  rewrite early_stop_ran, ex_tstar. reflexivity.
Qed.
