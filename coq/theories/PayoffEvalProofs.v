(** * PayoffEvalProofs: scaling, shifting and swapping payoffs/players — evaluation
    side (property C12, part A), and the definitions shared with the solver side
    ([PayoffSolveProofs]).

    Everything is about the real-number instance [RNum] and compact games. *)
From Coq Require Import Reals List Lra Lia Bool Arith NArith.
From Cfr.theories Require Import Num RInst Tree GameWF Strat Eval Solve Valid TruncProofs
     SolveValidProofs.
Import ListNotations.
Open Scope R_scope.

Local Notation nodeR := (@node RNum).
Local Notation gameR := (@game RNum).

(** ** The three transformations *)
Fixpoint map_payoffs (f : R -> R) (n : nodeR) : nodeR :=
  match n with
  | Term x => @Term RNum (f x)
  | Chance ci kids => @Chance RNum ci (map (map_payoffs f) kids)
  | Player pl i kids => @Player RNum pl i (map (map_payoffs f) kids)
  end.

Definition game_map_payoffs (f : R -> R) (g : gameR) : gameR :=
  @mkGame RNum (g_chance g) (g_infos1 g) (g_infos2 g) (g_singles1 g) (g_singles2 g)
         (map_payoffs f (g_root g)).

Definition scale (c : R) (g : gameR) : gameR := game_map_payoffs (fun x => c * x) g.
Definition shift (k : R) (g : gameR) : gameR := game_map_payoffs (fun x => x + k) g.

(** exchange the players: tables exchanged, [pl] flipped, payoffs negated *)
Fixpoint swap_node (n : nodeR) : nodeR :=
  match n with
  | Term x => @Term RNum (- x)
  | Chance ci kids => @Chance RNum ci (map swap_node kids)
  | Player pl i kids => @Player RNum (negb pl) i (map swap_node kids)
  end.

Definition swap (g : gameR) : gameR :=
  @mkGame RNum (g_chance g) (g_infos2 g) (g_infos1 g) (g_singles2 g) (g_singles1 g)
         (swap_node (g_root g)).

(** ** One family covering the three: flip the players or not, payoff [x |-> f x] *)
Definition fl (flip pl : bool) : bool := if flip then negb pl else pl.

Fixpoint tnode (flip : bool) (f : R -> R) (n : nodeR) : nodeR :=
  match n with
  | Term x => @Term RNum (f x)
  | Chance ci kids => @Chance RNum ci (map (tnode flip f) kids)
  | Player pl i kids => @Player RNum (fl flip pl) i (map (tnode flip f) kids)
  end.

Definition tgame (flip : bool) (f : R -> R) (g : gameR) : gameR :=
  @mkGame RNum (g_chance g) (g_infos g (fl flip true)) (g_infos g (fl flip false))
         (g_singles g (fl flip true)) (g_singles g (fl flip false))
         (tnode flip f (g_root g)).

Definition aff (s k x : R) : R := s * x + k.
Definition sgn (flip : bool) : R := if flip then -1 else 1.
Definition swp {A} (flip : bool) (p : A * A) : A * A := if flip then (snd p, fst p) else p.

Lemma fl_negb flip pl : fl flip (negb pl) = negb (fl flip pl).
Proof. destruct flip, pl; reflexivity. Qed.

Lemma fl_eqb flip a b : Bool.eqb (fl flip a) (fl flip b) = Bool.eqb a b.
Proof. destruct flip, a, b; reflexivity. Qed.

Lemma map_ext_Forall {A B} (f g : A -> B) l :
  Forall (fun x => f x = g x) l -> map f l = map g l.
Proof. induction 1 as [|x l Hx Hl IH]; cbn [map]; [reflexivity|now rewrite Hx, IH]. Qed.

Lemma tnode_ext flip f f' n : (forall x, f x = f' x) -> tnode flip f n = tnode flip f' n.
Proof.
  intros H. induction n as [x|ci kids IH|pl i kids IH] using node_ind'; cbn [tnode].
  - now rewrite H.
  - f_equal. now apply map_ext_Forall.
  - f_equal. now apply map_ext_Forall.
Qed.

Lemma map_payoffs_tnode f n : map_payoffs f n = tnode false f n.
Proof.
  induction n as [x|ci kids IH|pl i kids IH] using node_ind'; cbn [tnode map_payoffs fl].
  - reflexivity.
  - f_equal. now apply map_ext_Forall.
  - f_equal. now apply map_ext_Forall.
Qed.

Lemma swap_node_tnode n : swap_node n = tnode true Ropp n.
Proof.
  induction n as [x|ci kids IH|pl i kids IH] using node_ind'; cbn [tnode swap_node fl].
  - reflexivity.
  - f_equal. now apply map_ext_Forall.
  - f_equal. now apply map_ext_Forall.
Qed.

Lemma scale_tgame c g : scale c g = tgame false (aff c 0) g.
Proof.
  unfold scale, game_map_payoffs, tgame. cbn [fl g_infos g_singles]. f_equal.
  rewrite map_payoffs_tnode. apply tnode_ext. intros x; unfold aff; lra.
Qed.

Lemma shift_tgame k g : shift k g = tgame false (aff 1 k) g.
Proof.
  unfold shift, game_map_payoffs, tgame. cbn [fl g_infos g_singles]. f_equal.
  rewrite map_payoffs_tnode. apply tnode_ext. intros x; unfold aff; lra.
Qed.

Lemma swap_tgame g : swap g = tgame true (aff (-1) 0) g.
Proof.
  unfold swap, tgame. cbn [fl g_infos g_singles negb]. f_equal.
  rewrite swap_node_tnode. apply tnode_ext. intros x; unfold aff; lra.
Qed.

Lemma arities_tgame flip f g pl : arities (tgame flip f g) (fl flip pl) = arities g pl.
Proof. unfold arities, tgame. destruct flip, pl; reflexivity. Qed.

(** ** Lists of reals *)
Lemma fold_max_scale c (r : list R) x :
  0 <= c -> fold_left Rmax (map (Rmult c) r) (c * x) = c * fold_left Rmax r x.
Proof.
  intros Hc. revert x. induction r as [|v r IH]; intros x; cbn [map fold_left]; [reflexivity|].
  rewrite RmaxRmult by assumption. apply IH.
Qed.

Lemma repeatT_zero_scale gm n : map (Rmult gm) (@repeatT RNum 0 n) = @repeatT RNum 0 n.
Proof. induction n as [|n IH]; cbn [repeatT map]; [reflexivity|]. now rewrite IH, Rmult_0_r. Qed.

Lemma nth_map_scale gm (l : list R) j : nth j (map (Rmult gm) l) 0 = gm * nth j l 0.
Proof.
  rewrite <- (Rmult_0_r gm) at 1. apply (map_nth (Rmult gm)).
Qed.

(** ** The inner loops of [exp_acc], [search] and [collect], abstracted over the
    recursive call (the accumulator type is [R] or a list of nodes) *)
Section XLoops.
  Context {A : Type} (rec : nodeR -> R -> A -> A).

  Definition xchance (reach : R) :=
    fix go (ps : list R) (ks : list nodeR) (acc : A) {struct ks} : A :=
      match ps, ks with
      | p :: ps', k :: ks' => rec k (p * reach) (go ps' ks' acc)
      | _, _ => acc
      end.

  Definition xplayer (reach : R) :=
    fix go (ps : list R) (ks : list nodeR) (acc : A) {struct ks} : A :=
      match ps, ks with
      | p :: ps', k :: ks' =>
          if Rltb 0 p then rec k (p * reach) (go ps' ks' acc) else go ps' ks' acc
      | _, _ => acc
      end.

  Definition xown (reach : R) :=
    fix go (ks : list nodeR) (acc : A) : A :=
      match ks with
      | [] => acc
      | k :: r => rec k reach (go r acc)
      end.
End XLoops.

Lemma exp_acc_Term ch s1 s2 x reach acc :
  @exp_acc RNum ch s1 s2 (Term x) reach acc = acc + reach * x.
Proof. reflexivity. Qed.

Lemma exp_acc_Chance ch s1 s2 ci kids reach acc :
  @exp_acc RNum ch s1 s2 (Chance ci kids) reach acc =
  xchance (@exp_acc RNum ch s1 s2) reach (@row RNum ch ci) kids acc.
Proof. reflexivity. Qed.

Lemma exp_acc_Player ch s1 s2 pl i kids reach acc :
  @exp_acc RNum ch s1 s2 (Player pl i kids) reach acc =
  xplayer (@exp_acc RNum ch s1 s2) reach (@row RNum (if pl then s1 else s2) i) kids acc.
Proof. reflexivity. Qed.

Lemma search_Term ch so me mu x reach acc :
  @search RNum ch so me mu (Term x) reach acc = if me then acc + x * reach else acc - x * reach.
Proof. reflexivity. Qed.

Lemma search_Chance ch so me mu ci kids reach acc :
  @search RNum ch so me mu (Chance ci kids) reach acc =
  xchance (@search RNum ch so me mu) reach (@row RNum ch ci) kids acc.
Proof. reflexivity. Qed.

Lemma search_Player ch so me mu pl i kids reach acc :
  @search RNum ch so me mu (Player pl i kids) reach acc =
  if Bool.eqb pl me then acc + mu i * reach
  else xplayer (@search RNum ch so me mu) reach (@row RNum so i) kids acc.
Proof. reflexivity. Qed.

Lemma collect_Term ch so me x reach acc : @collect RNum ch so me (Term x) reach acc = acc.
Proof. reflexivity. Qed.

Lemma collect_Chance ch so me ci kids reach acc :
  @collect RNum ch so me (Chance ci kids) reach acc =
  xchance (@collect RNum ch so me) reach (@row RNum ch ci) kids acc.
Proof. reflexivity. Qed.

Lemma collect_Player ch so me pl i kids reach acc :
  @collect RNum ch so me (Player pl i kids) reach acc =
  if Bool.eqb pl me then xown (@collect RNum ch so me) reach kids (acc ++ [(i, (kids, reach))])
  else xplayer (@collect RNum ch so me) reach (@row RNum so i) kids acc.
Proof. reflexivity. Qed.

(** ** [expected] is affine in the payoffs *)
Lemma row_swap flip pl (s1 s2 : list (list R)) i :
  @row RNum (if fl flip pl then fst (swp flip (s1, s2)) else snd (swp flip (s1, s2))) i =
  @row RNum (if pl then s1 else s2) i.
Proof. destruct flip, pl; reflexivity. Qed.

Section ExpAcc.
  Context (ch s1 s2 : list (list R)).
  Local Notation E := (@exp_acc RNum ch s1 s2).

  Lemma xchance_acc reach ks :
    Forall (fun c => forall r a, E c r a = a + E c r 0) ks ->
    forall ps acc, xchance E reach ps ks acc = acc + xchance E reach ps ks 0.
  Proof.
    induction 1 as [|c ks Hc HK IH]; intros ps acc; destruct ps as [|p ps]; cbn [xchance]; try lra.
    rewrite Hc, (Hc _ (xchance E reach ps ks 0)), (IH ps acc). lra.
  Qed.

  Lemma xplayer_acc reach ks :
    Forall (fun c => forall r a, E c r a = a + E c r 0) ks ->
    forall ps acc, xplayer E reach ps ks acc = acc + xplayer E reach ps ks 0.
  Proof.
    induction 1 as [|c ks Hc HK IH]; intros ps acc; destruct ps as [|p ps]; cbn [xplayer]; try lra.
    destruct (Rltb 0 p); [|apply IH].
    rewrite Hc, (Hc _ (xplayer E reach ps ks 0)), (IH ps acc). lra.
  Qed.

  Lemma exp_acc_acc n : forall reach acc, E n reach acc = acc + E n reach 0.
  Proof.
    induction n as [x|ci kids IH|pl i kids IH] using node_ind'; intros reach acc.
    - rewrite !exp_acc_Term. lra.
    - rewrite !exp_acc_Chance. now apply xchance_acc.
    - rewrite !exp_acc_Player. now apply xplayer_acc.
  Qed.
End ExpAcc.

Definition ones (n : nodeR) : nodeR := tnode false (fun _ => 1) n.

Section ExpLin.
  Context (flip : bool) (s k : R) (ch s1 s2 : list (list R)).
  Local Notation tn := (tnode flip (aff s k)).
  Local Notation E := (@exp_acc RNum ch s1 s2).
  Local Notation E' := (@exp_acc RNum ch (fst (swp flip (s1, s2))) (snd (swp flip (s1, s2)))).

  Definition LinP (c : nodeR) : Prop :=
    forall reach acc acc', E' (tn c) reach acc' - acc' = s * (E c reach acc - acc) + k * E (ones c) reach 0.

  Lemma xchance_lin reach ks :
    Forall LinP ks -> forall ps acc acc',
    xchance E' reach ps (map tn ks) acc' - acc' =
    s * (xchance E reach ps ks acc - acc) + k * xchance E reach ps (map ones ks) 0.
  Proof.
    induction 1 as [|c ks Hc HK IH]; intros ps acc acc'; destruct ps as [|p ps]; cbn [xchance map]; try lra.
    specialize (IH ps acc acc').
    specialize (Hc (p * reach) (xchance E reach ps ks acc) (xchance E' reach ps (map tn ks) acc')).
    rewrite (exp_acc_acc ch s1 s2 (ones c) (p * reach) (xchance E reach ps (map ones ks) 0)). lra.
  Qed.

  Lemma xplayer_lin reach ks :
    Forall LinP ks -> forall ps acc acc',
    xplayer E' reach ps (map tn ks) acc' - acc' =
    s * (xplayer E reach ps ks acc - acc) + k * xplayer E reach ps (map ones ks) 0.
  Proof.
    induction 1 as [|c ks Hc HK IH]; intros ps acc acc'; destruct ps as [|p ps]; cbn [xplayer map]; try lra.
    specialize (IH ps acc acc'). destruct (Rltb 0 p); [|exact IH].
    specialize (Hc (p * reach) (xplayer E reach ps ks acc) (xplayer E' reach ps (map tn ks) acc')).
    rewrite (exp_acc_acc ch s1 s2 (ones c) (p * reach) (xplayer E reach ps (map ones ks) 0)). lra.
  Qed.

  Lemma exp_acc_lin n : LinP n.
  Proof.
    induction n as [x|ci kids IH|pl i kids IH] using node_ind'; intros reach acc acc'.
    - unfold ones. cbn [tnode]. rewrite !exp_acc_Term. unfold aff. lra.
    - unfold ones. cbn [tnode]. rewrite !exp_acc_Chance. now apply xchance_lin.
    - unfold ones. cbn [tnode fl]. rewrite !exp_acc_Player. rewrite row_swap. now apply xplayer_lin.
  Qed.
End ExpLin.

(** the total mass reaching the leaves is the reach of the root, for a valid
    profile on a well-shaped game with normalised chance rows *)
Definition RowsOK (g : gameR) (s1 s2 : list (list R)) : Prop :=
  forall pl, Forall2 (fun a r => length r = a /\ VRow r) (arities g pl) (if pl then s1 else s2).

Section Mass.
  Context (g : gameR) (s1 s2 : list (list R)).
  Context (HC : ChanceOK g) (HR : RowsOK g s1 s2).
  Local Notation E := (@exp_acc RNum (g_chance g) s1 s2).

  Lemma xchance_mass reach ks :
    Forall (fun c => forall r, E (ones c) r 0 = r) ks ->
    forall ps, xchance E reach ps (map ones ks) 0 = reach * Rsum (firstn (length ks) ps).
  Proof.
    induction 1 as [|c ks Hc HK IH]; intros ps; destruct ps as [|p ps];
      cbn [xchance map length firstn Rsum]; try lra.
    rewrite (exp_acc_acc _ s1 s2), Hc, IH. lra.
  Qed.

  Lemma xplayer_mass reach ks :
    Forall (fun c => forall r, E (ones c) r 0 = r) ks ->
    forall ps, Forall (fun x => 0 <= x) ps ->
    xplayer E reach ps (map ones ks) 0 = reach * Rsum (firstn (length ks) ps).
  Proof.
    induction 1 as [|c ks Hc HK IH]; intros ps Hps; destruct ps as [|p ps];
      cbn [xplayer map length firstn Rsum]; try lra.
    inversion Hps as [|? ? Hp Hps']; subst. destruct (Rltb 0 p) eqn:Ep.
    - rewrite (exp_acc_acc _ s1 s2), Hc, IH by assumption. lra.
    - apply Rltb_false in Ep. rewrite IH by assumption. assert (p = 0) by lra. subst p. lra.
  Qed.

  Lemma shaped_kids' (ks : list nodeR) :
    (fix go (ks : list nodeR) : Prop := match ks with [] => True | c :: r => shaped g c /\ go r end) ks ->
    Forall (shaped g) ks.
  Proof. induction ks as [|c ks IH]; intros H; constructor; [apply H|apply IH, H]. Qed.

  Lemma Forall2_nth' {X Y} (Q : X -> Y -> Prop) la lb i da db :
    Forall2 Q la lb -> (i < length la)%nat -> Q (nth i la da) (nth i lb db).
  Proof.
    intros H; revert i; induction H as [|a b la lb Hab H IH]; intros i Hi; cbn [length] in Hi; [lia|].
    destruct i; cbn [nth]; [assumption|apply IH; lia].
  Qed.

  Lemma exp_acc_mass n : shaped g n -> forall reach, E (ones n) reach 0 = reach.
  Proof.
    induction n as [x|ci kids IH|pl i kids IH] using node_ind'; intros Hsh reach.
    - unfold ones; cbn [tnode]. rewrite exp_acc_Term. lra.
    - unfold ones; cbn [tnode]. rewrite exp_acc_Chance. fold ones.
      destruct Hsh as (H1 & H2 & _ & H4). apply shaped_kids' in H4.
      rewrite xchance_mass.
      + unfold row. rewrite H2, firstn_all.
        unfold ChanceOK in HC. rewrite Forall_forall in HC.
        destruct (HC (nth ci (g_chance g) []) (nth_In _ _ H1)) as [_ ->]. lra.
      + rewrite Forall_forall in IH, H4 |- *. intros c Hc. apply IH; auto.
    - unfold ones; cbn [tnode fl]. rewrite exp_acc_Player. fold ones.
      destruct Hsh as (H1 & H2 & _ & H4). apply shaped_kids' in H4.
      assert (Hrow : length (@row RNum (if pl then s1 else s2) i) = length kids /\
                     VRow (@row RNum (if pl then s1 else s2) i)).
      { pose proof (Forall2_nth' _ _ _ i (length (pi_actions (mkPinfo 0 [] None))) [] (HR pl)) as Hn.
        unfold arities in Hn. rewrite map_length in Hn. specialize (Hn H1).
        rewrite (map_nth (fun pi => length (pi_actions pi))) in Hn.
        unfold row. destruct Hn as [Hl Hv]. split; [exact (eq_trans Hl (eq_sym H2))|exact Hv]. }
      destruct Hrow as [Hl [Hnn Hsum]].
      rewrite xplayer_mass; [|rewrite Forall_forall in IH, H4 |- *; intros c Hc; apply IH; auto|exact Hnn].
      rewrite <- Hl, firstn_all, Hsum. lra.
  Qed.
End Mass.

Lemma Valid_RowsOK (g : gameR) prof :
  Valid g prof ->
  RowsOK g (split_by (fst prof) (arities g true)) (split_by (snd prof) (arities g false)).
Proof.
  intros [[L1 V1] [L2 V2]] pl.
  assert (Gen : forall ars flat, length flat = nsum ars -> Forall VRow (split_by flat ars) ->
                Forall2 (fun a r => length r = a /\ VRow r) ars (split_by flat ars)).
  { intros ars flat L V. pose proof (split_by_length flat ars L) as HL.
    revert HL V. generalize (split_by flat ars) as rows. clear.
    induction ars as [|a ars IH]; intros [|r rows] HL V; cbn [map] in HL; try discriminate; constructor.
    - inversion V; subst. injection HL as HL _. auto.
    - inversion V; subst. injection HL as _ HL. auto. }
  destruct pl; now apply Gen.
Qed.

(** *** [expected] under the three transformations *)
Lemma expected_tgame flip s k (g : gameR) (s1 s2 : list (list R)) :
  @expected RNum (tgame flip (aff s k) g) (fst (swp flip (s1, s2))) (snd (swp flip (s1, s2))) =
  s * @expected RNum g s1 s2 + k * @exp_acc RNum (g_chance g) s1 s2 (ones (g_root g)) 1 0.
Proof.
  unfold expected. cbn [tgame g_chance g_root one zero RNum].
  pose proof (exp_acc_lin flip s k (g_chance g) s1 s2 (g_root g) 1 0 0) as H. lra.
Qed.

Theorem expected_scale c (g : gameR) s1 s2 :
  @expected RNum (scale c g) s1 s2 = c * @expected RNum g s1 s2.
Proof.
  rewrite scale_tgame. pose proof (expected_tgame false c 0 g s1 s2) as H.
  cbn [swp fst snd] in H. rewrite H. lra.
Qed.

Theorem expected_swap (g : gameR) s1 s2 :
  @expected RNum (swap g) s2 s1 = - @expected RNum g s1 s2.
Proof.
  rewrite swap_tgame. pose proof (expected_tgame true (-1) 0 g s1 s2) as H.
  cbn [swp fst snd] in H. rewrite H. lra.
Qed.

Theorem expected_shift k (g : gameR) s1 s2 :
  ChanceOK g -> shaped g (g_root g) -> RowsOK g s1 s2 ->
  @expected RNum (shift k g) s1 s2 = @expected RNum g s1 s2 + k.
Proof.
  intros HC Hsh HR. rewrite shift_tgame. pose proof (expected_tgame false 1 k g s1 s2) as H.
  cbn [swp fst snd] in H. rewrite H, (exp_acc_mass g s1 s2 HC HR _ Hsh). lra.
Qed.

(** ** Best responses: players exchanged or not, payoffs multiplied by [s], with
    [gm = s * sgn flip >= 0] *)
Section XRel.
  Context {A A' : Type} (Q : A -> A' -> Prop)
          (rec : nodeR -> R -> A -> A) (rec' : nodeR -> R -> A' -> A') (t : nodeR -> nodeR).

  Definition RelP (c : nodeR) : Prop := forall r a a', Q a a' -> Q (rec c r a) (rec' (t c) r a').

  Lemma xchance_rel reach ks :
    Forall RelP ks -> forall ps a a', Q a a' ->
    Q (xchance rec reach ps ks a) (xchance rec' reach ps (map t ks) a').
  Proof.
    induction 1 as [|c ks Hc HK IH]; intros ps a a' Ha; destruct ps as [|p ps]; cbn [xchance map];
      try exact Ha.
    apply Hc. now apply IH.
  Qed.

  Lemma xplayer_rel reach ks :
    Forall RelP ks -> forall ps a a', Q a a' ->
    Q (xplayer rec reach ps ks a) (xplayer rec' reach ps (map t ks) a').
  Proof.
    induction 1 as [|c ks Hc HK IH]; intros ps a a' Ha; destruct ps as [|p ps]; cbn [xplayer map];
      try exact Ha.
    destruct (Rltb 0 p); [apply Hc|]; now apply IH.
  Qed.

  Lemma xown_rel reach ks :
    Forall RelP ks -> forall a a', Q a a' ->
    Q (xown rec reach ks a) (xown rec' reach (map t ks) a').
  Proof.
    induction 1 as [|c ks Hc HK IH]; intros a a' Ha; cbn [xown map]; [exact Ha|].
    apply Hc. now apply IH.
  Qed.
End XRel.

Definition tnk (flip : bool) (f : R -> R) (e : nat * (list nodeR * R)) : nat * (list nodeR * R) :=
  (fst e, (map (tnode flip f) (fst (snd e)), snd (snd e))).

Lemma collect_sim flip f ch so me n :
  forall reach acc,
  @collect RNum ch so (fl flip me) (tnode flip f n) reach (map (tnk flip f) acc) =
  map (tnk flip f) (@collect RNum ch so me n reach acc).
Proof.
  induction n as [x|ci kids IH|pl i kids IH] using node_ind'; intros reach acc; cbn [tnode].
  - reflexivity.
  - rewrite !collect_Chance.
    apply (xchance_rel (fun a a' => a' = map (tnk flip f) a)); [|reflexivity].
    eapply Forall_impl; [|exact IH]. intros c Hc r a a' ->. apply Hc.
  - rewrite !collect_Player, fl_eqb. destruct (Bool.eqb pl me).
    + apply (xown_rel (fun a a' => a' = map (tnk flip f) a)).
      * eapply Forall_impl; [|exact IH]. intros c Hc r a a' ->. apply Hc.
      * rewrite map_app. reflexivity.
    + apply (xplayer_rel (fun a a' => a' = map (tnk flip f) a)); [|reflexivity].
      eapply Forall_impl; [|exact IH]. intros c Hc r a a' ->. apply Hc.
Qed.

Lemma term_swap flip me s x reach acc acc' :
  (if fl flip me then acc' + (s * x + 0) * reach else acc' - (s * x + 0) * reach) - acc' =
  s * sgn flip * ((if me then acc + x * reach else acc - x * reach) - acc).
Proof. destruct flip, me; unfold sgn; cbn [fl negb]; lra. Qed.

Lemma filter_tnk flip f i nodes :
  filter (fun e : nat * (list nodeR * R) => Nat.eqb (fst e) i) (map (tnk flip f) nodes) =
  map (tnk flip f) (filter (fun e => Nat.eqb (fst e) i) nodes).
Proof.
  induction nodes as [|e l IH]; cbn [map filter]; [reflexivity|].
  cbn [tnk fst]. destruct (Nat.eqb (fst e) i); cbn [map]; now rewrite IH.
Qed.

Lemma match_map {X Y Z} (f : X -> Y) (l : list X) (a b : Z) :
  match map f l with [] => a | _ :: _ => b end = match l with [] => a | _ :: _ => b end.
Proof. destruct l; reflexivity. Qed.

Section BR.
  Context (flip : bool) (s : R) (ch so : list (list R)) (me : bool).
  Context (Hgm : 0 <= s * sgn flip).
  Local Notation gm := (s * sgn flip).
  Local Notation tn := (tnode flip (aff s 0)).
  Local Notation me' := (fl flip me).

  Lemma search_sim mu mu' n :
    (forall j, mu' j = gm * mu j) -> forall reach acc acc',
    @search RNum ch so me' mu' (tn n) reach acc' - acc' =
    gm * (@search RNum ch so me mu n reach acc - acc).
  Proof.
    intros Hmu.
    induction n as [x|ci kids IH|pl i kids IH] using node_ind'; intros reach acc acc'; cbn [tnode].
    - rewrite !search_Term. unfold aff. apply term_swap.
    - rewrite !search_Chance.
      apply (xchance_rel (fun a a' => a' - acc' = gm * (a - acc))); [|lra].
      eapply Forall_impl; [|exact IH]. intros c Hc r a a' Ha. specialize (Hc r a a'). lra.
    - rewrite !search_Player, fl_eqb. destruct (Bool.eqb pl me).
      + rewrite Hmu. lra.
      + apply (xplayer_rel (fun a a' => a' - acc' = gm * (a - acc))); [|lra].
        eapply Forall_impl; [|exact IH]. intros c Hc r a a' Ha. specialize (Hc r a a'). lra.
  Qed.

  Lemma search_sim0 mu mu' n reach :
    (forall j, mu' j = gm * mu j) ->
    @search RNum ch so me' mu' (tn n) reach 0 = gm * @search RNum ch so me mu n reach 0.
  Proof. intros Hmu. pose proof (search_sim mu mu' n Hmu reach 0 0). lra. Qed.

  Definition paystep (me0 : bool) (mu : nat -> R) (pays : list R) (e : nat * (list nodeR * R)) : list R :=
    let '(_, (kids, p)) := e in
    map (fun pk : R * nodeR => fst pk + @search RNum ch so me0 mu (snd pk) 1 0 * p) (combine pays kids).

  Lemma paystep_sim mu mu' e pays :
    (forall j, mu' j = gm * mu j) ->
    paystep me' mu' (map (Rmult gm) pays) (tnk flip (aff s 0) e) = map (Rmult gm) (paystep me mu pays e).
  Proof.
    intros Hmu. destruct e as [i [kids p]]. cbn [tnk fst snd paystep].
    revert kids. induction pays as [|a pays IH]; intros [|c kids]; cbn [map combine]; try reflexivity.
    rewrite IH. f_equal. cbn [fst snd]. rewrite (search_sim0 mu mu' c 1 Hmu). lra.
  Qed.

  Lemma payfold_sim mu mu' mine pays :
    (forall j, mu' j = gm * mu j) ->
    fold_left (paystep me' mu') (map (tnk flip (aff s 0)) mine) (map (Rmult gm) pays) =
    map (Rmult gm) (fold_left (paystep me mu) mine pays).
  Proof.
    intros Hmu. revert pays. induction mine as [|e mine IH]; intros pays; cbn [map fold_left]; [reflexivity|].
    rewrite (paystep_sim mu mu') by assumption. apply IH.
  Qed.

  Lemma resolve_one_eq me0 nodes arity mu i :
    @resolve_one RNum ch so me0 nodes arity mu i =
    let mine := filter (fun e => Nat.eqb (fst e) i) nodes in
    match mine with
    | [] => 0
    | _ => match @reduce_max RNum (fold_left (paystep me0 mu) mine (@repeatT RNum 0 arity)) with
           | Some m => if Rltb 0 (@sum RNum (map (fun e => snd (snd e)) mine))
                       then m / @sum RNum (map (fun e => snd (snd e)) mine) else 0
           | None => 0
           end
    end.
  Proof. reflexivity. Qed.

  Lemma reduce_max_scale (l : list R) :
    @reduce_max RNum (map (Rmult gm) l) = option_map (Rmult gm) (@reduce_max RNum l).
  Proof.
    destruct l as [|x r]; cbn [map reduce_max option_map]; [reflexivity|].
    f_equal. now apply fold_max_scale.
  Qed.

  Lemma resolve_one_sim nodes arity mu mu' i :
    (forall j, mu' j = gm * mu j) ->
    @resolve_one RNum ch so me' (map (tnk flip (aff s 0)) nodes) arity mu' i =
    gm * @resolve_one RNum ch so me nodes arity mu i.
  Proof.
    intros Hmu. rewrite !resolve_one_eq. cbv zeta. change (T RNum) with R. rewrite filter_tnk.
    generalize (filter (fun e : nat * (list nodeR * R) => Nat.eqb (fst e) i) nodes). intros mine.
    rewrite match_map.
    assert (HF : fold_left (paystep me' mu') (map (tnk flip (aff s 0)) mine) (@repeatT RNum 0 arity) =
                 map (Rmult gm) (fold_left (paystep me mu) mine (@repeatT RNum 0 arity))).
    { rewrite <- (payfold_sim mu mu') by assumption. now rewrite repeatT_zero_scale. }
    rewrite HF.
    rewrite reduce_max_scale.
    replace (map (fun e : nat * (list nodeR * R) => snd (snd e)) (map (tnk flip (aff s 0)) mine))
      with (map (fun e : nat * (list nodeR * R) => snd (snd e)) mine)
      by (rewrite map_map; reflexivity).
    destruct mine as [|e0 mine0]; [lra|].
    destruct (@reduce_max RNum _) as [m|]; cbn [option_map]; [|lra].
    destruct (Rltb 0 _); [unfold Rdiv; ring|lra].
  Qed.

  Lemma resolve_from_sim nodes ars i k :
    @resolve_from RNum ch so me' (map (tnk flip (aff s 0)) nodes) ars i k =
    map (Rmult gm) (@resolve_from RNum ch so me nodes ars i k).
  Proof.
    revert i. induction k as [|k IH]; intros i; cbn [resolve_from map]; [reflexivity|].
    rewrite IH. f_equal. apply resolve_one_sim. intros j. apply nth_map_scale.
  Qed.
End BR.

Lemma br_value_tgame flip s (g : gameR) me so :
  0 <= s * sgn flip ->
  @br_value RNum (tgame flip (aff s 0) g) (fl flip me) so = s * sgn flip * @br_value RNum g me so.
Proof.
  intros Hgm. unfold br_value. cbv zeta. cbn [tgame g_chance g_root].
  rewrite arities_tgame.
  pose proof (collect_sim flip (aff s 0) (g_chance g) so me (g_root g) 1 []) as HC.
  cbn [map] in HC. change (one RNum) with 1. change (zero RNum) with 0.
  change (T RNum) with R in *. rewrite HC.
  rewrite resolve_from_sim by assumption.
  apply search_sim0; try assumption. intros j. apply nth_map_scale.
Qed.

(** ** [info] under the transformations *)
Lemma Rmax_scale0 gm a : 0 <= gm -> Rmax (gm * a) 0 = gm * Rmax a 0.
Proof. intros H. rewrite <- RmaxRmult by assumption. now rewrite Rmult_0_r. Qed.

(** general form ([k = 0]): payoffs multiplied by [s], players exchanged when
    [flip]; [s * sgn flip] must be non-negative *)
Theorem info_tgame flip s (g : gameR) (prof : list R * list R) :
  0 <= s * sgn flip ->
  @info RNum (tgame flip (aff s 0) g) (swp flip prof) =
  let i := @info RNum g prof in
  @mkSinfo RNum (s * si_util i)
           (s * sgn flip * fst (swp flip (si_reg1 i, si_reg2 i)))
           (s * sgn flip * snd (swp flip (si_reg1 i, si_reg2 i))).
Proof.
  intros Hgm. unfold info. cbv zeta. cbn [si_util si_reg1 si_reg2].
  change (fmax RNum) with Rmax. change (sub RNum) with Rminus. change (add RNum) with Rplus.
  change (zero RNum) with 0. change (T RNum) with R.
  destruct flip; cbn [swp fst snd].
  - pose proof (arities_tgame true (aff s 0) g true) as A1.
    pose proof (arities_tgame true (aff s 0) g false) as A2. cbn [fl negb] in A1, A2.
    rewrite A1, A2.
    set (s1 := split_by (fst prof) (arities g true)).
    set (s2 := split_by (snd prof) (arities g false)).
    pose proof (expected_tgame true s 0 g s1 s2) as He. cbn [swp fst snd] in He. rewrite He.
    pose proof (br_value_tgame true s g false s1 Hgm) as B1.
    pose proof (br_value_tgame true s g true s2 Hgm) as B2. cbn [fl negb] in B1, B2.
    rewrite B1, B2. unfold sgn in *.
    set (e := @expected RNum g s1 s2). set (b1 := @br_value RNum g true s2).
    set (b2 := @br_value RNum g false s1). set (M := @exp_acc RNum _ _ _ _ _ _).
    change (T RNum) with R in *.
    f_equal.
    + lra.
    + rewrite <- Rmax_scale0 by assumption. f_equal. lra.
    + rewrite <- Rmax_scale0 by assumption. f_equal. lra.
  - pose proof (arities_tgame false (aff s 0) g true) as A1.
    pose proof (arities_tgame false (aff s 0) g false) as A2. cbn [fl negb] in A1, A2.
    rewrite A1, A2.
    set (s1 := split_by (fst prof) (arities g true)).
    set (s2 := split_by (snd prof) (arities g false)).
    pose proof (expected_tgame false s 0 g s1 s2) as He. cbn [swp fst snd] in He. rewrite He.
    pose proof (br_value_tgame false s g true s2 Hgm) as B1.
    pose proof (br_value_tgame false s g false s1 Hgm) as B2. cbn [fl negb] in B1, B2.
    rewrite B1, B2. unfold sgn in *.
    set (e := @expected RNum g s1 s2). set (b1 := @br_value RNum g true s2).
    set (b2 := @br_value RNum g false s1). set (M := @exp_acc RNum _ _ _ _ _ _).
    change (T RNum) with R in *.
    f_equal.
    + lra.
    + rewrite <- Rmax_scale0 by assumption. f_equal. lra.
    + rewrite <- Rmax_scale0 by assumption. f_equal. lra.
Qed.

(** A1. scaling by [c > 0]: utility and both regrets multiplied by [c] *)
Theorem info_scale c (g : gameR) (prof : list R * list R) :
  0 < c ->
  @info RNum (scale c g) prof =
  let i := @info RNum g prof in
  @mkSinfo RNum (c * si_util i) (c * si_reg1 i) (c * si_reg2 i).
Proof.
  intros Hc. rewrite scale_tgame.
  pose proof (info_tgame false c g prof) as H. cbn [swp fst snd] in H. unfold sgn in H.
  rewrite H by lra. cbv zeta. change (T RNum) with R. f_equal; lra.
Qed.

(** A3. exchanging the players and negating the payoffs: utility negated,
    regrets exchanged *)
Theorem info_swap (g : gameR) (prof : list R * list R) :
  @info RNum (swap g) (snd prof, fst prof) =
  let i := @info RNum g prof in
  @mkSinfo RNum (- si_util i) (si_reg2 i) (si_reg1 i).
Proof.
  rewrite swap_tgame.
  pose proof (info_tgame true (-1) g prof) as H. cbn [swp fst snd] in H. unfold sgn in H.
  rewrite H by lra. cbv zeta. change (T RNum) with R. f_equal; lra.
Qed.

Corollary info_scale_regret c (g : gameR) prof :
  0 < c -> si_regret (@info RNum (scale c g) prof) = c * si_regret (@info RNum g prof) :> R.
Proof.
  intros Hc. rewrite info_scale by assumption. cbv zeta. unfold si_regret. cbn [si_reg1 si_reg2 fmax RNum].
  apply RmaxRmult. lra.
Qed.

Corollary info_swap_regret (g : gameR) prof :
  si_regret (@info RNum (swap g) (snd prof, fst prof)) = si_regret (@info RNum g prof) :> R.
Proof.
  rewrite info_swap. cbv zeta. unfold si_regret. cbn [si_reg1 si_reg2 fmax RNum]. apply Rmax_comm.
Qed.

(** A2, utility part: adding [k] to the payoffs adds [k] to the utility of a
    valid profile *)
Theorem info_shift_util k (g : gameR) (prof : list R * list R) :
  ChanceOK g -> shaped g (g_root g) -> Valid g prof ->
  si_util (@info RNum (shift k g) prof) = si_util (@info RNum g prof) + k.
Proof.
  intros HC Hsh HV. unfold info. cbv zeta. cbn [si_util].
  replace (arities (shift k g) true) with (arities g true) by reflexivity.
  replace (arities (shift k g) false) with (arities g false) by reflexivity.
  apply expected_shift; try assumption. now apply Valid_RowsOK.
Qed.
