(** * ScaleSolveFloat: scaling the payoffs by a power of two is bit-exact for the *solver*
    at binary64 (instance [FNum]): strategies unchanged, regrets and bounds scaled.

    [ScaleFloat] / [ScaleFloatBR] prove that the evaluator and [info] commute bit for bit
    with the scaling of the payoffs by [c = 2^e].  This file proves the same for the
    iterations of the unsampled and the chance-sampled solver:

    - [regret_match_scale]   regret matching returns the *same* row on [Sc e]-related
                             cumulative regrets (non-softmax fallback);
    - [vrec_scale]           one traversal of [scale_node c n] from an [StSc]-related state
                             ([Sc e]-related cumulative regrets, equal strategies and equal
                             accumulated strategies): value [Sc e]-related, new state related;
    - [advance_scale], [advance_all_scale], [vanilla_iter_scale]
                             discounting and bounds, for every parameter set with a
                             non-softmax fallback;
    - [solve_loop_scale], [solve_single_scale]
                             the whole solve, [Full] and [Sampled]: equal strategies, the same
                             number of iterations, bounds [b' = b * c] bit for bit;
    - [solve_single_scale_eq]  the same as one equality: the scaled solve returns the same
                             strategies, [Some (b1 * c, b2 * c)] and the same iteration count;
    - [stop_at_corr]         thresholds [r] and [r'] with [Sc e r r'] give corresponding
                             stopping predicates;
    - [exs_scale_check], [exs_scale_thm], [exs_scale_values]  the game [exs_g], [c = 2^-200],
                             ten iterations, vanilla; [exs_scale_thm_sampled] (chance-sampled,
                             CFR+, [c = 2^150]); [exs_scale_thm_stop] (early termination);
                             [exs_scale_refused] (the checker refuses a unit that underflows,
                             and there the conclusion is false).

    The range hypothesis is a decidable checker that follows the *unscaled* computation
    only ([vchk], [advb], [iterb], [solveb]): at every operation whose operand is scaled it
    tests that the unscaled operands/result are zero or of magnitude within the window that
    leaves room for the factor [2^e] ([smallb], [rg_mulb], [rg_divb], [termb] of
    [ScaleFloatBR], with the magnitude budget [M = 971]). *)
From Coq Require Import List ZArith NArith Reals Floats Bool Lia Lra Arith Psatz.
From Flocq Require Import Core IEEE754.BinarySingleNaN IEEE754.PrimFloat.
From Cfr.theories Require Import Num FInst Tree GameWF Strat Eval Solve
  TruncFloat DistFloat NormFloat EvalFloat ScaleFloat ScaleFloatBR SolveFloat.
Import ListNotations.

Local Existing Instance Flocq.IEEE754.PrimFloat.Hprec.
Local Existing Instance Flocq.IEEE754.PrimFloat.Hmax.

Local Open Scope R_scope.
Local Notation float := PrimFloat.float.
Local Notation node := (@node FNum).
Local Notation game := (@game FNum).
Local Notation rinfo := (@rinfo FNum).
Local Notation pstate := (@pstate FNum).
Local Notation bp := (bpow radix2).

Local Instance fexp_valid_ss : Valid_exp (SpecFloat.fexp prec emax) :=
  fexp_correct prec emax Flocq.IEEE754.PrimFloat.Hprec.

(** ** 0. Elementary checked steps *)

(** the magnitude budget used with the checkers of [ScaleFloatBR] *)
Definition MB : Z := 971%Z.

Definition mulb (e : Z) (x y : float) : bool := rg_mulb e MB x y.
Definition addb (a b : float) : bool := smallb a && smallb b.
Definition qdivb (e : Z) (m t : float) : bool := rg_divb e MB m t.
(** quotient of two scaled numbers *)
Definition rdivb (x t : float) : bool :=
  smallb x && f_is_fin t && PrimFloat.leb (pow2 (-500)) (PrimFloat.abs t).

Lemma bp501 : bp 501 = 2 * bp 500.
Proof. change 501%Z with (1 + 500)%Z. rewrite bpow_plus. reflexivity. Qed.

Lemma Rabs_mul_bp : forall x e, Rabs (x * bp e) = Rabs x * bp e.
Proof.
  intros x e. rewrite Rabs_mult, (Rabs_pos_eq (bp e)); [reflexivity|].
  left. apply bpow_gt_0.
Qed.

Section Atoms.
  Context (e : Z) (He : (-500 <= e <= 500)%Z).

  Lemma HMB : (-500 <= MB <= 971)%Z.
  Proof. unfold MB. lia. Qed.
  Lemma HMB' : (-1074 <= MB <= 971)%Z.
  Proof. unfold MB. lia. Qed.

  (** the scaled factor on the left *)
  Lemma mulb_l : forall x x' p, mulb e x p = true -> Sc e x x' -> Sc e (x * p)%float (x' * p)%float.
  Proof.
    intros x x' p H Hs. unfold mulb in H.
    destruct (rg_mulb_spec e MB He HMB x p H) as [_ [Fp Hrg]].
    exact (proj1 (term_mul_l e MB HMB' x x' p Hs Fp Hrg)).
  Qed.

  (** the scaled factor on the right *)
  Lemma mulb_r : forall p x x', mulb e p x = true -> Sc e x x' -> Sc e (p * x)%float (p * x')%float.
  Proof.
    intros p x x' H Hs. unfold mulb in H.
    destruct (rg_mulb_spec e MB He HMB p x H) as [Fp [_ [N1 [N2 [B1 B2]]]]].
    assert (HbM := bpM_lt MB HMB'). assert (FM := fmt_bpM MB HMB').
    assert (T1 : Rabs (rnd (FR p * FR x)) <= bp MB) by (apply ScaleFloat.rnd_abs_le; assumption).
    assert (T2 : Rabs (rnd (FR p * FR x) * bp e) <= bp MB).
    { rewrite <- (rnd_scale _ e N1 N2). apply ScaleFloat.rnd_abs_le; assumption. }
    apply Sc_mul; try assumption; lra.
  Qed.

  Lemma small_sum : forall a b : float, Rabs (FR a) <= bp 500 -> Rabs (FR b) <= bp 500 ->
    forall v, Rabs v <= Rabs (FR a) + Rabs (FR b) ->
    Rabs (rnd v) < bp emax /\ Rabs (rnd v * bp e) < bp emax.
  Proof.
    intros a b Ba Bb v Hv.
    assert (H1 : Rabs (rnd v) <= bp 501).
    { apply ScaleFloat.rnd_abs_le; [apply fmt_bp; lia | rewrite bp501; lra]. }
    assert (L1 : bp 501 < bp emax) by (apply bpow_lt; change emax with 1024%Z; lia).
    split; [lra|].
    rewrite Rabs_mul_bp.
    assert (Hpe : 0 < bp e) by apply bpow_gt_0.
    apply Rle_lt_trans with (bp 501 * bp e).
    - apply Rmult_le_compat_r; lra.
    - rewrite <- bpow_plus. apply bpow_lt. change emax with 1024%Z. lia.
  Qed.

  Lemma addb_ok : forall a a' b b', addb a b = true -> Sc e a a' -> Sc e b b' ->
    Sc e (a + b)%float (a' + b')%float.
  Proof.
    intros a a' b b' H Ha Hb. unfold addb in H. apply andb_true_iff in H. destruct H as [H1 H2].
    apply smallb_spec in H1. apply smallb_spec in H2.
    destruct H1 as [_ Ba]. destruct H2 as [_ Bb].
    destruct (small_sum a b Ba Bb (FR a + FR b) (Rabs_triang _ _)) as [G1 G2].
    apply Sc_add; assumption.
  Qed.

  Lemma subb_ok : forall a a' b b', addb a b = true -> Sc e a a' -> Sc e b b' ->
    Sc e (a - b)%float (a' - b')%float.
  Proof.
    intros a a' b b' H Ha Hb. unfold addb in H. apply andb_true_iff in H. destruct H as [H1 H2].
    apply smallb_spec in H1. apply smallb_spec in H2.
    destruct H1 as [_ Ba]. destruct H2 as [_ Bb].
    assert (Tr : Rabs (FR a - FR b) <= Rabs (FR a) + Rabs (FR b)).
    { unfold Rminus. apply Rle_trans with (1 := Rabs_triang _ _). rewrite Rabs_Ropp. lra. }
    destruct (small_sum a b Ba Bb (FR a - FR b) Tr) as [G1 G2].
    apply Sc_sub; assumption.
  Qed.

  (** a scaled number divided by an unscaled one *)
  Lemma qdivb_ok : forall m m' t, qdivb e m t = true -> Sc e m m' ->
    Sc e (m / t)%float (m' / t)%float.
  Proof.
    intros m m' t H Hs.
    unfold qdivb in H.
    destruct (rg_divb_spec e MB He HMB m t H) as [Ft [N1 [N2 [B1 B2]]]].
    assert (Ht0 : FR t <> 0).
    { unfold rg_divb in H.
      apply andb_true_iff in H. destruct H as [H _].
      apply andb_true_iff in H. destruct H as [_ H3].
      apply leb_pow2_abs in H3; [|lia|exact Ft].
      intros Hz. rewrite Hz, Rabs_R0 in H3. generalize (bpow_gt_0 radix2 (-500)). lra. }
    assert (HbM := bpM_lt MB HMB'). assert (FM := fmt_bpM MB HMB').
    assert (T1 : Rabs (rnd (FR m / FR t)) <= bp MB) by (apply ScaleFloat.rnd_abs_le; assumption).
    assert (T2 : Rabs (rnd (FR m / FR t) * bp e) <= bp MB).
    { rewrite <- (rnd_scale _ e N1 N2). apply ScaleFloat.rnd_abs_le; assumption. }
    apply Sc_div; try assumption; lra.
  Qed.

  (** numerator and denominator both scaled: the same float *)
  Lemma rdivb_ok : forall x x' t t', rdivb x t = true -> Sc e x x' -> Sc e t t' ->
    (x' / t')%float = (x / t)%float.
  Proof.
    intros x x' t t' H Hx Ht. unfold rdivb in H.
    apply andb_true_iff in H. destruct H as [H H3].
    apply andb_true_iff in H. destruct H as [H1 H2].
    apply smallb_spec in H1. destruct H1 as [Fx Bx].
    apply NormFloat.f_is_fin_true in H2.
    apply leb_pow2_abs in H3; [|lia|exact H2].
    assert (Ht0 : FR t <> 0).
    { intros Hz. rewrite Hz, Rabs_R0 in H3. generalize (bpow_gt_0 radix2 (-500)). lra. }
    assert (Hb : Rabs (FR x / FR t) <= bp 1000).
    { unfold Rdiv. rewrite Rabs_mult, Rabs_inv.
      change (bp 1000) with (bp (500 + 500)). rewrite bpow_plus.
      apply Rmult_le_compat; try apply Rabs_pos.
      - left. apply Rinv_0_lt_compat. apply Rabs_pos_lt. exact Ht0.
      - exact Bx.
      - replace (bp 500) with (/ bp (-500)) by (rewrite <- bpow_opp; reflexivity).
        apply Rinv_le_contravar; [apply bpow_gt_0 | exact H3]. }
    apply (div_scale_both e x x' t t' Hx Ht Ht0).
    apply Rle_lt_trans with (bp 1000); [|apply bp1000_lt].
    apply ScaleFloat.rnd_abs_le; [apply fmt_bp; lia | exact Hb].
  Qed.

  (** a payoff *)
  Lemma termb_ok : forall c x, IsPow2 c e -> termb e x = true -> Sc e x (x * c)%float.
  Proof.
    intros c x Hc H. destruct (termb_spec e He x H) as [Fx [Nx Bx]].
    apply Sc_mulc; try assumption. apply fmt_scale; [apply fmt_FR | exact Nx].
  Qed.
End Atoms.

(** ** 1. Lists of scaled numbers *)

Lemma Forall2_nth_gen : forall (A : Type) (R : A -> A -> Prop) (l l' : list A) (d d' : A),
  Forall2 R l l' -> R d d' -> forall j, R (nth j l d) (nth j l' d').
Proof.
  intros A R l l' d d' H Hd. induction H as [|x x' l l' Hx Hl IH]; intros j.
  - destruct j; exact Hd.
  - destruct j as [|j]; [exact Hx | apply IH].
Qed.

Lemma Forall2_upd : forall (A : Type) (R : A -> A -> Prop) (l l' : list A) (v v' : A),
  Forall2 R l l' -> R v v' -> forall j, Forall2 R (upd l j v) (upd l' j v').
Proof.
  intros A R l l' v v' H Hv. induction H as [|x x' l l' Hx Hl IH]; intros j.
  - destruct j; constructor.
  - destruct j as [|j]; cbn [upd]; constructor; auto.
Qed.

Lemma Forall2_len : forall (A : Type) (R : A -> A -> Prop) (l l' : list A),
  Forall2 R l l' -> length l' = length l.
Proof. intros A R l l' H. induction H; cbn [length]; congruence. Qed.

Lemma Sc_refl0 : forall e n, Forall2 (Sc e) (@repeatT FNum 0%float n) (@repeatT FNum 0%float n).
Proof. intros e n. induction n; cbn [repeatT]; constructor; [apply Sc_zero | assumption]. Qed.

Lemma filter_pos_Sc : forall e l l', Forall2 (Sc e) l l' ->
  Forall2 (Sc e) (filter (fun v => PrimFloat.ltb 0 v) l) (filter (fun v => PrimFloat.ltb 0 v) l').
Proof.
  intros e l l' H. induction H as [|x x' l l' Hx Hl IH]; [constructor|].
  cbn [filter]. rewrite (Sc_ltb_0l e x x' Hx).
  destruct (PrimFloat.ltb 0 x); [constructor|]; assumption.
Qed.

(** a checked left fold of additions *)
Fixpoint sumb (l : list float) (acc : float) : bool :=
  match l with
  | [] => true
  | x :: r => addb acc x && sumb r (acc + x)%float
  end.

Lemma sumb_ok : forall e, (-500 <= e <= 500)%Z -> forall l l', Forall2 (Sc e) l l' ->
  forall a a', Sc e a a' -> sumb l a = true ->
  Sc e (fold_left PrimFloat.add l a) (fold_left PrimFloat.add l' a').
Proof.
  intros e He l l' H. induction H as [|x x' l l' Hx Hl IH]; intros a a' Ha Hb; [exact Ha|].
  cbn [sumb] in Hb. apply andb_true_iff in Hb. destruct Hb as [H1 H2].
  cbn [fold_left]. apply IH; [|exact H2]. apply (addb_ok e He); assumption.
Qed.

(** ** 2. Regret matching does not see the unit *)

(** the checker: the positive regrets are summed without leaving the window, and every
    positive regret divided by the sum stays finite *)
Definition rmb (row : list float) : bool :=
  let pos := filter (fun v => PrimFloat.ltb 0 v) row in
  let norm := fold_left PrimFloat.add pos 0%float in
  sumb pos 0%float &&
  (if PrimFloat.ltb 0 norm
   then forallb (fun r => if PrimFloat.ltb 0 r then rdivb r norm else true) row
   else true).

Lemma argmax_last_Sc : forall e r r', Forall2 (Sc e) r r' -> forall i bi bv bv', Sc e bv bv' ->
  @argmax_last FNum r' i bi bv' = @argmax_last FNum r i bi bv.
Proof.
  intros e r r' H. induction H as [|x x' l l' Hx Hl IH]; intros i bi bv bv' Hb; [reflexivity|].
  cbn [argmax_last]. cbn [ltb FNum]. rewrite (Sc_ltb e x x' bv bv' Hx Hb).
  destruct (PrimFloat.ltb x bv); apply IH; assumption.
Qed.

Lemma argmin_first_Sc : forall e r r', Forall2 (Sc e) r r' -> forall i bi bv bv', Sc e bv bv' ->
  @argmin_first FNum r' i bi bv' = @argmin_first FNum r i bi bv.
Proof.
  intros e r r' H. induction H as [|x x' l l' Hx Hl IH]; intros i bi bv bv' Hb; [reflexivity|].
  cbn [argmin_first]. cbn [ltb FNum]. rewrite (Sc_ltb e x x' bv bv' Hx Hb).
  destruct (PrimFloat.ltb x bv); apply IH; assumption.
Qed.

Lemma map_div_Sc : forall e, (-500 <= e <= 500)%Z -> forall t t', Sc e t t' ->
  forall l l', Forall2 (Sc e) l l' ->
  forallb (fun r => if PrimFloat.ltb 0 r then rdivb r t else true) l = true ->
  map (fun r => if PrimFloat.ltb 0 r then (r / t')%float else 0%float) l' =
  map (fun r => if PrimFloat.ltb 0 r then (r / t)%float else 0%float) l.
Proof.
  intros e He t t' Ht l l' H. induction H as [|x x' l l' Hx Hl IH]; intros Hb; [reflexivity|].
  cbn [forallb] in Hb. apply andb_true_iff in Hb. destruct Hb as [H1 H2].
  cbn [map]. rewrite (IH H2), (Sc_ltb_0l e x x' Hx). f_equal.
  destruct (PrimFloat.ltb 0 x); [|reflexivity].
  apply (rdivb_ok e x x' t t' H1 Hx Ht).
Qed.

(** Item 1.  [nosoftmax p]: the fallback [a_nopos p] is [0] (uniform), [+inf] (arg-max) or
    [-inf] (arg-min). *)
Theorem regret_match_scale : forall (e : Z) (p : @params FNum) (row row' : list float),
  (-500 <= e <= 500)%Z -> nosoftmax p ->
  Forall2 (Sc e) row row' -> rmb row = true ->
  @regret_match FNum p row' = @regret_match FNum p row.
Proof.
  intros e p row row' He Hns H Hb.
  unfold rmb in Hb. apply andb_true_iff in Hb. destruct Hb as [Hb1 Hb2].
  assert (Hpos := filter_pos_Sc e row row' H).
  assert (Hnorm := sumb_ok e He _ _ Hpos 0%float 0%float (Sc_zero e) Hb1).
  assert (Hlen := Forall2_len _ _ _ _ H).
  unfold regret_match, sum. cbn [ltb zero add div T FNum].
  rewrite (Sc_ltb_0l e _ _ Hnorm).
  destruct (PrimFloat.ltb 0 (fold_left PrimFloat.add (filter (fun v => PrimFloat.ltb 0 v) row) 0%float)).
  - cbn [div FNum]. apply (map_div_Sc e He _ _ Hnorm _ _ H Hb2).
  - unfold nosoftmax in Hns. destruct (a_nopos p) as [|w|].
    + destruct H as [|v v' r r' Hv Hr]; [reflexivity|].
      cbn [length] in Hlen |- *. injection Hlen as Hlen. rewrite Hlen.
      rewrite (argmin_first_Sc e r r' Hr 1%nat O v v' Hv). reflexivity.
    + cbn [eqb FNum]. rewrite Hns. unfold lenT. cbn [T FNum]. rewrite !Hlen. reflexivity.
    + destruct H as [|v v' r r' Hv Hr]; [reflexivity|].
      cbn [length] in Hlen |- *. injection Hlen as Hlen. rewrite Hlen.
      rewrite (argmax_last_Sc e r r' Hr 1%nat O v v' Hv). reflexivity.
Qed.

(** ** 3. The state relation: cumulative regrets scaled, strategies and accumulated
    strategies equal *)

Definition RiSc (e : Z) (ri ri' : rinfo) : Prop :=
  Forall2 (Sc e) (cum_regret ri) (cum_regret ri') /\
  cum_strat ri' = cum_strat ri /\ strat ri' = strat ri.

Definition StSc (e : Z) (st st' : pstate) : Prop :=
  Forall2 (RiSc e) (fst st) (fst st') /\ Forall2 (RiSc e) (snd st) (snd st').

Lemma RiSc_default : forall e, RiSc e (@mkRinfo FNum [] [] []) (@mkRinfo FNum [] [] []).
Proof. intros e. split; [constructor | split; reflexivity]. Qed.

Lemma StSc_get : forall e st st' pl i, StSc e st st' ->
  RiSc e (@ri_get FNum st pl i) (@ri_get FNum st' pl i).
Proof.
  intros e st st' pl i [H1 H2]. unfold ri_get, ps_get.
  destruct pl; apply Forall2_nth_gen; try assumption; apply RiSc_default.
Qed.

Lemma StSc_set : forall e st st' pl i ri ri', StSc e st st' -> RiSc e ri ri' ->
  StSc e (@ri_set FNum st pl i ri) (@ri_set FNum st' pl i ri').
Proof.
  intros e st st' pl i ri ri' [H1 H2] Hri. unfold ri_set, ps_set, ps_get.
  destruct pl; split; cbn [fst snd]; try assumption; apply Forall2_upd; assumption.
Qed.

(** ** 4. One traversal *)

(** The checker, abstracted over the recursive call [rec] (the unscaled traversal) and
    the recursive checker [chk].  Every test is on values of the unscaled run. *)
Section ChkLoops.
  Context (e : Z).
  Context (rec : node -> float -> float -> float -> pstate -> float * pstate).
  Context (chk : node -> float -> float -> float -> pstate -> bool).

  Definition cpick (pc p1 p2 : float) (st : pstate) :=
    fix pick (ks : list node) (k : nat) {struct ks} : bool :=
      match ks with
      | [] => true
      | c :: r =>
          match k with
          | O => chk c (pc * 1)%float p1 p2 st &&
                 (let pay := fst (rec c (pc * 1)%float p1 p2 st) in
                  mulb e 1 pay && addb 0 (1 * pay))
          | S k' => pick r k'
          end
      end.

  Definition cgo_chance (pc p1 p2 : float) :=
    fix go (ps : list float) (ks : list node) (expected : float) (st : pstate) {struct ks} : bool :=
      match ps, ks with
      | p :: ps', c :: ks' =>
          chk c (pc * p)%float p1 p2 st &&
          (let r := rec c (pc * p)%float p1 p2 st in
           mulb e p (fst r) && addb expected (p * fst r) &&
           go ps' ks' (expected + p * fst r)%float (snd r))
      | _, _ => true
      end.

  Definition cgo_player (pl : bool) (i : nat) (pc p1 p2 mult : float) :=
    fix go (ks : list node) (ss : list float) (ai : nat) (e1 ee : float) (st : pstate)
           {struct ks} : bool :=
      match ks, ss with
      | c :: ks', prob :: ss' =>
          let q := if pl then ((p1 * prob)%float, p2) else (p1, (p2 * prob)%float) in
          chk c pc (fst q) (snd q) st &&
          (let r := rec c pc (fst q) (snd q) st in
           let util := (fst r * mult)%float in
           let ri' := @ri_get FNum (snd r) pl i in
           let cr := cum_regret ri' in
           let st'' := @ri_set FNum (snd r) pl i
                              (@mkRinfo FNum (upd cr ai (nth ai cr 0 + util)%float)
                                       (cum_strat ri') (strat ri')) in
           mulb e (fst r) mult && addb (nth ai cr 0%float) util &&
           mulb e prob (fst r) && addb e1 (prob * fst r) &&
           mulb e util prob && addb ee (util * prob) &&
           go ks' ss' (S ai) (e1 + prob * fst r)%float (ee + util * prob)%float st'')
      | _, _ => true
      end.
End ChkLoops.

Section VChk.
  Context (e : Z) (chance : list (list float)) (sampled : bool) (draw : @oracle FNum) (pass : N).
  Local Notation vr := (@vrec FNum chance sampled draw pass).

  Fixpoint vchk (n : node) (pc p1 p2 : float) (st : pstate) {struct n} : bool :=
    match n with
    | Term x => termb e x
    | Chance ci kids =>
        if sampled then
          (fix pick (ks : list node) (k : nat) {struct ks} : bool :=
            match ks with
            | [] => true
            | c :: r =>
                match k with
                | O => vchk c (pc * 1)%float p1 p2 st &&
                       (let pay := fst (vr c (pc * 1)%float p1 p2 st) in
                        mulb e 1 pay && addb 0 (1 * pay))
                | S k' => pick r k'
                end
            end) kids (draw true ci pass (@row FNum chance ci))
        else
          (fix go (ps : list float) (ks : list node) (expected : float) (st : pstate) {struct ks} : bool :=
            match ps, ks with
            | p :: ps', c :: ks' =>
                vchk c (pc * p)%float p1 p2 st &&
                (let r := vr c (pc * p)%float p1 p2 st in
                 mulb e p (fst r) && addb expected (p * fst r) &&
                 go ps' ks' (expected + p * fst r)%float (snd r))
            | _, _ => true
            end) (@row FNum chance ci) kids 0%float st
    | Player pl i kids =>
        let ri := @ri_get FNum st pl i in
        let mine := if pl then p1 else p2 in
        let cs := map (fun vc : float * float => (snd vc + mine * fst vc)%float)
                      (combine (strat ri) (cum_strat ri)) in
        let st0 := @ri_set FNum st pl i (@mkRinfo FNum (cum_regret ri) cs (strat ri)) in
        let mult := if pl then (pc * p2)%float else (- p1 * pc)%float in
        (fix go (ks : list node) (ss : list float) (ai : nat) (e1 ee : float) (st : pstate)
                {struct ks} : bool :=
           match ks, ss with
           | c :: ks', prob :: ss' =>
               let q := if pl then ((p1 * prob)%float, p2) else (p1, (p2 * prob)%float) in
               vchk c pc (fst q) (snd q) st &&
               (let r := vr c pc (fst q) (snd q) st in
                let util := (fst r * mult)%float in
                let ri' := @ri_get FNum (snd r) pl i in
                let cr := cum_regret ri' in
                let st'' := @ri_set FNum (snd r) pl i
                                   (@mkRinfo FNum (upd cr ai (nth ai cr 0 + util)%float)
                                            (cum_strat ri') (strat ri')) in
                mulb e (fst r) mult && addb (nth ai cr 0%float) util &&
                mulb e prob (fst r) && addb e1 (prob * fst r) &&
                mulb e util prob && addb ee (util * prob) &&
                go ks' ss' (S ai) (e1 + prob * fst r)%float (ee + util * prob)%float st'')
           | _, _ => true
           end) kids (strat ri) O 0%float 0%float st0 &&
        (let '(_, ee, st2) := fgo_player vr pl i pc p1 p2 mult kids (strat ri) O 0%float 0%float st0 in
         forallb (fun v => addb v ee) (cum_regret (@ri_get FNum st2 pl i)))
    end.

  Lemma vchk_Term : forall x pc p1 p2 st, vchk (Term x) pc p1 p2 st = termb e x.
  Proof. reflexivity. Qed.

  Lemma vchk_Chance : forall ci kids pc p1 p2 st,
    vchk (Chance ci kids) pc p1 p2 st =
    if sampled then cpick e vr vchk pc p1 p2 st kids (draw true ci pass (@row FNum chance ci))
    else cgo_chance e vr vchk pc p1 p2 (@row FNum chance ci) kids 0%float st.
  Proof. reflexivity. Qed.

  Lemma vchk_Player : forall pl i kids pc p1 p2 st,
    vchk (Player pl i kids) pc p1 p2 st =
    let ri := @ri_get FNum st pl i in
    let mine := if pl then p1 else p2 in
    let cs := map (fun vc : float * float => (snd vc + mine * fst vc)%float)
                  (combine (strat ri) (cum_strat ri)) in
    let st0 := @ri_set FNum st pl i (@mkRinfo FNum (cum_regret ri) cs (strat ri)) in
    let mult := if pl then (pc * p2)%float else (- p1 * pc)%float in
    cgo_player e vr vchk pl i pc p1 p2 mult kids (strat ri) O 0%float 0%float st0 &&
    (let '(_, ee, st2) := fgo_player vr pl i pc p1 p2 mult kids (strat ri) O 0%float 0%float st0 in
     forallb (fun v => addb v ee) (cum_regret (@ri_get FNum st2 pl i))).
  Proof. reflexivity. Qed.
End VChk.

Ltac spl H H1 H2 := apply andb_true_iff in H; destruct H as [H1 H2].

Lemma map_sub_Sc : forall e, (-500 <= e <= 500)%Z -> forall x x', Sc e x x' ->
  forall l l', Forall2 (Sc e) l l' -> forallb (fun v => addb v x) l = true ->
  Forall2 (Sc e) (map (fun v => (v - x)%float) l) (map (fun v => (v - x')%float) l').
Proof.
  intros e He x x' Hx l l' H. induction H as [|v v' l l' Hv Hl IH]; intros Hb; [constructor|].
  cbn [forallb] in Hb. spl Hb Hb1 Hb2. cbn [map]. constructor; [|apply IH; exact Hb2].
  apply (subb_ok e He); assumption.
Qed.

Section VScale.
  Context (c : float) (e : Z) (Hc : IsPow2 c e) (He : (-500 <= e <= 500)%Z).
  Context (rec rec' : node -> float -> float -> float -> pstate -> float * pstate).
  Context (chk : node -> float -> float -> float -> pstate -> bool).

  (** what a traversal of [scale_node c k] does, compared with the traversal of [k] *)
  Definition VSpec (k : node) : Prop := forall pc p1 p2 st st',
    StSc e st st' -> chk k pc p1 p2 st = true ->
    Sc e (fst (rec k pc p1 p2 st)) (fst (rec' (scale_node c k) pc p1 p2 st')) /\
    StSc e (snd (rec k pc p1 p2 st)) (snd (rec' (scale_node c k) pc p1 p2 st')).

  Lemma cpick_ok : forall pc p1 p2 st st' ks, Forall VSpec ks -> StSc e st st' -> forall k,
    cpick e rec chk pc p1 p2 st ks k = true ->
    Sc e (fst (fpick rec pc p1 p2 st ks k))
         (fst (fpick rec' pc p1 p2 st' (map (scale_node c) ks) k)) /\
    StSc e (snd (fpick rec pc p1 p2 st ks k))
         (snd (fpick rec' pc p1 p2 st' (map (scale_node c) ks) k)).
  Proof.
    intros pc p1 p2 st st' ks HK Hst.
    induction HK as [|k0 ks Hk HK IH]; intros k Hb.
    - cbn [map fpick fst snd]. split; [apply Sc_zero | exact Hst].
    - cbn [map]. destruct k as [|k].
      + cbn [cpick] in Hb. cbn [fpick].
        spl Hb Hb1 Hb2. cbv zeta in Hb2. spl Hb2 Hb2 Hb3.
        destruct (Hk (pc * 1)%float p1 p2 st st' Hst Hb1) as [Hv Hs].
        destruct (rec k0 (pc * 1)%float p1 p2 st) as [pay st1].
        destruct (rec' (scale_node c k0) (pc * 1)%float p1 p2 st') as [pay' st1'].
        cbn [fst snd] in Hv, Hs, Hb2, Hb3 |- *.
        split; [|exact Hs].
        apply (addb_ok e He); [exact Hb3 | apply Sc_zero | apply (mulb_r e He); assumption].
      + cbn [cpick] in Hb. cbn [fpick]. apply IH. exact Hb.
  Qed.

  Lemma cgo_chance_ok : forall pc p1 p2 ks, Forall VSpec ks -> forall ps ex ex' st st',
    Sc e ex ex' -> StSc e st st' -> cgo_chance e rec chk pc p1 p2 ps ks ex st = true ->
    Sc e (fst (fgo_chance rec pc p1 p2 ps ks ex st))
         (fst (fgo_chance rec' pc p1 p2 ps (map (scale_node c) ks) ex' st')) /\
    StSc e (snd (fgo_chance rec pc p1 p2 ps ks ex st))
         (snd (fgo_chance rec' pc p1 p2 ps (map (scale_node c) ks) ex' st')).
  Proof.
    intros pc p1 p2 ks HK.
    induction HK as [|k0 ks Hk HK IH]; intros ps ex ex' st st' Hex Hst Hb.
    - destruct ps; cbn [map fgo_chance fst snd]; split; assumption.
    - destruct ps as [|p ps]; [cbn [map fgo_chance fst snd]; split; assumption|].
      cbn [cgo_chance] in Hb. cbn [map fgo_chance].
      spl Hb Hb1 Hb2. cbv zeta in Hb2. spl Hb2 Hb2 Hb4. spl Hb2 Hb2 Hb3.
      destruct (Hk (pc * p)%float p1 p2 st st' Hst Hb1) as [Hv Hs].
      destruct (rec k0 (pc * p)%float p1 p2 st) as [pay st1].
      destruct (rec' (scale_node c k0) (pc * p)%float p1 p2 st') as [pay' st1'].
      cbn [fst snd] in Hv, Hs, Hb2, Hb3, Hb4.
      apply IH; [|exact Hs|exact Hb4].
      apply (addb_ok e He); [exact Hb3 | exact Hex | apply (mulb_r e He); assumption].
  Qed.

  Lemma cgo_player_ok : forall pl i pc p1 p2 mult ks, Forall VSpec ks ->
    forall ss ai e1 e1' ee ee' st st',
    Sc e e1 e1' -> Sc e ee ee' -> StSc e st st' ->
    cgo_player e rec chk pl i pc p1 p2 mult ks ss ai e1 ee st = true ->
    let r := fgo_player rec pl i pc p1 p2 mult ks ss ai e1 ee st in
    let r' := fgo_player rec' pl i pc p1 p2 mult (map (scale_node c) ks) ss ai e1' ee' st' in
    Sc e (fst (fst r)) (fst (fst r')) /\ Sc e (snd (fst r)) (snd (fst r')) /\
    StSc e (snd r) (snd r').
  Proof.
    intros pl i pc p1 p2 mult ks HK.
    induction HK as [|k0 ks Hk HK IH]; intros ss ai e1 e1' ee ee' st st' H1 H2 Hst Hb r r'.
    - unfold r, r'. destruct ss; cbn [map fgo_player fst snd]; (split; [|split]); assumption.
    - destruct ss as [|prob ss];
        [unfold r, r'; cbn [map fgo_player fst snd]; (split; [|split]); assumption|].
      unfold r, r'. cbn [cgo_player] in Hb. cbn [map fgo_player].
      set (q := if pl then ((p1 * prob)%float, p2) else (p1, (p2 * prob)%float)) in *.
      destruct q as [q1 q2]. cbn [fst snd] in Hb. cbv zeta in Hb.
      spl Hb Hb1 Hb. spl Hb Hb Hb8. spl Hb Hb Hb7. spl Hb Hb Hb6. spl Hb Hb Hb5.
      spl Hb Hb Hb4. spl Hb Hb2 Hb3.
      destruct (Hk pc q1 q2 st st' Hst Hb1) as [Hv Hs].
      destruct (rec k0 pc q1 q2 st) as [u st1].
      destruct (rec' (scale_node c k0) pc q1 q2 st') as [u' st1'].
      cbn [fst snd] in Hv, Hs, Hb2, Hb3, Hb4, Hb5, Hb6, Hb7, Hb8. cbv zeta.
      assert (Hutil : Sc e (u * mult)%float (u' * mult)%float) by (apply (mulb_l e He); assumption).
      destruct (StSc_get e st1 st1' pl i Hs) as [Hcr [Hcs Hstr]].
      apply IH.
      + apply (addb_ok e He); [exact Hb5 | exact H1 | apply (mulb_r e He); assumption].
      + apply (addb_ok e He); [exact Hb7 | exact H2 | apply (mulb_l e He); assumption].
      + apply StSc_set; [exact Hs|].
        split; [|split; assumption]. cbn [cum_regret].
        apply Forall2_upd; [exact Hcr|].
        apply (addb_ok e He); [exact Hb3 | | exact Hutil].
        apply Forall2_nth_gen; [exact Hcr | apply Sc_zero].
      + exact Hb8.
  Qed.
End VScale.

(** Item 2: one traversal, unsampled or chance-sampled, every oracle. *)
Theorem vrec_scale : forall (c : float) (e : Z) (chance : list (list float)) (sampled : bool)
    (draw : @oracle FNum) (pass : N),
  IsPow2 c e -> (-500 <= e <= 500)%Z ->
  forall (n : node) (pc p1 p2 : float) (st st' : pstate),
  StSc e st st' -> vchk e chance sampled draw pass n pc p1 p2 st = true ->
  Sc e (fst (@vrec FNum chance sampled draw pass n pc p1 p2 st))
       (fst (@vrec FNum chance sampled draw pass (scale_node c n) pc p1 p2 st')) /\
  StSc e (snd (@vrec FNum chance sampled draw pass n pc p1 p2 st))
       (snd (@vrec FNum chance sampled draw pass (scale_node c n) pc p1 p2 st')).
Proof.
  intros c e chance sampled draw pass Hc He.
  induction n as [x|ci kids IH|pl i kids IH] using node_ind'; intros pc p1 p2 st st' Hst Hb.
  - rewrite vchk_Term in Hb. rewrite scale_node_Term, !fvrec_Term. cbn [fst snd].
    split; [apply (termb_ok e He); assumption | exact Hst].
  - change (scale_node c (Chance ci kids)) with (@Chance FNum ci (map (scale_node c) kids)).
    rewrite vchk_Chance in Hb. rewrite !fvrec_Chance. destruct sampled.
    + apply (cpick_ok c e He _ _ (vchk e chance true draw pass)); assumption.
    + apply (cgo_chance_ok c e He _ _ (vchk e chance false draw pass)); try assumption.
      apply Sc_zero.
  - change (scale_node c (Player pl i kids)) with (@Player FNum pl i (map (scale_node c) kids)).
    rewrite vchk_Player in Hb. rewrite !fvrec_Player. cbv zeta in Hb |- *.
    destruct (StSc_get e st st' pl i Hst) as [Hcr [Hcs Hstr]].
    rewrite Hcs, Hstr.
    spl Hb Hb1 Hb2.
    set (mult := if pl then (pc * p2)%float else (- p1 * pc)%float) in *.
    set (st0 := @ri_set FNum st pl i _) in *.
    set (st0' := @ri_set FNum st' pl i _).
    assert (Hst0 : StSc e st0 st0').
    { apply StSc_set; [exact Hst|]. split; [exact Hcr | split; reflexivity]. }
    pose proof (cgo_player_ok c e He _ _ _ pl i pc p1 p2 mult kids IH
                  (strat (@ri_get FNum st pl i)) O 0%float 0%float 0%float 0%float st0 st0'
                  (Sc_zero e) (Sc_zero e) Hst0 Hb1) as G.
    cbv zeta in G.
    destruct (fgo_player (@vrec FNum chance sampled draw pass) pl i pc p1 p2 mult kids
                (strat (@ri_get FNum st pl i)) O 0%float 0%float st0) as [[e1 ee] st2].
    destruct (fgo_player (@vrec FNum chance sampled draw pass) pl i pc p1 p2 mult
                (map (scale_node c) kids)
                (strat (@ri_get FNum st pl i)) O 0%float 0%float st0') as [[e1' ee'] st2'].
    cbn [fst snd] in G |- *. destruct G as [G1 [G2 G3]].
    split; [exact G1|].
    apply StSc_set; [exact G3|].
    destruct (StSc_get e st2 st2' pl i G3) as [Hcr2 [Hcs2 Hstr2]].
    split; [|split; assumption]. cbn [cum_regret].
    apply (map_sub_Sc e He); assumption.
Qed.

(** ** 5. [advance]: regret matching, discounting, the bound *)

Definition dcrb (e : Z) (p : @params FNum) (it : N) (cr : list float) : bool :=
  forallb (fun r => if PrimFloat.ltb 0 r then mulb e r (@gen_discount FNum it (a_pos p))
                    else if PrimFloat.ltb r 0 then mulb e r (@gen_discount FNum it (a_neg p))
                    else true) cr.

Definition crbb (e : Z) (it : N) (cr : list float) : bool :=
  let m := f_max (match cr with [] => 0%float | x :: r => fold_left f_max r x end) 0 in
  mulb e 2 m && qdivb e (2 * m)%float (f_of_N it).

Definition advb (e : Z) (p : @params FNum) (it : N) (ri : rinfo) : bool :=
  rmb (cum_regret ri) && dcrb e p it (cum_regret ri) &&
  crbb e it (@discount_cum_regret FNum p it (cum_regret ri)).

Fixpoint advallb (e : Z) (p : @params FNum) (it ia : N) (l : list rinfo) (acc : float) : bool :=
  match l with
  | [] => true
  | ri :: r =>
      advb e p it ri &&
      (let b := snd (@advance FNum p it ia ri) in
       addb acc b && advallb e p it ia r (acc + b)%float)
  end.

Section Advance.
  Context (e : Z) (He : (-500 <= e <= 500)%Z).

  Lemma dcr_scale : forall p it cr cr', Forall2 (Sc e) cr cr' -> dcrb e p it cr = true ->
    Forall2 (Sc e) (@discount_cum_regret FNum p it cr) (@discount_cum_regret FNum p it cr').
  Proof.
    intros p it cr cr' H. rewrite !discount_cum_regret_FNum. unfold dcrb.
    induction H as [|x x' l l' Hx Hl IH]; intros Hb; [constructor|].
    cbn [forallb] in Hb. spl Hb Hb1 Hb2. cbn [map]. constructor; [|apply IH; exact Hb2].
    rewrite (Sc_ltb_0l e x x' Hx), (Sc_ltb_0r e x x' Hx).
    destruct (PrimFloat.ltb 0 x); [apply (mulb_l e He); assumption|].
    destruct (PrimFloat.ltb x 0); [apply (mulb_l e He); assumption | exact Hx].
  Qed.

  Lemma crb_scale : forall it cr cr', Forall2 (Sc e) cr cr' -> crbb e it cr = true ->
    Sc e (@cum_regret_bound FNum it cr) (@cum_regret_bound FNum it cr').
  Proof.
    intros it cr cr' H Hb. rewrite !cum_regret_bound_FNum. unfold crbb in Hb. cbv zeta in Hb.
    spl Hb Hb1 Hb2.
    assert (Hm : Sc e (match cr with [] => 0%float | x :: r => fold_left f_max r x end)
                      (match cr' with [] => 0%float | x :: r => fold_left f_max r x end)).
    { destruct H as [|x x' l l' Hx Hl]; [apply Sc_zero | apply fold_fmax_Sc; assumption]. }
    apply (qdivb_ok e He); [exact Hb2|].
    apply (mulb_r e He); [exact Hb1|]. apply fmax_zero_Sc. exact Hm.
  Qed.

  Lemma advance_scale : forall p it ia ri ri', nosoftmax p -> RiSc e ri ri' ->
    advb e p it ri = true ->
    RiSc e (fst (@advance FNum p it ia ri)) (fst (@advance FNum p it ia ri')) /\
    Sc e (snd (@advance FNum p it ia ri)) (snd (@advance FNum p it ia ri')).
  Proof.
    intros p it ia ri ri' Hns [Hcr [Hcs Hstr]] Hb. unfold advb in Hb.
    spl Hb Hb Hb3. spl Hb Hb1 Hb2.
    rewrite !advance_FNum. cbv zeta. cbn [fst snd].
    assert (Hd := dcr_scale p it _ _ Hcr Hb2).
    split.
    - split; [exact Hd|]. cbn [cum_strat strat]. split.
      + rewrite Hcs. reflexivity.
      + apply (regret_match_scale e p _ _ He Hns Hcr Hb1).
    - apply crb_scale; assumption.
  Qed.

  Lemma advance_all_scale : forall p it ia, nosoftmax p -> forall l l', Forall2 (RiSc e) l l' ->
    forall acc acc', Sc e acc acc' -> advallb e p it ia l acc = true ->
    Forall2 (RiSc e) (fst (@advance_all FNum p it ia l acc)) (fst (@advance_all FNum p it ia l' acc')) /\
    Sc e (snd (@advance_all FNum p it ia l acc)) (snd (@advance_all FNum p it ia l' acc')).
  Proof.
    intros p it ia Hns l l' H. induction H as [|x x' l l' Hx Hl IH]; intros acc acc' Ha Hb.
    - cbn [advance_all fst snd]. split; [constructor | exact Ha].
    - cbn [advallb] in Hb. spl Hb Hb1 Hb2. cbv zeta in Hb2. spl Hb2 Hb2 Hb3.
      destruct (advance_scale p it ia x x' Hns Hx Hb1) as [G1 G2].
      cbn [advance_all]. cbn [add FNum].
      destruct (@advance FNum p it ia x) as [ri1 b1].
      destruct (@advance FNum p it ia x') as [ri1' b1'].
      cbn [fst snd] in G1, G2, Hb2, Hb3.
      assert (Hacc : Sc e (acc + b1)%float (acc' + b1')%float) by (apply (addb_ok e He); assumption).
      destruct (IH _ _ Hacc Hb3) as [F1 F2].
      destruct (@advance_all FNum p it ia l (acc + b1)%float) as [r1 a1].
      destruct (@advance_all FNum p it ia l' (acc' + b1')%float) as [r1' a1'].
      cbn [fst snd] in F1, F2 |- *. split; [constructor; assumption | exact F2].
  Qed.
End Advance.

(** ** 6. One iteration *)

Definition iterb (e : Z) (g : game) (sampled : bool) (draw : @oracle FNum) (p : @params FNum)
           (it : N) (st : pstate) : bool :=
  vchk e (g_chance g) sampled draw (it - 1)%N (g_root g) 1%float 1%float 1%float st &&
  (let st1 := snd (@vrec FNum (g_chance g) sampled draw (it - 1)%N (g_root g)
                         1%float 1%float 1%float st) in
   advallb e p it it (fst st1) 0%float && advallb e p it it (snd st1) 0%float).

Theorem vanilla_iter_scale : forall (c : float) (e : Z) (g : game) (sampled : bool)
    (draw : @oracle FNum) (p : @params FNum) (it : N) (st st' : pstate),
  IsPow2 c e -> (-500 <= e <= 500)%Z -> nosoftmax p ->
  StSc e st st' -> iterb e g sampled draw p it st = true ->
  StSc e (fst (@vanilla_iter FNum g sampled draw p it st))
         (fst (@vanilla_iter FNum (scale_game c g) sampled draw p it st')) /\
  Sc e (fst (snd (@vanilla_iter FNum g sampled draw p it st)))
       (fst (snd (@vanilla_iter FNum (scale_game c g) sampled draw p it st'))) /\
  Sc e (snd (snd (@vanilla_iter FNum g sampled draw p it st)))
       (snd (snd (@vanilla_iter FNum (scale_game c g) sampled draw p it st'))).
Proof.
  intros c e g sampled draw p it st st' Hc He Hns Hst Hb.
  unfold iterb in Hb. spl Hb Hb1 Hb2. cbv zeta in Hb2. spl Hb2 Hb2 Hb3.
  rewrite !vanilla_iter_F_eq. cbv zeta.
  change (g_chance (scale_game c g)) with (g_chance g).
  change (g_root (scale_game c g)) with (scale_node c (g_root g)).
  destruct (vrec_scale c e (g_chance g) sampled draw (it - 1)%N Hc He (g_root g)
              1%float 1%float 1%float st st' Hst Hb1) as [_ [S1 S2]].
  destruct (advance_all_scale e He p it it Hns _ _ S1 0%float 0%float (Sc_zero e) Hb2) as [A1 A2].
  destruct (advance_all_scale e He p it it Hns _ _ S2 0%float 0%float (Sc_zero e) Hb3) as [B1 B2].
  cbn [fst snd]. split; [split; assumption | split; assumption].
Qed.

(** ** 7. The loop and [solve_single] *)

Definition meth (sampled : bool) : method := if sampled then Sampled else Full.

Fixpoint solveb (e : Z) (g : game) (sampled : bool) (draw : @oracle FNum) (p : @params FNum)
         (stop : float -> bool) (remaining : nat) (it : N) (st : pstate) {struct remaining} : bool :=
  match remaining with
  | O => true
  | S r =>
      iterb e g sampled draw p it st &&
      (let res := @vanilla_iter FNum g sampled draw p it st in
       if stop (f_max (fst (snd res)) (snd (snd res))) then true
       else solveb e g sampled draw p stop r (it + 1)%N (fst res))
  end.

Definition RegSc (e : Z) (regs regs' : option (float * float)) : Prop :=
  match regs, regs' with
  | None, None => True
  | Some ab, Some ab' => Sc e (fst ab) (fst ab') /\ Sc e (snd ab) (snd ab')
  | _, _ => False
  end.

Lemma one_iter_meth : forall (g : game) sampled draw p it st,
  @one_iter FNum g (meth sampled) draw p it st = @vanilla_iter FNum g sampled draw p it st.
Proof. intros g sampled draw p it st. destruct sampled; reflexivity. Qed.

Lemma solve_loop_S : forall (g : game) m draw p stop r it st regs ran,
  @solve_loop FNum g m draw p stop (S r) it st regs ran =
  let res := @one_iter FNum g m draw p it st in
  if stop (f_max (fst (snd res)) (snd (snd res)))
  then (fst res, Some (fst (snd res), snd (snd res)), it)
  else @solve_loop FNum g m draw p stop r (it + 1)%N (fst res)
                   (Some (fst (snd res), snd (snd res))) it.
Proof.
  intros g m draw p stop r it st regs ran. cbn [solve_loop]. cbv zeta.
  destruct (@one_iter FNum g m draw p it st) as [st1 [r1 r2]]. reflexivity.
Qed.

Theorem solve_loop_scale : forall (c : float) (e : Z) (g : game) (sampled : bool)
    (draw : @oracle FNum) (p : @params FNum) (stop stop' : float -> bool),
  IsPow2 c e -> (-500 <= e <= 500)%Z -> nosoftmax p ->
  (forall x x', Sc e x x' -> stop' x' = stop x) ->
  forall (rem : nat) (it : N) (st st' : pstate) (regs regs' : option (float * float)) (ran : N),
  StSc e st st' -> RegSc e regs regs' ->
  solveb e g sampled draw p stop rem it st = true ->
  StSc e (fst (fst (@solve_loop FNum g (meth sampled) draw p stop rem it st regs ran)))
         (fst (fst (@solve_loop FNum (scale_game c g) (meth sampled) draw p stop' rem it st' regs' ran))) /\
  RegSc e (snd (fst (@solve_loop FNum g (meth sampled) draw p stop rem it st regs ran)))
          (snd (fst (@solve_loop FNum (scale_game c g) (meth sampled) draw p stop' rem it st' regs' ran))) /\
  snd (@solve_loop FNum (scale_game c g) (meth sampled) draw p stop' rem it st' regs' ran) =
  snd (@solve_loop FNum g (meth sampled) draw p stop rem it st regs ran).
Proof.
  intros c e g sampled draw p stop stop' Hc He Hns Hstop.
  induction rem as [|rem IH]; intros it st st' regs regs' ran Hst Hregs Hb.
  - cbn [solve_loop fst snd]. split; [exact Hst | split; [exact Hregs | reflexivity]].
  - cbn [solveb] in Hb. spl Hb Hb1 Hb2. cbv zeta in Hb2.
    rewrite !solve_loop_S. cbv zeta. rewrite !one_iter_meth.
    destruct (vanilla_iter_scale c e g sampled draw p it st st' Hc He Hns Hst Hb1) as [G1 [G2 G3]].
    destruct (@vanilla_iter FNum g sampled draw p it st) as [st1 [r1 r2]].
    destruct (@vanilla_iter FNum (scale_game c g) sampled draw p it st') as [st1' [r1' r2']].
    cbn [fst snd] in G1, G2, G3, Hb2 |- *.
    rewrite (Hstop _ _ (Sc_fmax e r1 r1' r2 r2' G2 G3)).
    destruct (stop (f_max r1 r2)).
    + cbn [fst snd]. split; [exact G1 | split; [split; assumption | reflexivity]].
    + apply IH; [exact G1 | split; assumption | exact Hb2].
Qed.

Lemma final_strats_scale : forall e (st st' : pstate), StSc e st st' ->
  @final_strats FNum st' = @final_strats FNum st.
Proof.
  intros e st st' [H1 H2]. unfold final_strats.
  assert (Hm : forall l l', Forall2 (RiSc e) l l' ->
            map (fun ri : rinfo => @avg_strat FNum (cum_strat ri)) l' =
            map (fun ri : rinfo => @avg_strat FNum (cum_strat ri)) l).
  { intros l l' H. induction H as [|x x' l l' Hx Hl IH]; [reflexivity|].
    cbn [map]. destruct Hx as [_ [Hcs _]]. rewrite Hcs, IH. reflexivity. }
  rewrite (Hm _ _ H1), (Hm _ _ H2). reflexivity.
Qed.

Lemma init_state_scale : forall e (g : game), StSc e (@init_state FNum g) (@init_state FNum g).
Proof.
  intros e g. unfold init_state.
  assert (Hm : forall l : list pinfo,
            Forall2 (RiSc e) (map (fun pi => @rinfo_new FNum (length (pi_actions pi))) l)
                             (map (fun pi => @rinfo_new FNum (length (pi_actions pi))) l)).
  { induction l as [|x l IH]; cbn [map]; constructor; [|exact IH].
    unfold rinfo_new. split; [cbn [cum_regret]; apply Sc_refl0 | split; reflexivity]. }
  split; cbn [fst snd]; apply Hm.
Qed.

Lemma solve_single_proj : forall (g : game) m draw p budget stop,
  @solve_single FNum g m draw p budget stop =
  (@final_strats FNum (fst (fst (@solve_loop FNum g m draw p stop budget 1%N (@init_state FNum g) None 0%N))),
   snd (fst (@solve_loop FNum g m draw p stop budget 1%N (@init_state FNum g) None 0%N)),
   snd (@solve_loop FNum g m draw p stop budget 1%N (@init_state FNum g) None 0%N)).
Proof.
  intros g m draw p budget stop. unfold solve_single.
  destruct (solve_loop g m draw p stop budget 1 (init_state g) None 0) as [[st regs] ran].
  reflexivity.
Qed.

(** the method is the unsampled or the chance-sampled one *)
Definition msampled (m : method) : bool := match m with Full => false | _ => true end.

(** Item 4.  Whole solve, [Full] or [Sampled], every parameter set whose regret-matching
    fallback is not the softmax (vanilla, LCFR, CFR+, DCFR, ...), every oracle, stopping
    predicates that correspond: the strategies are equal, the number of iterations is the
    same, the bounds are [Sc e]-related.  The hypothesis [solveb ... = true] is the range
    checker; it runs the unscaled solve only. *)
Theorem solve_single_scale : forall (c : float) (e : Z) (g : game) (m : method)
    (draw : @oracle FNum) (p : @params FNum) (budget : nat) (stop stop' : float -> bool),
  IsPow2 c e -> (-500 <= e <= 500)%Z -> m <> External -> nosoftmax p ->
  (forall x x', Sc e x x' -> stop' x' = stop x) ->
  solveb e g (msampled m) draw p stop budget 1%N (@init_state FNum g) = true ->
  fst (fst (@solve_single FNum (scale_game c g) m draw p budget stop')) =
  fst (fst (@solve_single FNum g m draw p budget stop)) /\
  RegSc e (snd (fst (@solve_single FNum g m draw p budget stop)))
          (snd (fst (@solve_single FNum (scale_game c g) m draw p budget stop'))) /\
  snd (@solve_single FNum (scale_game c g) m draw p budget stop') =
  snd (@solve_single FNum g m draw p budget stop).
Proof.
  intros c e g m draw p budget stop stop' Hc He Hm Hns Hstop Hb.
  assert (Em : m = meth (msampled m)) by (destruct m; try reflexivity; contradiction).
  rewrite Em. set (sm := msampled m) in *.
  rewrite !solve_single_proj. cbn [fst snd].
  change (@init_state FNum (scale_game c g)) with (@init_state FNum g).
  destruct (solve_loop_scale c e g sm draw p stop stop' Hc He Hns Hstop budget 1%N
              (@init_state FNum g) (@init_state FNum g) None None 0%N
              (init_state_scale e g) I Hb) as [G1 [G2 G3]].
  split; [apply (final_strats_scale e); exact G1 | split; [exact G2 | exact G3]].
Qed.

(** the bounds as an equality between floats: [b' = b * c], bit for bit *)
Definition scale_regs (c : float) (regs : option (float * float)) : option (float * float) :=
  match regs with
  | Some ab => Some ((fst ab * c)%float, (snd ab * c)%float)
  | None => None
  end.

Lemma RegSc_eq : forall c e regs regs', IsPow2 c e -> RegSc e regs regs' ->
  regs' = scale_regs c regs.
Proof.
  intros c e regs regs' Hc H. destruct regs as [[a b]|], regs' as [[a' b']|];
    cbn [RegSc fst snd scale_regs] in H |- *; try contradiction; [|reflexivity].
  destruct H as [H1 H2]. rewrite (Sc_eq c e a a' Hc H1), (Sc_eq c e b b' Hc H2). reflexivity.
Qed.

Theorem solve_single_scale_eq : forall (c : float) (e : Z) (g : game) (m : method)
    (draw : @oracle FNum) (p : @params FNum) (budget : nat) (stop stop' : float -> bool),
  IsPow2 c e -> (-500 <= e <= 500)%Z -> m <> External -> nosoftmax p ->
  (forall x x', Sc e x x' -> stop' x' = stop x) ->
  solveb e g (msampled m) draw p stop budget 1%N (@init_state FNum g) = true ->
  @solve_single FNum (scale_game c g) m draw p budget stop' =
  (fst (fst (@solve_single FNum g m draw p budget stop)),
   scale_regs c (snd (fst (@solve_single FNum g m draw p budget stop))),
   snd (@solve_single FNum g m draw p budget stop)).
Proof.
  intros c e g m draw p budget stop stop' Hc He Hm Hns Hstop Hb.
  destruct (solve_single_scale c e g m draw p budget stop stop' Hc He Hm Hns Hstop Hb)
    as [G1 [G2 G3]].
  apply (RegSc_eq c e _ _ Hc) in G2.
  destruct (@solve_single FNum (scale_game c g) m draw p budget stop') as [[s' r'] n'].
  cbn [fst snd] in G1, G2, G3. rewrite G1, G2, G3. reflexivity.
Qed.

(** stopping predicates that correspond: never stopping, and thresholds [r], [r'] with
    [r'] the scaling of [r] ([stop_at r x = (x <? r)]) *)
Lemma stop_never_corr : forall e x x', Sc e x x' ->
  (fun _ : float => false) x' = (fun _ : float => false) x.
Proof. reflexivity. Qed.

Lemma stop_at_corr : forall e r r', Sc e r r' ->
  forall x x', Sc e x x' -> @stop_at FNum r' x' = @stop_at FNum r x.
Proof. intros e r r' Hr x x' Hx. unfold stop_at. cbn [ltb FNum]. apply (Sc_ltb e); assumption. Qed.

(** ** 8. Example: [exs_g] (SolveFloat) in the unit [2^-200], ten iterations *)

Definition c200 : float := pow2 (-200).

Example exs_scale_check :
  solveb (-200) exs_g false exs_draw (@p_vanilla FNum) (fun _ => false) 10 1%N
         (@init_state FNum exs_g) = true.
Proof. vm_compute. reflexivity. Qed.

Example exs_scale_thm :
  @solve_single FNum (scale_game c200 exs_g) Full exs_draw (@p_vanilla FNum) 10 (fun _ => false) =
  (fst (fst (@solve_single FNum exs_g Full exs_draw (@p_vanilla FNum) 10 (fun _ => false))),
   scale_regs c200 (snd (fst (@solve_single FNum exs_g Full exs_draw (@p_vanilla FNum) 10 (fun _ => false)))),
   snd (@solve_single FNum exs_g Full exs_draw (@p_vanilla FNum) 10 (fun _ => false))).
Proof.
  apply (solve_single_scale_eq c200 (-200) exs_g Full exs_draw (@p_vanilla FNum) 10
           (fun _ => false) (fun _ => false)).
  - apply pow2_IsPow2. lia.
  - lia.
  - discriminate.
  - apply nosoftmax_vanilla.
  - intros x x' _. reflexivity.
  - exact exs_scale_check.
Qed.

(** both sides computed: the same strategies, bounds multiplied by [2^-200] *)
Example exs_scale_values :
  @solve_single FNum (scale_game c200 exs_g) Full exs_draw (@p_vanilla FNum) 10 (fun _ => false) =
  (([0x1.9d505b9c2bc46p-2; 0x1.3157d231ea1dep-1]%float,
    [0x1.2aaaaaaaaaaaap-1; 0x1.aaaaaaaaaaaabp-2]%float),
   Some (0x1.92b997d6275d6p-202, 0x1.4fce3ec460568p-203)%float, 10%N) /\
  @solve_single FNum exs_g Full exs_draw (@p_vanilla FNum) 10 (fun _ => false) =
  (([0x1.9d505b9c2bc46p-2; 0x1.3157d231ea1dep-1]%float,
    [0x1.2aaaaaaaaaaaap-1; 0x1.aaaaaaaaaaaabp-2]%float),
   Some (0x1.92b997d6275d6p-2, 0x1.4fce3ec460568p-3)%float, 10%N).
Proof. split; vm_compute; reflexivity. Qed.

(** the chance-sampled method and CFR+ (one-hot fallback), the unit [2^150] *)
Example exs_scale_check_sampled :
  solveb 150 exs_g true exs_draw (@p_cfr_plus FNum) (fun _ => false) 10 1%N
         (@init_state FNum exs_g) = true.
Proof. vm_compute. reflexivity. Qed.

Example exs_scale_thm_sampled :
  @solve_single FNum (scale_game (pow2 150) exs_g) Sampled exs_draw (@p_cfr_plus FNum) 10 (fun _ => false) =
  (fst (fst (@solve_single FNum exs_g Sampled exs_draw (@p_cfr_plus FNum) 10 (fun _ => false))),
   scale_regs (pow2 150)
     (snd (fst (@solve_single FNum exs_g Sampled exs_draw (@p_cfr_plus FNum) 10 (fun _ => false)))),
   snd (@solve_single FNum exs_g Sampled exs_draw (@p_cfr_plus FNum) 10 (fun _ => false))).
Proof.
  apply (solve_single_scale_eq (pow2 150) 150 exs_g Sampled exs_draw (@p_cfr_plus FNum) 10
           (fun _ => false) (fun _ => false)).
  - apply pow2_IsPow2. lia.
  - lia.
  - discriminate.
  - apply nosoftmax_cfr_plus.
  - intros x x' _. reflexivity.
  - exact exs_scale_check_sampled.
Qed.

(** early termination: thresholds [0.25] and [0.25 * 2^-200] stop at the same iteration *)
Example exs_scale_thm_stop :
  @solve_single FNum (scale_game c200 exs_g) Full exs_draw (@p_vanilla FNum) 50
                (@stop_at FNum (0.25 * c200)%float) =
  (fst (fst (@solve_single FNum exs_g Full exs_draw (@p_vanilla FNum) 50 (@stop_at FNum 0.25%float))),
   scale_regs c200
     (snd (fst (@solve_single FNum exs_g Full exs_draw (@p_vanilla FNum) 50 (@stop_at FNum 0.25%float)))),
   snd (@solve_single FNum exs_g Full exs_draw (@p_vanilla FNum) 50 (@stop_at FNum 0.25%float))) /\
  snd (@solve_single FNum exs_g Full exs_draw (@p_vanilla FNum) 50 (@stop_at FNum 0.25%float)) = 15%N.
Proof.
  assert (Hc : IsPow2 c200 (-200)) by (apply pow2_IsPow2; lia).
  split; [|vm_compute; reflexivity].
  apply (solve_single_scale_eq c200 (-200) exs_g Full exs_draw (@p_vanilla FNum) 50).
  - exact Hc.
  - lia.
  - discriminate.
  - apply nosoftmax_vanilla.
  - apply stop_at_corr. apply (termb_ok (-200)); [lia | exact Hc | vm_compute; reflexivity].
  - vm_compute. reflexivity.
Qed.

(** the range hypothesis is not vacuous: on the same game expressed in the unit [2^-900]
    the checker refuses [e = -200] (the products would underflow), and indeed the game in
    the unit [2^-1100] is solved differently (every regret underflows to zero: uniform
    strategies) *)
Example exs_scale_refused :
  solveb (-200) (scale_game (pow2 (-900)) exs_g) false exs_draw (@p_vanilla FNum) (fun _ => false) 10 1%N
         (@init_state FNum exs_g) = false /\
  fst (fst (@solve_single FNum (scale_game c200 (scale_game (pow2 (-900)) exs_g)) Full exs_draw
                          (@p_vanilla FNum) 10 (fun _ => false))) <>
  fst (fst (@solve_single FNum (scale_game (pow2 (-900)) exs_g) Full exs_draw
                          (@p_vanilla FNum) 10 (fun _ => false))).
Proof.
  split; [vm_compute; reflexivity|].
  intros H.
  apply (f_equal (fun s : list float * list float =>
                    match fst s with x :: _ => PrimFloat.eqb x 0.5 | [] => false end)) in H.
  vm_compute in H. discriminate H.
Qed.
