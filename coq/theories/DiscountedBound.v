(** * DiscountedBound: the true regret of the profile returned by the unsampled solve with
    the presets [p_cfr_plus], [p_dcfr], [p_dcfr_prune] (property C03, clause 2).

    These presets discount the cumulative regrets by sign ([pf t] on positive entries,
    [nf t <= pf t] on negative ones) and the cumulative strategy by [e t = (t/(t+1))^2]
    (iteration [t] has weight [t^2] in the returned average).  The argument
    (Tammelin et al. for CFR+, Brown & Sandholm 2019 Thm 3 for DCFR, redone for the
    bookkeeping of this code — simultaneous updates, regret matching on the undiscounted
    regrets, discount afterwards):
    - [abel_weighted]: if [R_{k+1} >= pf_{k+1} (R_k + r_k)], [R_k >= - L_k] and the
      weights satisfy [w_{k-1} / pf_k <= w_k], then
      [sum_{k<T} w_k r_k <= w_{T-1} / pf_T * R_T + sum_{1<=k<T} (w_k - w_{k-1}/pf_k) L_k];
    - [DiscountedSpec.sregret_decomposition], [DiscountedSpec.savg_realisation]: the
      weighted external regret is the reach-weighted sum of these weighted sums, and the
      returned average realises the weighted average of the iterates;
    - [sexternal_regret_bound], [strajectory_bound], [sbound_dominates]: the generic bound;
    - the three presets. *)
From Coq Require Import Reals List Lra Lia Bool Arith NArith.
From Cfr.theories Require Import Num RInst Tree GameWF Strat Eval Solve Valid
     SolveValidProofs LoopProofs RulesProofs Incr IterChar CfMass CfrRate EvalSpec EvalProofs
     BestResponseProofs CfrSpec Decomposition AvgRealisation BoundDominates LcfrSpec LcfrBound
     DiscountedSpec.
Import ListNotations.
Open Scope R_scope.

Local Notation node := (@node RNum).
Local Notation game := (@game RNum).
Local Notation incr := (@incr RNum).
Local Notation oracle := (@oracle RNum).
Local Notation params := (@params RNum).

(** ** The summation-by-parts lemma (pure real analysis).

    Iteration number [k + 1] has weight [w k], increment [r k] and discount [pf (S k)];
    the cumulative value after it is [Rg (S k)]. *)
Section Abel.
  Context (w pf L Rg r : nat -> R) (T : nat).
  Context (Hw : forall k, (k < T)%nat -> 0 <= w k).
  Context (Hpf : forall k, (k < T)%nat -> 0 < pf (S k)).
  Context (H0 : Rg 0%nat = 0).
  Context (Hstep : forall k, (k < T)%nat -> pf (S k) * (Rg k + r k) <= Rg (S k)).
  Context (Hkap : forall k, (S k < T)%nat -> 0 <= w (S k) - w k / pf (S k)).
  Context (HL : forall k, (S k < T)%nat -> - L (S k) <= Rg (S k)).

  Lemma abel_step k : (k < T)%nat -> r k <= Rg (S k) / pf (S k) - Rg k.
  Proof.
    intros Hk. pose proof (Hpf k Hk) as Hp. pose proof (Hstep k Hk) as Hs.
    apply (Rmult_le_reg_l (pf (S k))); [exact Hp|].
    replace (pf (S k) * (Rg (S k) / pf (S k) - Rg k)) with (Rg (S k) - pf (S k) * Rg k)
      by (field; lra).
    lra.
  Qed.

  Lemma abel_weighted n :
    (S n <= T)%nat ->
    Rsumn (S n) (fun k => w k * r k) <=
    w n / pf (S n) * Rg (S n) + Rsumn n (fun j => (w (S j) - w j / pf (S j)) * L (S j)).
  Proof.
    induction n as [|n IH]; intros Hn.
    - rewrite Rsumn_S_last, !Rsumn_0.
      pose proof (abel_step 0 ltac:(lia)) as Hs. rewrite H0 in Hs.
      pose proof (Hw 0%nat ltac:(lia)) as Hw0.
      assert (w 0%nat * r 0%nat <= w 0%nat * (Rg 1%nat / pf 1%nat)) by (apply Rmult_le_compat_l; lra).
      replace (w 0%nat / pf 1%nat * Rg 1%nat) with (w 0%nat * (Rg 1%nat / pf 1%nat))
        by (unfold Rdiv; ring).
      lra.
    - rewrite (Rsumn_S_last (S n)).
      rewrite (Rsumn_S_last n (fun j => (w (S j) - w j / pf (S j)) * L (S j))).
      specialize (IH ltac:(lia)).
      pose proof (abel_step (S n) ltac:(lia)) as Hs.
      pose proof (Hw (S n) ltac:(lia)) as Hw1.
      pose proof (Hkap n ltac:(lia)) as Hk. pose proof (HL n ltac:(lia)) as Hl.
      assert (H1 : w (S n) * r (S n) <= w (S n) * (Rg (S (S n)) / pf (S (S n)) - Rg (S n)))
        by (apply Rmult_le_compat_l; lra).
      set (kap := w (S n) - w n / pf (S n)) in *.
      assert (H2 : kap * (- L (S n)) <= kap * Rg (S n)) by (apply Rmult_le_compat_l; lra).
      assert (H3 : w n / pf (S n) * Rg (S n) = w (S n) * Rg (S n) - kap * Rg (S n))
        by (unfold kap; ring).
      replace (w (S n) / pf (S (S n)) * Rg (S (S n)))
        with (w (S n) * (Rg (S (S n)) / pf (S (S n)))) by (unfold Rdiv; ring).
      lra.
  Qed.
End Abel.

(** ** Entry-wise regret discount *)
Section Fdisc.
  Context (p : params) (t : nat).
  Local Notation pf := (@gen_discount RNum (N.of_nat t) (a_pos p)).
  Local Notation nf := (@gen_discount RNum (N.of_nat t) (a_neg p)).

  Lemma fdisc_ge_pf y : nf <= pf -> pf * y <= fdisc p t y.
  Proof.
    intros Hle. unfold fdisc. destruct (Rlt_dec 0 y) as [Hy|Hy]; [lra|].
    destruct (Rlt_dec y 0) as [Hy'|Hy'].
    - assert (0 <= (- y) * (pf - nf)) by (apply Rmult_le_pos; lra). lra.
    - assert (y = 0) by lra. subst y. lra.
  Qed.

  Lemma fdisc_ge_nf y m : 0 <= m -> - m <= y -> - (nf * m) <= fdisc p t y.
  Proof.
    intros Hm Hy. pose proof (gen_discount_range (N.of_nat t) (a_neg p)) as [Hn0 Hn1].
    pose proof (gen_discount_range (N.of_nat t) (a_pos p)) as [Hp0 Hp1].
    assert (0 <= nf * m) by (apply Rmult_le_pos; lra).
    unfold fdisc. destruct (Rlt_dec 0 y) as [Hy0|Hy0].
    - assert (0 <= y * pf) by (apply Rmult_le_pos; lra). lra.
    - destruct (Rlt_dec y 0) as [Hy'|Hy'].
      + assert (nf * (- y) <= nf * m) by (apply Rmult_le_compat_l; lra). lra.
      + lra.
  Qed.
End Fdisc.

(** ** The generic bound: regrets discounted by sign, averaging weights [1 / E t] *)
Section SBound.
  Context (g : game) (Hwf : @WFgame RNum g).
  Context (draw : oracle) (p : params) (e : nat -> R).
  Context (He_pos : forall t, (1 <= t)%nat -> 0 < e t).
  Context (He_avg : forall t cs, (1 <= t)%nat ->
              @discount_average_strat RNum p (N.of_nat t) cs = map (fun a => a * e t) cs).

  Let Hpos : arities_pos g := WFgame_arities_pos g Hwf.

  Local Notation sigma := (dsigma_at g draw p).
  Local Notation w := (dweight e).
  Definition spf (t : nat) : R := @gen_discount RNum (N.of_nat t) (a_pos p).
  Definition snf (t : nat) : R := @gen_discount RNum (N.of_nat t) (a_neg p).
  Local Notation pf := spf.
  Local Notation nf := snf.

  Context (Hpf_pos : forall t, (1 <= t)%nat -> 0 < pf t).
  Context (Hnf_le : forall t, (1 <= t)%nat -> nf t <= pf t).
  (** the weights grow at least as fast as the positive regrets are discounted *)
  Context (Hkap : forall k, 0 <= w (S k) - w k / pf (S k)).
  (** a lower bound on the cumulative regrets *)
  Context (L : nat -> R) (HL0 : forall k, 0 <= L k).
  Context (HL : forall k pl i a, (i < ninfos g pl)%nat -> (a < arity g pl i)%nat ->
                                 - L (S k) <= dregret_at g draw p (S k) pl i a).

  (** the coefficient of the final cumulative regret, and the additive term *)
  Definition sB (T : nat) : R := w (T - 1) / pf T.
  Definition sC (T : nat) : R :=
    Rsumn (T - 1) (fun j => (w (S j) - w j / pf (S j)) * L (S j)).

  Lemma sB_nonneg T : (1 <= T)%nat -> 0 <= sB T.
  Proof.
    intros HT. unfold sB, Rdiv. apply Rmult_le_pos.
    - left. apply (sweight_pos e He_pos).
    - left. apply Rinv_0_lt_compat. now apply Hpf_pos.
  Qed.

  Lemma sC_nonneg T : 0 <= sC T.
  Proof.
    unfold sC. apply Rsumn_nonneg. intros j _. apply Rmult_le_pos; [apply Hkap|apply HL0].
  Qed.

  Lemma swreg_bound T pl i a :
    (1 <= T)%nat -> (i < ninfos g pl)%nat -> (a < arity g pl i)%nat ->
    swreg g draw p e T pl i a <= sB T * dregret_at g draw p T pl i a + sC T.
  Proof.
    intros HT Hi Ha. destruct T as [|n]; [lia|]. unfold swreg, sB, sC.
    replace (S n - 1)%nat with n by lia.
    apply (abel_weighted w pf L (fun k => dregret_at g draw p k pl i a)
                         (fun k => reg_delta (dincs_at g draw p k) pl i a) (S n)).
    - intros k _. left. apply (sweight_pos e He_pos).
    - intros k _. apply Hpf_pos. lia.
    - apply (sregret_at_0 g draw p).
    - intros k _. rewrite (sregret_at_S g draw p e He_avg Hpos k pl i a Hi Ha).
      apply fdisc_ge_pf. apply Hnf_le. lia.
    - intros k _. apply Hkap.
    - intros k _. now apply HL.
    - lia.
  Qed.

  (** *** the weighted external regret against a pure strategy *)
  Section Ext.
    Context (H : bool -> nat -> hist) (HPR : PRwit g H).

    Theorem sexternal_regret_bound T pl Sp s :
      (1 <= T)%nat -> IsPure g pl Sp s ->
      sext_regret g draw p e T pl Sp <=
      sB T * (INR T * dbound_pl g draw p T pl / 2) + INR (ninfos g pl) * sC T.
    Proof.
      intros HT HP.
      rewrite (sregret_decomposition g Hwf draw p e H HPR T pl Sp s HP).
      pose proof (sB_nonneg T HT) as HB. pose proof (sC_nonneg T) as HC.
      eapply Rle_trans.
      - apply (Rsumn_le _ _ (fun i => sB T * (reach_s s H pl i * dregret_at g draw p T pl i (s i))
                                      + sC T * 1)).
        intros i Hi. destruct (HP i Hi) as [_ Hsi].
        pose proof (swreg_bound T pl i (s i) HT Hi Hsi) as Hb.
        pose proof (cons_s_01 s (H pl i)) as Hc. fold (reach_s s H pl i) in Hc.
        assert (reach_s s H pl i * swreg g draw p e T pl i (s i) <=
                reach_s s H pl i * (sB T * dregret_at g draw p T pl i (s i) + sC T))
          by (apply Rmult_le_compat_l; lra).
        assert (reach_s s H pl i * sC T <= 1 * sC T) by (apply Rmult_le_compat_r; lra).
        lra.
      - rewrite Rsumn_plus, !Rsumn_scal, Rsumn_const_one.
        pose proof (dbound_pl_dominates g draw p Hpos T pl (fun i => reach_s s H pl i) s HT) as Hd.
        assert (Hd' : Rsumn (ninfos g pl) (fun i => reach_s s H pl i * dregret_at g draw p T pl i (s i))
                      <= INR T * dbound_pl g draw p T pl / 2).
        { apply Hd. intros i Hi. split; [apply cons_s_01|exact (proj2 (HP i Hi))]. }
        assert (sB T * Rsumn (ninfos g pl) (fun i => reach_s s H pl i * dregret_at g draw p T pl i (s i))
                <= sB T * (INR T * dbound_pl g draw p T pl / 2)) by (apply Rmult_le_compat_l; lra).
        lra.
    Qed.
  End Ext.

  (** *** the true regrets of the average profile after [T] iterations *)
  Section Dominate.
    Context (HPR : @PerfectRecall RNum g) (HCh : ChanceOK g).

    Definition sbound (T : nat) (b1 b2 : R) : R :=
      (sB T * (INR T * ((b1 + b2) / 2)) + INR (num_infosets g) * sC T) / dwsum e T.

    Theorem strajectory_bound T :
      (1 <= T)%nat ->
      let ev := u_game g (davg g draw p T true) (davg g draw p T false) in
      let br1 := @br_value RNum g true (davg g draw p T false) in
      let br2 := @br_value RNum g false (davg g draw p T true) in
      let b1 := dbound_pl g draw p T true in
      let b2 := dbound_pl g draw p T false in
      0 <= br1 - ev /\ 0 <= br2 + ev /\ (br1 - ev) + (br2 + ev) <= sbound T b1 b2.
    Proof.
      intros HT. cbv zeta.
      destruct HPR as [H HH].
      assert (HW : PRwit g H) by exact HH.
      set (A1 := davg g draw p T true). set (A2 := davg g draw p T false).
      pose proof (davg_StratOf g draw p T true Hpos) as HA1. fold A1 in HA1.
      pose proof (davg_StratOf g draw p T false Hpos) as HA2. fold A2 in HA2.
      pose proof (StratOf_nonneg _ _ _ HA1) as N1. pose proof (StratOf_nonneg _ _ _ HA2) as N2.
      pose proof (br_upper g true A2 Hwf (ex_intro _ H HH) HCh N2 A1 HA1) as U1.
      pose proof (br_upper g false A1 Hwf (ex_intro _ H HH) HCh N1 A2 HA2) as U2.
      destruct (br_attained g true A2 Hwf (ex_intro _ H HH) HCh N2) as (S1 & HS1 & E1).
      destruct (br_attained g false A1 Hwf (ex_intro _ H HH) HCh N1) as (S2 & HS2 & E2).
      unfold u_me in U1, U2, E1, E2.
      split; [lra|]. split; [lra|].
      pose proof (savg_realisation g Hwf draw p e He_pos He_avg false H T S1 (fun i h => HH false i h) HT) as R2.
      pose proof (savg_realisation g Hwf draw p e He_pos He_avg true H T S2 (fun i h => HH true i h) HT) as R1.
      unfold u_me in R1, R2. fold A1 in R1. fold A2 in R2.
      pose proof (sexternal_regret_bound H HW T true S1 _ HT (PureOf_IsPure g true S1 HS1)) as B1.
      pose proof (sexternal_regret_bound H HW T false S2 _ HT (PureOf_IsPure g false S2 HS2)) as B2.
      unfold sext_regret, u_me in B1, B2. cbn [negb] in B1, B2.
      set (X1 := Rsumn T (fun t => w t * u_game g S1 (sigma (S t) false))) in *.
      set (X2 := Rsumn T (fun t => w t * u_game g (sigma (S t) true) S2)) in *.
      set (M := Rsumn T (fun t => w t * u_game g (sigma (S t) true) (sigma (S t) false))).
      assert (EB1 : Rsumn T (fun t => w t *
                       (u_game g S1 (sigma (S t) false) - u_game g (sigma (S t) true) (sigma (S t) false)))
                    = X1 - M).
      { unfold X1, M. rewrite <- Rsumn_minus. apply Rsumn_ext. intros; lra. }
      assert (EB2 : Rsumn T (fun t => w t *
                       (- u_game g (sigma (S t) true) S2 - - u_game g (sigma (S t) true) (sigma (S t) false)))
                    = M - X2).
      { unfold X2, M. rewrite <- Rsumn_minus. apply Rsumn_ext. intros; lra. }
      rewrite EB1 in B1. rewrite EB2 in B2.
      assert (ER2 : Rsumn T (fun t => w t * - u_game g S1 (sigma (S t) false)) = - X1).
      { unfold X1. rewrite <- Rsumn_opp. apply Rsumn_ext. intros; lra. }
      rewrite ER2 in R2.
      pose proof (swsum_pos e He_pos T HT) as HWpos.
      set (b1 := dbound_pl g draw p T true) in *. set (b2 := dbound_pl g draw p T false) in *.
      assert (HN : INR (num_infosets g) = INR (ninfos g true) + INR (ninfos g false)).
      { unfold num_infosets, ninfos. cbn [g_infos]. apply plus_INR. }
      assert (Hsum : X1 - X2 <= sB T * (INR T * ((b1 + b2) / 2)) + INR (num_infosets g) * sC T).
      { rewrite HN. lra. }
      assert (Hbr : @br_value RNum g true A2 + @br_value RNum g false A1 = / dwsum e T * (X1 - X2)).
      { rewrite <- E1, <- E2. lra. }
      replace (@br_value RNum g true A2 - u_game g A1 A2 + (@br_value RNum g false A1 + u_game g A1 A2))
        with (@br_value RNum g true A2 + @br_value RNum g false A1) by lra.
      rewrite Hbr. unfold sbound, Rdiv. rewrite (Rmult_comm _ (/ dwsum e T)).
      apply Rmult_le_compat_l; [left; now apply Rinv_0_lt_compat|exact Hsum].
    Qed.

    Theorem sbound_dominates budget (stop : R -> bool) strats b1 b2 ran :
      @solve_single RNum g Full draw p budget stop = (strats, Some (b1, b2), ran) ->
      let T := N.to_nat ran in
      (1 <= T <= budget)%nat /\ 0 <= b1 /\ 0 <= b2 /\
      0 <= si_reg1 (@info RNum g strats) /\ 0 <= si_reg2 (@info RNum g strats) /\
      si_reg1 (@info RNum g strats) + si_reg2 (@info RNum g strats) <= sbound T b1 b2.
    Proof.
      intros Hs. cbv zeta.
      destruct (bounds_nonneg g Full draw _ stop budget strats b1 b2 ran Hs) as [Hb1 Hb2].
      apply dsolve_single_traj in Hs as (T & HT & -> & Hb & ->). rewrite Nat2N.id.
      split; [exact HT|]. split; [exact Hb1|]. split; [exact Hb2|].
      destruct (dfinal_strats_rows g draw p T Hpos) as [ER1 ER2].
      unfold info. cbn [si_reg1 si_reg2 fmax sub add zero RNum].
      rewrite ER1, ER2.
      pose proof (davg_StratOf g draw p T true Hpos) as HA1.
      pose proof (davg_StratOf g draw p T false Hpos) as HA2.
      rewrite (expected_exact g _ _ (StratOf_nonneg _ _ _ HA1) (StratOf_nonneg _ _ _ HA2)).
      destruct (strajectory_bound T ltac:(lia)) as (P1 & P2 & P3).
      unfold dbound_pl in P3. rewrite Hb in P3. cbn [fst snd] in P3.
      rewrite !Rmax_left by lra. split; [lra|]. split; [lra|]. exact P3.
    Qed.

    Corollary sbound_dominates_max budget (stop : R -> bool) strats b1 b2 ran :
      @solve_single RNum g Full draw p budget stop = (strats, Some (b1, b2), ran) ->
      @si_regret RNum (@info RNum g strats) <= sbound (N.to_nat ran) b1 b2.
    Proof.
      intros Hs. destruct (sbound_dominates budget stop strats b1 b2 ran Hs) as (_ & _ & _ & H1 & H2 & H3).
      unfold si_regret. cbn [fmax RNum]. apply Rmax_lub; lra.
    Qed.
  End Dominate.
End SBound.

(** ** The averaging weights of the three presets: [a_strat = Fin 2], weight [t^2] *)
Definition sq_e (t : nat) : R := (INR t / INR (S t)) * (INR t / INR (S t)).

Lemma sq_e_pos t : (1 <= t)%nat -> 0 < sq_e t.
Proof.
  intros Ht. unfold sq_e. assert (0 < INR t) by (apply lt_0_INR; lia).
  assert (0 < INR (S t)) by (apply lt_0_INR; lia).
  assert (0 < INR t / INR (S t))
    by (unfold Rdiv; apply Rmult_lt_0_compat; [assumption|now apply Rinv_0_lt_compat]).
  now apply Rmult_lt_0_compat.
Qed.

Lemma sq_discount_avg (p : params) t cs :
  a_strat p = @Fin RNum (@two RNum) -> (1 <= t)%nat ->
  @discount_average_strat RNum p (N.of_nat t) cs = map (fun a => a * sq_e t) cs.
Proof.
  intros Hp Ht.
  assert (H2 : 0 < @two RNum) by (unfold two; cbn [add one RNum]; lra).
  rewrite (discount_average_strat_pos p (N.of_nat t) (@two RNum) cs Hp H2) by lia.
  apply map_ext. intros a. f_equal. rewrite Nat2N.id.
  assert (Ht0 : 0 < INR t) by (apply lt_0_INR; lia).
  assert (Hq : 0 < INR t / (INR t + 1)).
  { unfold Rdiv. apply Rmult_lt_0_compat; [assumption|]. apply Rinv_0_lt_compat. lra. }
  unfold two. cbn [add one RNum]. change (1 + 1) with (INR 2).
  rewrite Rpower_pow by exact Hq. unfold sq_e. rewrite S_INR. cbn [pow]. ring.
Qed.

Lemma sq_dprod T : dprod sq_e T = / (INR (S T) * INR (S T)).
Proof.
  induction T as [|k IH]; cbn [dprod]; [cbn [INR]; field|].
  rewrite IH. unfold sq_e.
  assert (0 < INR (S k)) by (apply lt_0_INR; lia).
  assert (0 < INR (S (S k))) by (apply lt_0_INR; lia).
  field. split; lra.
Qed.

Lemma sq_dweight t : dweight sq_e t = INR (S t) * INR (S t).
Proof. unfold dweight. rewrite sq_dprod. apply Rinv_inv. Qed.

Lemma sq_dwsum T : dwsum sq_e T = INR T * INR (S T) * (2 * INR T + 1) / 6.
Proof.
  unfold dwsum. induction T as [|k IH]; [rewrite Rsumn_0; cbn [INR]; lra|].
  rewrite Rsumn_S_last, IH, sq_dweight. rewrite !S_INR. field.
Qed.

(** [sum_{j<n} (2j+3) = (n+1)^2 - 1] *)
Lemma Rsumn_odd n : Rsumn n (fun j => 2 * INR j + 3) = INR (S n) * INR (S n) - 1.
Proof.
  induction n as [|k IH]; [rewrite Rsumn_0; cbn [INR]; lra|].
  rewrite Rsumn_S_last, IH. rewrite !S_INR. ring.
Qed.

(** ** Generic consequences for a preset with weights [t^2] *)
Section SqPreset.
  Context (g : game) (p : params) (L : nat -> R).
  Context (Hpf_pos : forall t, (1 <= t)%nat -> 0 < spf p t).
  Context (HL0 : forall k, 0 <= L k).

  Lemma spf_le_1 t : spf p t <= 1.
  Proof. unfold spf. apply gen_discount_range. Qed.

  (** the coefficient [w k - w (k-1) / pf k] is at most [w k - w (k-1)] *)
  Lemma sq_kappa_le j :
    dweight sq_e (S j) - dweight sq_e j / spf p (S j) <= 2 * INR j + 3.
  Proof.
    rewrite !sq_dweight. pose proof (Hpf_pos (S j) ltac:(lia)) as Hp.
    pose proof (spf_le_1 (S j)) as Hp1.
    assert (H1 : 1 <= / spf p (S j)).
    { rewrite <- Rinv_1. apply Rinv_le_contravar; assumption. }
    assert (H2 : INR (S j) * INR (S j) * 1 <= INR (S j) * INR (S j) * / spf p (S j)).
    { apply Rmult_le_compat_l; [|exact H1]. apply Rle_0_sqr. }
    unfold Rdiv. rewrite !S_INR in *. nra.
  Qed.

  Lemma sq_sC_le T c :
    (1 <= T)%nat ->
    (forall k, 0 <= dweight sq_e (S k) - dweight sq_e k / spf p (S k)) ->
    (forall j, (S j < T)%nat -> L (S j) <= c) ->
    sC p sq_e L T <= c * (INR T * INR T - 1).
  Proof.
    intros HT Hkap Hc. unfold sC.
    eapply Rle_trans.
    - apply (Rsumn_le _ _ (fun j => c * (2 * INR j + 3))). intros j Hj.
      pose proof (sq_kappa_le j) as Hk. pose proof (Hkap j) as Hk0.
      pose proof (Hc j ltac:(lia)) as Hl. pose proof (HL0 (S j)) as Hl0.
      set (kap := dweight sq_e (S j) - dweight sq_e j / spf p (S j)) in *.
      assert (kap * L (S j) <= kap * c) by (apply Rmult_le_compat_l; lra).
      assert (kap * c <= (2 * INR j + 3) * c) by (apply Rmult_le_compat_r; lra).
      lra.
    - rewrite Rsumn_scal, Rsumn_odd. replace (S (T - 1)) with T by lia. lra.
  Qed.

  (** the closed form of the generic bound *)
  Lemma sq_sbound_le T b1 b2 c :
    (1 <= T)%nat -> 0 <= b1 + b2 -> 0 <= c ->
    sB p sq_e T <= INR T * INR T + INR T ->
    sC p sq_e L T <= c * (INR T * INR T - 1) ->
    sbound g p sq_e L T b1 b2 <= 3 / 2 * (b1 + b2) + 3 * INR (num_infosets g) * c / INR T.
  Proof.
    intros HT Hb Hc HB HC. unfold sbound. rewrite sq_dwsum, S_INR.
    assert (Hn : 1 <= INR T) by (change 1 with (INR 1); apply le_INR; lia).
    set (n := INR T) in *. pose proof (pos_INR (num_infosets g)) as HN.
    set (N := INR (num_infosets g)) in *.
    set (B := sB p sq_e T) in *. set (C := sC p sq_e L T) in *.
    assert (HW : 0 < n * (n + 1) * (2 * n + 1) / 6) by nra.
    apply (Rmult_le_reg_r (n * (n + 1) * (2 * n + 1) / 6)); [exact HW|].
    unfold Rdiv at 1. rewrite Rmult_assoc, Rinv_l, Rmult_1_r by lra.
    replace ((3 / 2 * (b1 + b2) + 3 * N * c / n) * (n * (n + 1) * (2 * n + 1) / 6))
      with ((b1 + b2) * (n * (n + 1) * (2 * n + 1) / 4) + N * c * ((n + 1) * (2 * n + 1) / 2))
      by (field; lra).
    assert (H1 : B * (n * ((b1 + b2) / 2)) <= (n * n + n) * (n * ((b1 + b2) / 2))).
    { apply Rmult_le_compat_r; [|exact HB]. apply Rmult_le_pos; lra. }
    assert (H2 : N * C <= N * (c * (n * n - 1))) by (apply Rmult_le_compat_l; lra).
    assert (H3 : (n * n + n) * (n * ((b1 + b2) / 2)) <= (b1 + b2) * (n * (n + 1) * (2 * n + 1) / 4)).
    { assert (0 <= (b1 + b2) * (n * (n + 1))) by (apply Rmult_le_pos; nra). nra. }
    assert (H4 : N * (c * (n * n - 1)) <= N * c * ((n + 1) * (2 * n + 1) / 2)).
    { assert (0 <= N * c) by (apply Rmult_le_pos; lra).
      assert (n * n - 1 <= (n + 1) * (2 * n + 1) / 2) by nra.
      rewrite <- Rmult_assoc. apply Rmult_le_compat_l; assumption. }
    lra.
  Qed.
End SqPreset.

(** the finishing step shared by the three presets *)
Lemma sq_preset_dominates (g : game) (draw : oracle) (p : params) (L : nat -> R) (c : R)
      budget (stop : R -> bool) strats b1 b2 ran :
  @WFgame RNum g -> @PerfectRecall RNum g -> ChanceOK g ->
  a_strat p = @Fin RNum (@two RNum) ->
  (forall t, (1 <= t)%nat -> 0 < spf p t) ->
  (forall t, (1 <= t)%nat -> snf p t <= spf p t) ->
  (forall k, 0 <= dweight sq_e (S k) - dweight sq_e k / spf p (S k)) ->
  (forall k, 0 <= L k) ->
  (forall k pl i a, (i < ninfos g pl)%nat -> (a < arity g pl i)%nat ->
                    - L (S k) <= dregret_at g draw p (S k) pl i a) ->
  (forall T, (1 <= T)%nat -> sB p sq_e T <= INR T * INR T + INR T) ->
  0 <= c -> (forall j, (S j < N.to_nat ran)%nat -> L (S j) <= c) ->
  @solve_single RNum g Full draw p budget stop = (strats, Some (b1, b2), ran) ->
  (1 <= N.to_nat ran)%nat /\ 0 <= b1 /\ 0 <= b2 /\
  @si_regret RNum (@info RNum g strats) <=
  3 / 2 * (b1 + b2) + 3 * INR (num_infosets g) * c / INR (N.to_nat ran).
Proof.
  intros Hwf HPR HCh Hst Hpf Hnf Hkap HL0 HL HB Hc HLc Hs.
  destruct (sbound_dominates g Hwf draw p sq_e sq_e_pos
              (fun t cs Ht => sq_discount_avg p t cs Hst Ht) Hpf Hnf Hkap L HL0 HL HPR HCh
              budget stop strats b1 b2 ran Hs) as (HT & Hb1 & Hb2 & H1 & H2 & H3).
  split; [lia|]. split; [exact Hb1|]. split; [exact Hb2|].
  eapply Rle_trans.
  - unfold si_regret. cbn [fmax RNum]. apply Rmax_lub.
    + apply Rle_trans with (2 := H3). lra.
    + apply Rle_trans with (2 := H3). lra.
  - apply sq_sbound_le; [lia|lra|exact Hc|apply HB; lia|].
    apply sq_sC_le; [exact Hpf|exact HL0|lia|exact Hkap|exact HLc].
Qed.

(** ** CFR+ ([p_cfr_plus]): positive regrets kept, negative ones reset to 0 *)
Section CfrPlus.
  Context (g : game) (Hwf : @WFgame RNum g) (draw : oracle).
  Local Notation p := (@p_cfr_plus RNum).

  Let Hpos : arities_pos g := WFgame_arities_pos g Hwf.

  Lemma cfrp_spf t : spf p t = 1.
  Proof. reflexivity. Qed.

  Lemma cfrp_snf t : snf p t = 0.
  Proof. reflexivity. Qed.

  Lemma cfrp_avg t cs :
    (1 <= t)%nat -> @discount_average_strat RNum p (N.of_nat t) cs = map (fun a => a * sq_e t) cs.
  Proof. intros Ht. now apply sq_discount_avg. Qed.

  Lemma cfrp_kap k : 0 <= dweight sq_e (S k) - dweight sq_e k / spf p (S k).
  Proof.
    rewrite !sq_dweight, cfrp_spf, !S_INR. pose proof (pos_INR k). unfold Rdiv. rewrite Rinv_1. nra.
  Qed.

  (** the cumulative regrets are never negative after an iteration *)
  Lemma cfrp_regret_nonneg k pl i a :
    (i < ninfos g pl)%nat -> (a < arity g pl i)%nat -> 0 <= dregret_at g draw p (S k) pl i a.
  Proof.
    intros Hi Ha. rewrite (sregret_at_S g draw p sq_e cfrp_avg Hpos k pl i a Hi Ha).
    set (y := _ + _). unfold fdisc. cbn [p_cfr_plus a_pos a_neg gen_discount one zero RNum].
    destruct (Rlt_dec 0 y); [lra|]. destruct (Rlt_dec y 0); lra.
  Qed.

  Lemma cfrp_sB T : (1 <= T)%nat -> sB p sq_e T <= INR T * INR T + INR T.
  Proof.
    intros HT. unfold sB. rewrite sq_dweight, cfrp_spf. replace (S (T - 1)) with T by lia.
    pose proof (pos_INR T). unfold Rdiv. rewrite Rinv_1. lra.
  Qed.

  (** *** the returned bounds dominate the true regret with constant [3/2] *)
  Theorem cfr_plus_bound_dominates budget (stop : R -> bool) strats b1 b2 ran :
    @PerfectRecall RNum g -> ChanceOK g ->
    @solve_single RNum g Full draw p budget stop = (strats, Some (b1, b2), ran) ->
    @si_regret RNum (@info RNum g strats) <= 3 / 2 * (b1 + b2) /\ 0 <= b1 /\ 0 <= b2.
  Proof.
    intros HPR HCh Hs.
    destruct (sq_preset_dominates g draw p (fun _ => 0) 0 budget stop strats b1 b2 ran
                Hwf HPR HCh eq_refl) as (HT & Hb1 & Hb2 & Hd); try assumption.
    - intros t _. rewrite cfrp_spf. lra.
    - intros t _. rewrite cfrp_spf, cfrp_snf. lra.
    - exact cfrp_kap.
    - intros _. lra.
    - intros k pl i a Hi Ha. pose proof (cfrp_regret_nonneg k pl i a Hi Ha). lra.
    - exact cfrp_sB.
    - lra.
    - intros j _. lra.
    - split; [|split; assumption]. unfold Rdiv in Hd. rewrite Rmult_0_r, Rmult_0_l, Rplus_0_r in Hd.
      exact Hd.
  Qed.
End CfrPlus.

(** ** Presets whose positive-regret discount is [t^al / (t^al + 1)] with [al >= 1] *)
Lemma spf_alpha (p : params) (al : R) t :
  a_pos p = @Fin RNum al -> 1 <= al -> (1 <= t)%nat ->
  0 < spf p t /\ 1 / 2 <= spf p t /\ / spf p t <= 1 + / INR t.
Proof.
  intros Hp Hal Ht. unfold spf. rewrite Hp, gen_discount_fin, Nat2N.id.
  assert (Ht1 : 1 <= INR t) by (change 1 with (INR 1); apply le_INR; lia).
  set (x := Rpower (INR t) al).
  assert (Hx : INR t <= x).
  { unfold x. rewrite <- (Rpower_1 (INR t)) at 1 by lra. now apply Rle_Rpower. }
  assert (Hxp : 0 < x) by lra.
  assert (Hq : 0 < x / (x + 1)).
  { unfold Rdiv. apply Rmult_lt_0_compat; [assumption|]. apply Rinv_0_lt_compat. lra. }
  split; [exact Hq|]. split.
  - apply (Rmult_le_reg_r (x + 1)); [lra|].
    replace (x / (x + 1) * (x + 1)) with x by (field; lra). lra.
  - replace (/ (x / (x + 1))) with (1 + / x) by (field; lra).
    assert (/ x <= / INR t) by (apply Rinv_le_contravar; lra). lra.
Qed.

Section Alpha.
  Context (p : params) (al : R) (Hp : a_pos p = @Fin RNum al) (Hal : 1 <= al).

  Lemma alpha_pf_pos t : (1 <= t)%nat -> 0 < spf p t.
  Proof. intros Ht. now destruct (spf_alpha p al t Hp Hal Ht). Qed.

  Lemma alpha_kap k : 0 <= dweight sq_e (S k) - dweight sq_e k / spf p (S k).
  Proof.
    rewrite !sq_dweight. destruct (spf_alpha p al (S k) Hp Hal ltac:(lia)) as (H1 & _ & H2).
    assert (Hk : 0 < INR (S k)) by (apply lt_0_INR; lia).
    assert (H3 : INR (S k) * INR (S k) * / spf p (S k) <= INR (S k) * INR (S k) * (1 + / INR (S k))).
    { apply Rmult_le_compat_l; [apply Rle_0_sqr|exact H2]. }
    replace (INR (S k) * INR (S k) * (1 + / INR (S k))) with (INR (S k) * INR (S k) + INR (S k)) in H3
      by (field; lra).
    unfold Rdiv. rewrite (S_INR (S k)) at 1 2. lra.
  Qed.

  Lemma alpha_sB T : (1 <= T)%nat -> sB p sq_e T <= INR T * INR T + INR T.
  Proof.
    intros HT. unfold sB. rewrite sq_dweight. replace (S (T - 1)) with T by lia.
    destruct (spf_alpha p al T Hp Hal HT) as (H1 & _ & H2).
    assert (Hk : 0 < INR T) by (apply lt_0_INR; lia).
    assert (H3 : INR T * INR T * / spf p T <= INR T * INR T * (1 + / INR T)).
    { apply Rmult_le_compat_l; [apply Rle_0_sqr|exact H2]. }
    replace (INR T * INR T * (1 + / INR T)) with (INR T * INR T + INR T) in H3 by (field; lra).
    exact H3.
  Qed.
End Alpha.

(** ** A lower bound on the cumulative regrets from the negative-regret discount: if
    [nf (k+1) * (L k + D) <= L (k+1)] then [cum_regret_k >= - L k] *)
Section Lower.
  Context (g : game) (draw : oracle) (p : params) (lo hi : R).
  Context (HWF : @WFgame RNum g) (HPR : @PerfectRecall RNum g) (HCO : ChanceOK g)
          (HPay : PayoffsIn lo hi (g_root g)).
  Context (Hst : a_strat p = @Fin RNum (@two RNum)).

  Let Hpos : arities_pos g := WFgame_arities_pos g HWF.
  Local Notation D := (hi - lo).

  (** every per-iteration increment is bounded by the payoff range *)
  Lemma sinc_bounded k pl i a :
    (i < ninfos g pl)%nat -> (a < arity g pl i)%nat ->
    Rabs (reg_delta (dincs_at g draw p k) pl i a) <= D.
  Proof.
    intros Hi Ha. unfold dincs_at. rewrite reg_delta_vincs.
    apply cfr_inc_bounded; try assumption.
    - apply (dstate_at_inv g draw p Hpos).
    - destruct (dstate_at_RInvA g draw p Hpos k pl i Hi) as (_ & _ & _ & _ & L3).
      unfold strat_view. tR. lia.
  Qed.

  Context (L : nat -> R) (HL0 : forall k, 0 <= L k).
  Context (HLrec : forall k, snf p (S k) * (L k + D) <= L (S k)).

  Lemma sregret_lower k pl i a :
    (i < ninfos g pl)%nat -> (a < arity g pl i)%nat -> - L k <= dregret_at g draw p k pl i a.
  Proof.
    intros Hi Ha. induction k as [|k IH].
    - rewrite sregret_at_0. pose proof (HL0 0%nat). lra.
    - rewrite (sregret_at_S g draw p sq_e (fun t cs Ht => sq_discount_avg p t cs Hst Ht) Hpos
                            k pl i a Hi Ha).
      pose proof (sinc_bounded k pl i a Hi Ha) as Hr.
      assert (Hr' : - D <= reg_delta (dincs_at g draw p k) pl i a).
      { pose proof (Rle_abs (- reg_delta (dincs_at g draw p k) pl i a)) as Ha'.
        rewrite Rabs_Ropp in Ha'. lra. }
      pose proof (D_nonneg g lo hi HWF HCO HPay) as HD. pose proof (HL0 k) as Hk.
      pose proof (fdisc_ge_nf p (S k) (dregret_at g draw p k pl i a + reg_delta (dincs_at g draw p k) pl i a)
                              (L k + D) ltac:(lra) ltac:(lra)) as Hf.
      pose proof (HLrec k) as Hrec. unfold snf in Hrec. lra.
  Qed.
End Lower.

(** ** DCFR ([p_dcfr]: alpha = 3/2, beta = 0, gamma = 2) and its pruning variant
    ([p_dcfr_prune]: beta = 1/2) *)
Lemma alpha_dcfr : @div RNum (@of_nat_T RNum 3) (@two RNum) = 3 / 2.
Proof.
  unfold of_nat_T, two. cbn [div of_N add one RNum].
  change (N.to_nat (N.of_nat 3)) with 3%nat. cbn [INR]. lra.
Qed.

Lemma alpha_dcfr_ge1 : 1 <= @div RNum (@of_nat_T RNum 3) (@two RNum).
Proof. rewrite alpha_dcfr. lra. Qed.

Lemma frac_mono x y : 0 < y -> y <= x -> y / (y + 1) <= x / (x + 1).
Proof.
  intros Hy Hxy.
  apply (Rmult_le_reg_r ((y + 1) * (x + 1))); [apply Rmult_lt_0_compat; lra|].
  replace (y / (y + 1) * ((y + 1) * (x + 1))) with (y * (x + 1)) by (field; lra).
  replace (x / (x + 1) * ((y + 1) * (x + 1))) with (x * (y + 1)) by (field; lra).
  lra.
Qed.

Section Dcfr.
  Context (g : game) (draw : oracle) (lo hi : R).
  Context (HWF : @WFgame RNum g) (HPR : @PerfectRecall RNum g) (HCO : ChanceOK g)
          (HPay : PayoffsIn lo hi (g_root g)).
  Local Notation D := (hi - lo).
  Local Notation p := (@p_dcfr RNum).

  Lemma dcfr_snf t : snf p t = 1 / 2.
  Proof.
    unfold snf. cbn [p_dcfr a_neg]. change (zero RNum) with 0.
    rewrite gen_discount_fin. unfold Rpower. rewrite Rmult_0_l, exp_0. lra.
  Qed.

  Lemma dcfr_nf_le t : (1 <= t)%nat -> snf p t <= spf p t.
  Proof.
    intros Ht. rewrite dcfr_snf.
    now destruct (spf_alpha p _ t eq_refl alpha_dcfr_ge1 Ht) as (_ & H & _).
  Qed.

  (** the cumulative regrets never fall below [- D] *)
  Lemma dcfr_regret_lower k pl i a :
    (i < ninfos g pl)%nat -> (a < arity g pl i)%nat -> - D <= dregret_at g draw p k pl i a.
  Proof.
    intros Hi Ha. pose proof (D_nonneg g lo hi HWF HCO HPay) as HD.
    apply (sregret_lower g draw p lo hi HWF HPR HCO HPay eq_refl (fun _ => D)); try assumption.
    - intros _. exact HD.
    - intros j. rewrite dcfr_snf. lra.
  Qed.

  Theorem dcfr_bound_dominates budget (stop : R -> bool) strats b1 b2 ran :
    @solve_single RNum g Full draw p budget stop = (strats, Some (b1, b2), ran) ->
    (1 <= N.to_nat ran)%nat /\ 0 <= b1 /\ 0 <= b2 /\
    @si_regret RNum (@info RNum g strats) <=
    3 / 2 * (b1 + b2) + 3 * INR (num_infosets g) * D / INR (N.to_nat ran).
  Proof.
    intros Hs. pose proof (D_nonneg g lo hi HWF HCO HPay) as HD.
    apply (sq_preset_dominates g draw p (fun _ => D) D budget stop strats b1 b2 ran
                               HWF HPR HCO eq_refl); try assumption.
    - exact (alpha_pf_pos p _ eq_refl alpha_dcfr_ge1).
    - exact dcfr_nf_le.
    - exact (alpha_kap p _ eq_refl alpha_dcfr_ge1).
    - intros _. exact HD.
    - intros k pl i a Hi Ha. now apply dcfr_regret_lower.
    - exact (alpha_sB p _ eq_refl alpha_dcfr_ge1).
    - intros j _. lra.
  Qed.
End Dcfr.

Section DcfrPrune.
  Context (g : game) (draw : oracle) (lo hi : R).
  Context (HWF : @WFgame RNum g) (HPR : @PerfectRecall RNum g) (HCO : ChanceOK g)
          (HPay : PayoffsIn lo hi (g_root g)).
  Local Notation D := (hi - lo).
  Local Notation p := (@p_dcfr_prune RNum).

  Lemma prune_snf t : (1 <= t)%nat -> snf p t = sqrt (INR t) / (sqrt (INR t) + 1).
  Proof.
    intros Ht. unfold snf. cbn [p_dcfr_prune a_neg]. rewrite gen_discount_fin, Nat2N.id.
    assert (Ht0 : 0 < INR t) by (apply lt_0_INR; lia).
    replace (@div RNum (one RNum) (@two RNum)) with (/ 2)
      by (unfold two; cbn [div add one RNum]; lra).
    now rewrite Rpower_sqrt.
  Qed.

  Lemma prune_nf_le t : (1 <= t)%nat -> snf p t <= spf p t.
  Proof.
    intros Ht. unfold snf, spf. cbn [p_dcfr_prune a_neg a_pos]. rewrite !gen_discount_fin, Nat2N.id.
    assert (Ht1 : 1 <= INR t) by (change 1 with (INR 1); apply le_INR; lia).
    apply frac_mono.
    - unfold Rpower. apply exp_pos.
    - apply Rle_Rpower; [exact Ht1|]. rewrite alpha_dcfr. unfold two. cbn [div add one RNum]. lra.
  Qed.

  (** the cumulative regrets after [k] iterations never fall below [- sqrt k * D] *)
  Lemma prune_regret_lower k pl i a :
    (i < ninfos g pl)%nat -> (a < arity g pl i)%nat ->
    - (sqrt (INR k) * D) <= dregret_at g draw p k pl i a.
  Proof.
    intros Hi Ha. pose proof (D_nonneg g lo hi HWF HCO HPay) as HD.
    apply (sregret_lower g draw p lo hi HWF HPR HCO HPay eq_refl (fun k => sqrt (INR k) * D));
      try assumption.
    - intros j. apply Rmult_le_pos; [apply sqrt_pos|exact HD].
    - intros j. rewrite prune_snf by lia.
      assert (Hj : 0 < INR (S j)) by (apply lt_0_INR; lia).
      pose proof (sqrt_lt_R0 _ Hj) as Hy. pose proof (sqrt_pos (INR j)) as Hz.
      assert (Hle : sqrt (INR j) <= sqrt (INR (S j))).
      { apply sqrt_le_1; [apply pos_INR|lra|]. rewrite S_INR. lra. }
      set (y := sqrt (INR (S j))) in *. set (z := sqrt (INR j)) in *.
      replace (y / (y + 1) * (z * D + D)) with (y * D * ((z + 1) / (y + 1))) by (field; lra).
      assert (H1 : (z + 1) / (y + 1) <= 1).
      { apply (Rmult_le_reg_r (y + 1)); [lra|]. unfold Rdiv. rewrite Rmult_assoc, Rinv_l by lra. lra. }
      assert (H2 : 0 <= y * D) by (apply Rmult_le_pos; lra).
      assert (y * D * ((z + 1) / (y + 1)) <= y * D * 1) by (apply Rmult_le_compat_l; assumption).
      lra.
  Qed.

  Theorem dcfr_prune_bound_dominates budget (stop : R -> bool) strats b1 b2 ran :
    @solve_single RNum g Full draw p budget stop = (strats, Some (b1, b2), ran) ->
    (1 <= N.to_nat ran)%nat /\ 0 <= b1 /\ 0 <= b2 /\
    @si_regret RNum (@info RNum g strats) <=
    3 / 2 * (b1 + b2) + 3 * INR (num_infosets g) * D / sqrt (INR (N.to_nat ran)).
  Proof.
    intros Hs. pose proof (D_nonneg g lo hi HWF HCO HPay) as HD.
    set (T := N.to_nat ran).
    destruct (sq_preset_dominates g draw p (fun k => sqrt (INR k) * D) (sqrt (INR T) * D)
                                  budget stop strats b1 b2 ran
                                  HWF HPR HCO eq_refl) as (HT & Hb1 & Hb2 & Hd); try assumption.
    - exact (alpha_pf_pos p _ eq_refl alpha_dcfr_ge1).
    - exact prune_nf_le.
    - exact (alpha_kap p _ eq_refl alpha_dcfr_ge1).
    - intros j. apply Rmult_le_pos; [apply sqrt_pos|exact HD].
    - intros k pl i a Hi Ha. now apply prune_regret_lower.
    - exact (alpha_sB p _ eq_refl alpha_dcfr_ge1).
    - apply Rmult_le_pos; [apply sqrt_pos|exact HD].
    - intros j Hj. apply Rmult_le_compat_r; [exact HD|].
      apply sqrt_le_1; [apply pos_INR|apply pos_INR|]. apply le_INR. fold T in Hj. lia.
    - fold T in HT, Hd. split; [exact HT|]. split; [exact Hb1|]. split; [exact Hb2|].
      eapply Rle_trans; [exact Hd|]. apply Rplus_le_compat_l.
      assert (HT0 : 0 < INR T) by (apply lt_0_INR; lia).
      pose proof (sqrt_lt_R0 _ HT0) as Hsq. pose proof (sqrt_sqrt (INR T) ltac:(lra)) as Hss.
      right. rewrite <- Hss at 2. field. lra.
  Qed.
End DcfrPrune.

(** ** The rate of the true regret (property C03, clause 2) for the three presets *)
Section Rates.
  Context (g : game) (draw : oracle) (lo hi : R) (A : nat).
  Context (HWF : @WFgame RNum g) (HPR : @PerfectRecall RNum g) (HCO : ChanceOK g)
          (HPay : PayoffsIn lo hi (g_root g))
          (HA : forall pl, Forall (fun a => (a <= A)%nat) (arities g pl)).

  Local Notation D := (hi - lo).

  (** the rate of the sum of the two returned bounds (every parameter set) *)
  Lemma bsum_rate (p : params) budget (stop : R -> bool) strats b1 b2 ran :
    @solve_single RNum g Full draw p budget stop = (strats, Some (b1, b2), ran) ->
    (b1 + b2) * sqrt (INR (N.to_nat ran)) <= 2 * D * INR (num_infosets g) * sqrt (INR A).
  Proof.
    intros Hs.
    destruct (bound_rate_all_params g draw p lo hi A HWF HPR HCO HPay HA
                                    budget stop strats b1 b2 ran Hs) as (_ & H1 & H2).
    unfold num_infosets. rewrite plus_INR. cbn [g_infos] in H1, H2. lra.
  Qed.

  (** if there is an infoset at all, [A >= 1] *)
  Lemma A_ge_1 : (1 <= num_infosets g)%nat -> 1 <= sqrt (INR A).
  Proof.
    intros HN. pose proof (WFgame_arities_pos g HWF) as Hpos.
    assert (HA1 : (1 <= A)%nat).
    { unfold num_infosets in HN.
      assert (Hex : exists pl, arities g pl <> []).
      { destruct (g_infos1 g) as [|x l] eqn:E1.
        - exists false. unfold arities. cbn [g_infos]. destruct (g_infos2 g); cbn [length] in HN; [lia|].
          cbn [map]. discriminate.
        - exists true. unfold arities. cbn [g_infos]. rewrite E1. cbn [map]. discriminate. }
      destruct Hex as (pl & Hne). specialize (Hpos pl). specialize (HA pl).
      destruct (arities g pl) as [|a l]; [congruence|].
      inversion Hpos; subst. inversion HA; subst. lia. }
    rewrite <- sqrt_1. apply sqrt_le_1; [lra|apply pos_INR|]. change 1 with (INR 1). now apply le_INR.
  Qed.

  Section Algebra.
    Context (T : nat) (HT : (1 <= T)%nat) (b x : R).
    Context (Hb : b * sqrt (INR T) <= 2 * D * INR (num_infosets g) * sqrt (INR A)).

    Local Notation s := (sqrt (INR T)).
    Local Notation sA := (sqrt (INR A)).
    Local Notation NN := (INR (num_infosets g)).

    Lemma s_pos : 0 < s.
    Proof. apply sqrt_lt_R0. apply lt_0_INR. lia. Qed.

    Lemma DN_nonneg : 0 <= D * NN.
    Proof. apply Rmult_le_pos; [exact (D_nonneg g lo hi HWF HCO HPay)|apply pos_INR]. Qed.

    Lemma rate_cfrp : x <= 3 / 2 * b -> x <= 3 * D * NN * sA / s.
    Proof.
      intros Hx. pose proof s_pos as Hs.
      apply (Rmult_le_reg_r s); [exact Hs|].
      replace (3 * D * NN * sA / s * s) with (3 * D * NN * sA) by (field; lra).
      assert (x * s <= 3 / 2 * b * s) by (apply Rmult_le_compat_r; lra). lra.
    Qed.

    Lemma rate_dcfr : x <= 3 / 2 * b + 3 * NN * D / INR T -> x <= 3 * D * NN * (sA + 1 / s) / s.
    Proof.
      intros Hx. pose proof s_pos as Hs.
      assert (Hss : INR T = s * s) by (symmetry; apply sqrt_sqrt; apply pos_INR).
      rewrite Hss in Hx.
      apply (Rmult_le_reg_r s); [exact Hs|].
      replace (3 * D * NN * (sA + 1 / s) / s * s) with (3 * D * NN * sA + 3 * NN * D / s)
        by (field; lra).
      assert (x * s <= (3 / 2 * b + 3 * NN * D / (s * s)) * s) by (apply Rmult_le_compat_r; lra).
      replace ((3 / 2 * b + 3 * NN * D / (s * s)) * s) with (3 / 2 * (b * s) + 3 * NN * D / s) in H
        by (field; lra).
      lra.
    Qed.

    Lemma rate_prune : x <= 3 / 2 * b + 3 * NN * D / s -> x <= 3 * D * NN * (sA + 1) / s.
    Proof.
      intros Hx. pose proof s_pos as Hs.
      apply (Rmult_le_reg_r s); [exact Hs|].
      replace (3 * D * NN * (sA + 1) / s * s) with (3 * D * NN * sA + 3 * NN * D) by (field; lra).
      assert (x * s <= (3 / 2 * b + 3 * NN * D / s) * s) by (apply Rmult_le_compat_r; lra).
      replace ((3 / 2 * b + 3 * NN * D / s) * s) with (3 / 2 * (b * s) + 3 * NN * D) in H
        by (field; lra).
      lra.
    Qed.

    (** from the sharp forms to the documented one *)
    Lemma to_C03 y : 0 <= y -> y <= 2 * (sA + 1 / s) ->
      x <= 3 * D * NN * y / s -> x <= 6 * D * NN * (sA + 1 / s) / s.
    Proof.
      intros Hy0 Hy Hx. pose proof s_pos as Hs. pose proof DN_nonneg as HDN.
      eapply Rle_trans; [exact Hx|].
      assert (Hinv : 0 < / s) by (now apply Rinv_0_lt_compat).
      unfold Rdiv. apply Rmult_le_compat_r; [lra|].
      replace (3 * D * NN * y) with (3 * (D * NN) * y) by ring.
      replace (6 * D * NN * (sA + 1 * / s)) with (3 * (D * NN) * (2 * (sA + 1 * / s))) by ring.
      apply Rmult_le_compat_l; [lra|]. unfold Rdiv in Hy. exact Hy.
    Qed.
  End Algebra.

  (** *** CFR+ *)
  Theorem cfr_plus_true_regret_rate_sharp budget (stop : R -> bool) strats b1 b2 ran :
    @solve_single RNum g Full draw (@p_cfr_plus RNum) budget stop = (strats, Some (b1, b2), ran) ->
    (1 <= ran)%N /\
    @si_regret RNum (@info RNum g strats) <=
    3 * D * INR (num_infosets g) * sqrt (INR A) / sqrt (INR (N.to_nat ran)).
  Proof.
    intros Hs.
    destruct (bound_rate_all_params g draw _ lo hi A HWF HPR HCO HPay HA
                                    budget stop strats b1 b2 ran Hs) as (Hr & _).
    split; [exact Hr|].
    destruct (cfr_plus_bound_dominates g HWF draw budget stop strats b1 b2 ran HPR HCO Hs) as (Hd & _).
    apply (rate_cfrp (N.to_nat ran) ltac:(lia) (b1 + b2)); [|exact Hd].
    exact (bsum_rate _ budget stop strats b1 b2 ran Hs).
  Qed.

  Theorem cfr_plus_true_regret_rate_C03 budget (stop : R -> bool) strats b1 b2 ran :
    @solve_single RNum g Full draw (@p_cfr_plus RNum) budget stop = (strats, Some (b1, b2), ran) ->
    let T := INR (N.to_nat ran) in
    @si_regret RNum (@info RNum g strats) <=
    6 * D * INR (num_infosets g) * (sqrt (INR A) + 1 / sqrt T) / sqrt T.
  Proof.
    intros Hs. cbv zeta.
    destruct (cfr_plus_true_regret_rate_sharp budget stop strats b1 b2 ran Hs) as (Hr & H).
    assert (HT : (1 <= N.to_nat ran)%nat) by lia.
    pose proof (s_pos _ HT) as Hsp. pose proof (sqrt_pos (INR A)) as HsA.
    assert (0 < 1 / sqrt (INR (N.to_nat ran))) by (unfold Rdiv; rewrite Rmult_1_l; now apply Rinv_0_lt_compat).
    apply (to_C03 (N.to_nat ran) HT _ (sqrt (INR A))); [exact HsA|lra|exact H].
  Qed.

  (** *** DCFR *)
  Theorem dcfr_true_regret_rate_sharp budget (stop : R -> bool) strats b1 b2 ran :
    @solve_single RNum g Full draw (@p_dcfr RNum) budget stop = (strats, Some (b1, b2), ran) ->
    let T := INR (N.to_nat ran) in
    (1 <= ran)%N /\
    @si_regret RNum (@info RNum g strats) <=
    3 * D * INR (num_infosets g) * (sqrt (INR A) + 1 / sqrt T) / sqrt T.
  Proof.
    intros Hs. cbv zeta.
    destruct (dcfr_bound_dominates g draw lo hi HWF HPR HCO HPay budget stop strats b1 b2 ran Hs)
      as (HT & _ & _ & Hd).
    split; [lia|].
    apply (rate_dcfr (N.to_nat ran) HT (b1 + b2)); [|exact Hd].
    exact (bsum_rate _ budget stop strats b1 b2 ran Hs).
  Qed.

  Theorem dcfr_true_regret_rate_C03 budget (stop : R -> bool) strats b1 b2 ran :
    @solve_single RNum g Full draw (@p_dcfr RNum) budget stop = (strats, Some (b1, b2), ran) ->
    let T := INR (N.to_nat ran) in
    @si_regret RNum (@info RNum g strats) <=
    6 * D * INR (num_infosets g) * (sqrt (INR A) + 1 / sqrt T) / sqrt T.
  Proof.
    intros Hs. cbv zeta.
    destruct (dcfr_true_regret_rate_sharp budget stop strats b1 b2 ran Hs) as (Hr & H).
    assert (HT : (1 <= N.to_nat ran)%nat) by lia.
    pose proof (s_pos _ HT) as Hsp. pose proof (sqrt_pos (INR A)) as HsA.
    assert (0 < 1 / sqrt (INR (N.to_nat ran))) by (unfold Rdiv; rewrite Rmult_1_l; now apply Rinv_0_lt_compat).
    apply (to_C03 (N.to_nat ran) HT _ (sqrt (INR A) + 1 / sqrt (INR (N.to_nat ran)))); [lra|lra|exact H].
  Qed.

  (** *** DCFR with pruning *)
  Theorem dcfr_prune_true_regret_rate_sharp budget (stop : R -> bool) strats b1 b2 ran :
    @solve_single RNum g Full draw (@p_dcfr_prune RNum) budget stop = (strats, Some (b1, b2), ran) ->
    (1 <= ran)%N /\
    @si_regret RNum (@info RNum g strats) <=
    3 * D * INR (num_infosets g) * (sqrt (INR A) + 1) / sqrt (INR (N.to_nat ran)).
  Proof.
    intros Hs.
    destruct (dcfr_prune_bound_dominates g draw lo hi HWF HPR HCO HPay budget stop strats b1 b2 ran Hs)
      as (HT & _ & _ & Hd).
    split; [lia|].
    apply (rate_prune (N.to_nat ran) HT (b1 + b2)); [|exact Hd].
    exact (bsum_rate _ budget stop strats b1 b2 ran Hs).
  Qed.

  Theorem dcfr_prune_true_regret_rate_C03 budget (stop : R -> bool) strats b1 b2 ran :
    @solve_single RNum g Full draw (@p_dcfr_prune RNum) budget stop = (strats, Some (b1, b2), ran) ->
    let T := INR (N.to_nat ran) in
    @si_regret RNum (@info RNum g strats) <=
    6 * D * INR (num_infosets g) * (sqrt (INR A) + 1 / sqrt T) / sqrt T.
  Proof.
    intros Hs. cbv zeta.
    destruct (dcfr_prune_true_regret_rate_sharp budget stop strats b1 b2 ran Hs) as (Hr & H).
    assert (HT : (1 <= N.to_nat ran)%nat) by lia.
    pose proof (s_pos _ HT) as Hsp. pose proof (sqrt_pos (INR A)) as HsA.
    assert (Hi : 0 < 1 / sqrt (INR (N.to_nat ran)))
      by (unfold Rdiv; rewrite Rmult_1_l; now apply Rinv_0_lt_compat).
    destruct (Nat.eq_dec (num_infosets g) 0) as [HN0|HN0].
    - rewrite HN0 in *. cbn [INR] in *.
      set (s := sqrt (INR (N.to_nat ran))) in *. set (sA := sqrt (INR A)) in *.
      assert (E1 : 3 * D * 0 * (sA + 1) / s = 0) by (unfold Rdiv; ring).
      assert (E2 : 6 * D * 0 * (sA + 1 / s) / s = 0) by (unfold Rdiv; ring).
      lra.
    - pose proof (A_ge_1 ltac:(lia)) as HA1.
      apply (to_C03 (N.to_nat ran) HT _ (sqrt (INR A) + 1)); [lra|lra|exact H].
  Qed.

  (** *** Property C03, clause 2, for the three presets (the statement
      [C03_true_regret_rate_presets_statement] of [Properties/C03.v], for every stop
      predicate) *)
  Theorem true_regret_rate_presets (p : params) budget (stop : R -> bool) strats b1 b2 ran :
    In p [@p_cfr_plus RNum; @p_dcfr RNum; @p_dcfr_prune RNum] ->
    @solve_single RNum g Full draw p budget stop = (strats, Some (b1, b2), ran) ->
    let T := INR (N.to_nat ran) in
    @si_regret RNum (@info RNum g strats) <=
    6 * D * INR (num_infosets g) * (sqrt (INR A) + 1 / sqrt T) / sqrt T.
  Proof.
    intros [<-|[<-|[<-|[]]]] Hs.
    - now apply (cfr_plus_true_regret_rate_C03 budget stop strats b1 b2 ran).
    - now apply (dcfr_true_regret_rate_C03 budget stop strats b1 b2 ran).
    - now apply (dcfr_prune_true_regret_rate_C03 budget stop strats b1 b2 ran).
  Qed.
End Rates.

(** the statement of [Properties/C03.v], literally *)
Theorem C03_true_regret_rate_presets_proved :
  forall (g : game) draw (p : params) (lo hi : R) (A : nat) budget strats b1 b2 ran,
    In p [@p_cfr_plus RNum; @p_dcfr RNum; @p_dcfr_prune RNum] ->
    WFgame g -> PerfectRecall g -> ChanceOK g -> PayoffsIn lo hi (g_root g) ->
    (forall pl, Forall (fun a => (a <= A)%nat) (arities g pl)) ->
    @solve_single RNum g Full draw p budget (fun _ => false) = (strats, Some (b1, b2), ran) ->
    let T := INR (N.to_nat ran) in
    @si_regret RNum (@info RNum g strats) <=
    6 * (hi - lo) * INR (num_infosets g) * (sqrt (INR A) + 1 / sqrt T) / sqrt T.
Proof.
  intros g draw p lo hi A budget strats b1 b2 ran Hp HWF HPR HCO HPay HA Hs.
  exact (true_regret_rate_presets g draw lo hi A HWF HPR HCO HPay HA p budget _ strats b1 b2 ran Hp Hs).
Qed.

(** ** Non-vacuity: matching pennies ([SolveValidProofs.mp_game], payoffs in [-1, 1], one
    infoset per player, two actions): every solve with a positive budget and one of the
    three presets returns bounds, and the theorems apply *)
Example mp_presets_true_regret_rate (draw : oracle) (p : params) (budget : nat) (stop : R -> bool) :
  In p [@p_cfr_plus RNum; @p_dcfr RNum; @p_dcfr_prune RNum] -> (1 <= budget)%nat ->
  exists strats b1 b2 ran,
    @solve_single RNum SolveValidProofs.mp_game Full draw p budget stop = (strats, Some (b1, b2), ran) /\
    (1 <= ran)%N /\
    let T := INR (N.to_nat ran) in
    @si_regret RNum (@info RNum SolveValidProofs.mp_game strats) <=
    6 * (1 - -1) * INR 2 * (sqrt (INR 2) + 1 / sqrt T) / sqrt T.
Proof.
  intros Hp Hb.
  destruct (@solve_single RNum SolveValidProofs.mp_game Full draw p budget stop) as [[strats regs] ran] eqn:E.
  destruct (budget_never_exceeded SolveValidProofs.mp_game Full draw _ stop budget strats regs ran E)
    as (_ & Hsome & _).
  destruct (Hsome Hb) as (Hran & b1 & b2 & ->).
  exists strats, b1, b2, ran. split; [reflexivity|]. split; [lia|].
  exact (true_regret_rate_presets SolveValidProofs.mp_game draw (-1) 1 2 mp_WFgame mp_PerfectRecall
           BoundDominates.mp_ChanceOK mp_Payoffs mp_arities p budget stop strats b1 b2 ran Hp E).
Qed.
