(** * CfrSpec: specification-level vocabulary for the CFR convergence argument
    (property C02) and the per-iteration characterisation of the solver state.

    - finite sums ([Rsumn]) and their algebra;
    - [allp]: a predicate on every node of a subtree; [hists] unfolded; [HSub];
    - [vval] (the value returned by the unsampled traversal) is the expected payoff [u];
    - [msum]: additive measures on the list of increments of a traversal
      ([reg_delta], [strat_delta]) and their effect on the state;
    - the trajectory [state_at], [sigma_at], [avg], [bounds_at] of the vanilla solve,
      and what one iteration does to [cum_regret], [cum_strat] and [strat];
    - pure strategies as tables of one-hot rows.

    Everything is about the real-number instance [RNum]. *)
From Coq Require Import Reals List Lra Lia Bool Arith NArith FunctionalExtensionality.
From Cfr.theories Require Import Num RInst Tree GameWF Strat Eval Solve Valid
     SolveValidProofs Incr IterChar EvalSpec.
Import ListNotations.
Open Scope R_scope.

Local Notation node := (@node RNum).
Local Notation game := (@game RNum).
Local Notation pstate := (@pstate RNum).
Local Notation rinfo := (@rinfo RNum).
Local Notation incr := (@incr RNum).
Local Notation oracle := (@oracle RNum).

(** ** Finite sums *)
Lemma Rsum_map_ext_in {A} (F G : A -> R) l :
  (forall x, In x l -> F x = G x) -> Rsum (map F l) = Rsum (map G l).
Proof. intros H. f_equal. now apply map_ext_in. Qed.

Lemma Rsum_map_plus {A} (F G : A -> R) l :
  Rsum (map (fun x => F x + G x) l) = Rsum (map F l) + Rsum (map G l).
Proof. induction l as [|x l IH]; cbn [map Rsum]; [lra|rewrite IH; lra]. Qed.

Lemma Rsum_map_scal {A} (c : R) (F : A -> R) l :
  Rsum (map (fun x => c * F x) l) = c * Rsum (map F l).
Proof. induction l as [|x l IH]; cbn [map Rsum]; [lra|rewrite IH; lra]. Qed.

Lemma Rsum_map_zero {A} (l : list A) : Rsum (map (fun _ => 0) l) = 0.
Proof. induction l as [|x l IH]; cbn [map Rsum]; [lra|rewrite IH; lra]. Qed.

Lemma Rsum_exchange {A B} (F : A -> B -> R) la lb :
  Rsum (map (fun a => Rsum (map (F a) lb)) la) =
  Rsum (map (fun b => Rsum (map (fun a => F a b) la)) lb).
Proof.
  induction la as [|a la IH]; cbn [map Rsum].
  - now rewrite Rsum_map_zero.
  - rewrite IH, <- Rsum_map_plus. reflexivity.
Qed.

Lemma Rsum_map_le {A} (F G : A -> R) l :
  (forall x, In x l -> F x <= G x) -> Rsum (map F l) <= Rsum (map G l).
Proof.
  induction l as [|x l IH]; intros H; cbn [map Rsum]; [lra|].
  pose proof (H x (or_introl eq_refl)). specialize (IH (fun y Hy => H y (or_intror Hy))). lra.
Qed.

Definition Rsumn (n : nat) (F : nat -> R) : R := Rsum (map F (seq 0 n)).

Lemma Rsumn_ext n F G : (forall b, (b < n)%nat -> F b = G b) -> Rsumn n F = Rsumn n G.
Proof. intros H. apply Rsum_map_ext_in. intros b Hb. apply in_seq in Hb. apply H; lia. Qed.

Lemma Rsumn_le n F G : (forall b, (b < n)%nat -> F b <= G b) -> Rsumn n F <= Rsumn n G.
Proof. intros H. apply Rsum_map_le. intros b Hb. apply in_seq in Hb. apply H; lia. Qed.

Lemma Rsumn_plus n F G : Rsumn n (fun b => F b + G b) = Rsumn n F + Rsumn n G.
Proof. apply Rsum_map_plus. Qed.

Lemma Rsumn_scal n c F : Rsumn n (fun b => c * F b) = c * Rsumn n F.
Proof. apply Rsum_map_scal. Qed.

Lemma Rsumn_zero n : Rsumn n (fun _ => 0) = 0.
Proof. apply Rsum_map_zero. Qed.

Lemma Rsumn_zero_ext n F : (forall b, (b < n)%nat -> F b = 0) -> Rsumn n F = 0.
Proof. intros H. rewrite <- (Rsumn_zero n). now apply Rsumn_ext. Qed.

Lemma Rsumn_exchange n m (F : nat -> nat -> R) :
  Rsumn n (fun i => Rsumn m (F i)) = Rsumn m (fun j => Rsumn n (fun i => F i j)).
Proof. apply Rsum_exchange. Qed.

Lemma Rsumn_0 F : Rsumn 0 F = 0.
Proof. reflexivity. Qed.

Lemma Rsumn_S n F : Rsumn (S n) F = F 0%nat + Rsumn n (fun b => F (S b)).
Proof. unfold Rsumn. cbn [seq map Rsum]. rewrite <- seq_shift, map_map. reflexivity. Qed.

Lemma Rsumn_S_last n F : Rsumn (S n) F = Rsumn n F + F n.
Proof.
  unfold Rsumn. rewrite seq_S, map_app, Rsum_app. cbn [map Rsum Nat.add]. lra.
Qed.

Lemma Rsumn_single n k F :
  (k < n)%nat -> Rsumn n (fun b => if Nat.eqb b k then F b else 0) = F k.
Proof.
  revert k F; induction n as [|n IH]; intros k F Hk; [lia|].
  rewrite Rsumn_S. destruct k as [|k].
  - cbn [Nat.eqb]. rewrite Rsumn_zero. lra.
  - cbn [Nat.eqb]. rewrite (IH k (fun b => F (S b))) by lia. lra.
Qed.

Lemma Rsumn_nonneg n F : (forall b, (b < n)%nat -> 0 <= F b) -> 0 <= Rsumn n F.
Proof. intros H. rewrite <- (Rsumn_zero n). now apply Rsumn_le. Qed.

Lemma Rsum_map_nth {A} (F : A -> R) (l : list A) (d : A) :
  Rsum (map F l) = Rsumn (length l) (fun b => F (nth b l d)).
Proof.
  induction l as [|x l IH]; [reflexivity|].
  cbn [map Rsum length]. rewrite Rsumn_S, IH. reflexivity.
Qed.

Lemma Rsum_nth (l : list R) : Rsum l = Rsumn (length l) (fun b => nth b l 0).
Proof. rewrite <- (map_id l) at 1. apply (Rsum_map_nth (fun x => x)). Qed.

Lemma nth_nil_R (b : nat) : nth b (@nil R) 0 = 0.
Proof. destruct b; reflexivity. Qed.

Lemma dot_Rsumn (ps xs : list R) :
  dot ps xs = Rsumn (length xs) (fun b => nth b ps 0 * nth b xs 0).
Proof.
  revert ps; induction xs as [|x xs IH]; intros ps.
  - unfold dot. destruct ps; reflexivity.
  - destruct ps as [|p ps].
    + unfold dot. cbn [combine map Rsum]. symmetry. apply Rsumn_zero_ext.
      intros b _. rewrite nth_nil_R. lra.
    + cbn [length]. rewrite Rsumn_S. cbn [nth]. rewrite <- IH. unfold dot.
      cbn [combine map Rsum fst snd]. reflexivity.
Qed.

(** ** Trees: a predicate on every node, the default node, children by index *)
Definition d0 : node := @Term RNum 0.

Section AllP.
  Context (PC : nat -> list node -> Prop) (PP : bool -> nat -> list node -> Prop).

  Fixpoint allp (n : node) : Prop :=
    match n with
    | Term _ => True
    | Chance ci kids =>
        PC ci kids /\
        (fix go (ks : list node) : Prop :=
           match ks with [] => True | k :: r => allp k /\ go r end) kids
    | Player pl i kids =>
        PP pl i kids /\
        (fix go (ks : list node) : Prop :=
           match ks with [] => True | k :: r => allp k /\ go r end) kids
    end.

  Lemma allp_go ks :
    (fix go (ks : list node) : Prop :=
       match ks with [] => True | k :: r => allp k /\ go r end) ks <-> Forall allp ks.
  Proof.
    induction ks as [|k r IH]; [split; constructor|].
    rewrite Forall_cons_iff, <- IH. reflexivity.
  Qed.

  Lemma allp_Chance ci kids : allp (Chance ci kids) <-> PC ci kids /\ Forall allp kids.
  Proof. cbn [allp]. now rewrite allp_go. Qed.

  Lemma allp_Player pl i kids : allp (Player pl i kids) <-> PP pl i kids /\ Forall allp kids.
  Proof. cbn [allp]. now rewrite allp_go. Qed.
End AllP.

Lemma Forall_nth_lt {A} (P : A -> Prop) l b d : Forall P l -> (b < length l)%nat -> P (nth b l d).
Proof. intros H Hb. rewrite Forall_forall in H. apply H. now apply nth_In. Qed.

Lemma allp_impl (PC PC' : nat -> list node -> Prop) (PP PP' : bool -> nat -> list node -> Prop) n :
  (forall ci kids, PC ci kids -> PC' ci kids) ->
  (forall pl i kids, PP pl i kids -> PP' pl i kids) ->
  allp PC PP n -> allp PC' PP' n.
Proof.
  intros HC HP.
  induction n as [x|ci kids IH|pl i kids IH] using GameWF.node_ind'; [trivial| |].
  - rewrite !allp_Chance. intros [H1 H2]. split; [auto|].
    rewrite Forall_forall in *. intros k Hk. apply IH; auto.
  - rewrite !allp_Player. intros [H1 H2]. split; [auto|].
    rewrite Forall_forall in *. intros k Hk. apply IH; auto.
Qed.

Lemma allp_and (PC PC' : nat -> list node -> Prop) (PP PP' : bool -> nat -> list node -> Prop) n :
  allp PC PP n -> allp PC' PP' n ->
  allp (fun ci kids => PC ci kids /\ PC' ci kids) (fun pl i kids => PP pl i kids /\ PP' pl i kids) n.
Proof.
  induction n as [x|ci kids IH|pl i kids IH] using GameWF.node_ind'; [trivial| |].
  - rewrite !allp_Chance. intros [H1 H2] [H3 H4]. split; [auto|].
    rewrite Forall_forall in *. intros k Hk. apply IH; auto.
  - rewrite !allp_Player. intros [H1 H2] [H3 H4]. split; [auto|].
    rewrite Forall_forall in *. intros k Hk. apply IH; auto.
Qed.

(** the shape predicate of [GameWF] in [allp] form *)
Definition arity (g : game) (pl : bool) (i : nat) : nat := nth i (arities g pl) 0%nat.

Lemma arity_eq (g : game) pl i :
  length (pi_actions (nth i (g_infos g pl) (mkPinfo 0%N [] None))) = arity g pl i.
Proof.
  unfold arity, arities.
  change 0%nat with (length (pi_actions (mkPinfo 0%N [] None))).
  now rewrite (map_nth (fun pi => length (pi_actions pi))).
Qed.

Lemma arities_length (g : game) pl : length (arities g pl) = length (g_infos g pl).
Proof. unfold arities. apply map_length. Qed.

Definition ShapeC (g : game) (ci : nat) (kids : list node) : Prop :=
  length (rowR (g_chance g) ci) = length kids.
Definition ShapeP (g : game) (pl : bool) (i : nat) (kids : list node) : Prop :=
  (i < length (g_infos g pl))%nat /\ length kids = arity g pl i /\ (2 <= length kids)%nat.

Lemma shaped_go (g : game) ks :
  (fix go (ks : list node) : Prop :=
     match ks with [] => True | k :: r => @shaped RNum g k /\ go r end) ks <->
  Forall (@shaped RNum g) ks.
Proof.
  induction ks as [|k r IH]; [split; constructor|].
  rewrite Forall_cons_iff, <- IH. reflexivity.
Qed.

Lemma shaped_allp (g : game) n : @shaped RNum g n -> allp (ShapeC g) (ShapeP g) n.
Proof.
  induction n as [x|ci kids IH|pl i kids IH] using GameWF.node_ind'; [trivial| |].
  - cbn [shaped]. rewrite shaped_go, allp_Chance. intros (H1 & H2 & H3 & H4). split.
    + unfold ShapeC, rowR. now rewrite H2.
    + rewrite Forall_forall in *. intros k Hk. apply IH; auto.
  - cbn [shaped]. rewrite shaped_go, allp_Player. intros (H1 & H2 & H3 & H4). split.
    + unfold ShapeP. rewrite <- arity_eq. auto.
    + rewrite Forall_forall in *. intros k Hk. apply IH; auto.
Qed.

(** ** [hists] unfolded *)
Definition hist := list (nat * nat).
Definition hentry := (bool * nat * hist)%type.

Definition hists_c (h1 h2 : hist) :=
  fix go (ks : list node) : list hentry :=
    match ks with
    | [] => []
    | k :: r => @hists RNum k h1 h2 ++ go r
    end.

Definition hists_p (pl : bool) (i : nat) (h1 h2 : hist) :=
  fix go (ks : list node) (a : nat) : list hentry :=
    match ks with
    | [] => []
    | k :: r =>
        @hists RNum k (if pl then h1 ++ [(i, a)] else h1) (if pl then h2 else h2 ++ [(i, a)])
        ++ go r (S a)
    end.

Lemma hists_Chance ci kids h1 h2 : @hists RNum (Chance ci kids) h1 h2 = hists_c h1 h2 kids.
Proof. reflexivity. Qed.

Lemma hists_Player pl i kids h1 h2 :
  @hists RNum (Player pl i kids) h1 h2 =
  (pl, i, if pl then h1 else h2) :: hists_p pl i h1 h2 kids 0.
Proof. reflexivity. Qed.

Definition ext1 (pl : bool) (i b : nat) (h1 : hist) : hist := if pl then h1 ++ [(i, b)] else h1.
Definition ext2 (pl : bool) (i b : nat) (h2 : hist) : hist := if pl then h2 else h2 ++ [(i, b)].

Lemma hists_c_kid h1 h2 ks b x :
  (b < length ks)%nat -> In x (@hists RNum (nth b ks d0) h1 h2) -> In x (hists_c h1 h2 ks).
Proof.
  revert b; induction ks as [|k r IH]; intros b Hb Hx; cbn [length] in Hb; [lia|].
  cbn [hists_c]. apply in_or_app. destruct b as [|b]; cbn [nth] in Hx; [now left|right].
  apply (IH b); [lia|assumption].
Qed.

Lemma hists_p_kid pl i h1 h2 ks a b x :
  (b < length ks)%nat ->
  In x (@hists RNum (nth b ks d0) (ext1 pl i (a + b) h1) (ext2 pl i (a + b) h2)) ->
  In x (hists_p pl i h1 h2 ks a).
Proof.
  revert a b; induction ks as [|k r IH]; intros a b Hb Hx; cbn [length] in Hb; [lia|].
  cbn [hists_p]. apply in_or_app. destruct b as [|b]; cbn [nth] in Hx.
  - left. rewrite Nat.add_0_r in Hx. exact Hx.
  - right. apply (IH (S a) b); [lia|]. rewrite Nat.add_succ_r in Hx. exact Hx.
Qed.

(** a property of every decision node of a subtree entered with histories [h1], [h2] *)
Definition HSub (P : hentry -> Prop) (n : node) (h1 h2 : hist) : Prop :=
  forall x, In x (@hists RNum n h1 h2) -> P x.

Lemma HSub_Chance P ci kids h1 h2 b :
  HSub P (Chance ci kids) h1 h2 -> (b < length kids)%nat -> HSub P (nth b kids d0) h1 h2.
Proof.
  intros H Hb x Hx. apply H. rewrite hists_Chance. now apply (hists_c_kid h1 h2 kids b).
Qed.

Lemma HSub_Player_here P pl i kids h1 h2 :
  HSub P (Player pl i kids) h1 h2 -> P (pl, i, if pl then h1 else h2).
Proof. intros H. apply H. rewrite hists_Player. now left. Qed.

Lemma HSub_Player_kid P pl i kids h1 h2 b :
  HSub P (Player pl i kids) h1 h2 -> (b < length kids)%nat ->
  HSub P (nth b kids d0) (ext1 pl i b h1) (ext2 pl i b h2).
Proof.
  intros H Hb x Hx. apply H. rewrite hists_Player. right.
  apply (hists_p_kid pl i h1 h2 kids 0 b); assumption.
Qed.

Definition hme (me : bool) (h1 h2 : hist) : hist := if me then h1 else h2.

Lemma hme_ext_same me i b h1 h2 :
  hme me (ext1 me i b h1) (ext2 me i b h2) = hme me h1 h2 ++ [(i, b)].
Proof. destruct me; reflexivity. Qed.

Lemma hme_ext_other me pl i b h1 h2 :
  pl <> me -> hme me (ext1 pl i b h1) (ext2 pl i b h2) = hme me h1 h2.
Proof. destruct me, pl; try congruence; reflexivity. Qed.

(** ** Strategy tables as the view the traversal reads *)
Definition sg_of (s1 s2 : list (list R)) : bool -> nat -> list R :=
  fun pl i => rowR (if pl then s1 else s2) i.

Definition tbl_strat (st : pstate) (pl : bool) : list (list R) := map (@strat RNum) (@ps_get RNum st pl).

Lemma strat_view_tbl (st : pstate) :
  strat_view st = sg_of (tbl_strat st true) (tbl_strat st false).
Proof.
  apply functional_extensionality; intros pl. apply functional_extensionality; intros i.
  unfold strat_view, sg_of, tbl_strat, rowR, ri_get.
  change (@nil R) with (@strat RNum (mkRinfo [] [] [])).
  destruct pl; now rewrite map_nth.
Qed.

Definition prob (tbl : list (list R)) (i a : nat) : R := nth a (rowR tbl i) 0.

(** ** The value of the unsampled traversal is the expected payoff *)
Lemma map_ext_Forall_R {A} (f g : A -> R) l :
  Forall (fun x => f x = g x) l -> map f l = map g l.
Proof. induction 1 as [|x l Hx _ IH]; cbn [map]; [reflexivity|now rewrite Hx, IH]. Qed.

Lemma val_chance_acc (recv : node -> R) ps ks ex :
  @val_chance RNum recv ps ks ex = ex + dot ps (map recv ks).
Proof.
  revert ps ex; induction ks as [|k ks IH]; intros ps ex.
  - destruct ps; unfold dot; cbn [val_chance map combine Rsum]; lra.
  - destruct ps as [|p ps]; [unfold dot; cbn [val_chance map combine Rsum]; lra|].
    cbn [val_chance map]. rewrite IH. unfold dot. cbn [combine map Rsum fst snd add mul RNum]. lra.
Qed.

Lemma val_player_acc (recv : node -> R) ks ss e1 :
  @val_player RNum recv ks ss e1 = e1 + dot ss (map recv ks).
Proof.
  revert ss e1; induction ks as [|k ks IH]; intros ss e1.
  - destruct ss; unfold dot; cbn [val_player map combine Rsum]; lra.
  - destruct ss as [|p ss]; [unfold dot; cbn [val_player map combine Rsum]; lra|].
    cbn [val_player map]. rewrite IH. unfold dot. cbn [combine map Rsum fst snd add mul RNum]. lra.
Qed.

Lemma exp_player_acc (recv : node -> R) mult ks ss e :
  @exp_player RNum recv mult ks ss e = e + mult * dot ss (map recv ks).
Proof.
  revert ss e; induction ks as [|k ks IH]; intros ss e.
  - destruct ss; unfold dot; cbn [exp_player map combine Rsum]; lra.
  - destruct ss as [|p ss]; [unfold dot; cbn [exp_player map combine Rsum]; lra|].
    cbn [exp_player map]. rewrite IH. unfold dot. cbn [combine map Rsum fst snd add mul RNum]. lra.
Qed.

Lemma vval_u chance draw pass s1 s2 n :
  @vval RNum chance false draw pass (sg_of s1 s2) n = u chance s1 s2 n.
Proof.
  induction n as [x|ci kids IH|pl i kids IH] using GameWF.node_ind'.
  - reflexivity.
  - cbn [vval u]. rewrite val_chance_acc. cbn [zero RNum].
    rewrite (map_ext_Forall_R _ _ _ IH). rewrite <- rowR_row. lra.
  - cbn [vval u]. rewrite val_player_acc. cbn [zero RNum].
    rewrite (map_ext_Forall_R _ _ _ IH). unfold sg_of. lra.
Qed.

Lemma u_nth chance s1 s2 kids b :
  nth b (map (u chance s1 s2) kids) 0 = u chance s1 s2 (nth b kids d0).
Proof. change 0 with (u chance s1 s2 d0). apply map_nth. Qed.

Lemma u_Chance_n chance s1 s2 ci kids :
  u chance s1 s2 (Chance ci kids) =
  Rsumn (length kids) (fun b => nth b (rowR chance ci) 0 * u chance s1 s2 (nth b kids d0)).
Proof.
  cbn [u]. rewrite dot_Rsumn, map_length. apply Rsumn_ext. intros b _. now rewrite u_nth.
Qed.

Lemma u_Player_n chance s1 s2 pl i kids :
  u chance s1 s2 (Player pl i kids) =
  Rsumn (length kids) (fun b => prob (if pl then s1 else s2) i b * u chance s1 s2 (nth b kids d0)).
Proof.
  cbn [u]. rewrite dot_Rsumn, map_length. apply Rsumn_ext. intros b _. now rewrite u_nth.
Qed.

(** ** Additive measures on increments *)
Definition msum (mu : incr -> R) (L : list incr) : R := Rsum (map mu L).

Lemma msum_nil mu : msum mu [] = 0.
Proof. reflexivity. Qed.
Lemma msum_cons mu x L : msum mu (x :: L) = mu x + msum mu L.
Proof. reflexivity. Qed.
Lemma msum_app mu L1 L2 : msum mu (L1 ++ L2) = msum mu L1 + msum mu L2.
Proof. unfold msum. now rewrite map_app, Rsum_app. Qed.

Lemma msum_incs_chance mu (vi : node -> R -> R -> R -> list incr) pc p1 p2 ps ks :
  length ps = length ks ->
  msum mu (@incs_chance RNum vi pc p1 p2 ps ks) =
  Rsumn (length ks) (fun b => msum mu (vi (nth b ks d0) (pc * nth b ps 0) p1 p2)).
Proof.
  revert ps; induction ks as [|k ks IH]; intros ps Hl.
  - destruct ps; reflexivity.
  - destruct ps as [|p ps]; [discriminate|]. cbn [length] in Hl.
    cbn [incs_chance length]. rewrite msum_app, Rsumn_S, IH by lia. reflexivity.
Qed.

Definition q1_of (pl : bool) (p1 prob : R) : R := if pl then p1 * prob else p1.
Definition q2_of (pl : bool) (p2 prob : R) : R := if pl then p2 else p2 * prob.

Lemma msum_incs_player mu (vv : node -> R) (vi : node -> R -> R -> R -> list incr)
      pl i pc p1 p2 mult ks ss ai :
  length ss = length ks ->
  msum mu (@incs_player RNum vv vi pl i pc p1 p2 mult ks ss ai) =
  Rsumn (length ks)
        (fun b => msum mu (vi (nth b ks d0) pc (q1_of pl p1 (nth b ss 0)) (q2_of pl p2 (nth b ss 0)))
                  + mu (@IReg RNum pl i (ai + b) (vv (nth b ks d0) * mult))).
Proof.
  revert ss ai; induction ks as [|k ks IH]; intros ss ai Hl.
  - destruct ss; reflexivity.
  - destruct ss as [|p ss]; [discriminate|]. cbn [length] in Hl.
    cbn [incs_player length]. rewrite Rsumn_S. cbn [nth]. rewrite Nat.add_0_r.
    unfold q1_of, q2_of. destruct pl; rewrite msum_app, msum_cons, IH by lia;
      cbn [mul RNum]; rewrite <- Rplus_assoc; f_equal; apply Rsumn_ext; intros b _;
      rewrite Nat.add_succ_r; reflexivity.
Qed.

Lemma vincs_Chance chance draw pass sg ci kids pc p1 p2 :
  @vincs RNum chance false draw pass sg (Chance ci kids) pc p1 p2 =
  @incs_chance RNum (@vincs RNum chance false draw pass sg) pc p1 p2 (rowR chance ci) kids.
Proof. reflexivity. Qed.

Lemma vincs_Player chance draw pass sg pl i kids pc p1 p2 :
  @vincs RNum chance false draw pass sg (Player pl i kids) pc p1 p2 =
  let mine := if pl then p1 else p2 in
  let mult := if pl then pc * p2 else - p1 * pc in
  @IStrat RNum pl i mine ::
  @incs_player RNum (@vval RNum chance false draw pass sg) (@vincs RNum chance false draw pass sg)
               pl i pc p1 p2 mult kids (sg pl i) 0 ++
  [@IRegAll RNum pl i (@exp_player RNum (@vval RNum chance false draw pass sg) mult kids (sg pl i) 0)].
Proof. reflexivity. Qed.

(** the unsampled traversal ignores the oracle and the pass number *)
Lemma vval_indep chance draw pass draw' pass' sg n :
  @vval RNum chance false draw pass sg n = @vval RNum chance false draw' pass' sg n.
Proof.
  induction n as [x|ci kids IH|pl i kids IH] using GameWF.node_ind'; [reflexivity| |].
  - cbn [vval]. rewrite !val_chance_acc. now rewrite (map_ext_Forall_R _ _ _ IH).
  - cbn [vval]. rewrite !val_player_acc. now rewrite (map_ext_Forall_R _ _ _ IH).
Qed.

(** ** The two measures: regret increments and cumulative-strategy weights *)
Definition hits (pl : bool) (i : nat) (x : incr) : bool :=
  Bool.eqb (incr_pl x) pl && Nat.eqb (incr_ix x) i.

Definition rdv (a : nat) (x : incr) : R :=
  match x with
  | IStrat _ _ _ => 0
  | IReg _ _ a' v => if Nat.eqb a' a then v else 0
  | IRegAll _ _ v => - v
  end.
Definition sdv (x : incr) : R :=
  match x with IStrat _ _ w => w | _ => 0 end.

Definition rd (pl : bool) (i a : nat) (x : incr) : R := if hits pl i x then rdv a x else 0.
Definition sd (pl : bool) (i : nat) (x : incr) : R := if hits pl i x then sdv x else 0.

Definition reg_delta (L : list incr) (pl : bool) (i a : nat) : R := msum (rd pl i a) L.
Definition strat_delta (L : list incr) (pl : bool) (i : nat) : R := msum (sd pl i) L.

(** ** Effect of increments on one infoset *)
Definition Eff (ri ri' : rinfo) (dr : nat -> R) (ds : R) : Prop :=
  strat ri' = strat ri /\
  length (cum_regret ri') = length (cum_regret ri) /\
  length (cum_strat ri') = length (cum_strat ri) /\
  (forall a, (a < length (cum_regret ri))%nat ->
             nth a (cum_regret ri') 0 = nth a (cum_regret ri) 0 + dr a) /\
  (forall a, (a < length (strat ri))%nat ->
             nth a (cum_strat ri') 0 = nth a (cum_strat ri) 0 + ds * nth a (strat ri) 0).

Lemma Eff_refl ri : Eff ri ri (fun _ => 0) 0.
Proof. unfold Eff. repeat split; intros; lra. Qed.

Lemma Eff_trans r1 r2 r3 d1 d2 s1 s2 :
  Eff r1 r2 d1 s1 -> Eff r2 r3 d2 s2 -> Eff r1 r3 (fun a => d1 a + d2 a) (s1 + s2).
Proof.
  intros (A1 & A2 & A3 & A4 & A5) (B1 & B2 & B3 & B4 & B5). unfold Eff.
  split; [congruence|]. split; [congruence|]. split; [congruence|]. split.
  - intros a Ha. rewrite B4, A4 by (rewrite ?A2; exact Ha). lra.
  - intros a Ha. rewrite B5, A5 by (rewrite ?A1; lia). rewrite A1. lra.
Qed.

Lemma nth_cs_add (w : R) (s c : list R) a :
  (a < length s)%nat -> (a < length c)%nat ->
  nth a (map (fun vc : R * R => snd vc + w * fst vc) (combine s c)) 0 = nth a c 0 + w * nth a s 0.
Proof.
  revert c a; induction s as [|x s IH]; intros c a Hs Hc; cbn [length] in Hs; [lia|].
  destruct c as [|y c]; cbn [length] in Hc; [lia|].
  destruct a as [|a]; cbn [combine map nth fst snd]; [reflexivity|]. apply IH; lia.
Qed.

Lemma incr_fn_Eff (x : incr) (ri : rinfo) :
  length (cum_strat ri) = length (strat ri) ->
  Eff ri (incr_fn x ri) (fun a => rdv a x) (sdv x).
Proof.
  intros Hl. destruct x as [pl i w|pl i a' v|pl i v]; unfold Eff, incr_fn;
    cbn [strat cum_regret cum_strat rdv sdv add mul sub zero RNum]; tR.
  - split; [reflexivity|]. split; [reflexivity|]. split.
    + rewrite map_length, combine_length. tR. lia.
    + split; [intros; lra|]. intros a Ha. apply nth_cs_add; tR; lia.
  - split; [reflexivity|]. split; [apply upd_len|]. split; [reflexivity|]. split.
    + intros a Ha. rewrite nth_upd. destruct (Nat.eqb_spec a' a) as [->|Hne]; cbn [andb].
      * apply Nat.ltb_lt in Ha. rewrite Ha. reflexivity.
      * lra.
    + intros; lra.
  - split; [reflexivity|]. split; [apply map_length|]. split; [reflexivity|]. split.
    + intros a Ha. rewrite (nth_map_sub (cum_regret ri) a v Ha). unfold Rminus. reflexivity.
    + intros; lra.
Qed.

Lemma apply_incr_Eff (st : pstate) (x : incr) pl i :
  (i < length (@ps_get RNum st pl))%nat ->
  length (cum_strat (@ri_get RNum st pl i)) = length (strat (@ri_get RNum st pl i)) ->
  Eff (@ri_get RNum st pl i) (@ri_get RNum (apply_incr st x) pl i)
      (fun a => rd pl i a x) (sd pl i x).
Proof.
  intros Hi Hl. rewrite apply_incr_upd_at, ri_get_upd_at. unfold rd, sd, hits.
  destruct (Bool.eqb_spec (incr_pl x) pl) as [E1|N1]; cbn [andb]; [|apply Eff_refl].
  destruct (Nat.eqb_spec (incr_ix x) i) as [E2|N2]; cbn [andb]; [|apply Eff_refl].
  rewrite E1, E2. apply Nat.ltb_lt in Hi. rewrite Hi. now apply incr_fn_Eff.
Qed.

Lemma Eff_ext ri ri' d d' s s' :
  (forall a, d a = d' a) -> s = s' -> Eff ri ri' d s -> Eff ri ri' d' s'.
Proof.
  intros Hd -> (A1 & A2 & A3 & A4 & A5). unfold Eff. repeat split; auto.
  intros a Ha. rewrite <- Hd. auto.
Qed.

Lemma fold_incr_Eff (L : list incr) : forall (st : pstate) pl i,
  (i < length (@ps_get RNum st pl))%nat ->
  length (cum_strat (@ri_get RNum st pl i)) = length (strat (@ri_get RNum st pl i)) ->
  Eff (@ri_get RNum st pl i) (@ri_get RNum (fold_left apply_incr L st) pl i)
      (fun a => reg_delta L pl i a) (strat_delta L pl i).
Proof.
  induction L as [|x L IH]; intros st pl i Hi Hl.
  - cbn [fold_left]. apply Eff_refl.
  - cbn [fold_left]. pose proof (apply_incr_Eff st x pl i Hi Hl) as E1.
    assert (Hi' : (i < length (@ps_get RNum (apply_incr st x) pl))%nat)
      by (rewrite apply_incr_len; exact Hi).
    assert (Hl' : length (cum_strat (@ri_get RNum (apply_incr st x) pl i)) =
                  length (strat (@ri_get RNum (apply_incr st x) pl i))).
    { destruct E1 as (A1 & _ & A3 & _). congruence. }
    pose proof (IH (apply_incr st x) pl i Hi' Hl') as E2.
    eapply Eff_ext; [| |exact (Eff_trans _ _ _ _ _ _ _ E1 E2)]; reflexivity.
Qed.

(** ** Lists: maxima, [Forall2] by index *)
Lemma Forall2_nth_lt {A B} (Q : A -> B -> Prop) la lb i da db :
  Forall2 Q la lb -> (i < length la)%nat -> Q (nth i la da) (nth i lb db).
Proof.
  intros H; revert i; induction H as [|x y la lb Hxy H IH]; intros i Hi; cbn [length] in Hi; [lia|].
  destruct i as [|i]; cbn [nth]; [assumption|]. apply IH; lia.
Qed.

Lemma Forall2_len {A B} (Q : A -> B -> Prop) la lb : Forall2 Q la lb -> length la = length lb.
Proof. induction 1; cbn [length]; congruence. Qed.

Lemma fold_left_Rmax_ge (r : list R) (x : R) :
  x <= fold_left Rmax r x /\ forall a, (a < length r)%nat -> nth a r 0 <= fold_left Rmax r x.
Proof.
  revert x; induction r as [|y r IH]; intros x; cbn [fold_left length].
  - split; [lra|intros; lia].
  - destruct (IH (Rmax x y)) as [H1 H2]. split.
    + pose proof (Rmax_l x y). lra.
    + intros [|a] Ha; cbn [nth]; [pose proof (Rmax_r x y); lra|apply H2; lia].
Qed.

Lemma Rmaxl_ge (l : list R) a : (a < length l)%nat -> nth a l 0 <= Rmaxl l.
Proof.
  unfold Rmaxl, reduce_max. destruct l as [|x r]; cbn [length]; [lia|].
  intros Ha. change (fmax RNum) with Rmax.
  destruct (fold_left_Rmax_ge r x) as [H1 H2].
  destruct a as [|a]; cbn [nth]; [exact H1|apply H2; lia].
Qed.

Lemma nth_repeatT_zero n a : nth a (@repeatT RNum 0 n) 0 = 0.
Proof. revert a; induction n as [|n IH]; intros [|a]; cbn [repeatT nth]; auto. Qed.

(** ** The trajectory of the unsampled vanilla solve *)
Definition ninfos (g : game) (pl : bool) : nat := length (g_infos g pl).

Section Traj.
  Context (g : game) (draw : oracle).

  (** the state after [t] iterations *)
  Fixpoint state_at (t : nat) : pstate :=
    match t with
    | O => @init_state RNum g
    | S k => fst (@vanilla_iter RNum g false draw (@p_vanilla RNum) (N.of_nat (S k)) (state_at k))
    end.

  (** the bounds returned by iteration [t] (1-based) *)
  Definition bounds_at (t : nat) : R * R :=
    snd (@vanilla_iter RNum g false draw (@p_vanilla RNum) (N.of_nat t) (state_at (t - 1))).

  (** the strategy used *during* iteration [t] (1-based) *)
  Definition sigma_at (t : nat) (pl : bool) : list (list R) := tbl_strat (state_at (t - 1)) pl.

  (** the average strategy after [T] iterations, row-wise what [final_strats] returns *)
  Definition avg (T : nat) (pl : bool) : list (list R) :=
    map (fun ri => @avg_strat RNum (cum_strat ri)) (@ps_get RNum (state_at T) pl).

  Definition regret_at (T : nat) (pl : bool) (i a : nat) : R :=
    nth a (cum_regret (@ri_get RNum (state_at T) pl i)) 0.
  Definition cstrat_at (T : nat) (pl : bool) (i a : nat) : R :=
    nth a (cum_strat (@ri_get RNum (state_at T) pl i)) 0.

  (** the increments performed by the traversal of iteration [t + 1] *)
  Definition incs_at (t : nat) : list incr :=
    @vincs RNum (g_chance g) false draw (N.of_nat (S t) - 1)%N (strat_view (state_at t))
           (g_root g) 1 1 1.

  Lemma state_at_S k :
    state_at (S k) =
    let st1 := fold_left apply_incr (incs_at k) (state_at k) in
    (map adv_vanilla (fst st1), map adv_vanilla (snd st1)).
  Proof.
    cbn [state_at]. rewrite vanilla_iter_state. cbv zeta. cbn [fst].
    rewrite vrec_incs. reflexivity.
  Qed.

  Lemma bounds_at_S k :
    bounds_at (S k) =
    (Rsum (map (info_bound (N.of_nat (S k))) (fst (state_at (S k)))),
     Rsum (map (info_bound (N.of_nat (S k))) (snd (state_at (S k))))).
  Proof.
    unfold bounds_at. replace (S k - 1)%nat with k by lia.
    pose proof (vanilla_iter_bounds g false draw (@p_vanilla RNum) (N.of_nat (S k)) (state_at k)) as H.
    cbv zeta in H. exact H.
  Qed.

  Context (Hpos : arities_pos g).

  Lemma state_at_inv t : InvA (arities g true) (arities g false) (state_at t).
  Proof.
    induction t as [|k IH]; [now apply init_state_inv|].
    cbn [state_at]. exact (one_iter_inv _ _ g Full draw _ _ _ IH).
  Qed.

  Lemma state_at_len t pl : length (@ps_get RNum (state_at t) pl) = ninfos g pl.
  Proof.
    destruct (state_at_inv t) as [H1 H2]. unfold ninfos. rewrite <- arities_length.
    destruct pl; cbn [ps_get]; symmetry; eapply Forall2_len; eassumption.
  Qed.

  Lemma state_at_RInvA t pl i :
    (i < ninfos g pl)%nat -> RInvA (arity g pl i) (@ri_get RNum (state_at t) pl i).
  Proof.
    intros Hi. destruct (state_at_inv t) as [H1 H2]. unfold arity, ri_get.
    unfold ninfos in Hi. rewrite <- arities_length in Hi.
    destruct pl; cbn [ps_get]; apply Forall2_nth_lt; assumption.
  Qed.

  Lemma sigma_at_row t pl i :
    rowR (sigma_at (S t) pl) i = strat (@ri_get RNum (state_at t) pl i).
  Proof.
    unfold sigma_at, tbl_strat, rowR, ri_get. replace (S t - 1)%nat with t by lia.
    change (@nil R) with (@strat RNum (mkRinfo [] [] [])). now rewrite map_nth.
  Qed.

  Lemma strat_view_sigma t :
    strat_view (state_at t) = sg_of (sigma_at (S t) true) (sigma_at (S t) false).
  Proof. rewrite strat_view_tbl. unfold sigma_at. now replace (S t - 1)%nat with t by lia. Qed.

  Lemma sigma_at_VRow t pl i : (i < ninfos g pl)%nat -> VRow (rowR (sigma_at (S t) pl) i).
  Proof. intros Hi. rewrite sigma_at_row. now destruct (state_at_RInvA t pl i Hi) as (H & _). Qed.

  Lemma sigma_at_length t pl i :
    (i < ninfos g pl)%nat -> length (rowR (sigma_at (S t) pl) i) = arity g pl i.
  Proof.
    intros Hi. rewrite sigma_at_row. destruct (state_at_RInvA t pl i Hi) as (_ & _ & _ & _ & H).
    exact H.
  Qed.

  (** one iteration, infoset by infoset *)
  Lemma state_at_step k pl i :
    (i < ninfos g pl)%nat ->
    Eff (@ri_get RNum (state_at k) pl i)
        (@mkRinfo RNum (cum_regret (@ri_get RNum (state_at (S k)) pl i))
                  (cum_strat (@ri_get RNum (state_at (S k)) pl i))
                  (strat (@ri_get RNum (state_at k) pl i)))
        (fun a => reg_delta (incs_at k) pl i a) (strat_delta (incs_at k) pl i).
  Proof.
    intros Hi. rewrite state_at_S. cbv zeta.
    set (st1 := fold_left apply_incr (incs_at k) (state_at k)).
    assert (Hlen : (i < length (@ps_get RNum (state_at k) pl))%nat) by (now rewrite state_at_len).
    rewrite ri_get_map by (unfold st1; rewrite fold_incr_len; exact Hlen).
    cbn [adv_vanilla cum_regret cum_strat].
    destruct (state_at_RInvA k pl i Hi) as (_ & _ & L1 & L2 & L3).
    pose proof (fold_incr_Eff (incs_at k) (state_at k) pl i Hlen (eq_trans L2 (eq_sym L3))) as E.
    fold st1 in E. destruct E as (A1 & A2 & A3 & A4 & A5).
    unfold Eff. cbn [cum_regret cum_strat strat]. repeat split; auto.
  Qed.

  Lemma regret_at_S k pl i a :
    (i < ninfos g pl)%nat -> (a < arity g pl i)%nat ->
    regret_at (S k) pl i a = regret_at k pl i a + reg_delta (incs_at k) pl i a.
  Proof.
    intros Hi Ha. destruct (state_at_step k pl i Hi) as (_ & _ & _ & A4 & _).
    destruct (state_at_RInvA k pl i Hi) as (_ & _ & L1 & _ & _).
    cbn [cum_regret] in A4. unfold regret_at. apply A4. rewrite L1. exact Ha.
  Qed.

  Lemma cstrat_at_S k pl i a :
    (i < ninfos g pl)%nat -> (a < arity g pl i)%nat ->
    cstrat_at (S k) pl i a =
    cstrat_at k pl i a + strat_delta (incs_at k) pl i * prob (sigma_at (S k) pl) i a.
  Proof.
    intros Hi Ha. destruct (state_at_step k pl i Hi) as (_ & _ & _ & _ & A5).
    destruct (state_at_RInvA k pl i Hi) as (_ & _ & _ & _ & L3).
    cbn [cum_strat strat] in A5. unfold cstrat_at, prob. rewrite sigma_at_row.
    apply A5. rewrite L3. exact Ha.
  Qed.

  Lemma init_zero pl i a :
    nth a (cum_regret (@ri_get RNum (@init_state RNum g) pl i)) 0 = 0 /\
    nth a (cum_strat (@ri_get RNum (@init_state RNum g) pl i)) 0 = 0.
  Proof.
    unfold ri_get, init_state, ps_get.
    assert (H : forall (infos : list pinfo),
               let ri := nth i (map (fun pi => @rinfo_new RNum (length (pi_actions pi))) infos)
                             (@mkRinfo RNum [] [] []) in
               nth a (cum_regret ri) 0 = 0 /\ nth a (cum_strat ri) 0 = 0).
    { intros infos. cbv zeta. destruct (Nat.lt_ge_cases i (length infos)) as [Hi|Hi].
      - rewrite (nth_indep _ _ (@rinfo_new RNum (length (pi_actions (mkPinfo 0%N [] None)))))
          by (now rewrite map_length).
        rewrite (map_nth (fun pi => @rinfo_new RNum (length (pi_actions pi)))).
        unfold rinfo_new. cbn [cum_regret cum_strat zero RNum]. split; apply nth_repeatT_zero.
      - rewrite (nth_overflow (map _ infos)) by (now rewrite map_length). cbn [cum_regret cum_strat].
        split; apply nth_nil_R. }
    destruct pl; cbn [fst snd]; apply H.
  Qed.

  (** the cumulative regret is the sum of the per-iteration increments *)
  Theorem regret_at_sum T pl i a :
    (i < ninfos g pl)%nat -> (a < arity g pl i)%nat ->
    regret_at T pl i a = Rsumn T (fun t => reg_delta (incs_at t) pl i a).
  Proof.
    intros Hi Ha. induction T as [|T IH].
    - unfold regret_at. cbn [state_at]. rewrite Rsumn_0. apply init_zero.
    - rewrite regret_at_S, Rsumn_S_last, IH by assumption. reflexivity.
  Qed.

  (** the cumulative strategy is the sum of (own reach weight) times the strategy *)
  Theorem cstrat_at_sum T pl i a :
    (i < ninfos g pl)%nat -> (a < arity g pl i)%nat ->
    cstrat_at T pl i a =
    Rsumn T (fun t => strat_delta (incs_at t) pl i * prob (sigma_at (S t) pl) i a).
  Proof.
    intros Hi Ha. induction T as [|T IH].
    - unfold cstrat_at. cbn [state_at]. rewrite Rsumn_0. apply init_zero.
    - rewrite cstrat_at_S, Rsumn_S_last, IH by assumption. reflexivity.
  Qed.

  (** the bound of player [pl] after iteration [T]: the model's formula *)
  Definition bound_pl (T : nat) (pl : bool) : R :=
    if pl then fst (bounds_at T) else snd (bounds_at T).

  Lemma bound_pl_eq T pl :
    (1 <= T)%nat ->
    bound_pl T pl =
    Rsumn (ninfos g pl)
          (fun i => 2 * Rmax (Rmaxl (cum_regret (@ri_get RNum (state_at T) pl i))) 0 / INR T).
  Proof.
    intros HT. destruct T as [|k]; [lia|]. unfold bound_pl. rewrite bounds_at_S.
    rewrite <- (state_at_len (S k) pl).
    destruct pl; cbn [fst snd ps_get];
      rewrite (Rsum_map_nth _ _ (@mkRinfo RNum [] [] [])); apply Rsumn_ext; intros i _;
      unfold info_bound, ri_get, ps_get; cbn [fst snd]; rewrite Nat2N.id; reflexivity.
  Qed.

  (** [T * b_pl / 2] dominates every selection of one cumulative regret per infoset,
      weighted by anything in [0, 1] *)
  Lemma bound_pl_dominates T pl (c : nat -> R) (s : nat -> nat) :
    (1 <= T)%nat ->
    (forall i, (i < ninfos g pl)%nat -> 0 <= c i <= 1 /\ (s i < arity g pl i)%nat) ->
    Rsumn (ninfos g pl) (fun i => c i * regret_at T pl i (s i)) <= INR T * bound_pl T pl / 2.
  Proof.
    intros HT Hc. rewrite bound_pl_eq by assumption.
    assert (HTpos : 0 < INR T) by (apply lt_0_INR; lia).
    unfold Rdiv. rewrite Rmult_assoc, (Rmult_comm (Rsumn _ _)), <- Rmult_assoc.
    rewrite <- Rsumn_scal. apply Rsumn_le. intros i Hi.
    destruct (Hc i Hi) as [Hci Hsi].
    destruct (state_at_RInvA T pl i Hi) as (_ & _ & L1 & _ & _).
    rewrite <- L1 in Hsi.
    pose proof (Rmaxl_ge (cum_regret (@ri_get RNum (state_at T) pl i)) (s i) Hsi) as Hm.
    unfold regret_at. tR.
    set (M := Rmaxl _) in *. set (r := nth (s i) _ 0) in *.
    pose proof (Rmax_l M 0). pose proof (Rmax_r M 0).
    replace (INR T * / 2 * (2 * Rmax M 0 * / INR T)) with (Rmax M 0) by (field; lra).
    destruct (Rle_lt_dec 0 r) as [Hr|Hr].
    - assert (c i * r <= 1 * r) by (apply Rmult_le_compat_r; lra). lra.
    - assert (0 <= c i * (- r)) by (apply Rmult_le_pos; lra). lra.
  Qed.
End Traj.

(** ** Pure strategies: tables of one-hot rows and their selector *)
Definition IsPure (g : game) (me : bool) (S : list (list R)) (s : nat -> nat) : Prop :=
  forall i, (i < ninfos g me)%nat ->
            rowR S i = onehot (s i) (arity g me i) /\ (s i < arity g me i)%nat.

Fixpoint find_one (r : list R) : nat :=
  match r with
  | [] => 0%nat
  | x :: r' => if Reqb x 1 then 0%nat else S (find_one r')
  end.

Lemma find_one_onehot a n : (a < n)%nat -> find_one (onehot a n) = a.
Proof.
  revert a; induction n as [|n IH]; intros a Ha; [lia|].
  destruct a as [|a]; cbn [onehot find_one].
  - assert (E : Reqb 1 1 = true) by (now apply Reqb_true). now rewrite E.
  - assert (E : Reqb 0 1 = false) by (apply Reqb_false; lra). rewrite E. f_equal. apply IH; lia.
Qed.

Lemma nth_repeat_zero n b : nth b (repeat 0 n) 0 = 0.
Proof. revert b; induction n as [|n IH]; intros [|b]; cbn [repeat nth]; auto. Qed.

Lemma nth_onehot a n b :
  (a < n)%nat -> nth b (onehot a n) 0 = if Nat.eqb b a then 1 else 0.
Proof.
  revert a b; induction n as [|n IH]; intros a b Ha; [lia|].
  destruct a as [|a], b as [|b]; cbn [onehot nth Nat.eqb]; try reflexivity.
  - apply nth_repeat_zero.
  - apply IH; lia.
Qed.

Lemma onehot_length a n : length (onehot a n) = n.
Proof.
  revert a; induction n as [|n IH]; intros a; [reflexivity|].
  destruct a; cbn [onehot length]; [now rewrite repeat_length|now rewrite IH].
Qed.

Lemma PureOf_IsPure (g : game) me S :
  PureOf g me S -> IsPure g me S (fun i => find_one (rowR S i)).
Proof.
  intros [Hlen Hrows] i Hi. unfold ninfos in Hi. rewrite <- arities_length, <- Hlen, map_length in Hi.
  assert (Hin : In (rowR S i) S) by (unfold rowR; now apply nth_In).
  rewrite Forall_forall in Hrows. destruct (Hrows _ Hin) as (a & Ha & Hr).
  assert (Har : length (rowR S i) = arity g me i).
  { unfold arity. rewrite <- Hlen. unfold rowR.
    change 0%nat with (@length R []). now rewrite (map_nth (@length R)). }
  rewrite Har in *. cbv beta. rewrite Hr. rewrite find_one_onehot by assumption. auto.
Qed.

Definition pure_tbl (g : game) (me : bool) (s : nat -> nat) : list (list R) :=
  map (fun i => onehot (s i) (arity g me i)) (seq 0 (ninfos g me)).

Lemma pure_tbl_IsPure (g : game) me s :
  (forall i, (i < ninfos g me)%nat -> (s i < arity g me i)%nat) -> IsPure g me (pure_tbl g me s) s.
Proof.
  intros Hs i Hi. split; [|now apply Hs]. unfold pure_tbl, rowR.
  rewrite (nth_indep _ _ ((fun i => onehot (s i) (arity g me i)) 0%nat))
    by (now rewrite map_length, seq_length).
  rewrite (map_nth (fun i => onehot (s i) (arity g me i))), seq_nth by assumption. reflexivity.
Qed.

Lemma WFgame_arities_pos (g : game) : @WFgame RNum g -> arities_pos g.
Proof.
  intros (_ & (_ & W1) & (_ & W2) & _) pl. unfold arities.
  destruct pl; cbn [g_infos]; apply Forall_forall; intros a Ha;
    apply in_map_iff in Ha as (pi & <- & Hpi); rewrite Forall_forall in W1, W2;
    [destruct (W1 _ Hpi)|destruct (W2 _ Hpi)]; lia.
Qed.
