(** * ParallelProofs: the multi-threaded vanilla / chance-sampled solver computes the
    same state, bounds and iteration count as the single-threaded one, for every
    schedule of the atomic increments (property C06).

    - [vrec_cached_prune]: the cached traversal is the plain traversal of the tree in
      which every cached node is replaced by a terminal carrying the cached payoff;
    - [cut_lemma]: for *any* antichain [F] of nodes of the (sampled) tree with the
      reaches the root traversal carries to them, the cached traversal returns the
      root value, and its increments together with the increments of the tasks of
      [F] are a permutation of the increments of the full traversal;
    - [frontier_ok]: [thread_threshold] returns such an antichain (any target, any fuel);
    - [multi_iter_eq_single], [solve_multi_eq_single];
    - complements: [vrec_cached_nil] (a task, i.e. the traversal with the empty cache,
      is [vrec]), [regall_cells] ([IRegAll] is a sequence of per-cell [IReg]s, so the
      per-cell [fetch_sub]s may interleave with other threads as well),
      [frontier_fuel_enough] (the fuel of [frontier] never runs out).

    Everything is about the real-number instance [RNum]. *)
From Coq Require Import Reals List Lra Lia Bool Arith NArith Permutation FunctionalExtensionality.
From Cfr.theories Require Import Num RInst Tree Strat Eval Solve SolveValidProofs Incr VanillaMulti.
Import ListNotations.
Local Open Scope nat_scope.

Local Notation nodeR := (@node RNum).
Local Notation pstateR := (@pstate RNum).
Local Notation incrR := (@incr RNum).
Local Notation taskR := (@task RNum).
Local Notation fentryR := (@fentry RNum).

(** ** Paths, caches keyed by paths *)
Lemma path_eqb_spec p q : reflect (p = q) (path_eqb p q).
Proof.
  revert q; induction p as [|a p IH]; intros q; destruct q as [|b q]; cbn [path_eqb];
    try (constructor; congruence).
  destruct (Nat.eqb_spec a b) as [->|Hne]; cbn [andb].
  - destruct (IH q) as [->|Hne]; constructor; congruence.
  - constructor; congruence.
Qed.

Lemma path_eqb_refl p : path_eqb p p = true.
Proof. destruct (path_eqb_spec p p); congruence. Qed.

Section RelCache.
  Context {A : Type}.

  (** the entries below child 0, made relative to it *)
  Fixpoint strip0 (l : list (path * A)) : list (path * A) :=
    match l with
    | [] => []
    | (p, v) :: r => match p with
                     | O :: q => (q, v) :: strip0 r
                     | _ => strip0 r
                     end
    end.

  (** the entries below the other children, child [S k] renamed [k] *)
  Fixpoint dec (l : list (path * A)) : list (path * A) :=
    match l with
    | [] => []
    | (p, v) :: r => match p with
                     | S k :: q => (k :: q, v) :: dec r
                     | _ => dec r
                     end
    end.

  Lemma lookup_strip0 q l : lookup q (strip0 l) = lookup (O :: q) l.
  Proof.
    induction l as [|[p v] r IH]; [reflexivity|].
    destruct p as [|[|k] q']; cbn [strip0 lookup path_eqb Nat.eqb andb]; try exact IH.
    destruct (path_eqb q q'); [reflexivity|exact IH].
  Qed.

  Lemma lookup_dec k q l : lookup (k :: q) (dec l) = lookup (S k :: q) l.
  Proof.
    induction l as [|[p v] r IH]; [reflexivity|].
    destruct p as [|[|k'] q']; cbn [dec lookup path_eqb Nat.eqb andb]; try exact IH.
    destruct (Nat.eqb k k' && path_eqb q q'); [reflexivity|exact IH].
  Qed.
End RelCache.

(** mapping the payloads *)
Definition pmap {A B} (f : A -> B) (l : list (path * A)) : list (path * B) :=
  map (fun e => (fst e, f (snd e))) l.

Lemma strip0_pmap {A B} (f : A -> B) l : strip0 (pmap f l) = pmap f (strip0 l).
Proof.
  induction l as [|[p v] r IH]; [reflexivity|].
  unfold pmap in *. destruct p as [|[|k] q]; cbn [map strip0 fst snd]; try exact IH.
  now rewrite IH.
Qed.

Lemma dec_pmap {A B} (f : A -> B) l : dec (pmap f l) = pmap f (dec l).
Proof.
  induction l as [|[p v] r IH]; [reflexivity|].
  unfold pmap in *. destruct p as [|[|k] q]; cbn [map dec fst snd]; try exact IH.
  now rewrite IH.
Qed.

(** ** Pruning: the cached nodes become terminals *)
Section Prune.
  Context {NN : Num}.
  Local Notation T := (T NN).
  Local Notation node := (@node NN).

  Definition prune_kids (rec : list (path * T) -> node -> node) :=
    fix pk (rc : list (path * T)) (ks : list node) {struct ks} : list node :=
      match ks with
      | [] => []
      | c :: r => rec (strip0 rc) c :: pk (dec rc) r
      end.

  (** [rc]: the cache, with paths relative to [n] *)
  Fixpoint prune (rc : list (path * T)) (n : node) {struct n} : node :=
    match lookup [] rc with
    | Some v => Term v
    | None =>
        match n with
        | Term x => Term x
        | Chance ci kids => Chance ci (prune_kids prune rc kids)
        | Player pl i kids => Player pl i (prune_kids prune rc kids)
        end
    end.

  Lemma prune_eq rc n :
    prune rc n =
    match lookup [] rc with
    | Some v => Term v
    | None =>
        match n with
        | Term x => Term x
        | Chance ci kids => Chance ci (prune_kids prune rc kids)
        | Player pl i kids => Player pl i (prune_kids prune rc kids)
        end
    end.
  Proof. destruct n; reflexivity. Qed.
End Prune.

Local Open Scope R_scope.
Local Notation pruneR := (@prune RNum).
Local Notation prune_kidsR := (@prune_kids RNum).

(** ** The cached traversal is the traversal of the pruned tree *)
Section CachedPrune.
  Context (chance : list (list R)) (sampled : bool) (draw : @oracle RNum) (pass : N).
  Context (cache : list (path * R)).

  Local Notation vrecR := (@vrec RNum chance sampled draw pass).
  Local Notation vrec_cachedR := (@vrec_cached RNum chance sampled draw pass cache).

  Lemma vrec_cached_eq p n pc p1 p2 st :
    vrec_cachedR p n pc p1 p2 st =
    match lookup p cache with
    | Some pay => (pay, st)
    | None =>
        match n with
        | Term x => (x, st)
        | Chance ci kids =>
            if sampled then
              let ind := draw true ci pass (@row RNum chance ci) in
              cpick (fun j c => vrec_cachedR (p ++ [j]) c) pc p1 p2 st ind kids ind
            else
              cgo_chance (fun j c => vrec_cachedR (p ++ [j]) c) pc p1 p2
                         (@row RNum chance ci) kids O 0 st
        | Player pl i kids =>
            let ri := @ri_get RNum st pl i in
            let mine := if pl then p1 else p2 in
            let cs := map (fun vc : R * R => snd vc + mine * fst vc)
                          (combine (strat ri) (cum_strat ri)) in
            let st0 := @ri_set RNum st pl i (@mkRinfo RNum (cum_regret ri) cs (strat ri)) in
            let mult := if pl then pc * p2 else (- p1) * pc in
            let '(e1, e, st2) :=
              cgo_player (fun j c => vrec_cachedR (p ++ [j]) c) pl i pc p1 p2 mult
                         kids (strat ri) O 0 0 st0 in
            let ri2 := @ri_get RNum st2 pl i in
            (e1, @ri_set RNum st2 pl i (@mkRinfo RNum (map (fun v => v - e) (cum_regret ri2))
                                                (cum_strat ri2) (strat ri2)))
        end
    end.
  Proof. destruct n; reflexivity. Qed.

  (** [rc] is the part of the cache below [p], relative to [p] *)
  Definition BR (c : nodeR) : Prop :=
    forall p rc pc p1 p2 st,
      (forall q, lookup (p ++ q) cache = lookup q rc) ->
      vrec_cachedR p c pc p1 p2 st = vrecR (pruneR rc c) pc p1 p2 st.

  Lemma cpick_prune p pc p1 p2 st ind ks :
    Forall BR ks -> forall k rc,
    (forall q, lookup (p ++ ind :: q) cache = lookup (k :: q) rc) ->
    cpick (fun j c => vrec_cachedR (p ++ [j]) c) pc p1 p2 st ind ks k =
    vpick vrecR pc p1 p2 st (prune_kidsR pruneR rc ks) k.
  Proof.
    induction 1 as [|c ks Hc HK IH]; intros k rc H; cbn [cpick prune_kids vpick]; [reflexivity|].
    destruct k as [|k].
    - rewrite (Hc (p ++ [ind]) (strip0 rc)); [reflexivity|].
      intros q. rewrite <- app_assoc. cbn [app]. rewrite H. symmetry. apply lookup_strip0.
    - apply IH. intros q. rewrite H. symmetry. apply lookup_dec.
  Qed.

  Lemma cgo_chance_prune p pc p1 p2 ks :
    Forall BR ks -> forall ps j rc ex st,
    (forall k q, lookup (p ++ (j + k)%nat :: q) cache = lookup (k :: q) rc) ->
    cgo_chance (fun j c => vrec_cachedR (p ++ [j]) c) pc p1 p2 ps ks j ex st =
    vgo_chance vrecR pc p1 p2 ps (prune_kidsR pruneR rc ks) ex st.
  Proof.
    induction 1 as [|c ks Hc HK IH]; intros ps j rc ex st H; destruct ps as [|pr ps];
      cbn [cgo_chance prune_kids vgo_chance]; try reflexivity.
    rewrite (Hc (p ++ [j]) (strip0 rc)).
    - change (mul RNum pc pr) with (pc * pr).
      destruct (vrecR _ (pc * pr) p1 p2 st) as [pay st']. apply IH.
      intros k q. replace (S j + k)%nat with (j + S k)%nat by lia. rewrite H.
      symmetry. apply lookup_dec.
    - intros q. rewrite <- app_assoc. cbn [app]. specialize (H O q).
      rewrite Nat.add_0_r in H. rewrite H. symmetry. apply lookup_strip0.
  Qed.

  Lemma cgo_player_prune p pl i pc p1 p2 mult ks :
    Forall BR ks -> forall ss ai rc e1 e st,
    (forall k q, lookup (p ++ (ai + k)%nat :: q) cache = lookup (k :: q) rc) ->
    cgo_player (fun j c => vrec_cachedR (p ++ [j]) c) pl i pc p1 p2 mult ks ss ai e1 e st =
    vgo_player vrecR pl i pc p1 p2 mult (prune_kidsR pruneR rc ks) ss ai e1 e st.
  Proof.
    induction 1 as [|c ks Hc HK IH]; intros ss ai rc e1 e st H; destruct ss as [|prob ss];
      cbn [cgo_player prune_kids vgo_player]; try reflexivity.
    assert (Hb : forall q, lookup ((p ++ [ai]) ++ q) cache = lookup q (strip0 rc)).
    { intros q. rewrite <- app_assoc. cbn [app]. specialize (H O q).
      rewrite Nat.add_0_r in H. rewrite H. symmetry. apply lookup_strip0. }
    assert (Hd : forall k q, lookup (p ++ (S ai + k)%nat :: q) cache = lookup (k :: q) (dec rc)).
    { intros k q. replace (S ai + k)%nat with (ai + S k)%nat by lia. rewrite H.
      symmetry. apply lookup_dec. }
    change (mul RNum) with Rmult. change (add RNum) with Rplus. change (zero RNum) with 0.
    change (Num.T RNum) with R in *.
    destruct pl; cbv beta iota zeta; rewrite (Hc (p ++ [ai]) (strip0 rc)) by exact Hb;
      destruct (vrecR (pruneR (strip0 rc) c) _ _ _ st) as [u st']; apply IH; exact Hd.
  Qed.

End CachedPrune.

Theorem vrec_cached_prune chance sampled draw pass cache n :
  BR chance sampled draw pass cache n.
Proof.
  induction n as [x|ci kids IH|pl i kids IH] using node_ind'; intros p rc pc p1 p2 st H;
    rewrite vrec_cached_eq, prune_eq; pose proof (H []) as H0; rewrite app_nil_r in H0;
    change (Num.T RNum) with R in *;
    rewrite H0; destruct (lookup [] rc) as [v|]; try reflexivity.
  - rewrite vrec_Chance. cbv zeta. destruct sampled.
    + apply cpick_prune; [exact IH|]. intros q. apply H.
    + apply cgo_chance_prune; [exact IH|]. intros k q. apply H.
  - rewrite vrec_Player. cbv zeta.
    rewrite (cgo_player_prune chance sampled draw pass cache p pl i pc p1 p2 _ kids IH _ O rc);
      [reflexivity|].
    intros k q. apply H.
Qed.

(** ** Prefix order on paths, antichains *)
Definition prefix (p q : path) : Prop := exists r, q = (p ++ r)%list.
Definition incomparable (p q : path) : Prop := ~ prefix p q /\ ~ prefix q p.
Definition antichain {A} (F : list (path * A)) : Prop :=
  ForallOrdPairs (fun e e' => incomparable (fst e) (fst e')) F.

Lemma prefix_nil p : prefix [] p.
Proof. exists p. reflexivity. Qed.

Lemma prefix_refl p : prefix p p.
Proof. exists []. now rewrite app_nil_r. Qed.

Lemma prefix_cons k p q : prefix p q -> prefix (k :: p) (k :: q).
Proof. intros [r ->]. exists r. reflexivity. Qed.

Lemma incomparable_sym p q : incomparable p q -> incomparable q p.
Proof. unfold incomparable; tauto. Qed.

Lemma incomparable_tail k p q : incomparable (k :: p) (k :: q) -> incomparable p q.
Proof. intros [H1 H2]. split; intros H; [apply H1|apply H2]; now apply prefix_cons. Qed.

Lemma incomparable_dec_heads k k' p q :
  incomparable (S k :: p) (S k' :: q) -> incomparable (k :: p) (k' :: q).
Proof.
  intros [H1 H2]. split; intros [r Hr]; [apply H1|apply H2]; cbn [app] in Hr;
    injection Hr as -> ->; exists r; reflexivity.
Qed.

Lemma FOP_perm {A} (Q : A -> A -> Prop) l l' :
  (forall x y, Q x y -> Q y x) -> Permutation l l' ->
  ForallOrdPairs Q l -> ForallOrdPairs Q l'.
Proof.
  intros Hs H. induction H as [|x l l' H IH|x y l|l l' l'' H1 IH1 H2 IH2]; intros HF.
  - exact HF.
  - inversion HF as [|? ? Hx Hl]; subst. constructor; [|auto].
    eapply Permutation_Forall; eauto.
  - inversion HF as [|? ? Hy Hl]; subst. inversion Hl as [|? ? Hx Hl']; subst.
    inversion Hy as [|? ? Hyx Hy']; subst.
    constructor; [constructor; auto|constructor; auto].
  - auto.
Qed.

Lemma FOP_app {A} (Q : A -> A -> Prop) l1 l2 :
  ForallOrdPairs Q l1 -> ForallOrdPairs Q l2 ->
  (forall x y, In x l1 -> In y l2 -> Q x y) -> ForallOrdPairs Q (l1 ++ l2).
Proof.
  intros H1 H2 Hc. induction H1 as [|x l1 Hx H1 IH]; [exact H2|].
  cbn [app]. constructor.
  - apply Forall_app. split; [exact Hx|].
    apply Forall_forall. intros y Hy. apply Hc; [now left|exact Hy].
  - apply IH. intros a b Ha Hb. apply Hc; [now right|exact Hb].
Qed.

Lemma FOP_app_inv {A} (Q : A -> A -> Prop) l1 l2 :
  ForallOrdPairs Q (l1 ++ l2) -> ForallOrdPairs Q l1 /\ ForallOrdPairs Q l2.
Proof.
  induction l1 as [|x l1 IH]; cbn [app]; intros H; [split; [constructor|exact H]|].
  inversion H as [|? ? Hx Hl]; subst. apply IH in Hl as [Ha Hb].
  apply Forall_app in Hx as [Hx _]. split; [constructor; assumption|assumption].
Qed.

(** stripping keeps antichains *)
Lemma strip0_incomp {A} q (r : list (path * A)) :
  Forall (fun e => incomparable (O :: q) (fst e)) r ->
  Forall (fun e => incomparable q (fst e)) (strip0 r).
Proof.
  induction 1 as [|[p v] r Hx Hr IH]; [constructor|].
  destruct p as [|[|k] p]; cbn [strip0]; try exact IH.
  constructor; [|exact IH]. cbn [fst] in *. eapply incomparable_tail; eauto.
Qed.

Lemma antichain_strip0 {A} (F : list (path * A)) : antichain F -> antichain (strip0 F).
Proof.
  induction 1 as [|[p v] r Hx Hr IH]; [constructor|].
  destruct p as [|[|k] p]; cbn [strip0]; try exact IH.
  constructor; [|exact IH]. apply (strip0_incomp p r). exact Hx.
Qed.

Lemma dec_incomp {A} k q (r : list (path * A)) :
  Forall (fun e => incomparable (S k :: q) (fst e)) r ->
  Forall (fun e => incomparable (k :: q) (fst e)) (dec r).
Proof.
  induction 1 as [|[p v] r Hx Hr IH]; [constructor|].
  destruct p as [|[|k'] p]; cbn [dec]; try exact IH.
  constructor; [|exact IH]. cbn [fst] in *. now apply incomparable_dec_heads.
Qed.

Lemma antichain_dec {A} (F : list (path * A)) : antichain F -> antichain (dec F).
Proof.
  induction 1 as [|[p v] r Hx Hr IH]; [constructor|].
  destruct p as [|[|k] p]; cbn [dec]; try exact IH.
  constructor; [|exact IH]. apply (dec_incomp k p r). exact Hx.
Qed.

(** an antichain containing the empty path is a singleton *)
Lemma antichain_nil_single {A} (F : list (path * A)) v :
  antichain F -> In ([], v) F -> F = [([], v)].
Proof.
  intros HF Hin. destruct HF as [|[p w] r Hx Hr]; [contradiction|].
  destruct Hin as [E|Hin].
  - inversion E; subst. destruct r as [|[q u] r]; [reflexivity|].
    inversion Hx as [|? ? [H1 _] _]; subst. exfalso. apply H1. apply prefix_nil.
  - exfalso. rewrite Forall_forall in Hx. destruct (Hx _ Hin) as [_ H2].
    apply H2. apply prefix_nil.
Qed.

Lemma lookup_nil_Some {A} (l : list (path * A)) v : lookup [] l = Some v -> In ([], v) l.
Proof.
  induction l as [|[p w] r IH]; cbn [lookup]; [discriminate|].
  destruct p as [|k p]; cbn [path_eqb].
  - intros E; injection E as ->. now left.
  - intros E. right. auto.
Qed.

Lemma lookup_nil_None {A} (l : list (path * A)) :
  lookup [] l = None -> Forall (fun e => fst e <> []) l.
Proof.
  induction l as [|[p w] r IH]; cbn [lookup]; [constructor|].
  destruct p as [|k p]; cbn [path_eqb]; [discriminate|].
  intros E. constructor; [cbn [fst]; discriminate|auto].
Qed.

Lemma In_pmap {A B} (f : A -> B) (l : list (path * A)) p w :
  In (p, w) (pmap f l) -> exists v, In (p, v) l /\ w = f v.
Proof.
  unfold pmap. intros H. apply in_map_iff in H as ([q v] & E & Hin). cbn [fst snd] in E.
  inversion E; subst. eauto.
Qed.

Lemma pmap_fst_ne {A B} (f : A -> B) (l : list (path * A)) :
  Forall (fun e => fst e <> []) (pmap f l) -> Forall (fun e => fst e <> []) l.
Proof.
  unfold pmap. intros H. rewrite Forall_map in H. exact H.
Qed.

(** ** The (sampled) tree seen from a node with reaches: children and descendants *)
Definition tnode (t : taskR) : nodeR := fst (fst (fst t)).

Section Cut.
  Context (chance : list (list R)) (sampled : bool) (draw : @oracle RNum) (pass : N).
  Context (sg : bool -> nat -> list R).

  Local Notation vvalR := (@vval RNum chance sampled draw pass sg).
  Local Notation vincsR := (@vincs RNum chance sampled draw pass sg).

  (** the child [k] the traversal visits from [t], with the reaches it carries there *)
  Definition child (t : taskR) (k : nat) : option taskR :=
    let '(n, pc, p1, p2) := t in
    match n with
    | Term _ => None
    | Chance ci kids =>
        if sampled then
          if Nat.eqb k (draw true ci pass (@row RNum chance ci))
          then match nth_error kids k with
               | Some c => Some (c, pc * 1, p1, p2)
               | None => None
               end
          else None
        else match nth_error kids k, nth_error (@row RNum chance ci) k with
             | Some c, Some pr => Some (c, pc * pr, p1, p2)
             | _, _ => None
             end
    | Player pl i kids =>
        match nth_error kids k, nth_error (sg pl i) k with
        | Some c, Some pr => Some (c, pc, if pl then p1 * pr else p1, if pl then p2 else p2 * pr)
        | _, _ => None
        end
    end.

  (** [Sub t p t']: following the path [p] from [t] arrives at [t'] *)
  Fixpoint Sub (t : taskR) (p : path) (t' : taskR) : Prop :=
    match p with
    | [] => t' = t
    | k :: q => exists tc, child t k = Some tc /\ Sub tc q t'
    end.

  (** an antichain of descendants of [t] with the right reaches *)
  Definition good_frontier (t : taskR) (F : list fentryR) : Prop :=
    antichain F /\ Forall (fun e => Sub t (fst e) (snd e)) F.

  Definition tincs (t : taskR) : list incrR :=
    let '(n, pc, p1, p2) := t in vincsR n pc p1 p2.
  Definition tasks (F : list fentryR) : list incrR := concat (map (fun e => tincs (snd e)) F).
  Definition rcache (F : list fentryR) : list (path * R) := pmap (fun t => vvalR (tnode t)) F.

  (** entries strictly below a node whose children are given by [chf] *)
  Definition HF (chf : nat -> option taskR) (F : list fentryR) : Prop :=
    Forall (fun e => match fst e with
                     | [] => False
                     | k :: q => exists tc, chf k = Some tc /\ Sub tc q (snd e)
                     end) F.

  Lemma HF_ext chf chf' F : (forall k, chf k = chf' k) -> HF chf F -> HF chf' F.
  Proof.
    intros E H. unfold HF in *. eapply Forall_impl; [|exact H].
    intros [p t]; cbn [fst snd]. destruct p as [|k q]; [tauto|]. now rewrite E.
  Qed.

  Lemma HF_none chf F : (forall k, chf k = None) -> HF chf F -> F = [].
  Proof.
    intros E H. destruct H as [|[p t] r Hx _]; [reflexivity|]. exfalso.
    cbn [fst snd] in Hx. destruct p as [|k q]; [exact Hx|].
    destruct Hx as (tc & Hc & _). rewrite E in Hc. discriminate.
  Qed.

  Lemma HF_ne chf F : HF chf F -> Forall (fun e => fst e <> []) F.
  Proof.
    intros H. eapply Forall_impl; [|exact H]. intros [p t]; cbn [fst snd].
    destruct p; [tauto|discriminate].
  Qed.

  Lemma HF_strip0 chf F tc :
    HF chf F -> chf O = Some tc -> Forall (fun e => Sub tc (fst e) (snd e)) (strip0 F).
  Proof.
    intros H E. induction H as [|[p t] r Hx Hr IH]; [constructor|].
    destruct p as [|[|k] q]; cbn [strip0]; try exact IH.
    constructor; [|exact IH]. cbn [fst snd] in *. destruct Hx as (tc' & Hc & Hs).
    rewrite E in Hc. now injection Hc as <-.
  Qed.

  Lemma HF_strip0_none chf F : HF chf F -> chf O = None -> strip0 F = [].
  Proof.
    intros H E. induction H as [|[p t] r Hx Hr IH]; [reflexivity|].
    destruct p as [|[|k] q]; cbn [strip0]; try exact IH.
    exfalso. cbn [fst snd] in Hx. destruct Hx as (tc' & Hc & _). rewrite E in Hc. discriminate.
  Qed.

  Lemma HF_dec chf F : HF chf F -> HF (fun k => chf (S k)) (dec F).
  Proof.
    intros H. induction H as [|[p t] r Hx Hr IH]; [constructor|].
    destruct p as [|[|k] q]; cbn [dec]; try exact IH.
    constructor; [|exact IH]. exact Hx.
  Qed.

  Lemma good_HF t F :
    good_frontier t F -> Forall (fun e => fst e <> []) F -> HF (child t) F.
  Proof.
    intros [_ HS] Hne. unfold HF. rewrite Forall_forall in *. intros [p t'] Hin.
    specialize (HS _ Hin). specialize (Hne _ Hin). cbn [fst snd] in *.
    destruct p as [|k q]; [congruence|]. exact HS.
  Qed.

  (** the tasks of a frontier split along the first step of the paths *)
  Lemma tasks_split F :
    Forall (fun e => fst e <> []) F ->
    Permutation (tasks F) (tasks (strip0 F) ++ tasks (dec F)).
  Proof.
    unfold tasks. induction 1 as [|[p t] r Hx Hr IH]; [constructor|].
    destruct p as [|[|k] q]; cbn [fst snd strip0 dec map concat] in *; [congruence| |].
    - rewrite <- app_assoc. now apply Permutation_app_head.
    - etransitivity; [apply Permutation_app_head; exact IH|]. apply Permutation_app_swap_app.
  Qed.

  Lemma rcache_strip0 F : strip0 (rcache F) = rcache (strip0 F).
  Proof. apply strip0_pmap. Qed.
  Lemma rcache_dec F : dec (rcache F) = rcache (dec F).
  Proof. apply dec_pmap. Qed.

  Lemma perm_join (a t0 a' b t1 b' t : list incrR) :
    Permutation (a ++ t0) a' -> Permutation (b ++ t1) b' -> Permutation t (t0 ++ t1) ->
    Permutation ((a ++ b) ++ t) (a' ++ b').
  Proof.
    intros Ha Hb Ht.
    etransitivity; [apply Permutation_app_head; exact Ht|].
    rewrite <- app_assoc.
    etransitivity; [|apply Permutation_app; [exact Ha|exact Hb]].
    rewrite <- app_assoc. apply Permutation_app_head. apply Permutation_app_swap_app.
  Qed.

  (** the statement proved by induction on the tree *)
  Definition CutP (n : nodeR) : Prop :=
    forall pc p1 p2 F,
      good_frontier (n, pc, p1, p2) F ->
      vvalR (pruneR (rcache F) n) = vvalR n /\
      Permutation (vincsR (pruneR (rcache F) n) pc p1 p2 ++ tasks F) (vincsR n pc p1 p2).

  (** *** sampled chance node *)
  Definition chf_pick (pc p1 p2 : R) (ks : list nodeR) (ind : nat) : nat -> option taskR :=
    fun k => if Nat.eqb k ind
             then match nth_error ks k with
                  | Some c => Some (c, pc * 1, p1, p2)
                  | None => None
                  end
             else None.

  Lemma pick_cut pc p1 p2 ks :
    Forall CutP ks -> forall ind F,
    antichain F -> HF (chf_pick pc p1 p2 ks ind) F ->
    val_pick vvalR (prune_kidsR pruneR (rcache F) ks) ind = val_pick vvalR ks ind /\
    Permutation (incs_pick vincsR pc p1 p2 (prune_kidsR pruneR (rcache F) ks) ind ++ tasks F)
                (incs_pick vincsR pc p1 p2 ks ind).
  Proof.
    induction 1 as [|c ks Hc HK IH]; intros ind F HA H.
    - assert (F = []) as ->.
      { eapply HF_none; [|exact H]. intros k. unfold chf_pick.
        destruct (Nat.eqb k ind); [|reflexivity]. now destruct k. }
      split; [reflexivity|constructor].
    - cbn [prune_kids val_pick incs_pick]. destruct ind as [|ind].
      + assert (Hd : dec F = []).
        { eapply HF_none; [|apply HF_dec; exact H]. intros k. reflexivity. }
        destruct (Hc (pc * 1) p1 p2 (strip0 F)) as [Hv Hp].
        { split; [now apply antichain_strip0|]. eapply HF_strip0; [exact H|reflexivity]. }
        rewrite rcache_strip0. split; [now rewrite Hv|].
        etransitivity; [apply Permutation_app_head; apply tasks_split; eapply HF_ne; exact H|].
        rewrite Hd. cbn [tasks map concat]. rewrite app_nil_r. exact Hp.
      + assert (Hs : strip0 F = []).
        { eapply HF_strip0_none; [exact H|reflexivity]. }
        destruct (IH ind (dec F)) as [Hv Hp].
        { now apply antichain_dec. }
        { eapply HF_ext; [|apply HF_dec; exact H]. intros k. reflexivity. }
        rewrite rcache_dec. split; [exact Hv|].
        etransitivity; [apply Permutation_app_head; apply tasks_split; eapply HF_ne; exact H|].
        rewrite Hs. cbn [tasks map concat app]. exact Hp.
  Qed.

  (** *** unsampled chance node *)
  Definition chf_chance (pc p1 p2 : R) (ps : list R) (ks : list nodeR) : nat -> option taskR :=
    fun k => match nth_error ks k, nth_error ps k with
             | Some c, Some pr => Some (c, pc * pr, p1, p2)
             | _, _ => None
             end.

  Lemma chance_cut pc p1 p2 ks :
    Forall CutP ks -> forall ps F ex,
    antichain F -> HF (chf_chance pc p1 p2 ps ks) F ->
    val_chance vvalR ps (prune_kidsR pruneR (rcache F) ks) ex = val_chance vvalR ps ks ex /\
    Permutation (incs_chance vincsR pc p1 p2 ps (prune_kidsR pruneR (rcache F) ks) ++ tasks F)
                (incs_chance vincsR pc p1 p2 ps ks).
  Proof.
    induction 1 as [|c ks Hc HK IH]; intros ps F ex HA H.
    - assert (F = []) as ->.
      { eapply HF_none; [|exact H]. intros k. unfold chf_chance. now destruct k. }
      destruct ps; split; try reflexivity; constructor.
    - destruct ps as [|pr ps].
      + assert (F = []) as ->.
        { eapply HF_none; [|exact H]. intros k. unfold chf_chance.
          destruct (nth_error (c :: ks) k); [|reflexivity]. now destruct k. }
        split; [reflexivity|constructor].
      + cbn [prune_kids val_chance incs_chance].
        destruct (Hc (pc * pr) p1 p2 (strip0 F)) as [Hv Hp].
        { split; [now apply antichain_strip0|]. eapply HF_strip0; [exact H|reflexivity]. }
        destruct (IH ps (dec F) (add RNum ex (mul RNum pr (vvalR c)))) as [Hv' Hp'].
        { now apply antichain_dec. }
        { eapply HF_ext; [|apply HF_dec; exact H]. intros k. reflexivity. }
        rewrite rcache_strip0, rcache_dec. split; [rewrite Hv; exact Hv'|].
        eapply perm_join; [exact Hp|exact Hp'|]. apply tasks_split. eapply HF_ne; exact H.
  Qed.

  (** *** player node *)
  Definition chf_player (pl : bool) (pc p1 p2 : R) (ks : list nodeR) (ss : list R)
    : nat -> option taskR :=
    fun k => match nth_error ks k, nth_error ss k with
             | Some c, Some pr =>
                 Some (c, pc, if pl then p1 * pr else p1, if pl then p2 else p2 * pr)
             | _, _ => None
             end.

  Lemma player_cut pl i pc p1 p2 mult ks :
    Forall CutP ks -> forall ss F ai e1 e,
    antichain F -> HF (chf_player pl pc p1 p2 ks ss) F ->
    val_player vvalR (prune_kidsR pruneR (rcache F) ks) ss e1 = val_player vvalR ks ss e1 /\
    exp_player vvalR mult (prune_kidsR pruneR (rcache F) ks) ss e = exp_player vvalR mult ks ss e /\
    Permutation (incs_player vvalR vincsR pl i pc p1 p2 mult
                             (prune_kidsR pruneR (rcache F) ks) ss ai ++ tasks F)
                (incs_player vvalR vincsR pl i pc p1 p2 mult ks ss ai).
  Proof.
    induction 1 as [|c ks Hc HK IH]; intros ss F ai e1 e HA H.
    - assert (F = []) as ->.
      { eapply HF_none; [|exact H]. intros k. unfold chf_player. now destruct k. }
      split; [reflexivity|]. split; [reflexivity|constructor].
    - destruct ss as [|pr ss].
      + assert (F = []) as ->.
        { eapply HF_none; [|exact H]. intros k. unfold chf_player.
          destruct (nth_error (c :: ks) k); [|reflexivity]. now destruct k. }
        split; [reflexivity|]. split; [reflexivity|constructor].
      + cbn [prune_kids val_player exp_player incs_player].
        set (q1 := if pl then p1 * pr else p1). set (q2 := if pl then p2 else p2 * pr).
        destruct (Hc pc q1 q2 (strip0 F)) as [Hv Hp].
        { split; [now apply antichain_strip0|]. eapply HF_strip0; [exact H|reflexivity]. }
        destruct (IH ss (dec F) (S ai) (add RNum e1 (mul RNum pr (vvalR c)))
                     (add RNum e (mul RNum (mul RNum (vvalR c) mult) pr))) as (Hv1 & Hv2 & Hp').
        { now apply antichain_dec. }
        { eapply HF_ext; [|apply HF_dec; exact H]. intros k. reflexivity. }
        rewrite rcache_strip0, rcache_dec, Hv. split; [exact Hv1|]. split; [exact Hv2|].
        assert (Hsplit := tasks_split F (HF_ne _ _ H)).
        change (mul RNum) with Rmult.
        destruct pl; cbv beta iota zeta; (eapply perm_join; [exact Hp| |exact Hsplit]);
          cbn [app]; apply perm_skip; exact Hp'.
  Qed.
End Cut.

(** ** The cut lemma *)
Lemma cut_cached chance sampled draw pass sg n pc p1 p2 F v :
  good_frontier chance sampled draw pass sg (n, pc, p1, p2) F ->
  lookup [] (rcache chance sampled draw pass sg F) = Some v ->
  v = @vval RNum chance sampled draw pass sg n /\
  tasks chance sampled draw pass sg F = @vincs RNum chance sampled draw pass sg n pc p1 p2.
Proof.
  intros [HA HS] E. apply lookup_nil_Some in E. apply In_pmap in E as (t & Hin & ->).
  pose proof (antichain_nil_single F t HA Hin) as ->.
  inversion HS as [|? ? Ht _]; subst. cbn [fst snd Sub] in Ht. subst t.
  split; [reflexivity|]. unfold tasks. cbn [map concat snd tincs]. apply app_nil_r.
Qed.

(** relative form: [F] is an antichain of descendants of [n], paths relative to [n] *)
Theorem cut_rel chance sampled draw pass sg n : CutP chance sampled draw pass sg n.
Proof.
  induction n as [x|ci kids IH|pl i kids IH] using node_ind'; intros pc p1 p2 F HG;
    rewrite prune_eq; change (Num.T RNum) with R in *;
    (destruct (lookup [] (rcache chance sampled draw pass sg F)) as [v|] eqn:E;
     [destruct (cut_cached _ _ _ _ _ _ _ _ _ _ _ HG E) as [-> ->];
      split; [reflexivity|cbn [vincs app]; apply Permutation_refl]|]);
    apply lookup_nil_None in E; apply pmap_fst_ne in E;
    pose proof (good_HF _ _ _ _ _ _ _ HG E) as H; destruct HG as [HA _].
  - assert (F = []) as -> by (eapply HF_none; [|exact H]; reflexivity).
    split; [reflexivity|constructor].
  - cbn [vval vincs]. destruct sampled.
    + apply pick_cut; [exact IH|exact HA|].
      eapply HF_ext; [|exact H]. intros k. reflexivity.
    + apply chance_cut; [exact IH|exact HA|].
      eapply HF_ext; [|exact H]. intros k. reflexivity.
  - cbn [vval vincs].
    set (mult := if pl then mul RNum pc p2 else mul RNum (neg RNum p1) pc).
    destruct (player_cut chance sampled draw pass sg pl i pc p1 p2 mult kids IH
                (sg pl i) F O (zero RNum) (zero RNum) HA) as (Hv1 & Hv2 & Hp).
    { eapply HF_ext; [|exact H]. intros k. reflexivity. }
    split; [exact Hv1|]. rewrite Hv2. cbn [app]. apply perm_skip.
    rewrite <- app_assoc.
    etransitivity; [apply Permutation_app_head; apply Permutation_app_comm|].
    rewrite app_assoc. apply Permutation_app_tail. exact Hp.
Qed.

(** the model's [task_incs] / [task_payoffs] are [tasks] / [rcache] *)
Lemma task_incs_tasks chance sampled draw pass sg (F : list fentryR) :
  @task_incs RNum chance sampled draw pass sg F = tasks chance sampled draw pass sg F.
Proof.
  unfold task_incs, tasks. f_equal. apply map_ext. intros [p [[[n pc] p1] p2]]. reflexivity.
Qed.

Lemma task_payoffs_rcache chance sampled draw pass sg (F : list fentryR) :
  @task_payoffs RNum chance sampled draw pass sg F = rcache chance sampled draw pass sg F.
Proof.
  unfold task_payoffs, rcache, pmap. apply map_ext. intros [p [[[n pc] p1] p2]]. reflexivity.
Qed.

(** [cut_lemma]: for any antichain [F] of nodes below [n] (paths from [n]) carrying the
    reaches of the traversal from [(n, pc, p1, p2)], with the cache holding the payoffs
    of the tasks of [F]:
    - the cached traversal from [n] returns the value of the full traversal and
      performs the increments [cincs];
    - [cincs] together with the increments of the tasks is a permutation of the
      increments of the full traversal. *)
Theorem cut_lemma chance sampled draw pass sg n pc p1 p2 (F : list fentryR) :
  good_frontier chance sampled draw pass sg (n, pc, p1, p2) F ->
  let cache := @task_payoffs RNum chance sampled draw pass sg F in
  let cincs := @vincs RNum chance sampled draw pass sg (pruneR cache n) pc p1 p2 in
  (forall st : pstateR, @strat_view RNum st = sg ->
     @vrec_cached RNum chance sampled draw pass cache [] n pc p1 p2 st =
     (@vval RNum chance sampled draw pass sg n, fold_left apply_incr cincs st)) /\
  Permutation (cincs ++ @task_incs RNum chance sampled draw pass sg F)
              (@vincs RNum chance sampled draw pass sg n pc p1 p2).
Proof.
  intros HG cache cincs. unfold cincs, cache. rewrite task_payoffs_rcache, task_incs_tasks.
  destruct (cut_rel chance sampled draw pass sg n pc p1 p2 F HG) as [Hv Hp].
  split; [|exact Hp].
  intros st Hst.
  rewrite (vrec_cached_prune chance sampled draw pass _ n [] (rcache chance sampled draw pass sg F))
    by (intros q; reflexivity).
  rewrite vrec_incs, Hst, Hv. reflexivity.
Qed.

(** state form: running the tasks of [F] in any order and then the cached traversal
    yields the state (and value) of the plain traversal *)
Corollary cut_state chance sampled draw pass n pc p1 p2 (F : list fentryR) (st : pstateR) l :
  good_frontier chance sampled draw pass (strat_view st) (n, pc, p1, p2) F ->
  Permutation (@task_incs RNum chance sampled draw pass (strat_view st) F) l ->
  @vrec_cached RNum chance sampled draw pass
               (@task_payoffs RNum chance sampled draw pass (strat_view st) F) [] n pc p1 p2
               (fold_left apply_incr l st) =
  @vrec RNum chance sampled draw pass n pc p1 p2 st.
Proof.
  intros HG Hl.
  destruct (cut_lemma chance sampled draw pass (strat_view st) n pc p1 p2 F HG) as [Hc Hp].
  cbv zeta in Hc, Hp. rewrite Hc by apply fold_incr_strat.
  rewrite vrec_incs. f_equal. rewrite <- fold_left_app. apply apply_perm.
  etransitivity; [|exact Hp]. etransitivity; [apply Permutation_app_comm|].
  apply Permutation_app_head. now apply Permutation_sym.
Qed.

(** ** [thread_threshold] returns an antichain with the traversal's reaches *)
Lemma pop_back_spec {A} (l : list A) :
  match pop_back l with
  | Some (r, x) => l = r ++ [x]
  | None => l = []
  end.
Proof.
  induction l as [|a l IH]; cbn [pop_back]; [reflexivity|].
  destruct (pop_back l) as [[r y]|]; subst; reflexivity.
Qed.

Lemma zip_idx_spec {A B} j (la : list A) (lb : list B) :
  Forall (fun x => j <= fst (fst x) /\
                   nth_error la (fst (fst x) - j) = Some (snd (fst x)) /\
                   nth_error lb (fst (fst x) - j) = Some (snd x))%nat (zip_idx j la lb).
Proof.
  revert j lb; induction la as [|a la IH]; intros j lb; destruct lb as [|b lb];
    cbn [zip_idx]; try constructor.
  - cbn [fst snd]. rewrite Nat.sub_diag. cbn [nth_error]. auto.
  - eapply Forall_impl; [|apply IH]. intros [[k a'] b']; cbn [fst snd].
    intros (H1 & H2 & H3). replace (k - j)%nat with (S (k - S j)) by lia.
    cbn [nth_error]. split; [lia|auto].
Qed.

Lemma zip_idx_sorted {A B} j (la : list A) (lb : list B) :
  ForallOrdPairs (fun x y => fst (fst x) <> fst (fst y)) (zip_idx j la lb).
Proof.
  revert j lb; induction la as [|a la IH]; intros j lb; destruct lb as [|b lb];
    cbn [zip_idx]; try constructor; [|apply IH].
  eapply Forall_impl; [|apply (zip_idx_spec (S j) la lb)].
  intros [[k a'] b']; cbn [fst snd]. intros (H1 & _). lia.
Qed.

Lemma FOP_map {A B} (f : A -> B) (Q : B -> B -> Prop) l :
  ForallOrdPairs (fun x y => Q (f x) (f y)) l -> ForallOrdPairs Q (map f l).
Proof.
  induction 1 as [|x l Hx Hl IH]; cbn [map]; constructor; [|exact IH].
  rewrite Forall_map. exact Hx.
Qed.

Lemma FOP_impl {A} (Q Q' : A -> A -> Prop) l :
  (forall x y, Q x y -> Q' x y) -> ForallOrdPairs Q l -> ForallOrdPairs Q' l.
Proof.
  intros HQ. induction 1 as [|x l Hx Hl IH]; constructor; [|exact IH].
  eapply Forall_impl; [|exact Hx]. intros y. apply HQ.
Qed.

Lemma incomparable_snoc_ne p j j' : j <> j' -> incomparable (p ++ [j]) (p ++ [j']).
Proof.
  intros Hne. split; intros [r Hr]; rewrite <- app_assoc in Hr; apply app_inv_head in Hr;
    cbn [app] in Hr; congruence.
Qed.

Lemma prefix_snoc_inv q p k : prefix q (p ++ [k]) -> prefix q p \/ q = p ++ [k].
Proof.
  intros [r Hr]. induction r as [|x r' _] using rev_ind.
  - right. now rewrite app_nil_r in Hr.
  - left. rewrite app_assoc in Hr. apply app_inj_tail in Hr as [-> _]. now exists r'.
Qed.

Lemma incomparable_snoc q p k : incomparable q p -> incomparable q (p ++ [k]).
Proof.
  intros [H1 H2]. split.
  - intros H. apply prefix_snoc_inv in H as [H| ->]; [now apply H1|].
    apply H2. exists [k]. reflexivity.
  - intros [r Hr]. apply H2. exists ([k] ++ r). rewrite Hr, <- app_assoc. reflexivity.
Qed.

Section FrontierOK.
  Context (chance : list (list R)) (sampled : bool) (draw : @oracle RNum) (pass : N).
  Context (sg : bool -> nat -> list R).

  Local Notation childR := (child chance sampled draw pass sg).
  Local Notation SubR := (Sub chance sampled draw pass sg).
  Local Notation expandR := (@expand RNum chance sampled draw pass sg).

  Lemma Sub_snoc t p t1 k tc : SubR t p t1 -> childR t1 k = Some tc -> SubR t (p ++ [k]) tc.
  Proof.
    revert t; induction p as [|j p IH]; intros t; cbn [Sub app].
    - intros -> Hc. exists tc. split; [exact Hc|reflexivity].
    - intros (t' & Hc' & Hs) Hc. exists t'. split; [exact Hc'|]. now apply IH.
  Qed.

  (** the entries appended to [work]: the children of the popped node, pairwise
      different child indices *)
  Definition kids_of (e : fentryR) (l : list fentryR) : Prop :=
    Forall (fun e' => exists k, fst e' = fst e ++ [k] /\ childR (snd e) k = Some (snd e')) l /\
    antichain l.
End FrontierOK.

Lemma expand_kids chance sampled draw pass sg (e : fentryR) :
  kids_of chance sampled draw pass sg e (@expand RNum chance sampled draw pass sg e).
Proof.
  destruct e as [p [[[n pc] p1] p2]]. destruct n as [x|ci kids|pl i kids]; cbn [expand].
  - split; constructor.
  - destruct sampled.
    + destruct (nth_error kids _) as [c|] eqn:E; [|split; constructor].
      split; [|constructor; constructor]. constructor; [|constructor].
      eexists. cbn [fst snd child]. split; [reflexivity|].
      rewrite Nat.eqb_refl. change (Num.T RNum) with R in *. rewrite E. reflexivity.
    + split.
      * rewrite Forall_map. eapply Forall_impl; [|apply zip_idx_spec].
        intros [[k pr] c]; cbn [fst snd]. rewrite Nat.sub_0_r. intros (_ & H1 & H2).
        exists k. split; [reflexivity|]. cbn [child]. change (Num.T RNum) with R in *.
        rewrite H1, H2. reflexivity.
      * apply FOP_map. eapply FOP_impl; [|apply zip_idx_sorted].
        intros [[k pr] c] [[k' pr'] c']; cbn [fst snd]. apply incomparable_snoc_ne.
  - split.
    + rewrite Forall_map. eapply Forall_impl; [|apply zip_idx_spec].
      intros [[k pr] c]; cbn [fst snd]. rewrite Nat.sub_0_r. intros (_ & H1 & H2).
      exists k. split; [reflexivity|]. cbn [child]. change (Num.T RNum) with R in *.
      rewrite H1, H2. reflexivity.
    + apply FOP_map. eapply FOP_impl; [|apply zip_idx_sorted].
      intros [[k pr] c] [[k' pr'] c']; cbn [fst snd]. apply incomparable_snoc_ne.
Qed.

(** replacing an entry of a good frontier by its children keeps it good *)
Lemma good_expand chance sampled draw pass sg t0 (rest work : list fentryR) e :
  good_frontier chance sampled draw pass sg t0 ((rest ++ [e]) ++ work) ->
  good_frontier chance sampled draw pass sg t0
                (rest ++ work ++ @expand RNum chance sampled draw pass sg e).
Proof.
  intros [HA HS].
  destruct (expand_kids chance sampled draw pass sg e) as [HK HKA].
  set (ks := @expand RNum chance sampled draw pass sg e) in *.
  assert (HP : Permutation ((rest ++ [e]) ++ work) (e :: rest ++ work)).
  { rewrite <- app_assoc. cbn [app]. symmetry. apply Permutation_middle. }
  assert (HA' : antichain (e :: rest ++ work)).
  { eapply FOP_perm; [|exact HP|exact HA]. intros x y. apply incomparable_sym. }
  assert (HS' : Forall (fun e => Sub chance sampled draw pass sg t0 (fst e) (snd e))
                       (e :: rest ++ work)).
  { eapply Permutation_Forall; [exact HP|exact HS]. }
  inversion HA' as [|? ? Hx Hl]; subst. inversion HS' as [|? ? Se Sl]; subst.
  rewrite app_assoc. split.
  - apply FOP_app; [exact Hl|exact HKA|].
    intros x y Hin Hy. rewrite Forall_forall in Hx, HK.
    destruct (HK _ Hy) as (k & Ek & _). cbv beta. unfold path in *. rewrite Ek. apply incomparable_snoc.
    apply incomparable_sym. exact (Hx _ Hin).
  - apply Forall_app. split; [exact Sl|].
    eapply Forall_impl; [|exact HK]. intros e' (k & Ek & Hc). unfold path in *. rewrite Ek.
    eapply Sub_snoc; eauto.
Qed.

Lemma frontier_loop_ok chance sampled draw pass sg t0 fuel target :
  forall queue work,
    good_frontier chance sampled draw pass sg t0 (queue ++ work) ->
    let '(q', w') := @frontier_loop RNum chance sampled draw pass sg fuel target queue work in
    good_frontier chance sampled draw pass sg t0 (q' ++ w').
Proof.
  induction fuel as [|f IH]; intros queue work HG; cbn [frontier_loop]; [exact HG|].
  destruct (_ && _); [|exact HG].
  pose proof (pop_back_spec queue) as HP. destruct (pop_back queue) as [[rest e]|].
  - subst queue. apply IH. now apply good_expand.
  - subst queue. apply IH. cbn [app] in HG. now rewrite app_nil_r.
Qed.

(** [frontier_ok]: for every target and every fuel, the tasks sent to the thread pool
    are an antichain of nodes of the (sampled) tree, each with the reaches the
    traversal from the root carries to it *)
Theorem frontier_ok chance sampled draw pass sg fuel target root :
  good_frontier chance sampled draw pass sg (root, 1, 1, 1)%R
                (@frontier RNum chance sampled draw pass sg fuel target root).
Proof.
  unfold frontier.
  pose proof (frontier_loop_ok chance sampled draw pass sg (root, 1, 1, 1)%R fuel target
                [([], (root, 1, 1, 1)%R)] []) as H.
  change (one RNum) with 1%R.
  destruct (frontier_loop _ _ _ _ _ _ _ _ _) as [q w]. cbn [fst].
  assert (HG : good_frontier chance sampled draw pass sg (root, 1, 1, 1)%R (q ++ w)).
  { apply H. split; [constructor; constructor|]. constructor; [reflexivity|constructor]. }
  destruct HG as [HA HS]. split.
  - now apply FOP_app_inv in HA as [HA _].
  - now apply Forall_app in HS as [HS _].
Qed.

(** ** One iteration, and the whole solve *)
Theorem multi_iter_eq_single (g : @game RNum) sampled draw p it target sched st :
  (forall l, Permutation l (sched l)) ->
  @multi_iter RNum g sampled draw p it target sched st =
  @vanilla_iter RNum g sampled draw p it st.
Proof.
  intros Hs. unfold multi_iter, vanilla_iter. cbv zeta.
  rewrite (cut_state (g_chance g) sampled draw (it - 1)%N (g_root g) (one RNum) (one RNum)
                     (one RNum) _ st _ (frontier_ok _ _ _ _ _ _ _ _) (Hs _)).
  reflexivity.
Qed.

Definition method_of (sampled : bool) : method := if sampled then Sampled else Full.

Lemma solve_multi_loop_eq (g : @game RNum) sampled draw p stop target scheds :
  (forall it l, Permutation l (scheds it l)) ->
  forall rem it st regs ran,
    @solve_multi_loop RNum g sampled draw p stop target scheds rem it st regs ran =
    @solve_loop RNum g (method_of sampled) draw p stop rem it st regs ran.
Proof.
  intros Hs. induction rem as [|r IH]; intros it st regs ran;
    cbn [solve_multi_loop solve_loop]; [reflexivity|].
  rewrite multi_iter_eq_single by apply Hs.
  replace (@one_iter RNum g (method_of sampled) draw p it st)
    with (@vanilla_iter RNum g sampled draw p it st) by (destruct sampled; reflexivity).
  destruct (vanilla_iter g sampled draw p it st) as [st' [r1 r2]].
  destruct (stop _); [reflexivity|apply IH].
Qed.

(** [solve_multi_eq_single]: every target (number of tasks aimed at), every budget,
    every early-termination predicate, every family of schedules (one permutation per
    iteration): the multi-threaded solve returns the strategies, the bounds and the
    iteration count of the single-threaded one *)
Theorem solve_multi_eq_single (g : @game RNum) sampled draw p budget stop target scheds :
  (forall it l, Permutation l (scheds it l)) ->
  @solve_multi RNum g sampled draw p budget stop target scheds =
  @solve_single RNum g (method_of sampled) draw p budget stop.
Proof.
  intros Hs. unfold solve_multi, solve_single.
  rewrite solve_multi_loop_eq by exact Hs. reflexivity.
Qed.

(** ** Non-vacuity: a tree on which [thread_threshold] hands out two tasks *)
Local Notation TermR := (@Term RNum).
Local Notation PlayerR := (@Player RNum).
Definition ex_root : nodeR :=
  @Chance RNum 0 [PlayerR true 0 [TermR 1%R; TermR (-1)%R];
                  PlayerR false 0 [TermR 2%R; TermR (-2)%R];
                  PlayerR true 1 [TermR 0%R; TermR 3%R]].
Definition ex_chance : list (list R) := [[1 / 3; 1 / 3; 1 / 3]%R].
Definition ex_sg : bool -> nat -> list R := fun _ _ => [1 / 2; 1 / 2]%R.
Definition ex_draw : @oracle RNum := fun _ _ _ _ => O.

(** target 4: the root is expanded, the three children are swapped into [queue], the
    last one is expanded ([queue.len() + work.len() = 4]); the tasks are children 0 and 1 *)
Example ex_frontier_two_tasks :
  map fst (@frontier RNum ex_chance false ex_draw 0%N ex_sg (frontier_fuel ex_root) 4 ex_root)
  = [[0%nat]; [1%nat]].
Proof. reflexivity. Qed.

(** target 3: the loop exits right after the root was expanded into [work]
    ([queue] is empty, [work] holds the three children): no task at all, the whole
    tree is traversed sequentially.  Only [queue] is handed to the thread pool. *)
Example ex_frontier_no_task :
  @frontier RNum ex_chance false ex_draw 0%N ex_sg (frontier_fuel ex_root) 3 ex_root = [].
Proof. reflexivity. Qed.

(** target 1 (the crate's own multi-threaded tests): the root itself is the only task *)
Example ex_frontier_root :
  map fst (@frontier RNum ex_chance true ex_draw 0%N ex_sg (frontier_fuel ex_root) 1 ex_root)
  = [[]].
Proof. reflexivity. Qed.

(** the schedule that runs all increments of the parallel phase in reverse order *)
Example ex_reverse_schedule (g : @game RNum) sampled draw p budget stop target :
  @solve_multi RNum g sampled draw p budget stop target (fun _ l => rev l) =
  @solve_single RNum g (method_of sampled) draw p budget stop.
Proof. apply solve_multi_eq_single. intros it l. apply Permutation_rev. Qed.

(** ** Complements on the adequacy of the model *)

(** *** a task runs [recurse_multi] with the empty cache [()]: that is [vrec] *)
Lemma prune_nil (n : nodeR) : pruneR [] n = n.
Proof.
  induction n as [x|ci kids IH|pl i kids IH] using node_ind'; rewrite prune_eq; cbn [lookup];
    try reflexivity; f_equal;
    (induction IH as [|c ks Hc _ IHk]; cbn [prune_kids strip0 dec]; [reflexivity|];
     rewrite Hc; f_equal; exact IHk).
Qed.

Theorem vrec_cached_nil chance sampled draw pass p n pc p1 p2 st :
  @vrec_cached RNum chance sampled draw pass [] p n pc p1 p2 st =
  @vrec RNum chance sampled draw pass n pc p1 p2 st.
Proof.
  rewrite (vrec_cached_prune chance sampled draw pass [] n p []) by reflexivity.
  now rewrite prune_nil.
Qed.

(** *** [IRegAll] is a loop of one [fetch_sub] per cell: at that finer granularity too
    it is a sequence of commuting atomic increments *)
Lemma upd_nth_same {A} (l : list A) i d : upd l i (nth i l d) = l.
Proof.
  revert i; induction l as [|x l IH]; intros i; [reflexivity|].
  destruct i; cbn [upd nth]; [reflexivity|now rewrite IH].
Qed.

Lemma upd_at_id (st : pstateR) pl i : upd_at st pl i (fun r => r) = st.
Proof.
  destruct st as [l1 l2]. unfold upd_at, ri_set, ri_get, ps_set, ps_get.
  destruct pl; cbn [fst snd]; now rewrite upd_nth_same.
Qed.

Lemma upd_at_upd_at (st : pstateR) pl i f g :
  upd_at (upd_at st pl i f) pl i g = upd_at st pl i (fun r => g (f r)).
Proof.
  destruct st as [l1 l2]. unfold upd_at, ri_set, ri_get, ps_set, ps_get.
  destruct pl; cbn [fst snd]; rewrite nth_upd, upd_upd_same, Nat.eqb_refl; cbn [andb];
    [destruct (Nat.ltb_spec i (length l1))|destruct (Nat.ltb_spec i (length l2))];
    try reflexivity; rewrite !upd_oob by lia; reflexivity.
Qed.

Lemma fold_incr_same_target pl i (l : list incrR) :
  Forall (fun x => incr_pl x = pl /\ incr_ix x = i) l ->
  forall st : pstateR,
    fold_left apply_incr l st =
    upd_at st pl i (fun r => fold_left (fun r x => incr_fn x r) l r).
Proof.
  induction 1 as [|x l [Hp Hi] Hl IH]; intros st; cbn [fold_left].
  - symmetry. apply upd_at_id.
  - rewrite IH, apply_incr_upd_at, Hp, Hi. apply upd_at_upd_at.
Qed.

Lemma cells_fold (x : R) (suf : list R) :
  forall pre,
    fold_left (fun cr a => upd cr a (nth a cr 0 + - x)%R) (seq (length pre) (length suf))
              (pre ++ suf) =
    pre ++ map (fun c => (c - x)%R) suf.
Proof.
  induction suf as [|s suf IH]; intros pre; cbn [length seq fold_left map]; [reflexivity|].
  rewrite nth_middle.
  assert (E : upd (pre ++ s :: suf) (length pre) (s + - x)%R = (pre ++ [(s - x)%R]) ++ suf).
  { clear IH. induction pre as [|a pre IHp]; cbn [app length upd].
    - f_equal.
    - f_equal. exact IHp. }
  rewrite E. specialize (IH (pre ++ [(s - x)%R])).
  rewrite app_length in IH. cbn [length] in IH. rewrite Nat.add_1_r in IH.
  rewrite IH, <- app_assoc. reflexivity.
Qed.

Theorem regall_cells (st : pstateR) pl i (x : R) :
  apply_incr st (@IRegAll RNum pl i x) =
  fold_left apply_incr
            (map (fun a => @IReg RNum pl i a (- x)%R)
                 (seq 0 (length (cum_regret (@ri_get RNum st pl i))))) st.
Proof.
  rewrite (fold_incr_same_target pl i).
  2:{ rewrite Forall_map. apply Forall_forall. intros a _. split; reflexivity. }
  rewrite apply_incr_upd_at. cbn [incr_pl incr_ix]. unfold upd_at. f_equal.
  set (r := @ri_get RNum st pl i).
  assert (G : forall (idx : list nat) (r : @rinfo RNum),
             fold_left (fun r x => incr_fn x r) (map (fun a => @IReg RNum pl i a (- x)%R) idx) r =
             @mkRinfo RNum (fold_left (fun cr a => upd cr a (nth a cr 0 + - x)%R) idx (cum_regret r))
                      (cum_strat r) (strat r)).
  { induction idx as [|a idx IHi]; intros r0; cbn [map fold_left].
    - destruct r0; reflexivity.
    - rewrite IHi. reflexivity. }
  rewrite G. pose proof (cells_fold x (cum_regret r) []) as H. cbn [app length] in H.
  change (Num.T RNum) with R in *. rewrite H. reflexivity.
Qed.

(** *** the fuel of [frontier] is enough: the [while] loop of [thread_threshold] has
    exited by its own condition, more fuel changes nothing *)
Definition ksum (ks : list nodeR) : nat := list_sum (map (@nodes RNum) ks).
Definition esum (l : list fentryR) : nat :=
  list_sum (map (fun e : fentryR => @nodes RNum (tnode (snd e))) l).

Lemma ksum_cons c ks : ksum (c :: ks) = (@nodes RNum c + ksum ks)%nat.
Proof. reflexivity. Qed.
Lemma esum_cons (e : fentryR) l : esum (e :: l) = (@nodes RNum (tnode (snd e)) + esum l)%nat.
Proof. reflexivity. Qed.
Lemma esum_nil : esum [] = O.
Proof. reflexivity. Qed.

Lemma nodes_Chance ci kids : @nodes RNum (Chance ci kids) = S (ksum kids).
Proof.
  cbn [nodes]. f_equal.
  induction kids as [|c r IH]; [reflexivity|]. rewrite ksum_cons, <- IH. reflexivity.
Qed.

Lemma nodes_Player pl i kids : @nodes RNum (Player pl i kids) = S (ksum kids).
Proof.
  cbn [nodes]. f_equal.
  induction kids as [|c r IH]; [reflexivity|]. rewrite ksum_cons, <- IH. reflexivity.
Qed.

Lemma nodes_pos (n : nodeR) : (1 <= @nodes RNum n)%nat.
Proof. destruct n; [cbn [nodes]|rewrite nodes_Chance|rewrite nodes_Player]; lia. Qed.

Lemma esum_app l1 l2 : esum (l1 ++ l2) = (esum l1 + esum l2)%nat.
Proof. unfold esum. now rewrite map_app, list_sum_app. Qed.

Lemma esum_zip (f : nat * R * nodeR -> fentryR) :
  (forall j pr c, tnode (snd (f (j, pr, c))) = c) ->
  forall (ps : list R) (ks : list nodeR) j, (esum (map f (zip_idx j ps ks)) <= ksum ks)%nat.
Proof.
  intros Hf. induction ps as [|pr ps IH]; intros ks j; destruct ks as [|c ks];
    cbn [zip_idx map]; rewrite ?esum_nil; try lia.
  rewrite esum_cons, ksum_cons, Hf. specialize (IH ks (S j)). lia.
Qed.

Lemma ksum_nth (ks : list nodeR) k c : nth_error ks k = Some c -> (@nodes RNum c <= ksum ks)%nat.
Proof.
  revert k; induction ks as [|a ks IH]; intros k; destruct k as [|k]; cbn [nth_error];
    try discriminate; rewrite ksum_cons.
  - intros E; injection E as ->. lia.
  - intros E. specialize (IH _ E). lia.
Qed.

Lemma expand_small chance sampled draw pass sg (e : fentryR) :
  (esum (@expand RNum chance sampled draw pass sg e) < @nodes RNum (tnode (snd e)))%nat.
Proof.
  destruct e as [p [[[n pc] p1] p2]]. cbn [snd tnode fst].
  destruct n as [x|ci kids|pl i kids]; cbn [expand].
  - unfold esum; cbn [map list_sum fold_right nodes]. lia.
  - rewrite nodes_Chance. destruct sampled.
    + destruct (nth_error kids _) as [c|] eqn:E;
        [|unfold esum; cbn [map list_sum fold_right]; lia].
      unfold esum. cbn [map snd tnode fst]. cbn [list_sum fold_right].
      apply ksum_nth in E. lia.
    + apply Nat.lt_succ_r.
      apply (esum_zip (fun '(j, pr, c) => (p ++ [j], (c, mul RNum pc pr, p1, p2)))).
      reflexivity.
  - rewrite nodes_Player. apply Nat.lt_succ_r.
    apply (esum_zip (fun '(j, pr, c) =>
                       (p ++ [j], (c, pc, if pl then mul RNum p1 pr else p1,
                                          if pl then p2 else mul RNum p2 pr)))).
    reflexivity.
Qed.

Definition fmeasure (q w : list fentryR) : nat :=
  (2 * esum (q ++ w) + match q with [] => 1 | _ => 0 end)%nat.

Lemma frontier_loop_stable chance sampled draw pass sg target fuel :
  forall q w, (fmeasure q w <= fuel)%nat -> forall k,
    @frontier_loop RNum chance sampled draw pass sg (fuel + k) target q w =
    @frontier_loop RNum chance sampled draw pass sg fuel target q w.
Proof.
  induction fuel as [|f IH]; intros q w Hm k.
  - exfalso. unfold fmeasure in Hm. destruct q as [|e q]; [lia|].
    cbn [app] in Hm. rewrite esum_cons in Hm.
    pose proof (nodes_pos (tnode (snd e))). lia.
  - cbn [Nat.add frontier_loop].
    destruct (negb _ && _) eqn:C; [|reflexivity].
    pose proof (pop_back_spec q) as HP. destruct (pop_back q) as [[rest e]|].
    + subst q. apply IH. unfold fmeasure in *.
      pose proof (expand_small chance sampled draw pass sg e) as Hs.
      rewrite !esum_app in *. rewrite esum_cons, esum_nil in Hm.
      assert (match rest ++ [e] with [] => 1 | _ => 0 end = 0)%nat as E0
          by (destruct rest; reflexivity).
      rewrite E0 in Hm. destruct rest; lia.
    + subst q. destruct w as [|e w]; [discriminate|]. apply IH.
      unfold fmeasure in *. cbn [app] in *. rewrite app_nil_r. lia.
Qed.

Theorem frontier_fuel_enough chance sampled draw pass sg target root k :
  @frontier RNum chance sampled draw pass sg (frontier_fuel root + k) target root =
  @frontier RNum chance sampled draw pass sg (frontier_fuel root) target root.
Proof.
  unfold frontier. rewrite frontier_loop_stable; [reflexivity|].
  unfold fmeasure, frontier_fuel. cbn [app]. rewrite esum_cons, esum_nil.
  cbn [snd tnode fst]. lia.
Qed.
