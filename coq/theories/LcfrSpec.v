(** * LcfrSpec: the trajectory of the unsampled solve for a params tuple whose three
    discounts (positive regrets, negative regrets, cumulative strategy) are the same
    sequence of positive factors [d 1, d 2, ...] — in particular LCFR ([p_lcfr]), for
    which [d t = t / (t + 1)].

    With [P T = d 1 * ... * d T] (so that [P T / P t] is the product of the factors
    applied after iterations [t+1 .. T]):
    - [dregret_at_sum] : [cum_regret_T(I,a) = P T * sum_{t<T} r_t(I,a) / P t];
    - [dcstrat_at_sum] : [cum_strat_T(I,a) = P T * sum_{t<T} pi_t(I) * sigma_t(I,a) / P t];
    - [dbound_pl_eq]   : the returned bound is [sum_I 2 * max(max_a cum_regret_T(I,a), 0) / T];
    - [dstrat_at_S]    : the next strategy is [regret_match] of the cumulative regret.
    The LCFR instances ([lcfr_regret_at_sum], [lcfr_cstrat_at_sum], [lcfr_bound_pl_eq],
    [lcfr_strat_at_S]) have [P T = 1 / (T + 1)], i.e. weights [(t + 1) / (T + 1)] for the
    0-based iteration index [t] (iteration number [t + 1]).

    Everything is about the real-number instance [RNum]. *)
From Coq Require Import Reals List Lra Lia Bool Arith NArith FunctionalExtensionality.
From Cfr.theories Require Import Num RInst Tree GameWF Strat Eval Solve Valid
     SolveValidProofs LoopProofs RulesProofs Incr IterChar CfrRate EvalSpec CfrSpec.
Import ListNotations.
Open Scope R_scope.

Local Notation node := (@node RNum).
Local Notation game := (@game RNum).
Local Notation pstate := (@pstate RNum).
Local Notation rinfo := (@rinfo RNum).
Local Notation incr := (@incr RNum).
Local Notation oracle := (@oracle RNum).
Local Notation params := (@params RNum).

(** ** Small facts *)
Lemma nth_map_scale (l : list R) (c : R) (a : nat) :
  nth a (map (fun r => r * c) l) 0 = nth a l 0 * c.
Proof.
  revert a; induction l as [|x l IH]; intros [|a]; cbn [map nth]; try lra. apply IH.
Qed.

(** the bridge between the two families of measures on increments
    ([CfrSpec.reg_delta] / [IterChar.reg_sum]) *)
Lemma rd_reg_of pl i a (x : incr) : rd pl i a x = reg_of pl i a x.
Proof.
  destruct x as [pl' i' w|pl' i' a' v|pl' i' v]; unfold rd, hits; cbn [incr_pl incr_ix rdv reg_of].
  - destruct (_ && _); reflexivity.
  - destruct (Bool.eqb pl' pl), (Nat.eqb i' i), (Nat.eqb a' a); reflexivity.
  - destruct (Bool.eqb pl' pl), (Nat.eqb i' i); reflexivity.
Qed.

Lemma sd_strat_of pl i (x : incr) : sd pl i x = strat_of pl i x.
Proof.
  destruct x as [pl' i' w|pl' i' a' v|pl' i' v]; unfold sd, hits; cbn [incr_pl incr_ix sdv strat_of];
    destruct (_ && _); reflexivity.
Qed.

Lemma reg_delta_reg_sum L pl i a : reg_delta L pl i a = reg_sum pl i a L.
Proof. unfold reg_delta, msum, reg_sum. f_equal. apply map_ext. intros x. apply rd_reg_of. Qed.

Lemma strat_delta_strat_sum L pl i : strat_delta L pl i = strat_sum pl i L.
Proof. unfold strat_delta, msum, strat_sum. f_equal. apply map_ext. intros x. apply sd_strat_of. Qed.

(** the increments of one unsampled traversal are the counterfactual regrets [cfr_inc] *)
Lemma reg_delta_vincs chance draw pass sg n pc p1 p2 pl i a :
  reg_delta (@vincs RNum chance false draw pass sg n pc p1 p2) pl i a =
  cfr_inc chance sg pl i a n pc p1 p2.
Proof. rewrite reg_delta_reg_sum. apply reg_sum_vincs. Qed.

Lemma strat_delta_vincs chance draw pass sg n pc p1 p2 pl i :
  strat_delta (@vincs RNum chance false draw pass sg n pc p1 p2) pl i =
  cs_inc chance sg pl i n pc p1 p2.
Proof. rewrite strat_delta_strat_sum. apply strat_sum_vincs. Qed.

(** ** Regret matching is invariant under a positive rescaling of the regrets when
    the fall-back is "the best action" ([a_nopos = PosInf]) *)
Lemma argmax_last_scale (c : R) (l : list R) i bi bv :
  0 < c ->
  @argmax_last RNum (map (fun r => r * c) l) i bi (bv * c) = @argmax_last RNum l i bi bv.
Proof.
  intros Hc. revert i bi bv; induction l as [|v l IH]; intros i bi bv; cbn [map argmax_last];
    [reflexivity|].
  cbn [ltb RNum].
  assert (E : Rltb (v * c) (bv * c) = Rltb v bv).
  { destruct (Rltb v bv) eqn:E1.
    - apply Rltb_true in E1. apply Rltb_true. nra.
    - apply Rltb_false in E1. apply Rltb_false. nra. }
  rewrite E. destruct (Rltb v bv); apply IH.
Qed.

Lemma filter_pos_scale (c : R) (l : list R) :
  0 < c ->
  filter (fun v => Rltb 0 v) (map (fun r => r * c) l) =
  map (fun r => r * c) (filter (fun v => Rltb 0 v) l).
Proof.
  intros Hc. induction l as [|x l IH]; cbn [map filter]; [reflexivity|].
  assert (E : Rltb 0 (x * c) = Rltb 0 x).
  { destruct (Rltb 0 x) eqn:E1.
    - apply Rltb_true in E1. apply Rltb_true. nra.
    - apply Rltb_false in E1. apply Rltb_false. nra. }
  rewrite E. destruct (Rltb 0 x); cbn [map]; now rewrite IH.
Qed.

Lemma Rsum_scale_r (c : R) (l : list R) : Rsum (map (fun r => r * c) l) = Rsum l * c.
Proof. induction l as [|x l IH]; cbn [map Rsum]; [lra|rewrite IH; lra]. Qed.

Lemma regret_match_scale (p : params) (c : R) (cr : list R) :
  0 < c -> a_nopos p = PosInf ->
  @regret_match RNum p (map (fun r => r * c) cr) = @regret_match RNum p cr.
Proof.
  intros Hc Hp. rewrite !regret_match_unfold. cbv zeta. rewrite Hp, map_length.
  rewrite filter_pos_scale, Rsum_scale_r by assumption.
  set (nm := Rsum (filter (fun v => Rltb 0 v) cr)).
  assert (E : Rltb 0 (nm * c) = Rltb 0 nm).
  { destruct (Rltb 0 nm) eqn:E1.
    - apply Rltb_true in E1. apply Rltb_true. nra.
    - apply Rltb_false in E1. apply Rltb_false. nra. }
  rewrite E. destruct (Rltb 0 nm) eqn:En.
  - apply Rltb_true in En. rewrite map_map. apply map_ext. intros r.
    assert (E2 : Rltb 0 (r * c) = Rltb 0 r).
    { destruct (Rltb 0 r) eqn:E1.
      - apply Rltb_true in E1. apply Rltb_true. nra.
      - apply Rltb_false in E1. apply Rltb_false. nra. }
    rewrite E2. destruct (Rltb 0 r); [|reflexivity]. field. split; lra.
  - destruct cr as [|v r]; [reflexivity|]. cbn [map]. now rewrite argmax_last_scale.
Qed.

(** ** The trajectory of the unsampled solve, any params tuple *)
Section DTrajDefs.
  Context (g : game) (draw : oracle) (p : params).

  (** the state after [t] iterations *)
  Fixpoint dstate_at (t : nat) : pstate :=
    match t with
    | O => @init_state RNum g
    | S k => fst (@vanilla_iter RNum g false draw p (N.of_nat (S k)) (dstate_at k))
    end.

  (** the bounds returned by iteration [t] (1-based) *)
  Definition dbounds_at (t : nat) : R * R :=
    snd (@vanilla_iter RNum g false draw p (N.of_nat t) (dstate_at (t - 1))).

  (** the strategy used *during* iteration [t] (1-based) *)
  Definition dsigma_at (t : nat) (pl : bool) : list (list R) := tbl_strat (dstate_at (t - 1)) pl.

  (** the average strategy after [T] iterations, row-wise what [final_strats] returns *)
  Definition davg (T : nat) (pl : bool) : list (list R) :=
    map (fun ri => @avg_strat RNum (cum_strat ri)) (@ps_get RNum (dstate_at T) pl).

  Definition dregret_at (T : nat) (pl : bool) (i a : nat) : R :=
    nth a (cum_regret (@ri_get RNum (dstate_at T) pl i)) 0.
  Definition dcstrat_at (T : nat) (pl : bool) (i a : nat) : R :=
    nth a (cum_strat (@ri_get RNum (dstate_at T) pl i)) 0.

  (** the increments performed by the traversal of iteration [t + 1] *)
  Definition dincs_at (t : nat) : list incr :=
    @vincs RNum (g_chance g) false draw (N.of_nat (S t) - 1)%N (strat_view (dstate_at t))
           (g_root g) 1 1 1.

  (** the state left by the traversal of iteration [t + 1], before [advance] *)
  Definition dmid_at (t : nat) : pstate := fold_left apply_incr (dincs_at t) (dstate_at t).

  (** the bound of player [pl] after iteration [T] *)
  Definition dbound_pl (T : nat) (pl : bool) : R :=
    if pl then fst (dbounds_at T) else snd (dbounds_at T).

  Lemma dbounds_at_S k :
    dbounds_at (S k) =
    (Rsum (map (info_bound (N.of_nat (S k))) (fst (dstate_at (S k)))),
     Rsum (map (info_bound (N.of_nat (S k))) (snd (dstate_at (S k))))).
  Proof.
    unfold dbounds_at. replace (S k - 1)%nat with k by lia.
    pose proof (vanilla_iter_bounds g false draw p (N.of_nat (S k)) (dstate_at k)) as H.
    cbv zeta in H. exact H.
  Qed.

  (** [advance] never reads the discounted vectors: the next strategy is regret
      matching on the cumulative regret left by the traversal *)
  Lemma dstate_at_S_gen k :
    dstate_at (S k) =
    (map (fun ri => fst (@advance RNum p (N.of_nat (S k)) (N.of_nat (S k)) ri)) (fst (dmid_at k)),
     map (fun ri => fst (@advance RNum p (N.of_nat (S k)) (N.of_nat (S k)) ri)) (snd (dmid_at k))).
  Proof.
    cbn [dstate_at]. rewrite vanilla_iter_fst. cbv zeta. rewrite vrec_incs. reflexivity.
  Qed.

  Context (Hpos : arities_pos g).

  Lemma dstate_at_inv t : InvA (arities g true) (arities g false) (dstate_at t).
  Proof.
    induction t as [|k IH]; [now apply init_state_inv|].
    cbn [dstate_at]. exact (one_iter_inv _ _ g Full draw _ _ _ IH).
  Qed.

  Lemma dstate_at_len t pl : length (@ps_get RNum (dstate_at t) pl) = ninfos g pl.
  Proof.
    destruct (dstate_at_inv t) as [H1 H2]. unfold ninfos. rewrite <- arities_length.
    destruct pl; cbn [ps_get]; symmetry; eapply Forall2_len; eassumption.
  Qed.

  Lemma dstate_at_RInvA t pl i :
    (i < ninfos g pl)%nat -> RInvA (arity g pl i) (@ri_get RNum (dstate_at t) pl i).
  Proof.
    intros Hi. destruct (dstate_at_inv t) as [H1 H2]. unfold arity, ri_get.
    unfold ninfos in Hi. rewrite <- arities_length in Hi.
    destruct pl; cbn [ps_get]; apply Forall2_nth_lt; assumption.
  Qed.

  Lemma dsigma_at_row t pl i :
    rowR (dsigma_at (S t) pl) i = strat (@ri_get RNum (dstate_at t) pl i).
  Proof.
    unfold dsigma_at, tbl_strat, rowR, ri_get. replace (S t - 1)%nat with t by lia.
    change (@nil R) with (@strat RNum (mkRinfo [] [] [])). now rewrite map_nth.
  Qed.

  Lemma strat_view_dsigma t :
    strat_view (dstate_at t) = sg_of (dsigma_at (S t) true) (dsigma_at (S t) false).
  Proof. rewrite strat_view_tbl. unfold dsigma_at. now replace (S t - 1)%nat with t by lia. Qed.

  Lemma dsigma_at_VRow t pl i : (i < ninfos g pl)%nat -> VRow (rowR (dsigma_at (S t) pl) i).
  Proof. intros Hi. rewrite dsigma_at_row. now destruct (dstate_at_RInvA t pl i Hi) as (H & _). Qed.

  Lemma dsigma_at_length t pl i :
    (i < ninfos g pl)%nat -> length (rowR (dsigma_at (S t) pl) i) = arity g pl i.
  Proof.
    intros Hi. rewrite dsigma_at_row. destruct (dstate_at_RInvA t pl i Hi) as (_ & _ & _ & _ & H).
    exact H.
  Qed.

  (** the traversal of iteration [k + 1], infoset by infoset *)
  Lemma dmid_at_Eff k pl i :
    (i < ninfos g pl)%nat ->
    Eff (@ri_get RNum (dstate_at k) pl i) (@ri_get RNum (dmid_at k) pl i)
        (fun a => reg_delta (dincs_at k) pl i a) (strat_delta (dincs_at k) pl i).
  Proof.
    intros Hi.
    assert (Hlen : (i < length (@ps_get RNum (dstate_at k) pl))%nat) by (now rewrite dstate_at_len).
    destruct (dstate_at_RInvA k pl i Hi) as (_ & _ & L1 & L2 & L3).
    exact (fold_incr_Eff (dincs_at k) (dstate_at k) pl i Hlen (eq_trans L2 (eq_sym L3))).
  Qed.

  Lemma dmid_at_len k pl : length (@ps_get RNum (dmid_at k) pl) = ninfos g pl.
  Proof. unfold dmid_at. now rewrite fold_incr_len, dstate_at_len. Qed.

  Lemma dstate_at_S_get k pl i :
    (i < ninfos g pl)%nat ->
    @ri_get RNum (dstate_at (S k)) pl i =
    fst (@advance RNum p (N.of_nat (S k)) (N.of_nat (S k)) (@ri_get RNum (dmid_at k) pl i)).
  Proof.
    intros Hi. rewrite dstate_at_S_gen. apply ri_get_map. now rewrite dmid_at_len.
  Qed.

  (** the strategy of iteration [k + 2] is regret matching on what the traversal of
      iteration [k + 1] left in [cum_regret] (before the discount) *)
  Lemma dstrat_at_S_mid k pl i :
    (i < ninfos g pl)%nat ->
    rowR (dsigma_at (S (S k)) pl) i =
    @regret_match RNum p (cum_regret (@ri_get RNum (dmid_at k) pl i)).
  Proof. intros Hi. rewrite dsigma_at_row, dstate_at_S_get by assumption. reflexivity. Qed.

  (** the bound of player [pl] after iteration [T]: the model's formula *)
  Lemma dbound_pl_eq T pl :
    (1 <= T)%nat ->
    dbound_pl T pl =
    Rsumn (ninfos g pl)
          (fun i => 2 * Rmax (Rmaxl (cum_regret (@ri_get RNum (dstate_at T) pl i))) 0 / INR T).
  Proof.
    intros HT. destruct T as [|k]; [lia|]. unfold dbound_pl. rewrite dbounds_at_S.
    rewrite <- (dstate_at_len (S k) pl).
    destruct pl; cbn [fst snd ps_get];
      rewrite (Rsum_map_nth _ _ (@mkRinfo RNum [] [] [])); apply Rsumn_ext; intros i _;
      unfold info_bound, ri_get, ps_get; cbn [fst snd]; rewrite Nat2N.id; reflexivity.
  Qed.

  (** [T * b_pl / 2] dominates every selection of one cumulative regret per infoset,
      weighted by anything in [0, 1] *)
  Lemma dbound_pl_dominates T pl (c : nat -> R) (s : nat -> nat) :
    (1 <= T)%nat ->
    (forall i, (i < ninfos g pl)%nat -> 0 <= c i <= 1 /\ (s i < arity g pl i)%nat) ->
    Rsumn (ninfos g pl) (fun i => c i * dregret_at T pl i (s i)) <= INR T * dbound_pl T pl / 2.
  Proof.
    intros HT Hc. rewrite dbound_pl_eq by assumption.
    assert (HTpos : 0 < INR T) by (apply lt_0_INR; lia).
    unfold Rdiv. rewrite Rmult_assoc, (Rmult_comm (Rsumn _ _)), <- Rmult_assoc.
    rewrite <- Rsumn_scal. apply Rsumn_le. intros i Hi.
    destruct (Hc i Hi) as [Hci Hsi].
    destruct (dstate_at_RInvA T pl i Hi) as (_ & _ & L1 & _ & _).
    rewrite <- L1 in Hsi.
    pose proof (Rmaxl_ge (cum_regret (@ri_get RNum (dstate_at T) pl i)) (s i) Hsi) as Hm.
    unfold dregret_at. tR.
    set (M := Rmaxl _) in *. set (r := nth (s i) _ 0) in *.
    pose proof (Rmax_l M 0). pose proof (Rmax_r M 0).
    replace (INR T * / 2 * (2 * Rmax M 0 * / INR T)) with (Rmax M 0) by (field; lra).
    destruct (Rle_lt_dec 0 r) as [Hr|Hr].
    - assert (c i * r <= 1 * r) by (apply Rmult_le_compat_r; lra). lra.
    - assert (0 <= c i * (- r)) by (apply Rmult_le_pos; lra). lra.
  Qed.

  Lemma dbound_pl_nonneg T pl : (1 <= T)%nat -> 0 <= dbound_pl T pl.
  Proof.
    intros HT. rewrite dbound_pl_eq by assumption. apply Rsumn_nonneg. intros i _.
    assert (HTpos : 0 < INR T) by (apply lt_0_INR; lia).
    pose proof (Rmax_r (Rmaxl (cum_regret (@ri_get RNum (dstate_at T) pl i))) 0).
    unfold Rdiv. apply Rmult_le_pos; [lra|]. left. now apply Rinv_0_lt_compat.
  Qed.
End DTrajDefs.

(** the product of the factors applied after iterations [1 .. T] *)
Fixpoint dprod (d : nat -> R) (T : nat) : R :=
  match T with
  | O => 1
  | S k => dprod d k * d (S k)
  end.

Lemma dprod_pos d T : (forall t, (1 <= t)%nat -> 0 < d t) -> 0 < dprod d T.
Proof.
  intros Hd. induction T as [|k IH]; cbn [dprod]; [lra|].
  apply Rmult_lt_0_compat; [exact IH|apply Hd; lia].
Qed.

(** ** Uniformly discounted params tuples *)
Section DTraj.
  Context (g : game) (draw : oracle) (p : params) (d : nat -> R).
  Context (Hd_pos : forall t, (1 <= t)%nat -> 0 < d t).
  Context (Hd_reg : forall t cr, (1 <= t)%nat ->
              @discount_cum_regret RNum p (N.of_nat t) cr = map (fun r => r * d t) cr).
  Context (Hd_avg : forall t cs, (1 <= t)%nat ->
              @discount_average_strat RNum p (N.of_nat t) cs = map (fun a => a * d t) cs).
  Context (Hpos : arities_pos g).

  Local Notation P := (dprod d).

  Lemma dstate_at_S_cum k pl i :
    (i < ninfos g pl)%nat ->
    cum_regret (@ri_get RNum (dstate_at g draw p (S k)) pl i) =
      map (fun r => r * d (S k)) (cum_regret (@ri_get RNum (dmid_at g draw p k) pl i)) /\
    cum_strat (@ri_get RNum (dstate_at g draw p (S k)) pl i) =
      map (fun r => r * d (S k)) (cum_strat (@ri_get RNum (dmid_at g draw p k) pl i)).
  Proof.
    intros Hi. rewrite (dstate_at_S_get g draw p Hpos k pl i Hi). unfold advance.
    cbn [fst cum_regret cum_strat]. rewrite Hd_reg, Hd_avg by lia. split; reflexivity.
  Qed.

  Lemma dregret_at_S k pl i a :
    (i < ninfos g pl)%nat -> (a < arity g pl i)%nat ->
    dregret_at g draw p (S k) pl i a =
    (dregret_at g draw p k pl i a + reg_delta (dincs_at g draw p k) pl i a) * d (S k).
  Proof.
    intros Hi Ha. unfold dregret_at.
    destruct (dstate_at_S_cum k pl i Hi) as [E _]. rewrite E, nth_map_scale. f_equal.
    destruct (dmid_at_Eff g draw p Hpos k pl i Hi) as (_ & _ & _ & A4 & _).
    destruct (dstate_at_RInvA g draw p Hpos k pl i Hi) as (_ & _ & L1 & _ & _).
    apply A4. rewrite L1. exact Ha.
  Qed.

  Lemma dcstrat_at_S k pl i a :
    (i < ninfos g pl)%nat -> (a < arity g pl i)%nat ->
    dcstrat_at g draw p (S k) pl i a =
    (dcstrat_at g draw p k pl i a
     + strat_delta (dincs_at g draw p k) pl i * prob (dsigma_at g draw p (S k) pl) i a) * d (S k).
  Proof.
    intros Hi Ha. unfold dcstrat_at.
    destruct (dstate_at_S_cum k pl i Hi) as [_ E]. rewrite E, nth_map_scale. f_equal.
    destruct (dmid_at_Eff g draw p Hpos k pl i Hi) as (_ & _ & _ & _ & A5).
    destruct (dstate_at_RInvA g draw p Hpos k pl i Hi) as (_ & _ & _ & _ & L3).
    unfold prob. rewrite (dsigma_at_row g draw p). apply A5. rewrite L3. exact Ha.
  Qed.

  (** the cumulative regret is the discounted sum of the per-iteration increments *)
  Theorem dregret_at_sum T pl i a :
    (i < ninfos g pl)%nat -> (a < arity g pl i)%nat ->
    dregret_at g draw p T pl i a =
    P T * Rsumn T (fun t => reg_delta (dincs_at g draw p t) pl i a / P t).
  Proof.
    intros Hi Ha. induction T as [|T IH].
    - unfold dregret_at. cbn [dstate_at]. rewrite Rsumn_0, Rmult_0_r. apply init_zero.
    - rewrite dregret_at_S, Rsumn_S_last, IH by assumption. cbn [dprod].
      pose proof (dprod_pos d T Hd_pos). field. lra.
  Qed.

  (** the cumulative strategy is the discounted sum of (own reach weight) x strategy *)
  Theorem dcstrat_at_sum T pl i a :
    (i < ninfos g pl)%nat -> (a < arity g pl i)%nat ->
    dcstrat_at g draw p T pl i a =
    P T * Rsumn T (fun t => strat_delta (dincs_at g draw p t) pl i
                            * prob (dsigma_at g draw p (S t) pl) i a / P t).
  Proof.
    intros Hi Ha. induction T as [|T IH].
    - unfold dcstrat_at. cbn [dstate_at]. rewrite Rsumn_0, Rmult_0_r. apply init_zero.
    - rewrite dcstrat_at_S, Rsumn_S_last, IH by assumption. cbn [dprod].
      pose proof (dprod_pos d T Hd_pos). field. lra.
  Qed.

  (** with the "best action" fall-back the strategy of iteration [k + 2] is regret
      matching on the (discounted) cumulative regret after iteration [k + 1] *)
  Theorem dstrat_at_S k pl i :
    a_nopos p = PosInf -> (i < ninfos g pl)%nat ->
    rowR (dsigma_at g draw p (S (S k)) pl) i =
    @regret_match RNum p (cum_regret (@ri_get RNum (dstate_at g draw p (S k)) pl i)).
  Proof.
    intros Hp Hi. rewrite (dstrat_at_S_mid g draw p Hpos k pl i Hi).
    destruct (dstate_at_S_cum k pl i Hi) as [E _]. rewrite E.
    symmetry. apply regret_match_scale; [apply Hd_pos; lia|exact Hp].
  Qed.
End DTraj.

(** ** LCFR *)
Definition lcfr_d (t : nat) : R := INR t / INR (S t).

Lemma lcfr_d_pos t : (1 <= t)%nat -> 0 < lcfr_d t.
Proof.
  intros Ht. unfold lcfr_d. assert (0 < INR t) by (apply lt_0_INR; lia).
  assert (0 < INR (S t)) by (apply lt_0_INR; lia).
  unfold Rdiv. apply Rmult_lt_0_compat; [assumption|now apply Rinv_0_lt_compat].
Qed.

Lemma lcfr_d_le_1 t : lcfr_d t <= 1.
Proof.
  unfold lcfr_d. assert (0 < INR (S t)) by (apply lt_0_INR; lia). rewrite S_INR in *.
  apply (Rmult_le_reg_r (INR t + 1)); [assumption|].
  unfold Rdiv. rewrite Rmult_assoc, Rinv_l by lra. lra.
Qed.

Lemma lcfr_gen_discount t :
  (1 <= t)%nat -> @gen_discount RNum (N.of_nat t) (@Fin RNum 1) = lcfr_d t.
Proof.
  intros Ht. change (@Fin RNum 1) with (@Fin RNum (INR 1)).
  rewrite gen_discount_nat by lia. rewrite Nat2N.id. unfold lcfr_d. rewrite S_INR.
  now rewrite pow_1.
Qed.

Lemma lcfr_discount_reg t cr :
  (1 <= t)%nat ->
  @discount_cum_regret RNum (@p_lcfr RNum) (N.of_nat t) cr = map (fun r => r * lcfr_d t) cr.
Proof.
  intros Ht. rewrite discount_cum_regret_spec. unfold p_lcfr. cbn [a_pos a_neg one RNum].
  rewrite lcfr_gen_discount by assumption. apply map_ext. intros r.
  destruct (Rlt_dec 0 r); [reflexivity|]. destruct (Rlt_dec r 0); [reflexivity|].
  assert (r = 0) by lra. subst r. lra.
Qed.

Lemma lcfr_discount_avg t cs :
  (1 <= t)%nat ->
  @discount_average_strat RNum (@p_lcfr RNum) (N.of_nat t) cs = map (fun a => a * lcfr_d t) cs.
Proof.
  intros Ht.
  rewrite (discount_average_strat_pos (@p_lcfr RNum) (N.of_nat t) 1 cs eq_refl) by (lra || lia).
  apply map_ext. intros a. f_equal. rewrite Nat2N.id.
  assert (0 < INR t) by (apply lt_0_INR; lia).
  rewrite Rpower_1.
  - unfold lcfr_d. now rewrite S_INR.
  - unfold Rdiv. apply Rmult_lt_0_compat; [assumption|]. apply Rinv_0_lt_compat. lra.
Qed.

Lemma lcfr_dprod T : dprod lcfr_d T = / INR (S T).
Proof.
  induction T as [|k IH]; cbn [dprod]; [cbn [INR]; lra|].
  rewrite IH. unfold lcfr_d.
  assert (0 < INR (S k)) by (apply lt_0_INR; lia).
  assert (0 < INR (S (S k))) by (apply lt_0_INR; lia).
  field. split; lra.
Qed.

Section Lcfr.
  Context (g : game) (draw : oracle) (Hpos : arities_pos g).

  Local Notation p := (@p_lcfr RNum).

  (** [cum_regret] after [T] iterations: iteration number [t + 1] has weight
      [(t + 1) / (T + 1)]; the increment is the counterfactual regret [cfr_inc] under the
      strategies of that iteration *)
  Theorem lcfr_regret_at_sum T pl i a :
    (i < ninfos g pl)%nat -> (a < arity g pl i)%nat ->
    dregret_at g draw p T pl i a =
    Rsumn T (fun t => INR (S t) / INR (S T)
                      * cfr_inc (g_chance g) (strat_view (dstate_at g draw p t)) pl i a (g_root g) 1 1 1).
  Proof.
    intros Hi Ha.
    rewrite (dregret_at_sum g draw p lcfr_d lcfr_d_pos lcfr_discount_reg lcfr_discount_avg Hpos
                            T pl i a Hi Ha).
    rewrite <- Rsumn_scal. apply Rsumn_ext. intros t _.
    unfold dincs_at. rewrite reg_delta_vincs, !lcfr_dprod.
    assert (0 < INR (S t)) by (apply lt_0_INR; lia).
    assert (0 < INR (S T)) by (apply lt_0_INR; lia).
    field. split; lra.
  Qed.

  (** the same, for the whole vector: [cfr_incs] *)
  Corollary lcfr_regret_at_sum_incs T pl i a :
    (i < ninfos g pl)%nat -> (a < arity g pl i)%nat ->
    dregret_at g draw p T pl i a =
    Rsumn T (fun t => INR (S t) / INR (S T)
                      * nth a (cfr_incs (g_chance g) (strat_view (dstate_at g draw p t)) pl i
                                        (g_root g) 1 1 1) 0).
  Proof.
    intros Hi Ha. rewrite lcfr_regret_at_sum by assumption. apply Rsumn_ext. intros t _. f_equal.
    unfold cfr_incs. symmetry. apply nth_map_seq.
    destruct (dstate_at_RInvA g draw p Hpos t pl i Hi) as (_ & _ & _ & _ & L3).
    unfold strat_view. tR. lia.
  Qed.

  (** [cum_strat] after [T] iterations: the same weights, on (own reach weight [cs_inc])
      x (strategy of the iteration) *)
  Theorem lcfr_cstrat_at_sum T pl i a :
    (i < ninfos g pl)%nat -> (a < arity g pl i)%nat ->
    dcstrat_at g draw p T pl i a =
    Rsumn T (fun t => INR (S t) / INR (S T)
                      * (cs_inc (g_chance g) (strat_view (dstate_at g draw p t)) pl i (g_root g) 1 1 1
                         * prob (dsigma_at g draw p (S t) pl) i a)).
  Proof.
    intros Hi Ha.
    rewrite (dcstrat_at_sum g draw p lcfr_d lcfr_d_pos lcfr_discount_reg lcfr_discount_avg Hpos
                            T pl i a Hi Ha).
    rewrite <- Rsumn_scal. apply Rsumn_ext. intros t _.
    unfold dincs_at. rewrite strat_delta_vincs, !lcfr_dprod.
    assert (0 < INR (S t)) by (apply lt_0_INR; lia).
    assert (0 < INR (S T)) by (apply lt_0_INR; lia).
    field. split; lra.
  Qed.

  (** the strategy of iteration [T + 2] is regret matching on [cum_regret] after
      iteration [T + 1] *)
  Theorem lcfr_strat_at_S T pl i :
    (i < ninfos g pl)%nat ->
    rowR (dsigma_at g draw p (S (S T)) pl) i =
    @regret_match RNum p (cum_regret (@ri_get RNum (dstate_at g draw p (S T)) pl i)).
  Proof.
    intros Hi.
    exact (dstrat_at_S g draw p lcfr_d lcfr_d_pos lcfr_discount_reg lcfr_discount_avg Hpos
                      T pl i eq_refl Hi).
  Qed.

  (** the returned bound of player [pl] *)
  Theorem lcfr_bound_pl_eq T pl :
    (1 <= T)%nat ->
    dbound_pl g draw p T pl =
    Rsumn (ninfos g pl)
          (fun i => 2 * Rmax (Rmaxl (cum_regret (@ri_get RNum (dstate_at g draw p T) pl i))) 0 / INR T).
  Proof. intros HT. now apply dbound_pl_eq. Qed.
End Lcfr.
