(** * PresentationExamples: small instances of the presentation theorems (non-vacuity) *)
From Coq Require Import Reals List Lra Lia Bool Arith NArith.
From Cfr.theories Require Import Num RInst Tree Strat Eval Solve
     PresentationProofs PresentationProofs2.
Import ListNotations.
Open Scope R_scope.

Local Notation gnodeR := (@gnode RNum).
Local Notation gameR := (@game RNum).
Local Notation GTerm := (@GTerm RNum).
Local Notation GChance := (@GChance RNum).
Local Notation GPlayer := (@GPlayer RNum).
Local Notation Term := (@Term RNum).
Local Notation Chance := (@Chance RNum).
Local Notation Player := (@Player RNum).
Local Notation mkGame := (@mkGame RNum).

Lemma pos_ok w : 0 < w -> ltb RNum (zero RNum) w && is_fin RNum w = true.
Proof. intros H. cbn [ltb zero is_fin RNum]. rewrite andb_true_r. now apply Rltb_true. Qed.

(** ** Rescaling: weights 1 : 3 against 2 : 6, below a decision node *)
Definition ex1_t : gnodeR :=
  GPlayer true 5%N
          [(0%N, GChance (Some 7%N) [(1, GTerm 1); (3, GTerm 2)]);
           (1%N, GTerm 0)].
Definition ex1_t' : gnodeR :=
  GPlayer true 5%N
          [(0%N, GChance (Some 7%N) [(2 * 1, GTerm 1); (2 * 3, GTerm 2)]);
           (1%N, GTerm 0)].

Example ex1_rescaled : Rescaled ex1_t ex1_t'.
Proof.
  apply Rs_Player. apply RsP_cons; [|apply RsP_cons; [apply Rs_Term|apply RsP_nil]].
  apply Rs_Chance with (c := 2); [lra|].
  apply RsC_cons; [reflexivity|apply Rs_Term|].
  apply RsC_cons; [reflexivity|apply Rs_Term|]. apply RsC_nil.
Qed.

Example ex1_accepted :
  exists g, @from_root RNum ex1_t = Ok g /\
            g_root g = Player true 0 [Chance 0 [Term 1; Term 2]; Term 0] /\
            length (g_chance g) = 1%nat.
Proof.
  unfold from_root, ex1_t. cbn -[Rltb IZR Rdiv Rplus].
  repeat (rewrite (proj2 (Rltb_true _ _)) by lra; cbn -[Rltb IZR Rdiv Rplus]).
  eexists. split; [reflexivity|]. split; reflexivity.
Qed.

Example ex1_same : @from_root RNum ex1_t' = @from_root RNum ex1_t.
Proof. apply rescale_from_root, ex1_rescaled. Qed.

(** the same chance infoset twice, once with weights 1 : 3 and once with 2 : 6: accepted,
    because the check compares normalised probabilities *)
Definition ex1b_t : gnodeR :=
  GPlayer true 5%N
          [(0%N, GChance (Some 7%N) [(1, GTerm 1); (3, GTerm 2)]);
           (1%N, GChance (Some 7%N) [(1, GTerm 3); (3, GTerm 4)])].
Definition ex1b_t' : gnodeR :=
  GPlayer true 5%N
          [(0%N, GChance (Some 7%N) [(1, GTerm 1); (3, GTerm 2)]);
           (1%N, GChance (Some 7%N) [(2, GTerm 3); (6, GTerm 4)])].

Example ex1b_rescaled : Rescaled ex1b_t ex1b_t'.
Proof.
  apply Rs_Player. apply RsP_cons; [apply Rescaled_refl|].
  apply RsP_cons; [|apply RsP_nil].
  apply Rs_Chance with (c := 2); [lra|].
  apply RsC_cons; [lra|apply Rs_Term|].
  apply RsC_cons; [lra|apply Rs_Term|]. apply RsC_nil.
Qed.

Example ex1b_accepted :
  exists g, @from_root RNum ex1b_t = Ok g /\
            g_root g = Player true 0 [Chance 0 [Term 1; Term 2]; Chance 0 [Term 3; Term 4]] /\
            length (g_chance g) = 1%nat.
Proof.
  unfold from_root, ex1b_t. cbn -[Rltb Reqb IZR Rdiv Rplus].
  repeat (rewrite (proj2 (Rltb_true _ _)) by lra; cbn -[Rltb Reqb IZR Rdiv Rplus]).
  repeat (rewrite (proj2 (Reqb_true _ _)) by reflexivity; cbn -[Rltb Reqb IZR Rdiv Rplus]).
  eexists. split; [reflexivity|]. split; reflexivity.
Qed.

Example ex1b_same :
  exists g, @from_root RNum ex1b_t' = Ok g /\
            g_root g = Player true 0 [Chance 0 [Term 1; Term 2]; Chance 0 [Term 3; Term 4]].
Proof.
  destruct ex1b_accepted as (g & Hg & Hr & _). exists g.
  rewrite (rescale_from_root _ _ ex1b_rescaled). split; assumption.
Qed.

(** ** Renaming *)
Definition ex2_t : gnodeR :=
  GPlayer true 0%N
          [(0%N, GPlayer false 0%N [(0%N, GTerm 1); (1%N, GTerm 2)]);
           (1%N, GPlayer false 0%N [(0%N, GTerm 3); (1%N, GPlayer true 1%N [(2%N, GTerm 4)])])].

Definition ex2_g : gameR :=
  mkGame [] [mkPinfo 0%N [0%N; 1%N] None] [mkPinfo 0%N [0%N; 1%N] None] [(1%N, 2%N)] []
         (Player true 0 [Player false 0 [Term 1; Term 2]; Player false 0 [Term 3; Term 4]]).

Example ex2_accepted : @from_root RNum ex2_t = Ok ex2_g.
Proof. reflexivity. Qed.

Lemma add_inj k : inj (N.add k).
Proof. intros a b H. lia. Qed.

Example ex2_renamed :
  @from_root RNum (rename (N.add 10) (N.add 20) (N.add 30) (N.add 40) ex2_t) =
  Ok (mkGame [] [mkPinfo 10%N [30%N; 31%N] None] [mkPinfo 20%N [30%N; 31%N] None]
             [(11%N, 32%N)] []
             (Player true 0 [Player false 0 [Term 1; Term 2]; Player false 0 [Term 3; Term 4]])).
Proof.
  rewrite rename_presentation by apply add_inj. rewrite ex2_accepted. reflexivity.
Qed.

(** a non-injective renaming can be rejected: merging the two players' ... is harmless, but
    merging two actions of an infoset is not *)
Example ex2_not_injective :
  @from_root RNum (rename (N.add 10) (N.add 20) (fun _ => 0%N) (N.add 40) ex2_t) =
  Err ActionsNotUnique.
Proof. reflexivity. Qed.

(** ** Transparent nodes *)
Definition ex3_t : gnodeR :=
  GPlayer true 0%N [(0%N, GTerm 1); (1%N, GTerm 2)].

(** a single-outcome chance node and a single-action node of player two above the root,
    a single-action node of player one below the first action *)
Definition ex3_t' : gnodeR :=
  GChance None
          [(5, GPlayer false 7%N
                       [(3%N, GPlayer true 0%N
                                      [(0%N, GPlayer true 9%N [(4%N, GTerm 1)]);
                                       (1%N, GTerm 2)])])].

Definition ex3_L : list (bool * N * N) := [(false, 7%N, 3%N); (true, 9%N, 4%N)].

Example ex3_inserted : Inserted ex3_t ex3_t' ex3_L.
Proof.
  change ex3_L with ((false, 7%N, 3%N) :: (([(true, 9%N, 4%N)] ++ ([] ++ [])) : list (bool * N * N))).
  apply In_InsChance; [lra|]. apply In_InsPlayer. apply In_Player.
  apply InP_cons.
  - apply In_InsPlayer. apply In_Term.
  - apply InP_cons; [apply In_Term|apply InP_nil].
Qed.

Example ex3_fresh : fresh_for ex3_t ex3_L.
Proof.
  intros pl n a [H|[H|[]]]; injection H as <- <- <-; cbn; [tauto|].
  intros [H|[]]. discriminate.
Qed.

Example ex3_functional : functional ex3_L.
Proof.
  intros pl n a a' [H|[H|[]]] [H'|[H'|[]]]; congruence.
Qed.

Example ex3_accepted :
  @from_root RNum ex3_t =
  Ok (mkGame [] [mkPinfo 0%N [0%N; 1%N] None] [] [] [] (Player true 0 [Term 1; Term 2])).
Proof. reflexivity. Qed.

Example ex3_same :
  exists g', @from_root RNum ex3_t' = Ok g' /\
             g_root g' = Player true 0 [Term 1; Term 2] /\
             g_chance g' = [] /\
             g_infos1 g' = [mkPinfo 0%N [0%N; 1%N] None] /\ g_infos2 g' = [].
Proof.
  pose proof (inserted_from_root _ _ _ ex3_inserted ex3_fresh ex3_functional) as H.
  rewrite ex3_accepted in H. destruct H as (g' & Hg' & Hr & Hc & H1 & H2 & _).
  exists g'. repeat split; assumption.
Qed.

(** freshness matters: an inserted single-action node reusing the name of a real infoset of
    the same player is rejected *)
Example ex3_not_fresh :
  @from_root RNum (GPlayer true 0%N [(0%N, GPlayer true 0%N [(4%N, GTerm 1)]); (1%N, GTerm 2)])
  = Err ActionsNotEqual.
Proof. reflexivity. Qed.
