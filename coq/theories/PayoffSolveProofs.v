(** * PayoffSolveProofs: scaling, shifting and swapping payoffs/players — solver
    side (property C12, part B).

    One simulation between the run on a game [g] and the run on
    [tgame flip (aff s k) g] (players exchanged or not, payoff [x |-> s*x + k]),
    instantiated three times: scale ([flip = false], [k = 0]), shift
    ([flip = false], [s = 1]) and swap ([flip = true], [s = -1], [k = 0]).

    Everything is about the real-number instance [RNum]. *)
From Coq Require Import Reals List Lra Lia Bool Arith NArith.
From Cfr.theories Require Import Num RInst Tree GameWF Strat Eval Solve Valid TruncProofs
     SolveValidProofs RulesProofs PayoffEvalProofs PayoffShiftBRProofs.
Import ListNotations.
Open Scope R_scope.

Local Notation nodeR := (@node RNum).
Local Notation gameR := (@game RNum).
Local Notation pstateR := (@pstate RNum).
Local Notation rinfoR := (@rinfo RNum).
Local Notation paramsR := (@params RNum).
Local Notation oracleR := (@oracle RNum).

(** ** 1. The update rules under a positive rescaling of the cumulative regret *)
Definition nopos_ok (p : paramsR) : Prop :=
  a_nopos p = PosInf \/ a_nopos p = NegInf \/ a_nopos p = Fin (0 : T RNum).

Lemma Rltb_mult c a b : 0 < c -> Rltb (c * a) (c * b) = Rltb a b.
Proof.
  intros Hc. unfold Rltb. destruct (Rlt_dec (c * a) (c * b)), (Rlt_dec a b);
    try reflexivity; exfalso; nra.
Qed.

Lemma Rltb_mult_0l c a : 0 < c -> Rltb 0 (c * a) = Rltb 0 a.
Proof. intros Hc. rewrite <- (Rltb_mult c 0 a Hc). now rewrite Rmult_0_r. Qed.

Lemma Rltb_mult_0r c a : 0 < c -> Rltb (c * a) 0 = Rltb a 0.
Proof. intros Hc. rewrite <- (Rltb_mult c a 0 Hc). now rewrite Rmult_0_r. Qed.

Lemma map_Rmult_1 (l : list R) : map (Rmult 1) l = l.
Proof. induction l as [|x l IH]; cbn [map]; [reflexivity|]. rewrite IH, Rmult_1_l. reflexivity. Qed.

Lemma filter_pos_scale c (l : list R) :
  0 < c -> filter (fun v => Rltb 0 v) (map (Rmult c) l) = map (Rmult c) (filter (fun v => Rltb 0 v) l).
Proof.
  intros Hc. induction l as [|x l IH]; cbn [map filter]; [reflexivity|].
  rewrite Rltb_mult_0l by assumption. destruct (Rltb 0 x); cbn [map]; now rewrite IH.
Qed.

Lemma Rsum_map_Rmult c (l : list R) : Rsum (map (Rmult c) l) = c * Rsum l.
Proof. induction l as [|x l IH]; cbn [map Rsum]; [lra|rewrite IH; lra]. Qed.

Lemma argmax_last_scale c (l : list R) i bi bv :
  0 < c -> @argmax_last RNum (map (Rmult c) l) i bi (c * bv) = @argmax_last RNum l i bi bv.
Proof.
  intros Hc. revert i bi bv. induction l as [|v r IH]; intros i bi bv; cbn [map argmax_last];
    [reflexivity|].
  change (ltb RNum) with Rltb. rewrite Rltb_mult by assumption.
  destruct (Rltb v bv); apply IH.
Qed.

Lemma argmin_first_scale c (l : list R) i bi bv :
  0 < c -> @argmin_first RNum (map (Rmult c) l) i bi (c * bv) = @argmin_first RNum l i bi bv.
Proof.
  intros Hc. revert i bi bv. induction l as [|v r IH]; intros i bi bv; cbn [map argmin_first];
    [reflexivity|].
  change (ltb RNum) with Rltb. rewrite Rltb_mult by assumption.
  destruct (Rltb v bv); apply IH.
Qed.

(** regret matching does not see a positive rescaling of its argument, in the
    three fallback branches of the presets *)
Lemma regret_match_scale (p : paramsR) c (cr : list R) :
  0 < c -> nopos_ok p ->
  @regret_match RNum p (map (Rmult c) cr) = @regret_match RNum p cr.
Proof.
  intros Hc Hp. rewrite !regret_match_unfold. cbv zeta.
  rewrite filter_pos_scale, Rsum_map_Rmult, Rltb_mult_0l, map_length by assumption.
  destruct (Rltb 0 (Rsum _)) eqn:E.
  - apply Rltb_true in E. rewrite map_map. apply map_ext. intros x.
    rewrite Rltb_mult_0l by assumption. destruct (Rltb 0 x); [|reflexivity]. field. lra.
  - destruct Hp as [Hp|[Hp|Hp]]; rewrite Hp.
    + destruct cr as [|v r]; [reflexivity|]. cbn [map]. now rewrite argmax_last_scale.
    + destruct cr as [|v r]; [reflexivity|]. cbn [map]. now rewrite argmin_first_scale.
    + replace (Reqb 0 0) with true by (symmetry; now apply Reqb_true). reflexivity.
Qed.

Lemma discount_cum_regret_scale (p : paramsR) it c (cr : list R) :
  0 < c ->
  @discount_cum_regret RNum p it (map (Rmult c) cr) = map (Rmult c) (@discount_cum_regret RNum p it cr).
Proof.
  intros Hc. unfold discount_cum_regret. cbv zeta. rewrite !map_map. apply map_ext. intros x.
  change (ltb RNum) with Rltb. change (zero RNum) with 0. change (mul RNum) with Rmult.
  rewrite Rltb_mult_0l, Rltb_mult_0r by assumption.
  change (T RNum) with R in *.
  destruct (Rltb 0 x); [ring|]. destruct (Rltb x 0); [ring|reflexivity].
Qed.

Lemma cum_regret_bound_scale it c (cr : list R) :
  0 <= c -> @cum_regret_bound RNum it (map (Rmult c) cr) = c * @cum_regret_bound RNum it cr :> R.
Proof.
  intros Hc. rewrite !cum_regret_bound_unfold.
  assert (E : Rmax (match map (Rmult c) cr with [] => 0 | x :: r => fold_left Rmax r x end) 0
              = c * Rmax (match cr with [] => 0 | x :: r => fold_left Rmax r x end) 0).
  { rewrite <- RmaxRmult by assumption. rewrite Rmult_0_r. f_equal.
    destruct cr as [|x r]; cbn [map]; [lra|]. now apply fold_max_scale. }
  rewrite E. unfold Rdiv. ring.
Qed.

(** the side condition is needed: with a finite non-zero fallback weight regret
    matching is a softmax of the (non-positive) cumulative regrets, which is not
    scale invariant *)
Lemma scale_softmax_counterexample :
  let p := @mkParams RNum PosInf PosInf (Fin (0 : T RNum)) (Fin (1 : T RNum)) in
  @regret_match RNum p (map (Rmult 2) [0; -1]) <> @regret_match RNum p [0; -1].
Proof.
  cbv zeta. rewrite !regret_match_unfold. cbv zeta. cbn [map filter a_nopos].
  replace (Rltb 0 (2 * 0)) with false by (symmetry; apply Rltb_false; lra).
  replace (Rltb 0 (2 * -1)) with false by (symmetry; apply Rltb_false; lra).
  replace (Rltb 0 0) with false by (symmetry; apply Rltb_false; lra).
  replace (Rltb 0 (-1)) with false by (symmetry; apply Rltb_false; lra).
  cbn [Rsum]. replace (Rltb 0 0) with false by (symmetry; apply Rltb_false; lra).
  replace (Reqb 1 0) with false by (symmetry; apply Reqb_false; lra).
  replace (Rltb 0 1) with true by (symmetry; apply Rltb_true; lra).
  unfold reduce_max. cbn [fold_left fmax RNum map Rsum].
  rewrite !Rmax_left by lra.
  intros H. injection H as H _.
  replace ((2 * 0 - 2 * 0) * 1) with 0 in H by lra.
  replace ((2 * -1 - 2 * 0) * 1) with (-2) in H by lra.
  replace ((0 - 0) * 1) with 0 in H by lra.
  replace ((-1 - 0) * 1) with (-1) in H by lra.
  rewrite exp_0 in H.
  assert (H1 : Rtrigo_def.exp (-2) < Rtrigo_def.exp (-1)) by (apply exp_increasing; lra).
  pose proof (exp_pos (-2)) as P2. pose proof (exp_pos (-1)) as P1.
  apply (f_equal (fun v => v * (1 + (Rtrigo_def.exp (-2) + 0)) * (1 + (Rtrigo_def.exp (-1) + 0)))) in H.
  field_simplify in H; lra.
Qed.

(** ** 2. Lists: pointwise affine images, [upd] *)
Fixpoint offl (gm : R) (d : nat -> R) (j : nat) (l : list R) : list R :=
  match l with
  | [] => []
  | x :: r => (gm * x + d j) :: offl gm d (S j) r
  end.

Lemma offl_length gm d j l : length (offl gm d j l) = length l.
Proof. revert j; induction l as [|x l IH]; intros j; cbn [offl length]; [reflexivity|now rewrite IH]. Qed.

Lemma offl_ext gm d d' j l :
  (forall a, (a < length l)%nat -> d (j + a)%nat = d' (j + a)%nat) -> offl gm d j l = offl gm d' j l.
Proof.
  revert j; induction l as [|x l IH]; intros j H; cbn [offl]; [reflexivity|]. f_equal.
  - specialize (H 0%nat ltac:(cbn [length]; lia)). rewrite Nat.add_0_r in H. now rewrite H.
  - apply IH. intros a Ha. replace (S j + a)%nat with (j + S a)%nat by lia.
    apply H. cbn [length]; lia.
Qed.

Lemma offl_zero gm j l : offl gm (fun _ => 0) j l = map (Rmult gm) l.
Proof.
  revert j; induction l as [|x l IH]; intros j; cbn [offl map]; [reflexivity|].
  now rewrite IH, Rplus_0_r.
Qed.

Lemma offl_upd gm d j l a u w :
  upd (offl gm d j l) a (nth a (offl gm d j l) 0 + (gm * u + w)) =
  offl gm (fun x => if (x =? j + a)%nat then d x + w else d x) j (upd l a (nth a l 0 + u)).
Proof.
  revert j a; induction l as [|x l IH]; intros j a; [reflexivity|].
  destruct a as [|a]; cbn [offl upd nth].
  - rewrite Nat.add_0_r, Nat.eqb_refl. f_equal; [lra|].
    apply offl_ext. intros b _. destruct (Nat.eqb_spec (S j + b) j); [lia|reflexivity].
  - destruct (Nat.eqb_spec j (j + S a)); [lia|]. f_equal.
    rewrite IH. apply offl_ext. intros b _.
    replace (j + S a)%nat with (S j + a)%nat by lia. reflexivity.
Qed.

Lemma offl_map_sub gm d j l e w :
  map (fun v => v - (gm * e + w)) (offl gm d j l) =
  offl gm (fun x => d x - w) j (map (fun v => v - e) l).
Proof.
  revert j; induction l as [|x l IH]; intros j; cbn [offl map]; [reflexivity|].
  rewrite IH. f_equal. lra.
Qed.

Lemma nth_upd {A} (l : list A) i j v d :
  nth j (upd l i v) d = if (j =? i)%nat && (i <? length l)%nat then v else nth j l d.
Proof.
  revert i j; induction l as [|x l IH]; intros i j.
  - cbn [upd length]. now rewrite andb_false_r.
  - destruct i as [|i], j as [|j]; cbn [upd nth length]; try reflexivity. apply IH.
Qed.

Lemma ps_get_set_same (st : pstateR) pl l : @ps_get RNum (@ps_set RNum st pl l) pl = l.
Proof. destruct pl; reflexivity. Qed.

Lemma ps_get_set_other (st : pstateR) pl l :
  @ps_get RNum (@ps_set RNum st pl l) (negb pl) = @ps_get RNum st (negb pl).
Proof. destruct pl; reflexivity. Qed.

(** ** 3. The relation between the two states: same current and cumulative
    strategies, cumulative regret [gm * r + d] with an offset [d] per action
    (the offsets are transient: zero between traversals) *)
Section Rel.
  Context (flip : bool) (gm : R).

  Definition Rri (d : nat -> R) (ri ri' : rinfoR) : Prop :=
    strat ri' = strat ri /\ cum_strat ri' = cum_strat ri /\
    cum_regret ri' = offl gm d 0 (cum_regret ri).

  Definition RS (D : bool -> nat -> nat -> R) (st st' : pstateR) : Prop :=
    forall pl, length (@ps_get RNum st' (fl flip pl)) = length (@ps_get RNum st pl) /\
               forall i, Rri (D pl i) (@ri_get RNum st pl i) (@ri_get RNum st' (fl flip pl) i).

  Definition setD (D : bool -> nat -> nat -> R) (pl : bool) (i : nat) (d : nat -> R)
    : bool -> nat -> nat -> R :=
    fun q i' => if Bool.eqb q pl && (i' =? i)%nat then d else D q i'.

  Lemma Rri_default d : Rri d (@mkRinfo RNum [] [] []) (@mkRinfo RNum [] [] []).
  Proof. repeat split. Qed.

  Lemma Rri_ext d d' ri ri' :
    (forall j, (j < length (cum_regret ri))%nat -> d j = d' j) -> Rri d ri ri' -> Rri d' ri ri'.
  Proof.
    intros H (H1 & H2 & H3). repeat split; try assumption. rewrite H3.
    apply offl_ext. intros a Ha. cbn [Nat.add]. now apply H.
  Qed.

  Lemma RS_ext D D' st st' :
    (forall pl i j, D pl i j = D' pl i j) -> RS D st st' -> RS D' st st'.
  Proof.
    intros H HS pl. destruct (HS pl) as [HL HR]. split; [exact HL|]. intros i.
    eapply Rri_ext; [|apply HR]. intros j _. apply H.
  Qed.

  Lemma RS_get D st st' pl i :
    RS D st st' -> Rri (D pl i) (@ri_get RNum st pl i) (@ri_get RNum st' (fl flip pl) i).
  Proof. intros H. apply H. Qed.

  Lemma RS_set D st st' pl i d v v' :
    RS D st st' -> Rri d v v' ->
    RS (setD D pl i d) (@ri_set RNum st pl i v) (@ri_set RNum st' (fl flip pl) i v').
  Proof.
    intros HS Hv q. unfold ri_set, setD, ri_get.
    destruct (Bool.eqb q pl) eqn:E.
    - apply eqb_prop in E. subst q. destruct (HS pl) as [HL HR].
      rewrite !ps_get_set_same. split; [now rewrite !upd_length|].
      intros i'. rewrite !nth_upd, HL. cbn [andb].
      destruct (Nat.eqb_spec i' i) as [->|Hne]; cbn [andb]; [|apply HR].
      destruct (Nat.ltb_spec i (length (@ps_get RNum st pl))) as [Hlt|Hge]; [exact Hv|].
      rewrite !nth_overflow by lia. apply Rri_default.
    - assert (Hq : q = negb pl) by (destruct q, pl; try discriminate; reflexivity). subst q.
      rewrite fl_negb, !ps_get_set_other. rewrite <- fl_negb. cbn [andb]. apply HS.
  Qed.

  Lemma RS_set_same D st st' pl i v v' :
    RS D st st' -> Rri (D pl i) v v' ->
    RS D (@ri_set RNum st pl i v) (@ri_set RNum st' (fl flip pl) i v').
  Proof.
    intros HS Hv. eapply RS_ext; [|eapply RS_set; eassumption].
    intros q i' j. unfold setD.
    destruct (Bool.eqb q pl) eqn:E1, (Nat.eqb_spec i' i) as [E2|E2]; cbn [andb]; try reflexivity.
    apply eqb_prop in E1. now subst.
  Qed.
End Rel.

(** ** 4. Unfolding the inner loops one step, with projections instead of
    destructuring lets *)
Section Steps.
  Context (rec : nodeR -> R -> R -> R -> pstateR -> R * pstateR).

  Lemma vpick_O pc p1 p2 st c ks :
    vpick rec pc p1 p2 st (c :: ks) O =
    (0 + 1 * fst (rec c (pc * 1) p1 p2 st), snd (rec c (pc * 1) p1 p2 st)).
  Proof. cbn [vpick]. destruct (rec c (pc * 1) p1 p2 st); reflexivity. Qed.

  Lemma vgo_chance_cons pc p1 p2 p ps c ks ex st :
    vgo_chance rec pc p1 p2 (p :: ps) (c :: ks) ex st =
    vgo_chance rec pc p1 p2 ps ks (ex + p * fst (rec c (pc * p) p1 p2 st))
               (snd (rec c (pc * p) p1 p2 st)).
  Proof. cbn [vgo_chance]. destruct (rec c (pc * p) p1 p2 st); reflexivity. Qed.

  Lemma vgo_player_cons pl i pc p1 p2 mult c ks prob ss ai e1 e st :
    vgo_player rec pl i pc p1 p2 mult (c :: ks) (prob :: ss) ai e1 e st =
    let r := rec c pc (if pl then p1 * prob else p1) (if pl then p2 else p2 * prob) st in
    let ri' := @ri_get RNum (snd r) pl i in
    vgo_player rec pl i pc p1 p2 mult ks ss (S ai) (e1 + prob * fst r) (e + fst r * mult * prob)
      (@ri_set RNum (snd r) pl i
         (@mkRinfo RNum (upd (cum_regret ri') ai (nth ai (cum_regret ri') 0 + fst r * mult))
                   (cum_strat ri') (strat ri'))).
  Proof.
    cbn [vgo_player]. destruct pl; cbv zeta.
    - destruct (rec c pc (p1 * prob) p2 st); reflexivity.
    - destruct (rec c pc p1 (p2 * prob) st); reflexivity.
  Qed.
End Steps.

Definition pfst (flip : bool) (p1 p2 : R) : R := if flip then p2 else p1.
Definition psnd (flip : bool) (p1 p2 : R) : R := if flip then p1 else p2.

Lemma q1_swap flip pl p1 p2 prob :
  (if fl flip pl then pfst flip p1 p2 * prob else pfst flip p1 p2) =
  pfst flip (if pl then p1 * prob else p1) (if pl then p2 else p2 * prob).
Proof. destruct flip, pl; reflexivity. Qed.

Lemma q2_swap flip pl p1 p2 prob :
  (if fl flip pl then psnd flip p1 p2 else psnd flip p1 p2 * prob) =
  psnd flip (if pl then p1 * prob else p1) (if pl then p2 else p2 * prob).
Proof. destruct flip, pl; reflexivity. Qed.

Lemma mine_swap flip pl (p1 p2 : R) :
  (if fl flip pl then pfst flip p1 p2 else psnd flip p1 p2) = if pl then p1 else p2.
Proof. destruct flip, pl; reflexivity. Qed.

Lemma mult_swap flip pl pc p1 p2 :
  (if fl flip pl then pc * psnd flip p1 p2 else - pfst flip p1 p2 * pc) =
  sgn flip * (if pl then pc * p2 else - p1 * pc).
Proof. destruct flip, pl; unfold sgn, pfst, psnd; cbn [fl negb]; lra. Qed.

Definition ind (a n : nat) (w : R) (j : nat) : R :=
  if (a <=? j)%nat && (j <? a + n)%nat then w else 0.

Lemma ind_0 a w j : ind a 0 w j = 0.
Proof.
  unfold ind. destruct (Nat.leb_spec a j), (Nat.ltb_spec j (a + 0)); cbn [andb]; try reflexivity. lia.
Qed.

Lemma ind_w0 a n j : ind a n 0 j = 0.
Proof. unfold ind. destruct (_ && _); reflexivity. Qed.

Lemma ind_S a n w j :
  (if (j =? a)%nat then w else 0) + ind (S a) n w j = ind a (S n) w j.
Proof.
  unfold ind.
  destruct (Nat.eqb_spec j a), (Nat.leb_spec (S a) j), (Nat.ltb_spec j (S a + n)),
    (Nat.leb_spec a j), (Nat.ltb_spec j (a + S n)); cbn [andb]; try lia; lra.
Qed.

Lemma ind_in a n w j : (a <= j < a + n)%nat -> ind a n w j = w.
Proof.
  intros H. unfold ind.
  destruct (Nat.leb_spec a j), (Nat.ltb_spec j (a + n)); cbn [andb]; try lia; reflexivity.
Qed.

(** facts read off [shaped] and the invariant *)
Lemma shaped_kids (g : gameR) (ks : list nodeR) :
  (fix go (ks : list nodeR) : Prop := match ks with [] => True | c :: r => shaped g c /\ go r end) ks ->
  Forall (shaped g) ks.
Proof. induction ks as [|c ks IH]; intros H; constructor; [apply H|apply IH, H]. Qed.

Lemma shaped_Chance (g : gameR) ci kids :
  ChanceOK g -> shaped g (Chance ci kids) ->
  length (row (g_chance g) ci) = length kids /\ Rsum (row (g_chance g) ci) = 1 /\
  Forall (shaped g) kids.
Proof.
  intros HC (H1 & H2 & _ & H4). unfold row. split; [now symmetry|]. split; [|now apply shaped_kids].
  unfold ChanceOK in HC. rewrite Forall_forall in HC.
  apply (HC (nth ci (g_chance g) [])). now apply nth_In.
Qed.

Lemma Forall2_nth {A B} (Q : A -> B -> Prop) la lb i da db :
  Forall2 Q la lb -> (i < length la)%nat -> Q (nth i la da) (nth i lb db).
Proof.
  intros H; revert i; induction H as [|a b la lb Hab H IH]; intros i Hi; cbn [length] in Hi; [lia|].
  destruct i; cbn [nth]; [assumption|apply IH; lia].
Qed.

Lemma shaped_Player (g : gameR) pl i kids st :
  InvA (arities g true) (arities g false) st -> shaped g (Player pl i kids) ->
  RInvA (length kids) (@ri_get RNum st pl i) /\ Forall (shaped g) kids.
Proof.
  intros HI (H1 & H2 & _ & H4). split; [|now apply shaped_kids].
  assert (HF : Forall2 RInvA (arities g pl) (@ps_get RNum st pl)).
  { destruct HI as [Ha Hb]. destruct pl; assumption. }
  unfold ri_get. rewrite H2.
  replace (length (pi_actions (nth i (g_infos g pl) (mkPinfo 0 [] None))))
    with (nth i (arities g pl) (length (pi_actions (mkPinfo 0 [] None)))).
  - apply Forall2_nth; [exact HF|]. unfold arities. now rewrite map_length.
  - unfold arities. apply (map_nth (fun pi => length (pi_actions pi))).
Qed.

(** ** 5. The simulation of one traversal *)
Section Sim.
  Context (flip : bool) (s k : R).
  Context (g : gameR) (sampled : bool) (draw : oracleR) (pass : N).

  Local Notation gm := (s * sgn flip).
  Local Notation tn := (tnode flip (aff s k)).
  Local Notation rec := (@vrec RNum (g_chance g) sampled draw pass).
  Local Notation a1 := (arities g true).
  Local Notation a2 := (arities g false).
  Local Notation RSg := (RS flip (s * sgn flip)).

  (** what a non-zero shift needs from the game and the oracle *)
  Definition Good : Prop :=
    ChanceOK g /\
    (sampled = true ->
     forall ci, (ci < length (g_chance g))%nat ->
                (draw true ci pass (row (g_chance g) ci) < length (row (g_chance g) ci))%nat).

  Definition SimP (c : nodeR) : Prop :=
    forall pc p1 p2 st st' D,
      (k = 0 \/ (Good /\ shaped g c /\ 0 <= p1 /\ 0 <= p2 /\ InvA a1 a2 st)) ->
      RSg D st st' ->
      fst (rec (tn c) pc (pfst flip p1 p2) (psnd flip p1 p2) st') = s * fst (rec c pc p1 p2 st) + k /\
      RSg D (snd (rec c pc p1 p2 st)) (snd (rec (tn c) pc (pfst flip p1 p2) (psnd flip p1 p2) st')).

  Lemma vpick_sim pc p1 p2 ks :
    Forall SimP ks -> forall idx st st' D,
    (k = 0 \/ (Good /\ Forall (shaped g) ks /\ 0 <= p1 /\ 0 <= p2 /\ InvA a1 a2 st /\
               (idx < length ks)%nat)) ->
    RSg D st st' ->
    fst (vpick rec pc (pfst flip p1 p2) (psnd flip p1 p2) st' (map tn ks) idx) =
      s * fst (vpick rec pc p1 p2 st ks idx) + k /\
    RSg D (snd (vpick rec pc p1 p2 st ks idx))
        (snd (vpick rec pc (pfst flip p1 p2) (psnd flip p1 p2) st' (map tn ks) idx)).
  Proof.
    induction 1 as [|c ks Hc HK IH]; intros idx st st' D HS HR.
    - cbn [vpick map fst snd]. split; [|exact HR].
      destruct HS as [->|(_ & _ & _ & _ & _ & Hi)]; [lra|cbn [length] in Hi; lia].
    - destruct idx as [|idx].
      + cbn [map]. rewrite !vpick_O. cbn [fst snd].
        assert (HSc : k = 0 \/ (Good /\ shaped g c /\ 0 <= p1 /\ 0 <= p2 /\ InvA a1 a2 st)).
        { destruct HS as [HS|(G & HF & Q1 & Q2 & HI & _)]; [now left|right].
          inversion HF; subst. tauto. }
        destruct (Hc (pc * 1) p1 p2 st st' D HSc HR) as [Hu HR1].
        change (T RNum) with R in *. split; [rewrite Hu; lra|exact HR1].
      + cbn [map vpick]. apply IH; [|exact HR].
        destruct HS as [HS|(G & HF & Q1 & Q2 & HI & Hi)]; [now left|right].
        inversion HF; subst. cbn [length] in Hi.
        refine (conj G (conj _ (conj Q1 (conj Q2 (conj HI _))))); [assumption|lia].
  Qed.

  Lemma vgo_chance_sim pc p1 p2 ks :
    Forall SimP ks -> forall ps ex ex' st st' D,
    (k = 0 \/ (Good /\ Forall (shaped g) ks /\ 0 <= p1 /\ 0 <= p2 /\ InvA a1 a2 st)) ->
    RSg D st st' ->
    fst (vgo_chance rec pc (pfst flip p1 p2) (psnd flip p1 p2) ps (map tn ks) ex' st') - ex' =
      s * (fst (vgo_chance rec pc p1 p2 ps ks ex st) - ex) + k * Rsum (firstn (length ks) ps) /\
    RSg D (snd (vgo_chance rec pc p1 p2 ps ks ex st))
        (snd (vgo_chance rec pc (pfst flip p1 p2) (psnd flip p1 p2) ps (map tn ks) ex' st')).
  Proof.
    induction 1 as [|c ks Hc HK IH]; intros ps ex ex' st st' D HS HR.
    - destruct ps; cbn [vgo_chance map fst snd length firstn Rsum]; (split; [lra|exact HR]).
    - destruct ps as [|p ps].
      + cbn [vgo_chance map fst snd length firstn Rsum]. split; [lra|exact HR].
      + cbn [map]. rewrite !vgo_chance_cons. cbn [length firstn Rsum].
        assert (HSc : k = 0 \/ (Good /\ shaped g c /\ 0 <= p1 /\ 0 <= p2 /\ InvA a1 a2 st)).
        { destruct HS as [HS|(G & HF & Q1 & Q2 & HI)]; [now left|right].
          inversion HF; subst. tauto. }
        destruct (Hc (pc * p) p1 p2 st st' D HSc HR) as [Hu HR1].
        assert (HSr : k = 0 \/ (Good /\ Forall (shaped g) ks /\ 0 <= p1 /\ 0 <= p2 /\
                                InvA a1 a2 (snd (rec c (pc * p) p1 p2 st)))).
        { destruct HS as [HS|(G & HF & Q1 & Q2 & HI)]; [now left|right].
          inversion HF; subst. refine (conj G (conj _ (conj Q1 (conj Q2 _)))); [assumption|].
          now apply (vrec_inv a1 a2 (g_chance g) sampled draw pass c). }
        destruct (IH ps (ex + p * fst (rec c (pc * p) p1 p2 st))
                     (ex' + p * fst (rec (tn c) (pc * p) (pfst flip p1 p2) (psnd flip p1 p2) st'))
                     _ _ D HSr HR1) as [I1 I2].
        change (T RNum) with R in *. split; [|exact I2]. rewrite Hu in I1 |- *. lra.
  Qed.

  Lemma vgo_player_sim pl i pc p1 p2 mult mult' ks :
    Forall SimP ks -> mult' = sgn flip * mult ->
    forall ss ai e1 e e1' e' st st' D,
    (k = 0 \/ (Good /\ Forall (shaped g) ks /\ Forall (fun x => 0 <= x) ss /\
               0 <= p1 /\ 0 <= p2 /\ InvA a1 a2 st)) ->
    RSg D st st' ->
    let r := vgo_player rec pl i pc p1 p2 mult ks ss ai e1 e st in
    let r' := vgo_player rec (fl flip pl) i pc (pfst flip p1 p2) (psnd flip p1 p2) mult'
                         (map tn ks) ss ai e1' e' st' in
    fst (fst r') - e1' = s * (fst (fst r) - e1) + k * Rsum (firstn (length ks) ss) /\
    snd (fst r') - e' = gm * (snd (fst r) - e) + k * mult' * Rsum (firstn (length ks) ss) /\
    RSg (setD D pl i (fun j => D pl i j + ind ai (Nat.min (length ks) (length ss)) (k * mult') j))
        (snd r) (snd r').
  Proof.
    intros HK Hm. induction HK as [|c ks Hc HK IH]; intros ss ai e1 e e1' e' st st' D HS HR; cbv zeta.
    - cbn [vgo_player map fst snd length firstn Rsum Nat.min]. split; [lra|]. split; [lra|].
      eapply RS_ext; [|exact HR]. intros q i' j. unfold setD.
      destruct (Bool.eqb q pl) eqn:E1, (Nat.eqb_spec i' i) as [E2|E2]; cbn [andb]; try reflexivity.
      apply eqb_prop in E1. subst. rewrite ind_0. lra.
    - destruct ss as [|prob ss].
      + cbn [vgo_player map fst snd length firstn Rsum Nat.min]. split; [lra|]. split; [lra|].
        eapply RS_ext; [|exact HR]. intros q i' j. unfold setD.
        destruct (Bool.eqb q pl) eqn:E1, (Nat.eqb_spec i' i) as [E2|E2]; cbn [andb]; try reflexivity.
        apply eqb_prop in E1. subst. rewrite ind_0. lra.
      + cbn [map]. rewrite !vgo_player_cons. cbv zeta. rewrite q1_swap, q2_swap.
        set (q1 := if pl then p1 * prob else p1). set (q2 := if pl then p2 else p2 * prob).
        assert (Hq : k = 0 \/ (0 <= q1 /\ 0 <= q2 /\ 0 <= prob)).
        { destruct HS as [HS|(G & HF & Hss & Q1 & Q2 & HI)]; [now left|right].
          inversion Hss; subst. unfold q1, q2. destruct pl; repeat split; try assumption;
            now apply Rmult_le_pos. }
        assert (HSc : k = 0 \/ (Good /\ shaped g c /\ 0 <= q1 /\ 0 <= q2 /\ InvA a1 a2 st)).
        { destruct HS as [HS|(G & HF & Hss & Q1 & Q2 & HI)]; [now left|].
          destruct Hq as [Hq|(Hq1 & Hq2 & _)]; [now left|right].
          inversion HF; subst. exact (conj G (conj H1 (conj Hq1 (conj Hq2 HI)))). }
        destruct (Hc pc q1 q2 st st' D HSc HR) as [Hu HR1]. change (T RNum) with R in *.
        set (r := rec c pc q1 q2 st) in *.
        set (r' := rec (tn c) pc (pfst flip q1 q2) (psnd flip q1 q2) st') in *.
        destruct (RS_get flip gm D (snd r) (snd r') pl i HR1) as (Hs & Hcs & Hcr).
        change (T RNum) with R in *. rewrite Hs, Hcs, Hcr.
        replace (fst r' * mult') with (gm * (fst r * mult) + k * mult')
          by (rewrite Hu, Hm; ring).
        rewrite offl_upd. cbn [Nat.add].
        set (cr := cum_regret (@ri_get RNum (snd r) pl i)).
        set (d1 := fun x : nat => if (x =? ai)%nat then D pl i x + k * mult' else D pl i x).
        assert (HR2 : RSg (setD D pl i d1)
                  (@ri_set RNum (snd r) pl i
                     (@mkRinfo RNum (upd cr ai (nth ai cr 0 + fst r * mult))
                               (cum_strat (@ri_get RNum (snd r) pl i))
                               (strat (@ri_get RNum (snd r) pl i))))
                  (@ri_set RNum (snd r') (fl flip pl) i
                     (@mkRinfo RNum (offl gm d1 0 (upd cr ai (nth ai cr 0 + fst r * mult)))
                               (cum_strat (@ri_get RNum (snd r) pl i))
                               (strat (@ri_get RNum (snd r) pl i))))).
        { apply RS_set; [exact HR1|]. repeat split. }
        assert (HSr : k = 0 \/ (Good /\ Forall (shaped g) ks /\ Forall (fun x => 0 <= x) ss /\
                                0 <= p1 /\ 0 <= p2 /\
                                InvA a1 a2 (@ri_set RNum (snd r) pl i
                     (@mkRinfo RNum (upd cr ai (nth ai cr 0 + fst r * mult))
                               (cum_strat (@ri_get RNum (snd r) pl i))
                               (strat (@ri_get RNum (snd r) pl i)))))).
        { destruct HS as [HS|(G & HF & Hss & Q1 & Q2 & HI)]; [now left|].
          destruct Hq as [Hq|(Hq1 & Hq2 & _)]; [now left|right].
          inversion HF; inversion Hss; subst.
          refine (conj G (conj _ (conj _ (conj Q1 (conj Q2 _))))); try assumption.
          apply InvA_set.
          - now apply (vrec_inv a1 a2 (g_chance g) sampled draw pass c).
          - intros a. apply RInvA_regret. apply upd_length. }
        destruct (IH ss (S ai) (e1 + prob * fst r) (e + fst r * mult * prob)
                     (e1' + prob * fst r') (e' + (gm * (fst r * mult) + k * mult') * prob)
                     _ _ _ HSr HR2) as (I1 & I2 & I3).
        cbn [length firstn Rsum Nat.min].
        rewrite Hu in I1, I2, I3 |- *.
        change (T RNum) with R in *. split; [lra|]. split; [lra|].
        eapply RS_ext; [|exact I3]. intros q i' j. unfold setD.
        destruct (Bool.eqb q pl) eqn:E1, (Nat.eqb_spec i' i) as [E2|E2]; cbn [andb]; try reflexivity.
        apply eqb_prop in E1. subst. rewrite eqb_reflx, Nat.eqb_refl. cbn [andb]. unfold d1.
        rewrite <- (ind_S ai). destruct (j =? ai)%nat; lra.
  Qed.

  Lemma if_elim2 {A} (b : bool) (P : A -> A -> Prop) x y x' y' :
    (b = true -> P x x') -> (b = false -> P y y') ->
    P (if b then x else y) (if b then x' else y').
  Proof. destruct b; auto. Qed.

  Lemma vrec_sim n : SimP n.
  Proof.
    induction n as [x|ci kids IH|pl i kids IH] using node_ind'; intros pc p1 p2 st st' D HS HR.
    - cbn [tnode]. rewrite !vrec_Term. cbn [fst snd]. split; [reflexivity|exact HR].
    - cbn [tnode]. rewrite !vrec_Chance.
      apply (if_elim2 sampled (fun r r' => fst r' = s * fst r + k /\ RSg D (snd r) (snd r'))); intros Es.
      + apply vpick_sim; [exact IH| |exact HR].
        destruct HS as [HS|(G & Hsh & Q1 & Q2 & HI)]; [now left|right].
        destruct (shaped_Chance g ci kids (proj1 G) Hsh) as (HL & _ & HF).
        refine (conj G (conj HF (conj Q1 (conj Q2 (conj HI _))))).
        rewrite <- HL. apply (proj2 G); [assumption|]. apply Hsh.
      + assert (HSk : k = 0 \/ (Good /\ Forall (shaped g) kids /\ 0 <= p1 /\ 0 <= p2 /\ InvA a1 a2 st)).
        { destruct HS as [HS|(G & Hsh & Q1 & Q2 & HI)]; [now left|right].
          destruct (shaped_Chance g ci kids (proj1 G) Hsh) as (_ & _ & HF). tauto. }
        destruct (vgo_chance_sim pc p1 p2 kids IH (row (g_chance g) ci) 0 0 st st' D HSk HR) as [I1 I2].
        split; [|exact I2].
        assert (HX : k = 0 \/ Rsum (firstn (length kids) (row (g_chance g) ci)) = 1).
        { destruct HS as [HS|(G & Hsh & _)]; [now left|right].
          destruct (shaped_Chance g ci kids (proj1 G) Hsh) as (HL & HSum & _).
          now rewrite <- HL, firstn_all. }
        change (T RNum) with R in *.
        destruct HX as [HX|HX]; [rewrite HX in I1 |- *|rewrite HX in I1]; lra.
    - cbn [tnode]. rewrite !vrec_Player. cbv zeta.
      rewrite mine_swap, mult_swap.
      destruct (RS_get flip gm D st st' pl i HR) as (Hs & Hcs & Hcr).
      change (T RNum) with R in *. rewrite Hs, Hcs, Hcr.
      set (ri := @ri_get RNum st pl i) in *.
      set (mine := if pl then p1 else p2).
      set (mult := if pl then pc * p2 else - p1 * pc).
      match goal with
      | |- context [vgo_player _ pl i pc p1 p2 mult kids (strat ri) 0%nat 0 0 ?X] => set (st0 := X) in *
      end.
      match goal with
      | |- context [vgo_player _ (fl flip pl) i pc _ _ _ (map _ kids) (strat ri) 0%nat 0 0 ?X] =>
          set (st0' := X) in *
      end.
      assert (HR0 : RSg D st0 st0') by (apply RS_set_same; [exact HR|repeat split]).
      assert (HS0 : k = 0 \/ (Good /\ Forall (shaped g) kids /\ Forall (fun x => 0 <= x) (strat ri) /\
                              0 <= p1 /\ 0 <= p2 /\ InvA a1 a2 st0)).
      { destruct HS as [HS|(G & Hsh & Q1 & Q2 & HI)]; [now left|right].
        destruct (shaped_Player g pl i kids st HI Hsh) as [_ HF].
        refine (conj G (conj HF (conj _ (conj Q1 (conj Q2 _))))).
        - apply (InvA_strat_nonneg a1 a2 st pl i HI).
        - apply InvA_set; [exact HI|]. intros a. fold ri.
          apply (RInvA_cum_strat a ri (fun vc : R * R => snd vc + mine * fst vc)).
          intros x y Hx Hy; cbn [fst snd].
          assert (Hm : 0 <= mine) by (unfold mine; now destruct pl).
          pose proof (Rmult_le_pos _ _ Hm Hx). lra. }
      pose proof (vgo_player_sim pl i pc p1 p2 mult (sgn flip * mult) kids IH eq_refl
                    (strat ri) O 0 0 0 0 st0 st0' D HS0 HR0) as HG. cbv zeta in HG.
      (* facts available when the shift is non-zero *)
      assert (HX : k = 0 \/
                   (Rsum (firstn (length kids) (strat ri)) = 1 /\
                    Nat.min (length kids) (length (strat ri)) = length kids /\
                    length (cum_regret (@ri_get RNum
                       (snd (vgo_player rec pl i pc p1 p2 mult kids (strat ri) 0 0 0 st0)) pl i))
                    = length kids)).
      { destruct HS as [HS|(G & Hsh & Q1 & Q2 & HI)]; [now left|].
        destruct HS0 as [HS0|(_ & HF & Hnn & _ & _ & HI0)]; [now left|right].
        destruct (shaped_Player g pl i kids st HI Hsh) as [(Hv & _ & _ & _ & L3) _]. fold ri in Hv, L3.
        split; [rewrite <- L3, firstn_all; apply Hv|]. split; [rewrite L3; apply Nat.min_id|].
        assert (HI2 : InvA a1 a2 (snd (vgo_player rec pl i pc p1 p2 mult kids (strat ri) 0 0 0 st0))).
        { apply vgo_player_inv; try assumption.
          apply Forall_forall. intros c _. apply vrec_inv. }
        destruct (shaped_Player g pl i kids _ HI2 Hsh) as [(_ & _ & L1 & _) _]. exact L1. }
      remember (vgo_player rec pl i pc p1 p2 mult kids (strat ri) 0 0 0 st0) as R0 eqn:ER0.
      remember (vgo_player rec (fl flip pl) i pc (pfst flip p1 p2) (psnd flip p1 p2)
                           (sgn flip * mult) (map tn kids) (strat ri) 0 0 0 st0') as R0' eqn:ER0'.
      destruct R0 as [[E1 E] ST], R0' as [[E1' E'] ST']. cbn [fst snd] in HG, HX |- *.
      destruct HG as (G1 & G2 & G3).
      pose proof (RS_get flip gm _ ST ST' pl i G3) as G4. unfold setD in G4 at 1.
      rewrite eqb_reflx, Nat.eqb_refl in G4. cbn [andb] in G4.
      destruct G4 as (Hs2 & Hcs2 & Hcr2). change (T RNum) with R in *. rewrite Hs2, Hcs2, Hcr2.
      set (w := k * (sgn flip * mult)) in *.
      assert (HE : E1' = s * E1 + k /\ E' = gm * E + w).
      { destruct HX as [HX|(HX & _)]; [unfold w in *; rewrite HX in G1, G2 |- *|rewrite HX in G1, G2]; split; lra. }
      destruct HE as [HE1 HE]. split; [exact HE1|].
      rewrite HE, offl_map_sub.
      eapply RS_ext; [|eapply (RS_set flip gm _ ST ST' pl i (D pl i)); [exact G3|]].
      + intros q i' j. unfold setD.
        destruct (Bool.eqb q pl) eqn:Q1, (Nat.eqb_spec i' i) as [Q2|Q2]; cbn [andb]; try reflexivity.
        apply eqb_prop in Q1. now subst.
      + eapply Rri_ext; [|repeat split]. cbn [cum_regret]. rewrite map_length. intros j Hj.
        destruct HX as [HX|(_ & HX1 & HX2)].
        * unfold w. rewrite HX. replace (0 * (sgn flip * mult)) with 0 by lra. rewrite ind_w0. lra.
        * rewrite ind_in by lia. lra.
  Qed.
End Sim.

(** ** 6. Between traversals the offsets are zero: the relation is
    "cumulative regret multiplied by [gm], everything else equal (players
    exchanged when [flip])" *)
Definition D0 : bool -> nat -> nat -> R := fun _ _ _ => 0.
Definition Rri0 (gm : R) : rinfoR -> rinfoR -> Prop := Rri gm (fun _ => 0).
Definition RS0 (flip : bool) (gm : R) : pstateR -> pstateR -> Prop := RS flip gm D0.

Lemma Rri0_spec gm ri ri' :
  Rri0 gm ri ri' <->
  strat ri' = strat ri /\ cum_strat ri' = cum_strat ri /\ cum_regret ri' = map (Rmult gm) (cum_regret ri).
Proof. unfold Rri0, Rri. now rewrite offl_zero. Qed.

Lemma Forall2_of_nth {A} (Q : A -> A -> Prop) (d : A) l l' :
  length l' = length l -> (forall i, Q (nth i l d) (nth i l' d)) -> Forall2 Q l l'.
Proof.
  revert l'; induction l as [|x l IH]; intros [|y l'] HL H; cbn [length] in HL; try discriminate;
    constructor.
  - apply (H 0%nat).
  - apply IH; [lia|]. intros i. apply (H (S i)).
Qed.

Lemma Forall2_to_nth {A} (Q : A -> A -> Prop) (d : A) l l' :
  Q d d -> Forall2 Q l l' -> length l' = length l /\ forall i, Q (nth i l d) (nth i l' d).
Proof.
  intros Hd H. induction H as [|x y l l' Hxy H [IH1 IH2]].
  - split; [reflexivity|]. intros i; destruct i; exact Hd.
  - split; [cbn [length]; now rewrite IH1|]. intros i; destruct i; cbn [nth]; [exact Hxy|apply IH2].
Qed.

Lemma RS0_iff flip gm st st' :
  RS0 flip gm st st' <->
  forall pl, Forall2 (Rri0 gm) (@ps_get RNum st pl) (@ps_get RNum st' (fl flip pl)).
Proof.
  unfold RS0, RS, D0, ri_get. split; intros H pl.
  - destruct (H pl) as [HL HR]. eapply Forall2_of_nth; [exact HL|exact HR].
  - apply Forall2_to_nth; [apply Rri_default|apply H].
Qed.

(** *** [advance] *)
Lemma advance_sim gm (p : paramsR) it ia ri ri' :
  0 < gm -> (gm = 1 \/ nopos_ok p) -> Rri0 gm ri ri' ->
  Rri0 gm (fst (@advance RNum p it ia ri)) (fst (@advance RNum p it ia ri')) /\
  snd (@advance RNum p it ia ri') = gm * snd (@advance RNum p it ia ri).
Proof.
  intros Hg Hp H. apply Rri0_spec in H. destruct H as (H1 & H2 & H3).
  rewrite !advance_order. cbn [fst snd]. rewrite H2, H3.
  rewrite discount_cum_regret_scale by assumption. split.
  - apply Rri0_spec. cbn [strat cum_strat cum_regret]. split; [|split; reflexivity].
    destruct Hp as [->|Hp]; [now rewrite map_Rmult_1|now apply regret_match_scale].
  - apply cum_regret_bound_scale. lra.
Qed.

Lemma advance_all_sim gm (p : paramsR) it ia l l' :
  0 < gm -> (gm = 1 \/ nopos_ok p) -> Forall2 (Rri0 gm) l l' ->
  forall acc acc' : R, acc' = gm * acc ->
  Forall2 (Rri0 gm) (fst (@advance_all RNum p it ia l acc)) (fst (@advance_all RNum p it ia l' acc')) /\
  snd (@advance_all RNum p it ia l' acc') = gm * snd (@advance_all RNum p it ia l acc).
Proof.
  intros Hg Hp H. induction H as [|ri ri' l l' Hri H IH]; intros acc acc' Hacc.
  - cbn [advance_all fst snd]. split; [constructor|exact Hacc].
  - rewrite !advance_all_cons. cbn [fst snd].
    destruct (advance_sim gm p it ia ri ri' Hg Hp Hri) as [A1 A2].
    destruct (IH (acc + snd (@advance RNum p it ia ri)) (acc' + snd (@advance RNum p it ia ri'))) as [B1 B2].
    { change (T RNum) with R in *. rewrite A2, Hacc. lra. }
    split; [constructor; assumption|exact B2].
Qed.

Lemma pfst_same flip x : pfst flip x x = x.  Proof. destruct flip; reflexivity. Qed.
Lemma psnd_same flip x : psnd flip x x = x.  Proof. destruct flip; reflexivity. Qed.

(** *** one iteration *)
Lemma vanilla_iter_sim flip s k (g : gameR) sampled (draw : oracleR) (p : paramsR) it st st' :
  0 < s * sgn flip -> (s * sgn flip = 1 \/ nopos_ok p) ->
  (k = 0 \/ (Good g sampled draw (it - 1)%N /\ shaped g (g_root g) /\
             InvA (arities g true) (arities g false) st)) ->
  RS0 flip (s * sgn flip) st st' ->
  let r := @vanilla_iter RNum g sampled draw p it st in
  let r' := @vanilla_iter RNum (tgame flip (aff s k) g) sampled draw p it st' in
  RS0 flip (s * sgn flip) (fst r) (fst r') /\
  snd r' = swp flip (s * sgn flip * fst (snd r), s * sgn flip * snd (snd r)).
Proof.
  intros Hg Hp HS HR. cbv zeta. rewrite !vanilla_iter_eq. cbv zeta. cbn [tgame g_chance g_root fst snd].
  assert (HSr : k = 0 \/ (Good g sampled draw (it - 1)%N /\ shaped g (g_root g) /\ 0 <= 1 /\ 0 <= 1 /\
                          InvA (arities g true) (arities g false) st)).
  { destruct HS as [HS|(G & Hsh & HI)]; [now left|right].
    refine (conj G (conj Hsh (conj _ (conj _ HI)))); lra. }
  destruct (vrec_sim flip s k g sampled draw (it - 1)%N (g_root g) 1 1 1 st st' D0 HSr HR) as [_ H1].
  rewrite pfst_same, psnd_same in H1.
  set (st1 := snd (@vrec RNum (g_chance g) sampled draw (it - 1)%N (g_root g) 1 1 1 st)) in *.
  set (st1' := snd (@vrec RNum (g_chance g) sampled draw (it - 1)%N
                          (tnode flip (aff s k) (g_root g)) 1 1 1 st')) in *.
  fold (RS0 flip (s * sgn flip) st1 st1') in H1. rewrite RS0_iff in H1.
  pose proof (H1 true) as Ht. pose proof (H1 false) as Hf.
  rewrite RS0_iff. destruct flip; cbn [fl negb ps_get swp fst snd] in *.
  - destruct (advance_all_sim _ p it it _ _ Hg Hp Ht 0 0 ltac:(lra)) as [A1 A2].
    destruct (advance_all_sim _ p it it _ _ Hg Hp Hf 0 0 ltac:(lra)) as [B1 B2].
    split; [intros [|]; cbn [fl negb ps_get fst snd]; assumption|].
    change (T RNum) with R in *. now rewrite A2, B2.
  - destruct (advance_all_sim _ p it it _ _ Hg Hp Ht 0 0 ltac:(lra)) as [A1 A2].
    destruct (advance_all_sim _ p it it _ _ Hg Hp Hf 0 0 ltac:(lra)) as [B1 B2].
    split; [intros [|]; cbn [fl negb ps_get fst snd]; assumption|].
    change (T RNum) with R in *. now rewrite A2, B2.
Qed.

(** *** the loop *)
Definition vmethod (sampled : bool) : method := if sampled then Sampled else Full.

Lemma one_iter_vmethod (g : gameR) sampled draw p it st :
  @one_iter RNum g (vmethod sampled) draw p it st = @vanilla_iter RNum g sampled draw p it st.
Proof. destruct sampled; reflexivity. Qed.

(** what a non-zero shift needs, for the whole run *)
Definition ShiftSide (g : gameR) (sampled : bool) (draw : oracleR) : Prop :=
  ChanceOK g /\ shaped g (g_root g) /\ arities_pos g /\
  (sampled = true ->
   forall pass ci, (ci < length (g_chance g))%nat ->
                   (draw true ci pass (row (g_chance g) ci) < length (row (g_chance g) ci))%nat).

Definition treg (flip : bool) (gm : R) (rr : R * R) : R * R := swp flip (gm * fst rr, gm * snd rr).

Lemma treg_max flip gm rr : 0 <= gm -> Rmax (fst (treg flip gm rr)) (snd (treg flip gm rr)) = gm * Rmax (fst rr) (snd rr).
Proof.
  intros Hg. unfold treg. destruct flip; cbn [swp fst snd].
  - rewrite Rmax_comm. now apply RmaxRmult.
  - now apply RmaxRmult.
Qed.

Lemma solve_loop_sim flip s k (g : gameR) sampled (draw : oracleR) (p : paramsR) (stop stop' : R -> bool) rem :
  0 < s * sgn flip -> (s * sgn flip = 1 \/ nopos_ok p) ->
  (k = 0 \/ ShiftSide g sampled draw) ->
  (forall b, stop' (s * sgn flip * b) = stop b) ->
  forall it st st' regs ran,
  (k = 0 \/ InvA (arities g true) (arities g false) st) ->
  RS0 flip (s * sgn flip) st st' ->
  let r := @solve_loop RNum g (vmethod sampled) draw p stop rem it st regs ran in
  let r' := @solve_loop RNum (tgame flip (aff s k) g) (vmethod sampled) draw p stop' rem it st'
                        (option_map (treg flip (s * sgn flip)) regs) ran in
  RS0 flip (s * sgn flip) (fst (fst r)) (fst (fst r')) /\
  snd (fst r') = option_map (treg flip (s * sgn flip)) (snd (fst r)) /\
  snd r' = snd r.
Proof.
  intros Hg Hp HK Hstop. induction rem as [|rem IH]; intros it st st' regs ran HI HR; cbv zeta.
  - cbn [solve_loop fst snd]. auto.
  - cbn [solve_loop]. rewrite !one_iter_vmethod.
    assert (HS : k = 0 \/ (Good g sampled draw (it - 1)%N /\ shaped g (g_root g) /\
                           InvA (arities g true) (arities g false) st)).
    { destruct HK as [HK|(C & Hsh & _ & Ho)]; [now left|]. destruct HI as [HI|HI]; [now left|right].
      split; [split; [exact C|]|split; assumption]. intros Es ci Hci. now apply Ho. }
    pose proof (vanilla_iter_sim flip s k g sampled draw p it st st' Hg Hp HS HR) as H. cbv zeta in H.
    assert (HI' : k = 0 \/ InvA (arities g true) (arities g false)
                               (fst (@vanilla_iter RNum g sampled draw p it st))).
    { destruct HI as [HI|HI]; [now left|right]. rewrite <- one_iter_vmethod. now apply one_iter_inv. }
    destruct (@vanilla_iter RNum g sampled draw p it st) as [st1 [r1 r2]].
    destruct (@vanilla_iter RNum (tgame flip (aff s k) g) sampled draw p it st') as [st1' [r1' r2']].
    cbn [fst snd] in H, HI'. destruct H as [H1 H2].
    assert (E : (r1', r2') = treg flip (s * sgn flip) (r1, r2)) by exact H2.
    assert (Est : stop' (fmax RNum r1' r2') = stop (fmax RNum r1 r2)).
    { cbn [fmax RNum]. rewrite <- Hstop. f_equal.
      replace r1' with (fst (treg flip (s * sgn flip) (r1, r2))) by now rewrite <- E.
      replace r2' with (snd (treg flip (s * sgn flip) (r1, r2))) by now rewrite <- E.
      apply treg_max. lra. }
    rewrite Est. destruct (stop (fmax RNum r1 r2)).
    + cbn [fst snd option_map]. rewrite E. auto.
    + rewrite E. apply (IH (it + 1)%N st1 st1' (Some (r1, r2)) it HI' H1).
Qed.

(** *** initial state and final strategies *)
Lemma init_infos_sim gm (infos : list pinfo) :
  Forall2 (Rri0 gm) (map (fun pi => @rinfo_new RNum (length (pi_actions pi))) infos)
          (map (fun pi => @rinfo_new RNum (length (pi_actions pi))) infos).
Proof.
  induction infos as [|pi l IH]; cbn [map]; constructor; [|exact IH].
  apply Rri0_spec. unfold rinfo_new; cbn [strat cum_strat cum_regret].
  split; [reflexivity|]. split; [reflexivity|]. symmetry. apply repeatT_zero_scale.
Qed.

Lemma init_state_sim flip gm f (g : gameR) :
  RS0 flip gm (@init_state RNum g) (@init_state RNum (tgame flip f g)).
Proof.
  apply RS0_iff. intros pl. unfold init_state, tgame; cbn [g_infos1 g_infos2].
  destruct flip, pl; cbn [fl negb ps_get fst snd g_infos]; apply init_infos_sim.
Qed.

Lemma avg_rows_sim gm l l' :
  Forall2 (Rri0 gm) l l' ->
  map (fun ri => @avg_strat RNum (cum_strat ri)) l' = map (fun ri => @avg_strat RNum (cum_strat ri)) l.
Proof.
  induction 1 as [|ri ri' l l' Hri H IH]; cbn [map]; [reflexivity|].
  apply Rri0_spec in Hri. destruct Hri as (_ & -> & _). now rewrite IH.
Qed.

Lemma final_strats_sim flip gm st st' :
  RS0 flip gm st st' -> @final_strats RNum st' = swp flip (@final_strats RNum st).
Proof.
  intros H. rewrite RS0_iff in H. pose proof (H true) as Ht. pose proof (H false) as Hf.
  unfold final_strats. destruct flip; cbn [fl negb ps_get swp fst snd] in *;
    now rewrite (avg_rows_sim _ _ _ Ht), (avg_rows_sim _ _ _ Hf).
Qed.

(** ** 7. The general statement: players exchanged or not, payoff [x |-> s*x + k] *)
Theorem solve_single_tgame flip s k (g : gameR) sampled (draw : oracleR) (p : paramsR) budget
        (stop stop' : R -> bool) :
  0 < s * sgn flip -> (s * sgn flip = 1 \/ nopos_ok p) ->
  (k = 0 \/ ShiftSide g sampled draw) ->
  (forall b, stop' (s * sgn flip * b) = stop b) ->
  @solve_single RNum (tgame flip (aff s k) g) (vmethod sampled) draw p budget stop' =
  let '(strats, regs, ran) := @solve_single RNum g (vmethod sampled) draw p budget stop in
  (swp flip strats, option_map (treg flip (s * sgn flip)) regs, ran).
Proof.
  intros Hg Hp HK Hstop. unfold solve_single.
  assert (HI : k = 0 \/ InvA (arities g true) (arities g false) (@init_state RNum g)).
  { destruct HK as [HK|(_ & _ & Ha & _)]; [now left|right]. now apply init_state_inv. }
  pose proof (solve_loop_sim flip s k g sampled draw p stop stop' budget Hg Hp HK Hstop 1%N
                (@init_state RNum g) (@init_state RNum (tgame flip (aff s k) g)) None 0%N HI
                (init_state_sim flip _ _ g)) as H.
  cbv zeta in H. cbn [option_map] in H.
  destruct (@solve_loop RNum g _ _ _ _ _ _ _ _ _) as [[st regs] ran].
  destruct (@solve_loop RNum (tgame flip (aff s k) g) _ _ _ _ _ _ _ _ _) as [[st' regs'] ran'].
  cbn [fst snd] in H. destruct H as (H1 & H2 & H3). subst regs' ran'.
  now rewrite (final_strats_sim _ _ _ _ H1).
Qed.

(** ** 8. The three properties *)

(** B1. scaling the payoffs by [c > 0]: same strategies, bounds multiplied by [c],
    same number of iterations when the threshold is scaled accordingly *)
Theorem solve_scale_gen c (g : gameR) sampled (draw : oracleR) (p : paramsR) budget (stop stop' : R -> bool) :
  0 < c -> nopos_ok p -> (forall b, stop' (c * b) = stop b) ->
  @solve_single RNum (scale c g) (vmethod sampled) draw p budget stop' =
  let '(strats, regs, ran) := @solve_single RNum g (vmethod sampled) draw p budget stop in
  (strats, option_map (fun rr : R * R => (c * fst rr, c * snd rr)) regs, ran).
Proof.
  intros Hc Hp Hstop. rewrite scale_tgame.
  rewrite (solve_single_tgame false c 0 g sampled draw p budget stop stop').
  - destruct (@solve_single RNum g _ _ _ _ _) as [[strats regs] ran]. cbn [swp].
    f_equal. f_equal. destruct regs as [[r1 r2]|]; cbn [option_map]; [|reflexivity].
    unfold treg, sgn; cbn [swp fst snd]. change (T RNum) with R in *. repeat f_equal; lra.
  - unfold sgn; lra.
  - now right.
  - now left.
  - intros b. rewrite <- Hstop. f_equal. unfold sgn; lra.
Qed.

Theorem solve_scale c (g : gameR) sampled (draw : oracleR) (p : paramsR) budget (stop : R -> bool) :
  0 < c -> nopos_ok p ->
  @solve_single RNum (scale c g) (vmethod sampled) draw p budget (fun b => stop (b / c)) =
  let '(strats, regs, ran) := @solve_single RNum g (vmethod sampled) draw p budget stop in
  (strats, option_map (fun rr : R * R => (c * fst rr, c * snd rr)) regs, ran).
Proof.
  intros Hc Hp. apply solve_scale_gen; try assumption. intros b. f_equal. field. lra.
Qed.

(** B2. adding a constant to the payoffs: the two runs are equal *)
Theorem solve_shift k (g : gameR) sampled (draw : oracleR) (p : paramsR) budget (stop : R -> bool) :
  ShiftSide g sampled draw ->
  @solve_single RNum (shift k g) (vmethod sampled) draw p budget stop =
  @solve_single RNum g (vmethod sampled) draw p budget stop.
Proof.
  intros HS. rewrite shift_tgame.
  rewrite (solve_single_tgame false 1 k g sampled draw p budget stop stop).
  - destruct (@solve_single RNum g _ _ _ _ _) as [[strats regs] ran]. cbn [swp].
    f_equal. f_equal. destruct regs as [[r1 r2]|]; cbn [option_map]; [|reflexivity].
    unfold treg, sgn; cbn [swp fst snd]. change (T RNum) with R in *. repeat f_equal; lra.
  - unfold sgn; lra.
  - left. unfold sgn; lra.
  - now right.
  - intros b. f_equal. unfold sgn; lra.
Qed.

(** B3. exchanging the players and negating the payoffs: strategies and bounds exchanged *)
Theorem solve_swap (g : gameR) sampled (draw : oracleR) (p : paramsR) budget (stop : R -> bool) :
  @solve_single RNum (swap g) (vmethod sampled) draw p budget stop =
  let '(strats, regs, ran) := @solve_single RNum g (vmethod sampled) draw p budget stop in
  ((snd strats, fst strats), option_map (fun rr : R * R => (snd rr, fst rr)) regs, ran).
Proof.
  rewrite swap_tgame.
  rewrite (solve_single_tgame true (-1) 0 g sampled draw p budget stop stop).
  - destruct (@solve_single RNum g _ _ _ _ _) as [[strats regs] ran]. cbn [swp].
    f_equal. f_equal. destruct regs as [[r1 r2]|]; cbn [option_map]; [|reflexivity].
    unfold treg, sgn; cbn [swp fst snd]. change (T RNum) with R in *. repeat f_equal; lra.
  - unfold sgn; lra.
  - left. unfold sgn; lra.
  - now left.
  - intros b. f_equal. unfold sgn; lra.
Qed.

(** the unsampled method, as the statements are usually read *)
Corollary solve_scale_full c (g : gameR) (draw : oracleR) (p : paramsR) budget (stop : R -> bool) :
  0 < c -> nopos_ok p ->
  @solve_single RNum (scale c g) Full draw p budget (fun b => stop (b / c)) =
  let '(strats, regs, ran) := @solve_single RNum g Full draw p budget stop in
  (strats, option_map (fun rr : R * R => (c * fst rr, c * snd rr)) regs, ran).
Proof. exact (solve_scale c g false draw p budget stop). Qed.

Corollary solve_shift_full k (g : gameR) (draw : oracleR) (p : paramsR) budget (stop : R -> bool) :
  ChanceOK g -> shaped g (g_root g) -> arities_pos g ->
  @solve_single RNum (shift k g) Full draw p budget stop = @solve_single RNum g Full draw p budget stop.
Proof.
  intros H1 H2 H3. apply (solve_shift k g false draw p budget stop).
  repeat split; try assumption. discriminate.
Qed.

Corollary solve_swap_full (g : gameR) (draw : oracleR) (p : paramsR) budget (stop : R -> bool) :
  @solve_single RNum (swap g) Full draw p budget stop =
  let '(strats, regs, ran) := @solve_single RNum g Full draw p budget stop in
  ((snd strats, fst strats), option_map (fun rr : R * R => (snd rr, fst rr)) regs, ran).
Proof. exact (solve_swap g false draw p budget stop). Qed.

(** all presets satisfy the side condition of B1 *)
Lemma presets_nopos_ok :
  nopos_ok (@p_vanilla RNum) /\ nopos_ok (@p_lcfr RNum) /\ nopos_ok (@p_cfr_plus RNum) /\
  nopos_ok (@p_dcfr RNum) /\ nopos_ok (@p_dcfr_prune RNum) /\ nopos_ok (@p_default RNum).
Proof. unfold nopos_ok; cbn; tauto. Qed.

(** ** 9. Non-vacuity: a small game with a chance node *)
Definition pg_game : gameR :=
  @mkGame RNum [[1 / 2; 1 / 2]] [mkPinfo 0 [0%N; 1%N] None] [mkPinfo 0 [0%N; 1%N] None] [] []
    (@Chance RNum 0
       [@Player RNum true 0
          [@Player RNum false 0 [@Term RNum 1; @Term RNum (-1)]; @Term RNum 0];
        @Player RNum true 0
          [@Term RNum 2; @Player RNum false 0 [@Term RNum (-1); @Term RNum 3]]]).

Definition draw0 : oracleR := fun _ _ _ _ => 0%nat.

Lemma pg_ShiftSide sampled : ShiftSide pg_game sampled draw0.
Proof.
  unfold ShiftSide. split; [|split; [|split]].
  - unfold ChanceOK, pg_game; cbn [g_chance]. constructor; [|constructor].
    split; [repeat constructor; lra|cbn [Rsum]; lra].
  - cbn. repeat split; lia.
  - intros pl. destruct pl; cbn; repeat constructor.
  - intros _ pass ci. unfold draw0, row, pg_game; cbn [g_chance length].
    destruct ci as [|ci]; cbn [nth length]; lia.
Qed.

Example pg_scale (stop : R -> bool) budget :
  @solve_single RNum (scale 3 pg_game) Full draw0 (@p_default RNum) budget (fun b => stop (b / 3)) =
  let '(strats, regs, ran) := @solve_single RNum pg_game Full draw0 (@p_default RNum) budget stop in
  (strats, option_map (fun rr : R * R => (3 * fst rr, 3 * snd rr)) regs, ran).
Proof. apply solve_scale_full; [lra|apply presets_nopos_ok]. Qed.

Example pg_shift (stop : R -> bool) budget sampled :
  @solve_single RNum (shift 10 pg_game) (vmethod sampled) draw0 (@p_default RNum) budget stop =
  @solve_single RNum pg_game (vmethod sampled) draw0 (@p_default RNum) budget stop.
Proof. apply solve_shift. apply pg_ShiftSide. Qed.

Example pg_swap (stop : R -> bool) budget :
  @solve_single RNum (swap pg_game) Full draw0 (@p_vanilla RNum) budget stop =
  let '(strats, regs, ran) := @solve_single RNum pg_game Full draw0 (@p_vanilla RNum) budget stop in
  ((snd strats, fst strats), option_map (fun rr : R * R => (snd rr, fst rr)) regs, ran).
Proof. apply solve_swap_full. Qed.

(** the transformed games are what one expects *)
Example pg_swap_root :
  g_root (swap pg_game) =
  @Chance RNum 0
    [@Player RNum false 0
       [@Player RNum true 0 [@Term RNum (- 1); @Term RNum (- -1)]; @Term RNum (- 0)];
     @Player RNum false 0
       [@Term RNum (- 2); @Player RNum true 0 [@Term RNum (- -1); @Term RNum (- 3)]]].
Proof. reflexivity. Qed.

Example pg_shift_root :
  g_root (shift 10 pg_game) =
  @Chance RNum 0
    [@Player RNum true 0
       [@Player RNum false 0 [@Term RNum (1 + 10); @Term RNum (-1 + 10)]; @Term RNum (0 + 10)];
     @Player RNum true 0
       [@Term RNum (2 + 10); @Player RNum false 0 [@Term RNum (-1 + 10); @Term RNum (3 + 10)]]].
Proof. reflexivity. Qed.

(** evaluation side on the same game: the uniform profile is valid *)
Lemma pg_uniform_valid : Valid pg_game ([1 / 2; 1 / 2], [1 / 2; 1 / 2]).
Proof.
  split; cbn [fst snd]; (split; [reflexivity|]); cbn; (constructor; [|constructor]);
    (split; [repeat constructor; lra|cbn [Rsum]; lra]).
Qed.

Example pg_info_scale :
  @info RNum (scale 3 pg_game) ([1 / 2; 1 / 2], [1 / 2; 1 / 2]) =
  let i := @info RNum pg_game ([1 / 2; 1 / 2], [1 / 2; 1 / 2]) in
  @mkSinfo RNum (3 * si_util i) (3 * si_reg1 i) (3 * si_reg2 i).
Proof. apply info_scale. lra. Qed.

Example pg_info_shift_util :
  si_util (@info RNum (shift 10 pg_game) ([1 / 2; 1 / 2], [1 / 2; 1 / 2])) =
  si_util (@info RNum pg_game ([1 / 2; 1 / 2], [1 / 2; 1 / 2])) + 10.
Proof.
  apply info_shift_util; [apply (pg_ShiftSide false)|apply (pg_ShiftSide false)|apply pg_uniform_valid].
Qed.

(** the utility of the uniform profile, computed: 3/4 *)
Example pg_util : @expected RNum pg_game [[1 / 2; 1 / 2]] [[1 / 2; 1 / 2]] = 3 / 4.
Proof.
  unfold expected, pg_game; cbn [g_chance g_root].
  rewrite exp_acc_Chance. unfold row; cbn [nth xchance].
  rewrite !exp_acc_Player. unfold row; cbn [nth xplayer].
  replace (Rltb 0 (1 / 2)) with true by (symmetry; apply Rltb_true; lra).
  rewrite !exp_acc_Term, !exp_acc_Player. unfold row; cbn [nth xplayer].
  replace (Rltb 0 (1 / 2)) with true by (symmetry; apply Rltb_true; lra).
  rewrite !exp_acc_Term. cbn [one zero RNum]. lra.
Qed.

Lemma pg_Incr me : Incr me 0 (g_root pg_game).
Proof. destruct me; cbn; repeat split; lia. Qed.

Example pg_info_shift :
  @info RNum (shift 10 pg_game) ([1 / 2; 1 / 2], [1 / 2; 1 / 2]) =
  let i := @info RNum pg_game ([1 / 2; 1 / 2], [1 / 2; 1 / 2]) in
  @mkSinfo RNum (si_util i + 10) (si_reg1 i) (si_reg2 i).
Proof.
  apply info_shift; [apply (pg_ShiftSide false)|apply (pg_ShiftSide false)|apply pg_uniform_valid| |];
    apply pg_Incr.
Qed.

Example pg_info_swap :
  @info RNum (swap pg_game) ([1 / 2; 1 / 2], [1 / 2; 1 / 2]) =
  let i := @info RNum pg_game ([1 / 2; 1 / 2], [1 / 2; 1 / 2]) in
  @mkSinfo RNum (- si_util i) (si_reg2 i) (si_reg1 i).
Proof. apply (info_swap pg_game ([1 / 2; 1 / 2], [1 / 2; 1 / 2])). Qed.

(** concrete utilities of the uniform profile in the three transformed games *)
Example pg_utils :
  @expected RNum (scale 3 pg_game) [[1 / 2; 1 / 2]] [[1 / 2; 1 / 2]] = 9 / 4 /\
  @expected RNum (shift 10 pg_game) [[1 / 2; 1 / 2]] [[1 / 2; 1 / 2]] = 43 / 4 /\
  @expected RNum (swap pg_game) [[1 / 2; 1 / 2]] [[1 / 2; 1 / 2]] = - (3 / 4).
Proof.
  split; [|split].
  - rewrite expected_scale, pg_util. lra.
  - rewrite expected_shift, pg_util; [lra|apply (pg_ShiftSide false)|apply (pg_ShiftSide false)|].
    apply (Valid_RowsOK pg_game ([1 / 2; 1 / 2], [1 / 2; 1 / 2]) pg_uniform_valid).
  - rewrite expected_swap, pg_util. lra.
Qed.
