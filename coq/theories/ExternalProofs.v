(** * ExternalProofs: the multi-threaded external-sampling solver equals the
    single-threaded one under pinned draws (property C07), and each active infoset is
    entered at most once per pass. *)
From Coq Require Import Reals List Lra Lia Bool Arith NArith Permutation.
From Cfr.theories Require Import Num RInst Tree GameWF Strat Eval Solve SolveValidProofs ExtIncr
     ExternalMulti.
Import ListNotations.

Local Notation nodeR := (@node RNum).
Local Notation gameR := (@game RNum).
Local Notation pstateR := (@pstate RNum).
Local Notation rinfoR := (@rinfo RNum).
Local Notation oracleR := (@oracle RNum).

(** ** List helpers *)
Lemma NoDup_app_intro {A} (l1 l2 : list A) :
  NoDup l1 -> NoDup l2 -> (forall x, In x l1 -> In x l2 -> False) -> NoDup (l1 ++ l2).
Proof.
  induction l1 as [|a l1 IH]; intros H1 H2 H; cbn [app]; [assumption|].
  inversion H1 as [|a' l' Ha Hl]; subst. constructor.
  - rewrite in_app_iff. intros [Hi|Hi]; [contradiction|]. apply (H a); [now left|assumption].
  - apply IH; try assumption. intros x Hx Hx2. apply (H x); [now right|assumption].
Qed.

Lemma NoDup_app_l {A} (l1 l2 : list A) : NoDup (l1 ++ l2) -> NoDup l1.
Proof.
  induction l1 as [|a l1 IH]; cbn [app]; intros H; [constructor|].
  inversion H as [|a' l' Ha Hl]; subst. constructor; [|now apply IH].
  intros Hin. apply Ha. apply in_or_app. now left.
Qed.

Lemma NoDup_fst_of_snd {A B} (l : list (A * B)%type) :
  NoDup (map snd l) ->
  (forall x y, In x l -> In y l -> fst x = fst y -> snd x = snd y) ->
  NoDup (map fst l).
Proof.
  induction l as [|[a b] l IH]; cbn [map fst snd]; intros Hnd H; [constructor|].
  inversion Hnd as [|b' l' Hb Hl]; subst. constructor.
  - intros Hin. apply in_map_iff in Hin. destruct Hin as ([a' b'] & Ha & Hin). cbn [fst] in Ha.
    subst a'. apply Hb. apply in_map_iff. exists (a, b'). split; [|assumption].
    cbn [snd]. symmetry. apply (H (a, b) (a, b')); [now left|now right|reflexivity].
  - apply IH; [assumption|]. intros x y Hx Hy. apply H; now right.
Qed.

Lemma gotr_map {E F} (g : E -> F) (f : nat -> nodeR -> list E) ks ss a :
  map g (gotr f ks ss a) = gotr (fun a c => map g (f a c)) ks ss a.
Proof.
  revert ss a; induction ks as [|c ks IH]; intros [|p ss] a; cbn [gotr map]; try reflexivity.
  now rewrite map_app, IH.
Qed.

Lemma gotr_NoDup {E} (f : nat -> nodeR -> list E) ks ss a :
  (forall j c, nth_error ks j = Some c -> NoDup (f (a + j)%nat c)) ->
  (forall j j' c c' x, j <> j' -> nth_error ks j = Some c -> nth_error ks j' = Some c' ->
                       In x (f (a + j)%nat c) -> In x (f (a + j')%nat c') -> False) ->
  NoDup (gotr f ks ss a).
Proof.
  revert ss a; induction ks as [|c ks IH]; intros [|p ss] a H1 H2; cbn [gotr]; try constructor.
  apply NoDup_app_intro.
  - specialize (H1 O c eq_refl). now rewrite Nat.add_0_r in H1.
  - apply IH.
    + intros j c' Hj. specialize (H1 (S j) c' Hj). now rewrite Nat.add_succ_r in H1.
    + intros j j' c1 c2 x Hne Hj Hj' Hx Hx'.
      apply (H2 (S j) (S j') c1 c2 x); try assumption; try congruence;
        now rewrite Nat.add_succ_r.
  - intros x Hx Hg. apply gotr_In in Hg. destruct Hg as (j & c' & Hj & _ & Hx').
    apply (H2 O (S j) c c' x); try assumption; try reflexivity; try congruence.
    + now rewrite Nat.add_0_r.
    + now rewrite Nat.add_succ_r.
Qed.

(** ** Unfolding [hists] *)
Definition hist := list (nat * nat)%type.

Definition hgo (pl : bool) (i : nat) (h1 h2 : hist) :=
  fix go (ks : list nodeR) (a : nat) {struct ks} : list (bool * nat * hist)%type :=
    match ks with
    | [] => []
    | k :: r =>
        @hists RNum k (if pl then h1 ++ [(i, a)] else h1) (if pl then h2 else h2 ++ [(i, a)])
        ++ go r (S a)
    end.

Lemma hists_Term x h1 h2 : @hists RNum (Term x) h1 h2 = [].
Proof. reflexivity. Qed.

Lemma hists_Chance ci kids h1 h2 :
  @hists RNum (Chance ci kids) h1 h2 = flat_map (fun k => @hists RNum k h1 h2) kids.
Proof. cbn [hists]. induction kids as [|k r IH]; cbn [flat_map]; [reflexivity|]. now rewrite IH. Qed.

Lemma hists_Player pl i kids h1 h2 :
  @hists RNum (Player pl i kids) h1 h2 = (pl, i, if pl then h1 else h2) :: hgo pl i h1 h2 kids O.
Proof. reflexivity. Qed.

Lemma hgo_In (pl : bool) i (h1 h2 : hist) ks a j c x :
  nth_error ks j = Some c ->
  In x (@hists RNum c (if pl then h1 ++ [(i, (a + j)%nat)] else h1)
               (if pl then h2 else h2 ++ [(i, (a + j)%nat)])) ->
  In x (hgo pl i h1 h2 ks a).
Proof.
  revert a j; induction ks as [|k r IH]; intros a [|j] Hj Hx; cbn [nth_error] in Hj; try discriminate;
    cbn [hgo]; apply in_or_app.
  - injection Hj as ->. rewrite Nat.add_0_r in Hx. now left.
  - right. apply (IH (S a) j); [assumption|]. now rewrite Nat.add_succ_r in Hx.
Qed.

(** ** Unique visit: each active infoset is entered at most once per pass *)
Section Unique.
  Context (chance : list (list R)) (draw : oracleR) (cpass ppass : N) (noff : nat) (me : bool)
          (sg : bool -> nat -> list R).

  Local Notation cdraw := (cdraw chance draw cpass).
  Local Notation pdraw := (pdraw draw ppass noff sg).
  Local Notation evisits := (evisits chance draw cpass ppass noff me sg).

  (** the active-player nodes a pass visits below a node reached with own history [h]:
      infoset and own history (the visited part of [hists]) *)
  Fixpoint evh (n : nodeR) (h : hist) {struct n} : list (nat * hist)%type :=
    match n with
    | Term _ => []
    | Chance ci kids => pickf (fun c => evh c h) [] kids (cdraw ci)
    | Player pl i kids =>
        if Bool.eqb pl me
        then (i, h) :: gotr (fun a c => evh c (h ++ [(i, a)])) kids (sg pl i) O
        else pickf (fun c => evh c h) [] kids (pdraw pl i)
    end.

  Lemma evh_fst n : forall h, map fst (evh n h) = evisits n.
  Proof.
    induction n as [x|ci kids IH|pl i kids IH] using SolveValidProofs.node_ind'; intros h.
    - reflexivity.
    - unfold ExtIncr.evisits. cbn [evh etr]. fold evisits. rewrite !pickf_nth.
      destruct (nth_error kids _) as [c|] eqn:Ek; [|reflexivity].
      rewrite Forall_forall in IH. apply IH. eapply nth_error_In; eauto.
    - unfold ExtIncr.evisits. cbn [evh etr]. fold evisits.
      rewrite Forall_forall in IH. destruct (Bool.eqb pl me).
      + cbn [map fst app]. f_equal. etransitivity; [|symmetry; apply app_nil_r]. rewrite gotr_map. apply gotr_ext.
        intros j c Hj. rewrite app_nil_r. apply IH. eapply nth_error_In; eauto.
      + cbn [app]. rewrite !pickf_nth.
        destruct (nth_error kids _) as [c|] eqn:Ek; [|reflexivity].
        apply IH. eapply nth_error_In; eauto.
  Qed.

  (** the visited nodes are nodes of the tree *)
  Lemma evh_hists n :
    forall h1 h2 i h', In (i, h') (evh n (if me then h1 else h2)) ->
                       In (me, i, h') (@hists RNum n h1 h2).
  Proof.
    induction n as [x|ci kids IH|pl i kids IH] using SolveValidProofs.node_ind';
      intros h1 h2 i' h' Hin; try rewrite Forall_forall in IH.
    - destruct Hin.
    - cbn [evh] in Hin. rewrite pickf_nth in Hin.
      destruct (nth_error kids _) as [c|] eqn:Ek; [|destruct Hin].
      rewrite hists_Chance. apply in_flat_map. exists c.
      pose proof (nth_error_In _ _ Ek) as Hc. split; [assumption|]. now apply IH.
    - cbn [evh] in Hin. rewrite hists_Player. destruct (Bool.eqb pl me) eqn:Epl.
      + apply eqb_prop in Epl. subst pl. destruct Hin as [Heq|Hin].
        * injection Heq as <- <-. left. reflexivity.
        * right. apply gotr_In in Hin. destruct Hin as (j & c & Hj & _ & Hin).
          cbn [Nat.add] in Hin. apply (hgo_In me i h1 h2 kids O j c); [assumption|].
          cbn [Nat.add]. apply IH; [eapply nth_error_In; eauto|].
          destruct me; exact Hin.
      + right. rewrite pickf_nth in Hin.
        destruct (nth_error kids _) as [c|] eqn:Ek; [|destruct Hin].
        apply (hgo_In pl i h1 h2 kids O _ c _ Ek). cbn [Nat.add]. apply IH; [eapply nth_error_In; eauto|].
        apply eqb_false_iff in Epl. destruct pl, me; try congruence; exact Hin.
  Qed.

  (** their own histories extend the history of the node the traversal started from *)
  Lemma evh_prefix n :
    forall h i h', In (i, h') (evh n h) -> exists t, h' = h ++ t.
  Proof.
    induction n as [x|ci kids IH|pl i kids IH] using SolveValidProofs.node_ind';
      intros h i' h' Hin; try rewrite Forall_forall in IH.
    - destruct Hin.
    - cbn [evh] in Hin. rewrite pickf_nth in Hin.
      destruct (nth_error kids _) as [c|] eqn:Ek; [|destruct Hin].
      eapply IH; [eapply nth_error_In; eauto|eassumption].
    - cbn [evh] in Hin. destruct (Bool.eqb pl me).
      + destruct Hin as [Heq|Hin].
        * injection Heq as <- <-. exists []. now rewrite app_nil_r.
        * apply gotr_In in Hin. destruct Hin as (j & c & Hj & _ & Hin).
          apply IH in Hin; [|eapply nth_error_In; eauto]. destruct Hin as [t ->].
          exists ([(i, (0 + j)%nat)] ++ t). now rewrite app_assoc.
      + rewrite pickf_nth in Hin.
        destruct (nth_error kids _) as [c|] eqn:Ek; [|destruct Hin].
        eapply IH; [eapply nth_error_In; eauto|eassumption].
  Qed.

  (** and are pairwise different *)
  Lemma evh_NoDup n : forall h, NoDup (map snd (evh n h)).
  Proof.
    induction n as [x|ci kids IH|pl i kids IH] using SolveValidProofs.node_ind';
      intros h; try rewrite Forall_forall in IH.
    - constructor.
    - cbn [evh]. rewrite pickf_nth.
      destruct (nth_error kids _) as [c|] eqn:Ek; [|constructor].
      apply IH. eapply nth_error_In; eauto.
    - cbn [evh]. destruct (Bool.eqb pl me).
      + cbn [map snd]. constructor.
        * intros Hin. apply in_map_iff in Hin. destruct Hin as ([i' h'] & Heq & Hin).
          cbn [snd] in Heq. subst h'. apply gotr_In in Hin.
          destruct Hin as (j & c & Hj & _ & Hin). apply evh_prefix in Hin.
          destruct Hin as [t Ht]. apply (f_equal (@length _)) in Ht.
          rewrite !app_length in Ht. cbn [length] in Ht. lia.
        * rewrite gotr_map. apply gotr_NoDup.
          -- intros j c Hj. apply IH. eapply nth_error_In; eauto.
          -- intros j j' c c' x Hne Hj Hj' Hx Hx'.
             apply in_map_iff in Hx. destruct Hx as ([i1 x1] & E1 & Hx). cbn [snd] in E1. subst x1.
             apply in_map_iff in Hx'. destruct Hx' as ([i2 x2] & E2 & Hx'). cbn [snd] in E2. subst x2.
             apply evh_prefix in Hx. apply evh_prefix in Hx'.
             destruct Hx as [t1 Ht1]. destruct Hx' as [t2 Ht2]. rewrite Ht1 in Ht2.
             rewrite <- !app_assoc in Ht2. apply app_inv_head in Ht2.
             cbn [app] in Ht2. injection Ht2 as Ht2 _. lia.
      + rewrite pickf_nth.
        destruct (nth_error kids _) as [c|] eqn:Ek; [|constructor].
        apply IH. eapply nth_error_In; eauto.
  Qed.

  (** [unique_visit]: with perfect recall, each active infoset is entered at most once
      per pass.  This is why the [try_lock().unwrap()] of [ActiveRecurse for Mutex]
      cannot fire and why no infoset is re-entered below itself. *)
  Theorem unique_visit (g : gameR) :
    PerfectRecall g -> NoDup (evisits (g_root g)).
  Proof.
    intros [H HH]. rewrite <- (evh_fst (g_root g) []). apply NoDup_fst_of_snd.
    - apply evh_NoDup.
    - intros [i1 x1] [i2 x2] Hx Hy Heq. cbn [fst snd] in *. subst i2.
      assert (E : (if me then @nil (nat * nat)%type else []) = []) by now destruct me.
      rewrite <- E in Hx, Hy.
      apply evh_hists in Hx. apply evh_hists in Hy.
      apply HH in Hx. apply HH in Hy. congruence.
  Qed.
End Unique.

(** ** The cached traversal is a pure value plus a fold of increments *)
Section CachedSpec.
  Context (chance : list (list R)) (draw : oracleR) (cpass ppass : N) (noff : nat) (me : bool)
          (sg : bool -> nat -> list R).

  Local Notation evalc := (evalc chance draw cpass ppass noff me sg).
  Local Notation eincsc := (eincsc chance draw cpass ppass noff me sg).

  Lemma erec_cached_incs_sv (n : nodeR) :
    forall cache st, SV sg st ->
      erec_cached chance draw cpass ppass noff me n cache st =
      (evalc n cache, fold_left e_apply_incr (eincsc n cache) st).
  Proof.
    induction n as [x|ci kids IH|pl i kids IH] using SolveValidProofs.node_ind';
      intros cache st Hst; unfold ExternalMulti.eincsc; cbn [erec_cached ExternalMulti.evalc etrc];
      fold eincsc; destruct (cache []) as [v|] eqn:E0; try reflexivity;
      rewrite Forall_forall in IH.
    - rewrite !pickf_nth.
      destruct (nth_error kids _) as [c|] eqn:Ek; [|reflexivity].
      apply IH; [eapply nth_error_In; eauto|assumption].
    - pose proof (Hst pl i) as Hs. unfold e_strat_view in Hs. rewrite Hs.
      destruct (Bool.eqb pl me) eqn:Epl.
      + rewrite (egoi_spec sg (fun a c => erec_cached chance draw cpass ppass noff me c (cshift a cache))
                           pl i (fun a c => evalc c (cshift a cache))
                           (fun a c => eincsc c (cshift a cache)) kids (sg pl i) O 0%R st).
        * cbn [app]. rewrite fold_left_app. reflexivity.
        * intros j c st' Hj Hst'. apply IH; [eapply nth_error_In; eauto|assumption].
        * assumption.
      + cbn [app fold_left]. unfold pdraw. rewrite !pickf_nth.
        destruct (nth_error kids _) as [c|] eqn:Ek; [|reflexivity].
        apply IH; [eapply nth_error_In; eauto|]. now apply SV_apply.
  Qed.
End CachedSpec.

(** without a cache the cached traversal is [erec] *)
Lemma egoi_ext rec1 rec2 pl i ks :
  forall ss a e st,
    (forall j c st, nth_error ks j = Some c -> rec1 (a + j)%nat c st = rec2 (a + j)%nat c st) ->
    egoi rec1 pl i ks ss a e st = egoi rec2 pl i ks ss a e st.
Proof.
  induction ks as [|c ks IH]; intros [|p ss] a e st H; cbn [egoi]; try reflexivity.
  pose proof (H O c st eq_refl) as H0. rewrite Nat.add_0_r in H0. rewrite H0.
  destruct (rec2 a c st) as [u st']. apply IH.
  intros j c' st'' Hj. specialize (H (S j) c' st'' Hj). now rewrite Nat.add_succ_r in H.
Qed.

Lemma erec_cached_no_cache chance draw cpass ppass noff me (n : nodeR) :
  forall st, erec_cached chance draw cpass ppass noff me n no_cache st =
             @erec RNum chance draw cpass ppass noff me n st.
Proof.
  induction n as [x|ci kids IH|pl i kids IH] using SolveValidProofs.node_ind'; intros st;
    cbn [erec_cached no_cache]; try rewrite Forall_forall in IH.
  - rewrite erec_Term. reflexivity.
  - rewrite erec_Chance, epick_pickf. unfold cdraw. rewrite !pickf_nth.
    destruct (nth_error kids _) as [c|] eqn:Ek; [|reflexivity].
    apply (IH c). eapply nth_error_In; eauto.
  - rewrite erec_Player. cbv zeta. destruct (Bool.eqb pl me).
    + rewrite ego_egoi.
      rewrite (egoi_ext (fun a c => erec_cached chance draw cpass ppass noff me c (cshift a no_cache))
                        (fun _ => @erec RNum chance draw cpass ppass noff me)).
      * destruct (egoi _ _ _ _ _ _ _ _) as [e st2]. reflexivity.
      * intros j c st' Hj. apply (IH c). eapply nth_error_In; eauto.
    + rewrite epick_pickf. unfold ext_id. rewrite !pickf_nth.
      destruct (nth_error kids _) as [c|] eqn:Ek; [|reflexivity].
      apply (IH c). eapply nth_error_In; eauto.
Qed.

(** ** The cut lemma *)
Lemma subtree_kid (n : nodeR) k c q :
  nth_error (e_kids_of n) k = Some c -> subtree n (k :: q) = subtree c q.
Proof. intros H. cbn [subtree]. now rewrite H. Qed.

Lemma flat_map_consp {F} (f : nodeR -> list F) a (L : list pnode) :
  flat_map (fun x : pnode => f (snd x)) (map (consp a) L) = flat_map (fun x : pnode => f (snd x)) L.
Proof. induction L as [|x L IH]; cbn [map flat_map consp snd]; [reflexivity|]. now rewrite IH. Qed.

Section Cut.
  Context (chance : list (list R)) (draw : oracleR) (cpass ppass : N) (noff : nat) (me : bool)
          (sg : bool -> nat -> list R).

  Local Notation cdraw := (cdraw chance draw cpass).
  Local Notation pdraw := (pdraw draw ppass noff sg).
  Local Notation eval := (eval chance draw cpass ppass noff me sg).
  Local Notation evalc := (evalc chance draw cpass ppass noff me sg).
  Local Notation efront := (efront chance draw cpass ppass noff me sg).
  Local Notation esamp := (esamp chance draw cpass ppass noff me sg).

  (** the cached values are the values of the nodes they stand for *)
  Definition CacheOK (cache : cachet) (n : nodeR) : Prop :=
    forall q v c, cache q = Some v -> subtree n q = Some c -> v = eval c.

  Lemma CacheOK_kid cache n k c :
    CacheOK cache n -> nth_error (e_kids_of n) k = Some c -> CacheOK (cshift k cache) c.
  Proof.
    intros H Hk q v c' Hq Hs. apply (H (k :: q) v c' Hq). now rewrite (subtree_kid n k c).
  Qed.

  Lemma evalc_eval (n : nodeR) : forall cache, CacheOK cache n -> evalc n cache = eval n.
  Proof.
    induction n as [x|ci kids IH|pl i kids IH] using SolveValidProofs.node_ind';
      intros cache Hok; cbn [ExternalMulti.evalc ExtIncr.eval];
      (destruct (cache []) as [v|] eqn:E0; [exact (Hok [] v _ E0 eq_refl)|]);
      try reflexivity; rewrite Forall_forall in IH.
    - rewrite !pickf_nth. destruct (nth_error kids _) as [c|] eqn:Ek; [|reflexivity].
      apply IH; [eapply nth_error_In; eauto|]. eapply CacheOK_kid; eauto.
    - destruct (Bool.eqb pl me).
      + apply goval_ext. intros j c Hj. apply IH; [eapply nth_error_In; eauto|].
        eapply CacheOK_kid; eauto.
      + rewrite !pickf_nth. destruct (nth_error kids _) as [c|] eqn:Ek; [|reflexivity].
        apply IH; [eapply nth_error_In; eauto|]. eapply CacheOK_kid; eauto.
  Qed.

  Section CutTrace.
    Context {E : Type}
            (ePre : bool -> nat -> list E) (eChild : bool -> nat -> nat -> R -> list E)
            (ePost : bool -> nat -> R -> list E) (eExt : bool -> nat -> list E).

    Local Notation etr := (etr chance draw cpass ppass noff me sg ePre eChild ePost eExt).
    Local Notation etrc := (etrc chance draw cpass ppass noff me sg ePre eChild ePost eExt).

    (** events of the cached traversal + events of the traversals of the cached nodes it
        runs into = events of the plain traversal, up to order *)
    Lemma cut_trace (n : nodeR) :
      forall cache, CacheOK cache n ->
        Permutation (etrc n cache ++ flat_map (fun x : pnode => etr (snd x)) (efront n cache))
                    (etr n).
    Proof.
      induction n as [x|ci kids IH|pl i kids IH] using SolveValidProofs.node_ind';
        intros cache Hok; cbn [ExternalMulti.etrc ExternalMulti.efront];
        (destruct (cache []) as [v|] eqn:E0;
         [cbn [app flat_map snd]; rewrite app_nil_r; apply Permutation_refl|]);
        try rewrite Forall_forall in IH.
      - apply Permutation_refl.
      - cbn [ExtIncr.etr]. rewrite flat_map_consp, !pickf_nth.
        destruct (nth_error kids _) as [c|] eqn:Ek; [|apply Permutation_refl].
        apply IH; [eapply nth_error_In; eauto|]. eapply CacheOK_kid; eauto.
      - cbn [ExtIncr.etr ExtIncr.eval]. destruct (Bool.eqb pl me) eqn:Epl.
        + rewrite gotr_flat_map.
          assert (Hv : goval (fun a c => evalc c (cshift a cache)) kids (sg pl i) O 0%R =
                       goval (fun _ c => eval c) kids (sg pl i) O 0%R).
          { apply goval_ext. intros j c Hj. apply evalc_eval. eapply CacheOK_kid; eauto. }
          rewrite Hv. rewrite <- !app_assoc. apply Permutation_app_head.
          match goal with |- Permutation (?G1 ++ ?P ++ ?G2) _ =>
            transitivity ((G1 ++ G2) ++ P);
              [rewrite <- app_assoc; apply Permutation_app_head; apply Permutation_app_comm|]
          end.
          apply Permutation_app_tail.
          apply gotr_perm. intros j c Hj. cbn [Nat.add].
          rewrite flat_map_consp.
          rewrite (evalc_eval c) by (eapply CacheOK_kid; eauto).
          rewrite <- app_assoc.
          etransitivity; [apply Permutation_app_head; apply Permutation_app_comm|].
          rewrite app_assoc. apply Permutation_app_tail.
          apply IH; [eapply nth_error_In; eauto|]. eapply CacheOK_kid; eauto.
        + rewrite <- app_assoc. apply Permutation_app_head.
          rewrite flat_map_consp, !pickf_nth.
          destruct (nth_error kids _) as [c|] eqn:Ek; [|apply Permutation_refl].
          apply IH; [eapply nth_error_In; eauto|]. eapply CacheOK_kid; eauto.
    Qed.
  End CutTrace.
End Cut.

(** ** Frontiers: antichains of nodes of the sampled tree *)
Lemma In_consp a (L : list pnode) q c :
  In (q, c) (map (consp a) L) <-> exists q', q = a :: q' /\ In (q', c) L.
Proof.
  rewrite in_map_iff. split.
  - intros ([q' c'] & Heq & Hin). unfold consp in Heq. cbn [fst snd] in Heq.
    injection Heq as <- <-. now exists q'.
  - intros (q' & -> & Hin). now exists (q', c).
Qed.

Lemma NoDup_map_consp a (L : list pnode) : NoDup L -> NoDup (map (consp a) L).
Proof.
  induction 1 as [|[q c] L Hx Hnd IH]; cbn [map]; constructor; [|assumption].
  unfold consp at 1. cbn [fst snd]. rewrite In_consp. intros (q' & Heq & Hin).
  injection Heq as <-. contradiction.
Qed.

Section FrontFacts.
  Context (chance : list (list R)) (draw : oracleR) (cpass ppass : N) (noff : nat) (me : bool)
          (sg : bool -> nat -> list R).

  Local Notation cdraw := (cdraw chance draw cpass).
  Local Notation pdraw := (pdraw draw ppass noff sg).
  Local Notation eval := (eval chance draw cpass ppass noff me sg).
  Local Notation evalc := (evalc chance draw cpass ppass noff me sg).
  Local Notation efront := (efront chance draw cpass ppass noff me sg).
  Local Notation esamp := (esamp chance draw cpass ppass noff me sg).

  Lemma efront_sound (n : nodeR) :
    forall cache q c, In (q, c) (efront n cache) -> cache q <> None /\ subtree n q = Some c.
  Proof.
    induction n as [x|ci kids IH|pl i kids IH] using SolveValidProofs.node_ind';
      intros cache q c Hin; cbn [ExternalMulti.efront] in Hin;
      (destruct (cache []) as [v|] eqn:E0;
       [destruct Hin as [Heq|[]]; injection Heq as <- <-; split; [congruence|reflexivity]|]);
      try rewrite Forall_forall in IH.
    - destruct Hin.
    - apply In_consp in Hin. destruct Hin as (q' & -> & Hin). rewrite pickf_nth in Hin.
      destruct (nth_error kids _) as [c0|] eqn:Ek; [|destruct Hin].
      apply IH in Hin; [|eapply nth_error_In; eauto]. destruct Hin as [H1 H2].
      split; [exact H1|]. now rewrite (subtree_kid (Chance ci kids) _ c0).
    - destruct (Bool.eqb pl me).
      + apply gotr_In in Hin. destruct Hin as (j & c0 & Hj & _ & Hin). cbn [Nat.add] in Hin.
        apply In_consp in Hin. destruct Hin as (q' & -> & Hin).
        apply IH in Hin; [|eapply nth_error_In; eauto]. destruct Hin as [H1 H2].
        split; [exact H1|]. now rewrite (subtree_kid (Player pl i kids) _ c0).
      + apply In_consp in Hin. destruct Hin as (q' & -> & Hin). rewrite pickf_nth in Hin.
        destruct (nth_error kids _) as [c0|] eqn:Ek; [|destruct Hin].
        apply IH in Hin; [|eapply nth_error_In; eauto]. destruct Hin as [H1 H2].
        split; [exact H1|]. now rewrite (subtree_kid (Player pl i kids) _ c0).
  Qed.

  Lemma efront_complete (q : epath) :
    forall (n : nodeR) cache c,
      esamp q n -> subtree n q = Some c -> cache q <> None ->
      (forall q1 q2, q = q1 ++ q2 -> q2 <> [] -> cache q1 = None) ->
      In (q, c) (efront n cache).
  Proof.
    induction q as [|a q IH]; intros n cache c Hs Ht Hc Hpre.
    - cbn [subtree] in Ht. injection Ht as <-.
      destruct n; cbn [ExternalMulti.efront]; (destruct (cache []); [now left|congruence]).
    - assert (E0 : cache [] = None) by (apply (Hpre [] (a :: q)); [reflexivity|discriminate]).
      cbn [ExternalMulti.esamp] in Hs. destruct Hs as [Ha Hk]. cbn [subtree] in Ht.
      destruct (nth_error (e_kids_of n) a) as [c0|] eqn:Ek; [|discriminate].
      assert (Hin : In (q, c) (efront c0 (cshift a cache))).
      { apply IH; try assumption. intros q1 q2 Hq Hq2. unfold cshift.
        apply (Hpre (a :: q1) q2); [now rewrite Hq|assumption]. }
      destruct n as [x|ci kids|pl i kids]; cbn [ExternalMulti.efront e_kids_of] in *; rewrite E0.
      + destruct Ha.
      + subst a. apply In_consp. exists q. split; [reflexivity|]. now rewrite pickf_nth, Ek.
      + destruct (Bool.eqb pl me).
        * apply gotr_In. exists a, c0. cbn [Nat.add]. repeat split; try assumption.
          apply In_consp. now exists q.
        * subst a. apply In_consp. exists q. split; [reflexivity|]. now rewrite pickf_nth, Ek.
  Qed.

  Lemma efront_NoDup (n : nodeR) : forall cache, NoDup (efront n cache).
  Proof.
    induction n as [x|ci kids IH|pl i kids IH] using SolveValidProofs.node_ind';
      intros cache; cbn [ExternalMulti.efront];
      (destruct (cache []) as [v|]; [constructor; [intros []|constructor]|]);
      try rewrite Forall_forall in IH.
    - constructor.
    - apply NoDup_map_consp. rewrite pickf_nth.
      destruct (nth_error kids _) as [c0|] eqn:Ek; [|constructor].
      apply IH. eapply nth_error_In; eauto.
    - destruct (Bool.eqb pl me).
      + apply gotr_NoDup.
        * intros j c0 Hj. apply NoDup_map_consp. apply IH. eapply nth_error_In; eauto.
        * intros j j' c1 c2 [q c] Hne _ _ H1 H2. cbn [Nat.add] in *.
          apply In_consp in H1. apply In_consp in H2.
          destruct H1 as (q1 & E1 & _). destruct H2 as (q2 & E2 & _). congruence.
      + apply NoDup_map_consp. rewrite pickf_nth.
        destruct (nth_error kids _) as [c0|] eqn:Ek; [|constructor].
        apply IH. eapply nth_error_In; eauto.
  Qed.

  (** [Front n Q]: the paths of [Q] are pairwise different, lead to the recorded nodes,
      belong to the sampled tree, and none is a proper prefix of another *)
  Definition Front (n : nodeR) (Q : list pnode) : Prop :=
    NoDup (map fst Q) /\
    (forall x, In x Q -> subtree n (fst x) = Some (snd x) /\ esamp (fst x) n) /\
    (forall x y t, In x Q -> In y Q -> fst x = fst y ++ t -> t = []).

  (** the payoffs the tasks of [Q] put into the map *)
  Definition payoffs_of (Q : list pnode) : list (epath * R) :=
    map (fun x : pnode => (fst x, eval (snd x))) Q.

  Lemma cache_of_In Q q v :
    cache_of (payoffs_of Q) q = Some v -> exists c, In (q, c) Q /\ v = eval c.
  Proof.
    induction Q as [|[p c] Q IH]; cbn [payoffs_of map cache_of fst snd]; [discriminate|].
    destruct (epath_eq_dec p q) as [->|Hne].
    - intros Heq. injection Heq as <-. exists c. split; [now left|reflexivity].
    - intros H. destruct (IH H) as (c' & Hin & Hv). exists c'. split; [now right|assumption].
  Qed.

  Lemma cache_of_dom Q q : In q (map fst Q) -> cache_of (payoffs_of Q) q <> None.
  Proof.
    induction Q as [|[p c] Q IH]; cbn [payoffs_of map cache_of fst snd]; [intros []|].
    destruct (epath_eq_dec p q) as [->|Hne]; [discriminate|].
    intros [Heq|Hin]; [contradiction|]. now apply IH.
  Qed.

  Lemma Front_CacheOK n Q : Front n Q -> CacheOK chance draw cpass ppass noff me sg (cache_of (payoffs_of Q)) n.
  Proof.
    intros (_ & Hsub & _) q v c Hq Hs. apply cache_of_In in Hq.
    destruct Hq as (c' & Hin & ->). apply Hsub in Hin. cbn [fst snd] in Hin.
    destruct Hin as [Hs' _]. congruence.
  Qed.

  Lemma Front_efront n Q :
    Front n Q -> Permutation Q (efront n (cache_of (payoffs_of Q))).
  Proof.
    intros (Hnd & Hsub & Hanti). apply NoDup_Permutation.
    - eapply NoDup_map_inv; eassumption.
    - apply efront_NoDup.
    - intros [q c]. split.
      + intros Hin. destruct (Hsub _ Hin) as [Hs He]. cbn [fst snd] in Hs, He.
        apply efront_complete; try assumption.
        * apply cache_of_dom. apply in_map_iff. now exists (q, c).
        * intros q1 q2 Hq Hq2.
          destruct (cache_of (payoffs_of Q) q1) as [v|] eqn:Ec; [|reflexivity].
          exfalso. apply cache_of_In in Ec. destruct Ec as (c1 & Hin1 & _).
          apply Hq2. apply (Hanti (q, c) (q1, c1) q2 Hin Hin1). exact Hq.
      + intros Hin. apply efront_sound in Hin. destruct Hin as [Hc Hs].
        destruct (cache_of (payoffs_of Q) q) as [v|] eqn:Ec; [|congruence].
        apply cache_of_In in Ec. destruct Ec as (c1 & Hin1 & _).
        destruct (Hsub _ Hin1) as [Hs1 _]. cbn [fst snd] in Hs1.
        assert (c1 = c) by congruence. now subst.
  Qed.

  (** [ext_cut_lemma]: for an antichain [Q] of nodes of the sampled tree, the cached
      traversal returns the value of the plain one, and its events together with the
      events of the tasks of [Q] are a permutation of the events of the plain traversal
      (for every kind of event: instances below for increments and infosets entered) *)
  Theorem ext_cut_lemma_gen {E : Type}
          (ePre : bool -> nat -> list E) (eChild : bool -> nat -> nat -> R -> list E)
          (ePost : bool -> nat -> R -> list E) (eExt : bool -> nat -> list E) n Q :
    Front n Q ->
    let cache := cache_of (payoffs_of Q) in
    evalc n cache = eval n /\
    Permutation
      (etrc chance draw cpass ppass noff me sg ePre eChild ePost eExt n cache
       ++ flat_map (fun x : pnode => etr chance draw cpass ppass noff me sg ePre eChild ePost eExt (snd x)) Q)
      (etr chance draw cpass ppass noff me sg ePre eChild ePost eExt n).
  Proof.
    intros HF cache. pose proof (Front_CacheOK n Q HF) as Hok. split.
    - now apply evalc_eval.
    - etransitivity; [|apply cut_trace; exact Hok].
      apply Permutation_app_head. apply Permutation_flat_map. now apply Front_efront.
  Qed.

  Theorem ext_cut_lemma n Q :
    Front n Q ->
    let cache := cache_of (payoffs_of Q) in
    evalc n cache = eval n /\
    Permutation
      (eincsc chance draw cpass ppass noff me sg n cache
       ++ flat_map (fun x : pnode => eincs chance draw cpass ppass noff me sg (snd x)) Q)
      (eincs chance draw cpass ppass noff me sg n).
  Proof. apply ext_cut_lemma_gen. Qed.

  (** the active infosets entered by the tasks and by the cached traversal together are
      those entered by the plain traversal *)
  Theorem ext_cut_visits n Q :
    Front n Q ->
    Permutation
      (evisitsc chance draw cpass ppass noff me sg n (cache_of (payoffs_of Q))
       ++ flat_map (fun x : pnode => evisits chance draw cpass ppass noff me sg (snd x)) Q)
      (evisits chance draw cpass ppass noff me sg n).
  Proof. intros HF. apply (ext_cut_lemma_gen _ _ _ _ n Q HF). Qed.
End FrontFacts.

(** ** [thread_threshold] returns an antichain of the sampled tree *)
Lemma app_eq_app_cases {A} (l1 l2 l3 l4 : list A) :
  l1 ++ l2 = l3 ++ l4 -> exists s, l1 = l3 ++ s \/ l3 = l1 ++ s.
Proof.
  revert l3; induction l1 as [|a l1 IH]; intros l3 H.
  - exists l3. now right.
  - destruct l3 as [|b l3].
    + exists (a :: l1). now left.
    + cbn [app] in H. injection H as <- H. destruct (IH _ H) as [s [->| ->]]; exists s; auto.
Qed.

Lemma subtree_app (n : nodeR) p q c :
  subtree n p = Some c -> subtree n (p ++ q) = subtree c q.
Proof.
  revert n; induction p as [|a p IH]; intros n H; cbn [subtree app] in *.
  - now injection H as <-.
  - destruct (nth_error (e_kids_of n) a) as [c0|]; [now apply IH|discriminate].
Qed.

Lemma mapi_kids_In a ks q (c : nodeR) :
  In (q, c) (mapi_kids a ks) <-> exists j, q = [(a + j)%nat] /\ nth_error ks j = Some c.
Proof.
  revert a; induction ks as [|k r IH]; intros a; cbn [mapi_kids In].
  - split; [intros []|]. intros (j & _ & Hj). destruct j; discriminate.
  - rewrite IH. split.
    + intros [Heq|(j & -> & Hj)].
      * injection Heq as <- <-. exists O. now rewrite Nat.add_0_r.
      * exists (S j). now rewrite Nat.add_succ_r.
    + intros ([|j] & -> & Hj); cbn [nth_error] in Hj.
      * left. injection Hj as <-. now rewrite Nat.add_0_r.
      * right. exists j. now rewrite Nat.add_succ_r.
Qed.

Lemma mapi_kids_fst a (ks : list nodeR) :
  map fst (mapi_kids a ks) = map (fun j => [j]) (seq a (length ks)).
Proof.
  revert a; induction ks as [|k r IH]; intros a; cbn [mapi_kids map fst length seq]; [reflexivity|].
  now rewrite IH.
Qed.

Lemma map_fst_consp a (L : list pnode) : map fst (map (consp a) L) = map (cons a) (map fst L).
Proof. rewrite !map_map. reflexivity. Qed.

Section Frontier.
  Context (chance : list (list R)) (draw : oracleR) (cpass ppass : N) (noff : nat) (me : bool)
          (sg : bool -> nat -> list R).

  Local Notation cdraw := (cdraw chance draw cpass).
  Local Notation pdraw := (pdraw draw ppass noff sg).
  Local Notation esamp := (esamp chance draw cpass ppass noff me sg).
  Local Notation next_rel := (next_rel chance draw cpass ppass noff me sg).
  Local Notation next_nodes := (next_nodes chance draw cpass ppass noff me sg).
  Local Notation Front := (Front chance draw cpass ppass noff me sg).

  (** every infoset has as many strategy entries as its nodes have actions *)
  Definition Fits (n : nodeR) : Prop :=
    forall q pl i kids, subtree n q = Some (Player pl i kids) -> length (sg pl i) = length kids.

  Lemma Fits_kid n k c : Fits n -> nth_error (e_kids_of n) k = Some c -> Fits c.
  Proof.
    intros H Hk q pl i kids Hs. apply (H (k :: q)). now rewrite (subtree_kid n k c).
  Qed.

  Lemma esamp_app p : forall (n c : nodeR) q,
    esamp p n -> subtree n p = Some c -> esamp q c -> esamp (p ++ q) n.
  Proof.
    induction p as [|a p IH]; intros n c q Hp Hs Hq; cbn [app subtree] in *.
    - now injection Hs as <-.
    - cbn [ExternalMulti.esamp] in *. destruct Hp as [Ha Hk]. split; [exact Ha|].
      destruct (nth_error (e_kids_of n) a) as [c0|]; [|exact Hk]. eapply IH; eauto.
  Qed.

  Lemma next_rel_sub (n : nodeR) :
    forall q c, In (q, c) (next_rel n) -> q <> [] /\ subtree n q = Some c.
  Proof.
    induction n as [x|ci kids IH|pl i kids IH] using SolveValidProofs.node_ind';
      intros q c Hin; cbn [ExternalMulti.next_rel] in Hin; try rewrite Forall_forall in IH.
    - destruct Hin.
    - apply In_consp in Hin. destruct Hin as (q' & -> & Hin). rewrite pickf_nth in Hin.
      destruct (nth_error kids _) as [c0|] eqn:Ek; [|destruct Hin].
      apply IH in Hin; [|eapply nth_error_In; eauto]. destruct Hin as [_ H2].
      split; [discriminate|]. now rewrite (subtree_kid (Chance ci kids) _ c0).
    - destruct (Bool.eqb pl me).
      + apply mapi_kids_In in Hin. destruct Hin as (j & -> & Hj). cbn [Nat.add].
        split; [discriminate|]. now rewrite (subtree_kid (Player pl i kids) _ c).
      + apply In_consp in Hin. destruct Hin as (q' & -> & Hin). rewrite pickf_nth in Hin.
        destruct (nth_error kids _) as [c0|] eqn:Ek; [|destruct Hin].
        apply IH in Hin; [|eapply nth_error_In; eauto]. destruct Hin as [_ H2].
        split; [discriminate|]. now rewrite (subtree_kid (Player pl i kids) _ c0).
  Qed.

  Lemma next_rel_samp (n : nodeR) :
    forall q c, Fits n -> In (q, c) (next_rel n) -> esamp q n.
  Proof.
    induction n as [x|ci kids IH|pl i kids IH] using SolveValidProofs.node_ind';
      intros q c HF Hin; cbn [ExternalMulti.next_rel] in Hin; try rewrite Forall_forall in IH.
    - destruct Hin.
    - apply In_consp in Hin. destruct Hin as (q' & -> & Hin). rewrite pickf_nth in Hin.
      destruct (nth_error kids _) as [c0|] eqn:Ek; [|destruct Hin].
      cbn [ExternalMulti.esamp e_kids_of]. rewrite Ek. split; [reflexivity|].
      eapply IH; [eapply nth_error_In; eauto| |eassumption].
      apply (Fits_kid (Chance ci kids) _ c0 HF Ek).
    - destruct (Bool.eqb pl me) eqn:Epl.
      + apply mapi_kids_In in Hin. destruct Hin as (j & -> & Hj). cbn [Nat.add].
        cbn [ExternalMulti.esamp e_kids_of]. rewrite Epl, Hj. split; [|exact I].
        rewrite (HF [] pl i kids eq_refl). apply nth_error_Some. congruence.
      + apply In_consp in Hin. destruct Hin as (q' & -> & Hin). rewrite pickf_nth in Hin.
        destruct (nth_error kids _) as [c0|] eqn:Ek; [|destruct Hin].
        cbn [ExternalMulti.esamp e_kids_of]. rewrite Epl, Ek. split; [reflexivity|].
        eapply IH; [eapply nth_error_In; eauto| |eassumption].
        apply (Fits_kid (Player pl i kids) _ c0 HF Ek).
  Qed.

  Lemma next_rel_NoDup (n : nodeR) : NoDup (map fst (next_rel n)).
  Proof.
    induction n as [x|ci kids IH|pl i kids IH] using SolveValidProofs.node_ind';
      cbn [ExternalMulti.next_rel]; try rewrite Forall_forall in IH.
    - constructor.
    - rewrite map_fst_consp. apply FinFun.Injective_map_NoDup; [intros a b H; congruence|].
      rewrite pickf_nth. destruct (nth_error kids _) as [c0|] eqn:Ek; [|constructor].
      apply IH. eapply nth_error_In; eauto.
    - destruct (Bool.eqb pl me).
      + rewrite mapi_kids_fst. apply FinFun.Injective_map_NoDup; [intros a b H; congruence|].
        apply seq_NoDup.
      + rewrite map_fst_consp. apply FinFun.Injective_map_NoDup; [intros a b H; congruence|].
        rewrite pickf_nth. destruct (nth_error kids _) as [c0|] eqn:Ek; [|constructor].
        apply IH. eapply nth_error_In; eauto.
  Qed.

  Lemma next_rel_anti (n : nodeR) :
    forall q1 c1 q2 c2 t, In (q1, c1) (next_rel n) -> In (q2, c2) (next_rel n) ->
                          q1 = q2 ++ t -> t = [].
  Proof.
    induction n as [x|ci kids IH|pl i kids IH] using SolveValidProofs.node_ind';
      intros q1 c1 q2 c2 t H1 H2 Heq; cbn [ExternalMulti.next_rel] in H1, H2;
      try rewrite Forall_forall in IH.
    - destruct H1.
    - apply In_consp in H1. apply In_consp in H2.
      destruct H1 as (q1' & -> & H1). destruct H2 as (q2' & -> & H2).
      rewrite pickf_nth in H1, H2.
      destruct (nth_error kids _) as [c0|] eqn:Ek; [|destruct H1].
      cbn [app] in Heq. injection Heq as Heq.
      exact (IH c0 (nth_error_In _ _ Ek) q1' c1 q2' c2 t H1 H2 Heq).
    - destruct (Bool.eqb pl me).
      + apply mapi_kids_In in H1. apply mapi_kids_In in H2.
        destruct H1 as (j1 & -> & _). destruct H2 as (j2 & -> & _).
        cbn [app] in Heq. now injection Heq as _ <-.
      + apply In_consp in H1. apply In_consp in H2.
        destruct H1 as (q1' & -> & H1). destruct H2 as (q2' & -> & H2).
        rewrite pickf_nth in H1, H2.
        destruct (nth_error kids _) as [c0|] eqn:Ek; [|destruct H1].
        cbn [app] in Heq. injection Heq as Heq.
        exact (IH c0 (nth_error_In _ _ Ek) q1' c1 q2' c2 t H1 H2 Heq).
  Qed.

  Lemma next_nodes_In x y :
    In y (next_nodes x) <-> exists q, fst y = fst x ++ q /\ In (q, snd y) (next_rel (snd x)).
  Proof.
    unfold ExternalMulti.next_nodes. rewrite in_map_iff. split.
    - intros ([q c] & <- & Hin). cbn [fst snd]. now exists q.
    - intros (q & Hq & Hin). exists (q, snd y). split; [|assumption].
      cbn [fst snd]. rewrite <- Hq. now destruct y.
  Qed.

  Lemma Front_perm n Q Q' : Permutation Q Q' -> Front n Q -> Front n Q'.
  Proof.
    intros HP (Hnd & Hsub & Hanti). split; [|split].
    - eapply Permutation_NoDup; [|exact Hnd]. now apply Permutation_map.
    - intros x Hx. apply Hsub. eapply Permutation_in; [symmetry; exact HP|exact Hx].
    - intros x y t Hx Hy. apply Hanti; (eapply Permutation_in; [symmetry; exact HP|assumption]).
  Qed.

  Lemma Front_app_l n Q1 Q2 : Front n (Q1 ++ Q2) -> Front n Q1.
  Proof.
    intros (Hnd & Hsub & Hanti). split; [|split].
    - rewrite map_app in Hnd. eapply NoDup_app_l; eassumption.
    - intros x Hx. apply Hsub. apply in_or_app. now left.
    - intros x y t Hx Hy. apply Hanti; apply in_or_app; now left.
  Qed.

  Lemma Front_root n : Front n [([], n)].
  Proof.
    split; [|split].
    - cbn [map fst]. constructor; [intros []|constructor].
    - intros x [<-|[]]. cbn [fst snd subtree ExternalMulti.esamp]. auto.
    - intros x y t [<-|[]] [<-|[]]. cbn [fst app]. auto.
  Qed.

  (** popping a node and pushing what [next_nodes] returns keeps the invariant *)
  Lemma Front_step n x L0 : Fits n -> Front n (x :: L0) -> Front n (L0 ++ next_nodes x).
  Proof.
    intros HF (Hnd & Hsub & Hanti). cbn [map] in Hnd.
    inversion Hnd as [|p ps Hxp Hnd0]; subst.
    destruct (Hsub x (or_introl eq_refl)) as [Hsx Hex].
    assert (HFx : Fits (snd x)).
    { intros q pl i kids Hq. apply (HF (fst x ++ q)). now rewrite (subtree_app n _ q _ Hsx). }
    split; [|split].
    - rewrite map_app. apply NoDup_app_intro; [exact Hnd0| |].
      + unfold ExternalMulti.next_nodes. rewrite map_map. cbn [fst].
        rewrite <- (map_map fst (fun q => fst x ++ q)).
        apply FinFun.Injective_map_NoDup; [intros a b H; now apply app_inv_head in H|].
        apply next_rel_NoDup.
      + intros p Hp1 Hp2. apply in_map_iff in Hp1. apply in_map_iff in Hp2.
        destruct Hp1 as (y & <- & Hy). destruct Hp2 as (z & Hz & Hzin).
        apply next_nodes_In in Hzin. destruct Hzin as (q & Hq & Hin).
        apply next_rel_sub in Hin. destruct Hin as [Hne _].
        apply Hne. apply (Hanti y x q); [now right|now left|congruence].
    - intros y Hy. apply in_app_or in Hy. destruct Hy as [Hy|Hy]; [apply Hsub; now right|].
      apply next_nodes_In in Hy. destruct Hy as (q & Hq & Hin). rewrite Hq.
      pose proof (next_rel_samp _ _ _ HFx Hin) as Hs.
      apply next_rel_sub in Hin. destruct Hin as [_ Hsub'].
      split; [now rewrite (subtree_app n _ q _ Hsx)|]. eapply esamp_app; eauto.
    - intros y z t Hy Hz Heq. apply in_app_or in Hy. apply in_app_or in Hz.
      destruct Hy as [Hy|Hy], Hz as [Hz|Hz].
      + apply (Hanti y z t); [now right|now right|assumption].
      + exfalso. apply next_nodes_In in Hz. destruct Hz as (q & Hq & Hin).
        apply next_rel_sub in Hin. destruct Hin as [Hne _].
        rewrite Hq, <- app_assoc in Heq.
        pose proof (Hanti y x (q ++ t) (or_intror Hy) (or_introl eq_refl) Heq) as Hnil.
        apply app_eq_nil in Hnil. destruct Hnil. contradiction.
      + exfalso. apply next_nodes_In in Hy. destruct Hy as (q & Hq & Hin).
        rewrite Hq in Heq. destruct (app_eq_app_cases _ _ _ _ Heq) as [s [Hs|Hs]].
        * pose proof (Hanti x z s (or_introl eq_refl) (or_intror Hz) Hs) as ->.
          rewrite app_nil_r in Hs. apply Hxp. rewrite Hs. now apply in_map.
        * pose proof (Hanti z x s (or_intror Hz) (or_introl eq_refl) Hs) as ->.
          rewrite app_nil_r in Hs. apply Hxp. rewrite <- Hs. now apply in_map.
      + apply next_nodes_In in Hy. apply next_nodes_In in Hz.
        destruct Hy as (q1 & Hq1 & Hin1). destruct Hz as (q2 & Hq2 & Hin2).
        rewrite Hq1, Hq2, <- app_assoc in Heq. apply app_inv_head in Heq.
        exact (next_rel_anti _ _ _ _ _ _ Hin1 Hin2 Heq).
  Qed.

  Lemma tt_loop_Front n fuel target :
    Fits n ->
    forall queue work,
      Front n (queue ++ work) ->
      Front n (fst (tt_loop chance draw cpass ppass noff me sg fuel target queue work)
               ++ snd (tt_loop chance draw cpass ppass noff me sg fuel target queue work)).
  Proof.
    intros HF. induction fuel as [|f IH]; intros queue work H; cbn [tt_loop]; [exact H|].
    destruct (_ || _); [exact H|].
    destruct (rev queue) as [|x rq] eqn:Er.
    - apply (f_equal (@rev _)) in Er. rewrite rev_involutive in Er. cbn [rev] in Er. subst queue.
      apply IH. now rewrite app_nil_r.
    - apply (f_equal (@rev _)) in Er. rewrite rev_involutive in Er. cbn [rev] in Er. subst queue.
      apply IH. rewrite app_assoc. apply Front_step; [exact HF|].
      eapply Front_perm; [|exact H]. rewrite <- app_assoc. cbn [app].
      symmetry. apply Permutation_middle.
  Qed.

  (** [ext_frontier_ok]: whatever the target and the fuel, the tasks sent to the pool are
      an antichain of nodes of the sampled tree *)
  Theorem ext_frontier_ok n target fuel :
    Fits n -> Front n (ext_frontier chance draw cpass ppass noff me sg target fuel n).
  Proof.
    intros HF. unfold ext_frontier. eapply Front_app_l.
    apply tt_loop_Front; [exact HF|]. cbn [app]. apply Front_root.
  Qed.
End Frontier.

(** ** One pass: multi-threaded = single-threaded *)
Theorem ext_multi_pass_eq chance draw cpass ppass noff me target fuel sched (root : nodeR) st :
  Fits (e_strat_view st) root ->
  (forall l, Permutation l (sched l)) ->
  ext_multi_pass chance draw cpass ppass noff me target fuel sched root st =
  @erec RNum chance draw cpass ppass noff me root st.
Proof.
  intros HF Hs. unfold ext_multi_pass. cbv zeta.
  set (sg := e_strat_view st).
  set (Q := ext_frontier chance draw cpass ppass noff me sg target fuel root).
  pose proof (ext_frontier_ok chance draw cpass ppass noff me sg root target fuel HF) as HQ.
  fold Q in HQ.
  destruct (ext_cut_lemma chance draw cpass ppass noff me sg root Q HQ) as [Hv Hp].
  unfold payoffs_of in Hv, Hp.
  rewrite (erec_cached_incs_sv chance draw cpass ppass noff me sg root).
  2:{ apply SV_fold. intros pl i. reflexivity. }
  rewrite erec_incs. fold sg. rewrite Hv. f_equal.
  rewrite <- fold_left_app. apply e_apply_perm.
  etransitivity; [|exact Hp].
  etransitivity; [|apply Permutation_app_comm].
  apply Permutation_app_tail. symmetry. apply Hs.
Qed.

(** ** The state fits the tree *)
Lemma shaped_kids (g : gameR) (n : nodeR) : @shaped RNum g n -> Forall (@shaped RNum g) (e_kids_of n).
Proof.
  destruct n as [x|ci kids|pl i kids]; cbn [shaped e_kids_of]; [constructor| |];
    intros (_ & _ & _ & H); induction kids as [|k r IH]; constructor;
      destruct H as [Hk Hr]; auto.
Qed.

Lemma shaped_subtree (g : gameR) q :
  forall (n c : nodeR), @shaped RNum g n -> subtree n q = Some c -> @shaped RNum g c.
Proof.
  induction q as [|a q IH]; intros n c Hn Hs; cbn [subtree] in Hs.
  - now injection Hs as <-.
  - destruct (nth_error (e_kids_of n) a) as [c0|] eqn:Ek; [|discriminate].
    apply (IH c0); [|assumption].
    pose proof (shaped_kids g n Hn) as HF. rewrite Forall_forall in HF.
    apply HF. eapply nth_error_In; eauto.
Qed.

Lemma Forall2_nth {A B} (Q : A -> B -> Prop) da db la lb i :
  Forall2 Q la lb -> (i < length la)%nat -> Q (nth i la da) (nth i lb db).
Proof.
  intros H; revert i; induction H as [|a b la lb Hab H IH]; intros [|i] Hi; cbn [nth length] in *;
    try lia; auto. apply IH. lia.
Qed.

Lemma shaped_Fits (g : gameR) (st : pstateR) :
  @shaped RNum g (g_root g) -> InvA (arities g true) (arities g false) st ->
  Fits (e_strat_view st) (g_root g).
Proof.
  intros Hs [H1 H2] q pl i kids Hq.
  pose proof (shaped_subtree g q _ _ Hs Hq) as Hp. cbn [shaped] in Hp.
  destruct Hp as (Hi & Hlen & _). rewrite Hlen.
  assert (HF : Forall2 RInvA (arities g pl) (@ps_get RNum st pl)) by (destruct pl; assumption).
  pose proof (Forall2_nth RInvA 0%nat (@mkRinfo RNum [] [] []) _ _ i HF) as Hn.
  unfold arities in Hn at 1. rewrite map_length in Hn. specialize (Hn Hi).
  destruct Hn as (_ & _ & _ & _ & Hn). unfold e_strat_view, ri_get. etransitivity; [exact Hn|].
  unfold arities.
  exact (map_nth (fun pi : pinfo => length (pi_actions pi)) (g_infos g pl) (mkPinfo 0%N [] None) i).
Qed.

(** ** The parallel sum of the bounds *)
Lemma psum_ok_Rsum l s : psum_ok l s -> s = Rsum l.
Proof.
  induction 1 as [|x|l1 l2 a b H1 IH1 H2 IH2]; cbn [Rsum]; try lra.
  rewrite Rsum_app. lra.
Qed.

Lemma advance_all_acc (p : @params RNum) it ia l (acc : R) :
  @advance_all RNum p it ia l acc =
  (map (fun ri => fst (@advance RNum p it ia ri)) l,
   (acc + Rsum (map (fun ri => snd (@advance RNum p it ia ri)) l))%R).
Proof.
  revert acc; induction l as [|ri l IH]; intros acc.
  - cbn [advance_all map Rsum]. f_equal. lra.
  - rewrite advance_all_cons, IH. cbn [fst snd map Rsum]. f_equal. lra.
Qed.

Lemma advance_all_par_eq psum (p : @params RNum) it ia l :
  (forall l, psum_ok l (psum l)) ->
  advance_all_par psum p it ia l = @advance_all RNum p it ia l 0%R.
Proof.
  intros H. rewrite advance_all_acc. unfold advance_all_par. f_equal.
  rewrite (psum_ok_Rsum _ _ (H _)). lra.
Qed.

(** ** One iteration *)
Theorem ext_multi_iter_eq_single (g : gameR) draw p target fuel sched1 sched2 psum1 psum2 it st :
  @shaped RNum g (g_root g) ->
  InvA (arities g true) (arities g false) st ->
  (forall l, Permutation l (sched1 l)) -> (forall l, Permutation l (sched2 l)) ->
  (forall l, psum_ok l (psum1 l)) -> (forall l, psum_ok l (psum2 l)) ->
  ext_multi_iter g draw p target fuel sched1 sched2 psum1 psum2 it st =
  @external_iter RNum g draw p it st.
Proof.
  intros Hs Hinv Hp1 Hp2 Hq1 Hq2. unfold ext_multi_iter, external_iter. cbv zeta. cbn [zero RNum].
  rewrite ext_multi_pass_eq by (try assumption; now apply shaped_Fits).
  pose proof (erec_inv _ _ (g_chance g) draw (2 * (it - 1))%N (it - 1)%N (length (g_infos1 g))
                true (g_root g) st Hinv) as H1.
  destruct (erec _ _ _ _ _ true _ _) as [x st1]. cbn [snd] in H1. destruct H1 as [H1a H1b].
  rewrite advance_all_par_eq by assumption.
  pose proof (advance_all_inv _ p it (it - 1)%N (fst st1) 0%R H1a) as HA.
  destruct (advance_all p it (it - 1)%N (fst st1) 0%R) as [l1 r1]. cbn [fst] in HA.
  rewrite ext_multi_pass_eq; [|apply shaped_Fits; [assumption|split; cbn [fst snd]; assumption]
                              |assumption].
  destruct (erec _ _ _ _ _ false _ _) as [y st3].
  rewrite advance_all_par_eq by assumption. reflexivity.
Qed.

(** ** The whole solve *)
Lemma solve_loop_multi_eq (g : gameR) draw p stop target fuel scheds psums :
  @shaped RNum g (g_root g) ->
  (forall it pl l, Permutation l (scheds it pl l)) ->
  (forall it pl l, psum_ok l (psums it pl l)) ->
  forall rem it st regs ran,
    InvA (arities g true) (arities g false) st ->
    solve_loop_multi g draw p stop target fuel scheds psums rem it st regs ran =
    @solve_loop RNum g External draw p stop rem it st regs ran.
Proof.
  intros Hs Hp Hq. induction rem as [|r IH]; intros it st regs ran Hinv;
    cbn [solve_loop_multi solve_loop one_iter]; [reflexivity|].
  rewrite ext_multi_iter_eq_single by (try assumption; first [apply Hp|apply Hq]).
  pose proof (one_iter_inv _ _ g External draw p it st Hinv) as H. cbn [one_iter] in H.
  destruct (external_iter g draw p it st) as [st' [r1 r2]]. cbn [fst] in H.
  cbn [fmax RNum]. destruct (stop _); [reflexivity|]. now apply IH.
Qed.

(** [solve_ext_multi_eq_single]: for every target, fuel, budget, stop predicate, family of
    schedules (interleavings of the tasks' atomic increments), family of reduction orders
    of the bounds, and oracle, the multi-threaded solver returns exactly what the
    single-threaded one returns *)
Theorem solve_ext_multi_eq_single (g : gameR) draw p target fuel scheds psums budget stop :
  @shaped RNum g (g_root g) -> arities_pos g ->
  (forall it pl l, Permutation l (scheds it pl l)) ->
  (forall it pl l, psum_ok l (psums it pl l)) ->
  solve_ext_multi g draw p target fuel scheds psums budget stop =
  @solve_single RNum g External draw p budget stop.
Proof.
  intros Hs Ha Hp Hq. unfold solve_ext_multi, solve_single.
  rewrite solve_loop_multi_eq; try assumption; [reflexivity|]. now apply init_state_inv.
Qed.

Lemma WFgame_arities_pos (g : gameR) : WFgame g -> arities_pos g.
Proof.
  intros (_ & [_ H1] & [_ H2] & _) pl. unfold arities, g_infos.
  destruct pl; apply Forall_map; (eapply Forall_impl; [|eassumption]);
    intros pi [_ H]; cbn beta; lia.
Qed.

Corollary solve_ext_multi_eq_single_WF (g : gameR) draw p target fuel scheds psums budget stop :
  WFgame g ->
  (forall it pl l, Permutation l (scheds it pl l)) ->
  (forall it pl l, psum_ok l (psums it pl l)) ->
  solve_ext_multi g draw p target fuel scheds psums budget stop =
  @solve_single RNum g External draw p budget stop.
Proof.
  intros Hg. apply solve_ext_multi_eq_single; [apply Hg|now apply WFgame_arities_pos].
Qed.

(** ** Unique visit over the tasks and the cached traversal together *)
Theorem multi_unique_visit (g : gameR) chance draw cpass ppass noff me sg target fuel :
  PerfectRecall g -> Fits sg (g_root g) ->
  let Q := ext_frontier chance draw cpass ppass noff me sg target fuel (g_root g) in
  NoDup (evisitsc chance draw cpass ppass noff me sg (g_root g)
                  (cache_of (payoffs_of chance draw cpass ppass noff me sg Q))
         ++ flat_map (fun x : pnode => evisits chance draw cpass ppass noff me sg (snd x)) Q).
Proof.
  intros HPR HF Q. eapply Permutation_NoDup.
  - symmetry. apply ext_cut_visits. now apply ext_frontier_ok.
  - now apply unique_visit.
Qed.

(** ** One draw per cell: a pass consults the oracle only with pass index [cpass] at chance
    infosets (weights: the infoset's probabilities) and [ppass] at the external player's
    infosets (weights: the strategy at the start of the pass): two oracles that agree on
    these queries give the same pass *)
Section Draws.
  Context (chance : list (list R)) (draw draw' : oracleR) (cpass ppass : N) (noff : nat) (me : bool)
          (sg : bool -> nat -> list R).
  Context (HC : forall ci, draw true ci cpass (@row RNum chance ci) = draw' true ci cpass (@row RNum chance ci))
          (HP : forall pl i, draw false (ext_id noff pl i) ppass (sg pl i) =
                             draw' false (ext_id noff pl i) ppass (sg pl i)).

  Lemma eval_draw_ext (n : nodeR) :
    eval chance draw cpass ppass noff me sg n = eval chance draw' cpass ppass noff me sg n.
  Proof.
    induction n as [x|ci kids IH|pl i kids IH] using SolveValidProofs.node_ind';
      cbn [eval]; try rewrite Forall_forall in IH.
    - reflexivity.
    - unfold cdraw. rewrite HC, !pickf_nth.
      destruct (nth_error kids _) as [c|] eqn:Ek; [|reflexivity].
      apply IH. eapply nth_error_In; eauto.
    - destruct (Bool.eqb pl me).
      + apply goval_ext. intros j c Hj. apply IH. eapply nth_error_In; eauto.
      + unfold pdraw. rewrite HP, !pickf_nth.
        destruct (nth_error kids _) as [c|] eqn:Ek; [|reflexivity].
        apply IH. eapply nth_error_In; eauto.
  Qed.

  Lemma etr_draw_ext {E} (ePre : bool -> nat -> list E) eChild ePost eExt (n : nodeR) :
    etr chance draw cpass ppass noff me sg ePre eChild ePost eExt n =
    etr chance draw' cpass ppass noff me sg ePre eChild ePost eExt n.
  Proof.
    induction n as [x|ci kids IH|pl i kids IH] using SolveValidProofs.node_ind';
      cbn [etr]; try rewrite Forall_forall in IH.
    - reflexivity.
    - unfold cdraw. rewrite HC, !pickf_nth.
      destruct (nth_error kids _) as [c|] eqn:Ek; [|reflexivity].
      apply IH. eapply nth_error_In; eauto.
    - destruct (Bool.eqb pl me).
      + rewrite (eval_draw_ext (Player pl i kids)). f_equal. f_equal.
        apply gotr_ext. intros j c Hj. rewrite eval_draw_ext. f_equal.
        apply IH. eapply nth_error_In; eauto.
      + f_equal. unfold pdraw. rewrite HP, !pickf_nth.
        destruct (nth_error kids _) as [c|] eqn:Ek; [|reflexivity].
        apply IH. eapply nth_error_In; eauto.
  Qed.
End Draws.

Theorem one_draw_per_cell chance (draw draw' : oracleR) cpass ppass noff me (n : nodeR) st :
  (forall ci, draw true ci cpass (@row RNum chance ci) = draw' true ci cpass (@row RNum chance ci)) ->
  (forall pl i, draw false (ext_id noff pl i) ppass (e_strat_view st pl i) =
                draw' false (ext_id noff pl i) ppass (e_strat_view st pl i)) ->
  @erec RNum chance draw cpass ppass noff me n st = @erec RNum chance draw' cpass ppass noff me n st.
Proof.
  intros HC HP. rewrite !erec_incs. unfold eincs.
  rewrite (eval_draw_ext chance draw draw' cpass ppass noff me (e_strat_view st) HC HP).
  rewrite (etr_draw_ext chance draw draw' cpass ppass noff me (e_strat_view st) HC HP).
  reflexivity.
Qed.

(** ** A concrete tree on which the frontier has two tasks *)
Definition eex_A : nodeR := Player false 0 [@Term RNum 1%R; @Term RNum 2%R].
Definition eex_B : nodeR := Player false 0 [@Term RNum 3%R; @Term RNum 4%R].
Definition eex_C : nodeR := Player true 1 [@Term RNum 5%R; @Term RNum 6%R].
Definition eex_root : nodeR := Player true 0 [eex_A; eex_B; eex_C].

Example ex_frontier_two_tasks chance draw cpass ppass noff sg fuel :
  ext_frontier chance draw cpass ppass noff true sg 4 (3 + fuel) eex_root =
  [([0%nat], eex_A); ([1%nat], eex_B)].
Proof. destruct fuel; reflexivity. Qed.

(** with target 2 on the same tree the loop stops with everything in [work]: no task at all *)
Example ex_frontier_no_task chance draw cpass ppass noff sg fuel :
  ext_frontier chance draw cpass ppass noff true sg 2 (1 + fuel) eex_root = [].
Proof. destruct fuel; reflexivity. Qed.

Lemma subtree_Term x q (c : nodeR) : subtree (@Term RNum x) q = Some c -> c = @Term RNum x.
Proof.
  destruct q as [|[|a] q]; cbn [subtree e_kids_of nth_error]; intros H;
    [now injection H as <-|discriminate|discriminate].
Qed.

Lemma subtree_leafy pl i x y q pl' i' kids :
  subtree (Player pl i [@Term RNum x; @Term RNum y]) q = Some (Player pl' i' kids) ->
  pl' = pl /\ i' = i /\ kids = [@Term RNum x; @Term RNum y].
Proof.
  destruct q as [|[|[|a]] q]; cbn [subtree e_kids_of nth_error]; intros H.
  - injection H as <- <- <-. auto.
  - apply subtree_Term in H. discriminate.
  - apply subtree_Term in H. discriminate.
  - destruct a; discriminate.
Qed.

Example ex_pass_eq chance draw cpass ppass noff sched (st : pstateR) fuel :
  length (e_strat_view st true 0) = 3%nat -> length (e_strat_view st true 1) = 2%nat ->
  length (e_strat_view st false 0) = 2%nat ->
  (forall l, Permutation l (sched l)) ->
  ext_multi_pass chance draw cpass ppass noff true 4 fuel sched eex_root st =
  @erec RNum chance draw cpass ppass noff true eex_root st.
Proof.
  intros H0 H1 H2 Hs. apply ext_multi_pass_eq; [|exact Hs].
  intros q pl i kids Hq. unfold eex_root in Hq.
  destruct q as [|[|[|[|a]]] q]; cbn [subtree e_kids_of nth_error] in Hq.
  - injection Hq as <- <- <-. exact H0.
  - apply subtree_leafy in Hq. destruct Hq as (-> & -> & ->). exact H2.
  - apply subtree_leafy in Hq. destruct Hq as (-> & -> & ->). exact H2.
  - apply subtree_leafy in Hq. destruct Hq as (-> & -> & ->). exact H1.
  - destruct a; discriminate.
Qed.

(** ** [thread_threshold] terminates: from some fuel on, the result of [tt_loop] no longer
    depends on the fuel (the loop has left through its own exit test) *)
Fixpoint nsize (n : nodeR) : nat :=
  match n with
  | Term _ => 1%nat
  | Chance _ kids => S (list_sum (map nsize kids))
  | Player _ _ kids => S (list_sum (map nsize kids))
  end.

Definition psize (L : list pnode) : nat := list_sum (map (fun x : pnode => nsize (snd x)) L).

Lemma psize_cons x L : psize (x :: L) = (nsize (snd x) + psize L)%nat.
Proof. reflexivity. Qed.

Lemma psize_nil : psize [] = 0%nat.
Proof. reflexivity. Qed.

Lemma psize_app L1 L2 : psize (L1 ++ L2) = (psize L1 + psize L2)%nat.
Proof. unfold psize. now rewrite map_app, list_sum_app. Qed.

Lemma psize_consp a L : psize (map (consp a) L) = psize L.
Proof. unfold psize. rewrite map_map. reflexivity. Qed.

Lemma psize_mapi a ks : psize (mapi_kids a ks) = list_sum (map nsize ks).
Proof.
  unfold psize. revert a; induction ks as [|k r IH]; intros a;
    cbn [mapi_kids map list_sum fold_right snd]; [reflexivity|]. f_equal. apply IH.
Qed.

Lemma nsize_kid_le (ks : list nodeR) k c :
  nth_error ks k = Some c -> (nsize c <= list_sum (map nsize ks))%nat.
Proof.
  revert k; induction ks as [|x r IH]; intros [|k] H; cbn [nth_error] in H; try discriminate;
    cbn [map list_sum fold_right]; fold (list_sum (map nsize r)).
  - injection H as ->. lia.
  - specialize (IH k H). lia.
Qed.

Section Termination.
  Context (chance : list (list R)) (draw : oracleR) (cpass ppass : N) (noff : nat) (me : bool)
          (sg : bool -> nat -> list R).

  Local Notation next_rel := (next_rel chance draw cpass ppass noff me sg).
  Local Notation next_nodes := (next_nodes chance draw cpass ppass noff me sg).
  Local Notation tt_loop := (tt_loop chance draw cpass ppass noff me sg).

  Lemma next_rel_size (n : nodeR) : (psize (next_rel n) < nsize n)%nat.
  Proof.
    induction n as [x|ci kids IH|pl i kids IH] using SolveValidProofs.node_ind';
      cbn [ExternalMulti.next_rel nsize]; try rewrite Forall_forall in IH.
    - cbn. lia.
    - rewrite psize_consp, pickf_nth.
      destruct (nth_error kids _) as [c|] eqn:Ek; [|cbn; lia].
      pose proof (IH c (nth_error_In _ _ Ek)). pose proof (nsize_kid_le _ _ _ Ek). lia.
    - destruct (Bool.eqb pl me).
      + rewrite psize_mapi. lia.
      + rewrite psize_consp, pickf_nth.
        destruct (nth_error kids _) as [c|] eqn:Ek; [|cbn; lia].
        pose proof (IH c (nth_error_In _ _ Ek)). pose proof (nsize_kid_le _ _ _ Ek). lia.
  Qed.

  Lemma next_nodes_size x : (psize (next_nodes x) < nsize (snd x))%nat.
  Proof.
    unfold ExternalMulti.next_nodes, psize. rewrite map_map. cbn [snd].
    apply next_rel_size.
  Qed.

  Definition tmeasure (queue work : list pnode) : nat :=
    (2 * (psize queue + psize work) + match queue with [] => 1 | _ => 0 end)%nat.

  Lemma tt_loop_stable target :
    forall m queue work,
      (tmeasure queue work < m)%nat ->
      exists fuel0, forall fuel, (fuel0 <= fuel)%nat ->
                                 tt_loop fuel target queue work = tt_loop fuel0 target queue work.
  Proof.
    induction m as [|m IH]; intros queue work Hm; [lia|].
    destruct ((match queue, work with [], [] => true | _, _ => false end)
              || (target <=? length queue + length work)%nat) eqn:Edone.
    - exists 1%nat. intros [|f] Hf; [lia|]. cbn [ExternalMulti.tt_loop]. now rewrite Edone.
    - destruct (rev queue) as [|x rq] eqn:Er.
      + apply (f_equal (@rev _)) in Er. rewrite rev_involutive in Er. cbn [rev] in Er. subst queue.
        assert (Hw : work <> []) by (intros ->; cbn in Edone; discriminate).
        destruct (IH work []) as [f1 Hf1].
        { unfold tmeasure in *. destruct work; [congruence|]. rewrite psize_cons, psize_nil in *. lia. }
        exists (S f1). intros [|f] Hf; [lia|]. cbn [ExternalMulti.tt_loop rev]. rewrite Edone.
        apply Hf1. lia.
      + apply (f_equal (@rev _)) in Er. rewrite rev_involutive in Er. cbn [rev] in Er.
        destruct (IH (rev rq) (work ++ next_nodes x)) as [f1 Hf1].
        { pose proof (next_nodes_size x) as Hs. unfold tmeasure in *. subst queue.
          rewrite !psize_app in *. rewrite psize_cons, psize_nil in Hm.
          destruct (rev rq); cbn [app] in Hm; lia. }
        exists (S f1). intros [|f] Hf; [lia|]. cbn [ExternalMulti.tt_loop]. rewrite Edone.
        subst queue. rewrite rev_app_distr, rev_involutive. cbn [rev app]. apply Hf1. lia.
  Qed.

  Theorem ext_frontier_terminates target root :
    exists fuel0, forall fuel, (fuel0 <= fuel)%nat ->
      ext_frontier chance draw cpass ppass noff me sg target fuel root =
      ext_frontier chance draw cpass ppass noff me sg target fuel0 root.
  Proof.
    destruct (tt_loop_stable target _ [([], root)] [] (Nat.lt_succ_diag_r _)) as [f0 H].
    exists f0. intros fuel Hf. unfold ext_frontier. now rewrite H.
  Qed.
End Termination.
