(** * ExternalConcentration: second moment and a Chebyshev bound for the external-sampled solver.

    [ExternalMartingale.v] shows that along a run of the external-sampled solver the
    differences [d_t = sampled increment - true increment] of the regret of [(me, i, a)] have
    conditional mean zero given the state at the start of the iteration ([ext_md_step]); the
    expectation over a run threads the state ([expect_run_ext]), the weights of the draws of
    the players' actions being the strategy rows of the current state.  Here:

    - [chebyshev_run_ext]: the finite Chebyshev inequality for [expect_run_ext];
    - [ext_md_orthogonal_past], [ext_md_orthogonal]: [d_t] is orthogonal to every function of
      the draws of the iterations before it, in particular to [d_s], [s < t];
    - [ext_second_moment_step], [ext_second_moment]: [E[M_n^2] = sum_{t<n} E[d_t^2]];
    - [ext_md_abs_bound]: [|d_t| <= 2 (hi - lo)] on every history that carries weight;
    - [ext_second_moment_bound], [ext_chebyshev], [ext_chebyshev_explicit],
      [ext_chebyshev_rate], [ext_deviation_vanishes]: the probability bounds;
    - [ext_run_regret_vanilla], [ext_chebyshev_vanilla], [ext_chebyshev_rate_vanilla],
      [ext_deviation_vanishes_vanilla]: with undiscounted parameters the accumulated sampled
      increments are the cumulative regret the solver holds, the bounds restated for it;
    - matching pennies: all hypotheses discharged, and the numbers of the first iteration
      ([mp_ext_chebyshev_attained]: the inequality is attained at [lam = 1]). *)
From Coq Require Import Reals List Lra Lia Bool Arith NArith.
From Cfr.theories Require Import Num RInst Tree GameWF Strat Eval Solve Valid TruncProofs
     SolveValidProofs LoopProofs Incr IterChar RmPotential CfMass CfrRate ExtIncr SampledRate
     ExternalProofs ExternalRate Unbiased ExternalUnbiased SampledMartingale SampledConcentration
     ExternalMartingale.
Import ListNotations.
Open Scope R_scope.

Local Notation nodeR := (@node RNum).
Local Notation gameR := (@game RNum).
Local Notation pstateR := (@pstate RNum).
Local Notation paramsR := (@params RNum).
Local Notation oracleR := (@oracle RNum).

(** ** Small facts *)
Lemma expect_zero rows : expect rows (fun _ => 0) = 0.
Proof.
  rewrite (expect_ext_all rows _ (fun _ => 0 * 0)) by (intros; lra).
  rewrite (expect_scal rows 0 (fun _ => 0)). lra.
Qed.

Lemma sum_upto_shift n (f : nat -> R) :
  sum_upto (S n) f = f O + sum_upto n (fun t => f (S t)).
Proof.
  induction n as [|n IH]; [cbn [sum_upto]; lra|].
  change (sum_upto (S (S n)) f) with (sum_upto (S n) f + f (S n)). rewrite IH.
  cbn [sum_upto]. lra.
Qed.

Lemma sum_upto_plus n (f h : nat -> R) :
  sum_upto n (fun t => f t + h t) = sum_upto n f + sum_upto n h.
Proof. induction n as [|n IH]; cbn [sum_upto]; [lra|]. rewrite IH. lra. Qed.

Lemma F2_nth {A B} (Q : A -> B -> Prop) la lb i da db :
  Forall2 Q la lb -> (i < length la)%nat -> Q (nth i la da) (nth i lb db).
Proof.
  intros H; revert i; induction H as [|x y la lb Hxy H IH]; intros i Hi; cbn [length] in Hi; [lia|].
  destruct i as [|i]; cbn [nth]; [assumption|]. apply IH; lia.
Qed.

Lemma F2_len {A B} (Q : A -> B -> Prop) la lb : Forall2 Q la lb -> length la = length lb.
Proof. induction 1; cbn [length]; congruence. Qed.

(** ** The expectation over the external run: scaling, monotonicity *)
Section ExtExpect.
  Context (g : gameR) (p : paramsR).
  Context (HCO : ChanceOK g).
  Local Notation chance := (g_chance g).
  Local Notation IA := (InvA (arities g true) (arities g false)).
  Local Notation EI := (expect_iter g p).
  Local Notation ER := (expect_run_ext g p).
  Local Notation step := (ext_step g p).

  Lemma prows_nonneg (st : pstateR) pl : IA st -> Forall (Forall (fun x => 0 <= x)) (prows g st pl).
  Proof.
    intros HI. unfold prows. apply Forall_forall. intros r Hr.
    apply in_map_iff in Hr as (j & <- & _).
    exact (proj1 (Inv_rows st (Inv_of_InvA _ _ _ HI) pl j)).
  Qed.

  Lemma expect_iter_scal it st c (f : edraws -> R) :
    EI it st (fun x => c * f x) = c * EI it st f.
  Proof.
    unfold expect_iter. rewrite <- expect_scal.
    apply expect_ext_all; intros e1. rewrite <- expect_scal.
    apply expect_ext_all; intros d1. rewrite <- expect_scal.
    apply expect_ext_all; intros e2. now rewrite <- expect_scal.
  Qed.

  Lemma expect_iter_zero it st : EI it st (fun _ => 0) = 0.
  Proof.
    rewrite (expect_iter_ext g p it st _ (fun _ => 0 * 0)) by (intros; lra).
    rewrite (expect_iter_scal it st 0 (fun _ => 0)). lra.
  Qed.

  Lemma expect_iter_minus it st (f h : edraws -> R) :
    EI it st (fun x => f x - h x) = EI it st f - EI it st h.
  Proof.
    rewrite (expect_iter_ext g p it st _ (fun x => f x + (-1) * h x)) by (intros; lra).
    rewrite expect_iter_plus, expect_iter_scal. lra.
  Qed.

  Lemma expect_iter_sum_upto it st m (F : nat -> edraws -> R) :
    EI it st (fun x => sum_upto m (fun t => F t x)) = sum_upto m (fun t => EI it st (F t)).
  Proof.
    induction m as [|m IH]; cbn [sum_upto]; [apply expect_iter_zero|].
    now rewrite expect_iter_plus, IH.
  Qed.

  (** the draws of one iteration that carry weight: every draw is an index into its row *)
  Definition ext_draws_in (it : N) (st : pstateR) (x : edraws) : Prop :=
    draw_in (prows g st false) (ed_e1 x) /\ draw_in chance (ed_d1 x) /\
    draw_in (prows g (ext_mid g p it st (ed_d1 x) (ed_e1 x)) true) (ed_e2 x) /\
    draw_in chance (ed_d2 x).

  Lemma expect_iter_le_dom it st (f h : edraws -> R) :
    IA st -> (forall x, ext_draws_in it st x -> f x <= h x) -> EI it st f <= EI it st h.
  Proof.
    intros HI H. unfold expect_iter. pose proof (ChanceOK_nonneg g HCO) as Hc.
    apply expect_le_dom; [now apply prows_nonneg|]. intros e1 He1.
    apply expect_le_dom; [assumption|]. intros d1 Hd1.
    apply expect_le_dom; [apply prows_nonneg; now apply ext_mid_inv|]. intros e2 He2.
    apply expect_le_dom; [assumption|]. intros d2 Hd2.
    apply H. repeat split; assumption.
  Qed.

  (** the histories that carry weight, along the run *)
  Fixpoint ext_history_in (it : N) (st : pstateR) (xs : list edraws) : Prop :=
    match xs with
    | [] => True
    | x :: xs' => ext_draws_in it st x /\ ext_history_in (it + 1) (step it st x) xs'
    end.

  Lemma expect_run_ext_le_dom n : forall it st (f h : list edraws -> R),
    IA st ->
    (forall xs, length xs = n -> ext_history_in it st xs -> f xs <= h xs) ->
    ER n it st f <= ER n it st h.
  Proof.
    induction n as [|n IH]; intros it st f h HI H; cbn [expect_run_ext].
    - apply H; [reflexivity|exact I].
    - apply expect_iter_le_dom; [assumption|]. intros x Hx.
      apply IH; [now apply ext_step_inv|]. intros xs Hl Hxs.
      apply H; [cbn [length]; now rewrite Hl|split; assumption].
  Qed.

  Lemma expect_run_ext_scal n c : forall it st (f : list edraws -> R),
    ER n it st (fun xs => c * f xs) = c * ER n it st f.
  Proof.
    induction n as [|n IH]; intros it st f; cbn [expect_run_ext]; [reflexivity|].
    rewrite <- expect_iter_scal. apply expect_iter_ext. intros x. apply IH.
  Qed.

  Lemma expect_run_ext_zero n it st : ER n it st (fun _ => 0) = 0.
  Proof.
    rewrite (expect_run_ext_ext g p n it st _ (fun _ => 0 * 0)) by (intros; lra).
    rewrite (expect_run_ext_scal n 0 it st (fun _ => 0)). lra.
  Qed.

  Lemma expect_run_ext_minus n it st (f h : list edraws -> R) :
    ER n it st (fun xs => f xs - h xs) = ER n it st f - ER n it st h.
  Proof.
    rewrite (expect_run_ext_ext g p n it st _ (fun xs => f xs + (-1) * h xs)) by (intros; lra).
    rewrite expect_run_ext_plus, expect_run_ext_scal. lra.
  Qed.

  Lemma expect_run_ext_sum_upto n it st m (F : nat -> list edraws -> R) :
    ER n it st (fun xs => sum_upto m (fun t => F t xs)) = sum_upto m (fun t => ER n it st (F t)).
  Proof.
    induction m as [|m IH]; cbn [sum_upto]; [apply expect_run_ext_zero|].
    now rewrite expect_run_ext_plus, IH.
  Qed.

  (** ** 1. The finite Chebyshev inequality for the external run *)
  Theorem chebyshev_run_ext n it st lam (f : list edraws -> R) :
    IA st -> 0 < lam ->
    ER n it st (fun xs => ind_ge lam (f xs)) <= ER n it st (fun xs => f xs ^ 2) / lam ^ 2.
  Proof.
    intros HI Hl. unfold Rdiv. rewrite Rmult_comm, <- expect_run_ext_scal.
    apply expect_run_ext_le_dom; [assumption|]. intros xs _ _.
    pose proof (ind_ge_le_sq lam (f xs) Hl) as H. unfold Rdiv in H. lra.
  Qed.

  (** the weight of an event is between 0 and 1 *)
  Lemma expect_run_ext_ind_range n it st lam (f : list edraws -> R) :
    IA st -> 0 <= ER n it st (fun xs => ind_ge lam (f xs)) <= 1.
  Proof.
    intros HI. split.
    - rewrite <- (expect_run_ext_zero n it st). apply expect_run_ext_le_dom; [assumption|].
      intros xs _ _. apply ind_ge_range.
    - rewrite <- (expect_run_ext_const g p HCO n 1 it st HI).
      apply expect_run_ext_le_dom; [assumption|]. intros xs _ _. apply ind_ge_range.
  Qed.
End ExtExpect.

(** ** 2. The martingale of the external-sampled run *)
Section ExtConc.
  Context (g : gameR) (p : paramsR).
  Context (HWF : WFgame g) (HPR : PerfectRecall g) (HCO : ChanceOK g) (HNR : NoRepeat (g_root g)).
  Local Notation chance := (g_chance g).
  Local Notation IA := (InvA (arities g true) (arities g false)).
  Local Notation EI := (expect_iter g p).
  Local Notation ER := (expect_run_ext g p).
  Local Notation step := (ext_step g p).

  (** the difference of one iteration, the martingale along a run, the difference of the
      iteration number [t] (counted from 0) of a run *)
  Definition ext_md (me : bool) (i a : nat) (it : N) (st : pstateR) (x : edraws) : R :=
    ext_sampled_inc g p me i a it st x - ext_true_inc g p me i a it st x.

  Fixpoint ext_mart (me : bool) (i a : nat) (it : N) (st : pstateR) (xs : list edraws) : R :=
    match xs with
    | [] => 0
    | x :: xs' => ext_md me i a it st x + ext_mart me i a (it + 1) (step it st x) xs'
    end.

  Fixpoint ext_md_at (me : bool) (i a : nat) (it : N) (st : pstateR) (xs : list edraws) (t : nat) : R :=
    match xs with
    | [] => 0
    | x :: xs' => match t with
                  | O => ext_md me i a it st x
                  | S t' => ext_md_at me i a (it + 1) (step it st x) xs' t'
                  end
    end.

  Lemma ext_mart_split me i a xs : forall it st,
    ext_mart me i a it st xs =
    ext_sampled_sum g p me i a it st xs - ext_true_sum g p me i a it st xs.
  Proof.
    induction xs as [|x xs IH]; intros it st; cbn [ext_mart ext_sampled_sum ext_true_sum]; [lra|].
    rewrite IH. unfold ext_md. lra.
  Qed.

  Lemma ext_mart_sum_upto me i a xs : forall it st,
    ext_mart me i a it st xs = sum_upto (length xs) (ext_md_at me i a it st xs).
  Proof.
    induction xs as [|x xs IH]; intros it st; [reflexivity|].
    cbn [length]. rewrite sum_upto_shift. cbn [ext_mart ext_md_at]. now rewrite IH.
  Qed.

  (** [d_t] depends on the first [t+1] iterations only *)
  Lemma ext_md_at_firstn me i a xs : forall it st k t,
    (t < k)%nat -> ext_md_at me i a it st (firstn k xs) t = ext_md_at me i a it st xs t.
  Proof.
    induction xs as [|x xs IH]; intros it st k t Ht; [now rewrite firstn_nil|].
    destruct k as [|k]; [lia|]. cbn [firstn ext_md_at]. destruct t as [|t]; [reflexivity|].
    apply IH. lia.
  Qed.

  (** *** conditional mean zero *)
  Lemma expect_iter_md_zero me i a it st : IA st -> EI it st (ext_md me i a it st) = 0.
  Proof.
    intros HI. unfold ext_md. rewrite expect_iter_minus.
    rewrite (ext_md_step g p HWF HPR HCO HNR me i a it st HI). lra.
  Qed.

  Lemma expect_run_ext_mart_zero me i a n it st : IA st -> ER n it st (ext_mart me i a it st) = 0.
  Proof.
    intros HI.
    rewrite (expect_run_ext_ext g p n it st _
               (fun xs => ext_sampled_sum g p me i a it st xs - ext_true_sum g p me i a it st xs))
      by (intros; apply ext_mart_split).
    rewrite expect_run_ext_minus.
    rewrite (ext_run_tower_from g p HWF HPR HCO HNR me i a n it st HI). lra.
  Qed.

  (** *** Orthogonality: [d_t] against any function of the iterations before it *)
  Theorem ext_md_orthogonal_past me i a t : forall n it st (h : list edraws -> R),
    IA st -> (t < n)%nat ->
    ER n it st (fun xs => h (firstn t xs) * ext_md_at me i a it st xs t) = 0.
  Proof.
    induction t as [|t IH]; intros n it st h HI Ht; (destruct n as [|n]; [lia|]);
      cbn [expect_run_ext].
    - rewrite (expect_iter_ext g p it st _ (fun x => h [] * ext_md me i a it st x)).
      + rewrite expect_iter_scal, expect_iter_md_zero by assumption. lra.
      + intros x. cbn [firstn ext_md_at].
        apply (expect_run_ext_const g p HCO n _ (it + 1)%N (step it st x)).
        now apply ext_step_inv.
    - rewrite (expect_iter_ext g p it st _ (fun _ => 0)); [now apply expect_iter_const|].
      intros x. cbn [firstn ext_md_at].
      apply (IH n (it + 1)%N (step it st x) (fun l => h (x :: l))); [now apply ext_step_inv|lia].
  Qed.

  Theorem ext_md_orthogonal me i a s t n it st :
    IA st -> (s < t)%nat -> (t < n)%nat ->
    ER n it st (fun xs => ext_md_at me i a it st xs s * ext_md_at me i a it st xs t) = 0.
  Proof.
    intros HI Hs Ht.
    rewrite <- (ext_md_orthogonal_past me i a t n it st
                  (fun l => ext_md_at me i a it st l s) HI Ht).
    apply expect_run_ext_ext. intros xs. now rewrite ext_md_at_firstn by assumption.
  Qed.

  (** the same across two regret entries *)
  Theorem ext_md_orthogonal_cross me i a me' i' a' s t n it st :
    IA st -> (s < t)%nat -> (t < n)%nat ->
    ER n it st (fun xs => ext_md_at me' i' a' it st xs s * ext_md_at me i a it st xs t) = 0.
  Proof.
    intros HI Hs Ht.
    rewrite <- (ext_md_orthogonal_past me i a t n it st
                  (fun l => ext_md_at me' i' a' it st l s) HI Ht).
    apply expect_run_ext_ext. intros xs. now rewrite ext_md_at_firstn by assumption.
  Qed.

  (** *** The second moment: the first iteration splits off *)
  Theorem ext_second_moment_step me i a n it st :
    IA st ->
    ER (S n) it st (fun xs => ext_mart me i a it st xs ^ 2) =
    EI it st (fun x => ext_md me i a it st x ^ 2) +
    EI it st (fun x => ER n (it + 1) (step it st x)
                          (fun xs => ext_mart me i a (it + 1) (step it st x) xs ^ 2)).
  Proof.
    intros HI. cbn [expect_run_ext]. rewrite <- expect_iter_plus.
    apply expect_iter_ext. intros x. cbn [ext_mart].
    assert (HI' : IA (step it st x)) by now apply ext_step_inv.
    set (c := ext_md me i a it st x).
    set (M := ext_mart me i a (it + 1) (step it st x)).
    rewrite (expect_run_ext_ext g p n _ _ _ (fun xs => c ^ 2 + (2 * c * M xs + M xs ^ 2)))
      by (intros; ring).
    rewrite expect_run_ext_plus, expect_run_ext_plus, expect_run_ext_scal.
    rewrite (expect_run_ext_const g p HCO n _ _ _ HI').
    unfold M. rewrite expect_run_ext_mart_zero by assumption. lra.
  Qed.

  (** *** The second moment is the sum of the second moments of the differences *)
  Theorem ext_second_moment me i a n : forall it st,
    IA st ->
    ER n it st (fun xs => ext_mart me i a it st xs ^ 2) =
    sum_upto n (fun t => ER n it st (fun xs => ext_md_at me i a it st xs t ^ 2)).
  Proof.
    induction n as [|n IH]; intros it st HI.
    - cbn [expect_run_ext sum_upto ext_mart]. lra.
    - rewrite ext_second_moment_step by assumption. rewrite sum_upto_shift. f_equal.
      + cbn [expect_run_ext]. apply expect_iter_ext. intros x. cbn [ext_md_at].
        symmetry. apply (expect_run_ext_const g p HCO). now apply ext_step_inv.
      + rewrite (expect_iter_ext g p it st _
                   (fun x => sum_upto n (fun t => ER n (it + 1) (step it st x)
                        (fun xs => ext_md_at me i a (it + 1) (step it st x) xs t ^ 2)))).
        2:{ intros x. apply IH. now apply ext_step_inv. }
        rewrite expect_iter_sum_upto. apply sum_upto_ext. intros t _. reflexivity.
  Qed.

  (** *** with a bound on one difference as a hypothesis *)
  Section Bounded.
    Context (me : bool) (i a : nat) (C : R).
    Context (HC : forall it st x, IA st -> ext_draws_in g p it st x -> Rabs (ext_md me i a it st x) <= C).

    Lemma ext_second_moment_le n : forall it st,
      IA st -> ER n it st (fun xs => ext_mart me i a it st xs ^ 2) <= C ^ 2 * INR n.
    Proof.
      induction n as [|n IH]; intros it st HI.
      - cbn [expect_run_ext ext_mart INR]. lra.
      - rewrite ext_second_moment_step by assumption. rewrite S_INR.
        assert (H1 : EI it st (fun x => ext_md me i a it st x ^ 2) <= C ^ 2).
        { rewrite <- (expect_iter_const g p HCO it st (C ^ 2) HI).
          apply expect_iter_le_dom; [assumption|assumption|]. intros x Hx.
          pose proof (HC it st x HI Hx) as H. rewrite <- (pow2_abs (ext_md me i a it st x)).
          pose proof (Rabs_pos (ext_md me i a it st x)). nra. }
        assert (H2 : EI it st (fun x => ER n (it + 1) (step it st x)
                         (fun xs => ext_mart me i a (it + 1) (step it st x) xs ^ 2)) <= C ^ 2 * INR n).
        { rewrite <- (expect_iter_const g p HCO it st (C ^ 2 * INR n) HI).
          apply expect_iter_le_dom; [assumption|assumption|]. intros x _.
          apply IH. now apply ext_step_inv. }
        lra.
    Qed.

    Theorem ext_chebyshev_gen n it st lam :
      IA st -> 0 < lam ->
      ER n it st (fun xs => ind_ge lam (ext_mart me i a it st xs)) <= C ^ 2 * INR n / lam ^ 2.
    Proof.
      intros HI Hl.
      eapply Rle_trans; [apply chebyshev_run_ext; assumption|].
      unfold Rdiv. apply Rmult_le_compat_r; [|now apply ext_second_moment_le].
      apply Rlt_le, Rinv_0_lt_compat. nra.
    Qed.
  End Bounded.
End ExtConc.

(** ** 3. Every difference is bounded by twice the payoff range *)

(** [ExternalRate.ValShaped_ext] with the draws in range only where the pass consults them *)
Lemma ValShaped_ext_dom chance draw cpass ppass noff sg me n :
  (forall ci, VRow (@row RNum chance ci) ->
              (draw true ci cpass (@row RNum chance ci) < length (@row RNum chance ci))%nat) ->
  (forall pl i, Bool.eqb pl me = false -> VRow (sg pl i) ->
                (pdraw draw ppass noff sg pl i < length (sg pl i))%nat) ->
  ValShaped chance sg n ->
  ValShaped (samp_chance chance draw cpass) (ext_sg draw ppass noff sg me) n.
Proof.
  intros HD1 HD2. induction n as [x|ci kids IH|pl i kids IH] using node_ind'; intros HV;
    inversion HV as [|? ? EL HR HVk|? ? ? EL HR HVk]; subst.
  - constructor.
  - constructor.
    + rewrite row_samp, hot_length. exact EL.
    + rewrite row_samp. apply hot_VRow. now apply HD1.
    + rewrite Forall_forall in *. intros c Hc. apply IH; auto.
  - constructor.
    + unfold ext_sg. destruct (Bool.eqb pl me); [exact EL|now rewrite hot_length].
    + unfold ext_sg. destruct (Bool.eqb pl me) eqn:E; [exact HR|].
      apply hot_VRow. now apply HD2.
    + rewrite Forall_forall in *. intros c Hc. apply IH; auto.
Qed.

Section ExtBound.
  Context (g : gameR) (p : paramsR) (lo hi : R).
  Context (HWF : WFgame g) (HPR : PerfectRecall g) (HCO : ChanceOK g)
          (HPay : PayoffsIn lo hi (g_root g)).
  Local Notation chance := (g_chance g).
  Local Notation noff := (length (g_infos1 g)).
  Local Notation IA := (InvA (arities g true) (arities g false)).

  (** the sampled increment of one pass, on draws that carry weight *)
  Lemma ext_pass_inc_abs me i a cpass ppass (st : pstateR) d e :
    IA st -> draw_in chance d -> draw_in (prows g st (negb me)) e ->
    (a < length (strat_view st me i))%nat ->
    Rabs (ext_pass_inc g me i a cpass ppass st d e) <= hi - lo.
  Proof.
    intros HI Hd He Ha. unfold ext_pass_inc.
    assert (HV : ValShaped chance (strat_view st) (g_root g)).
    { destruct HWF as (HS & _). now apply shaped_ValShaped. }
    rewrite (ext_reg_sum chance (draw2 me noff d e) cpass ppass noff (strat_view st) me i a
                         (g_root g) HV 1 1 1) by (unfold oppw; destruct me; lra).
    destruct HPR as (H & HH).
    apply (cfr_inc_bound_tree _ _ lo hi me i a (g_root g) (H me i)).
    - apply samp_rows.
    - apply ext_sg_rows. apply Inv_rows. eapply Inv_of_InvA; eauto.
    - intros h Hh. now apply HH.
    - apply ValShaped_ext_dom; [| |assumption].
      + intros ci Hr. unfold draw2. unfold row in *.
        assert (Hci : (ci < length chance)%nat).
        { destruct (Nat.lt_ge_cases ci (length chance)) as [Hlt|Hge]; [assumption|].
          exfalso. apply (VRow_nonempty _ Hr). now rewrite nth_overflow. }
        apply (F2_nth _ d chance ci O [] Hd). rewrite (F2_len _ _ _ Hd). exact Hci.
      + intros pl j Epl Hr. unfold pdraw, draw2, ext_id.
        assert (Epl' : pl = negb me) by (destruct pl, me; try discriminate; reflexivity).
        subst pl.
        assert (Ej : ((if negb me then j else noff + j) - (if me then noff else 0))%nat = j)
          by (destruct me; cbn [negb]; lia).
        rewrite Ej.
        assert (Hj : (j < length (g_infos g (negb me)))%nat).
        { destruct (Nat.lt_ge_cases j (length (g_infos g (negb me)))) as [Hlt|Hge]; [assumption|].
          exfalso. apply (VRow_nonempty _ Hr). unfold strat_view. rewrite ri_get_oob; [reflexivity|].
          rewrite (IA_len g st (negb me) HI). unfold NI. exact Hge. }
        pose proof (F2_len _ _ _ He) as HL. unfold prows in HL. rewrite map_length, seq_length in HL.
        pose proof (F2_nth _ e (prows g st (negb me)) j O [] He ltac:(lia)) as Hn.
        unfold prows in Hn.
        rewrite (nth_indep _ [] (strat_view st (negb me) O)) in Hn
          by (now rewrite map_length, seq_length).
        rewrite map_nth, seq_nth in Hn by assumption. exact Hn.
    - exact HPay.
    - rewrite ext_sg_me. exact Ha.
  Qed.

  Lemma ext_sampled_inc_abs_gen me i a it st x :
    (forall st', IA st' -> (a < length (strat_view st' me i))%nat) ->
    IA st -> ext_draws_in g p it st x -> Rabs (ext_sampled_inc g p me i a it st x) <= hi - lo.
  Proof.
    intros HA HI (He1 & Hd1 & He2 & Hd2). unfold ext_sampled_inc.
    destruct me.
    - apply ext_pass_inc_abs; try assumption. now apply HA.
    - assert (HI2 : IA (ext_mid g p it st (ed_d1 x) (ed_e1 x))) by now apply ext_mid_inv.
      apply ext_pass_inc_abs; try assumption. now apply HA.
  Qed.

  Lemma ext_true_inc_abs_gen me i a it st x :
    (forall st', IA st' -> (a < length (strat_view st' me i))%nat) ->
    IA st -> Rabs (ext_true_inc g p me i a it st x) <= hi - lo.
  Proof.
    intros HA HI. unfold ext_true_inc.
    assert (HI2 : IA (ext_state_of g p me it st x)).
    { unfold ext_state_of. destruct me; [assumption|now apply ext_mid_inv]. }
    apply cfr_inc_bounded; try assumption. now apply HA.
  Qed.

  Context (me : bool) (i a : nat).
  Context (Hi : (i < length (arities g me))%nat) (Ha : (a < nth i (arities g me) O)%nat).

  Lemma IA_action (st : pstateR) : IA st -> (a < length (strat_view st me i))%nat.
  Proof. intros HI. rewrite (InvA_strat_len g st me i HI Hi). exact Ha. Qed.

  Theorem ext_sampled_inc_abs it st x :
    IA st -> ext_draws_in g p it st x -> Rabs (ext_sampled_inc g p me i a it st x) <= hi - lo.
  Proof. apply ext_sampled_inc_abs_gen. exact IA_action. Qed.

  Theorem ext_true_inc_abs it st x :
    IA st -> Rabs (ext_true_inc g p me i a it st x) <= hi - lo.
  Proof. apply ext_true_inc_abs_gen. exact IA_action. Qed.

  Theorem ext_md_abs_bound it st x :
    IA st -> ext_draws_in g p it st x -> Rabs (ext_md g p me i a it st x) <= 2 * (hi - lo).
  Proof.
    intros HI Hx. unfold ext_md.
    pose proof (ext_sampled_inc_abs it st x HI Hx) as H1.
    pose proof (ext_true_inc_abs it st x HI) as H2.
    unfold Rminus. eapply Rle_trans; [apply Rabs_triang|]. rewrite Rabs_Ropp. lra.
  Qed.

  Context (HNR : NoRepeat (g_root g)).

  (** *** the second moment of the martingale grows at most linearly *)
  Theorem ext_second_moment_bound_from n it st :
    IA st ->
    expect_run_ext g p n it st (fun xs => ext_mart g p me i a it st xs ^ 2) <=
    4 * (hi - lo) ^ 2 * INR n.
  Proof.
    intros HI. replace (4 * (hi - lo) ^ 2) with ((2 * (hi - lo)) ^ 2) by ring.
    apply (ext_second_moment_le g p HWF HPR HCO HNR me i a (2 * (hi - lo)) ext_md_abs_bound n it st HI).
  Qed.

  (** *** 4. Chebyshev: the weight of the histories on which the accumulated sampled regret
      increments deviate from the accumulated true counterfactual regret increments by [lam]
      or more *)
  Theorem ext_chebyshev_from n it st lam :
    IA st -> 0 < lam ->
    expect_run_ext g p n it st (fun xs => ind_ge lam (ext_mart g p me i a it st xs)) <=
    4 * (hi - lo) ^ 2 * INR n / lam ^ 2.
  Proof.
    intros HI Hl. replace (4 * (hi - lo) ^ 2) with ((2 * (hi - lo)) ^ 2) by ring.
    apply (ext_chebyshev_gen g p HWF HPR HCO HNR me i a (2 * (hi - lo)) ext_md_abs_bound
                             n it st lam HI Hl).
  Qed.
End ExtBound.

(** ** 4'. The run of the solver: from the initial state, iterations numbered from 1 *)
Section ExtFinal.
  Context (g : gameR) (p : paramsR) (lo hi : R).
  Context (HWF : WFgame g) (HPR : PerfectRecall g) (HCO : ChanceOK g)
          (HPay : PayoffsIn lo hi (g_root g)) (HNR : NoRepeat (g_root g)).
  Context (me : bool) (i a : nat).
  Context (Hi : (i < length (arities g me))%nat) (Ha : (a < nth i (arities g me) O)%nat).
  Local Notation st0 := (@init_state RNum g).
  Local Notation ER := (expect_run_ext g p).

  Theorem ext_second_moment_bound n :
    ER n 1 st0 (fun xs => ext_mart g p me i a 1 st0 xs ^ 2) <= 4 * (hi - lo) ^ 2 * INR n.
  Proof.
    apply (ext_second_moment_bound_from g p lo hi HWF HPR HCO HPay me i a Hi Ha HNR n 1 st0).
    now apply init_InvA.
  Qed.

  Theorem ext_chebyshev n lam :
    0 < lam ->
    ER n 1 st0 (fun xs => ind_ge lam (ext_mart g p me i a 1 st0 xs)) <=
    4 * (hi - lo) ^ 2 * INR n / lam ^ 2.
  Proof.
    intros Hl.
    apply (ext_chebyshev_from g p lo hi HWF HPR HCO HPay me i a Hi Ha HNR n 1 st0 lam);
      [now apply init_InvA|assumption].
  Qed.

  Corollary ext_chebyshev_explicit n lam :
    0 < lam ->
    ER n 1 st0
       (fun xs => if Rle_dec lam (Rabs (ext_sampled_sum g p me i a 1 st0 xs -
                                        ext_true_sum g p me i a 1 st0 xs))
                  then 1 else 0) <=
    4 * (hi - lo) ^ 2 * INR n / lam ^ 2.
  Proof.
    intros Hl. eapply Rle_trans; [|apply (ext_chebyshev n lam Hl)].
    apply Req_le. apply expect_run_ext_ext. intros xs. unfold ind_ge. now rewrite ext_mart_split.
  Qed.

  (** *** 5. Rate form: the average deviation per iteration *)
  Theorem ext_chebyshev_rate n eps :
    (0 < n)%nat -> 0 < eps ->
    ER n 1 st0 (fun xs => ind_ge eps (ext_mart g p me i a 1 st0 xs / INR n)) <=
    4 * (hi - lo) ^ 2 / (eps ^ 2 * INR n).
  Proof.
    intros Hn He. assert (Hn' : 0 < INR n) by (apply lt_0_INR; lia).
    rewrite (expect_run_ext_ext g p n 1 st0 _
               (fun xs => ind_ge (eps * INR n) (ext_mart g p me i a 1 st0 xs)))
      by (intros; now apply ind_ge_scale).
    eapply Rle_trans.
    - apply (ext_chebyshev n (eps * INR n)). nra.
    - apply Req_le. field. lra.
  Qed.

  (** the bound tends to 0: for every accuracy [eps] and every [delta] the weight of the runs
      whose average deviation is [eps] or more is below [delta] from some budget on *)
  Theorem ext_deviation_vanishes eps delta :
    0 < eps -> 0 < delta ->
    exists n0 : nat, forall n, (n0 <= n)%nat ->
      ER n 1 st0 (fun xs => ind_ge eps (ext_mart g p me i a 1 st0 xs / INR n)) <= delta.
  Proof.
    intros He Hd. destruct (nat_above (4 * (hi - lo) ^ 2 / (eps ^ 2 * delta))) as [n0 Hn0].
    exists (S n0). intros n Hn.
    assert (Hn' : INR n0 < INR n) by (apply lt_INR; lia).
    assert (Hpos : 0 < INR n) by (apply lt_0_INR; lia).
    eapply Rle_trans; [apply ext_chebyshev_rate; [lia|assumption]|].
    assert (Hed : 0 < eps ^ 2 * delta) by (apply Rmult_lt_0_compat; nra).
    assert (HeT : 0 < eps ^ 2 * INR n) by (apply Rmult_lt_0_compat; nra).
    assert (HK : 4 * (hi - lo) ^ 2 < INR n * (eps ^ 2 * delta)).
    { replace (4 * (hi - lo) ^ 2)
        with (4 * (hi - lo) ^ 2 / (eps ^ 2 * delta) * (eps ^ 2 * delta)) by (field; lra).
      apply Rmult_lt_compat_r; lra. }
    apply (Rmult_le_reg_r (eps ^ 2 * INR n)); [assumption|].
    replace (4 * (hi - lo) ^ 2 / (eps ^ 2 * INR n) * (eps ^ 2 * INR n))
      with (4 * (hi - lo) ^ 2) by (field; lra).
    lra.
  Qed.
End ExtFinal.

(** ** 5'. Undiscounted parameters: the solver's own cumulative regret *)
Local Notation rinfoR := (@rinfo RNum).

Section ExtVanilla.
  Context (g : gameR).
  Local Notation pv := (@p_vanilla RNum).
  Local Notation IA := (InvA (arities g true) (arities g false)).
  Local Notation noff := (length (g_infos1 g)).
  Local Notation chance := (g_chance g).
  Local Notation dflt := (@mkRinfo RNum [] [] []).

  Lemma adv_all_vanilla_get it ia (l : list rinfoR) i :
    (i < length l)%nat ->
    cum_regret (nth i (fst (@advance_all RNum pv it ia l 0)) dflt) = cum_regret (nth i l dflt).
  Proof.
    intros Hi. rewrite advance_all_map. cbn [fst].
    rewrite (nth_indep _ _ (fst (@advance RNum pv it ia dflt))) by (now rewrite map_length).
    rewrite (map_nth (fun ri => fst (@advance RNum pv it ia ri))). now rewrite advance_vanilla.
  Qed.

  Lemma ext_step_regret_vanilla it (st : pstateR) x me i a :
    (1 <= it)%N -> IA st -> (i < length (arities g me))%nat -> (a < nth i (arities g me) O)%nat ->
    nth a (cum_regret (@ri_get RNum (ext_step g pv it st x) me i)) 0 =
    nth a (cum_regret (@ri_get RNum st me i)) 0 + ext_sampled_inc g pv me i a it st x.
  Proof.
    intros Hit HI Hi Ha. rewrite ext_step_eq by assumption. cbv zeta.
    set (st2 := ext_mid g pv it st (ed_d1 x) (ed_e1 x)).
    assert (HI2 : IA st2) by now apply ext_mid_inv.
    set (dr2 := draw2 false noff (ed_d2 x) (ed_e2 x)).
    pose proof (erec_inv _ _ chance dr2 (2 * (it - 1) + 1)%N it noff false (g_root g) st2 HI2) as HI3.
    set (st3 := snd (@erec RNum chance dr2 (2 * (it - 1) + 1)%N it noff false (g_root g) st2)) in *.
    destruct me.
    - change (nth a (cum_regret (@ri_get RNum st3 true i)) 0 =
              nth a (cum_regret (@ri_get RNum st true i)) 0 + ext_sampled_inc g pv true i a it st x).
      unfold st3. rewrite erec_state_other by discriminate.
      unfold st2, ext_mid. cbv zeta.
      set (dr1 := draw2 true noff (ed_d1 x) (ed_e1 x)).
      pose proof (erec_inv _ _ chance dr1 (2 * (it - 1))%N (it - 1)%N noff true (g_root g) st HI) as HI1.
      set (st1 := snd (@erec RNum chance dr1 (2 * (it - 1))%N (it - 1)%N noff true (g_root g) st)) in *.
      change (nth a (cum_regret (nth i (fst (@advance_all RNum pv it (it - 1)%N (fst st1) 0)) dflt)) 0 =
              nth a (cum_regret (@ri_get RNum st true i)) 0 + ext_sampled_inc g pv true i a it st x).
      rewrite adv_all_vanilla_get by exact (proj2 (InvA_regret_len g st1 true i HI1 Hi)).
      change (nth i (fst st1) dflt) with (@ri_get RNum st1 true i).
      unfold st1, dr1. rewrite ext_pass_inc_spec; [reflexivity|].
      rewrite (proj1 (InvA_regret_len g st true i HI Hi)). exact Ha.
    - change (nth a (cum_regret (nth i (fst (@advance_all RNum pv it it (snd st3) 0)) dflt)) 0 =
              nth a (cum_regret (@ri_get RNum st false i)) 0 + ext_sampled_inc g pv false i a it st x).
      rewrite adv_all_vanilla_get by exact (proj2 (InvA_regret_len g st3 false i HI3 Hi)).
      change (nth i (snd st3) dflt) with (@ri_get RNum st3 false i).
      unfold st3, dr2. rewrite ext_pass_inc_spec.
      2:{ rewrite (proj1 (InvA_regret_len g st2 false i HI2 Hi)). exact Ha. }
      unfold ext_sampled_inc. fold st2. f_equal. f_equal.
      unfold st2, ext_mid. cbv zeta.
      set (st1 := snd (@erec RNum chance (draw2 true noff (ed_d1 x) (ed_e1 x)) (2 * (it - 1))%N
                             (it - 1)%N noff true (g_root g) st)).
      change (cum_regret (@ri_get RNum st1 false i) = cum_regret (@ri_get RNum st false i)).
      unfold st1. apply erec_state_other. discriminate.
  Qed.

  Lemma ext_run_regret_vanilla_from xs me i a : forall it (st : pstateR),
    (1 <= it)%N -> IA st -> (i < length (arities g me))%nat -> (a < nth i (arities g me) O)%nat ->
    nth a (cum_regret (@ri_get RNum (ext_run_from g pv it st xs) me i)) 0 =
    nth a (cum_regret (@ri_get RNum st me i)) 0 + ext_sampled_sum g pv me i a it st xs.
  Proof.
    induction xs as [|x xs IH]; intros it st Hit HI Hi Ha; cbn [ext_run_from ext_sampled_sum]; [lra|].
    rewrite IH; [|lia|now apply ext_step_inv|assumption|assumption].
    rewrite ext_step_regret_vanilla by assumption. lra.
  Qed.

  Context (lo hi : R).
  Context (HWF : WFgame g) (HPR : PerfectRecall g) (HCO : ChanceOK g)
          (HPay : PayoffsIn lo hi (g_root g)) (HNR : NoRepeat (g_root g)).
  Context (me : bool) (i a : nat).
  Context (Hi : (i < length (arities g me))%nat) (Ha : (a < nth i (arities g me) O)%nat).
  Local Notation st0 := (@init_state RNum g).
  Local Notation ER := (expect_run_ext g pv).

  (** the cumulative regret the solver holds after the run [xs] is the sum of the sampled
      increments *)
  Theorem ext_run_regret_vanilla xs :
    nth a (cum_regret (@ri_get RNum (ext_run_from g pv 1 st0 xs) me i)) 0 =
    ext_sampled_sum g pv me i a 1 st0 xs.
  Proof.
    rewrite ext_run_regret_vanilla_from; [|lia|now apply init_InvA|assumption|assumption].
    rewrite init_state_regret_zero. lra.
  Qed.

  (** the deviation of the cumulative regret the solver holds after the run [xs] from the sum
      of the true counterfactual regret increments at the strategies the run has played *)
  Definition ext_regret_dev (xs : list edraws) : R :=
    nth a (cum_regret (@ri_get RNum (ext_run_from g pv 1 st0 xs) me i)) 0 -
    ext_true_sum g pv me i a 1 st0 xs.

  Lemma ext_regret_dev_mart xs : ext_regret_dev xs = ext_mart g pv me i a 1 st0 xs.
  Proof. unfold ext_regret_dev. now rewrite ext_run_regret_vanilla, ext_mart_split. Qed.

  Theorem ext_second_moment_bound_vanilla n :
    ER n 1 st0 (fun xs => ext_regret_dev xs ^ 2) <= 4 * (hi - lo) ^ 2 * INR n.
  Proof.
    rewrite (expect_run_ext_ext g pv n 1 st0 _ (fun xs => ext_mart g pv me i a 1 st0 xs ^ 2))
      by (intros xs; now rewrite ext_regret_dev_mart).
    now apply (ext_second_moment_bound g pv lo hi HWF HPR HCO HPay HNR me i a Hi Ha n).
  Qed.

  Theorem ext_chebyshev_vanilla n lam :
    0 < lam ->
    ER n 1 st0 (fun xs => ind_ge lam (ext_regret_dev xs)) <= 4 * (hi - lo) ^ 2 * INR n / lam ^ 2.
  Proof.
    intros Hl.
    rewrite (expect_run_ext_ext g pv n 1 st0 _ (fun xs => ind_ge lam (ext_mart g pv me i a 1 st0 xs)))
      by (intros xs; now rewrite ext_regret_dev_mart).
    now apply (ext_chebyshev g pv lo hi HWF HPR HCO HPay HNR me i a Hi Ha n lam).
  Qed.

  Theorem ext_chebyshev_rate_vanilla n eps :
    (0 < n)%nat -> 0 < eps ->
    ER n 1 st0 (fun xs => ind_ge eps (ext_regret_dev xs / INR n)) <=
    4 * (hi - lo) ^ 2 / (eps ^ 2 * INR n).
  Proof.
    intros Hn He.
    rewrite (expect_run_ext_ext g pv n 1 st0 _
               (fun xs => ind_ge eps (ext_mart g pv me i a 1 st0 xs / INR n)))
      by (intros xs; now rewrite ext_regret_dev_mart).
    now apply (ext_chebyshev_rate g pv lo hi HWF HPR HCO HPay HNR me i a Hi Ha n eps).
  Qed.

  Theorem ext_deviation_vanishes_vanilla eps delta :
    0 < eps -> 0 < delta ->
    exists n0 : nat, forall n, (n0 <= n)%nat ->
      ER n 1 st0 (fun xs => ind_ge eps (ext_regret_dev xs / INR n)) <= delta.
  Proof.
    intros He Hd.
    destruct (ext_deviation_vanishes g pv lo hi HWF HPR HCO HPay HNR me i a Hi Ha eps delta He Hd)
      as [n0 H].
    exists n0. intros n Hn. eapply Rle_trans; [|apply (H n Hn)]. apply Req_le.
    apply expect_run_ext_ext. intros xs. now rewrite ext_regret_dev_mart.
  Qed.
End ExtVanilla.

(** ** 6. Non-vacuity: matching pennies (payoffs in [-1, 1]) *)
Lemma mp_idx_0 me : (0 < length (arities mp_game me))%nat.
Proof. destruct me; cbn; lia. Qed.
Lemma mp_act_0_0 me : (0 < nth 0 (arities mp_game me) O)%nat.
Proof. destruct me; cbn; lia. Qed.

(** two iterations, any parameters, either player: all hypotheses discharged *)
Example mp_ext_chebyshev_2 (p : paramsR) me lam :
  0 < lam ->
  expect_run_ext mp_game p 2 1 (@init_state RNum mp_game)
    (fun xs => ind_ge lam (ext_mart mp_game p me 0 0 1 (@init_state RNum mp_game) xs)) <=
  32 / lam ^ 2.
Proof.
  intros Hl.
  pose proof (ext_chebyshev mp_game p (-1) 1 mp_WF mp_PR mp_ChanceOK mp_Payoffs mp_NoRepeat me 0 0
                (mp_idx_0 me) (mp_act_0_0 me) 2 lam Hl) as H.
  replace (4 * (1 - -1) ^ 2 * INR 2 / lam ^ 2) with (32 / lam ^ 2) in H; [exact H|].
  cbn [INR]. field. lra.
Qed.

Example mp_ext_second_moment_2 (p : paramsR) me :
  expect_run_ext mp_game p 2 1 (@init_state RNum mp_game)
    (fun xs => ext_mart mp_game p me 0 0 1 (@init_state RNum mp_game) xs ^ 2) =
  expect_run_ext mp_game p 2 1 (@init_state RNum mp_game)
    (fun xs => ext_md_at mp_game p me 0 0 1 (@init_state RNum mp_game) xs 0 ^ 2) +
  expect_run_ext mp_game p 2 1 (@init_state RNum mp_game)
    (fun xs => ext_md_at mp_game p me 0 0 1 (@init_state RNum mp_game) xs 1 ^ 2).
Proof.
  rewrite (ext_second_moment mp_game p mp_WF mp_PR mp_ChanceOK mp_NoRepeat me 0 0 2 1
             (@init_state RNum mp_game) (init_InvA _ mp_WF)).
  cbn [sum_upto]. lra.
Qed.

(** numbers for the first iteration (uniform strategies): the sampled increment of player one's
    action 0 is [+1] or [-1] according to the action drawn for player two, the true increment
    is 0; the second moment of the difference is 1 and the Chebyshev inequality is attained at
    [lam = 1] *)
Example mp_first_pass cp pp :
  ext_pass_inc mp_game true 0 0 cp pp (@init_state RNum mp_game) [] [0%nat] = 1 /\
  ext_pass_inc mp_game true 0 0 cp pp (@init_state RNum mp_game) [] [1%nat] = -1 /\
  cfr_inc (g_chance mp_game) (strat_view (@init_state RNum mp_game)) true 0 0 (g_root mp_game) 1 1 1 = 0.
Proof.
  unfold ext_pass_inc, reg_sum, mp_game, init_state, strat_view, draw2.
  cbn -[Rplus Rmult Rminus Ropp Rdiv Rinv IZR N.sub].
  unfold node_regret, cfw. cbn -[Rplus Rmult Rminus Ropp Rdiv Rinv IZR N.sub].
  change (INR (Pos.to_nat 2)) with (1 + 1). repeat split; lra.
Qed.

Lemma mp_prows_init pl : prows mp_game (@init_state RNum mp_game) pl = [[1 / 2; 1 / 2]].
Proof.
  unfold prows, mp_game, init_state, strat_view. destruct pl;
  cbn -[Rplus Rmult Rminus Ropp Rdiv Rinv IZR N.sub];
  change (INR (Pos.to_nat 2)) with 2; reflexivity.
Qed.

Lemma mp_first_expect (p : paramsR) (G : R -> R) :
  expect_run_ext mp_game p 1 1 (@init_state RNum mp_game)
    (fun xs => G (ext_mart mp_game p true 0 0 1 (@init_state RNum mp_game) xs)) =
  1 / 2 * G 1 + 1 / 2 * G (-1).
Proof.
  cbn [expect_run_ext].
  destruct (mp_first_pass (2 * (1 - 1))%N (1 - 1)%N) as (E0 & E1 & Et).
  pose (F := fun d1 e1 : list nat =>
     G (ext_pass_inc mp_game true 0 0 (2 * (1 - 1))%N (1 - 1)%N (@init_state RNum mp_game) d1 e1 -
      cfr_inc (g_chance mp_game) (strat_view (@init_state RNum mp_game)) true 0 0 (g_root mp_game) 1 1 1
      + 0)).
  rewrite (expect_iter_ext mp_game p 1 _ _ (fun x => F (ed_d1 x) (ed_e1 x))) by (intros x; reflexivity).
  rewrite (expect_iter_first mp_game p mp_ChanceOK 1 _ F (init_InvA _ mp_WF)).
  rewrite mp_prows_init. change (g_chance mp_game) with (@nil (list R)).
  cbn [expect wsum]. unfold F. rewrite E0, E1, Et.
  replace (1 - 0 + 0) with 1 by lra. replace (-1 - 0 + 0) with (-1) by lra. lra.
Qed.

Example mp_ext_second_moment_1 (p : paramsR) :
  expect_run_ext mp_game p 1 1 (@init_state RNum mp_game)
    (fun xs => ext_mart mp_game p true 0 0 1 (@init_state RNum mp_game) xs ^ 2) = 1.
Proof. rewrite (mp_first_expect p (fun y => y ^ 2)). lra. Qed.

Example mp_ext_chebyshev_attained (p : paramsR) :
  expect_run_ext mp_game p 1 1 (@init_state RNum mp_game)
    (fun xs => ind_ge 1 (ext_mart mp_game p true 0 0 1 (@init_state RNum mp_game) xs)) = 1 /\
  expect_run_ext mp_game p 1 1 (@init_state RNum mp_game)
    (fun xs => ext_mart mp_game p true 0 0 1 (@init_state RNum mp_game) xs ^ 2) / 1 ^ 2 = 1.
Proof.
  split; [|rewrite mp_ext_second_moment_1; lra].
  rewrite (mp_first_expect p (ind_ge 1)). unfold ind_ge.
  destruct (Rle_dec 1 (Rabs 1)) as [_|H]; [|exfalso; apply H; rewrite Rabs_right; lra].
  destruct (Rle_dec 1 (Rabs (-1))) as [_|H]; [lra|].
  exfalso. apply H. rewrite Rabs_left; lra.
Qed.

Example mp_ext_chebyshev_vanilla_2 me lam :
  0 < lam ->
  expect_run_ext mp_game (@p_vanilla RNum) 2 1 (@init_state RNum mp_game)
    (fun xs => ind_ge lam (ext_regret_dev mp_game me 0 0 xs)) <= 32 / lam ^ 2.
Proof.
  intros Hl.
  pose proof (ext_chebyshev_vanilla mp_game (-1) 1 mp_WF mp_PR mp_ChanceOK mp_Payoffs mp_NoRepeat
                me 0 0 (mp_idx_0 me) (mp_act_0_0 me) 2 lam Hl) as H.
  replace (4 * (1 - -1) ^ 2 * INR 2 / lam ^ 2) with (32 / lam ^ 2) in H; [exact H|].
  cbn [INR]. field. lra.
Qed.

(** ** The final statements *)
Check chebyshev_run_ext :
  forall (g : gameR) (p : paramsR), ChanceOK g ->
  forall n it st lam (f : list edraws -> R),
    InvA (arities g true) (arities g false) st -> 0 < lam ->
    expect_run_ext g p n it st (fun xs => ind_ge lam (f xs)) <=
    expect_run_ext g p n it st (fun xs => f xs ^ 2) / lam ^ 2.
Check ext_md_orthogonal_past :
  forall (g : gameR) (p : paramsR),
    WFgame g -> PerfectRecall g -> ChanceOK g -> NoRepeat (g_root g) ->
  forall me i a t n it st (h : list edraws -> R),
    InvA (arities g true) (arities g false) st -> (t < n)%nat ->
    expect_run_ext g p n it st (fun xs => h (firstn t xs) * ext_md_at g p me i a it st xs t) = 0.
Check ext_md_orthogonal :
  forall (g : gameR) (p : paramsR),
    WFgame g -> PerfectRecall g -> ChanceOK g -> NoRepeat (g_root g) ->
  forall me i a s t n it st,
    InvA (arities g true) (arities g false) st -> (s < t)%nat -> (t < n)%nat ->
    expect_run_ext g p n it st
      (fun xs => ext_md_at g p me i a it st xs s * ext_md_at g p me i a it st xs t) = 0.
Check ext_second_moment_step :
  forall (g : gameR) (p : paramsR),
    WFgame g -> PerfectRecall g -> ChanceOK g -> NoRepeat (g_root g) ->
  forall me i a n it st,
    InvA (arities g true) (arities g false) st ->
    expect_run_ext g p (S n) it st (fun xs => ext_mart g p me i a it st xs ^ 2) =
    expect_iter g p it st (fun x => ext_md g p me i a it st x ^ 2) +
    expect_iter g p it st
      (fun x => expect_run_ext g p n (it + 1) (ext_step g p it st x)
                  (fun xs => ext_mart g p me i a (it + 1) (ext_step g p it st x) xs ^ 2)).
Check ext_second_moment :
  forall (g : gameR) (p : paramsR),
    WFgame g -> PerfectRecall g -> ChanceOK g -> NoRepeat (g_root g) ->
  forall me i a n it st,
    InvA (arities g true) (arities g false) st ->
    expect_run_ext g p n it st (fun xs => ext_mart g p me i a it st xs ^ 2) =
    sum_upto n (fun t => expect_run_ext g p n it st (fun xs => ext_md_at g p me i a it st xs t ^ 2)).
Check ext_mart_split :
  forall (g : gameR) (p : paramsR) me i a xs it st,
    ext_mart g p me i a it st xs =
    ext_sampled_sum g p me i a it st xs - ext_true_sum g p me i a it st xs.
Check ext_mart_sum_upto :
  forall (g : gameR) (p : paramsR) me i a xs it st,
    ext_mart g p me i a it st xs = sum_upto (length xs) (ext_md_at g p me i a it st xs).
Check ext_chebyshev_gen :
  forall (g : gameR) (p : paramsR),
    WFgame g -> PerfectRecall g -> ChanceOK g -> NoRepeat (g_root g) ->
  forall me i a C,
    (forall it st x, InvA (arities g true) (arities g false) st -> ext_draws_in g p it st x ->
                     Rabs (ext_md g p me i a it st x) <= C) ->
  forall n it st lam,
    InvA (arities g true) (arities g false) st -> 0 < lam ->
    expect_run_ext g p n it st (fun xs => ind_ge lam (ext_mart g p me i a it st xs)) <=
    C ^ 2 * INR n / lam ^ 2.
Check ext_md_abs_bound :
  forall (g : gameR) (p : paramsR) lo hi,
    WFgame g -> PerfectRecall g -> ChanceOK g -> PayoffsIn lo hi (g_root g) ->
  forall me i a, (i < length (arities g me))%nat -> (a < nth i (arities g me) O)%nat ->
  forall it st x,
    InvA (arities g true) (arities g false) st -> ext_draws_in g p it st x ->
    Rabs (ext_md g p me i a it st x) <= 2 * (hi - lo).
Check ext_second_moment_bound :
  forall (g : gameR) (p : paramsR) lo hi,
    WFgame g -> PerfectRecall g -> ChanceOK g -> PayoffsIn lo hi (g_root g) -> NoRepeat (g_root g) ->
  forall me i a, (i < length (arities g me))%nat -> (a < nth i (arities g me) O)%nat ->
  forall n,
    expect_run_ext g p n 1 (@init_state RNum g)
      (fun xs => ext_mart g p me i a 1 (@init_state RNum g) xs ^ 2) <= 4 * (hi - lo) ^ 2 * INR n.
Check ext_chebyshev :
  forall (g : gameR) (p : paramsR) lo hi,
    WFgame g -> PerfectRecall g -> ChanceOK g -> PayoffsIn lo hi (g_root g) -> NoRepeat (g_root g) ->
  forall me i a, (i < length (arities g me))%nat -> (a < nth i (arities g me) O)%nat ->
  forall n lam, 0 < lam ->
    expect_run_ext g p n 1 (@init_state RNum g)
      (fun xs => ind_ge lam (ext_mart g p me i a 1 (@init_state RNum g) xs)) <=
    4 * (hi - lo) ^ 2 * INR n / lam ^ 2.
Check ext_chebyshev_explicit :
  forall (g : gameR) (p : paramsR) lo hi,
    WFgame g -> PerfectRecall g -> ChanceOK g -> PayoffsIn lo hi (g_root g) -> NoRepeat (g_root g) ->
  forall me i a, (i < length (arities g me))%nat -> (a < nth i (arities g me) O)%nat ->
  forall n lam, 0 < lam ->
    expect_run_ext g p n 1 (@init_state RNum g)
      (fun xs => if Rle_dec lam (Rabs (ext_sampled_sum g p me i a 1 (@init_state RNum g) xs -
                                       ext_true_sum g p me i a 1 (@init_state RNum g) xs))
                 then 1 else 0) <=
    4 * (hi - lo) ^ 2 * INR n / lam ^ 2.
Check ext_chebyshev_rate :
  forall (g : gameR) (p : paramsR) lo hi,
    WFgame g -> PerfectRecall g -> ChanceOK g -> PayoffsIn lo hi (g_root g) -> NoRepeat (g_root g) ->
  forall me i a, (i < length (arities g me))%nat -> (a < nth i (arities g me) O)%nat ->
  forall n eps, (0 < n)%nat -> 0 < eps ->
    expect_run_ext g p n 1 (@init_state RNum g)
      (fun xs => ind_ge eps (ext_mart g p me i a 1 (@init_state RNum g) xs / INR n)) <=
    4 * (hi - lo) ^ 2 / (eps ^ 2 * INR n).
Check ext_deviation_vanishes :
  forall (g : gameR) (p : paramsR) lo hi,
    WFgame g -> PerfectRecall g -> ChanceOK g -> PayoffsIn lo hi (g_root g) -> NoRepeat (g_root g) ->
  forall me i a, (i < length (arities g me))%nat -> (a < nth i (arities g me) O)%nat ->
  forall eps delta, 0 < eps -> 0 < delta ->
    exists n0 : nat, forall n, (n0 <= n)%nat ->
      expect_run_ext g p n 1 (@init_state RNum g)
        (fun xs => ind_ge eps (ext_mart g p me i a 1 (@init_state RNum g) xs / INR n)) <= delta.
Check ext_run_regret_vanilla :
  forall (g : gameR), WFgame g ->
  forall me i a, (i < length (arities g me))%nat -> (a < nth i (arities g me) O)%nat ->
  forall xs,
    nth a (cum_regret (@ri_get RNum (ext_run_from g (@p_vanilla RNum) 1 (@init_state RNum g) xs) me i)) 0 =
    ext_sampled_sum g (@p_vanilla RNum) me i a 1 (@init_state RNum g) xs.
Check ext_chebyshev_vanilla :
  forall (g : gameR) lo hi,
    WFgame g -> PerfectRecall g -> ChanceOK g -> PayoffsIn lo hi (g_root g) -> NoRepeat (g_root g) ->
  forall me i a, (i < length (arities g me))%nat -> (a < nth i (arities g me) O)%nat ->
  forall n lam, 0 < lam ->
    expect_run_ext g (@p_vanilla RNum) n 1 (@init_state RNum g)
      (fun xs => ind_ge lam (ext_regret_dev g me i a xs)) <= 4 * (hi - lo) ^ 2 * INR n / lam ^ 2.
Check ext_chebyshev_rate_vanilla :
  forall (g : gameR) lo hi,
    WFgame g -> PerfectRecall g -> ChanceOK g -> PayoffsIn lo hi (g_root g) -> NoRepeat (g_root g) ->
  forall me i a, (i < length (arities g me))%nat -> (a < nth i (arities g me) O)%nat ->
  forall n eps, (0 < n)%nat -> 0 < eps ->
    expect_run_ext g (@p_vanilla RNum) n 1 (@init_state RNum g)
      (fun xs => ind_ge eps (ext_regret_dev g me i a xs / INR n)) <=
    4 * (hi - lo) ^ 2 / (eps ^ 2 * INR n).
Check ext_deviation_vanishes_vanilla :
  forall (g : gameR) lo hi,
    WFgame g -> PerfectRecall g -> ChanceOK g -> PayoffsIn lo hi (g_root g) -> NoRepeat (g_root g) ->
  forall me i a, (i < length (arities g me))%nat -> (a < nth i (arities g me) O)%nat ->
  forall eps delta, 0 < eps -> 0 < delta ->
    exists n0 : nat, forall n, (n0 <= n)%nat ->
      expect_run_ext g (@p_vanilla RNum) n 1 (@init_state RNum g)
        (fun xs => ind_ge eps (ext_regret_dev g me i a xs / INR n)) <= delta.
