(** * FInst: the binary64 instance of [Num], used only for *executing* the model
    (correspondence against the Rust implementation).  Nothing is proved about it.

    [fexp], [fln], [fpow] are Gallina re-implementations (range reduction +
    polynomial), accurate to a few ulp; they are not bit-identical to the libm
    the Rust code calls, which is why float results are compared with a
    tolerance. *)
From Coq Require Import Floats ZArith NArith List Uint63 Bool.
From Cfr.theories Require Import Num.
Import ListNotations.
Open Scope float_scope.

Definition f_is_nan (x : float) : bool := negb (x =? x).
Definition f_is_pinf (x : float) : bool := x =? infinity.
Definition f_is_ninf (x : float) : bool := x =? neg_infinity.
Definition f_is_fin (x : float) : bool :=
  negb (f_is_nan x || (abs x =? infinity)).

(** f64::max / f64::min: NaN-ignoring *)
Definition f_max (a b : float) : float :=
  if a <? b then b else if f_is_nan a then b else a.
Definition f_min (a b : float) : float :=
  if b <? a then b else if f_is_nan a then b else a.

(** Integer part of a float with |x| < 2^62, truncated toward zero. *)
Definition f_to_Z (x : float) : Z :=
  let ax := abs x in
  if ax <? 1 then 0%Z else
  let (m, e) := Z.frexp ax in            (* ax = m * 2^e, m in [0.5,1) *)
  let mant := Uint63.to_Z (normfr_mantissa m) in  (* m * 2^53 *)
  let v := if (e <? 53)%Z then Z.shiftr mant (53 - e) else Z.shiftl mant (e - 53) in
  if x <? 0 then Z.opp v else v.

Definition ln2_hi : float := 0x1.62e42f8000000p-1.
Definition ln2_lo : float := 0x1.be8e7bcd5e4f2p-27.
Definition inv_ln2 : float := 0x1.71547652b82fep+0.
Definition magic : float := 0x1.8p+52.

(* Taylor coefficients 1/k! for k = 2..17 (Horner from the top). *)
Definition exp_poly (r : float) : float :=
  let c := [0x1.952c77030ad4ap-49 (* 1/17! *);
            0x1.ae7f3e733b81fp-45 (* 1/16! *);
            0x1.ae7f3e733b81fp-41 (* 1/15! *);
            0x1.93974a8c07c9dp-37 (* 1/14! *);
            0x1.6124613a86d09p-33 (* 1/13! *);
            0x1.1eed8eff8d898p-29 (* 1/12! *);
            0x1.ae64567f544e4p-26 (* 1/11! *);
            0x1.27e4fb7789f5cp-22 (* 1/10! *);
            0x1.71de3a556c734p-19 (* 1/9! *);
            0x1.a01a01a01a01ap-16 (* 1/8! *);
            0x1.a01a01a01a01ap-13 (* 1/7! *);
            0x1.6c16c16c16c17p-10 (* 1/6! *);
            0x1.1111111111111p-7  (* 1/5! *);
            0x1.5555555555555p-5  (* 1/4! *);
            0x1.5555555555555p-3  (* 1/3! *);
            0x1p-1                (* 1/2! *)] in
  let p := fold_left (fun acc ck => acc * r + ck) c 0 in
  (* exp r = 1 + r + r^2 * p *)
  1 + (r + r * r * p).

Definition fexp (x : float) : float :=
  if f_is_nan x then nan
  else if 0x1.62e42fefa39efp+9 <? x then infinity      (* > 709.78 *)
  else if x <? -0x1.74910d52d3051p+9 then 0            (* < -745.13 *)
  else
    let kf := (x * inv_ln2 + magic) - magic in
    let r := (x - kf * ln2_hi) - kf * ln2_lo in
    let k := f_to_Z kf in
    (* split the scaling in two so that subnormal results round once-ish *)
    let k1 := (k / 2)%Z in
    let k2 := (k - k1)%Z in
    Z.ldexp (Z.ldexp (exp_poly r) k1) k2.

Definition sqrt_half : float := 0x1.6a09e667f3bcdp-1.

Definition fln (x : float) : float :=
  if f_is_nan x then nan
  else if x <? 0 then nan
  else if x =? 0 then neg_infinity
  else if x =? infinity then infinity
  else
    let (m0, e0) := Z.frexp x in
    let '(m, e) := if m0 <? sqrt_half then (m0 * 2, (e0 - 1)%Z) else (m0, e0) in
    let f := m - 1 in
    let s := f / (2 + f) in
    let z := s * s in
    (* 2*atanh(s) = 2s (1 + z/3 + z^2/5 + ...) *)
    let c := [0x1.1a7b9611a7b96p-5 (* 1/29 *); 0x1.2f684bda12f68p-5 (* 1/27 *);
              0x1.47ae147ae147bp-5 (* 1/25 *); 0x1.642c8590b2164p-5 (* 1/23 *);
              0x1.8618618618618p-5 (* 1/21 *); 0x1.af286bca1af28p-5 (* 1/19 *);
              0x1.e1e1e1e1e1e1ep-5 (* 1/17 *); 0x1.1111111111111p-4 (* 1/15 *);
              0x1.3b13b13b13b14p-4 (* 1/13 *); 0x1.745d1745d1746p-4 (* 1/11 *);
              0x1.c71c71c71c71cp-4 (* 1/9 *);  0x1.2492492492492p-3 (* 1/7 *);
              0x1.999999999999ap-3 (* 1/5 *);  0x1.5555555555555p-2 (* 1/3 *)] in
    let p := fold_left (fun acc ck => acc * z + ck) c 0 in
    let lnm := 2 * s + 2 * s * z * p in
    let ef := of_uint63 (Uint63.of_Z (Z.abs e)) in
    let ef := if (e <? 0)%Z then - ef else ef in
    ef * ln2_hi + (lnm + ef * ln2_lo).

(** f64::powf restricted to what the code uses: base >= 0. *)
Definition fpow (x y : float) : float :=
  if y =? 0 then 1
  else if x =? 1 then 1
  else if f_is_nan x || f_is_nan y then nan
  else if x =? 0 then (if 0 <? y then 0 else infinity)
  else if x <? 0 then nan
  else if y =? 1 then x
  else if y =? 2 then x * x
  else if y =? 0x1p-1 then PrimFloat.sqrt x
  else fexp (y * fln x).

Definition f_of_N (n : N) : float :=
  (* exact below 2^53; above, split in two halves to stay within uint63 and let
     the float addition round (u64 as f64 rounds to nearest as well) *)
  let z := Z.of_N n in
  if (z <? 2^62)%Z then of_uint63 (Uint63.of_Z z)
  else
    let hi := (z / 2^32)%Z in
    let lo := (z mod 2^32)%Z in
    of_uint63 (Uint63.of_Z hi) * 0x1p+32 + of_uint63 (Uint63.of_Z lo).

Definition FNum : Num := {|
  T := float;
  zero := 0; one := 1;
  add := PrimFloat.add; sub := PrimFloat.sub; mul := PrimFloat.mul; div := PrimFloat.div;
  neg := PrimFloat.opp; absv := PrimFloat.abs;
  fmax := f_max; fmin := f_min;
  ltb := PrimFloat.ltb; leb := PrimFloat.leb; eqb := PrimFloat.eqb;
  is_fin := f_is_fin; is_nan := f_is_nan; is_pinf := f_is_pinf; is_ninf := f_is_ninf;
  pinf := infinity;
  exp := fexp; ln := fln; pow := fpow;
  of_N := f_of_N
|}.
