(** * BoundDominates: the bound returned by the unsampled vanilla solve dominates the
    true regret of the returned strategies (property C02, part 3).

    The best-response theorems of C01 ([br_upper], [br_attained]) enter as section
    hypotheses with exactly the statements of [BestResponseProofs.v]; the closed forms
    are in [BoundDominatesClosed.v]. *)
From Coq Require Import Reals List Lra Lia Bool Arith NArith.
From Cfr.theories Require Import Num RInst Tree GameWF Strat Eval Solve Valid
     SolveValidProofs LoopProofs Incr IterChar EvalSpec EvalProofs CfrSpec Decomposition
     AvgRealisation.
Import ListNotations.
Open Scope R_scope.

Local Notation node := (@node RNum).
Local Notation game := (@game RNum).
Local Notation oracle := (@oracle RNum).

(** ** The loop runs along the trajectory *)
Section LoopTraj.
  Context (g : game) (draw : oracle) (stop : R -> bool).

  Lemma vanilla_iter_traj k :
    @vanilla_iter RNum g false draw (@p_vanilla RNum) (N.of_nat (S k)) (state_at g draw k) =
    (state_at g draw (S k), bounds_at g draw (S k)).
  Proof.
    unfold bounds_at. cbn [state_at]. replace (S k - 1)%nat with k by lia.
    now destruct (vanilla_iter _ _ _ _ _ _).
  Qed.

  Lemma loop_traj rem : forall k regs ran st' regs' ran',
    @solve_loop RNum g Full draw (@p_vanilla RNum) stop rem (N.of_nat (S k)) (state_at g draw k)
                regs ran = (st', regs', ran') ->
    (rem = 0%nat /\ st' = state_at g draw k /\ regs' = regs /\ ran' = ran) \/
    (exists T, (k < T <= k + rem)%nat /\ st' = state_at g draw T /\
               regs' = Some (bounds_at g draw T) /\ ran' = N.of_nat T).
  Proof.
    induction rem as [|r IH]; intros k regs ran st' regs' ran' E.
    - left. cbn [solve_loop] in E. injection E as <- <- <-. auto.
    - right. rewrite loop_S in E. cbn [one_iter] in E. rewrite vanilla_iter_traj in E.
      destruct (bounds_at g draw (S k)) as [r1 r2] eqn:Eb.
      destruct (stop (Rmax r1 r2)).
      + injection E as <- <- <-. exists (S k). split; [lia|]. rewrite Eb. auto.
      + replace (N.of_nat (S k) + 1)%N with (N.of_nat (S (S k))) in E by lia.
        apply IH in E. destruct E as [(-> & -> & -> & ->)|(T & HT & -> & -> & ->)].
        * exists (S k). split; [lia|]. rewrite Eb. auto.
        * exists T. split; [lia|]. auto.
  Qed.

  Lemma solve_single_traj budget strats b1 b2 ran :
    @solve_single RNum g Full draw (@p_vanilla RNum) budget stop = (strats, Some (b1, b2), ran) ->
    exists T, (1 <= T <= budget)%nat /\ strats = @final_strats RNum (state_at g draw T) /\
              bounds_at g draw T = (b1, b2) /\ ran = N.of_nat T.
  Proof.
    unfold solve_single.
    destruct (solve_loop _ _ _ _ _ _ _ _ _ _) as [[st regs] ran'] eqn:E.
    intros Hs. injection Hs as <- -> <-.
    change 1%N with (N.of_nat 1) in E. change (@init_state RNum g) with (state_at g draw 0) in E.
    apply loop_traj in E. destruct E as [(_ & _ & Hr & _)|(T & HT & -> & Hr & ->)]; [discriminate|].
    exists T. split; [lia|]. injection Hr as Hr. auto.
  Qed.
End LoopTraj.

(** ** The returned profile, row-wise *)
Lemma final_strats_rows (g : game) (draw : oracle) T :
  arities_pos g ->
  split_by (fst (@final_strats RNum (state_at g draw T))) (arities g true) = avg g draw T true /\
  split_by (snd (@final_strats RNum (state_at g draw T))) (arities g false) = avg g draw T false.
Proof.
  intros Hpos. destruct (state_at_inv g draw Hpos T) as [H1 H2].
  destruct (final_rows _ _ H1) as [E1 _]. destruct (final_rows _ _ H2) as [E2 _].
  unfold final_strats, avg, ps_get. cbn [fst snd]. split.
  - rewrite <- E1 at 1. apply split_by_concat.
  - rewrite <- E2 at 1. apply split_by_concat.
Qed.

Lemma avg_StratOf (g : game) (draw : oracle) T pl :
  arities_pos g -> StratOf g pl (avg g draw T pl).
Proof.
  intros Hpos. destruct (state_at_inv g draw Hpos T) as [H1 H2].
  unfold StratOf, avg, ps_get. destruct pl.
  - destruct (final_rows _ _ H1) as [E1 V1]. split; assumption.
  - destruct (final_rows _ _ H2) as [E2 V2]. split; assumption.
Qed.

Lemma Rsumn_minus n F G : Rsumn n (fun b => F b - G b) = Rsumn n F - Rsumn n G.
Proof. pose proof (Rsumn_lin n 1 F G) as E. rewrite Rmult_1_l in E. rewrite E. apply Rsumn_ext. intros; lra. Qed.

Lemma Rsumn_opp n F : Rsumn n (fun b => - F b) = - Rsumn n F.
Proof.
  rewrite (Rsumn_ext n _ (fun b => -1 * F b)) by (intros; lra). rewrite Rsumn_scal. lra.
Qed.

Section BoundDominates.
  (** the best-response theorems of C01, as stated in [BestResponseProofs.v] *)
  Context (BR_upper : forall (g : game) (me : bool) (so : list (list R)),
              @WFgame RNum g -> @PerfectRecall RNum g -> ChanceOK g -> NonnegRows so ->
              forall tau, StratOf g me tau -> u_me g me tau so <= @br_value RNum g me so).
  Context (BR_attained : forall (g : game) (me : bool) (so : list (list R)),
              @WFgame RNum g -> @PerfectRecall RNum g -> ChanceOK g -> NonnegRows so ->
              exists s, PureOf g me s /\ u_me g me s so = @br_value RNum g me so).

  Section Game.
    Context (g : game) (Hwf : @WFgame RNum g) (HPR : @PerfectRecall RNum g) (HCh : ChanceOK g).
    Context (draw : oracle).
    Let Hpos : arities_pos g := WFgame_arities_pos g Hwf.

    (** the true regrets of the average profile after [T] iterations are at most the
        larger of the two bounds *)
    Theorem trajectory_bound T :
      (1 <= T)%nat ->
      let e := u_game g (avg g draw T true) (avg g draw T false) in
      let br1 := @br_value RNum g true (avg g draw T false) in
      let br2 := @br_value RNum g false (avg g draw T true) in
      let b1 := bound_pl g draw T true in
      let b2 := bound_pl g draw T false in
      0 <= br1 - e /\ 0 <= br2 + e /\ (br1 - e) + (br2 + e) <= (b1 + b2) / 2.
    Proof.
      intros HT. cbv zeta.
      destruct HPR as [H HH].
      assert (HW : PRwit g H) by exact HH.
      set (A1 := avg g draw T true). set (A2 := avg g draw T false).
      pose proof (avg_StratOf g draw T true Hpos) as HA1. fold A1 in HA1.
      pose proof (avg_StratOf g draw T false Hpos) as HA2. fold A2 in HA2.
      pose proof (StratOf_nonneg _ _ _ HA1) as N1. pose proof (StratOf_nonneg _ _ _ HA2) as N2.
      pose proof (BR_upper g true A2 Hwf (ex_intro _ H HH) HCh N2 A1 HA1) as U1.
      pose proof (BR_upper g false A1 Hwf (ex_intro _ H HH) HCh N1 A2 HA2) as U2.
      destruct (BR_attained g true A2 Hwf (ex_intro _ H HH) HCh N2) as (S1 & HS1 & E1).
      destruct (BR_attained g false A1 Hwf (ex_intro _ H HH) HCh N1) as (S2 & HS2 & E2).
      unfold u_me in U1, U2, E1, E2.
      split; [lra|]. split; [lra|].
      (* the averages realise the averages of the iterates *)
      pose proof (avg_realisation g draw false H T S1 Hwf (fun i h => HH false i h) HT) as R2.
      pose proof (avg_realisation g draw true H T S2 Hwf (fun i h => HH true i h) HT) as R1.
      unfold u_me in R1, R2. fold A1 in R1. fold A2 in R2.
      (* the external regrets are bounded *)
      pose proof (external_regret_bound g Hwf H HW draw T true S1 _ HT (PureOf_IsPure g true S1 HS1)) as B1.
      pose proof (external_regret_bound g Hwf H HW draw T false S2 _ HT (PureOf_IsPure g false S2 HS2)) as B2.
      unfold ext_regret, u_me in B1, B2. cbn [negb] in B1, B2.
      rewrite Rsumn_minus in B1, B2. rewrite !Rsumn_opp in B2. rewrite Rsumn_opp in R2.
      set (X1 := Rsumn T (fun t => u_game g S1 (sigma_at g draw (S t) false))) in *.
      set (X2 := Rsumn T (fun t => u_game g (sigma_at g draw (S t) true) S2)) in *.
      set (M := Rsumn T (fun t => u_game g (sigma_at g draw (S t) true) (sigma_at g draw (S t) false))) in *.
      assert (HTpos : 0 < INR T) by (apply lt_0_INR; lia).
      set (b1 := bound_pl g draw T true) in *. set (b2 := bound_pl g draw T false) in *.
      assert (Hsum : X1 - X2 <= INR T * ((b1 + b2) / 2)) by lra.
      assert (Hbr : @br_value RNum g true A2 + @br_value RNum g false A1 = / INR T * (X1 - X2)).
      { rewrite <- E1, <- E2. lra. }
      replace (@br_value RNum g true A2 - u_game g A1 A2 + (@br_value RNum g false A1 + u_game g A1 A2))
        with (@br_value RNum g true A2 + @br_value RNum g false A1) by lra.
      rewrite Hbr.
      apply (Rmult_le_reg_l (INR T)); [exact HTpos|].
      rewrite <- Rmult_assoc, Rinv_r, Rmult_1_l by lra. exact Hsum.
    Qed.

    (** *** Theorem 3 *)
    Theorem bound_dominates budget (stop : R -> bool) strats b1 b2 ran :
      @solve_single RNum g Full draw (@p_vanilla RNum) budget stop = (strats, Some (b1, b2), ran) ->
      @si_regret RNum (@info RNum g strats) <= Rmax b1 b2 /\ 0 <= b1 /\ 0 <= b2.
    Proof.
      intros Hs.
      destruct (bounds_nonneg g Full draw _ stop budget strats b1 b2 ran Hs) as [Hb1 Hb2].
      split; [|split; assumption].
      apply solve_single_traj in Hs as (T & HT & -> & Hb & _).
      destruct (final_strats_rows g draw T Hpos) as [ER1 ER2].
      unfold si_regret, info. cbn [si_reg1 si_reg2 fmax sub add zero RNum].
      rewrite ER1, ER2.
      pose proof (avg_StratOf g draw T true Hpos) as HA1.
      pose proof (avg_StratOf g draw T false Hpos) as HA2.
      rewrite (expected_exact g _ _ (StratOf_nonneg _ _ _ HA1) (StratOf_nonneg _ _ _ HA2)).
      destruct (trajectory_bound T ltac:(lia)) as (P1 & P2 & P3).
      unfold bound_pl in P3. rewrite Hb in P3. cbn [fst snd] in P3.
      pose proof (Rmax_l b1 b2). pose proof (Rmax_r b1 b2).
      repeat apply Rmax_lub; lra.
    Qed.

    (** a solve that stops before its budget returns a profile whose true regret is
        below the threshold *)
    Corollary early_stop_sound budget (r : R) strats b1 b2 ran :
      @solve_single RNum g Full draw (@p_vanilla RNum) budget (@stop_at RNum r) =
        (strats, Some (b1, b2), ran) ->
      (ran < N.of_nat budget)%N ->
      @si_regret RNum (@info RNum g strats) < r.
    Proof.
      intros Hs Hran.
      destruct (bound_dominates budget _ strats b1 b2 ran Hs) as [Hd _].
      destruct (budget_never_exceeded g Full draw _ _ budget strats _ ran Hs) as (_ & _ & Hstop).
      destruct (Hstop Hran) as (c1 & c2 & Ec & Hfire). injection Ec as <- <-.
      unfold stop_at in Hfire. cbn [ltb RNum] in Hfire. apply Rltb_true in Hfire. lra.
    Qed.

    (** the total bound is the larger of two non-negative per-player bounds, and the
        true per-player regrets are non-negative and below it *)
    Corollary bound_dominates_each budget (stop : R -> bool) strats b1 b2 ran :
      @solve_single RNum g Full draw (@p_vanilla RNum) budget stop = (strats, Some (b1, b2), ran) ->
      0 <= si_reg1 (@info RNum g strats) <= Rmax b1 b2 /\
      0 <= si_reg2 (@info RNum g strats) <= Rmax b1 b2.
    Proof.
      intros Hs. destruct (bound_dominates budget stop strats b1 b2 ran Hs) as (Hd & _ & _).
      unfold si_regret in Hd. cbn [fmax RNum] in Hd.
      pose proof (Rmax_l (si_reg1 (@info RNum g strats)) (si_reg2 (@info RNum g strats))).
      pose proof (Rmax_r (si_reg1 (@info RNum g strats)) (si_reg2 (@info RNum g strats))).
      assert (0 <= si_reg1 (@info RNum g strats)) by (cbn [info si_reg1 fmax RNum]; apply Rmax_r).
      assert (0 <= si_reg2 (@info RNum g strats)) by (cbn [info si_reg2 fmax RNum]; apply Rmax_r).
      lra.
    Qed.
  End Game.
End BoundDominates.

(** ** Non-vacuity: matching pennies with player two's two nodes in one infoset
    ([SolveValidProofs.mp_game]) satisfies the hypotheses, and every solve with a positive
    budget returns bounds to which the theorem applies *)
Lemma mp_WFtables : @WFtables [mkPinfo 0%N [0%N; 1%N] None] [].
Proof.
  split.
  - cbn. constructor; [intros []|constructor].
  - constructor; [|constructor]. cbn. split; [|lia].
    constructor; [intros [E|[]]; discriminate E|]. constructor; [intros []|constructor].
Qed.

Lemma mp_WFgame : @WFgame RNum mp_game.
Proof.
  split; [|split; [|split; [|split]]].
  - cbn. repeat split; lia.
  - apply mp_WFtables.
  - apply mp_WFtables.
  - intros pl i h Hin. cbn in Hin.
    destruct Hin as [E|[E|[E|[]]]]; inversion E; subst; reflexivity.
  - intros pl i j a Hi Hp. destruct pl; cbn in Hi, Hp;
      (destruct i as [|i]; [discriminate Hp|lia]).
Qed.

Lemma mp_PerfectRecall : @PerfectRecall RNum mp_game.
Proof.
  exists (fun _ _ => []). intros pl i h Hin. cbn in Hin.
  destruct Hin as [E|[E|[E|[]]]]; inversion E; subst; reflexivity.
Qed.

Lemma mp_ChanceOK : ChanceOK mp_game.
Proof. constructor. Qed.

Section Example.
  Context (BR_upper : forall (g : game) (me : bool) (so : list (list R)),
              @WFgame RNum g -> @PerfectRecall RNum g -> ChanceOK g -> NonnegRows so ->
              forall tau, StratOf g me tau -> u_me g me tau so <= @br_value RNum g me so).
  Context (BR_attained : forall (g : game) (me : bool) (so : list (list R)),
              @WFgame RNum g -> @PerfectRecall RNum g -> ChanceOK g -> NonnegRows so ->
              exists s, PureOf g me s /\ u_me g me s so = @br_value RNum g me so).

  Example mp_bound_dominates (draw : oracle) (budget : nat) (stop : R -> bool) :
    (1 <= budget)%nat ->
    exists strats b1 b2 ran,
      @solve_single RNum mp_game Full draw (@p_vanilla RNum) budget stop = (strats, Some (b1, b2), ran) /\
      @si_regret RNum (@info RNum mp_game strats) <= Rmax b1 b2 /\ 0 <= b1 /\ 0 <= b2.
  Proof.
    intros Hb.
    destruct (@solve_single RNum mp_game Full draw (@p_vanilla RNum) budget stop) as [[strats regs] ran] eqn:E.
    destruct (budget_never_exceeded mp_game Full draw _ stop budget strats regs ran E) as (_ & Hsome & _).
    destruct (Hsome Hb) as (_ & b1 & b2 & ->).
    exists strats, b1, b2, ran. split; [reflexivity|].
    exact (bound_dominates BR_upper BR_attained mp_game mp_WFgame mp_PerfectRecall mp_ChanceOK
                           draw budget stop strats b1 b2 ran E).
  Qed.
End Example.

(** ** The factor 2 of [cum_regret_bound] is needed: a 2x2 simultaneous game (player one
    picks a row, player two — one infoset — a column; payoff 1 in one cell, 0 elsewhere)
    in which, after two iterations, the true regret (3/16) exceeds half of the returned
    bound (1/4 / 2 = 1/8) *)
Definition g2 : game :=
  @mkGame RNum [] [mkPinfo 0 [0%N; 1%N] None] [mkPinfo 0 [0%N; 1%N] None] [] []
          (@Player RNum true 0
             [@Player RNum false 0 [@Term RNum 0; @Term RNum 0];
              @Player RNum false 0 [@Term RNum 0; @Term RNum 1]]).

Definition st12 (a1 a2 c1 c2 a3 a4 c3 c4 : R) (s1 s2 : list R) : @pstate RNum :=
  ([@mkRinfo RNum [a1; a2] [c1; c2] s1], [@mkRinfo RNum [a3; a4] [c3; c4] s2]).

Lemma st12_ext a1 a2 c1 c2 a3 a4 c3 c4 s1 s2 a1' a2' c1' c2' a3' a4' c3' c4' s1' s2' :
  a1 = a1' -> a2 = a2' -> c1 = c1' -> c2 = c2' -> a3 = a3' -> a4 = a4' -> c3 = c3' -> c4 = c4' ->
  s1 = s1' -> s2 = s2' ->
  st12 a1 a2 c1 c2 a3 a4 c3 c4 s1 s2 = st12 a1' a2' c1' c2' a3' a4' c3' c4' s1' s2'.
Proof. intros; subst; reflexivity. Qed.

Lemma g2_vrec draw pass a1 a2 c1 c2 e1 e2 a3 a4 c3 c4 f1 f2 :
  snd (@vrec RNum [] false draw pass (g_root g2) 1 1 1 (st12 a1 a2 c1 c2 a3 a4 c3 c4 [e1; e2] [f1; f2])) =
  st12 (a1 - f2 * e2) (a2 + f2 - f2 * e2) (c1 + e1) (c2 + e2)
       (a3 + e2 * f2) (a4 - e2 + e2 * f2) (c3 + 2 * f1) (c4 + 2 * f2) [e1; e2] [f1; f2].
Proof.
  unfold st12 at 1. cbv -[Rmax Rltb Rleb Reqb Rdiv Rplus Rmult Rminus Ropp Rinv IZR INR N.to_nat st12].
  apply st12_ext; try reflexivity; ring.
Qed.

Lemma g2_iter draw it a1 a2 c1 c2 e1 e2 a3 a4 c3 c4 f1 f2 :
  @vanilla_iter RNum g2 false draw (@p_vanilla RNum) it (st12 a1 a2 c1 c2 a3 a4 c3 c4 [e1; e2] [f1; f2]) =
  let r1 := [a1 - f2 * e2; a2 + f2 - f2 * e2] in
  let r2 := [a3 + e2 * f2; a4 - e2 + e2 * f2] in
  (st12 (a1 - f2 * e2) (a2 + f2 - f2 * e2) (c1 + e1) (c2 + e2)
        (a3 + e2 * f2) (a4 - e2 + e2 * f2) (c3 + 2 * f1) (c4 + 2 * f2)
        (@regret_match RNum (@p_vanilla RNum) r1) (@regret_match RNum (@p_vanilla RNum) r2),
   (2 * Rmax (Rmax (a1 - f2 * e2) (a2 + f2 - f2 * e2)) 0 / INR (N.to_nat it),
    2 * Rmax (Rmax (a3 + e2 * f2) (a4 - e2 + e2 * f2)) 0 / INR (N.to_nat it))).
Proof.
  rewrite vanilla_iter_state. cbv zeta. change (g_chance g2) with (@nil (list R)).
  rewrite g2_vrec. unfold st12. cbn [fst snd map adv_vanilla cum_regret cum_strat Rsum].
  unfold info_bound, Rmaxl. cbn [cum_regret reduce_max fold_left fmax RNum].
  f_equal. f_equal; apply Rplus_0_r.
Qed.

Lemma rm_np x y : x <= 0 -> 0 < y -> @regret_match RNum (@p_vanilla RNum) [x; y] = [0; 1].
Proof.
  intros Hx Hy. rewrite regret_match_unfold. cbv zeta. cbn [filter].
  assert (E1 : Rltb 0 x = false) by (apply Rltb_false; lra).
  assert (E2 : Rltb 0 y = true) by (apply Rltb_true; lra).
  rewrite E1, E2. cbn [Rsum].
  assert (E3 : Rltb 0 (y + 0) = true) by (apply Rltb_true; lra).
  rewrite E3. cbn [map]. rewrite E1, E2. f_equal. f_equal. field. lra.
Qed.

Lemma rm_pn x y : 0 < x -> y <= 0 -> @regret_match RNum (@p_vanilla RNum) [x; y] = [1; 0].
Proof.
  intros Hx Hy. rewrite regret_match_unfold. cbv zeta. cbn [filter].
  assert (E1 : Rltb 0 x = true) by (apply Rltb_true; lra).
  assert (E2 : Rltb 0 y = false) by (apply Rltb_false; lra).
  rewrite E1, E2. cbn [Rsum].
  assert (E3 : Rltb 0 (x + 0) = true) by (apply Rltb_true; lra).
  rewrite E3. cbn [map]. rewrite E1, E2. f_equal. field. lra.
Qed.

Lemma avg2 x y : x + y <> 0 -> @avg_strat RNum [x; y] = [x / (x + y); y / (x + y)].
Proof.
  intros Hne. rewrite avg_strat_unfold. cbn [Rsum].
  assert (E : Reqb (x + (y + 0)) 0 = false) by (apply Reqb_false; lra).
  rewrite E. cbn [map]. f_equal; [|f_equal]; field; lra.
Qed.

Lemma bound2_r x y d : x <= y -> 0 <= y -> 2 * Rmax (Rmax x y) 0 / d = 2 * y / d.
Proof. intros H1 H2. rewrite (Rmax_right x y) by lra. rewrite (Rmax_left y 0) by lra. reflexivity. Qed.
Lemma bound2_l x y d : y <= x -> 0 <= x -> 2 * Rmax (Rmax x y) 0 / d = 2 * x / d.
Proof. intros H1 H2. rewrite (Rmax_left x y) by lra. rewrite (Rmax_left x 0) by lra. reflexivity. Qed.

Lemma state_at_unfold (g : game) (draw : oracle) k :
  state_at g draw (S k) =
  fst (@vanilla_iter RNum g false draw (@p_vanilla RNum) (N.of_nat (S k)) (state_at g draw k)).
Proof. reflexivity. Qed.

Lemma g2_init : @init_state RNum g2 = st12 0 0 0 0 0 0 0 0 [1 / 2; 1 / 2] [1 / 2; 1 / 2].
Proof.
  unfold init_state, rinfo_new. cbn [g2 g_infos1 g_infos2 map pi_actions length repeatT].
  rewrite !of_N_INR. cbn [INR zero one div RNum]. apply st12_ext; reflexivity.
Qed.

Lemma g2_state1 draw :
  state_at g2 draw 1 = st12 (-1 / 4) (1 / 4) (1 / 2) (1 / 2) (1 / 4) (-1 / 4) 1 1 [0; 1] [1; 0].
Proof.
  cbn [state_at]. rewrite g2_init, g2_iter. cbv zeta. cbn [fst].
  rewrite rm_np, rm_pn by lra. apply st12_ext; try reflexivity; lra.
Qed.

Lemma g2_state2 draw :
  exists s1 s2,
    state_at g2 draw 2 = st12 (-1 / 4) (1 / 4) (1 / 2) (3 / 2) (1 / 4) (-5 / 4) 3 1 s1 s2.
Proof.
  do 2 eexists.
  rewrite (state_at_unfold g2 draw 1), g2_state1, g2_iter. cbv zeta. cbn [fst].
  apply st12_ext; try reflexivity; lra.
Qed.

Lemma g2_bounds2 draw : bounds_at g2 draw 2 = (1 / 4, 1 / 4).
Proof.
  unfold bounds_at. change (2 - 1)%nat with 1%nat. rewrite g2_state1, g2_iter. cbv zeta. cbn [snd].
  rewrite Nat2N.id. cbn [INR].
  rewrite bound2_r, bound2_l by lra. f_equal; lra.
Qed.

Lemma g2_WFgame : @WFgame RNum g2.
Proof.
  split; [|split; [|split; [|split]]].
  - cbn. repeat split; lia.
  - apply mp_WFtables.
  - apply mp_WFtables.
  - intros pl i h Hin. cbn in Hin.
    destruct Hin as [E|[E|[E|[]]]]; inversion E; subst; reflexivity.
  - intros pl i j a Hi Hp. destruct pl; cbn in Hi, Hp;
      (destruct i as [|i]; [discriminate Hp|lia]).
Qed.

Lemma g2_PerfectRecall : @PerfectRecall RNum g2.
Proof.
  exists (fun _ _ => []). intros pl i h Hin. cbn in Hin.
  destruct Hin as [E|[E|[E|[]]]]; inversion E; subst; reflexivity.
Qed.

Lemma g2_ChanceOK : ChanceOK g2.
Proof. constructor. Qed.

Section Ex2.
  Context (BR_upper : forall (g : game) (me : bool) (so : list (list R)),
              @WFgame RNum g -> @PerfectRecall RNum g -> ChanceOK g -> NonnegRows so ->
              forall tau, StratOf g me tau -> u_me g me tau so <= @br_value RNum g me so).

  Theorem halved_bound_refuted (draw : oracle) :
    exists strats b1 b2 ran,
      @solve_single RNum g2 Full draw (@p_vanilla RNum) 2 never = (strats, Some (b1, b2), ran) /\
      Rmax b1 b2 / 2 < @si_regret RNum (@info RNum g2 strats).
  Proof.
    destruct (@solve_single RNum g2 Full draw (@p_vanilla RNum) 2 never) as [[strats regs] ran] eqn:E.
    pose proof (solve_single_no_stop g2 Full draw (@p_vanilla RNum) 2 never (fun _ => eq_refl)) as Hran.
    rewrite E in Hran. cbn [snd] in Hran.
    destruct (budget_never_exceeded g2 Full draw _ never 2 strats regs ran E) as (_ & Hsome & _).
    destruct (Hsome ltac:(lia)) as (_ & b1 & b2 & ->).
    exists strats, b1, b2, ran. split; [reflexivity|].
    apply solve_single_traj in E as (T & HT & -> & Hb & HranT).
    assert (HT2 : T = 2%nat) by (apply Nat2N.inj; congruence). subst T.
    rewrite g2_bounds2 in Hb. injection Hb as <- <-.
    pose proof (WFgame_arities_pos g2 g2_WFgame) as Hpos.
    destruct (final_strats_rows g2 draw 2 Hpos) as [ER1 ER2].
    pose proof (avg_StratOf g2 draw 2 true Hpos) as HA1.
    pose proof (avg_StratOf g2 draw 2 false Hpos) as HA2.
    unfold si_regret, info. cbn [si_reg1 si_reg2 fmax sub add zero RNum].
    rewrite ER1, ER2.
    rewrite (expected_exact g2 _ _ (StratOf_nonneg _ _ _ HA1) (StratOf_nonneg _ _ _ HA2)).
    assert (Hst : StratOf g2 false [[1; 0]]).
    { split; [|reflexivity]. constructor; [|constructor]. split; [repeat constructor; lra|cbn; lra]. }
    pose proof (BR_upper g2 false (avg g2 draw 2 true) g2_WFgame g2_PerfectRecall g2_ChanceOK
                         (StratOf_nonneg _ _ _ HA1) [[1; 0]] Hst) as U2.
    destruct (g2_state2 draw) as (s1 & s2 & Est).
    assert (EA1 : avg g2 draw 2 true = [[1 / 4; 3 / 4]]).
    { unfold avg. rewrite Est. unfold st12. cbn [ps_get fst map cum_strat].
      rewrite avg2 by lra. f_equal. f_equal; [|f_equal]; lra. }
    assert (EA2 : avg g2 draw 2 false = [[3 / 4; 1 / 4]]).
    { unfold avg. rewrite Est. unfold st12. cbn [ps_get snd map cum_strat].
      rewrite avg2 by lra. f_equal. f_equal; [|f_equal]; lra. }
    rewrite EA1, EA2 in *.
    assert (Eu : u_game g2 [[1 / 4; 3 / 4]] [[3 / 4; 1 / 4]] = 3 / 16).
    { unfold u_game. cbv -[Rdiv Rplus Rmult Rminus Ropp Rinv IZR]. lra. }
    assert (Ev : u_me g2 false [[1; 0]] [[1 / 4; 3 / 4]] = 0).
    { unfold u_me, u_game. cbv -[Rdiv Rplus Rmult Rminus Ropp Rinv IZR]. lra. }
    rewrite Eu. rewrite Ev in U2.
    set (br1 := @br_value RNum g2 true _). set (br2 := @br_value RNum g2 false _) in *.
    pose proof (Rmax_r (Rmax (br1 - 3 / 16) 0) (Rmax (br2 + 3 / 16) 0)).
    pose proof (Rmax_l (br2 + 3 / 16) 0).
    rewrite (Rmax_left (1 / 4) (1 / 4)) by lra. lra.
  Qed.
End Ex2.
