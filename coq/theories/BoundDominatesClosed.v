(** * BoundDominatesClosed: property C02 with the best-response theorems of C01
    ([BestResponseProofs.v]) plugged in — no hypotheses left. *)
From Coq Require Import Reals List Lra Lia Bool Arith NArith.
From Cfr.theories Require Import Num RInst Tree GameWF Strat Eval Solve Valid
     SolveValidProofs LoopProofs EvalSpec EvalProofs BestResponseProofs CfrSpec Decomposition
     AvgRealisation BoundDominates.
Import ListNotations.
Open Scope R_scope.

Local Notation game := (@game RNum).
Local Notation oracle := (@oracle RNum).

Theorem bound_dominates_closed (g : game) (draw : oracle) budget (stop : R -> bool) strats b1 b2 ran :
  @WFgame RNum g -> @PerfectRecall RNum g -> ChanceOK g ->
  @solve_single RNum g Full draw (@p_vanilla RNum) budget stop = (strats, Some (b1, b2), ran) ->
  @si_regret RNum (@info RNum g strats) <= Rmax b1 b2 /\ 0 <= b1 /\ 0 <= b2.
Proof. intros Hwf HPR HCh. exact (bound_dominates br_upper br_attained g Hwf HPR HCh draw budget stop strats b1 b2 ran). Qed.

Theorem early_stop_sound_closed (g : game) (draw : oracle) budget (r : R) strats b1 b2 ran :
  @WFgame RNum g -> @PerfectRecall RNum g -> ChanceOK g ->
  @solve_single RNum g Full draw (@p_vanilla RNum) budget (@stop_at RNum r) =
    (strats, Some (b1, b2), ran) ->
  (ran < N.of_nat budget)%N ->
  @si_regret RNum (@info RNum g strats) < r.
Proof. intros Hwf HPR HCh. exact (early_stop_sound br_upper br_attained g Hwf HPR HCh draw budget r strats b1 b2 ran). Qed.

Theorem bound_dominates_each_closed (g : game) (draw : oracle) budget (stop : R -> bool) strats b1 b2 ran :
  @WFgame RNum g -> @PerfectRecall RNum g -> ChanceOK g ->
  @solve_single RNum g Full draw (@p_vanilla RNum) budget stop = (strats, Some (b1, b2), ran) ->
  0 <= si_reg1 (@info RNum g strats) <= Rmax b1 b2 /\
  0 <= si_reg2 (@info RNum g strats) <= Rmax b1 b2.
Proof. intros Hwf HPR HCh. exact (bound_dominates_each br_upper br_attained g Hwf HPR HCh draw budget stop strats b1 b2 ran). Qed.

(** non-vacuity, closed: matching pennies *)
Example mp_bound_dominates_closed (draw : oracle) (budget : nat) (stop : R -> bool) :
  (1 <= budget)%nat ->
  exists strats b1 b2 ran,
    @solve_single RNum SolveValidProofs.mp_game Full draw (@p_vanilla RNum) budget stop =
      (strats, Some (b1, b2), ran) /\
    @si_regret RNum (@info RNum SolveValidProofs.mp_game strats) <= Rmax b1 b2 /\ 0 <= b1 /\ 0 <= b2.
Proof. exact (mp_bound_dominates br_upper br_attained draw budget stop). Qed.

(** the factor 2 in [cum_regret_bound] cannot be dropped *)
Theorem halved_bound_refuted_closed (draw : oracle) :
  exists (g : game) budget stop strats b1 b2 ran,
    @WFgame RNum g /\ @PerfectRecall RNum g /\ ChanceOK g /\
    @solve_single RNum g Full draw (@p_vanilla RNum) budget stop = (strats, Some (b1, b2), ran) /\
    Rmax b1 b2 / 2 < @si_regret RNum (@info RNum g strats) /\
    @si_regret RNum (@info RNum g strats) <= Rmax b1 b2.
Proof.
  destruct (halved_bound_refuted br_upper draw) as (strats & b1 & b2 & ran & E & Hlt).
  exists g2, 2%nat, LoopProofs.never, strats, b1, b2, ran.
  split; [exact g2_WFgame|]. split; [exact g2_PerfectRecall|]. split; [exact g2_ChanceOK|].
  split; [exact E|]. split; [exact Hlt|].
  exact (proj1 (bound_dominates_closed g2 draw 2 _ strats b1 b2 ran g2_WFgame g2_PerfectRecall g2_ChanceOK E)).
Qed.
