(** * C12 — Results do not depend on how the game is presented.

    Statements only; proofs are in [theories/PresentationProofs.v],
    [theories/PresentationProofs2.v] (the raw-tree presentations: they are statements about
    [from_root]; evaluation and solving depend on the compact game only) and
    [theories/PayoffEvalProofs.v], [theories/PayoffShiftBRProofs.v],
    [theories/PayoffSolveProofs.v] (payoff transformations and the exchange of the players,
    on compact games, by a simulation between the two runs of the solver).

    Scaling needs a side condition that is *necessary*: the fallback weight of regret
    matching must be [0] or [+-inf] ([nopos_ok]; true of all presets and the default).  For a
    finite non-zero weight the documented softmax (C08) is not scale invariant
    ([C12_scale_softmax_counterexample]): two clauses of the specification conflict there,
    the checks explore scaling only under [nopos_ok]. *)
From Coq Require Import Reals List Bool NArith.
From Cfr.theories Require Import Num RInst Tree GameWF Valid Strat Eval Solve
     PresentationProofs PresentationProofs2 PayoffEvalProofs PayoffShiftBRProofs PayoffSolveProofs.
Import ListNotations.
Open Scope R_scope.

(** ** Presentations of the raw tree *)

(** 1. rescaling the weights of any chance nodes by positive constants (one per node):
       literally the same result of [from_root] — the same game or the same error *)
Theorem C12_rescale :
  forall t t' : @gnode RNum, Rescaled t t' -> from_root t' = from_root t.
Proof. exact rescale_from_root. Qed.

(** 2. inserting single-outcome chance nodes (any positive weight, any label) and
       single-action decision nodes (fresh infoset names) anywhere: same compact tree,
       chance table and infoset tables (only the single-action table grows), hence the
       same evaluation of every profile and the same solve by every method; an error is
       preserved.  [transparent_*_inv] in the proof file give the removal direction. *)
Theorem C12_insert_remove_transparent :
  forall (t t' : @gnode RNum) (L : list (bool * N * N)),
    Inserted t t' L -> fresh_for t L -> functional L ->
    match from_root t with
    | Ok g =>
        exists g', from_root t' = Ok g' /\
          g_root g' = g_root g /\ g_chance g' = g_chance g /\
          g_infos1 g' = g_infos1 g /\ g_infos2 g' = g_infos2 g /\
          (forall prof, @info RNum g' prof = @info RNum g prof) /\
          (forall m draw p budget stop,
             @solve_single RNum g' m draw p budget stop = @solve_single RNum g m draw p budget stop)
    | Err e => from_root t' = Err e
    end.
Proof. exact inserted_from_root. Qed.

(** 3. consistent (injective) renaming of infosets, actions and chance infosets: the same
       compact tree and indices, names renamed; evaluation and solving are literally equal
       and the named view is the renamed named view *)
Theorem C12_rename :
  forall (fi1 fi2 fa fc : N -> N) (t : @gnode RNum),
    inj fi1 -> inj fi2 -> inj fa -> inj fc ->
    from_root (rename fi1 fi2 fa fc t) = map_res (rename_game fi1 fi2 fa) (from_root t).
Proof. exact rename_presentation. Qed.

Theorem C12_rename_results :
  forall (fi1 fi2 fa : N -> N) (g : @game RNum),
    (forall prof, @info RNum (rename_game fi1 fi2 fa g) prof = @info RNum g prof) /\
    (forall m draw p budget stop,
       @solve_single RNum (rename_game fi1 fi2 fa g) m draw p budget stop =
       @solve_single RNum g m draw p budget stop) /\
    (forall pl flat,
       @as_named RNum (rename_game fi1 fi2 fa g) pl flat =
       rename_named fi1 fi2 fa pl (@as_named RNum g pl flat)).
Proof.
  intros fi1 fi2 fa g. split; [|split].
  - intros prof. apply info_rename.
  - intros m draw p budget stop. apply solve_single_rename.
  - intros pl flat. apply as_named_rename.
Qed.

(** ** Payoff transformations (compact games; unsampled and chance-sampled method) *)

(** 4. multiplying payoffs by c > 0: utilities and regrets of every profile are multiplied
       by c; the solver returns the same strategies, bounds multiplied by c, after the same
       number of iterations (threshold scaled accordingly) *)
Theorem C12_scale_info :
  forall (c : R) (g : @game RNum) prof,
    0 < c ->
    @info RNum (scale c g) prof =
    let i := @info RNum g prof in @mkSinfo RNum (c * si_util i) (c * si_reg1 i) (c * si_reg2 i).
Proof. exact info_scale. Qed.

Theorem C12_scale_solve :
  forall (c : R) (g : @game RNum) sampled draw p budget (stop : R -> bool),
    0 < c -> nopos_ok p ->
    @solve_single RNum (scale c g) (vmethod sampled) draw p budget (fun b => stop (b / c)) =
    let '(strats, regs, ran) := @solve_single RNum g (vmethod sampled) draw p budget stop in
    (strats, option_map (fun rr => (c * fst rr, c * snd rr)) regs, ran).
Proof. exact solve_scale. Qed.

Theorem C12_presets_satisfy_side_condition :
  nopos_ok (@p_vanilla RNum) /\ nopos_ok (@p_lcfr RNum) /\ nopos_ok (@p_cfr_plus RNum) /\
  nopos_ok (@p_dcfr RNum) /\ nopos_ok (@p_dcfr_prune RNum) /\ nopos_ok (@p_default RNum).
Proof. exact presets_nopos_ok. Qed.

Theorem C12_scale_softmax_counterexample :
  let p := @mkParams RNum (@PosInf RNum) (@PosInf RNum) (@Fin RNum 0) (@Fin RNum 1) in
  @regret_match RNum p (map (Rmult 2) [0; -1]) <> @regret_match RNum p [0; -1].
Proof. exact scale_softmax_counterexample. Qed.

(** 5. adding a constant: utility shifts, regrets unchanged; the solver is unchanged *)
Theorem C12_shift_info :
  forall (k : R) (g : @game RNum) prof,
    ChanceOK g -> WFgame g -> Valid g prof ->
    @info RNum (shift k g) prof =
    let i := @info RNum g prof in @mkSinfo RNum (si_util i + k) (si_reg1 i) (si_reg2 i).
Proof. exact info_shift_WF. Qed.

Theorem C12_shift_solve :
  forall (k : R) (g : @game RNum) sampled draw p budget (stop : R -> bool),
    ShiftSide g sampled draw ->
    @solve_single RNum (shift k g) (vmethod sampled) draw p budget stop =
    @solve_single RNum g (vmethod sampled) draw p budget stop.
Proof. exact solve_shift. Qed.

(** 6. exchanging the players' roles while negating payoffs: mirrored strategies, negated
       utility, swapped regrets and bounds — no hypothesis at all *)
Theorem C12_swap_info :
  forall (g : @game RNum) prof,
    @info RNum (swap g) (snd prof, fst prof) =
    let i := @info RNum g prof in @mkSinfo RNum (- si_util i) (si_reg2 i) (si_reg1 i).
Proof. exact info_swap. Qed.

Theorem C12_swap_solve :
  forall (g : @game RNum) sampled draw p budget (stop : R -> bool),
    @solve_single RNum (swap g) (vmethod sampled) draw p budget stop =
    let '(strats, regs, ran) := @solve_single RNum g (vmethod sampled) draw p budget stop in
    ((snd strats, fst strats), option_map (fun rr => (snd rr, fst rr)) regs, ran).
Proof. exact solve_swap. Qed.

Print Assumptions C12_rescale.
Print Assumptions C12_insert_remove_transparent.
Print Assumptions C12_rename.
Print Assumptions C12_rename_results.
Print Assumptions C12_scale_info.
Print Assumptions C12_scale_solve.
Print Assumptions C12_presets_satisfy_side_condition.
Print Assumptions C12_scale_softmax_counterexample.
Print Assumptions C12_shift_info.
Print Assumptions C12_shift_solve.
Print Assumptions C12_swap_info.
Print Assumptions C12_swap_solve.
