(** * C01 — Reported utility and regret of any strategy profile are exact.

    Statements only; proofs are in [theories/EvalProofs.v] and
    [theories/BestResponseProofs.v].  Model functions: [Eval.expected] (the explicit
    stack of [regret::expected]), [Eval.br_value] ([optimal_deviations] +
    [next_infoset_search]: bottom-up resolution of the player's infosets with
    normalisation by total reach), [Eval.info] ([Strategies::get_info]).

    Specification, independent of the evaluator's recursion scheme
    ([theories/EvalSpec.v]): [u] is the expected terminal payoff (a plain structural
    sum; [u_leaves] shows it is the sum over terminals of reach x payoff); a
    behavioural strategy of a player is any table of distributions of the right
    arities ([StratOf]); a pure one has one-hot rows ([PureOf]).

    Hypotheses: [WFgame], [PerfectRecall], [ChanceOK] — exactly what [from_root]
    guarantees for every accepted tree (C11_sound) — and a [Valid] profile. *)
From Coq Require Import Reals List Bool.
From Cfr.theories Require Import Num RInst Tree GameWF Valid Eval EvalSpec EvalProofs BestResponseProofs.
Import ListNotations.
Open Scope R_scope.

(** 0. the specification is the expected terminal payoff: sum over leaves of reach x payoff *)
Theorem C01_spec_is_leaf_sum :
  forall chance s1 s2 n, u chance s1 s2 n = lsum (leaves chance s1 s2 n).
Proof. exact u_leaves. Qed.

(** 1. the reported utility is the expected terminal payoff; player two's is its negation *)
Theorem C01_expected_exact :
  forall (g : @game RNum) s1 s2,
    NonnegRows s1 -> NonnegRows s2 -> @expected RNum g s1 s2 = u_game g s1 s2.
Proof. exact expected_exact. Qed.

Theorem C01_utility :
  forall (g : @game RNum) prof,
    Valid g prof ->
    @si_utility RNum (@info RNum g prof) true = u_me g true (strat1 g prof) (strat2 g prof) /\
    @si_utility RNum (@info RNum g prof) false = u_me g false (strat2 g prof) (strat1 g prof) /\
    @si_utility RNum (@info RNum g prof) false = - @si_utility RNum (@info RNum g prof) true.
Proof.
  intros g prof HV. split; [now apply info_utility_one|].
  split; [now apply info_utility_two|apply info_utility_zero_sum].
Qed.

(** 2. the best-response value is the maximum over all behavioural strategies and is
       attained by a pure one *)
Theorem C01_br_upper :
  forall (g : @game RNum) (me : bool) (so : list (list R)),
    WFgame g -> PerfectRecall g -> ChanceOK g -> NonnegRows so ->
    forall tau, StratOf g me tau -> u_me g me tau so <= @br_value RNum g me so.
Proof. exact br_upper. Qed.

Theorem C01_br_attained :
  forall (g : @game RNum) (me : bool) (so : list (list R)),
    WFgame g -> PerfectRecall g -> ChanceOK g -> NonnegRows so ->
    exists s, PureOf g me s /\ u_me g me s so = @br_value RNum g me so.
Proof. exact br_attained. Qed.

(** 3. each player's reported regret is the largest gain from a unilateral deviation
       (an upper bound over every behavioural strategy, attained by a pure one), and is
       non-negative ("zero if there is none") *)
Theorem C01_regret_one :
  forall (g : @game RNum) prof,
    WFgame g -> PerfectRecall g -> ChanceOK g -> Valid g prof ->
    let s1 := strat1 g prof in let s2 := strat2 g prof in
    0 <= si_reg1 (@info RNum g prof) /\
    (forall tau, StratOf g true tau ->
                 u_me g true tau s2 - u_me g true s1 s2 <= si_reg1 (@info RNum g prof)) /\
    (exists s, PureOf g true s /\
               u_me g true s s2 - u_me g true s1 s2 = si_reg1 (@info RNum g prof)).
Proof.
  intros g prof H1 H2 H3 H4 s1 s2.
  split; [exact (proj2 (info_reg1_exact g prof H1 H2 H3 H4))|].
  exact (info_reg1_largest_gain g prof H1 H2 H3 H4).
Qed.

Theorem C01_regret_two :
  forall (g : @game RNum) prof,
    WFgame g -> PerfectRecall g -> ChanceOK g -> Valid g prof ->
    let s1 := strat1 g prof in let s2 := strat2 g prof in
    0 <= si_reg2 (@info RNum g prof) /\
    (forall tau, StratOf g false tau ->
                 u_me g false tau s1 - u_me g false s2 s1 <= si_reg2 (@info RNum g prof)) /\
    (exists s, PureOf g false s /\
               u_me g false s s1 - u_me g false s2 s1 = si_reg2 (@info RNum g prof)).
Proof.
  intros g prof H1 H2 H3 H4 s1 s2.
  split; [exact (proj2 (info_reg2_exact g prof H1 H2 H3 H4))|].
  exact (info_reg2_largest_gain g prof H1 H2 H3 H4).
Qed.

(** 4. the total regret is the larger of the two *)
Theorem C01_total_regret :
  forall (g : @game RNum) prof,
    @si_regret RNum (@info RNum g prof) =
    Rmax (si_reg1 (@info RNum g prof)) (si_reg2 (@info RNum g prof)).
Proof. exact info_regret_def. Qed.

(** 5. hence zero reported regret <-> no player has a profitable deviation *)
Theorem C01_zero_regret_iff_equilibrium :
  forall (g : @game RNum) prof,
    WFgame g -> PerfectRecall g -> ChanceOK g -> Valid g prof ->
    (@si_regret RNum (@info RNum g prof) = 0 <->
     (forall tau, StratOf g true tau ->
                  u_me g true tau (strat2 g prof) <= u_me g true (strat1 g prof) (strat2 g prof)) /\
     (forall tau, StratOf g false tau ->
                  u_me g false tau (strat1 g prof) <= u_me g false (strat2 g prof) (strat1 g prof))).
Proof. exact info_regret_zero_iff_equilibrium. Qed.

(** Non-vacuity: matching pennies with player two's two nodes in one infoset satisfies
    every hypothesis, and a pure profile has regret 2 (the loser switches sides). *)
Example C01_example :
  WFgame (mp_game 1) /\ PerfectRecall (mp_game 1) /\ ChanceOK (mp_game 1) /\
  Valid (mp_game 1) mp_prof /\
  @si_regret RNum (@info RNum (mp_game 1) mp_prof) = 2.
Proof. exact matching_pennies_regret_two. Qed.

Print Assumptions C01_spec_is_leaf_sum.
Print Assumptions C01_expected_exact.
Print Assumptions C01_utility.
Print Assumptions C01_br_upper.
Print Assumptions C01_br_attained.
Print Assumptions C01_regret_one.
Print Assumptions C01_regret_two.
Print Assumptions C01_total_regret.
Print Assumptions C01_zero_regret_iff_equilibrium.
Print Assumptions C01_example.
