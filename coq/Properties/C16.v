(** * C16 — CLI options and input formats mean what the help text says.

    Statements only; proofs are in [theories/CliProofs.v].  What is a theorem here is the
    clip decision and the validity of what is printed, for every threshold (finite, and —
    through arbitrary predicates — NaN and the infinities).  That the method, preset,
    budget, threshold and parallelism options select the corresponding library behaviour,
    route independence, and the agreement of the JSON and Gambit encodings are constants
    and plumbing of [main.rs]/[clap]: they are decided by the end-to-end correspondence of
    the check (binary vs library vs this model), not by a theorem; thread-count
    independence of the deterministic method is C06. *)
From Coq Require Import Reals List Bool NArith.
From Cfr.theories Require Import Num RInst Tree Valid Strat Eval Solve Cli CliProofs PresentationProofs CliMoreProofs.
Import ListNotations.
Open Scope R_scope.

(** 1. the pruned profile is printed exactly when its regret is strictly lower *)
Theorem C16_pruned_iff_strictly_lower :
  forall (g : @game RNum) (sum clip : R) (prof : list R * list R),
    o_pruned (@cli_choose RNum g sum clip prof) = true <->
    @si_regret RNum (@info RNum g (@truncate RNum g clip prof)) < @si_regret RNum (@info RNum g prof).
Proof. exact cli_pruned_iff. Qed.

Theorem C16_printed_profile :
  forall (g : @game RNum) (sum clip : R) (prof : list R * list R),
    o_prof (@cli_choose RNum g sum clip prof) =
    if o_pruned (@cli_choose RNum g sum clip prof) then @truncate RNum g clip prof else prof.
Proof. exact cli_prof. Qed.

(** 2. what is printed is always a valid profile — for every threshold predicate *)
Theorem C16_printed_valid :
  forall (g : @game RNum) (sum clip : R) prof,
    Valid g prof -> Valid g (o_prof (@cli_choose RNum g sum clip prof)).
Proof. exact cli_printed_valid. Qed.

Theorem C16_printed_valid_any_threshold :
  forall (g : @game RNum) (sum : R) (above : R -> bool) prof,
    Valid g prof -> Valid g (o_prof (cli_choose_by above g sum prof)).
Proof. exact cli_by_printed_valid. Qed.

Theorem C16_model_is_generalised :
  forall (g : @game RNum) (sum clip : R) prof,
    @cli_choose RNum g sum clip prof = cli_choose_by (fun p => Rltb clip p) g sum prof.
Proof. exact cli_choose_is_by. Qed.

(** 3. clipping never makes the printed regret worse; it is the smaller of the two *)
Theorem C16_not_worse :
  forall (g : @game RNum) (sum clip : R) prof,
    o_regret (@cli_choose RNum g sum clip prof) <= @si_regret RNum (@info RNum g prof).
Proof. exact cli_not_worse. Qed.

Theorem C16_regret_is_min :
  forall (g : @game RNum) (sum clip : R) prof,
    o_regret (@cli_choose RNum g sum clip prof) =
    Rmin (@si_regret RNum (@info RNum g (@truncate RNum g clip prof))) (@si_regret RNum (@info RNum g prof)).
Proof. exact cli_regret_min. Qed.

(** 4. a JSON and a Gambit encoding of the same game give the same game, hence the same
       evaluation, the same solution by every method and the same printed object *)
Theorem C16_json_gambit_same_solution :
  forall (numname : N -> N) (a : agame),
    awf a ->
    match @gambit_load RNum numname (enc_gambit a), @json_load RNum (enc_json a) with
    | Loaded (g, s), Loaded (g', s') =>
        s = 0 /\ s' = 0 /\ g' = g /\ same_core g g' /\
        (forall prof, @info RNum g' prof = @info RNum g prof) /\
        (forall m draw p budget stop,
            @solve_single RNum g' m draw p budget stop = @solve_single RNum g m draw p budget stop) /\
        (forall clip prof, @cli_choose RNum g' s' clip prof = @cli_choose RNum g s clip prof)
    | Rejected r, Rejected r' => r = r' /\ exists e, r = RGame e
    | _, _ => False
    end.
Proof. exact json_gambit_same_solution. Qed.

(** chance infoset labels that are pairwise distinct are immaterial (every number type) *)
Theorem C16_distinct_chance_labels_immaterial :
  forall (NN : Num) (t : @gnode NN), NoDup (clabels t) -> from_root (cerase t) = from_root t.
Proof. intros NN. exact (@cerase_from_root NN). Qed.

Print Assumptions C16_json_gambit_same_solution.
Print Assumptions C16_distinct_chance_labels_immaterial.
Print Assumptions C16_pruned_iff_strictly_lower.
Print Assumptions C16_printed_profile.
Print Assumptions C16_printed_valid.
Print Assumptions C16_printed_valid_any_threshold.
Print Assumptions C16_model_is_generalised.
Print Assumptions C16_not_worse.
Print Assumptions C16_regret_is_min.
