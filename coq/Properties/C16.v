(** * C16 — CLI options and input formats mean what the help text says.

    Statements only; proofs are in [theories/CliProofs.v].  What is a theorem here is the
    clip decision and the validity of what is printed, for every threshold (finite, and —
    through arbitrary predicates — NaN and the infinities), the option table and the
    composition reader -> solve -> clip -> output ([CliRun]), and route independence: the
    format flag, the file extension and content detection select a reader as documented and
    every documented route reads the same game ([CliRoute]; the two text parsers are
    dependencies and are universally quantified).  [clap]'s own parsing is tied only by the
    end-to-end correspondence of the check (binary vs library vs this model); thread-count
    independence of the deterministic method is C06. *)
From Coq Require Import Reals List Bool NArith.
From Cfr.theories Require Import Num RInst Tree GameWF Valid Strat Eval Solve SolveValidProofs Cli CliProofs PresentationProofs CliMoreProofs SolveApi CliRun CliRoute.
From Coq Require Import String.
Import ListNotations.
Open Scope R_scope.

(** 1. the pruned profile is printed exactly when its regret is strictly lower *)
Theorem C16_pruned_iff_strictly_lower :
  forall (g : @game RNum) (sum clip : R) (prof : list R * list R),
    o_pruned (@cli_choose RNum g sum clip prof) = true <->
    @si_regret RNum (@info RNum g (@truncate RNum g clip prof)) < @si_regret RNum (@info RNum g prof).
Proof. exact cli_pruned_iff. Qed.

Theorem C16_printed_profile :
  forall (g : @game RNum) (sum clip : R) (prof : list R * list R),
    o_prof (@cli_choose RNum g sum clip prof) =
    if o_pruned (@cli_choose RNum g sum clip prof) then @truncate RNum g clip prof else prof.
Proof. exact cli_prof. Qed.

(** 2. what is printed is always a valid profile — for every threshold predicate *)
Theorem C16_printed_valid :
  forall (g : @game RNum) (sum clip : R) prof,
    Valid g prof -> Valid g (o_prof (@cli_choose RNum g sum clip prof)).
Proof. exact cli_printed_valid. Qed.

Theorem C16_printed_valid_any_threshold :
  forall (g : @game RNum) (sum : R) (above : R -> bool) prof,
    Valid g prof -> Valid g (o_prof (cli_choose_by above g sum prof)).
Proof. exact cli_by_printed_valid. Qed.

Theorem C16_model_is_generalised :
  forall (g : @game RNum) (sum clip : R) prof,
    @cli_choose RNum g sum clip prof = cli_choose_by (fun p => Rltb clip p) g sum prof.
Proof. exact cli_choose_is_by. Qed.

(** 3. clipping never makes the printed regret worse; it is the smaller of the two *)
Theorem C16_not_worse :
  forall (g : @game RNum) (sum clip : R) prof,
    o_regret (@cli_choose RNum g sum clip prof) <= @si_regret RNum (@info RNum g prof).
Proof. exact cli_not_worse. Qed.

Theorem C16_regret_is_min :
  forall (g : @game RNum) (sum clip : R) prof,
    o_regret (@cli_choose RNum g sum clip prof) =
    Rmin (@si_regret RNum (@info RNum g (@truncate RNum g clip prof))) (@si_regret RNum (@info RNum g prof)).
Proof. exact cli_regret_min. Qed.

(** 4. a JSON and a Gambit encoding of the same game give the same game, hence the same
       evaluation, the same solution by every method and the same printed object *)
Theorem C16_json_gambit_same_solution :
  forall (numname : N -> N) (a : agame),
    awf a ->
    match @gambit_load RNum numname (enc_gambit a), @json_load RNum (enc_json a) with
    | Loaded (g, s), Loaded (g', s') =>
        s = 0 /\ s' = 0 /\ g' = g /\ same_core g g' /\
        (forall prof, @info RNum g' prof = @info RNum g prof) /\
        (forall m draw p budget stop,
            @solve_single RNum g' m draw p budget stop = @solve_single RNum g m draw p budget stop) /\
        (forall clip prof, @cli_choose RNum g' s' clip prof = @cli_choose RNum g s clip prof)
    | Rejected r, Rejected r' => r = r' /\ exists e, r = RGame e
    | _, _ => False
    end.
Proof. exact json_gambit_same_solution. Qed.

(** chance infoset labels that are pairwise distinct are immaterial (every number type) *)
Theorem C16_distinct_chance_labels_immaterial :
  forall (NN : Num) (t : @gnode NN), NoDup (clabels t) -> from_root (cerase t) = from_root t.
Proof. intros NN. exact (@cerase_from_root NN). Qed.

(** 5. the options ([theories/CliRun.v]: [main.rs] after [clap]): the option table, and the
       printed object is the clip decision applied to the library's solution for the mapped
       parameters — independent of the parallelism option, the machine, the workers' schedule
       (for the sampled methods: under a fixed oracle); a rejected input prints nothing *)
Theorem C16_option_table :
  discount_params DVanilla = @p_vanilla RNum /\ discount_params DLcfr = @p_lcfr RNum /\
  discount_params DCfrPlus = @p_cfr_plus RNum /\ discount_params DDcfr = @p_dcfr RNum /\
  discount_params DDcfrPrune = @p_dcfr_prune RNum /\
  discount_params (arg_discount default_args) = @p_default RNum /\
  effective_iters 0 = (2 ^ 64 - 1)%N /\ (forall n, n <> 0%N -> effective_iters n = n).
Proof.
  destruct discount_table as (A & B & C & D & E & F). destruct zero_iters_means_unbounded as [G H].
  repeat split; assumption.
Qed.

Theorem C16_printed_is_library_result :
  forall (a : args) (g : @game RNum) (sum : R) draw par s,
    WFgame g -> schedules_ok s ->
    solve_api g (arg_method a) draw (discount_params (arg_discount a))
              (N.to_nat (effective_iters (arg_max_iters a))) (@stop_at RNum (arg_max_regret a))
              (arg_parallel a) par s <> ApiThreadOverflow ->
    cli_run a (Loaded (g, sum)) draw par s =
    Some (@cli_choose RNum g sum (arg_clip a)
            (fst (fst (@solve_single RNum g (arg_method a) draw (discount_params (arg_discount a))
                                     (N.to_nat (effective_iters (arg_max_iters a)))
                                     (@stop_at RNum (arg_max_regret a))))), g).
Proof. exact cli_run_is_library. Qed.

Theorem C16_parallelism_irrelevant :
  forall (a a' : args) (g : @game RNum) (sum : R) draw par par' s s',
    WFgame g -> schedules_ok s -> schedules_ok s' ->
    arg_clip a' = arg_clip a -> arg_max_regret a' = arg_max_regret a ->
    arg_max_iters a' = arg_max_iters a -> arg_method a' = arg_method a ->
    arg_discount a' = arg_discount a ->
    cli_run a (Loaded (g, sum)) draw par s <> None ->
    cli_run a' (Loaded (g, sum)) draw par' s' <> None ->
    cli_run a' (Loaded (g, sum)) draw par' s' = cli_run a (Loaded (g, sum)) draw par s.
Proof. exact cli_run_parallel_irrelevant. Qed.

Theorem C16_run_prints_valid_profile :
  forall (a : args) (g : @game RNum) (sum : R) draw par s out g',
    WFgame g -> arities_pos g -> schedules_ok s ->
    cli_run a (Loaded (g, sum)) draw par s = Some (out, g') ->
    g' = g /\ Valid g (o_prof out).
Proof. exact cli_run_valid. Qed.

Theorem C16_rejected_prints_nothing :
  forall (a : args) r draw par s, cli_run a (Rejected r) draw par s = None.
Proof. exact cli_run_rejected. Qed.

(** 7. format selection: flag, then extension, then content (JSON first); every documented
    route of a game file prints the same result; the parsers are arbitrary functions *)
Theorem C16_flag_then_extension_then_content :
  forall (Text JFile GFile Result : Type) (pj : Text -> option JFile) (pg : Text -> option GFile)
         (lj : JFile -> loaded Result) (lg : GFile -> loaded Result) (path : string) (t : Text),
    (forall input, cli_load pj pg lj lg input FJson t = read_json pj lj t /\
                   cli_load pj pg lj lg input FGambit t = read_gambit pg lg t) /\
    (ends_with ".json" path = true -> cli_load pj pg lj lg (Some path) FAuto t = read_json pj lj t) /\
    (ends_with ".json" path = false -> ends_with ".efg" path = true ->
     cli_load pj pg lj lg (Some path) FAuto t = read_gambit pg lg t) /\
    (ends_with ".json" path = false -> ends_with ".efg" path = false ->
     cli_load pj pg lj lg (Some path) FAuto t = read_auto pj pg lj lg t) /\
    cli_load pj pg lj lg None FAuto t = read_auto pj pg lj lg t /\
    (forall j, pj t = Some j -> read_auto pj pg lj lg t = read_json pj lj t) /\
    (pj t = None -> read_auto pj pg lj lg t = read_gambit pg lg t).
Proof. intros. apply format_selection_spec. Qed.

Theorem C16_json_file_route_irrelevant :
  forall (Text JFile GFile : Type) (pj : Text -> option JFile) (pg : Text -> option GFile)
         (lj : JFile -> loaded (@game RNum * R)) (lg : GFile -> loaded (@game RNum * R))
         (a : args) (t : Text) (j : JFile) (input input' : option string) draw par s,
    pj t = Some j ->
    (match input with Some path => ends_with ".json" path = true \/ ends_with ".efg" path = false | None => True end) ->
    cli_main pj pg lj lg a input FAuto t draw par s = cli_main pj pg lj lg a input' FJson t draw par s /\
    cli_main pj pg lj lg a input' FJson t draw par s = cli_run a (lj j) draw par s.
Proof. intros. now apply main_json_route_irrelevant. Qed.

Theorem C16_gambit_file_route_irrelevant :
  forall (Text JFile GFile : Type) (pj : Text -> option JFile) (pg : Text -> option GFile)
         (lj : JFile -> loaded (@game RNum * R)) (lg : GFile -> loaded (@game RNum * R))
         (a : args) (t : Text) (e : GFile) (input input' : option string) draw par s,
    pj t = None -> pg t = Some e ->
    (match input with Some path => ends_with ".json" path = false | None => True end) ->
    cli_main pj pg lj lg a input FAuto t draw par s = cli_main pj pg lj lg a input' FGambit t draw par s /\
    cli_main pj pg lj lg a input' FGambit t draw par s = cli_run a (lg e) draw par s.
Proof. intros. now apply main_gambit_route_irrelevant. Qed.

Print Assumptions C16_flag_then_extension_then_content.
Print Assumptions C16_json_file_route_irrelevant.
Print Assumptions C16_gambit_file_route_irrelevant.
Print Assumptions C16_option_table.
Print Assumptions C16_printed_is_library_result.
Print Assumptions C16_parallelism_irrelevant.
Print Assumptions C16_run_prints_valid_profile.
Print Assumptions C16_rejected_prints_nothing.
Print Assumptions C16_json_gambit_same_solution.
Print Assumptions C16_distinct_chance_labels_immaterial.
Print Assumptions C16_pruned_iff_strictly_lower.
Print Assumptions C16_printed_profile.
Print Assumptions C16_printed_valid.
Print Assumptions C16_printed_valid_any_threshold.
Print Assumptions C16_model_is_generalised.
Print Assumptions C16_not_worse.
Print Assumptions C16_regret_is_min.
