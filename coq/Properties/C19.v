(** * C19 — The distance between two profiles of one game.

    Statements only; proofs are in [theories/DistProofs.v].  The model function is
    [Strat.distance] / [Strat.distance_player] (= [Strategies::distance] after the
    repair: the per-infoset sum is halved and a player without multi-action infosets
    gets 0), read at the real-number instance, where [powf] is [RInst.Rpowf] applied to
    [Rabs (l - r)].

    Scope of the model.
    - [distance] returns [None] for the panic on [!(p > 0)] (theorem [C19_panics]).
      The other documented panic, "profiles of different games", is outside the model
      by construction: the model's [distance] takes ONE game [g] and two profiles, so
      two profiles of different games cannot even be presented to it.
    - "never NaN" is a statement about binary64; over the reals it reads "a real number
      in the stated range" and is what [C19_range_game] gives (NaN has no real reading).
    - The range [0,1] is proved for [p >= 1] ([C19_range]).  For EVERY [0 < p < 1] it is
      refuted with one ternary infoset ([C19_small_p_refuted_all], [C19_small_p_refuted]):
      the property as worded ("any exponent p>0 ... a number in [0,1]") is false of the
      model (and of the Rust code, whose doc comment only promises a distance for p >= 1).
      Non-negativity, zero, positivity, symmetry hold for every [p > 0] (most for every p). *)
From Coq Require Import Reals List Bool Lra.
From Cfr.theories Require Import Num RInst Tree Strat Valid DistProofs.
Import ListNotations.
Open Scope R_scope.

(** The model's sum is the sum of [Rpowf |l_i - r_i| p] over the zipped vectors, and
    with [n > 0] infosets the distance is that sum over [2 n]. *)
Theorem C19_model_is_sum :
  forall (p : R) (n : nat) (l r : list R),
    @distance_player RNum p (S n) l r =
    Rsum (map (fun lr => Rpowf (Rabs (fst lr - snd lr)) p) (combine l r)) / (2 * INR (S n)).
Proof. exact distance_player_S. Qed.

(** 1. Zero when the two profiles coincide. *)
Theorem C19_zero :
  forall (p : R) (n : nat) (l : list R), 0 < p -> @distance_player RNum p n l l = 0.
Proof. exact distance_player_refl. Qed.

Theorem C19_zero_game :
  forall (g : @game RNum) (p : R) (a : list R * list R),
    0 < p -> @distance RNum g p a a = Some (0, 0).
Proof. exact distance_refl. Qed.

(** 2. Symmetric in its arguments (every p, every pair of vectors). *)
Theorem C19_sym :
  forall (p : R) (n : nat) (l r : list R),
    @distance_player RNum p n l r = @distance_player RNum p n r l.
Proof. exact distance_player_sym. Qed.

Theorem C19_sym_game :
  forall (g : @game RNum) (p : R) (a b : list R * list R),
    @distance RNum g p a b = @distance RNum g p b a.
Proof. exact distance_sym. Qed.

(** 3. Never negative (for every exponent, in particular every [p > 0]) ... *)
Theorem C19_nonneg :
  forall (p : R) (n : nat) (l r : list R), 0 <= @distance_player RNum p n l r.
Proof. exact distance_player_nonneg. Qed.

(** ... and positive when the vectors differ (again for every exponent). *)
Theorem C19_pos :
  forall (p : R) (n : nat) (l r : list R),
    length l = length r -> (n > 0)%nat -> l <> r -> 0 < @distance_player RNum p n l r.
Proof. exact distance_player_pos. Qed.

(** so, for [p > 0], distance zero characterises equality *)
Theorem C19_zero_iff :
  forall (p : R) (n : nat) (l r : list R),
    0 < p -> length l = length r -> (n > 0)%nat ->
    (@distance_player RNum p n l r = 0 <-> l = r).
Proof. exact distance_player_zero_iff. Qed.

(** On valid profiles of a game: a player's distance is positive exactly when the two
    profiles differ in one of that player's infosets. *)
Theorem C19_pos_game :
  forall (g : @game RNum) (p : R) (a b : list R * list R),
    0 < p -> Valid g a -> Valid g b ->
    exists d1 d2, @distance RNum g p a b = Some (d1, d2) /\
                  (0 < d1 <-> fst a <> fst b) /\ (0 < d2 <-> snd a <> snd b).
Proof. exact distance_game_pos. Qed.

(** 4. Range: at most one, for [p >= 1], on valid profiles. *)
Theorem C19_range :
  forall (p : R) (ars : list nat) (n : nat) (l r : list R),
    1 <= p -> VFlat ars l -> VFlat ars r -> n = length ars ->
    @distance_player RNum p n l r <= 1.
Proof. exact distance_player_le_1. Qed.

Theorem C19_range_game :
  forall (g : @game RNum) (p : R) (a b : list R * list R),
    1 <= p -> Valid g a -> Valid g b ->
    exists d1 d2, @distance RNum g p a b = Some (d1, d2) /\ 0 <= d1 <= 1 /\ 0 <= d2 <= 1.
Proof. exact distance_game_range. Qed.

(** The bound is attained, for every exponent: two different pure strategies in one
    binary infoset are at distance exactly one. *)
Theorem C19_range_attained :
  forall p : R,
    VFlat [2%nat] [1; 0] /\ VFlat [2%nat] [0; 1] /\
    @distance_player RNum p 1 [1; 0] [0; 1] = 1.
Proof. exact distance_player_attains_1. Qed.

(** 5. A player without multi-action infosets: zero, no division by zero. *)
Theorem C19_no_infosets :
  forall (p : R) (l r : list R), @distance_player RNum p 0 l r = 0.
Proof. reflexivity. Qed.

(** 6. For every exponent strictly between 0 and 1 the documented range fails: one
    ternary infoset, a pure strategy against the uniform mix of the other two actions. *)
Theorem C19_small_p_refuted_all :
  forall p : R,
    0 < p < 1 ->
    VFlat [3%nat] [1; 0; 0] /\ VFlat [3%nat] [0; /2; /2] /\
    1 < @distance_player RNum p 1 [1; 0; 0] [0; /2; /2].
Proof.
  intros p Hp. split; [exact vflat_100|]. split; [exact vflat_0hh|].
  now apply distance_player_small_p.
Qed.

Theorem C19_small_p_refuted :
  exists (ars : list nat) (l r : list R) (p : R),
    0 < p < 1 /\ VFlat ars l /\ VFlat ars r /\ 1 < @distance_player RNum p (length ars) l r.
Proof. exact distance_player_small_p_exists. Qed.

(** the same pair sits exactly on the bound at [p = 1] *)
Theorem C19_small_p_threshold :
  @distance_player RNum 1 1 [1; 0; 0] [0; /2; /2] = 1.
Proof. exact distance_player_p1_three. Qed.

(** 7. The model panics ([None]) exactly when the exponent is not positive. *)
Theorem C19_panics :
  forall (g : @game RNum) (p : R) (a b : list R * list R),
    @distance RNum g p a b = None <-> ~ 0 < p.
Proof. exact distance_none_iff. Qed.

(** Non-vacuity: two valid profiles over two binary infosets that differ in the first
    infoset and agree in the second; hypotheses of [C19_range] hold (with p = 2) and
    the distance, one half, is strictly inside the range. *)
Example C19_example :
  let ars := [2%nat; 2%nat] in
  let l := [1; 0; /2; /2] in
  let r := [0; 1; /2; /2] in
  1 <= 2 /\ VFlat ars l /\ VFlat ars r /\ 2%nat = length ars /\
  @distance_player RNum 2 2 l r = /2 /\
  0 < @distance_player RNum 2 2 l r < 1.
Proof.
  cbv zeta. split; [lra|]. split; [exact vflat_ex_l|]. split; [exact vflat_ex_r|].
  split; [reflexivity|]. rewrite distance_player_example by lra. split; lra.
Qed.

Print Assumptions C19_model_is_sum.
Print Assumptions C19_zero.
Print Assumptions C19_zero_game.
Print Assumptions C19_sym.
Print Assumptions C19_sym_game.
Print Assumptions C19_nonneg.
Print Assumptions C19_pos.
Print Assumptions C19_zero_iff.
Print Assumptions C19_pos_game.
Print Assumptions C19_range.
Print Assumptions C19_range_game.
Print Assumptions C19_range_attained.
Print Assumptions C19_no_infosets.
Print Assumptions C19_small_p_refuted_all.
Print Assumptions C19_small_p_refuted.
Print Assumptions C19_small_p_threshold.
Print Assumptions C19_panics.
Print Assumptions C19_example.
