(** * C16 at binary64 — the clip decision and what is printed, for the executed instance itself.

    Statements only; proofs are in [theories/MiscFloat.v].  "With a clip threshold the pruned profile is
    printed exactly when its regret is strictly lower than the unpruned one, and what is printed is always
    a valid profile": at [FNum] the decision is the strict binary64 comparison of the two computed regrets
    (so a NaN regret on either side prints the unpruned profile), the printed numbers are [get_info] of the
    printed profile, and for a profile of finite entries in [0,1] and **every** float threshold — NaN and
    the infinities included — every printed probability is a finite number in (0,1]. *)
From Coq Require Import List ZArith Reals Floats Bool NArith.
From Flocq Require Import Core.
From Cfr.theories Require Import Num FInst Tree Strat Eval Cli TruncFloat MiscFloat.
Import ListNotations.
Local Open Scope R_scope.
Local Notation float := PrimFloat.float.

Theorem C16_binary64_pruned_iff_strictly_lower :
  forall (g : @game FNum) (sum clip : float) (prof : list float * list float),
  o_pruned (@cli_choose FNum g sum clip prof) = true <->
  PrimFloat.ltb (@si_regret FNum (@info FNum g (@truncate FNum g clip prof)))
                (@si_regret FNum (@info FNum g prof)) = true.
Proof. exact cli_float_pruned_iff. Qed.

Theorem C16_binary64_printed_profile :
  forall (g : @game FNum) (sum clip : float) (prof : list float * list float),
  o_prof (@cli_choose FNum g sum clip prof)
  = if PrimFloat.ltb (regret_trunc g clip prof) (regret_orig g prof)
    then @truncate FNum g clip prof else prof.
Proof. exact cli_float_prof. Qed.

Theorem C16_binary64_nan_regret_prints_unpruned :
  forall (g : @game FNum) (sum clip : float) (prof : list float * list float),
  PrimFloat.is_nan (regret_trunc g clip prof) = true \/
  PrimFloat.is_nan (regret_orig g prof) = true ->
  o_pruned (@cli_choose FNum g sum clip prof) = false /\
  o_prof (@cli_choose FNum g sum clip prof) = prof.
Proof. exact cli_float_nan_regret. Qed.

Theorem C16_binary64_numbers_are_info_of_printed :
  forall (g : @game FNum) (sum clip : float) (prof : list float * list float),
  let out := @cli_choose FNum g sum clip prof in
  let i := @info FNum g (o_prof out) in
  o_regret out = @si_regret FNum i /\ o_reg1 out = si_reg1 i /\ o_reg2 out = si_reg2 i /\
  o_util1 out = PrimFloat.add (si_util i) sum /\
  o_util2 out = PrimFloat.add (PrimFloat.opp (si_util i)) sum.
Proof. exact cli_float_output_is_info_of_printed. Qed.

Theorem C16_binary64_printed_valid_any_threshold :
  forall (g : @game FNum) (sum clip : float) (prof : list float * list float) (pl : bool),
  Forall fin01 (fst prof) -> Forall fin01 (snd prof) ->
  (Z.of_nat (length (fst prof)) < 2 ^ 53)%Z ->
  (Z.of_nat (length (snd prof)) < 2 ^ 53)%Z ->
  forall (name : N) (l : list (N * float)),
    In (name, l) (@printed_strategy FNum g pl (o_prof (@cli_choose FNum g sum clip prof))) ->
    forall (a : N) (p : float), In (a, p) l -> fin01 p /\ 0 < FR p.
Proof. exact cli_float_printed_strategy_valid. Qed.

Print Assumptions C16_binary64_pruned_iff_strictly_lower.
Print Assumptions C16_binary64_printed_profile.
Print Assumptions C16_binary64_nan_regret_prints_unpruned.
Print Assumptions C16_binary64_numbers_are_info_of_printed.
Print Assumptions C16_binary64_printed_valid_any_threshold.
