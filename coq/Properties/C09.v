(** * C09 — Early termination is exactly a shorter unthresholded run.

    Statements only; proofs are in [theories/LoopProofs.v].  The model functions are
    [Solve.solve_loop] / [Solve.solve_single] (the single-threaded loops of
    [solve/vanilla.rs] and [solve/external.rs]) read at the real-number instance.

    The early-termination test [max(b1,b2) < max_reg] is an arbitrary predicate
    [stop : R -> bool] applied to [Rmax b1 b2]: a real threshold [r] is
    [stop_at r = fun b => b <? r]; a NaN threshold is [never] (every comparison with
    NaN is false); [+inf] is constantly true, [-inf] is [never].  Every statement is
    for an arbitrary game, method, sampling oracle and parameter tuple; no
    well-formedness is needed.

    Vocabulary (defined in LoopProofs.v):
    - [never := fun _ => false];
    - [bound_at g m draw p t : option R] is [Rmax b1 b2] for the bounds returned by
      [solve_single g m draw p t never] ([None] for [t = 0]);
    - [fires stop ob] is [stop b] when [ob = Some b] and [false] when [ob = None];
    - [tstar g m draw p stop N] is the least [t] in [1..N] such that [stop] fires on
      the bound after [t] unthresholded iterations, or [N] if there is none
      ([C09_tstar_spec], [C09_tstar_least], [C09_tstar_none] characterise it
      independently of how it is computed). *)
From Coq Require Import Reals List NArith Bool Lra Lia.
From Cfr.theories Require Import Num RInst Tree Strat Eval Solve LoopProofs.
Import ListNotations.
Open Scope R_scope.

(** ** [tstar] is what the text says it is *)
Theorem C09_bound_at_def :
  forall g m draw p t,
    bound_at g m draw p t =
    match snd (fst (@solve_single RNum g m draw p t never)) with
    | Some (b1, b2) => Some (Rmax b1 b2)
    | None => None
    end.
Proof. reflexivity. Qed.

Theorem C09_fires_def :
  forall stop : R -> bool, fires stop None = false /\ forall b, fires stop (Some b) = stop b.
Proof. intros; split; reflexivity. Qed.

Theorem C09_tstar_spec :
  forall g m draw p (stop : R -> bool) N,
    let k := tstar g m draw p stop N in
    (k <= N)%nat /\ ((1 <= N)%nat -> (1 <= k)%nat) /\
    (forall j, (1 <= j < k)%nat -> fires stop (bound_at g m draw p j) = false) /\
    ((k < N)%nat -> fires stop (bound_at g m draw p k) = true).
Proof. exact tstar_spec. Qed.

Theorem C09_tstar_least :
  forall g m draw p (stop : R -> bool) N j,
    (1 <= j <= N)%nat -> fires stop (bound_at g m draw p j) = true ->
    (tstar g m draw p stop N <= j)%nat /\
    fires stop (bound_at g m draw p (tstar g m draw p stop N)) = true.
Proof. exact tstar_least. Qed.

Theorem C09_tstar_none :
  forall g m draw p (stop : R -> bool) N,
    (forall j, (1 <= j <= N)%nat -> fires stop (bound_at g m draw p j) = false) ->
    tstar g m draw p stop N = N.
Proof. exact tstar_none. Qed.

(** ** 1. A solve with test [stop] and budget [N] returns exactly (strategies, bounds
       AND iteration count) what the unthresholded solve returns with budget [tstar];
       the iteration count is [tstar]. *)
Theorem C09_early_stop_exact :
  forall g m draw p (stop : R -> bool) N,
    @solve_single RNum g m draw p N stop =
    @solve_single RNum g m draw p (tstar g m draw p stop N) never.
Proof. exact early_stop_exact. Qed.

Theorem C09_iterations_run :
  forall g m draw p (stop : R -> bool) N,
    snd (@solve_single RNum g m draw p N stop) = N.of_nat (tstar g m draw p stop N) /\
    snd (@solve_single RNum g m draw p (tstar g m draw p stop N) never) =
    N.of_nat (tstar g m draw p stop N).
Proof. intros; split; [apply early_stop_ran|apply solve_single_never_ran]. Qed.

(** the underlying statement about the loop from an arbitrary state *)
Theorem C09_loop_prefix :
  forall g m draw p (stop : R -> bool) rem it st regs ran,
    @solve_loop RNum g m draw p stop rem it st regs ran =
    @solve_loop RNum g m draw p never
      (first_fire (fun k => fires stop (bound_from g m draw p it st k)) rem 0) it st regs ran.
Proof. exact loop_stop_never. Qed.

(** ** 2. The budget is never exceeded; at least one iteration runs when [N >= 1];
       and whenever fewer than [N] iterations ran the returned bound passes the test
       (for [stop_at r]: it is strictly below [r]). *)
Theorem C09_budget_never_exceeded :
  forall g m draw p (stop : R -> bool) N strats regs ran,
    @solve_single RNum g m draw p N stop = (strats, regs, ran) ->
    (ran <= N.of_nat N)%N /\
    ((1 <= N)%nat -> (1 <= ran)%N /\ exists b1 b2, regs = Some (b1, b2)) /\
    ((ran < N.of_nat N)%N ->
     exists b1 b2, regs = Some (b1, b2) /\ stop (Rmax b1 b2) = true).
Proof. exact budget_never_exceeded. Qed.

Theorem C09_below_threshold_when_short :
  forall g m draw p (r : R) N strats regs ran,
    @solve_single RNum g m draw p N (@stop_at RNum r) = (strats, regs, ran) ->
    (ran < N.of_nat N)%N ->
    exists b1 b2, regs = Some (b1, b2) /\ Rmax b1 b2 < r.
Proof. exact below_threshold_when_short. Qed.

(** ** 3. Every returned bound is non-negative, hence a threshold that is zero,
       negative or NaN never shortens a run. *)
Theorem C09_iteration_bounds_nonneg :
  forall g m draw p it st st' r1 r2,
    (1 <= it)%N -> @one_iter RNum g m draw p it st = (st', (r1, r2)) -> 0 <= r1 /\ 0 <= r2.
Proof. exact one_iter_nonneg. Qed.

Theorem C09_bounds_nonneg :
  forall g m draw p (stop : R -> bool) N strats b1 b2 ran,
    @solve_single RNum g m draw p N stop = (strats, Some (b1, b2), ran) -> 0 <= b1 /\ 0 <= b2.
Proof. exact bounds_nonneg. Qed.

Theorem C09_nonpositive_threshold_never_stops :
  forall g m draw p (r : R) N,
    r <= 0 ->
    @solve_single RNum g m draw p N (@stop_at RNum r) = @solve_single RNum g m draw p N never.
Proof. exact nonpositive_threshold. Qed.

(** more generally: any test that is false on the non-negative numbers; the NaN
    threshold is [never] itself *)
Theorem C09_test_false_on_nonneg_never_stops :
  forall g m draw p (stop : R -> bool) N,
    (forall b, 0 <= b -> stop b = false) ->
    @solve_single RNum g m draw p N stop = @solve_single RNum g m draw p N never.
Proof. exact nonstop_on_nonneg. Qed.

Theorem C09_never_runs_full_budget :
  forall g m draw p N, snd (@solve_single RNum g m draw p N never) = N.of_nat N.
Proof. exact solve_single_never_ran. Qed.

(** ** Non-vacuity: one decision node of player one with payoffs 1 and 0, vanilla
    CFR, unsampled.  The bound after iterations 1 and 2 is 1 and 1/2, so with
    threshold 3/4 and budget 5 the run stops after iteration 2: [1 < tstar < N]. *)
Example C09_example :
  bound_at ex_game Full ex_draw p_vanilla 1 = Some 1 /\
  bound_at ex_game Full ex_draw p_vanilla 2 = Some (/ 2) /\
  tstar ex_game Full ex_draw p_vanilla (@stop_at RNum (3 / 4)) 5 = 2%nat /\
  snd (@solve_single RNum ex_game Full ex_draw p_vanilla 5 (@stop_at RNum (3 / 4))) = 2%N.
Proof. exact example_run. Qed.

Print Assumptions C09_bound_at_def.
Print Assumptions C09_fires_def.
Print Assumptions C09_tstar_spec.
Print Assumptions C09_tstar_least.
Print Assumptions C09_tstar_none.
Print Assumptions C09_early_stop_exact.
Print Assumptions C09_iterations_run.
Print Assumptions C09_loop_prefix.
Print Assumptions C09_budget_never_exceeded.
Print Assumptions C09_below_threshold_when_short.
Print Assumptions C09_iteration_bounds_nonneg.
Print Assumptions C09_bounds_nonneg.
Print Assumptions C09_nonpositive_threshold_never_stops.
Print Assumptions C09_test_false_on_nonneg_never_stops.
Print Assumptions C09_never_runs_full_budget.
Print Assumptions C09_example.
