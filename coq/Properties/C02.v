(** * C02 — The regret bound of an unsampled vanilla solve dominates the true regret.

    Statements only; proofs are in [theories/CfrSpec.v] (trajectory of the solver,
    cumulative regrets and strategies as sums over iterations), [theories/Decomposition.v]
    (the external regret against any pure strategy decomposes over the reachable infosets
    into the *model's own* cumulative counterfactual regrets), [theories/AvgRealisation.v]
    (the returned average strategy realises the average of the iterates against every
    opponent strategy, by perfect recall), [theories/BoundDominates.v] and
    [theories/BoundDominatesClosed.v] (with the best-response theorems of C01 plugged in).

    For every accepted game (hypotheses = what [from_root] guarantees, C11), every budget,
    every early-termination predicate — hence every threshold — and, by C06, every thread
    count and schedule: the total bound is never smaller than the true total regret of the
    returned profile; both player bounds are non-negative; a run that stopped early returns
    a profile whose true regret is below the threshold.  With C03 this also gives the
    true-regret rate for vanilla parameters (clause 2 of C03). *)
From Coq Require Import Reals List Bool NArith Lra.
From Cfr.theories Require Import Num RInst Tree GameWF Valid Strat Eval Solve SolveValidProofs LoopProofs
     EvalSpec CfrSpec Decomposition AvgRealisation BoundDominates BoundDominatesClosed CfMass CfrRate.
Import ListNotations.
Open Scope R_scope.

(** 1. the bound dominates the true regret; the per-player bounds are non-negative *)
Theorem C02_bound_dominates :
  forall (g : @game RNum) (draw : @oracle RNum) budget (stop : R -> bool) strats b1 b2 ran,
    WFgame g -> PerfectRecall g -> ChanceOK g ->
    @solve_single RNum g Full draw (@p_vanilla RNum) budget stop = (strats, Some (b1, b2), ran) ->
    @si_regret RNum (@info RNum g strats) <= Rmax b1 b2 /\ 0 <= b1 /\ 0 <= b2.
Proof. exact bound_dominates_closed. Qed.

Theorem C02_each_player :
  forall (g : @game RNum) (draw : @oracle RNum) budget (stop : R -> bool) strats b1 b2 ran,
    WFgame g -> PerfectRecall g -> ChanceOK g ->
    @solve_single RNum g Full draw (@p_vanilla RNum) budget stop = (strats, Some (b1, b2), ran) ->
    0 <= si_reg1 (@info RNum g strats) <= Rmax b1 b2 /\
    0 <= si_reg2 (@info RNum g strats) <= Rmax b1 b2.
Proof. exact bound_dominates_each_closed. Qed.

(** 2. early termination is sound: fewer than [budget] iterations => true regret below [r] *)
Theorem C02_early_stop_sound :
  forall (g : @game RNum) (draw : @oracle RNum) budget (r : R) strats b1 b2 ran,
    WFgame g -> PerfectRecall g -> ChanceOK g ->
    @solve_single RNum g Full draw (@p_vanilla RNum) budget (@stop_at RNum r) = (strats, Some (b1, b2), ran) ->
    (ran < N.of_nat budget)%N ->
    @si_regret RNum (@info RNum g strats) < r.
Proof. exact early_stop_sound_closed. Qed.

(** 3. with C03: the true regret of the returned profile obeys the CFR rate (vanilla) *)
Theorem C02_true_regret_rate_vanilla :
  forall (g : @game RNum) draw (lo hi : R) (A : nat) budget (stop : R -> bool) strats b1 b2 ran,
    WFgame g -> PerfectRecall g -> ChanceOK g -> PayoffsIn lo hi (g_root g) ->
    (forall pl, Forall (fun a => (a <= A)%nat) (arities g pl)) ->
    @solve_single RNum g Full draw (@p_vanilla RNum) budget stop = (strats, Some (b1, b2), ran) ->
    @si_regret RNum (@info RNum g strats) <=
    2 * (hi - lo) * INR (num_infosets g) * sqrt (INR A) / sqrt (INR (N.to_nat ran)).
Proof.
  intros g draw lo hi A budget stop strats b1 b2 ran H1 H2 H3 H4 H5 E.
  destruct (bound_dominates_closed g draw budget stop strats b1 b2 ran H1 H2 H3 E) as (Hd & _ & _).
  destruct (bound_rate_vanilla_div g draw lo hi A budget stop strats b1 b2 ran H1 H2 H3 H4 H5 E) as [Hb1 Hb2].
  eapply Rle_trans; [exact Hd|]. apply Rmax_lub; assumption.
Qed.

(** 4. the factor 2 in the reported bound cannot be dropped: a game on which half the
       returned bound is strictly below the true regret (while the bound itself dominates) *)
Theorem C02_factor_two_needed :
  forall draw : @oracle RNum,
  exists (g : @game RNum) (budget : nat) (stop : R -> bool) (strats : list R * list R) (b1 b2 : R) (ran : N),
    WFgame g /\ PerfectRecall g /\ ChanceOK g /\
    @solve_single RNum g Full draw (@p_vanilla RNum) budget stop = (strats, Some (b1, b2), ran) /\
    Rmax b1 b2 / 2 < @si_regret RNum (@info RNum g strats) /\
    @si_regret RNum (@info RNum g strats) <= Rmax b1 b2.
Proof. exact halved_bound_refuted_closed. Qed.

(** Non-vacuity: matching pennies. *)
Example C02_example :
  forall (draw : @oracle RNum) (budget : nat) (stop : R -> bool),
    (1 <= budget)%nat ->
    exists strats b1 b2 ran,
      @solve_single RNum SolveValidProofs.mp_game Full draw (@p_vanilla RNum) budget stop =
        (strats, Some (b1, b2), ran) /\
      @si_regret RNum (@info RNum SolveValidProofs.mp_game strats) <= Rmax b1 b2 /\ 0 <= b1 /\ 0 <= b2.
Proof. exact mp_bound_dominates_closed. Qed.

Print Assumptions C02_bound_dominates.
Print Assumptions C02_each_player.
Print Assumptions C02_early_stop_sound.
Print Assumptions C02_true_regret_rate_vanilla.
Print Assumptions C02_factor_two_needed.
Print Assumptions C02_example.
