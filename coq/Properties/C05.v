(** * C05 — Solving returns a valid profile and well-formed bounds.

    Statements only; proofs are in [theories/SolveValidProofs.v].  The model is
    [Solve.solve_single] (the single-threaded form of [solve/vanilla.rs] and
    [solve/external.rs] with the update rules of [solve/data.rs]), read at the
    real-number instance.  Covered here, for every method, every oracle of
    sampling decisions [draw], every iteration budget (zero included) and every
    early-termination predicate [stop] (hence every threshold, NaN and the
    infinities included):

    - the strategy produced by regret matching and the average strategy are
      probability distributions (1, 2);
    - a state invariant [Inv] (current strategy a distribution, cumulative strategy
      non-negative, the three vectors of an infoset of one non-zero length) holds
      initially and is kept by both traversals, by the discounting step, by one
      iteration of each method and by the loop (3); it needs no well-formedness of
      the game tree;
    - the returned profile is valid: every decision infoset of each player carries
      non-negative probabilities summing to one (4);
    - the bounds are absent ("infinite") exactly when no iteration ran and are
      non-negative otherwise; at most [budget] iterations run, at least one when
      the budget is positive (5).

    Termination ("never hangs") is by construction: the model is a Gallina
    function.  Threads, panics and finiteness of binary64 values are outside the
    real-number reading.

    [params_ok] (the acceptance test of [RegretParams::new]) turns out not to be
    needed for any of the invariants over the reals; the theorems that mention it
    are accompanied by the stronger form without it. *)
From Coq Require Import Reals List Bool Lra NArith.
From Cfr.theories Require Import Num RInst Tree GameWF Strat Eval Solve Valid SolveValidProofs SolveApi.
Import ListNotations.
Open Scope R_scope.

(** 1. Regret matching returns a distribution over the actions, in each of its
       branches: some positive regret; otherwise one-hot at the last maximum
       ([+inf]), uniform ([0]), one-hot at the first minimum ([-inf]), softmax
       (any other weight). *)
Theorem C05_regret_match_dist :
  forall (p : @params RNum) (cum_reg : list R),
    cum_reg <> [] ->
    VRow (@regret_match RNum p cum_reg) /\
    length (@regret_match RNum p cum_reg) = length cum_reg.
Proof.
  intros p cr H. split; [now apply regret_match_VRow|apply regret_match_length].
Qed.

(** 2. The average strategy of a non-negative cumulative strategy is a distribution
       (uniform when nothing was accumulated). *)
Theorem C05_avg_strat_dist :
  forall cs : list R,
    cs <> [] -> Forall (fun x => 0 <= x) cs ->
    VRow (@avg_strat RNum cs) /\ length (@avg_strat RNum cs) = length cs.
Proof.
  intros cs H1 H2. split; [now apply avg_strat_VRow|apply avg_strat_length].
Qed.

(** 3. The state invariant. *)
Theorem C05_Inv_meaning :
  forall st : @pstate RNum,
    Inv st <->
    forall ri, In ri (fst st ++ snd st) ->
      VRow (strat ri) /\ Forall (fun x => 0 <= x) (cum_strat ri) /\
      length (cum_regret ri) = length (strat ri) /\
      length (cum_strat ri) = length (strat ri) /\
      length (strat ri) <> 0%nat.
Proof. exact Inv_unfold. Qed.

Theorem C05_arities_pos_meaning :
  forall g : @game RNum,
    arities_pos g <-> forall pl, Forall (fun a => (1 <= a)%nat) (arities g pl).
Proof. intros g; reflexivity. Qed.

Theorem C05_inv_init :
  forall g : @game RNum, arities_pos g -> Inv (@init_state RNum g).
Proof. exact Inv_init. Qed.

(** the vanilla / chance-sampled traversal, from any node, with any non-negative
    reach probabilities of the two players *)
Theorem C05_inv_vrec :
  forall chance sampled draw pass (n : @node RNum) (pc p1 p2 : R) (st : @pstate RNum),
    0 <= p1 -> 0 <= p2 -> Inv st ->
    Inv (snd (@vrec RNum chance sampled draw pass n pc p1 p2 st)).
Proof. exact Inv_vrec. Qed.

(** the external-sampling traversal *)
Theorem C05_inv_erec :
  forall chance draw cpass ppass noff me (n : @node RNum) (st : @pstate RNum),
    Inv st -> Inv (snd (@erec RNum chance draw cpass ppass noff me n st)).
Proof. exact Inv_erec. Qed.

(** regret matching + discounting of every infoset of a player; any parameters,
    any iteration numbers *)
Theorem C05_inv_advance_all :
  forall (p : @params RNum) it it_avg (l : list (@rinfo RNum)) (acc : R),
    Forall RInv l -> Forall RInv (fst (@advance_all RNum p it it_avg l acc)).
Proof. exact Inv_advance_all. Qed.

Theorem C05_inv_one_iter :
  forall (g : @game RNum) (m : method) (draw : @oracle RNum) (p : @params RNum) (it : N)
         (st : @pstate RNum),
    Inv st -> Inv (fst (@one_iter RNum g m draw p it st)).
Proof. exact Inv_one_iter. Qed.

Theorem C05_cum_strat_nonneg :
  forall (g : @game RNum) (m : method) (draw : @oracle RNum) (p : @params RNum)
         (stop : R -> bool) (remaining : nat) (it : N) (st : @pstate RNum) regs ran,
    Inv st ->
    Inv (fst (fst (@solve_loop RNum g m draw p stop remaining it st regs ran))).
Proof. exact Inv_solve_loop. Qed.

(** the same invariant with the arities attached (what (4) uses): every infoset's
    vectors keep the length they started with *)
Theorem C05_inv_with_arities :
  forall a1 a2 (g : @game RNum) (m : method) (draw : @oracle RNum) (p : @params RNum)
         (stop : R -> bool) (remaining : nat) (it : N) (st : @pstate RNum) regs ran,
    InvA a1 a2 st ->
    InvA a1 a2 (fst (fst (@solve_loop RNum g m draw p stop remaining it st regs ran))).
Proof. exact solve_loop_inv. Qed.

(** 4. The returned profile is valid. *)
Theorem C05_solve_valid :
  forall (g : @game RNum) (m : method) (draw : @oracle RNum) (p : @params RNum)
         (budget : nat) (stop : R -> bool),
    @params_ok RNum p = true -> arities_pos g ->
    let '(prof, bounds, ran) := @solve_single RNum g m draw p budget stop in
    Valid g prof.
Proof.
  intros g m draw p budget stop _ Hg.
  pose proof (solve_single_valid g m draw p budget stop Hg) as H.
  destruct (solve_single g m draw p budget stop) as [[prof bounds] ran]. exact H.
Qed.

(** ... even for parameters the constructor rejects *)
Theorem C05_solve_valid_any_params :
  forall (g : @game RNum) (m : method) (draw : @oracle RNum) (p : @params RNum)
         (budget : nat) (stop : R -> bool),
    arities_pos g ->
    Valid g (fst (fst (@solve_single RNum g m draw p budget stop))).
Proof. exact solve_single_valid. Qed.

(** 5. The bounds and the iteration count. [None] is the code's initial
       [f64::INFINITY]. *)
Theorem C05_bound_shape :
  forall (g : @game RNum) (m : method) (draw : @oracle RNum) (p : @params RNum)
         (budget : nat) (stop : R -> bool),
    let '(prof, bounds, ran) := @solve_single RNum g m draw p budget stop in
    (bounds = None <-> budget = 0%nat) /\
    (forall b1 b2, bounds = Some (b1, b2) -> 0 <= b1 /\ 0 <= b2) /\
    (ran <= N.of_nat budget)%N /\
    (ran = 0%N <-> budget = 0%nat).
Proof.
  intros g m draw p budget stop.
  pose proof (solve_single_shape g m draw p budget stop) as H. cbv zeta in H.
  destruct (solve_single g m draw p budget stop) as [[prof bounds] ran]. exact H.
Qed.

(** without early termination exactly [budget] iterations run *)
Theorem C05_no_early_stop :
  forall (g : @game RNum) (m : method) (draw : @oracle RNum) (p : @params RNum)
         (budget : nat) (stop : R -> bool),
    (forall b, stop b = false) ->
    snd (@solve_single RNum g m draw p budget stop) = N.of_nat budget.
Proof. exact solve_single_no_stop. Qed.

(** Non-vacuity: matching pennies ([mp_game], two infosets of two actions, defined
    in the proof file), the default parameters, and an instance of (4) on it. *)
Example C05_example_hyps :
  arities_pos mp_game /\ @params_ok RNum (@p_default RNum) = true /\
  @params_ok RNum (@p_vanilla RNum) = true.
Proof.
  split; [intros [|]; repeat constructor|].
  split; apply Rleb_true; cbn [two add one zero RNum]; lra.
Qed.

Example C05_example_instance :
  forall draw,
    Valid mp_game (fst (fst (@solve_single RNum mp_game External draw (@p_default RNum) 5
                                           (@stop_at RNum (1/100))))).
Proof. intros draw. apply C05_solve_valid_any_params. apply C05_example_hyps. Qed.

(** 6. The dispatch of [Game::solve] ([theories/SolveApi.v]): the documented thread-count
       error is returned exactly when the thread count is not one and three times it does not
       fit in 64 bits; one thread never errors; and for every other thread count, machine
       parallelism, schedule of the workers' atomic updates and reduction order, the call
       returns what the single-threaded solver returns (C06, C07) — so 4 and 5 hold for every
       thread count.  (Thread creation failing in the OS is runtime behaviour, not model.) *)
Theorem C05_thread_overflow_iff :
  forall (g : @game RNum) m draw p budget stop num_threads par s,
    solve_api g m draw p budget stop num_threads par s = ApiThreadOverflow <->
    (effective_threads num_threads par <> 1 /\ 2 ^ 64 <= 3 * effective_threads num_threads par)%N.
Proof. exact solve_api_overflow_iff. Qed.

Theorem C05_one_thread_never_errors :
  forall (g : @game RNum) m draw p budget stop par s,
    solve_api g m draw p budget stop 1 par s = ApiOk (@solve_single RNum g m draw p budget stop).
Proof. exact solve_api_one_thread. Qed.

Theorem C05_every_thread_count_valid :
  forall (g : @game RNum) m draw p budget stop num_threads par s strats regs ran,
    WFgame g -> arities_pos g -> schedules_ok s ->
    solve_api g m draw p budget stop num_threads par s = ApiOk (strats, regs, ran) ->
    Valid g strats /\ @solve_single RNum g m draw p budget stop = (strats, regs, ran).
Proof.
  intros g m draw p budget stop num_threads par s strats regs ran HWF Hpos Hs E.
  pose proof (solve_api_valid g m draw p budget stop num_threads par s strats regs ran HWF Hs E) as E1.
  split; [|exact E1].
  pose proof (solve_single_valid g m draw p budget stop Hpos) as HV. rewrite E1 in HV. exact HV.
Qed.

Print Assumptions C05_regret_match_dist.
Print Assumptions C05_avg_strat_dist.
Print Assumptions C05_Inv_meaning.
Print Assumptions C05_arities_pos_meaning.
Print Assumptions C05_inv_init.
Print Assumptions C05_inv_vrec.
Print Assumptions C05_inv_erec.
Print Assumptions C05_inv_advance_all.
Print Assumptions C05_inv_one_iter.
Print Assumptions C05_cum_strat_nonneg.
Print Assumptions C05_inv_with_arities.
Print Assumptions C05_solve_valid.
Print Assumptions C05_solve_valid_any_params.
Print Assumptions C05_bound_shape.
Print Assumptions C05_no_early_stop.
Print Assumptions C05_example_hyps.
Print Assumptions C05_example_instance.
Print Assumptions C05_thread_overflow_iff.
Print Assumptions C05_one_thread_never_errors.
Print Assumptions C05_every_thread_count_valid.
