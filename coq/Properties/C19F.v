(** * C19 at binary64 — the distance computed by the executed instance itself.

    Statements only; proofs are in [theories/DistFloat.v] (through Flocq, on top of
    [theories/TruncFloat.v]).  About [@dist_sum FNum] / [@distance_player FNum] / [@distance FNum]:
    - symmetry holds **bit for bit**, for every exponent (even NaN) and all lists;
    - the distance of a finite profile to itself is exactly [+0] for every exponent [p > 0];
    - for the exponents 1 and 2 (where the model's [pow] is the identity / the product) the distance
      of two profiles with entries in [0,1] is finite, non-negative, the correctly rounded quotient,
      and at most [1 + (2m+2) * 2^-53] when the rows sum to at most one each.
    (For a general exponent the Rust code calls libm's [powf], the model its own [fpow]; no claim.) *)
From Coq Require Import List ZArith Reals Floats Bool.
From Flocq Require Import Core.
From Cfr.theories Require Import Num FInst Tree Strat TruncFloat DistFloat.
Import ListNotations.
Local Open Scope R_scope.
Local Notation float := PrimFloat.float.

Theorem C19_binary64_symmetric : forall (g : @game FNum) (p : float) (a b : list float * list float),
  @distance FNum g p a b = @distance FNum g p b a.
Proof. exact distance_float_sym. Qed.

Theorem C19_binary64_sum_symmetric : forall (p : float) (l r : list float),
  @dist_sum FNum p l r = @dist_sum FNum p r l.
Proof. exact dist_sum_float_sym. Qed.

Theorem C19_binary64_zero_on_equal : forall (p : float) (n : nat) (l : list float),
  ltb FNum (zero FNum) p = true -> Forall Ffin l -> (Z.of_nat n < 2 ^ 52)%Z ->
  @distance_player FNum p n l l = 0%float.
Proof. exact distance_player_float_self. Qed.

Theorem C19_binary64_range_p1 : forall (n : nat) (l r : list float),
  Forall fin01 l -> Forall fin01 r ->
  (Z.of_nat (length l) < 2 ^ 52)%Z -> (1 <= n)%nat -> (Z.of_nat n < 2 ^ 52)%Z ->
  let S := @dist_sum FNum 1%float l r in
  let d := @distance_player FNum 1%float n l r in
  Ffin S /\ 0 <= FR S <= INR (length l) /\
  Ffin d /\ 0 <= FR d /\
  FR d = rnd (FR S / (2 * INR n)) /\
  FR d <= (RS l + RS r) / (2 * INR n) * (1 + dist_eps (length l)) + bpow radix2 (-1075) /\
  (RS l + RS r <= 2 * INR n -> FR d <= 1 + dist_eps (length l)).
Proof. exact distance_player_float_1. Qed.

Theorem C19_binary64_range_p2 : forall (n : nat) (l r : list float),
  Forall fin01 l -> Forall fin01 r ->
  (Z.of_nat (length l) < 2 ^ 52)%Z -> (1 <= n)%nat -> (Z.of_nat n < 2 ^ 52)%Z ->
  let S := @dist_sum FNum 2%float l r in
  let d := @distance_player FNum 2%float n l r in
  Ffin S /\ 0 <= FR S <= INR (length l) /\
  Ffin d /\ 0 <= FR d /\
  FR d = rnd (FR S / (2 * INR n)) /\
  FR d <= (RS l + RS r) / (2 * INR n) * (1 + dist_eps (length l)) + bpow radix2 (-1075) /\
  (RS l + RS r <= 2 * INR n -> FR d <= 1 + dist_eps (length l)).
Proof. exact distance_player_float_2. Qed.

Theorem C19_binary64_never_nan : forall (g : @game FNum) (p : float) (a b : list float * list float),
  p = 1%float \/ p = 2%float ->
  Forall fin01 (fst a) -> Forall fin01 (fst b) -> Forall fin01 (snd a) -> Forall fin01 (snd b) ->
  (Z.of_nat (length (fst a)) < 2 ^ 52)%Z -> (Z.of_nat (length (snd a)) < 2 ^ 52)%Z ->
  (Z.of_nat (length (g_infos1 g)) < 2 ^ 52)%Z -> (Z.of_nat (length (g_infos2 g)) < 2 ^ 52)%Z ->
  exists d1 d2, @distance FNum g p a b = Some (d1, d2) /\
    Ffin d1 /\ 0 <= FR d1 /\ Ffin d2 /\ 0 <= FR d2.
Proof. exact distance_float_valid. Qed.

Print Assumptions C19_binary64_symmetric.
Print Assumptions C19_binary64_sum_symmetric.
Print Assumptions C19_binary64_zero_on_equal.
Print Assumptions C19_binary64_range_p1.
Print Assumptions C19_binary64_range_p2.
Print Assumptions C19_binary64_never_nan.
