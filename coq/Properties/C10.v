(** * C10 (last clause) — the categorical sampler returns index [k] exactly when its
    uniform variate lies in the k-th cumulative-probability interval.

    Statements only; proofs are in [theories/SolveValidProofs.v].  The model is
    [Solve.categorical] (= [Multinomial::sample] of [solve/multinomial.rs]: walk
    over all but the last probability, subtracting from the variate while the
    entry is strictly below what remains), read at the real-number instance.

    [cumul probs k] is the k-th partial sum [c_k = p_0 + ... + p_(k-1)].  Index [k]
    is returned exactly when [c_k < u <= c_(k+1)], where the first interval has no
    lower end (so [u = 0], which the generator can produce, selects index 0 even
    when [p_0 = 0]) and the last interval has no upper end (the last probability
    is never read). *)
From Coq Require Import Reals List Bool Lra Lia.
From Cfr.theories Require Import Num RInst Tree Strat Eval Solve Valid SolveValidProofs.
Import ListNotations.
Open Scope R_scope.

Theorem C10_cumul_meaning :
  forall (probs : list R) (k : nat), cumul probs k = Rsum (firstn k probs).
Proof. reflexivity. Qed.

(** the k-th interval has length [p_k] *)
Theorem C10_interval_measure :
  forall (probs : list R) (k : nat),
    (k < length probs)%nat -> cumul probs (S k) - cumul probs k = nth k probs 0.
Proof. intros probs k H. rewrite (cumul_S probs k H). lra. Qed.

(** the specification, for any real variate and any non-negative weights (they
    need not sum to one) *)
Theorem C10_categorical_spec :
  forall (probs : list R) (u : R) (k : nat),
    probs <> [] -> Forall (fun x => 0 <= x) probs ->
    (@categorical RNum probs u = k <->
     (k <= length probs - 1)%nat /\
     (k = 0%nat \/ cumul probs k < u) /\
     (k = (length probs - 1)%nat \/ u <= cumul probs (S k))).
Proof. exact categorical_spec. Qed.

(** without any assumption on the entries: every earlier partial sum is below [u] *)
Theorem C10_categorical_spec_general :
  forall (probs : list R) (u : R) (k : nat),
    probs <> [] ->
    (@categorical RNum probs u = k <->
     (k <= length probs - 1)%nat /\
     (forall j, (j < k)%nat -> cumul probs (S j) < u) /\
     (k = (length probs - 1)%nat \/ u <= cumul probs (S k))).
Proof. exact categorical_spec_general. Qed.

(** for a distribution and a variate in (0, 1]: exactly the k-th interval *)
Theorem C10_categorical_interval :
  forall (probs : list R) (u : R) (k : nat),
    VRow probs -> 0 < u <= 1 ->
    (@categorical RNum probs u = k <->
     (k < length probs)%nat /\ cumul probs k < u <= cumul probs (S k)).
Proof. exact categorical_interval. Qed.

(** the left end: a variate at zero selects the first entry *)
Theorem C10_categorical_at_zero :
  forall (probs : list R) (u : R),
    probs <> [] -> Forall (fun x => 0 <= x) probs -> u <= 0 ->
    @categorical RNum probs u = 0%nat.
Proof. exact categorical_at_zero. Qed.

(** the result is always an index of the row *)
Theorem C10_categorical_range :
  forall (probs : list R) (u : R),
    probs <> [] -> (@categorical RNum probs u < length probs)%nat.
Proof. exact categorical_range. Qed.

(** Examples: the row (1/2, 1/4, 1/4) has intervals [.., 1/2], (1/2, 3/4], (3/4, ..). *)
Example C10_example_row : VRow [/2; /4; /4].
Proof. split; [repeat constructor; lra|cbn [Rsum]; lra]. Qed.

Example C10_example_first : @categorical RNum [/2; /4; /4] (/4) = 0%nat.
Proof. unfold categorical; cbn [removelast]. rewrite cat_step_ge by lra. reflexivity. Qed.

Example C10_example_first_closed : @categorical RNum [/2; /4; /4] (/2) = 0%nat.
Proof. unfold categorical; cbn [removelast]. rewrite cat_step_ge by lra. reflexivity. Qed.

Example C10_example_second : @categorical RNum [/2; /4; /4] (6/10) = 1%nat.
Proof.
  unfold categorical; cbn [removelast].
  rewrite cat_step_lt by lra. rewrite cat_step_ge by lra. reflexivity.
Qed.

Example C10_example_second_closed : @categorical RNum [/2; /4; /4] (3/4) = 1%nat.
Proof.
  unfold categorical; cbn [removelast].
  rewrite cat_step_lt by lra. rewrite cat_step_ge by lra. reflexivity.
Qed.

Example C10_example_third : @categorical RNum [/2; /4; /4] (9/10) = 2%nat.
Proof.
  unfold categorical; cbn [removelast].
  rewrite cat_step_lt by lra. rewrite cat_step_lt by lra. apply cat_step_nil.
Qed.

(** the same through the specification *)
Example C10_example_via_spec : @categorical RNum [/2; /4; /4] (6/10) = 1%nat.
Proof.
  apply C10_categorical_interval; [exact C10_example_row|lra|].
  split; [cbn [length]; lia|]. rewrite !C10_cumul_meaning. cbn [firstn Rsum]. lra.
Qed.

Print Assumptions C10_cumul_meaning.
Print Assumptions C10_interval_measure.
Print Assumptions C10_categorical_spec.
Print Assumptions C10_categorical_spec_general.
Print Assumptions C10_categorical_interval.
Print Assumptions C10_categorical_at_zero.
Print Assumptions C10_categorical_range.
Print Assumptions C10_example_third.
Print Assumptions C10_example_via_spec.
