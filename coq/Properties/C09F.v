(** * C09F — Early termination is exactly a shorter unthresholded run, for EVERY
    number type ([C09_generic_*], closed under the global context), in particular
    for the executed binary64 instance ([C09F_*], resting on Floats.FloatAxioms
    [ltb_spec], [eqb_spec], [SF2Prim_Prim2SF] for the NaN facts only).

    Statements only; proofs are in [theories/LoopGeneric.v].  [NN : Num] is
    arbitrary (no law of arithmetic or order is assumed), [stop : T NN -> bool] is an
    arbitrary test on the total bound [fmax NN b1 b2].

    Vocabulary (LoopGeneric.v; the [RNum] instances coincide with LoopProofs.v, see
    [C09_generic_agrees_with_real]):
    - [Gnever := fun _ => false];
    - [Gbound_at g m draw p t] is [fmax NN b1 b2] for the bounds returned by
      [solve_single g m draw p t Gnever] ([None] for [t = 0]);
    - [Gfires stop ob] is [stop b] when [ob = Some b], [false] when [ob = None];
    - [Gtstar g m draw p stop N] is the least [t] in [1..N] such that [stop] fires
      on the bound after [t] unthresholded iterations, or [N]. *)
From Coq Require Import List NArith Bool Lia Floats.
From Cfr.theories Require Import Num FInst Tree Strat Eval Solve LoopGeneric.
From Cfr.theories Require RInst LoopProofs.
Import ListNotations.

Theorem C09_generic_bound_at_def :
  forall (NN : Num) g m draw p t,
    @Gbound_at NN g m draw p t =
    match snd (fst (@solve_single NN g m draw p t Gnever)) with
    | Some (b1, b2) => Some (fmax NN b1 b2)
    | None => None
    end.
Proof. reflexivity. Qed.

Theorem C09_generic_fires_def :
  forall (NN : Num) (stop : T NN -> bool),
    Gfires stop None = false /\ forall b, Gfires stop (Some b) = stop b.
Proof. intros; split; reflexivity. Qed.

Theorem C09_generic_tstar_spec :
  forall (NN : Num) g m draw p (stop : T NN -> bool) N,
    let k := Gtstar g m draw p stop N in
    (k <= N)%nat /\ ((1 <= N)%nat -> (1 <= k)%nat) /\
    (forall j, (1 <= j < k)%nat -> Gfires stop (Gbound_at g m draw p j) = false) /\
    ((k < N)%nat -> Gfires stop (Gbound_at g m draw p k) = true).
Proof. exact @Gtstar_spec. Qed.

Theorem C09_generic_tstar_least :
  forall (NN : Num) g m draw p (stop : T NN -> bool) N j,
    (1 <= j <= N)%nat -> Gfires stop (Gbound_at g m draw p j) = true ->
    (Gtstar g m draw p stop N <= j)%nat /\
    Gfires stop (Gbound_at g m draw p (Gtstar g m draw p stop N)) = true.
Proof. exact @Gtstar_least. Qed.

Theorem C09_generic_tstar_none :
  forall (NN : Num) g m draw p (stop : T NN -> bool) N,
    (forall j, (1 <= j <= N)%nat -> Gfires stop (Gbound_at g m draw p j) = false) ->
    Gtstar g m draw p stop N = N.
Proof. exact @Gtstar_none. Qed.

(** ** 1. thresholded run = unthresholded run of budget [Gtstar] *)
Theorem C09_generic_early_stop_exact :
  forall (NN : Num) g m draw p (stop : T NN -> bool) N,
    @solve_single NN g m draw p N stop =
    @solve_single NN g m draw p (Gtstar g m draw p stop N) Gnever.
Proof. exact @Gearly_stop_exact. Qed.

Theorem C09_generic_iterations_run :
  forall (NN : Num) g m draw p (stop : T NN -> bool) N,
    snd (@solve_single NN g m draw p N stop) = N.of_nat (Gtstar g m draw p stop N) /\
    snd (@solve_single NN g m draw p (Gtstar g m draw p stop N) Gnever) =
    N.of_nat (Gtstar g m draw p stop N).
Proof. exact @Giterations_run. Qed.

Theorem C09_generic_loop_prefix :
  forall (NN : Num) g m draw p (stop : T NN -> bool) rem it st regs ran,
    @solve_loop NN g m draw p stop rem it st regs ran =
    @solve_loop NN g m draw p Gnever
      (Gfirst_fire (fun k => Gfires stop (Gbound_from g m draw p it st k)) rem 0) it st regs ran.
Proof. exact @Gloop_stop_never. Qed.

(** ** 2. budget *)
Theorem C09_generic_budget_never_exceeded :
  forall (NN : Num) g m draw p (stop : T NN -> bool) N strats regs ran,
    @solve_single NN g m draw p N stop = (strats, regs, ran) ->
    (ran <= N.of_nat N)%N /\
    ((1 <= N)%nat -> (1 <= ran)%N /\ exists b1 b2, regs = Some (b1, b2)) /\
    ((ran < N.of_nat N)%N ->
     exists b1 b2, regs = Some (b1, b2) /\ stop (fmax NN b1 b2) = true).
Proof. exact @Gbudget_never_exceeded. Qed.

Theorem C09_generic_below_threshold_when_short :
  forall (NN : Num) g m draw p (stop : T NN -> bool) N strats regs ran,
    @solve_single NN g m draw p N stop = (strats, regs, ran) ->
    (ran < N.of_nat N)%N ->
    exists b1 b2, regs = Some (b1, b2) /\ stop (fmax NN b1 b2) = true.
Proof. exact @Gbelow_threshold_when_short. Qed.

Theorem C09_generic_below_threshold_when_short_at :
  forall (NN : Num) g m draw p (r : T NN) N strats regs ran,
    @solve_single NN g m draw p N (@stop_at NN r) = (strats, regs, ran) ->
    (ran < N.of_nat N)%N ->
    exists b1 b2, regs = Some (b1, b2) /\ ltb NN (fmax NN b1 b2) r = true.
Proof. exact @Gbelow_threshold_when_short_at. Qed.

(** ** 3. a test that never fires never shortens a run *)
Theorem C09_generic_never_stops :
  forall (NN : Num) g m draw p (stop : T NN -> bool) N,
    (forall b, stop b = false) ->
    @solve_single NN g m draw p N stop = @solve_single NN g m draw p N Gnever.
Proof. exact @Gnever_stops. Qed.

Theorem C09_generic_never_fires_never_stops :
  forall (NN : Num) g m draw p (stop : T NN -> bool) N,
    (forall j, (1 <= j <= N)%nat -> Gfires stop (Gbound_at g m draw p j) = false) ->
    @solve_single NN g m draw p N stop = @solve_single NN g m draw p N Gnever.
Proof. exact @Gnever_fires_never_stops. Qed.

Theorem C09_generic_never_runs_full_budget :
  forall (NN : Num) g m draw p N, snd (@solve_single NN g m draw p N Gnever) = N.of_nat N.
Proof. exact @Gsolve_single_never_ran. Qed.

Theorem C09_generic_test_extensional :
  forall (NN : Num) g m draw p (stop stop' : T NN -> bool) N,
    (forall b, stop b = stop' b) ->
    @solve_single NN g m draw p N stop = @solve_single NN g m draw p N stop'.
Proof. exact @Gsolve_single_ext. Qed.

(** the generic vocabulary at [RNum] is the vocabulary of C09.v *)
Theorem C09_generic_agrees_with_real :
  @Gnever RInst.RNum = LoopProofs.never /\
  @Gfires RInst.RNum = LoopProofs.fires /\
  (forall g m draw p t, @Gbound_at RInst.RNum g m draw p t = LoopProofs.bound_at g m draw p t) /\
  (forall g m draw p stop N, @Gtstar RInst.RNum g m draw p stop N = LoopProofs.tstar g m draw p stop N).
Proof.
  split; [exact Gnever_RNum|]. split; [exact Gfires_RNum|].
  split; [exact Gbound_at_RNum|exact Gtstar_RNum].
Qed.

(** ** binary64: the executed instance, test [max(b1,b2) < r] *)
Theorem C09F_stop_at_is_ltb :
  forall r : float, @stop_at FNum r = (fun b => PrimFloat.ltb b r) /\ fmax FNum = f_max.
Proof. intros; split; reflexivity. Qed.

Theorem C09F_early_stop_exact :
  forall (g : @game FNum) m draw p (r : float) N,
    @solve_single FNum g m draw p N (fun b => PrimFloat.ltb b r) =
    @solve_single FNum g m draw p (Gtstar g m draw p (fun b => PrimFloat.ltb b r) N) Gnever.
Proof. exact F_early_stop_exact. Qed.

Theorem C09F_iterations_run :
  forall (g : @game FNum) m draw p (r : float) N,
    snd (@solve_single FNum g m draw p N (fun b => PrimFloat.ltb b r)) =
    N.of_nat (Gtstar g m draw p (fun b => PrimFloat.ltb b r) N).
Proof. exact F_iterations_run. Qed.

Theorem C09F_tstar_spec :
  forall (g : @game FNum) m draw p (r : float) N,
    let k := Gtstar g m draw p (fun b => PrimFloat.ltb b r) N in
    (k <= N)%nat /\ ((1 <= N)%nat -> (1 <= k)%nat) /\
    (forall j, (1 <= j < k)%nat ->
               @Gfires FNum (fun b => PrimFloat.ltb b r) (Gbound_at g m draw p j) = false) /\
    ((k < N)%nat -> @Gfires FNum (fun b => PrimFloat.ltb b r) (Gbound_at g m draw p k) = true).
Proof. exact F_tstar_spec. Qed.

Theorem C09F_budget_never_exceeded :
  forall (g : @game FNum) m draw p (r : float) N strats regs ran,
    @solve_single FNum g m draw p N (fun b => PrimFloat.ltb b r) = (strats, regs, ran) ->
    (ran <= N.of_nat N)%N /\
    ((1 <= N)%nat -> (1 <= ran)%N /\ exists b1 b2, regs = Some (b1, b2)) /\
    ((ran < N.of_nat N)%N ->
     exists b1 b2, regs = Some (b1, b2) /\ PrimFloat.ltb (f_max b1 b2) r = true).
Proof. exact F_budget_never_exceeded. Qed.

Theorem C09F_below_threshold_when_short :
  forall (g : @game FNum) m draw p (r : float) N strats regs ran,
    @solve_single FNum g m draw p N (fun b => PrimFloat.ltb b r) = (strats, regs, ran) ->
    (ran < N.of_nat N)%N ->
    exists b1 b2, regs = Some (b1, b2) /\ PrimFloat.ltb (f_max b1 b2) r = true /\
                  f_is_nan (f_max b1 b2) = false /\ f_is_nan r = false.
Proof. exact F_below_threshold_when_short. Qed.

Theorem C09F_ltb_nan :
  forall b : float, PrimFloat.ltb b nan = false.
Proof. exact F_ltb_nan_r. Qed.

Theorem C09F_is_nan_spec :
  forall r : float, f_is_nan r = true <-> r = nan.
Proof. exact F_is_nan_spec. Qed.

Theorem C09F_nan_threshold_never_stops :
  forall (g : @game FNum) m draw p N,
    @solve_single FNum g m draw p N (fun b => PrimFloat.ltb b nan) =
    @solve_single FNum g m draw p N Gnever.
Proof. exact F_nan_threshold_never_stops. Qed.

Theorem C09F_is_nan_threshold_never_stops :
  forall (g : @game FNum) m draw p (r : float) N,
    f_is_nan r = true ->
    @solve_single FNum g m draw p N (fun b => PrimFloat.ltb b r) =
    @solve_single FNum g m draw p N Gnever /\
    snd (@solve_single FNum g m draw p N (fun b => PrimFloat.ltb b r)) = N.of_nat N /\
    Gtstar g m draw p (fun b => PrimFloat.ltb b r) N = N.
Proof. exact F_is_nan_threshold_never_stops. Qed.

Theorem C09F_nan_bound_does_not_fire :
  forall r b : float,
    f_is_nan b = true -> @Gfires FNum (fun x => PrimFloat.ltb x r) (Some b) = false.
Proof. exact F_nan_bound_does_not_fire. Qed.

Print Assumptions C09_generic_bound_at_def.
Print Assumptions C09_generic_fires_def.
Print Assumptions C09_generic_tstar_spec.
Print Assumptions C09_generic_tstar_least.
Print Assumptions C09_generic_tstar_none.
Print Assumptions C09_generic_early_stop_exact.
Print Assumptions C09_generic_iterations_run.
Print Assumptions C09_generic_loop_prefix.
Print Assumptions C09_generic_budget_never_exceeded.
Print Assumptions C09_generic_below_threshold_when_short.
Print Assumptions C09_generic_below_threshold_when_short_at.
Print Assumptions C09_generic_never_stops.
Print Assumptions C09_generic_never_fires_never_stops.
Print Assumptions C09_generic_never_runs_full_budget.
Print Assumptions C09_generic_test_extensional.
Print Assumptions C09_generic_agrees_with_real.
Print Assumptions C09F_stop_at_is_ltb.
Print Assumptions C09F_early_stop_exact.
Print Assumptions C09F_iterations_run.
Print Assumptions C09F_tstar_spec.
Print Assumptions C09F_budget_never_exceeded.
Print Assumptions C09F_below_threshold_when_short.
Print Assumptions C09F_ltb_nan.
Print Assumptions C09F_is_nan_spec.
Print Assumptions C09F_nan_threshold_never_stops.
Print Assumptions C09F_is_nan_threshold_never_stops.
Print Assumptions C09F_nan_bound_does_not_fire.
