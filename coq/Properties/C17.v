(** * C17 — The CLI rejects malformed or unsupported input instead of solving it.

    Statements only; proofs are in [theories/CliNamesProofs.v],
    [theories/CliGambitProofs.v], [theories/CliProofs.v].  PARTIAL by nature: the model
    starts from the *parsed* file, so malformed text, missing fields and a player count
    other than two (rejected by [serde_json], [gambit-parser] and the first lines of
    [gambit::from_str]) are outside it and are decided by the check's corruption stream.
    What is proved is the semantic layer: the reader's outcome is exactly one of
    [Loaded (game, constant)] and [Rejected category], each category holds iff the
    documented defect is present, a rejection never produces a game, and a game error is
    one that [from_root] reports (whose blame is C11_blame). *)
From Coq Require Import Reals List Bool NArith.
From Coq Require Import String.
From Cfr.theories Require Import Num RInst Tree Solve Cli CliProofs CliNamesProofs CliGambitProofs CliExamples SolveApi CliRun CliRoute.
Import ListNotations.
Open Scope R_scope.

(** 1. totality and disjointness: a rejection never produces a result *)
Theorem C17_gambit_total :
  forall (numname : N -> N) (root : @enode RNum),
    (exists g s, gambit_load numname root = Loaded (g, s)) \/
    (exists r, gambit_load numname root = Rejected r).
Proof. exact gambit_load_total. Qed.

Theorem C17_rejected_no_result :
  forall (numname : N -> N) (root : @enode RNum) (r : reject),
    gambit_load numname root = Rejected r ->
    forall g s, gambit_load numname root <> Loaded (g, s).
Proof. exact gambit_load_rejected_no_result. Qed.

(** 2. not constant-sum: exactly the documented 0.1 % rule *)
Theorem C17_not_constant_sum_iff :
  forall (numname : N -> N) (root : @enode RNum),
    gambit_tree numname root = Rejected RNotConstantSum <->
    names_fine numname root /\
    (exists cs, @scan_sums RNum (own_pairs root) = Some cs /\
                (cs_max cs - cs_min cs) * 1000 > cs_omax cs - cs_omin cs).
Proof. exact gambit_not_constant_sum_iff. Qed.

(** 3. conflicting infoset names: the numeric fallback of an unnamed infoset is another
       infoset's name, or two infosets of one player end up with one name *)
Theorem C17_duplicate_infosets_iff :
  forall (numname : N -> N) (root : @enode RNum),
    gambit_tree numname root = Rejected RDuplicateInfosets <->
    (exists me, numeric_clash numname me root \/ same_name_clash numname me root).
Proof. exact gambit_duplicate_iff. Qed.

(** ... per player: the two players' name spaces are separate *)
Theorem C17_name_spaces_separate :
  forall (numname : N -> N) (root root' : @enode RNum),
    erase_names false root = erase_names false root' ->
    final_names numname true root = final_names numname true root'.
Proof. intros numname root root'. exact (final_names_separate numname root root'). Qed.

(** 4. non-finite payoffs: over the reals every payoff is finite, so this category is
       empty for every parsed file (the binary64 instance executes the [is_finite] test) *)
Theorem C17_nonfinite_never_over_R :
  forall (numname : N -> N) (root : @enode RNum),
    eproper root -> gambit_tree numname root <> Rejected RNonFinite.
Proof. exact gambit_never_nonfinite. Qed.

(** 5. a tree violating the library contract: exactly what [from_root] refuses *)
Theorem C17_game_error_iff :
  forall (numname : N -> N) (root : @enode RNum) (e : gerr),
    gambit_load numname root = Rejected (RGame e) <->
    (exists t s, gambit_tree numname root = Loaded (t, s) /\ from_root t = Err e).
Proof. exact gambit_load_game_error_iff. Qed.

Theorem C17_json_rejected :
  forall (j : @jnode RNum) (r : reject),
    json_load j = Rejected r -> exists e, r = RGame e /\ from_root (json_to_gnode j) = Err e.
Proof. exact json_load_rejected. Qed.

(** Non-vacuity: infoset 2 unnamed while infoset 1 is named with the string of 2. *)
Example C17_example : gambit_load ex_numname ex_clash = Rejected RDuplicateInfosets.
Proof. exact ex_clash_rejected. Qed.

(** 9. the whole program prints a result object only for an input that some reader parsed AND the
    semantic layer loaded: a text neither parser accepts, or a parsed file that is rejected,
    prints nothing on every route, with every option (the text parsers are arbitrary functions) *)
Theorem C17_never_solves_what_it_cannot_represent :
  forall (Text JFile GFile : Type) (pj : Text -> option JFile) (pg : Text -> option GFile)
         (lj : JFile -> loaded (@game RNum * R)) (lg : GFile -> loaded (@game RNum * R))
         (a : args) (t : Text) (input : option string) (f : input_format) draw par s out g,
    cli_main pj pg lj lg a input f t draw par s = Some (out, g) ->
    exists sum, cli_load pj pg lj lg input f t = Parsed (Loaded (g, sum)).
Proof. intros until g. apply main_some_loaded. Qed.

Theorem C17_bad_input_prints_nothing :
  forall (Text JFile GFile : Type) (pj : Text -> option JFile) (pg : Text -> option GFile)
         (lj : JFile -> loaded (@game RNum * R)) (lg : GFile -> loaded (@game RNum * R))
         (a : args) (t : Text) (input : option string) (f : input_format) draw par s,
    (pj t = None /\ pg t = None) \/ (exists r, cli_load pj pg lj lg input f t = Parsed (Rejected r)) ->
    cli_main pj pg lj lg a input f t draw par s = None.
Proof. intros. now apply main_prints_nothing_for_bad_input. Qed.

Print Assumptions C17_never_solves_what_it_cannot_represent.
Print Assumptions C17_bad_input_prints_nothing.
Print Assumptions C17_gambit_total.
Print Assumptions C17_rejected_no_result.
Print Assumptions C17_not_constant_sum_iff.
Print Assumptions C17_duplicate_infosets_iff.
Print Assumptions C17_name_spaces_separate.
Print Assumptions C17_nonfinite_never_over_R.
Print Assumptions C17_game_error_iff.
Print Assumptions C17_json_rejected.
Print Assumptions C17_example.
