(** * C07 — Sampled solvers are thread-count invariant once random choices are fixed.

    Statements only; proofs are in [theories/ParallelProofs.v] (chance-sampled method,
    shared with C06), [theories/ExtIncr.v] and [theories/ExternalProofs.v]
    (external-sampled method).  Models of the multi-threaded code paths:
    [theories/VanillaMulti.v] and [theories/ExternalMulti.v] ([thread_threshold] +
    [next_nodes], [recurse_regret] with the payoff cache, [single_player_iter],
    [solve_external_multi] after the repair D2: the frontier workspace is empty at the
    start of every pass).

    Random choices are the oracle [draw is_chance cell pass weights], a pure function:
    "the outcome drawn at each chance infoset and the action drawn at each opponent
    infoset in each pass are held fixed".  Schedules are universally quantified
    permutations of the tasks' atomic increments (see C06); the parallel reduction of
    the bounds ([par_iter_mut().map(advance).sum()]) is any bracketing [psum_ok].
    Trusted: atomicity of the mutex-protected updates, rayon running each task once. *)
From Coq Require Import Reals List Bool NArith Permutation.
From Cfr.theories Require Import Num RInst Tree GameWF Strat Eval Solve SolveValidProofs Incr VanillaMulti
     ParallelProofs ExtIncr ExternalMulti ExternalProofs.
Import ListNotations.

(** ** Chance-sampled method *)
Theorem C07_sampled_multi_eq_single :
  forall (g : @game RNum) draw p budget stop target scheds,
    (forall it l, Permutation l (scheds it l)) ->
    @solve_multi RNum g true draw p budget stop target scheds =
    @solve_single RNum g Sampled draw p budget stop.
Proof. intros g draw p budget stop target scheds H. exact (solve_multi_eq_single g true draw p budget stop target scheds H). Qed.

(** ** External-sampled method *)

(** the pass as a pure value plus atomic increments; increments commute *)
Theorem C07_pass_is_increments :
  forall chance draw cpass ppass noff me n st,
    @erec RNum chance draw cpass ppass noff me n st =
    (eval chance draw cpass ppass noff me (e_strat_view st) n,
     fold_left e_apply_incr (eincs chance draw cpass ppass noff me (e_strat_view st) n) st).
Proof. exact erec_incs. Qed.

Theorem C07_every_interleaving :
  forall l l' : list e_incr, Permutation l l' ->
    forall st : @pstate RNum, fold_left e_apply_incr l st = fold_left e_apply_incr l' st.
Proof. exact e_apply_perm. Qed.

(** unique visit: with perfect recall a pass enters each infoset of the updating player at
    most once — the [try_lock().unwrap()] and [borrow_mut()] sites cannot fire *)
Theorem C07_unique_visit :
  forall chance draw cpass ppass noff me sg (g : @game RNum),
    PerfectRecall g -> NoDup (evisits chance draw cpass ppass noff me sg (g_root g)).
Proof. exact unique_visit. Qed.

(** ... also over all workers and the final cached traversal together: parallel solving
    visits exactly the sampled part of the tree once per pass *)
Theorem C07_parallel_visits_sampled_tree_once :
  forall chance draw cpass ppass noff me sg n (Q : list pnode),
    Front chance draw cpass ppass noff me sg n Q ->
    Permutation
      (evisitsc chance draw cpass ppass noff me sg n
                (cache_of (payoffs_of chance draw cpass ppass noff me sg Q)) ++
       flat_map (fun x : pnode => evisits chance draw cpass ppass noff me sg (snd x)) Q)
      (evisits chance draw cpass ppass noff me sg n).
Proof. exact ext_cut_visits. Qed.

Theorem C07_no_two_workers_at_one_infoset :
  forall (g : @game RNum) chance draw cpass ppass noff me sg target fuel,
    PerfectRecall g -> Fits sg (g_root g) ->
    let Q := ext_frontier chance draw cpass ppass noff me sg target fuel (g_root g) in
    NoDup (evisitsc chance draw cpass ppass noff me sg (g_root g)
                    (cache_of (payoffs_of chance draw cpass ppass noff me sg Q)) ++
           flat_map (fun x : pnode => evisits chance draw cpass ppass noff me sg (snd x)) Q).
Proof. exact multi_unique_visit. Qed.

(** cut lemma for any antichain of the sampled tree, and the code's frontier is one *)
Theorem C07_cut_lemma :
  forall chance draw cpass ppass noff me sg n (Q : list pnode),
    Front chance draw cpass ppass noff me sg n Q ->
    let cache := cache_of (payoffs_of chance draw cpass ppass noff me sg Q) in
    evalc chance draw cpass ppass noff me sg n cache = eval chance draw cpass ppass noff me sg n /\
    Permutation
      (eincsc chance draw cpass ppass noff me sg n cache ++
       flat_map (fun x : pnode => eincs chance draw cpass ppass noff me sg (snd x)) Q)
      (eincs chance draw cpass ppass noff me sg n).
Proof. exact ext_cut_lemma. Qed.

Theorem C07_frontier_ok :
  forall chance draw cpass ppass noff me sg n target fuel,
    Fits sg n ->
    Front chance draw cpass ppass noff me sg n
          (ext_frontier chance draw cpass ppass noff me sg target fuel n).
Proof. exact ext_frontier_ok. Qed.

(** at most one sample per infoset and pass: a pass depends on the oracle only through one
    (cell, pass) pair per chance infoset and per sampled-player infoset *)
Theorem C07_one_draw_per_cell :
  forall chance (draw draw' : @oracle RNum) cpass ppass noff me (n : @node RNum) st,
    (forall ci, draw true ci cpass (row chance ci) = draw' true ci cpass (row chance ci)) ->
    (forall pl i, draw false (ext_id noff pl i) ppass (e_strat_view st pl i) =
                  draw' false (ext_id noff pl i) ppass (e_strat_view st pl i)) ->
    @erec RNum chance draw cpass ppass noff me n st = @erec RNum chance draw' cpass ppass noff me n st.
Proof. exact one_draw_per_cell. Qed.

(** the whole solve: every target, fuel, budget, stop predicate, oracle, schedules and
    reduction orders *)
Theorem C07_external_multi_eq_single :
  forall (g : @game RNum) draw p target fuel scheds psums budget stop,
    WFgame g ->
    (forall it pl l, Permutation l (scheds it pl l)) ->
    (forall it pl l, psum_ok l (psums it pl l)) ->
    solve_ext_multi g draw p target fuel scheds psums budget stop =
    @solve_single RNum g External draw p budget stop.
Proof. exact solve_ext_multi_eq_single_WF. Qed.

(** Non-vacuity: a concrete tree on which the frontier holds two tasks. *)
Example C07_example_two_tasks :
  forall chance draw cpass ppass noff sg fuel,
    ext_frontier chance draw cpass ppass noff true sg 4 (3 + fuel) eex_root =
    [([0%nat], eex_A); ([1%nat], eex_B)].
Proof. exact ExternalProofs.ex_frontier_two_tasks. Qed.

Print Assumptions C07_sampled_multi_eq_single.
Print Assumptions C07_pass_is_increments.
Print Assumptions C07_every_interleaving.
Print Assumptions C07_unique_visit.
Print Assumptions C07_parallel_visits_sampled_tree_once.
Print Assumptions C07_no_two_workers_at_one_infoset.
Print Assumptions C07_cut_lemma.
Print Assumptions C07_frontier_ok.
Print Assumptions C07_one_draw_per_cell.
Print Assumptions C07_external_multi_eq_single.
Print Assumptions C07_example_two_tasks.
