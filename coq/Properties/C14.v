(** * C14 — Importing named weights ([Game::from_named], [Game::from_named_eq]).

    "Importing named weights succeeds exactly when, for each player, every infoset
    (including single-action ones) is covered, every multi-action infoset receives at
    least one positive weight, all weights are finite and non-negative, and only existing
    infosets and legal actions are mentioned; the result gives each action its weight
    divided by the infoset total, unspecified actions zero, a repeated infoset-action entry
    overriding the earlier one.  Otherwise the documented error kind of a violated rule is
    returned, and the hashing and non-hashing import functions give identical outcomes on
    every input."

    Statements only; proofs are in [theories/StratAgreeProofs.v] (the two functions agree;
    generic in the arithmetic), [theories/StratImportProofs.v] (what the loop computes;
    generic) and [theories/StratImportRProofs.v] (normalisation and the statements below,
    over the reals, where every number is finite).

    Model: [import_fast] = [Game::from_named] (hash maps: association lists in which the
    latest insertion shadows), [import_slow] = [Game::from_named_eq] (linear scans, first
    match); [import_fast_player]/[import_slow_player] = [strat_into_box]/
    [strat_into_box_slow] for one player with tables [infos] (multi-action infosets, in
    index order) and [singles] (single-action infosets with their action).  An input is a
    list of items [(infoset, [(action, weight); ...])] in iteration order — any order,
    with repetitions, unknown names, arbitrary real weights.

    [WFnames_tables]/[WFnames] (unique infoset names across both tables, unique actions, at least
    two actions per multi-action infoset) is what [Game::from_root] guarantees.

    [w_last strat I a] is the weight of the last entry for [(I, a)] in the input, [0] if
    there is none (theorem [C14_w_last]). *)
From Coq Require Import Reals List NArith Bool Arith Lia Lra.
From Cfr.theories Require Import Num RInst Tree Strat Valid
     StratIterProofs StratAgreeProofs StratImportProofs StratImportRProofs.
Import ListNotations.
Open Scope R_scope.

(** ** 1. The hashing and the non-hashing import give identical outcomes on every input *)
Theorem C14_paths_agree :
  forall (g : @game RNum), WFnames g ->
    forall x : list (N * list (N * R)) * list (N * list (N * R)),
      @import_fast RNum g x = @import_slow RNum g x.
Proof. exact (@paths_agree RNum). Qed.

(** the same for every arithmetic instance (in particular binary64, where weights may be
    NaN or infinite), and per player *)
Theorem C14_paths_agree_any_arithmetic :
  forall (NN : Num),
    (forall (g : @game NN), WFnames g -> forall x, import_fast g x = import_slow g x) /\
    (forall infos singles (strat : list (N * list (N * T NN))), WFnames_tables infos singles ->
        import_fast_player infos singles strat = import_slow_player infos singles strat).
Proof. intros NN; split; [exact (@paths_agree NN)|exact (@players_agree NN)]. Qed.

(** both players are imported independently, player one first *)
Theorem C14_two_players :
  forall (g : @game RNum) x,
    @import_slow RNum g x =
    match @import_slow_player RNum (g_infos1 g) (g_singles1 g) (fst x) with
    | SErr e => SErr e
    | SOk a => match @import_slow_player RNum (g_infos2 g) (g_singles2 g) (snd x) with
               | SErr e => SErr e
               | SOk b => SOk (a, b)
               end
    end /\
    @import_fast RNum g x =
    match @import_fast_player RNum (g_infos1 g) (g_singles1 g) (fst x) with
    | SErr e => SErr e
    | SOk a => match @import_fast_player RNum (g_infos2 g) (g_singles2 g) (snd x) with
               | SErr e => SErr e
               | SOk b => SOk (a, b)
               end
    end.
Proof. split; reflexivity. Qed.

(** ** [w_last]: the last weight given to an (infoset, action) pair *)
Theorem C14_w_last :
  forall (strat : list (N * list (N * R))) (I a : N),
    (** the triples (infoset, action, weight) of the input in iteration order *)
    @triples RNum strat =
      flat_map (fun it => map (fun e => (fst it, fst e, snd e)) (snd it)) strat /\
    (** the last triple for [(I, a)], zero if there is none *)
    @w_last RNum strat I a =
      match find (fun t => N.eqb (fst (fst t)) I && N.eqb (snd (fst t)) a)
                 (rev (@triples RNum strat)) with
      | Some t => snd t
      | None => 0
      end /\
    (** spelled out: *)
    ((forall es w, In (I, es) strat -> ~ In (a, w) es) -> @w_last RNum strat I a = 0) /\
    (forall w pre post,
        @triples RNum strat = pre ++ (I, a, w) :: post ->
        (forall t, In t post -> fst t <> (I, a)) -> @w_last RNum strat I a = w).
Proof.
  intros strat I a. split; [reflexivity|]. split; [apply w_last_find|].
  split; [apply w_last_none|intros w pre post; apply w_last_last].
Qed.

(** ** 2. The result: each action gets its (last) weight divided by the infoset total,
       unspecified actions zero *)
Theorem C14_result :
  forall imp, imp = @import_fast_player RNum \/ imp = @import_slow_player RNum ->
  forall infos singles (strat : list (N * list (N * R))) dense,
    WFnames_tables infos singles ->
    imp infos singles strat = SOk dense ->
    let row pi :=
      map (fun a => @w_last RNum strat (pi_name pi) a /
                    Rsum (map (@w_last RNum strat (pi_name pi)) (pi_actions pi))) (pi_actions pi) in
    dense = concat (map row infos) /\
    split_by dense (map (fun pi => length (pi_actions pi)) infos) = map row infos.
Proof. intros imp Hi infos singles strat dense W. now apply import_result_X. Qed.

(** in particular the result is a valid profile: every infoset carries a distribution *)
Theorem C14_result_valid :
  forall imp, imp = @import_fast_player RNum \/ imp = @import_slow_player RNum ->
  forall infos singles (strat : list (N * list (N * R))) dense,
    WFnames_tables infos singles ->
    imp infos singles strat = SOk dense ->
    VFlat (map (fun pi => length (pi_actions pi)) infos) dense.
Proof. intros imp Hi infos singles strat dense W. now apply import_result_valid_X. Qed.

(** ** 3. Success exactly when the four rules hold *)
Theorem C14_ok_iff :
  forall imp, imp = @import_fast_player RNum \/ imp = @import_slow_player RNum ->
  forall infos singles (strat : list (N * list (N * R))),
    WFnames_tables infos singles ->
    ((exists dense, imp infos singles strat = SOk dense) <->
     (** only existing infosets and legal actions are mentioned *)
     (forall name es, In (name, es) strat ->
        (exists pi, In pi infos /\ pi_name pi = name /\
                    forall a w, In (a, w) es -> In a (pi_actions pi)) \/
        (exists act, In (name, act) singles /\ forall a w, In (a, w) es -> a = act)) /\
     (** all weights are non-negative (over the reals every weight is finite) *)
     (forall name es a w, In (name, es) strat -> In (a, w) es -> 0 <= w) /\
     (** every single-action infoset is covered by at least one entry *)
     (forall i act, In (i, act) singles -> exists es a w, In (i, es) strat /\ In (a, w) es) /\
     (** every multi-action infoset ends up with at least one positive weight *)
     (forall pi, In pi infos ->
        exists a, In a (pi_actions pi) /\ 0 < @w_last RNum strat (pi_name pi) a)).
Proof. intros imp Hi infos singles strat W. now apply import_ok_iff_X. Qed.

(** ** 4. Otherwise the error kind returned is the kind of a rule the input violates *)
Theorem C14_err_kind :
  forall imp, imp = @import_fast_player RNum \/ imp = @import_slow_player RNum ->
  forall infos singles (strat : list (N * list (N * R))) e,
    WFnames_tables infos singles ->
    imp infos singles strat = SErr e ->
    match e with
    | InvalidInfoset =>
        exists name es, In (name, es) strat /\
                        ~ In name (map pi_name infos) /\ ~ In name (map fst singles)
    | InvalidAction =>
        exists name es a w, In (name, es) strat /\ In (a, w) es /\
          ((exists pi, In pi infos /\ pi_name pi = name /\ ~ In a (pi_actions pi)) \/
           (exists act, In (name, act) singles /\ a <> act))
    | InvalidProbability =>
        exists name es a w, In (name, es) strat /\ In (a, w) es /\ ~ 0 <= w
    | UninitializedInfoset =>
        (exists pi, In pi infos /\
                    forall a, In a (pi_actions pi) -> @w_last RNum strat (pi_name pi) a = 0) \/
        (exists i act, In (i, act) singles /\ forall es a w, In (i, es) strat -> ~ In (a, w) es)
    end.
Proof. intros imp Hi infos singles strat e W E. now apply (import_err_kind_X infos singles W imp strat e Hi E). Qed.

(** ** Non-vacuity: concrete tables (one two-action infoset, one single-action infoset) *)

(** a repeated entry overrides the earlier one: weights 1, 1, then 3 for action 10 *)
Example C14_example_ok :
  let infos := [mkPinfo 1%N [10%N; 11%N] None] in
  let singles := [(2%N, 20%N)] in
  let strat : list (N * list (N * R)) :=
    [(1%N, [(10%N, 1); (11%N, 1); (10%N, 3)]); (2%N, [(20%N, 5)])] in
  WFnames_tables infos singles /\
  @import_slow_player RNum infos singles strat = SOk [3/4; 1/4] /\
  @import_fast_player RNum infos singles strat = SOk [3/4; 1/4] /\
  @w_last RNum strat 1%N 10%N = 3.
Proof.
  cbv zeta.
  assert (W : WFnames_tables [mkPinfo 1%N [10%N; 11%N] None] [(2%N, 20%N)]).
  { split; cbn [map app pi_name fst].
    - repeat constructor; cbn [In]; intuition discriminate.
    - repeat constructor; cbn [In pi_actions length]; try lia; intuition discriminate. }
  assert (E : @import_slow_player RNum [mkPinfo 1%N [10%N; 11%N] None] [(2%N, 20%N)]
                [(1%N, [(10%N, 1); (11%N, 1); (10%N, 3)]); (2%N, [(20%N, 5)])] = SOk [3/4; 1/4]).
  { unfold import_slow_player. cbn -[Rleb Reqb Rplus Rdiv].
    rewrite !(proj2 (prob_ok_R _)) by lra. unfold finish. cbn -[Rleb Reqb Rplus Rdiv].
    rewrite (proj2 (Reqb_false _ _)) by lra. cbn -[Rleb Reqb Rplus Rdiv].
    do 2 f_equal; [lra|f_equal; lra]. }
  split; [exact W|]. split; [exact E|]. split; [now rewrite (@players_agree RNum) by exact W|].
  reflexivity.
Qed.

(** one input per error kind; a weight overridden by zero does not count as positive, and
    an item with an empty entry list does not cover a single-action infoset *)
Example C14_example_errors :
  let infos := [mkPinfo 1%N [10%N; 11%N] None] in
  let singles := [(2%N, 20%N)] in
  let imp := @import_slow_player RNum infos singles in
  imp [(9%N, [])] = SErr InvalidInfoset /\
  imp [(1%N, [(12%N, 1)])] = SErr InvalidAction /\
  imp [(2%N, [(10%N, 1)])] = SErr InvalidAction /\
  imp [(1%N, [(10%N, -1)])] = SErr InvalidProbability /\
  imp [(1%N, [(10%N, 1); (10%N, 0)]); (2%N, [(20%N, 1)])] = SErr UninitializedInfoset /\
  imp [(1%N, [(10%N, 1)]); (2%N, [])] = SErr UninitializedInfoset.
Proof.
  cbv zeta. repeat apply conj; unfold import_slow_player; cbn -[Rleb Reqb Rplus Rdiv].
  - reflexivity.
  - rewrite !(proj2 (prob_ok_R _)) by lra. reflexivity.
  - reflexivity.
  - rewrite (proj2 (prob_ok_R_false _)) by lra. reflexivity.
  - rewrite !(proj2 (prob_ok_R _)) by lra. unfold finish. cbn -[Rleb Reqb Rplus Rdiv].
    rewrite (proj2 (Reqb_true _ _)) by lra. reflexivity.
  - rewrite !(proj2 (prob_ok_R _)) by lra. unfold finish. cbn -[Rleb Reqb Rplus Rdiv].
    rewrite (proj2 (Reqb_false _ _)) by lra. reflexivity.
Qed.

Print Assumptions C14_paths_agree.
Print Assumptions C14_paths_agree_any_arithmetic.
Print Assumptions C14_two_players.
Print Assumptions C14_w_last.
Print Assumptions C14_result.
Print Assumptions C14_result_valid.
Print Assumptions C14_ok_iff.
Print Assumptions C14_err_kind.
Print Assumptions C14_example_ok.
Print Assumptions C14_example_errors.
