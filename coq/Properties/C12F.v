(** * C12 at binary64 — multiplying the payoffs by a power of two is exact, bit for bit.

    Statements only; proofs are in [theories/ScaleFloat.v] and [theories/ScaleFloatBR.v] (Flocq).
    Property C12: "multiplying payoffs by c>0 multiplies utilities, regrets and bounds by c, with
    strategies unchanged".  Over the reals that is [Properties/C12.v].  At binary64 it holds **exactly**
    when [c] is a power of two and nothing leaves the normal range, because correctly rounded operations
    commute with such a scaling; the correspondence check relies on this when it solves the same game in
    the units 2^-200 ... 2^150.  Proved for the executed instance [FNum]:
    - the commuting lemmas with their precise range conditions;
    - [expected] on the scaled game is [expected * c] bit for bit (under a range predicate that follows
      the evaluation, or under the closed condition: probabilities zero or >= 2^-q, payoffs zero or of
      magnitude in [2^-A, 2^A], [q * depth + A + |e| <= 1022]);
    - every number reported by [get_info] (utility, both regrets, total regret) scales by [c] bit for
      bit under the decidable range check [infookb];
    - [truncate] and [distance] do not see the payoffs at all.
    - (last section, [theories/ScaleSolveFloat.v]) the same for the solver itself: regret matching does not see the
      unit, and a whole solve by the unsampled or the chance-sampled method returns the SAME strategies, the same
      iteration count and bounds multiplied by [c] bit for bit, under a decidable checker that follows the UNSCALED run
      only (cancellation across iterations rules out a closed a-priori range condition).  External sampling and the
      softmax fallback are not covered. *)
From Coq Require Import List ZArith Reals Floats Bool.
From Flocq Require Import Core.
From Cfr.theories Require Import Num FInst Tree Strat Eval TruncFloat EvalFloat ScaleFloat ScaleFloatBR Solve SolveFloat ScaleSolveFloat.
Import ListNotations.
Local Open Scope R_scope.
Local Notation float := PrimFloat.float.
Local Notation bp := (bpow radix2).

Theorem C12_binary64_power_of_two : forall e : Z, (-1074 <= e <= 1023)%Z -> IsPow2 (pow2 e) e.
Proof. exact pow2_IsPow2. Qed.

Theorem C12_binary64_rounding_commutes : forall y e, nz y -> nz (y * bp e) -> rnd (y * bp e) = rnd y * bp e.
Proof. exact rnd_scale. Qed.

Theorem C12_binary64_add_commutes : forall c e a b, IsPow2 c e -> Ffin a -> Ffin b ->
  fmt (FR a * bp e) -> Rabs (FR a * bp e) < bp emax ->
  fmt (FR b * bp e) -> Rabs (FR b * bp e) < bp emax ->
  Rabs (rnd (FR a + FR b)) < bp emax -> Rabs (rnd (FR a + FR b) * bp e) < bp emax ->
  (a * c + b * c = (a + b) * c)%float.
Proof. exact add_scale_exact. Qed.

Theorem C12_binary64_mul_commutes : forall c e p x, IsPow2 c e -> Ffin p -> Ffin x ->
  fmt (FR x * bp e) -> Rabs (FR x * bp e) < bp emax ->
  nz (FR p * FR x) -> nz (FR p * FR x * bp e) ->
  Rabs (rnd (FR p * FR x)) < bp emax -> Rabs (rnd (FR p * FR x) * bp e) < bp emax ->
  (p * (x * c) = (p * x) * c)%float.
Proof. exact mul_scale_exact. Qed.

Theorem C12_binary64_utility_scales_exactly :
  forall (c : float) (e q A : Z) (g : @game FNum) (s1 s2 : list (list float)),
  IsPow2 c e -> (0 <= q)%Z -> (0 <= A)%Z ->
  (q * Z.of_nat (depth (g_root g)) + A + Z.abs e <= 1022)%Z -> (A + Z.abs e <= 971)%Z ->
  TblQ q (g_chance g) -> TblQ q s1 -> TblQ q s2 -> PayIn A (g_root g) ->
  (Z.of_nat (nleaves (g_root g)) < 2 ^ 53)%Z ->
  @expected FNum (scale_game c g) s1 s2 = (@expected FNum g s1 s2 * c)%float /\
  Ffin (@expected FNum g s1 s2) /\ Ffin (@expected FNum (scale_game c g) s1 s2) /\
  FR (@expected FNum (scale_game c g) s1 s2) = FR (@expected FNum g s1 s2) * bp e.
Proof. exact expected_scale_float_simple. Qed.

Theorem C12_binary64_reported_numbers_scale_exactly :
  forall (c : float) (e M : Z) (g : @game FNum) (prof : list float * list float),
  IsPow2 c e -> (-500 <= e <= 500)%Z -> (-500 <= M <= 971)%Z ->
  infookb e M g prof = true ->
  let I := @info FNum g prof in
  let I' := @info FNum (scale_game c g) prof in
  si_util I' = (si_util I * c)%float /\
  si_reg1 I' = (si_reg1 I * c)%float /\
  si_reg2 I' = (si_reg2 I * c)%float /\
  @si_regret FNum I' = (@si_regret FNum I * c)%float.
Proof. exact info_scale_float_check. Qed.

(** ** The solver ([theories/ScaleSolveFloat.v]).  [Sc e a a']: [a'] is [a] scaled by [2^e], exactly.  [rmb], [solveb]:
    decidable range checkers over the unscaled computation (every operand that meets a scaled value at most [2^500] in
    magnitude, every product and quotient zero or not below [2^max(-1021, -1021-e)]; [|e| <= 500], which contains the
    units 2^-200 ... 2^150 the correspondence check uses).  [stop'] is the stop predicate in the new unit (both
    "never", or thresholds [r] and [r * c]: [stop_at_corr]). *)
Theorem C12_binary64_regret_matching_ignores_the_unit :
  forall (e : Z) (p : @params FNum) (row row' : list float),
  (-500 <= e <= 500)%Z -> nosoftmax p ->
  Forall2 (Sc e) row row' -> rmb row = true ->
  @regret_match FNum p row' = @regret_match FNum p row.
Proof. exact regret_match_scale. Qed.

Theorem C12_binary64_solve_scales_exactly :
  forall (c : float) (e : Z) (g : @game FNum) (m : method)
    (draw : @oracle FNum) (p : @params FNum) (budget : nat) (stop stop' : float -> bool),
  IsPow2 c e -> (-500 <= e <= 500)%Z -> m <> External -> nosoftmax p ->
  (forall x x', Sc e x x' -> stop' x' = stop x) ->
  solveb e g (msampled m) draw p stop budget 1%N (@init_state FNum g) = true ->
  @solve_single FNum (scale_game c g) m draw p budget stop' =
  (fst (fst (@solve_single FNum g m draw p budget stop)),
   scale_regs c (snd (fst (@solve_single FNum g m draw p budget stop))),
   snd (@solve_single FNum g m draw p budget stop)).
Proof. exact solve_single_scale_eq. Qed.

Theorem C12_binary64_thresholds_correspond : forall (e : Z) (r r' : float), Sc e r r' ->
  forall x x' : float, Sc e x x' -> @stop_at FNum r' x' = @stop_at FNum r x.
Proof. exact stop_at_corr. Qed.

(** non-vacuity: the example game in the unit 2^-200, ten iterations, hypotheses discharged by the checker; and a
    unit (2^-900 * 2^-200) in which the checker refuses and the strategies really differ *)
Example C12_binary64_solve_scales_example :
  @solve_single FNum (scale_game c200 exs_g) Full exs_draw (@p_vanilla FNum) 10 (fun _ => false) =
  (fst (fst (@solve_single FNum exs_g Full exs_draw (@p_vanilla FNum) 10 (fun _ => false))),
   scale_regs c200 (snd (fst (@solve_single FNum exs_g Full exs_draw (@p_vanilla FNum) 10 (fun _ => false)))),
   snd (@solve_single FNum exs_g Full exs_draw (@p_vanilla FNum) 10 (fun _ => false))).
Proof. exact exs_scale_thm. Qed.

Example C12_binary64_solve_scaling_fails_out_of_range :
  solveb (-200) (scale_game (pow2 (-900)) exs_g) false exs_draw (@p_vanilla FNum) (fun _ => false) 10 1%N
         (@init_state FNum exs_g) = false /\
  fst (fst (@solve_single FNum (scale_game c200 (scale_game (pow2 (-900)) exs_g)) Full exs_draw
                          (@p_vanilla FNum) 10 (fun _ => false))) <>
  fst (fst (@solve_single FNum (scale_game (pow2 (-900)) exs_g) Full exs_draw
                          (@p_vanilla FNum) 10 (fun _ => false))).
Proof. exact exs_scale_refused. Qed.

Print Assumptions C12_binary64_power_of_two.
Print Assumptions C12_binary64_rounding_commutes.
Print Assumptions C12_binary64_add_commutes.
Print Assumptions C12_binary64_mul_commutes.
Print Assumptions C12_binary64_utility_scales_exactly.
Print Assumptions C12_binary64_reported_numbers_scale_exactly.
Print Assumptions C12_binary64_regret_matching_ignores_the_unit.
Print Assumptions C12_binary64_solve_scales_exactly.
Print Assumptions C12_binary64_thresholds_correspond.
Print Assumptions C12_binary64_solve_scales_example.
Print Assumptions C12_binary64_solve_scaling_fails_out_of_range.
