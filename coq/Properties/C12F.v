(** * C12 at binary64 — multiplying the payoffs by a power of two is exact, bit for bit.

    Statements only; proofs are in [theories/ScaleFloat.v] and [theories/ScaleFloatBR.v] (Flocq).
    Property C12: "multiplying payoffs by c>0 multiplies utilities, regrets and bounds by c, with
    strategies unchanged".  Over the reals that is [Properties/C12.v].  At binary64 it holds **exactly**
    when [c] is a power of two and nothing leaves the normal range, because correctly rounded operations
    commute with such a scaling; the correspondence check relies on this when it solves the same game in
    the units 2^-200 ... 2^150.  Proved for the executed instance [FNum]:
    - the commuting lemmas with their precise range conditions;
    - [expected] on the scaled game is [expected * c] bit for bit (under a range predicate that follows
      the evaluation, or under the closed condition: probabilities zero or >= 2^-q, payoffs zero or of
      magnitude in [2^-A, 2^A], [q * depth + A + |e| <= 1022]);
    - every number reported by [get_info] (utility, both regrets, total regret) scales by [c] bit for
      bit under the decidable range check [infookb];
    - [truncate] and [distance] do not see the payoffs at all.
    Not proved: the same for the solver's iterations (cancellation across iterations rules out a closed
    a-priori range condition); that part of the clause stays with the real-number theorems and the check. *)
From Coq Require Import List ZArith Reals Floats Bool.
From Flocq Require Import Core.
From Cfr.theories Require Import Num FInst Tree Strat Eval TruncFloat EvalFloat ScaleFloat ScaleFloatBR.
Import ListNotations.
Local Open Scope R_scope.
Local Notation float := PrimFloat.float.
Local Notation bp := (bpow radix2).

Theorem C12_binary64_power_of_two : forall e : Z, (-1074 <= e <= 1023)%Z -> IsPow2 (pow2 e) e.
Proof. exact pow2_IsPow2. Qed.

Theorem C12_binary64_rounding_commutes : forall y e, nz y -> nz (y * bp e) -> rnd (y * bp e) = rnd y * bp e.
Proof. exact rnd_scale. Qed.

Theorem C12_binary64_add_commutes : forall c e a b, IsPow2 c e -> Ffin a -> Ffin b ->
  fmt (FR a * bp e) -> Rabs (FR a * bp e) < bp emax ->
  fmt (FR b * bp e) -> Rabs (FR b * bp e) < bp emax ->
  Rabs (rnd (FR a + FR b)) < bp emax -> Rabs (rnd (FR a + FR b) * bp e) < bp emax ->
  (a * c + b * c = (a + b) * c)%float.
Proof. exact add_scale_exact. Qed.

Theorem C12_binary64_mul_commutes : forall c e p x, IsPow2 c e -> Ffin p -> Ffin x ->
  fmt (FR x * bp e) -> Rabs (FR x * bp e) < bp emax ->
  nz (FR p * FR x) -> nz (FR p * FR x * bp e) ->
  Rabs (rnd (FR p * FR x)) < bp emax -> Rabs (rnd (FR p * FR x) * bp e) < bp emax ->
  (p * (x * c) = (p * x) * c)%float.
Proof. exact mul_scale_exact. Qed.

Theorem C12_binary64_utility_scales_exactly :
  forall (c : float) (e q A : Z) (g : @game FNum) (s1 s2 : list (list float)),
  IsPow2 c e -> (0 <= q)%Z -> (0 <= A)%Z ->
  (q * Z.of_nat (depth (g_root g)) + A + Z.abs e <= 1022)%Z -> (A + Z.abs e <= 971)%Z ->
  TblQ q (g_chance g) -> TblQ q s1 -> TblQ q s2 -> PayIn A (g_root g) ->
  (Z.of_nat (nleaves (g_root g)) < 2 ^ 53)%Z ->
  @expected FNum (scale_game c g) s1 s2 = (@expected FNum g s1 s2 * c)%float /\
  Ffin (@expected FNum g s1 s2) /\ Ffin (@expected FNum (scale_game c g) s1 s2) /\
  FR (@expected FNum (scale_game c g) s1 s2) = FR (@expected FNum g s1 s2) * bp e.
Proof. exact expected_scale_float_simple. Qed.

Theorem C12_binary64_reported_numbers_scale_exactly :
  forall (c : float) (e M : Z) (g : @game FNum) (prof : list float * list float),
  IsPow2 c e -> (-500 <= e <= 500)%Z -> (-500 <= M <= 971)%Z ->
  infookb e M g prof = true ->
  let I := @info FNum g prof in
  let I' := @info FNum (scale_game c g) prof in
  si_util I' = (si_util I * c)%float /\
  si_reg1 I' = (si_reg1 I * c)%float /\
  si_reg2 I' = (si_reg2 I * c)%float /\
  @si_regret FNum I' = (@si_regret FNum I * c)%float.
Proof. exact info_scale_float_check. Qed.

Print Assumptions C12_binary64_power_of_two.
Print Assumptions C12_binary64_rounding_commutes.
Print Assumptions C12_binary64_add_commutes.
Print Assumptions C12_binary64_mul_commutes.
Print Assumptions C12_binary64_utility_scales_exactly.
Print Assumptions C12_binary64_reported_numbers_scale_exactly.
