(** * C18 at binary64 — truncation keeps a valid profile, for the executed instance itself.

    Statements only; proofs are in [theories/TruncFloat.v] (through Flocq: the primitive-float
    operations are correctly rounded real operations, [FloatAxioms] + [Flocq.IEEE754.PrimFloat]).
    Every other theorem of the development is about the real-number instance [RNum] of the model
    and leaves rounding, overflow and NaN propagation to the monitors; the theorems below are about
    [@truncate_row FNum] / [@truncate FNum], the very functions the correspondence check executes
    against [Strategies::truncate]: for every threshold — finite, infinite or NaN — a profile whose
    entries are finite binary64 numbers in [0,1] is mapped to such a profile (no NaN, no infinity,
    nothing negative, nothing above one), the removed actions are exactly [+0], the survivors are
    the correctly rounded quotients, and each row sums to one within [(2n+2) * 2^-53].

    [fin01 x] : [x] is a finite binary64 number with [0 <= x <= 1];  [FR x] : its real value;
    [rnd] : rounding to nearest-even in binary64;  [RS l] : the exact real sum of the entries. *)
From Coq Require Import List ZArith Reals Floats Bool.
From Flocq Require Import Core.
From Cfr.theories Require Import Num FInst Tree Strat TruncFloat.
Import ListNotations.
Local Open Scope R_scope.
Local Notation float := PrimFloat.float.

(** 0. the boolean reading of [fin01] with primitive comparisons agrees *)
Theorem C18_binary64_fin01_decidable : forall x, fin01b x = true <-> fin01 x.
Proof. exact fin01b_spec. Qed.

(** 1. the retained mass: finite, non-negative, at least every retained entry (no overflow, no NaN) *)
Theorem C18_binary64_total_ok : forall (h : float) (row : list float),
  Forall fin01 row -> (Z.of_nat (length row) < 2 ^ 53)%Z ->
  let kept := filter (fun p => ltb FNum h p) row in
  let total := @sum FNum kept in
  Ffin total /\ 0 <= FR total <= INR (length row) /\
  Forall (fun p => FR p <= FR total) kept.
Proof. exact truncate_row_total_ok. Qed.

(** 2. validity, whatever the threshold: rows, flat vectors, whole profiles *)
Theorem C18_binary64_row_valid : forall (h : float) (row : list float),
  Forall fin01 row -> (Z.of_nat (length row) < 2 ^ 53)%Z ->
  Forall fin01 (@truncate_row FNum h row).
Proof. exact truncate_row_float_valid. Qed.

Theorem C18_binary64_profile_valid :
  forall (g : @game FNum) (h : float) (prof : list float * list float),
  Forall fin01 (fst prof) -> Forall fin01 (snd prof) ->
  (Z.of_nat (length (fst prof)) < 2 ^ 53)%Z -> (Z.of_nat (length (snd prof)) < 2 ^ 53)%Z ->
  Forall fin01 (fst (@truncate FNum g h prof)) /\ Forall fin01 (snd (@truncate FNum g h prof)).
Proof. exact truncate_float_valid. Qed.

(** 3. nothing above the threshold (in particular NaN, +infinity, any threshold >= 1): unchanged *)
Theorem C18_binary64_unchanged : forall (h : float) (row : list float),
  existsb (fun p => ltb FNum h p) row = false -> @truncate_row FNum h row = row.
Proof. exact truncate_row_float_unchanged. Qed.

Theorem C18_binary64_nan_threshold : forall (h : float) (row : list float),
  PrimFloat.is_nan h = true -> @truncate_row FNum h row = row.
Proof. exact truncate_row_float_nan. Qed.

Theorem C18_binary64_threshold_ge_one : forall (h : float) (row : list float),
  Forall fin01 row -> Ffin h -> 1 <= FR h -> @truncate_row FNum h row = row.
Proof. exact truncate_row_float_ge1. Qed.

(** 4. the support: not above the threshold -> exactly +0; above -> the correctly rounded quotient,
    non-zero unless the entry itself is zero or below 2^-1021 (underflow of the quotient) *)
Theorem C18_binary64_support : forall (h : float) (row : list float),
  Forall fin01 row -> (Z.of_nat (length row) < 2 ^ 53)%Z ->
  existsb (fun p => ltb FNum h p) row = true ->
  let out := @truncate_row FNum h row in
  let total := @sum FNum (filter (fun p => ltb FNum h p) row) in
  length out = length row /\
  forall k, (k < length row)%nat ->
    let p := nth k row 0%float in
    let y := nth k out 0%float in
    (ltb FNum h p = false -> y = 0%float) /\
    (ltb FNum h p = true ->
       FR p <= FR total /\
       (0 < FR total -> y = (p / total)%float /\ FR y = rnd (FR p / FR total)) /\
       (FR total = 0 -> y = p)) /\
    (ltb FNum h p = true -> FR p = 0 -> FR y = 0) /\
    (ltb FNum h p = true -> bpow radix2 (-1021) <= FR p -> bpow radix2 (-1074) <= FR y).
Proof. exact truncate_row_float_support. Qed.

(** 5. the row sums to one within rounding *)
Theorem C18_binary64_sum : forall (h : float) (row : list float),
  Forall fin01 row -> (Z.of_nat (length row) < 2 ^ 53)%Z ->
  0 < FR (@sum FNum (filter (fun p => ltb FNum h p) row)) ->
  Rabs (RS (@truncate_row FNum h row) - 1) <= (2 * INR (length row) + 2) * bpow radix2 (-53).
Proof. exact truncate_row_float_sum. Qed.

(** non-vacuity: a concrete row meets the hypotheses; what comes out *)
Example C18_binary64_example :
  Forall fin01 ex_row2 /\ Forall fin01 (@truncate_row FNum 0.25%float ex_row2).
Proof. split; [exact ex_row2_fin01|exact ex_valid_instance]. Qed.

Print Assumptions C18_binary64_fin01_decidable.
Print Assumptions C18_binary64_total_ok.
Print Assumptions C18_binary64_row_valid.
Print Assumptions C18_binary64_profile_valid.
Print Assumptions C18_binary64_unchanged.
Print Assumptions C18_binary64_nan_threshold.
Print Assumptions C18_binary64_threshold_ge_one.
Print Assumptions C18_binary64_support.
Print Assumptions C18_binary64_sum.
Print Assumptions C18_binary64_example.
