(** * C11 — Game construction accepts exactly the documented class of games.

    Statements only; proofs are in [theories/FromRootGeneric.v] and
    [theories/FromRootProofs.v].  The model function is [Tree.from_root]
    (= [Game::from_root] / [init_recurse] with the repairs D3–D5).

    The contract is stated declaratively on the list [occs t] of node occurrences of
    the raw tree, each decision node carrying its player's own history of
    (infoset name, action index) pairs at multi-action nodes; neither [Contract] nor
    [Blame] mentions builder tables, indices or the traversal order.

    - acceptance <-> contract (over the reals; completeness and blame for every
      number type, binary64 included);
    - a rejection names a rule the tree really violates;
    - accepted games satisfy [WFgame], [PerfectRecall] (whole own history) and
      [ChanceOK]: exactly what the evaluation and solver theorems assume (C01, C02,
      C03, C05–C07), so evaluation and solving are defined on every accepted tree;
    - for *every* number type (the binary64 instance included) an accepted tree has
      finite payoffs, positive finite weights and no empty node;
    - totality ("never panics") is by construction: [init] is a structurally
      recursive Gallina function.

    Reading fixed in DESIGN.md section 7 (C11): a single-outcome chance node is exempt
    from the shared-infoset clause exactly as a single-action decision node is exempt
    from perfect recall. *)
From Coq Require Import Reals List Bool NArith Arith.
From Cfr.theories Require Import Num RInst Tree GameWF Valid FromRootGeneric FromRootProofs.
Import ListNotations.

(** 1. acceptance is equivalent to the documented contract *)
Theorem C11_accepts_iff_contract :
  forall t : @gnode RNum, (exists g, from_root t = Ok g) <-> Contract t.
Proof. exact from_root_accepts_iff. Qed.

(** completeness holds for every number type (binary64 too) *)
Theorem C11_complete_any_number_type :
  forall (NN : Num) (t : @gnode NN), Contract t -> exists g, from_root t = Ok g.
Proof. intros NN. exact (@from_root_complete NN). Qed.

(** 2. an error names a rule that the tree violates (every number type) *)
Theorem C11_blame :
  forall (NN : Num) (t : @gnode NN) (e : gerr), from_root t = Err e -> Blame e t.
Proof. intros NN. exact (@from_root_blame NN). Qed.

Theorem C11_rejected_not_contract :
  forall (NN : Num) (t : @gnode NN) (e : gerr), from_root t = Err e -> ~ Contract t.
Proof. intros NN. exact (@from_root_err_not_contract NN). Qed.

(** 3. what accepted games satisfy: the hypotheses of every evaluation / solver theorem *)
Theorem C11_sound :
  forall (t : @gnode RNum) (g : @game RNum),
    from_root t = Ok g -> WFgame g /\ PerfectRecall g /\ ChanceOK g.
Proof. exact from_root_sound. Qed.

Theorem C11_sound_any_number_type :
  forall (NN : Num) (t : @gnode NN) (g : @game NN),
    from_root t = Ok g -> WFgame g /\ PerfectRecall g.
Proof. intros NN. exact (@from_root_WF NN). Qed.

(** 4. for every number type: payoffs finite, weights positive and finite, no empty node *)
Theorem C11_data_ok_any_number_type :
  forall (NN : Num) (t : @gnode NN) (g : @game NN), from_root t = Ok g -> DataOK t.
Proof. intros NN. exact (@from_root_data_ok NN). Qed.

(** 5. the perfect-recall clause of the contract is the whole-history one *)
Theorem C11_contract_full_history :
  forall (NN : Num) (t : @gnode NN),
    Contract t ->
    forall pl info acts acts' h h',
      In (OPlayer pl info acts h) (occs t [] []) -> In (OPlayer pl info acts' h') (occs t [] []) ->
      (2 <= length acts)%nat -> h = h'.
Proof. intros NN. exact (@Contract_full_history NN). Qed.

(** the contract, spelled out (so that a change of [ContractL] is visible here) *)
Theorem C11_contract_meaning :
  forall (NN : Num) (t : @gnode NN),
    Contract t <->
    let U := occs t [] [] in
    (forall p, In (OTerm p) U -> is_fin NN p = true) /\
    (forall info ws, In (OChance info ws) U ->
       ws <> [] /\ forall w, In w ws -> ltb NN (zero NN) w && is_fin NN w = true) /\
    (forall k ws ws', In (OChance (Some k) ws) U -> In (OChance (Some k) ws') U ->
       (2 <= length ws)%nat -> (2 <= length ws')%nat ->
       list_eqb (eqb NN) (normalise ws) (normalise ws') = true) /\
    (forall pl info acts h, In (OPlayer pl info acts h) U -> acts <> [] /\ NoDup acts) /\
    (forall pl info acts acts' h h',
       In (OPlayer pl info acts h) U -> In (OPlayer pl info acts' h') U ->
       acts = acts' /\ ((2 <= length acts)%nat -> last_opt h = last_opt h')).
Proof. intros NN t. reflexivity. Qed.

(** Non-vacuity: matching pennies with a shared infoset is accepted and satisfies every
    conclusion; a forgetful player is rejected with the right blame; proportional shared
    chance weights are accepted into one chance row. *)
Example C11_example_accepted :
  exists g, from_root matching_pennies = Ok g /\ WFgame g /\ PerfectRecall g /\ ChanceOK g
            /\ Contract matching_pennies.
Proof. exact matching_pennies_sound. Qed.

Example C11_example_rejected :
  from_root forgetful = Err ImperfectRecall /\ Blame ImperfectRecall forgetful /\ ~ Contract forgetful.
Proof. split; [exact forgetful_rejected|exact forgetful_blamed]. Qed.

Example C11_example_shared_chance :
  exists g, from_root shared_chance = Ok g /\ ChanceOK g /\ length (g_chance g) = 1%nat.
Proof. exact shared_chance_accepted. Qed.

Print Assumptions C11_accepts_iff_contract.
Print Assumptions C11_complete_any_number_type.
Print Assumptions C11_blame.
Print Assumptions C11_rejected_not_contract.
Print Assumptions C11_sound.
Print Assumptions C11_sound_any_number_type.
Print Assumptions C11_data_ok_any_number_type.
Print Assumptions C11_contract_full_history.
Print Assumptions C11_contract_meaning.
Print Assumptions C11_example_accepted.
Print Assumptions C11_example_rejected.
Print Assumptions C11_example_shared_chance.
