(** * C10 at binary64 — the categorical sampler computed by the executed instance itself.

    Statements only; proofs are in [theories/MiscFloat.v].  "The categorical sampler returns index k exactly
    when its uniform variate lies in the k-th cumulative-probability interval": over the reals that is
    [Properties/C10.v]; the code subtracts the weights from the variate one after the other in binary64.
    [fresid probs u j] is the residual after [j] subtractions.  Proved for [@categorical FNum]:
    - the index is always in range; the exact characterisation by the residual chain, for every input
      (NaN, infinities included);
    - when no subtraction rounds — in particular for weights and variates on the grid of multiples of
      [2^-53], which is exactly the range of [rng.gen::<f64>()] — the result is the index of the cumulative
      interval of the real-number specification;
    - the index is monotone in the variate;
    and the theory file exhibits ([ex_cat_rounding]) a row (0.2, 0.75, 0.05) and a possible variate for
    which rounding makes the binary64 sampler return index 1 where the exact interval rule gives 2 — the
    deviation is always towards the smaller index. *)
From Coq Require Import List ZArith Reals Floats Bool.
From Flocq Require Import Core.
From Cfr.theories Require Import Num FInst RInst Tree Strat Solve SolveValidProofs TruncFloat MiscFloat.
Import ListNotations.
Local Open Scope R_scope.
Local Notation float := PrimFloat.float.

Theorem C10_binary64_index_in_range : forall (probs : list float) (u : float),
  probs <> [] -> (@categorical FNum probs u < length probs)%nat.
Proof. exact categorical_float_range. Qed.

Theorem C10_binary64_residual_spec : forall (probs : list float) (u : float) (k : nat),
  probs <> [] ->
  (@categorical FNum probs u = k <->
   (k <= length probs - 1)%nat /\
   (forall j, (j < k)%nat -> PrimFloat.ltb (nth j probs 0%float) (fresid probs u j) = true) /\
   (k = (length probs - 1)%nat \/
    PrimFloat.ltb (nth k probs 0%float) (fresid probs u k) = false)).
Proof. exact categorical_float_resid_spec. Qed.

Theorem C10_binary64_interval_when_exact : forall (probs : list float) (u : float) (k : nat),
  probs <> [] -> Forall fnn probs -> Ffin u ->
  (forall j, (S j < length probs)%nat ->
     cumul (map FR probs) (S j) < FR u -> fmt (FR u - cumul (map FR probs) (S j))) ->
  (@categorical FNum probs u = k <->
   (k <= length probs - 1)%nat /\
   (k = 0%nat \/ cumul (map FR probs) k < FR u) /\
   (k = (length probs - 1)%nat \/ FR u <= cumul (map FR probs) (S k))).
Proof. exact categorical_float_exact_interval. Qed.

Theorem C10_binary64_interval_on_the_grid : forall (probs : list float) (u : float) (k : nat),
  probs <> [] -> Forall fnn probs -> Forall grid53 probs ->
  Ffin u -> FR u <= 1 -> grid53 u ->
  @categorical FNum probs u = @categorical RNum (map FR probs) (FR u) /\
  (@categorical FNum probs u = k <->
   (k <= length probs - 1)%nat /\
   (k = 0%nat \/ cumul (map FR probs) k < FR u) /\
   (k = (length probs - 1)%nat \/ FR u <= cumul (map FR probs) (S k))).
Proof. exact categorical_float_dyadic. Qed.

Theorem C10_binary64_monotone : forall (probs : list float) (u u' : float),
  Forall fnn probs -> PrimFloat.leb u u' = true ->
  (@categorical FNum probs u <= @categorical FNum probs u')%nat.
Proof. exact categorical_float_mono. Qed.

Print Assumptions C10_binary64_index_in_range.
Print Assumptions C10_binary64_residual_spec.
Print Assumptions C10_binary64_interval_when_exact.
Print Assumptions C10_binary64_interval_on_the_grid.
Print Assumptions C10_binary64_monotone.
