(** * C05 at binary64 — the two places where the solvers produce strategy rows, for the executed instance.

    Statements only; proofs are in [theories/NormFloat.v].  [avg_strat] (the returned profile) and
    [regret_match] (the current strategy) at [FNum]:
    - [avg_strat] maps every finite non-negative accumulated strategy to a row of finite numbers in
      [0,1] — both branches, no hypothesis on the sum — and, when the sum is finite and positive,
      to a row summing to one within [(2n+2) * 2^-53];
    - [regret_match] on finite regrets returns a row of finite numbers in [0,1] in its main branch
      (some positive regret), its uniform fallback and both arg-max / arg-min fallbacks; the softmax
      fallback goes through the Gallina [fexp] and is outside these theorems.
    What the theorems make visible (and the known finding D13 records): when the positive regrets /
    the accumulated strategy of an infoset sum to +infinity (|payoff| ~ 1e308), every quotient is 0 and
    the row is all zeros — valid entries but not a distribution; the sum-to-one statements therefore
    assume a finite sum. *)
From Coq Require Import List ZArith Reals Floats Bool.
From Flocq Require Import Core.
From Cfr.theories Require Import Num FInst Tree Strat Solve TruncFloat NormFloat.
Import ListNotations.
Local Open Scope R_scope.
Local Notation float := PrimFloat.float.

Theorem C05_binary64_returned_rows_valid : forall cum : list float,
  Forall finnn cum ->
  (Z.of_nat (length cum) < 2 ^ 53)%Z ->
  Forall fin01 (@avg_strat FNum cum).
Proof. exact avg_strat_float_valid. Qed.

Theorem C05_binary64_returned_rows_sum : forall cum : list float,
  Forall finnn cum -> (Z.of_nat (length cum) < 2 ^ 53)%Z ->
  Ffin (@sum FNum cum) -> 0 < FR (@sum FNum cum) ->
  Rabs (RS (@avg_strat FNum cum) - 1) <= (2 * INR (length cum) + 2) * bpow radix2 (-53).
Proof. exact avg_strat_float_sum. Qed.

Theorem C05_binary64_regret_matching_valid : forall (p : @params FNum) (cum_reg : list float),
  Forall Ffin cum_reg ->
  (Z.of_nat (length cum_reg) < 2 ^ 53)%Z ->
  let norm := @sum FNum (filter (fun v => ltb FNum (zero FNum) v) cum_reg) in
  (ltb FNum (zero FNum) norm = true \/
   match a_nopos p with Fin w => eqb FNum w (zero FNum) = true | _ => True end) ->
  Forall fin01 (@regret_match FNum p cum_reg).
Proof. exact regret_match_float_valid. Qed.

Theorem C05_binary64_regret_matching_sum : forall (p : @params FNum) (cum_reg : list float),
  Forall Ffin cum_reg -> (Z.of_nat (length cum_reg) < 2 ^ 53)%Z ->
  let norm := @sum FNum (filter (fun v => ltb FNum (zero FNum) v) cum_reg) in
  Ffin norm -> 0 < FR norm ->
  Rabs (RS (@regret_match FNum p cum_reg) - 1)
  <= (2 * INR (length cum_reg) + 2) * bpow radix2 (-53).
Proof. exact regret_match_float_sum. Qed.

Theorem C05_binary64_no_positive_regret_means_none : forall cum_reg : list float,
  Forall Ffin cum_reg ->
  ltb FNum (zero FNum) (@sum FNum (filter (fun v => ltb FNum (zero FNum) v) cum_reg)) = false ->
  forall r, In r cum_reg -> FR r <= 0.
Proof. exact regret_match_float_nopos. Qed.

Print Assumptions C05_binary64_returned_rows_valid.
Print Assumptions C05_binary64_returned_rows_sum.
Print Assumptions C05_binary64_regret_matching_valid.
Print Assumptions C05_binary64_regret_matching_sum.
Print Assumptions C05_binary64_no_positive_regret_means_none.
