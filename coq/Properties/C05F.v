(** * C05 at binary64 — the two places where the solvers produce strategy rows, for the executed instance.

    Statements only; proofs are in [theories/NormFloat.v].  [avg_strat] (the returned profile) and
    [regret_match] (the current strategy) at [FNum]:
    - [avg_strat] maps every finite non-negative accumulated strategy to a row of finite numbers in
      [0,1] — both branches, no hypothesis on the sum — and, when the sum is finite and positive,
      to a row summing to one within [(2n+2) * 2^-53];
    - [regret_match] on finite regrets returns a row of finite numbers in [0,1] in its main branch
      (some positive regret), its uniform fallback and both arg-max / arg-min fallbacks; the softmax
      fallback goes through the Gallina [fexp] and is outside these theorems.
    What the theorems make visible (and the known finding D13 records): when the positive regrets /
    the accumulated strategy of an infoset sum to +infinity (|payoff| ~ 1e308), every quotient is 0 and
    the row is all zeros — valid entries but not a distribution; the sum-to-one statements therefore
    assume a finite sum. *)
From Coq Require Import List ZArith Reals Floats Bool.
From Flocq Require Import Core.
From Cfr.theories Require Import Num FInst Tree Strat Solve TruncFloat NormFloat EvalFloat SolveFloat ExternalFloat.
Import ListNotations.
Local Open Scope R_scope.
Local Notation float := PrimFloat.float.

Theorem C05_binary64_returned_rows_valid : forall cum : list float,
  Forall finnn cum ->
  (Z.of_nat (length cum) < 2 ^ 53)%Z ->
  Forall fin01 (@avg_strat FNum cum).
Proof. exact avg_strat_float_valid. Qed.

Theorem C05_binary64_returned_rows_sum : forall cum : list float,
  Forall finnn cum -> (Z.of_nat (length cum) < 2 ^ 53)%Z ->
  Ffin (@sum FNum cum) -> 0 < FR (@sum FNum cum) ->
  Rabs (RS (@avg_strat FNum cum) - 1) <= (2 * INR (length cum) + 2) * bpow radix2 (-53).
Proof. exact avg_strat_float_sum. Qed.

Theorem C05_binary64_regret_matching_valid : forall (p : @params FNum) (cum_reg : list float),
  Forall Ffin cum_reg ->
  (Z.of_nat (length cum_reg) < 2 ^ 53)%Z ->
  let norm := @sum FNum (filter (fun v => ltb FNum (zero FNum) v) cum_reg) in
  (ltb FNum (zero FNum) norm = true \/
   match a_nopos p with Fin w => eqb FNum w (zero FNum) = true | _ => True end) ->
  Forall fin01 (@regret_match FNum p cum_reg).
Proof. exact regret_match_float_valid. Qed.

Theorem C05_binary64_regret_matching_sum : forall (p : @params FNum) (cum_reg : list float),
  Forall Ffin cum_reg -> (Z.of_nat (length cum_reg) < 2 ^ 53)%Z ->
  let norm := @sum FNum (filter (fun v => ltb FNum (zero FNum) v) cum_reg) in
  Ffin norm -> 0 < FR norm ->
  Rabs (RS (@regret_match FNum p cum_reg) - 1)
  <= (2 * INR (length cum_reg) + 2) * bpow radix2 (-53).
Proof. exact regret_match_float_sum. Qed.

Theorem C05_binary64_no_positive_regret_means_none : forall cum_reg : list float,
  Forall Ffin cum_reg ->
  ltb FNum (zero FNum) (@sum FNum (filter (fun v => ltb FNum (zero FNum) v) cum_reg)) = false ->
  forall r, In r cum_reg -> FR r <= 0.
Proof. exact regret_match_float_nopos. Qed.


(** ** the whole solve (round 3, [theories/SolveFloat.v]): no NaN and no infinity can arise while the accumulated
    regret stays within the binary64 range.  For the unsampled and the chance-sampled method (any oracle, any stop
    predicate), payoffs bounded by a power of two [2^e], chance rows of finite entries in [0,1]: every value returned by
    a traversal is finite and at most [leaves * 2^e], every cumulative regret moves by at most [rcount * 2^e] per
    iteration, every accumulated strategy stays finite and non-negative; hence, as long as
    [reg_cap g T * 2^e < 2^1024] (the explicit form of "2 * D * T * size is within range" — the positive counterpart
    of the known finding D13, whose overflow the theory file reproduces as an Example), the returned profile consists
    of finite numbers in [0,1] and the returned bounds are finite and non-negative.  Proved for the vanilla and the
    CFR+ parameters outright, and for every parameter tuple whose discount factors are numbers in [0,1] and whose
    fallback is not the softmax (those go through exp/ln, which these theorems do not analyse).
    External sampling: see the last section of this file ([theories/ExternalFloat.v]). *)
Theorem C05_binary64_traversal_finite : forall (e : Z) (Mx Ms : nat),
  (-1074 <= e)%Z ->
  (Z.of_nat Mx < 2 ^ 53)%Z -> INR Mx * bpow radix2 e < bpow radix2 emax ->
  (Z.of_nat Ms < 2 ^ 53)%Z ->
  forall (chance : list (list float)) (sampled : bool) (draw : @oracle FNum) (pass : N),
  TblOK chance ->
  forall n : @node FNum, PayOK (bpow radix2 e) n ->
  VPf e Mx Ms (@vrec FNum chance sampled draw pass) n.
Proof. exact vrec_float_ok. Qed.

Theorem C05_binary64_solve_vanilla_valid :
  forall (g : @Tree.game FNum) (m : method) (draw : @oracle FNum) (budget : nat)
         (stop : float -> bool) (e : Z),
  m <> External ->
  TblOK (g_chance g) -> arities_small g -> (-1074 <= e)%Z ->
  PayOK (bpow radix2 e) (g_root g) ->
  (Z.of_nat budget < 2 ^ 53)%Z ->
  (Z.of_nat (budget * scount (g_root g)) < 2 ^ 53)%Z ->
  (Z.of_nat (reg_cap g budget) < 2 ^ 53)%Z ->
  INR (reg_cap g budget) * bpow radix2 e < bpow radix2 emax ->
  let res := @solve_single FNum g m draw (@p_vanilla FNum) budget stop in
  Forall fin01 (fst (fst (fst res))) /\
  Forall fin01 (snd (fst (fst res))) /\
  match snd (fst res) with
  | None => True
  | Some (r1, r2) =>
      (Ffin r1 /\ 0 <= FR r1 <= INR (reg_cap g budget) * bpow radix2 e) /\
      (Ffin r2 /\ 0 <= FR r2 <= INR (reg_cap g budget) * bpow radix2 e)
  end.
Proof. exact solve_single_float_valid. Qed.

Theorem C05_binary64_solve_cfr_plus_valid :
  forall (g : @Tree.game FNum) (m : method) (draw : @oracle FNum) (budget : nat)
         (stop : float -> bool) (e : Z),
  m <> External ->
  TblOK (g_chance g) -> arities_small g -> (-1074 <= e)%Z ->
  PayOK (bpow radix2 e) (g_root g) ->
  (Z.of_nat budget + 1 < 2 ^ 53)%Z ->
  (Z.of_nat (budget * scount (g_root g)) < 2 ^ 53)%Z ->
  (Z.of_nat (reg_cap g budget) < 2 ^ 53)%Z ->
  INR (reg_cap g budget) * bpow radix2 e < bpow radix2 emax ->
  let res := @solve_single FNum g m draw (@p_cfr_plus FNum) budget stop in
  Forall fin01 (fst (fst (fst res))) /\
  Forall fin01 (snd (fst (fst res))) /\
  match snd (fst res) with
  | None => True
  | Some (r1, r2) =>
      (Ffin r1 /\ 0 <= FR r1 <= INR (reg_cap g budget) * bpow radix2 e) /\
      (Ffin r2 /\ 0 <= FR r2 <= INR (reg_cap g budget) * bpow radix2 e)
  end.
Proof. exact solve_single_float_valid_cfr_plus. Qed.

Theorem C05_binary64_solve_any_params_valid :
  forall (g : @Tree.game FNum) (m : method) (draw : @oracle FNum) (p : @params FNum)
         (budget : nat) (stop : float -> bool) (e : Z),
  m <> External ->
  nosoftmax p ->
  (forall k : nat, (k < budget)%nat -> disc_ok p (N.of_nat (S k)) (N.of_nat (S k))) ->
  TblOK (g_chance g) -> arities_small g -> (-1074 <= e)%Z ->
  PayOK (bpow radix2 e) (g_root g) ->
  (Z.of_nat budget < 2 ^ 53)%Z ->
  (Z.of_nat (budget * scount (g_root g)) < 2 ^ 53)%Z ->
  (Z.of_nat (reg_cap g budget) < 2 ^ 53)%Z ->
  INR (reg_cap g budget) * bpow radix2 e < bpow radix2 emax ->
  let res := @solve_single FNum g m draw p budget stop in
  Forall fin01 (fst (fst (fst res))) /\
  Forall fin01 (snd (fst (fst res))) /\
  match snd (fst res) with
  | None => True
  | Some (r1, r2) =>
      (Ffin r1 /\ 0 <= FR r1 <= INR (reg_cap g budget) * bpow radix2 e) /\
      (Ffin r2 /\ 0 <= FR r2 <= INR (reg_cap g budget) * bpow radix2 e)
  end.
Proof. exact solve_single_float_valid_params. Qed.

(** ** External sampling, and every method at once ([theories/ExternalFloat.v]).  A pass of [erec] for the updating
    player moves only that player's cumulative regrets (by at most [rcount * 2^e]) and only the opponent's accumulated
    strategy, for every oracle (in range or not) and any chance table; the two passes of an external iteration move
    each accumulator exactly as far as one iteration of the other methods, so the same cap [reg_cap] serves the three
    methods.  One more hypothesis for [External] with general parameters: player one's first [advance] discounts the
    average strategy with iteration number 0 ([external.rs]: [if FIRST { it - 1 } else { it }]), so that factor must be
    a number in [0,1] too ([strat_factor_ok p 0]; proved for vanilla and CFR+). *)
Theorem C05_binary64_external_pass_finite : forall (e : Z) (Mx Ms : nat),
  (-1074 <= e)%Z ->
  (Z.of_nat Mx < 2 ^ 53)%Z -> INR Mx * bpow radix2 e < bpow radix2 emax ->
  (Z.of_nat Ms < 2 ^ 53)%Z ->
  forall (chance : list (list float)) (draw : @oracle FNum) (cpass ppass : N) (noff : nat) (me : bool),
  forall n : @node FNum, PayOK (bpow radix2 e) n ->
  forall (st : @pstate FNum) (ra sa rp sp : nat),
  StOK2 e me ra sa rp sp st ->
  (nleaves n <= Mx)%nat -> (ra + rcount n <= Mx)%nat -> (sp + scount n <= Ms)%nat ->
  let r := @erec FNum chance draw cpass ppass noff me n st in
  Ffin (fst r) /\ Rabs (FR (fst r)) <= INR (nleaves n) * bpow radix2 e /\
  StOK2 e me (ra + rcount n) sa rp (sp + scount n) (snd r).
Proof. exact erec_float_finite. Qed.

Theorem C05_binary64_solve_every_method_vanilla_valid :
  forall (g : @Tree.game FNum) (m : method) (draw : @oracle FNum) (budget : nat)
         (stop : float -> bool) (e : Z),
  TblOK (g_chance g) -> arities_small g -> (-1074 <= e)%Z ->
  PayOK (bpow radix2 e) (g_root g) ->
  (Z.of_nat budget < 2 ^ 53)%Z ->
  (Z.of_nat (budget * scount (g_root g)) < 2 ^ 53)%Z ->
  (Z.of_nat (reg_cap g budget) < 2 ^ 53)%Z ->
  INR (reg_cap g budget) * bpow radix2 e < bpow radix2 emax ->
  let res := @solve_single FNum g m draw (@p_vanilla FNum) budget stop in
  Forall fin01 (fst (fst (fst res))) /\
  Forall fin01 (snd (fst (fst res))) /\
  match snd (fst res) with
  | None => True
  | Some (r1, r2) =>
      (Ffin r1 /\ 0 <= FR r1 <= INR (reg_cap g budget) * bpow radix2 e) /\
      (Ffin r2 /\ 0 <= FR r2 <= INR (reg_cap g budget) * bpow radix2 e)
  end.
Proof. exact solve_single_float_valid_all. Qed.

Theorem C05_binary64_solve_every_method_cfr_plus_valid :
  forall (g : @Tree.game FNum) (m : method) (draw : @oracle FNum) (budget : nat)
         (stop : float -> bool) (e : Z),
  TblOK (g_chance g) -> arities_small g -> (-1074 <= e)%Z ->
  PayOK (bpow radix2 e) (g_root g) ->
  (Z.of_nat budget + 1 < 2 ^ 53)%Z ->
  (Z.of_nat (budget * scount (g_root g)) < 2 ^ 53)%Z ->
  (Z.of_nat (reg_cap g budget) < 2 ^ 53)%Z ->
  INR (reg_cap g budget) * bpow radix2 e < bpow radix2 emax ->
  let res := @solve_single FNum g m draw (@p_cfr_plus FNum) budget stop in
  Forall fin01 (fst (fst (fst res))) /\
  Forall fin01 (snd (fst (fst res))) /\
  match snd (fst res) with
  | None => True
  | Some (r1, r2) =>
      (Ffin r1 /\ 0 <= FR r1 <= INR (reg_cap g budget) * bpow radix2 e) /\
      (Ffin r2 /\ 0 <= FR r2 <= INR (reg_cap g budget) * bpow radix2 e)
  end.
Proof. exact solve_single_float_valid_cfr_plus_all. Qed.

Theorem C05_binary64_solve_every_method_any_params_valid :
  forall (g : @Tree.game FNum) (m : method) (draw : @oracle FNum) (p : @params FNum)
         (budget : nat) (stop : float -> bool) (e : Z),
  nosoftmax p ->
  (forall k : nat, (k < budget)%nat -> disc_ok p (N.of_nat (S k)) (N.of_nat (S k))) ->
  (m = External -> strat_factor_ok p 0%N) ->
  TblOK (g_chance g) -> arities_small g -> (-1074 <= e)%Z ->
  PayOK (bpow radix2 e) (g_root g) ->
  (Z.of_nat budget < 2 ^ 53)%Z ->
  (Z.of_nat (budget * scount (g_root g)) < 2 ^ 53)%Z ->
  (Z.of_nat (reg_cap g budget) < 2 ^ 53)%Z ->
  INR (reg_cap g budget) * bpow radix2 e < bpow radix2 emax ->
  let res := @solve_single FNum g m draw p budget stop in
  Forall fin01 (fst (fst (fst res))) /\
  Forall fin01 (snd (fst (fst res))) /\
  match snd (fst res) with
  | None => True
  | Some (r1, r2) =>
      (Ffin r1 /\ 0 <= FR r1 <= INR (reg_cap g budget) * bpow radix2 e) /\
      (Ffin r2 /\ 0 <= FR r2 <= INR (reg_cap g budget) * bpow radix2 e)
  end.
Proof. exact solve_single_float_valid_params_all. Qed.

(** non-vacuity: the example game of [SolveFloat.v] solved by external sampling for ten iterations under an oracle that
    alternates children; all hypotheses discharged by the decidable checkers *)
Example C05_binary64_external_example_runs :
  let res := @solve_single FNum exs_g External exe_draw (@p_vanilla FNum) 10 (fun _ => false) in
  Forall fin01 (fst (fst (fst res))) /\ Forall fin01 (snd (fst (fst res))) /\
  match snd (fst res) with None => True | Some (r1, r2) => finnn r1 /\ finnn r2 end.
Proof. exact exe_valid. Qed.

Print Assumptions C05_binary64_traversal_finite.
Print Assumptions C05_binary64_solve_vanilla_valid.
Print Assumptions C05_binary64_solve_cfr_plus_valid.
Print Assumptions C05_binary64_solve_any_params_valid.

Print Assumptions C05_binary64_returned_rows_valid.
Print Assumptions C05_binary64_returned_rows_sum.
Print Assumptions C05_binary64_regret_matching_valid.
Print Assumptions C05_binary64_regret_matching_sum.
Print Assumptions C05_binary64_no_positive_regret_means_none.
Print Assumptions C05_binary64_external_pass_finite.
Print Assumptions C05_binary64_solve_every_method_vanilla_valid.
Print Assumptions C05_binary64_solve_every_method_cfr_plus_valid.
Print Assumptions C05_binary64_solve_every_method_any_params_valid.
Print Assumptions C05_binary64_external_example_runs.
