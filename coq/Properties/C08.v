(** * C08 — The update rules mean what the documentation says.

    Statements only; proofs are in [theories/RulesProofs.v].  The model functions are
    those of [Solve.v] for [RegretParams] ([solve/data.rs]): [gen_discount],
    [discount_cum_regret], [discount_average_strat], [regret_match],
    [cum_regret_bound], [advance], and the presets, read at the real-number instance.
    The four parameters are extended reals [NegInf | Fin x | PosInf].

    Notation: [INR (N.to_nat t)] is the iteration number [t] as a real;
    [Rpower x y = exp (y * ln x)] is the real power (genuine for [x > 0], which is the
    case for [t >= 1]); [posnorm regs] is the sum of the positive entries of [regs]. *)
From Coq Require Import Reals List NArith Bool Lra Lia.
From Cfr.theories Require Import Num RInst Tree Strat Eval Solve RulesProofs.
Import ListNotations.
Open Scope R_scope.

(** ** 4. Discount factor: [t^a / (t^a + 1)], and 0, 1/2, 1 for an exponent of
       [-inf], [0], [+inf]. *)
Theorem C08_gen_discount_spec :
  forall t : N, (1 <= t)%N ->
    0 < INR (N.to_nat t) /\
    (forall a : R,
        @gen_discount RNum t (@Fin RNum a) =
        Rpower (INR (N.to_nat t)) a / (Rpower (INR (N.to_nat t)) a + 1)) /\
    @gen_discount RNum t NegInf = 0 /\
    @gen_discount RNum t (@Fin RNum 0) = 1 / 2 /\
    @gen_discount RNum t PosInf = 1.
Proof. exact gen_discount_spec. Qed.

(** for a natural exponent the power is the ordinary one *)
Theorem C08_gen_discount_nat :
  forall (t : N) (n : nat), (1 <= t)%N ->
    @gen_discount RNum t (@Fin RNum (INR n)) =
    INR (N.to_nat t) ^ n / (INR (N.to_nat t) ^ n + 1).
Proof. exact gen_discount_nat. Qed.

Theorem C08_gen_discount_range :
  forall (t : N) (d : @ext RNum), 0 <= @gen_discount RNum t d <= 1.
Proof. exact gen_discount_range. Qed.

(** ** 5. Positive cumulative regrets are multiplied by the alpha factor, negative
       ones by the beta factor, zeros are fixed. *)
Theorem C08_discount_regret_spec :
  forall (p : @params RNum) (t : N) (regs : list R),
    @discount_cum_regret RNum p t regs =
    map (fun r => if Rlt_dec 0 r then r * @gen_discount RNum t (a_pos p)
                  else if Rlt_dec r 0 then r * @gen_discount RNum t (a_neg p)
                       else r) regs.
Proof. exact discount_cum_regret_spec. Qed.

(** ** 6. The average strategy is multiplied by [(t/(t+1))^g] after iteration [t]
       ([g > 0]), unchanged for [g = 0] ... *)
Theorem C08_avg_weight_spec :
  forall (p : @params RNum) (t : N) (g : R) (avg : list R),
    a_strat p = @Fin RNum g ->
    (0 < g -> (1 <= t)%N ->
     @discount_average_strat RNum p t avg =
     map (fun a => a * Rpower (INR (N.to_nat t) / (INR (N.to_nat t) + 1)) g) avg) /\
    (0 < g -> @discount_average_strat RNum p 0%N avg = map (fun a => a * 0) avg) /\
    (g <= 0 -> @discount_average_strat RNum p t avg = avg).
Proof. exact avg_weight_spec. Qed.

(** (the two values excluded by [RegretParams::new]) *)
Theorem C08_avg_weight_infinite :
  forall (p : @params RNum) (t : N) (avg : list R),
    (a_strat p = PosInf -> @discount_average_strat RNum p t avg = map (fun _ => 0) avg) /\
    (a_strat p = NegInf -> @discount_average_strat RNum p t avg = avg).
Proof. exact discount_average_strat_inf. Qed.

(** ... which is equivalent to weighting iteration [s] by [s^g].  The product of the
    ratios for [t = s .. T] telescopes: [ratio_prod g s n] is
    [prod_{t=s}^{s+n-1} (t/(t+1))^g]. *)
Theorem C08_ratio_prod_def :
  forall g s n,
    ratio_prod g s 0 = 1 /\
    ratio_prod g s (S n) = Rpower (INR s / (INR s + 1)) g * ratio_prod g (S s) n.
Proof. intros; split; reflexivity. Qed.

Theorem C08_avg_weight_product :
  forall (g : R) (s T : nat), (1 <= s <= T)%nat ->
    ratio_prod g s (T - s + 1) = Rpower (INR s / INR (T + 1)) g /\
    ratio_prod g s (T - s + 1) = Rpower (INR s) g / Rpower (INR (T + 1)) g.
Proof. exact ratio_prod_telescope. Qed.

Theorem C08_avg_weight_product_general :
  forall (g : R) (s n : nat), (1 <= s)%nat ->
    ratio_prod g s n = Rpower (INR s / INR (s + n)) g.
Proof. exact ratio_prod_spec. Qed.

(** [discount_iter p s n] applies the model's discount with [t = s, s+1, .., s+n-1].
    In the vanilla methods the traversal of iteration [s] adds to [cum_strat] and
    the same iteration then discounts with [t = s] (see [C08_iteration_numbers]),
    so after iteration [T] a contribution of iteration [s] has been discounted with
    [t = s .. T] and carries the weight [(s/(T+1))^g = s^g / (T+1)^g]. *)
Theorem C08_discount_iter_def :
  forall (p : @params RNum) s n (avg : list R),
    discount_iter p s 0 avg = avg /\
    discount_iter p s (S n) avg =
    discount_iter p (S s) n (@discount_average_strat RNum p (N.of_nat s) avg).
Proof. intros; split; reflexivity. Qed.

Theorem C08_avg_weight_telescope :
  forall (p : @params RNum) (g : R) (s T : nat) (avg : list R),
    a_strat p = @Fin RNum g -> 0 < g -> (1 <= s <= T)%nat ->
    discount_iter p s (T - s + 1) avg =
    map (fun a => a * (Rpower (INR s) g / Rpower (INR (T + 1)) g)) avg.
Proof. exact discount_iter_weight. Qed.

Theorem C08_avg_weight_telescope_general :
  forall (p : @params RNum) (g : R) (s n : nat) (avg : list R),
    a_strat p = @Fin RNum g -> 0 < g -> (1 <= s)%nat ->
    discount_iter p s n avg = map (fun a => a * Rpower (INR s / INR (s + n)) g) avg.
Proof. exact discount_iter_general. Qed.

(** ** 7. Regret matching *)
(** (a) some regret positive: proportional to the positive part *)
Theorem C08_regret_match_positive :
  forall (p : @params RNum) (regs : list R),
    (exists r, In r regs /\ 0 < r) ->
    0 < posnorm regs /\
    @regret_match RNum p regs =
    map (fun r => if Rlt_dec 0 r then r / posnorm regs else 0) regs.
Proof. exact regret_match_pos. Qed.

Theorem C08_posnorm_def :
  forall regs : list R, posnorm regs = Rsum (filter (fun v => Rltb 0 v) regs).
Proof. reflexivity. Qed.

(** (b) no positive regret, weight 0: uniform *)
Theorem C08_regret_match_uniform :
  forall (p : @params RNum) (regs : list R),
    (forall r, In r regs -> r <= 0) -> a_nopos p = @Fin RNum 0 ->
    @regret_match RNum p regs = map (fun _ => 1 / INR (length regs)) regs.
Proof. exact regret_match_uniform. Qed.

(** (c) no positive regret, finite non-zero weight [w]: softmax of [w * regret] *)
Theorem C08_regret_match_softmax :
  forall (p : @params RNum) (w : R) (regs : list R),
    (forall r, In r regs -> r <= 0) -> a_nopos p = @Fin RNum w -> w <> 0 ->
    @regret_match RNum p regs =
    map (fun r => Rtrigo_def.exp (w * r) /
                  Rsum (map (fun b => Rtrigo_def.exp (w * b)) regs)) regs.
Proof. exact regret_match_softmax. Qed.

(** (d) no positive regret, weight [+inf]: the LAST action attaining the maximum *)
Theorem C08_regret_match_best :
  forall (p : @params RNum) (regs : list R),
    (forall r, In r regs -> r <= 0) -> a_nopos p = PosInf -> regs <> [] ->
    exists k,
      (k < length regs)%nat /\
      (forall j, (j < length regs)%nat -> nth j regs 0 <= nth k regs 0) /\
      (forall j, (k < j < length regs)%nat -> nth j regs 0 < nth k regs 0) /\
      @regret_match RNum p regs =
      map (fun j => if Nat.eqb j k then 1 else 0) (seq 0 (length regs)).
Proof. exact regret_match_best. Qed.

(** (e) no positive regret, weight [-inf]: the FIRST action attaining the minimum *)
Theorem C08_regret_match_worst :
  forall (p : @params RNum) (regs : list R),
    (forall r, In r regs -> r <= 0) -> a_nopos p = NegInf -> regs <> [] ->
    exists k,
      (k < length regs)%nat /\
      (forall j, (j < length regs)%nat -> nth k regs 0 <= nth j regs 0) /\
      (forall j, (j < k)%nat -> nth k regs 0 < nth j regs 0) /\
      @regret_match RNum p regs =
      map (fun j => if Nat.eqb j k then 1 else 0) (seq 0 (length regs)).
Proof. exact regret_match_worst. Qed.

Theorem C08_regret_match_length :
  forall (p : @params RNum) (regs : list R),
    length (@regret_match RNum p regs) = length regs.
Proof. exact regret_match_length. Qed.

(** the index scans themselves, as called by [regret_match] on [v :: r] *)
Theorem C08_argmax_last_spec :
  forall (v : R) (r : list R),
    let l := v :: r in
    let k := @argmax_last RNum r 1 0 v in
    (k < length l)%nat /\
    (forall j, (j < length l)%nat -> nth j l 0 <= nth k l 0) /\
    (forall j, (k < j < length l)%nat -> nth j l 0 < nth k l 0).
Proof. exact argmax_last_top. Qed.

Theorem C08_argmin_first_spec :
  forall (v : R) (r : list R),
    let l := v :: r in
    let k := @argmin_first RNum r 1 0 v in
    (k < length l)%nat /\
    (forall j, (j < length l)%nat -> nth k l 0 <= nth j l 0) /\
    (forall j, (j < k)%nat -> nth k l 0 < nth j l 0).
Proof. exact argmin_first_top. Qed.

(** ** 8. Order of operations in [advance]: the next strategy is matched from the
       UNdiscounted regret, the bound is computed from the discounted one. *)
Theorem C08_advance_order :
  forall (p : @params RNum) (it it_avg : N) (ri : @rinfo RNum),
    @advance RNum p it it_avg ri =
    (mkRinfo (discount_cum_regret p it (cum_regret ri))
             (discount_average_strat p it_avg (cum_strat ri))
             (regret_match p (cum_regret ri)),
     cum_regret_bound it (discount_cum_regret p it (cum_regret ri))).
Proof. exact advance_order. Qed.

(** The order is immaterial for the next strategy whenever it could matter for the
    textbook reading: with some positive regret and a positive alpha factor
    (alpha <> -inf) matching the discounted regret gives the same strategy. *)
Theorem C08_match_before_or_after_discount :
  forall (p : @params RNum) (t : N) (regs : list R),
    (exists r, In r regs /\ 0 < r) -> a_pos p <> NegInf ->
    @regret_match RNum p (@discount_cum_regret RNum p t regs) = @regret_match RNum p regs.
Proof. exact regret_match_discount_invariant. Qed.

Theorem C08_gen_discount_positive :
  forall (t : N) (d : @ext RNum), d <> NegInf -> 0 < @gen_discount RNum t d.
Proof. exact gen_discount_pos. Qed.

Theorem C08_bound_spec :
  forall (it : N) (cr : list R),
    @cum_regret_bound RNum it cr =
    2 * Rmax (match cr with [] => 0 | x :: r => fold_left Rmax r x end) 0 / INR (N.to_nat it).
Proof. exact cum_regret_bound_unfold. Qed.

Theorem C08_bound_is_max :
  forall (it : N) (cr : list R), cr <> [] ->
    exists mx, In mx cr /\ (forall y, In y cr -> y <= mx) /\
               @cum_regret_bound RNum it cr = 2 * Rmax mx 0 / INR (N.to_nat it).
Proof. exact cum_regret_bound_spec. Qed.

(** which iteration numbers reach [advance]: [(it, it)] in the vanilla methods; in the
    external method player one's average strategy is discounted with [it - 1]
    (its contributions are added during player two's pass, after this advance) *)
Theorem C08_iteration_numbers :
  (forall (g : @game RNum) sampled (draw : @oracle RNum) (p : @params RNum) it st,
      @vanilla_iter RNum g sampled draw p it st =
      let st1 := snd (vrec (g_chance g) sampled draw (it - 1)%N (g_root g) 1 1 1 st) in
      let '(l1, r1) := advance_all p it it (fst st1) 0 in
      let '(l2, r2) := advance_all p it it (snd st1) 0 in
      ((l1, l2), (r1, r2))) /\
  (forall (g : @game RNum) (draw : @oracle RNum) (p : @params RNum) it st,
      @external_iter RNum g draw p it st =
      let noff := length (g_infos1 g) in
      let st1 := snd (erec (g_chance g) draw (2 * (it - 1))%N (it - 1)%N noff true (g_root g) st) in
      let '(l1, r1) := advance_all p it (it - 1)%N (fst st1) 0 in
      let st3 := snd (erec (g_chance g) draw (2 * (it - 1) + 1)%N it noff false (g_root g)
                           (l1, snd st1)) in
      let '(l2, r2) := advance_all p it it (snd st3) 0 in
      ((fst st3, l2), (r1, r2))).
Proof. split; [exact vanilla_iter_unfold|exact external_iter_unfold]. Qed.

(** ** 9. The named presets are the documented tuples
       (alpha, beta, gamma, no-positive weight), and the default is DCFR. *)
Theorem C08_presets_spec :
  @p_vanilla RNum = @mkParams RNum PosInf PosInf (@Fin RNum 0) (@Fin RNum 0) /\
  @p_lcfr RNum = @mkParams RNum (@Fin RNum 1) (@Fin RNum 1) (@Fin RNum 1) PosInf /\
  @p_cfr_plus RNum = @mkParams RNum PosInf NegInf (@Fin RNum 2) PosInf /\
  @p_dcfr RNum = @mkParams RNum (@Fin RNum (3 / 2)) (@Fin RNum 0) (@Fin RNum 2) PosInf /\
  @p_dcfr_prune RNum =
    @mkParams RNum (@Fin RNum (3 / 2)) (@Fin RNum (1 / 2)) (@Fin RNum 2) PosInf /\
  @p_default RNum = @p_dcfr RNum.
Proof. exact presets_spec. Qed.

Theorem C08_presets_accepted :
  @params_ok RNum p_vanilla = true /\ @params_ok RNum p_lcfr = true /\
  @params_ok RNum p_cfr_plus = true /\ @params_ok RNum p_dcfr = true /\
  @params_ok RNum p_dcfr_prune = true.
Proof. exact presets_ok. Qed.

(** ** Non-vacuity *)
(** linear discounting at iteration 2 is 2/3 *)
Example C08_example_discount : @gen_discount RNum 2%N (@Fin RNum 1) = 2 / 3.
Proof. exact example_discount. Qed.

(** ties: [+inf] picks the last maximum, [-inf] the first minimum *)
Example C08_example_ties :
  @regret_match RNum p_lcfr [-1; -1] = [0; 1] /\
  @regret_match RNum (@mkParams RNum PosInf PosInf (@Fin RNum 0) NegInf) [-1; -1] = [1; 0] /\
  @regret_match RNum p_vanilla [-1; -3] = [1 / 2; 1 / 2] /\
  @regret_match RNum p_vanilla [3; -1; 1] = [3 / 4; 0; 1 / 4].
Proof. exact example_ties. Qed.

(** with gamma = 1 (LCFR) a contribution of iteration 2 weighs 2/6 after iteration 5 *)
Example C08_example_weight :
  discount_iter p_lcfr 2 (5 - 2 + 1) [1] = [2 / 6].
Proof. exact example_weight. Qed.

Print Assumptions C08_gen_discount_spec.
Print Assumptions C08_gen_discount_nat.
Print Assumptions C08_gen_discount_range.
Print Assumptions C08_discount_regret_spec.
Print Assumptions C08_avg_weight_spec.
Print Assumptions C08_avg_weight_infinite.
Print Assumptions C08_ratio_prod_def.
Print Assumptions C08_avg_weight_product.
Print Assumptions C08_avg_weight_product_general.
Print Assumptions C08_discount_iter_def.
Print Assumptions C08_avg_weight_telescope.
Print Assumptions C08_avg_weight_telescope_general.
Print Assumptions C08_regret_match_positive.
Print Assumptions C08_posnorm_def.
Print Assumptions C08_regret_match_uniform.
Print Assumptions C08_regret_match_softmax.
Print Assumptions C08_regret_match_best.
Print Assumptions C08_regret_match_worst.
Print Assumptions C08_regret_match_length.
Print Assumptions C08_argmax_last_spec.
Print Assumptions C08_argmin_first_spec.
Print Assumptions C08_advance_order.
Print Assumptions C08_match_before_or_after_discount.
Print Assumptions C08_gen_discount_positive.
Print Assumptions C08_bound_spec.
Print Assumptions C08_bound_is_max.
Print Assumptions C08_iteration_numbers.
Print Assumptions C08_presets_spec.
Print Assumptions C08_presets_accepted.
Print Assumptions C08_example_discount.
Print Assumptions C08_example_ties.
Print Assumptions C08_example_weight.
