(** * C18 — Truncation keeps a valid profile and only removes small actions.

    Statements only; proofs are in [theories/TruncProofs.v].  The model function is
    [Strat.truncate] (= [Strategies::truncate] with the repair of D8), read at the
    real-number instance.  The f64 threshold is covered in full generality: a
    finite threshold [h] is the predicate [fun p => h < p]; [-inf], [+inf] and NaN
    are the constant predicates; every theorem that mentions [above] holds for
    every monotone predicate. *)
From Coq Require Import Reals List Bool Lra.
From Cfr.theories Require Import Num RInst Tree Strat Valid TruncProofs.
Import ListNotations.
Open Scope R_scope.

(** The model's truncate is the generalised one at the predicate [h < p]. *)
Theorem C18_model_is_generalised :
  forall (g : @game RNum) (h : R) (prof : list R * list R),
    @truncate RNum g h prof =
    (truncR_flat (fun p => Rltb h p) (arities g true) (fst prof),
     truncR_flat (fun p => Rltb h p) (arities g false) (snd prof)).
Proof. reflexivity. Qed.

(** 1. The result is always a valid profile, whatever the threshold (every real
       [h]; and for *any* predicate, hence also NaN and the infinities). *)
Theorem C18_truncate_valid :
  forall (g : @game RNum) (h : R) (prof : list R * list R),
    Valid g prof -> Valid g (@truncate RNum g h prof).
Proof.
  intros g h prof [H1 H2]; split; cbn [fst snd truncate];
    rewrite truncate_flat_is; now apply trunc_flat_valid.
Qed.

Theorem C18_truncate_valid_any_threshold :
  forall (above : R -> bool) ars flat, VFlat ars flat -> VFlat ars (truncR_flat above ars flat).
Proof. exact trunc_flat_valid. Qed.

(** 2. Per infoset: where some action exceeds the threshold exactly those actions
       remain, rescaled proportionally so that they sum to one ... *)
Theorem C18_support :
  forall (above : R -> bool) (row : list R),
    mono above -> VRow row -> (exists p, In p row /\ above p = true) ->
    let total := Rsum (filter above row) in
    0 < total /\
    @truncate_row_by RNum above row = map (fun p => if above p then p / total else 0) row.
Proof. exact trunc_support. Qed.

(** ... and an infoset in which no action exceeds it still carries a distribution:
    it is left unchanged. *)
Theorem C18_no_action_above :
  forall (above : R -> bool) (row : list R),
    (forall p, In p row -> above p = false) -> @truncate_row_by RNum above row = row.
Proof. exact trunc_none. Qed.

(** the rows of the truncated profile are the truncated rows of the profile *)
Theorem C18_rows :
  forall (above : R -> bool) ars (flat : list R),
    length flat = nsum ars ->
    split_by (truncR_flat above ars flat) ars =
    map (@truncate_row_by RNum above) (split_by flat ars).
Proof. exact trunc_flat_split. Qed.

(** 3. A threshold below every positive probability changes nothing. *)
Theorem C18_small_threshold :
  forall (above : R -> bool) ars (flat : list R),
    VFlat ars flat -> (forall p, In p flat -> 0 < p -> above p = true) ->
    truncR_flat above ars flat = flat.
Proof. exact trunc_flat_small. Qed.

(** 4. Truncating twice equals truncating once. *)
Theorem C18_idempotent :
  forall (above : R -> bool) ars (flat : list R),
    mono above -> VFlat ars flat ->
    truncR_flat above ars (truncR_flat above ars flat) = truncR_flat above ars flat.
Proof. exact trunc_flat_idem. Qed.

(** every f64 threshold is a monotone predicate *)
Theorem C18_thresholds_monotone :
  (forall h, mono (fun p => Rltb h p)) /\ mono (fun _ => true) /\ mono (fun _ => false).
Proof. split; [exact mono_thr|split; [exact mono_true|exact mono_false]]. Qed.

(** Non-vacuity: a concrete valid row on which the pinned (pre-repair) code failed:
    [0.5; 0.5] at threshold 0.6 stays a distribution. *)
Example C18_example :
  VRow [/2; /2] /\ @truncate_row_by RNum (fun p => Rltb (6/10) p) [/2; /2] = [/2; /2].
Proof.
  split.
  - split; [repeat constructor; lra | cbn [Rsum]; lra].
  - apply trunc_none. intros p [<-|[<-|[]]]; apply Rltb_false; lra.
Qed.

Print Assumptions C18_model_is_generalised.
Print Assumptions C18_truncate_valid.
Print Assumptions C18_truncate_valid_any_threshold.
Print Assumptions C18_support.
Print Assumptions C18_no_action_above.
Print Assumptions C18_rows.
Print Assumptions C18_small_threshold.
Print Assumptions C18_idempotent.
Print Assumptions C18_thresholds_monotone.
Print Assumptions C18_example.
