(** * C13 — The named view of a strategy profile ([Strategies::as_named]).

    "The named view of any strategy profile lists every infoset of each player exactly
    once: multi-action infosets with exactly their positive-probability actions and
    probabilities summing to one, single-action infosets with their only action at
    probability one; importing that view back yields the original profile.  The
    advertised lengths of the infoset iterator and of each action iterator equal the
    number of items they subsequently yield, at every point of the iteration."

    Statements only; proofs are in [theories/StratIterProofs.v] (iterators, generic in the
    arithmetic [NN : Num], hence valid for the binary64 instance too) and
    [theories/StratImportRProofs.v] (validity and round trip, over the reals).

    Model: [nsi]/[nsi_next]/[nsi_len] = [NamedStrategyIter] with [next]/[len] (the repaired
    [size_hint]); [nsai]/[nsai_next]/[nsai_len] = [NamedStrategyActionIter]; [as_named]
    collects everything both iterators yield; [import_fast] = [Game::from_named],
    [import_slow] = [Game::from_named_eq].  Every state reachable through [next] is again a
    value of type [nsi] (resp. [nsai]), so quantifying over all states covers every point of
    every iteration. *)
From Coq Require Import Reals List NArith Bool Arith Lia Lra.
From Cfr.theories Require Import Num RInst Tree Strat Valid
     StratIterProofs StratAgreeProofs StratImportProofs StratImportRProofs.
Import ListNotations.
Open Scope R_scope.

(** ** 1. The advertised lengths are exact at every state *)

(** Outer iterator: [next] returns [None] exactly at length 0, each [next] decreases the
    length by one, and the length is the number of items subsequently yielded. *)
Theorem C13_len_exact_outer :
  forall (NN : Num) (it : @nsi NN),
    (nsi_next it = None <-> nsi_len it = 0%nat) /\
    (forall x it', nsi_next it = Some (x, it') -> nsi_len it = S (nsi_len it')) /\
    length (nsi_drain (S (nsi_len it)) it) = nsi_len it.
Proof.
  intros NN it. split; [apply nsi_next_none|split; [apply nsi_next_some|apply nsi_drain_length]].
Qed.

(** Inner (action) iterator: the same three facts. *)
Theorem C13_len_exact_inner :
  forall (NN : Num) (it : @nsai NN),
    (nsai_next it = None <-> nsai_len it = 0%nat) /\
    (forall x it', nsai_next it = Some (x, it') -> nsai_len it = S (nsai_len it')) /\
    length (nsai_drain (S (nsai_len it)) it) = nsai_len it.
Proof.
  intros NN it. split; [apply nsai_next_none|split; [apply nsai_next_some|apply nsai_drain_length]].
Qed.

(** More fuel changes nothing: an iterator yields exactly [len] items, then [None] forever. *)
Theorem C13_len_exact_any_fuel :
  forall (NN : Num),
    (forall (it : @nsi NN) fuel, (nsi_len it <= fuel)%nat -> length (nsi_drain fuel it) = nsi_len it) /\
    (forall (it : @nsai NN) fuel, (nsai_len it <= fuel)%nat -> length (nsai_drain fuel it) = nsai_len it).
Proof.
  intros NN; split; intros it fuel H.
  - rewrite nsi_drain_items by assumption. apply nsi_items_length.
  - rewrite nsai_drain_items by assumption. apply nsai_items_length.
Qed.

(** The lengths recorded before every [next] (the trace [nsi_lens]/[nsai_lens] that the
    correspondence harness compares with the Rust [len()] calls) are the countdowns
    [n; n-1; ...; 0], outside and inside every item. *)
Theorem C13_len_trace :
  forall (NN : Num),
    (forall (it : @nsai NN) fuel, (nsai_len it < fuel)%nat ->
        nsai_lens fuel it = countdown (nsai_len it)) /\
    (forall (it : @nsi NN) fuel, (nsi_len it < fuel)%nat ->
        nsi_lens fuel it = nsi_lens_spec (nsi_len it) (nsi_items it)).
Proof. intros NN; split; intros it fuel H; [now apply nsai_lens_countdown|now apply nsi_lens_countdown]. Qed.

(** ** 2. What the view contains: one equation for the whole output *)

(** Every multi-action infoset in table order with the sub-list of its (action, probability)
    pairs whose probability is positive, then every single-action infoset with its only
    action at probability one.  (No condition on [flat] is needed: the model's
    [firstn]/[skipn] coincide with [split_by].) *)
Theorem C13_named_items :
  forall (NN : Num) (g : @game NN) (pl : bool) (flat : list (T NN)),
    as_named g pl flat =
    map (fun pr : pinfo * list (T NN) =>
           (pi_name (fst pr),
            filter (fun ap : N * T NN => ltb NN (zero NN) (snd ap))
                   (combine (pi_actions (fst pr)) (snd pr))))
        (combine (g_infos g pl) (split_by flat (arities g pl)))
    ++ map (fun e : N * N => (fst e, [(snd e, one NN)])) (g_singles g pl).
Proof. exact (@as_named_items). Qed.

(** Every infoset of the player is listed, in table order ... *)
Theorem C13_named_every_infoset :
  forall (NN : Num) (g : @game NN) (pl : bool) (flat : list (T NN)),
    map fst (as_named g pl flat) = map pi_name (g_infos g pl) ++ map fst (g_singles g pl).
Proof. exact (@as_named_names). Qed.

(** ... hence exactly once. *)
Theorem C13_named_exactly_once :
  forall (g : @game RNum) (pl : bool) (flat : list R),
    WFnames g -> NoDup (map fst (@as_named RNum g pl flat)).
Proof. exact as_named_nodup. Qed.

(** ** 3. On a valid profile every item is a distribution of positive numbers
       (for a single-action infoset: its only action at probability one, by 2.) *)
Theorem C13_named_valid :
  forall (g : @game RNum) (prof : list R * list R),
    Valid g prof ->
    forall pl : bool,
      Forall (fun it : N * list (N * R) =>
                Forall (fun e => 0 < snd e) (snd it) /\ Rsum (map snd (snd it)) = 1)
             (@as_named RNum g pl (if pl then fst prof else snd prof)).
Proof. exact as_named_valid. Qed.

(** ** 4. Importing the view back yields the original profile — exactly, over the reals
       (omitted zeros are restored as zeros, and the division by the total 1 is the
       identity) — through either import function. *)
Theorem C13_roundtrip :
  forall (g : @game RNum) (prof : list R * list R),
    WFnames g -> Valid g prof ->
    @import_fast RNum g (as_named g true (fst prof), as_named g false (snd prof)) = SOk prof /\
    @import_slow RNum g (as_named g true (fst prof), as_named g false (snd prof)) = SOk prof.
Proof. intros g prof W V. split; [now apply roundtrip_fast|now apply roundtrip_slow]. Qed.

(** ** Non-vacuity: a game with multi- and single-action infosets and a valid profile with a
       zero probability; the zero is omitted from the view and restored by the import. *)
Example C13_example :
  let g : @game RNum :=
    @mkGame RNum [] [mkPinfo 1%N [10%N; 11%N] None] [mkPinfo 5%N [50%N; 51%N; 52%N] None]
            [(2%N, 20%N)] [] (@Term RNum 0) in
  let prof : list R * list R := ([/2; /2], [1; 0; 0]) in
  WFnames g /\ Valid g prof /\
  @as_named RNum g true (fst prof) = [(1%N, [(10%N, /2); (11%N, /2)]); (2%N, [(20%N, 1)])] /\
  @as_named RNum g false (snd prof) = [(5%N, [(50%N, 1)])].
Proof.
  cbv zeta. split; [|split; [|split]].
  - split; split; cbn [g_infos1 g_infos2 g_singles1 g_singles2 map app pi_name fst].
    + repeat constructor; cbn [In]; intuition discriminate.
    + repeat constructor; cbn [In pi_actions length]; try lia; intuition discriminate.
    + repeat constructor; cbn [In]; intuition discriminate.
    + repeat constructor; cbn [In pi_actions length]; try lia; intuition discriminate.
  - split; (split; [reflexivity|]); cbn; repeat constructor; cbn [Rsum]; lra.
  - rewrite as_named_items. cbn. unfold multi_item, single_item, posb.
    cbn [fst snd pi_name pi_actions combine filter ltb zero one RNum].
    rewrite (proj2 (Rltb_true 0 (/2))) by lra. reflexivity.
  - rewrite as_named_items. cbn. unfold multi_item, single_item, posb.
    cbn [fst snd pi_name pi_actions combine filter ltb zero one RNum].
    rewrite (proj2 (Rltb_true 0 1)) by lra. rewrite (proj2 (Rltb_false 0 0)) by lra. reflexivity.
Qed.

Print Assumptions C13_len_exact_outer.
Print Assumptions C13_len_exact_inner.
Print Assumptions C13_len_exact_any_fuel.
Print Assumptions C13_len_trace.
Print Assumptions C13_named_items.
Print Assumptions C13_named_every_infoset.
Print Assumptions C13_named_exactly_once.
Print Assumptions C13_named_valid.
Print Assumptions C13_roundtrip.
Print Assumptions C13_example.
