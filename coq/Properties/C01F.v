(** * C01 at binary64 — the reported utility is the expected payoff within an explicit rounding bound.

    Statements only; proofs are in [theories/EvalFloat.v] (Flocq; forward error analysis of exactly the
    evaluation order of [Eval.exp_acc] = [regret::expected]: one running accumulator, depth first, the
    reach multiplied down the path, [acc + reach * payoff] at a leaf).  [U_exact] is the exact real
    expectation of the same binary64 data (every probability and payoff read through [FR]); it *is* the
    real-number model [@expected RNum] on the image of the game ([U_exact_model]) and the sum over leaves
    of reach times payoff ([U_exact_leaves]) — the quantity the theorems of [C01.v] are about.  [S_abs]
    is the sum over leaves of reach times |payoff|, [k_ops = depth + 1 + number of leaves].
    For chance probabilities and strategy entries that are finite floats in [0,1] (rows need not even sum
    to one) and finite payoffs bounded by [B >= 1], with [k_ops * 2^-53 <= 1/2] and [leaves * B <= 2^1000]:
    the value computed at binary64 is finite (no NaN, no overflow) and within
    [k_ops * 2^-52 * (S_abs + leaves * B * 2^-1022)] of the exact expectation — underflow of tiny reach
    products included (that is the second term).  Player two's utility is the exact negation. *)
From Coq Require Import List ZArith Reals Floats Bool.
From Flocq Require Import Core.
From Cfr.theories Require Import Num FInst RInst Tree GameWF Strat Eval Valid EvalSpec EvalProofs TruncFloat EvalFloat ScaleFloatBR BRFloat.
Import ListNotations.
Local Open Scope R_scope.
Local Notation float := PrimFloat.float.

Theorem C01_binary64_utility_error : forall (g : @game FNum) (s1 s2 : list (list float)) (B : R),
  TblOK (g_chance g) -> TblOK s1 -> TblOK s2 ->
  1 <= B -> PayOK B (g_root g) ->
  INR (k_ops g) * bpow radix2 (-53) <= / 2 ->
  INR (n_leaves g) * B <= bpow radix2 1000 ->
  let uF := @expected FNum g s1 s2 in
  Ffin uF /\
  Rabs (FR uF - U_exact g s1 s2) <= ((1 + bpow radix2 (-53)) ^ k_ops g - 1) * mass g s1 s2 B /\
  Rabs (FR uF - U_exact g s1 s2) <= INR (k_ops g) * bpow radix2 (-52) * mass g s1 s2 B /\
  Rabs (FR uF) <= 2 * mass g s1 s2 B /\
  mass g s1 s2 B <= 2 * (INR (n_leaves g) * B).
Proof. exact expected_float_bound. Qed.

Theorem C01_binary64_utility_relative_error : forall (g : @game FNum) (s1 s2 : list (list float)) (B : R),
  TblOK (g_chance g) -> TblOK s1 -> TblOK s2 ->
  1 <= B -> PayOK B (g_root g) ->
  INR (S (k_ops g)) * bpow radix2 (-53) <= / 2 ->
  INR (n_leaves g) * B <= bpow radix2 1000 ->
  INR (n_leaves g) * B * bpow radix2 (-969) <= S_abs g s1 s2 ->
  let uF := @expected FNum g s1 s2 in
  Ffin uF /\
  Rabs (FR uF - U_exact g s1 s2) <= ((1 + bpow radix2 (-53)) ^ S (k_ops g) - 1) * S_abs g s1 s2 /\
  Rabs (FR uF - U_exact g s1 s2) <= INR (S (k_ops g)) * bpow radix2 (-52) * S_abs g s1 s2.
Proof. exact expected_float_relative. Qed.

(** what [U_exact] and [S_abs] are *)
Theorem C01_binary64_exact_is_the_real_model : forall (g : @game FNum) s1 s2, TblOK s1 -> TblOK s2 ->
  U_exact g s1 s2 = @expected RNum (gameR g) (tblR s1) (tblR s2).
Proof. exact U_exact_model. Qed.

Theorem C01_binary64_exact_is_the_leaf_sum : forall (g : @game FNum) s1 s2, U_exact g s1 s2 =
  lsum (leaves (tblR (g_chance g)) (tblR s1) (tblR s2) (nodeR (g_root g))).
Proof. exact U_exact_leaves. Qed.

(** the number reported by [get_info] *)
Theorem C01_binary64_reported_utility : forall (g : @game FNum) (prof : list float * list float) (B : R),
  TblOK (g_chance g) -> Forall fin01 (fst prof) -> Forall fin01 (snd prof) ->
  1 <= B -> PayOK B (g_root g) ->
  INR (k_ops g) * bpow radix2 (-53) <= / 2 -> INR (n_leaves g) * B <= bpow radix2 1000 ->
  let s1 := split_by (fst prof) (arities g true) in
  let s2 := split_by (snd prof) (arities g false) in
  let uF := si_util (@info FNum g prof) in
  Ffin uF /\ Rabs (FR uF - U_exact g s1 s2) <= INR (k_ops g) * bpow radix2 (-52) * mass g s1 s2 B.
Proof. exact info_util_float_bound. Qed.

Example C01_binary64_example : let uF := @expected FNum ex_g ex_s1 ex_s2 in
  Ffin uF /\ Rabs (FR uF - U_exact ex_g ex_s1 ex_s2)
  <= 7 * bpow radix2 (-52) * (S_abs ex_g ex_s1 ex_s2 + 4 * 3 * bpow radix2 (-1022)).
Proof. exact ex_bound. Qed.

(** ** The best response, the regrets and the exploitability reported by [get_info], at binary64
    ([theories/BRFloat.v]; [regret::best_response] = [Eval.br_value]: collect the own nodes with their
    reaches, resolve the infosets last to first (search every action's subtree, keep the maximum, divide by
    the total reach under the D16 guard [0 < total]), search the root).  [RowSum c]: every row's exact sum is
    at most [(1+2^-53)^c] (a row of at most [c] entries whose binary64 sum is <= 1: [rowsumb_spec]) — without
    it, entries merely in [0,1] let infoset values grow geometrically with the depth.
    [C01_binary64_best_response_finite]: no hypothesis on underflow: the value is finite and at most
    [2 (B + n/2)] ([n] own infosets; the [n/2] is real: with a subnormal reach [1.5 * 2^-1074] rounds to
    [2 * 2^-1074], so an infoset value can exceed the largest payoff).  [..._bounded]: when no recorded reach
    is subnormal ([NoUF]) the clean bound [(1+2^-53)^ops * B].  [..._error]: when no product formed by
    [collect] underflows ([CollOK], checker [collokb_spec]) the binary64 best response is within
    [ops * 2^-52 * 2B] of the real-number model's best response *on the same data*, and so are the two
    regrets and the exploitability ([C01_binary64_reported_numbers_error]; the real-number quantities are the
    ones the theorems of [C01.v] are about). *)
Theorem C01_binary64_best_response_finite :
  forall (g : @game FNum) (me : bool) (so : list (list float)) (B : R) (c : nat),
  TblOK (g_chance g) -> TblOK so -> RowSum c (g_chance g) -> RowSum c so ->
  1 <= B -> PayOK B (g_root g) ->
  (Z.of_nat (br_N g) < 2 ^ 53)%Z ->
  INR (S (br_n g me) * br_Ks g c) * bpow radix2 (-53) <= / 2 ->
  (B + INR (S (br_n g me)) * / 2) * INR (S (br_N g)) <= bpow radix2 1000 ->
  Ffin (@br_value FNum g me so) /\
  Rabs (FR (@br_value FNum g me so))
    <= (1 + bpow radix2 (-53)) ^ br_ops g me c * (B + INR (br_n g me) * / 2) /\
  Rabs (FR (@br_value FNum g me so)) <= 2 * (B + INR (br_n g me) * / 2).
Proof. exact br_value_float_finite. Qed.

Theorem C01_binary64_best_response_bounded :
  forall (g : @game FNum) (me : bool) (so : list (list float)) (B : R) (c : nat),
  TblOK (g_chance g) -> TblOK so -> RowSum c (g_chance g) -> RowSum c so ->
  1 <= B -> PayOK B (g_root g) -> NoUF g me so ->
  (Z.of_nat (br_N g) < 2 ^ 53)%Z ->
  INR (S (br_n g me) * br_Ks g c) * bpow radix2 (-53) <= / 2 ->
  B * INR (S (br_N g)) <= bpow radix2 1000 ->
  Ffin (@br_value FNum g me so) /\
  Rabs (FR (@br_value FNum g me so)) <= (1 + bpow radix2 (-53)) ^ br_ops g me c * B /\
  Rabs (FR (@br_value FNum g me so)) <= 2 * B.
Proof. exact br_value_float_bounded. Qed.

Theorem C01_binary64_reported_numbers_finite :
  forall (g : @game FNum) (prof : list float * list float) (B : R) (c : nat),
  let s1 := split_by (fst prof) (arities g true) in
  let s2 := split_by (snd prof) (arities g false) in
  TblOK (g_chance g) -> Forall fin01 (fst prof) -> Forall fin01 (snd prof) ->
  RowSum c (g_chance g) -> RowSum c s1 -> RowSum c s2 ->
  1 <= B -> PayOK B (g_root g) ->
  (Z.of_nat (br_N g) < 2 ^ 53)%Z ->
  INR (S (br_n g true) * br_Ks g c) * bpow radix2 (-53) <= / 2 ->
  INR (S (br_n g false) * br_Ks g c) * bpow radix2 (-53) <= / 2 ->
  (B + INR (S (br_n g true)) * / 2) * INR (S (br_N g)) <= bpow radix2 1000 ->
  (B + INR (S (br_n g false)) * / 2) * INR (S (br_N g)) <= bpow radix2 1000 ->
  let I := @info FNum g prof in
  Ffin (si_util I) /\
  Ffin (si_reg1 I) /\ 0 <= FR (si_reg1 I) /\
  Ffin (si_reg2 I) /\ 0 <= FR (si_reg2 I) /\
  Ffin (@si_regret FNum I) /\ 0 <= FR (@si_regret FNum I) /\
  FR (si_reg1 I) <= FR (@si_regret FNum I) /\ FR (si_reg2 I) <= FR (@si_regret FNum I) /\
  FR (@si_regret FNum I) <= bpow radix2 1003.
Proof. exact info_float_finite. Qed.

Theorem C01_binary64_best_response_error :
  forall (g : @game FNum) (me : bool) (so : list (list float)) (B : R) (c : nat),
  TblOK (g_chance g) -> TblOK so -> RowSum c (g_chance g) -> RowSum c so ->
  1 <= B -> PayOK B (g_root g) ->
  CollOK (g_chance g) so me (g_root g) 1%float ->
  (Z.of_nat (br_N g) < 2 ^ 53)%Z ->
  INR (S (br_n g me) * br_Ke g) * bpow radix2 (-53) <= / 2 ->
  INR (S (br_n g me) * (c * br_D g)) * bpow radix2 (-53) <= / 2 ->
  B * INR (S (br_N g)) <= bpow radix2 1000 ->
  Ffin (@br_value FNum g me so) /\
  Rabs (FR (@br_value FNum g me so) - @br_value RNum (gameR g) me (tblR so))
    <= ((1 + bpow radix2 (-53)) ^ br_err_ops g me - 1) * br_mass g me B c /\
  Rabs (FR (@br_value FNum g me so) - @br_value RNum (gameR g) me (tblR so))
    <= INR (br_err_ops g me) * bpow radix2 (-52) * (2 * B) /\
  Rabs (@br_value RNum (gameR g) me (tblR so)) <= 2 * B.
Proof. exact br_value_float_error_simple. Qed.

Theorem C01_binary64_reported_numbers_error :
  forall (g : @game FNum) (prof : list float * list float) (B : R) (c : nat),
  let s1 := split_by (fst prof) (arities g true) in
  let s2 := split_by (snd prof) (arities g false) in
  TblOK (g_chance g) -> Forall fin01 (fst prof) -> Forall fin01 (snd prof) ->
  RowSum c (g_chance g) -> RowSum c s1 -> RowSum c s2 ->
  1 <= B -> PayOK B (g_root g) ->
  CollOK (g_chance g) s2 true (g_root g) 1%float ->
  CollOK (g_chance g) s1 false (g_root g) 1%float ->
  (Z.of_nat (br_N g) < 2 ^ 53)%Z ->
  (forall me, INR (S (br_n g me) * br_Kall g c) * bpow radix2 (-53) <= / 2) ->
  (forall me, (B + INR (S (br_n g me)) * / 2) * INR (S (br_N g)) <= bpow radix2 1000) ->
  let I := @info FNum g prof in
  let IR := @info RNum (gameR g) (map FR (fst prof), map FR (snd prof)) in
  let Eu := INR (k_ops g) * bpow radix2 (-52) * mass g s1 s2 B in
  let Eb1 := INR (br_err_ops g true) * bpow radix2 (-52) * (2 * B) in
  let Eb2 := INR (br_err_ops g false) * bpow radix2 (-52) * (2 * B) in
  let Yb := 2 * B + mass g s1 s2 B in
  let E1 := (Eb1 + Eu) + bpow radix2 (-53) * (Yb + (Eb1 + Eu)) in
  let E2 := (Eb2 + Eu) + bpow radix2 (-53) * (Yb + (Eb2 + Eu)) in
  Rabs (FR (si_util I) - si_util IR) <= Eu /\
  Rabs (FR (si_reg1 I) - si_reg1 IR) <= E1 /\
  Rabs (FR (si_reg2 I) - si_reg2 IR) <= E2 /\
  Rabs (FR (@si_regret FNum I) - @si_regret RNum IR) <= Rmax E1 E2.
Proof. exact info_float_error. Qed.

(** non-vacuity: the game [bx_g] (a chance move, one infoset per player), [B = 3], [c = 2] *)
Example C01_binary64_best_response_example :
  Ffin (@br_value FNum bx_g true bx_s2) /\
  Rabs (FR (@br_value FNum bx_g true bx_s2)) <= (1 + bpow radix2 (-53)) ^ 57 * 3 /\
  Ffin (@br_value FNum bx_g false bx_s1) /\
  Rabs (FR (@br_value FNum bx_g false bx_s1)) <= (1 + bpow radix2 (-53)) ^ 57 * 3.
Proof. exact bx_br_bounded. Qed.

Example C01_binary64_reported_numbers_example :
  let I := @info FNum bx_g bx_prof in
  let IR := infoR bx_g bx_prof in
  let Eu := 9 * bpow radix2 (-52) * mass bx_g bx_s1 bx_s2 3 in
  let Eb := 52 * bpow radix2 (-52) * (2 * 3) in
  let E := (Eb + Eu) + bpow radix2 (-53) * (2 * 3 + mass bx_g bx_s1 bx_s2 3 + (Eb + Eu)) in
  Rabs (FR (si_util I) - si_util IR) <= Eu /\
  Rabs (FR (si_reg1 I) - si_reg1 IR) <= E /\
  Rabs (FR (si_reg2 I) - si_reg2 IR) <= E /\
  Rabs (FR (@si_regret FNum I) - @si_regret RNum IR) <= E.
Proof. exact bx_info_error. Qed.

Print Assumptions C01_binary64_utility_error.
Print Assumptions C01_binary64_utility_relative_error.
Print Assumptions C01_binary64_exact_is_the_real_model.
Print Assumptions C01_binary64_exact_is_the_leaf_sum.
Print Assumptions C01_binary64_reported_utility.
Print Assumptions C01_binary64_example.
Print Assumptions C01_binary64_best_response_finite.
Print Assumptions C01_binary64_best_response_bounded.
Print Assumptions C01_binary64_reported_numbers_finite.
Print Assumptions C01_binary64_best_response_error.
Print Assumptions C01_binary64_reported_numbers_error.
Print Assumptions C01_binary64_best_response_example.
Print Assumptions C01_binary64_reported_numbers_example.
