(** * C01 at binary64 — the reported utility is the expected payoff within an explicit rounding bound.

    Statements only; proofs are in [theories/EvalFloat.v] (Flocq; forward error analysis of exactly the
    evaluation order of [Eval.exp_acc] = [regret::expected]: one running accumulator, depth first, the
    reach multiplied down the path, [acc + reach * payoff] at a leaf).  [U_exact] is the exact real
    expectation of the same binary64 data (every probability and payoff read through [FR]); it *is* the
    real-number model [@expected RNum] on the image of the game ([U_exact_model]) and the sum over leaves
    of reach times payoff ([U_exact_leaves]) — the quantity the theorems of [C01.v] are about.  [S_abs]
    is the sum over leaves of reach times |payoff|, [k_ops = depth + 1 + number of leaves].
    For chance probabilities and strategy entries that are finite floats in [0,1] (rows need not even sum
    to one) and finite payoffs bounded by [B >= 1], with [k_ops * 2^-53 <= 1/2] and [leaves * B <= 2^1000]:
    the value computed at binary64 is finite (no NaN, no overflow) and within
    [k_ops * 2^-52 * (S_abs + leaves * B * 2^-1022)] of the exact expectation — underflow of tiny reach
    products included (that is the second term).  Player two's utility is the exact negation. *)
From Coq Require Import List ZArith Reals Floats Bool.
From Flocq Require Import Core.
From Cfr.theories Require Import Num FInst RInst Tree GameWF Strat Eval Valid EvalSpec EvalProofs TruncFloat EvalFloat.
Import ListNotations.
Local Open Scope R_scope.
Local Notation float := PrimFloat.float.

Theorem C01_binary64_utility_error : forall (g : @game FNum) (s1 s2 : list (list float)) (B : R),
  TblOK (g_chance g) -> TblOK s1 -> TblOK s2 ->
  1 <= B -> PayOK B (g_root g) ->
  INR (k_ops g) * bpow radix2 (-53) <= / 2 ->
  INR (n_leaves g) * B <= bpow radix2 1000 ->
  let uF := @expected FNum g s1 s2 in
  Ffin uF /\
  Rabs (FR uF - U_exact g s1 s2) <= ((1 + bpow radix2 (-53)) ^ k_ops g - 1) * mass g s1 s2 B /\
  Rabs (FR uF - U_exact g s1 s2) <= INR (k_ops g) * bpow radix2 (-52) * mass g s1 s2 B /\
  Rabs (FR uF) <= 2 * mass g s1 s2 B /\
  mass g s1 s2 B <= 2 * (INR (n_leaves g) * B).
Proof. exact expected_float_bound. Qed.

Theorem C01_binary64_utility_relative_error : forall (g : @game FNum) (s1 s2 : list (list float)) (B : R),
  TblOK (g_chance g) -> TblOK s1 -> TblOK s2 ->
  1 <= B -> PayOK B (g_root g) ->
  INR (S (k_ops g)) * bpow radix2 (-53) <= / 2 ->
  INR (n_leaves g) * B <= bpow radix2 1000 ->
  INR (n_leaves g) * B * bpow radix2 (-969) <= S_abs g s1 s2 ->
  let uF := @expected FNum g s1 s2 in
  Ffin uF /\
  Rabs (FR uF - U_exact g s1 s2) <= ((1 + bpow radix2 (-53)) ^ S (k_ops g) - 1) * S_abs g s1 s2 /\
  Rabs (FR uF - U_exact g s1 s2) <= INR (S (k_ops g)) * bpow radix2 (-52) * S_abs g s1 s2.
Proof. exact expected_float_relative. Qed.

(** what [U_exact] and [S_abs] are *)
Theorem C01_binary64_exact_is_the_real_model : forall (g : @game FNum) s1 s2, TblOK s1 -> TblOK s2 ->
  U_exact g s1 s2 = @expected RNum (gameR g) (tblR s1) (tblR s2).
Proof. exact U_exact_model. Qed.

Theorem C01_binary64_exact_is_the_leaf_sum : forall (g : @game FNum) s1 s2, U_exact g s1 s2 =
  lsum (leaves (tblR (g_chance g)) (tblR s1) (tblR s2) (nodeR (g_root g))).
Proof. exact U_exact_leaves. Qed.

(** the number reported by [get_info] *)
Theorem C01_binary64_reported_utility : forall (g : @game FNum) (prof : list float * list float) (B : R),
  TblOK (g_chance g) -> Forall fin01 (fst prof) -> Forall fin01 (snd prof) ->
  1 <= B -> PayOK B (g_root g) ->
  INR (k_ops g) * bpow radix2 (-53) <= / 2 -> INR (n_leaves g) * B <= bpow radix2 1000 ->
  let s1 := split_by (fst prof) (arities g true) in
  let s2 := split_by (snd prof) (arities g false) in
  let uF := si_util (@info FNum g prof) in
  Ffin uF /\ Rabs (FR uF - U_exact g s1 s2) <= INR (k_ops g) * bpow radix2 (-52) * mass g s1 s2 B.
Proof. exact info_util_float_bound. Qed.

Example C01_binary64_example : let uF := @expected FNum ex_g ex_s1 ex_s2 in
  Ffin uF /\ Rabs (FR uF - U_exact ex_g ex_s1 ex_s2)
  <= 7 * bpow radix2 (-52) * (S_abs ex_g ex_s1 ex_s2 + 4 * 3 * bpow radix2 (-1022)).
Proof. exact ex_bound. Qed.

Print Assumptions C01_binary64_utility_error.
Print Assumptions C01_binary64_utility_relative_error.
Print Assumptions C01_binary64_exact_is_the_real_model.
Print Assumptions C01_binary64_exact_is_the_leaf_sum.
Print Assumptions C01_binary64_reported_utility.
Print Assumptions C01_binary64_example.
