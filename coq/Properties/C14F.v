(** * C14 at binary64 — the normalisation of imported weights by the executed instance itself.

    Statements only; proofs are in [theories/NormFloat.v] (Flocq, on top of [TruncFloat.v]).
    [finish_row] / [finish_rows] are the model of the last step of [Game::from_named] and
    [Game::from_named_eq] *after the repair D17* (rescale by the largest weight when the total
    overflows).  The main theorem needs **no hypothesis about overflow**: for every list of finite
    non-negative binary64 weights that are not all zero, the normalised row consists of finite
    numbers in [0,1] (no NaN, no infinity) and sums to one within [(2n+2) * 2^-53] — the repair is
    complete at binary64.  [finnn x] : finite and [0 <= x] (= the model's own [prob_ok] test). *)
From Coq Require Import List ZArith Reals Floats Bool.
From Flocq Require Import Core.
From Cfr.theories Require Import Num FInst Tree Strat TruncFloat NormFloat.
Import ListNotations.
Local Open Scope R_scope.
Local Notation float := PrimFloat.float.

Theorem C14_binary64_accepted_weights : forall x : float, @prob_ok FNum x = true <-> finnn x.
Proof. exact prob_ok_finnn. Qed.

(** a sum of finite non-negative floats is finite and non-negative or exactly +infinity, never NaN *)
Theorem C14_binary64_row_valid : forall row : list float,
  Forall finnn row ->
  (Z.of_nat (length row) < 2 ^ 53)%Z ->
  eqb FNum (@sum FNum row) (zero FNum) = false ->
  Forall fin01 (@finish_row FNum row (@sum FNum row)).
Proof. exact finish_row_float_valid. Qed.

Theorem C14_binary64_profile_valid : forall (rows : list (list float)) (d : list float),
  Forall (fun row => Forall finnn row /\ (Z.of_nat (length row) < 2 ^ 53)%Z) rows ->
  @finish_rows FNum rows = SOk d ->
  Forall fin01 d.
Proof. exact finish_rows_float_valid. Qed.

Theorem C14_binary64_row_sum : forall row : list float,
  Forall finnn row -> (Z.of_nat (length row) < 2 ^ 53)%Z ->
  eqb FNum (@sum FNum row) (zero FNum) = false ->
  Rabs (RS (@finish_row FNum row (@sum FNum row)) - 1)
  <= (2 * INR (length row) + 2) * bpow radix2 (-53).
Proof. exact finish_row_float_sum. Qed.

(** the overflow branch (D17): the total is +infinity, the largest weight is finite and positive, the
    rescaled total lies in [1, n], and some entry of the result is at least about 1/n *)
Theorem C14_binary64_overflow_branch : forall row : list float,
  Forall finnn row ->
  (Z.of_nat (length row) < 2 ^ 53)%Z ->
  ~ Ffin (@sum FNum row) ->
  let out := @finish_row FNum row (@sum FNum row) in
  Fpinf (@sum FNum row) /\
  Forall fin01 out /\
  exists y, In y out /\ rnd (/ INR (length row)) <= FR y /\ bpow radix2 (-53) <= FR y.
Proof. exact finish_row_float_valid_overflow. Qed.

(** zero weights stay zero; weights that are not negligible against the total stay positive *)
Theorem C14_binary64_support : forall row : list float,
  Forall finnn row ->
  Ffin (@sum FNum row) -> 0 < FR (@sum FNum row) ->
  (forall p, In p row -> FR p = 0 \/ bpow radix2 (-1074) * FR (@sum FNum row) <= FR p) ->
  forall k, (k < length row)%nat ->
    (FR (nth k (@finish_row FNum row (@sum FNum row)) 0%float) = 0 <-> FR (nth k row 0%float) = 0).
Proof. exact finish_row_float_support_fin. Qed.

Print Assumptions C14_binary64_accepted_weights.
Print Assumptions C14_binary64_row_valid.
Print Assumptions C14_binary64_profile_valid.
Print Assumptions C14_binary64_row_sum.
Print Assumptions C14_binary64_overflow_branch.
Print Assumptions C14_binary64_support.
