(** * C06 — The unsampled solver gives the same answer for every thread count.

    Statements only; proofs are in [theories/Incr.v] and [theories/ParallelProofs.v].
    Model of the multi-threaded code path ([solve_generic_multi], [thread_threshold],
    [recurse_multi] with the payoff cache): [theories/VanillaMulti.v].

    What "every schedule" means here.  The traversal mutates the shared infosets only
    through three atomic operations ([Incr.incr]: a mutex-protected [cum_strat] row
    update, [fetch_add] on one regret cell, [fetch_sub] on the cells of an infoset) and
    never writes [strat].  A run of the parallel phase is therefore *some* interleaving
    of the tasks' increment lists, i.e. a permutation of their concatenation; the
    schedule is the universally quantified function [sched] with
    [forall l, Permutation l (sched l)] (one per iteration).  Trusted, not modelled:
    atomicity of [AtomicF64::fetch_add]/[fetch_sub] and of [Mutex], rayon running every
    task exactly once and [par_extend] returning after all of them.

    Equality is over the reals: "up to floating-point summation order". *)
From Coq Require Import Reals List Bool NArith Permutation.
From Cfr.theories Require Import Num RInst Tree GameWF Strat Eval Solve Incr VanillaMulti ParallelProofs SolveApi.
Import ListNotations.

(** 1. the traversal is a pure function of the strategies plus a list of atomic increments *)
Theorem C06_traversal_is_increments :
  forall chance sampled draw pass n pc p1 p2 st,
    @vrec RNum chance sampled draw pass n pc p1 p2 st =
    (@vval RNum chance sampled draw pass (strat_view st) n,
     fold_left apply_incr (@vincs RNum chance sampled draw pass (strat_view st) n pc p1 p2) st).
Proof. exact vrec_incs. Qed.

(** 2. increments commute: every interleaving of atomic increments yields the same state *)
Theorem C06_every_interleaving :
  forall (l l' : list (@incr RNum)) (st : @pstate RNum),
    Permutation l l' -> fold_left apply_incr l st = fold_left apply_incr l' st.
Proof. exact apply_perm. Qed.

(** the per-cell [fetch_sub] loop is itself a list of single-cell increments, so finer
    interleavings are covered as well *)
Theorem C06_fetch_sub_loop_is_cells :
  forall (st : @pstate RNum) pl i (x : R),
    apply_incr st (@IRegAll RNum pl i x) =
    fold_left apply_incr
      (map (fun a => @IReg RNum pl i a (- x)%R) (seq 0 (length (cum_regret (ri_get st pl i))))) st.
Proof. exact regall_cells. Qed.

(** 3. cut lemma, for *any* antichain of nodes carrying the traversal's reaches (it does
    not depend on how the code picks its frontier): cached traversal + tasks = plain
    traversal, as a value and as a multiset of increments *)
Theorem C06_cut_lemma :
  forall chance sampled draw pass sg n pc p1 p2 (F : list (@fentry RNum)),
    good_frontier chance sampled draw pass sg (n, pc, p1, p2) F ->
    let cache := @task_payoffs RNum chance sampled draw pass sg F in
    let cincs := @vincs RNum chance sampled draw pass sg (@prune RNum cache n) pc p1 p2 in
    (forall st : @pstate RNum, @strat_view RNum st = sg ->
       @vrec_cached RNum chance sampled draw pass cache [] n pc p1 p2 st =
       (@vval RNum chance sampled draw pass sg n, fold_left apply_incr cincs st)) /\
    Permutation (cincs ++ @task_incs RNum chance sampled draw pass sg F)
                (@vincs RNum chance sampled draw pass sg n pc p1 p2).
Proof. exact cut_lemma. Qed.

(** 4. the frontier the code computes is such an antichain, for every target (= 3 x
    threads) and every fuel *)
Theorem C06_frontier_ok :
  forall chance sampled draw pass sg fuel target root,
    good_frontier chance sampled draw pass sg (root, 1, 1, 1)%R
                  (@frontier RNum chance sampled draw pass sg fuel target root).
Proof. exact frontier_ok. Qed.

(** 5. one iteration, every schedule, every target *)
Theorem C06_iteration :
  forall (g : @game RNum) sampled draw p it target sched st,
    (forall l, Permutation l (sched l)) ->
    @multi_iter RNum g sampled draw p it target sched st =
    @vanilla_iter RNum g sampled draw p it st.
Proof. exact multi_iter_eq_single. Qed.

(** 6. the whole solve: strategies, bounds and number of iterations equal those of one
    thread, for every thread target, parameter set, budget, early-termination predicate
    (hence threshold) and every family of schedules *)
Theorem C06_full_multi_eq_single :
  forall (g : @game RNum) draw p budget stop target scheds,
    (forall it l, Permutation l (scheds it l)) ->
    @solve_multi RNum g false draw p budget stop target scheds =
    @solve_single RNum g Full draw p budget stop.
Proof. intros g draw p budget stop target scheds H. exact (solve_multi_eq_single g false draw p budget stop target scheds H). Qed.

(** 7. the same at the level of [Game::solve]'s dispatch: the thread count is purely a
       performance setting (all three methods; the sampled ones under a fixed oracle) *)
Theorem C06_thread_count_is_a_performance_setting :
  forall (g : @game RNum) m draw p budget stop num_threads par s,
    WFgame g -> schedules_ok s ->
    solve_api g m draw p budget stop num_threads par s <> ApiThreadOverflow ->
    solve_api g m draw p budget stop num_threads par s =
    ApiOk (@solve_single RNum g m draw p budget stop).
Proof. exact solve_api_thread_independent. Qed.

(** the workspace never leaks from one iteration to the next in the model: [multi_iter]
    starts every iteration from the root (the repaired behaviour, D1) *)

(** Non-vacuity: a tree on which the frontier really splits into two tasks, and the
    schedule that runs all increments in reverse order is admissible. *)
Example C06_example_two_tasks :
  map fst (@frontier RNum ex_chance false ex_draw 0%N ex_sg (frontier_fuel ex_root) 4 ex_root)
  = [[0%nat]; [1%nat]].
Proof. exact ex_frontier_two_tasks. Qed.

Example C06_example_reverse_schedule :
  forall (g : @game RNum) draw p budget stop target,
    @solve_multi RNum g false draw p budget stop target (fun _ l => rev l) =
    @solve_single RNum g Full draw p budget stop.
Proof. intros. exact (ex_reverse_schedule g false draw p budget stop target). Qed.

Print Assumptions C06_traversal_is_increments.
Print Assumptions C06_every_interleaving.
Print Assumptions C06_fetch_sub_loop_is_cells.
Print Assumptions C06_cut_lemma.
Print Assumptions C06_frontier_ok.
Print Assumptions C06_iteration.
Print Assumptions C06_full_multi_eq_single.
Print Assumptions C06_thread_count_is_a_performance_setting.
Print Assumptions C06_example_two_tasks.
Print Assumptions C06_example_reverse_schedule.
