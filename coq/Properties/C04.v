(** * C04 — Sampled solvers: pathwise rate of the returned bounds, and one-step unbiasedness.

    Statements only; proofs are in [theories/SampledRate.v], [theories/ExternalRate.v],
    [theories/Unbiased.v], [theories/ExternalUnbiased.v].

    What is proved (all over [RNum], every sampling decision universally quantified):
    1. for the chance-sampled and the external-sampled method, every [params], budget and
       stop predicate, and every oracle whose draws are in range — or every oracle at all
       when 0 lies in the payoff range — the returned bounds obey
       [b <= 2 * D * N * sqrt A / sqrt ran];
    2. the range condition on the draws is necessary ([C04_out_of_range_counterexample]):
       the model returns 0 where the implementation panics;
    3. the chance-sampled regret increments and the external-sampled regret increments are
       unbiased estimates of the unsampled counterfactual increments when no chance
       infoset repeats on a path; that condition is necessary ([C04_repeat_is_biased]).

    4. (round 3) over a whole run of T iterations, with the strategy of every iteration depending on
       the earlier draws: the sampled increment of iteration t has, conditionally on every history,
       the true counterfactual increment at the reached state as its mean (martingale differences,
       orthogonal to every function of the past), hence E[sum of sampled increments] = E[sum of
       true increments along the sampled trajectory] for every T, both methods; for the vanilla
       parameters the left side is the expected cumulative regret the solver holds
       ([theories/SampledMartingale.v], [theories/ExternalMartingale.v]).

    5. (round 3) a probability bound by the second-moment method (orthogonality of the differences,
       Chebyshev): the cumulative regret the chance-sampled solver holds for an action is, with
       probability at least 1 - 4 D^2 T / lam^2, within [lam] of the true cumulative counterfactual regret
       along its own trajectory; the average deviation per iteration vanishes in probability as T grows
       ([theories/SampledConcentration.v]; the same for the external-sampled solver:
       [theories/ExternalConcentration.v]).

    NOT proved: the probabilistic clause for the *returned profile* ("with overwhelming
    probability the true regret of the returned profile is below D*N*sqrt(A)/sqrt(T)"): items 4
    and 5 control the cumulative counterfactual regrets along the sampled trajectory; carrying
    that over to the returned average profile needs a concentration argument for the random
    averaging weights of the sampled traversals as well, which is not formalised. *)
From Coq Require Import Reals List Bool NArith.
From Cfr.theories Require Import Num RInst Tree GameWF Valid Strat Eval Solve SolveValidProofs
     LoopProofs Incr IterChar RmPotential CfMass CfrRate ExtIncr SampledRate ExternalRate
     Unbiased ExternalUnbiased VanillaMulti ParallelProofs ExternalMulti ExternalProofs
     SampledMultiRate SampledMartingale ExternalMartingale SampledConcentration ExternalConcentration.
From Coq Require Import Permutation.
Import ListNotations.
Open Scope R_scope.

Theorem C04_sampled_bound_rate :
  forall (g : @game RNum) (draw : @oracle RNum) (p : @params RNum) (lo hi : R) (A : nat),
    WFgame g -> PerfectRecall g -> ChanceOK g -> PayoffsIn lo hi (g_root g) ->
    (forall pl, Forall (fun a => (a <= A)%nat) (arities g pl)) ->
    DrawOK (g_chance g) draw \/ lo <= 0 <= hi ->
    forall budget (stop : R -> bool) strats b1 b2 ran,
      @solve_single RNum g Sampled draw p budget stop = (strats, Some (b1, b2), ran) ->
      b1 <= 2 * (hi - lo) * INR (num_infosets g) * sqrt (INR A) / sqrt (INR (N.to_nat ran)) /\
      b2 <= 2 * (hi - lo) * INR (num_infosets g) * sqrt (INR A) / sqrt (INR (N.to_nat ran)).
Proof. exact sampled_bound_rate_div. Qed.

Theorem C04_sampled_bound_rate_per_player :
  forall (g : @game RNum) (draw : @oracle RNum) (p : @params RNum) (lo hi : R) (A : nat),
    WFgame g -> PerfectRecall g -> ChanceOK g -> PayoffsIn lo hi (g_root g) ->
    (forall pl, Forall (fun a => (a <= A)%nat) (arities g pl)) ->
    DrawOK (g_chance g) draw ->
    forall budget (stop : R -> bool) strats b1 b2 ran,
      @solve_single RNum g Sampled draw p budget stop = (strats, Some (b1, b2), ran) ->
      (1 <= ran)%N /\
      b1 * sqrt (INR (N.to_nat ran)) <= 2 * (hi - lo) * INR (length (g_infos g true)) * sqrt (INR A) /\
      b2 * sqrt (INR (N.to_nat ran)) <= 2 * (hi - lo) * INR (length (g_infos g false)) * sqrt (INR A).
Proof. exact sampled_bound_rate. Qed.

Theorem C04_external_bound_rate :
  forall (g : @game RNum) (draw : @oracle RNum) (p : @params RNum) (lo hi : R) (A : nat),
    WFgame g -> PerfectRecall g -> ChanceOK g -> PayoffsIn lo hi (g_root g) ->
    (forall pl, Forall (fun a => (a <= A)%nat) (arities g pl)) ->
    DrawsInRange draw \/ lo <= 0 <= hi ->
    forall budget (stop : R -> bool) strats b1 b2 ran,
      @solve_single RNum g External draw p budget stop = (strats, Some (b1, b2), ran) ->
      b1 <= 2 * (hi - lo) * INR (num_infosets g) * sqrt (INR A) / sqrt (INR (N.to_nat ran)) /\
      b2 <= 2 * (hi - lo) * INR (num_infosets g) * sqrt (INR A) / sqrt (INR (N.to_nat ran)).
Proof. exact external_bound_rate_div. Qed.

Theorem C04_external_bound_rate_per_player :
  forall (g : @game RNum) (draw : @oracle RNum) (p : @params RNum) (lo hi : R) (A : nat),
    WFgame g -> PerfectRecall g -> ChanceOK g -> PayoffsIn lo hi (g_root g) ->
    (forall pl, Forall (fun a => (a <= A)%nat) (arities g pl)) ->
    DrawsInRange draw ->
    forall budget (stop : R -> bool) strats b1 b2 ran,
      @solve_single RNum g External draw p budget stop = (strats, Some (b1, b2), ran) ->
      (1 <= ran)%N /\
      b1 * sqrt (INR (N.to_nat ran)) <= 2 * (hi - lo) * INR (length (g_infos g true)) * sqrt (INR A) /\
      b2 * sqrt (INR (N.to_nat ran)) <= 2 * (hi - lo) * INR (length (g_infos g false)) * sqrt (INR A).
Proof. exact external_bound_rate. Qed.

(** any thread count: every number of tasks, every schedule of the atomic increments (and,
    for the external method, every reduction order of the bounds) *)
Theorem C04_sampled_multi_bound_rate :
  forall (g : @game RNum) (draw : @oracle RNum) (p : @params RNum) (lo hi : R) (A : nat)
         target scheds,
    WFgame g -> PerfectRecall g -> ChanceOK g -> PayoffsIn lo hi (g_root g) ->
    (forall pl, Forall (fun a => (a <= A)%nat) (arities g pl)) ->
    DrawOK (g_chance g) draw \/ lo <= 0 <= hi ->
    (forall it l, Permutation l (scheds it l)) ->
    forall budget (stop : R -> bool) strats b1 b2 ran,
      @solve_multi RNum g true draw p budget stop target scheds = (strats, Some (b1, b2), ran) ->
      (1 <= ran)%N /\
      b1 * sqrt (INR (N.to_nat ran)) <= 2 * (hi - lo) * INR (length (g_infos g true)) * sqrt (INR A) /\
      b2 * sqrt (INR (N.to_nat ran)) <= 2 * (hi - lo) * INR (length (g_infos g false)) * sqrt (INR A).
Proof. exact sampled_multi_bound_rate. Qed.

Theorem C04_external_multi_bound_rate :
  forall (g : @game RNum) (draw : @oracle RNum) (p : @params RNum) (lo hi : R) (A : nat)
         target fuel scheds psums,
    WFgame g -> PerfectRecall g -> ChanceOK g -> PayoffsIn lo hi (g_root g) ->
    (forall pl, Forall (fun a => (a <= A)%nat) (arities g pl)) ->
    DrawsInRange draw \/ lo <= 0 <= hi ->
    (forall it pl l, Permutation l (scheds it pl l)) ->
    (forall it pl l, psum_ok l (psums it pl l)) ->
    forall budget (stop : R -> bool) strats b1 b2 ran,
      solve_ext_multi g draw p target fuel scheds psums budget stop = (strats, Some (b1, b2), ran) ->
      (1 <= ran)%N /\
      b1 * sqrt (INR (N.to_nat ran)) <= 2 * (hi - lo) * INR (length (g_infos g true)) * sqrt (INR A) /\
      b2 * sqrt (INR (N.to_nat ran)) <= 2 * (hi - lo) * INR (length (g_infos g false)) * sqrt (INR A).
Proof. exact external_multi_bound_rate. Qed.

(** the range condition cannot be dropped when 0 is outside the payoff range *)
Theorem C04_out_of_range_counterexample :
  forall stop : R -> bool,
  exists strats b1 b2 ran,
    @solve_single RNum bad_game Sampled bad_draw (@p_vanilla RNum) 1 stop
    = (strats, Some (b1, b2), ran) /\
    ~ (b1 * sqrt (INR (N.to_nat ran)) <=
       2 * (6 - 5) * INR (length (g_infos bad_game true)) * sqrt (INR 2)).
Proof. exact out_of_range_draw_breaks_rate. Qed.

(** one-step unbiasedness, chance sampling *)
Theorem C04_sampled_unbiased :
  forall (g : @game RNum) (st : @pstate RNum) pass pl i a,
    WFgame g -> ChanceOK g -> InvA (arities g true) (arities g false) st ->
    NoRepeat (g_root g) ->
    expect (g_chance g)
           (fun delta => reg_sum pl i a (@vincs RNum (g_chance g) true (draw_of delta) pass
                                                (strat_view st) (g_root g) 1 1 1)) =
    cfr_inc (g_chance g) (strat_view st) pl i a (g_root g) 1 1 1.
Proof. exact sampled_unbiased_game. Qed.

(** one-step unbiasedness, external sampling *)
Theorem C04_external_unbiased :
  forall (g : @game RNum) (st : @pstate RNum) me cpass ppass i a,
    WFgame g -> PerfectRecall g -> ChanceOK g -> InvA (arities g true) (arities g false) st ->
    NoRepeat (g_root g) ->
    expect (map (strat_view st (negb me)) (seq 0 (length (g_infos g (negb me)))))
           (fun eps =>
              expect (g_chance g)
                     (fun delta =>
                        reg_sum me i a
                                (map tr (eincs (g_chance g)
                                               (draw2 me (length (g_infos1 g)) delta eps)
                                               cpass ppass (length (g_infos1 g)) me
                                               (strat_view st) (g_root g))))) =
    cfr_inc (g_chance g) (strat_view st) me i a (g_root g) 1 1 1.
Proof. exact external_unbiased_game. Qed.

(** a chance infoset repeated on a path makes the sampled increments biased *)
Theorem C04_repeat_is_biased :
  forall pass,
  expect rep_chance
         (fun delta => reg_sum true 0 0 (@vincs RNum rep_chance true (draw_of delta) pass
                                                rep_sg rep_tree 1 1 1)) = 1 / 4 /\
  cfr_inc rep_chance rep_sg true 0 0 rep_tree 1 1 1 = 1 / 8.
Proof. exact repeat_is_biased. Qed.
(** 6. (round 3) a whole run: the sampled regret increments are a martingale-difference estimator of the true
    counterfactual regret increments along the trajectory the sampled run actually plays *)
(** conditional (martingale-difference) form: whatever the history [ds] of the earlier
    iterations and the iteration number, the sampled increment of the next chance-sampled
    iteration has the true counterfactual increment at the reached state as its mean *)
Theorem C04_sampled_md_step :
  forall (g : @game RNum) (p : @params RNum),
    WFgame g -> ChanceOK g -> NoRepeat (g_root g) ->
    forall pl i a it ds,
      expect (g_chance g) (fun d => sampled_inc g pl i a it (run_state g p ds) d) =
      true_inc g pl i a (run_state g p ds).
Proof. exact sampled_md_step. Qed.

Theorem C04_sampled_md_orthogonal :
  forall (g : @game RNum) (p : @params RNum),
    WFgame g -> ChanceOK g -> NoRepeat (g_root g) ->
    forall pl i a n (h : list (list nat) -> R),
      expect_run (g_chance g) (S n)
        (fun ds => h (firstn n ds) * (sampled_inc_at g p pl i a ds n - true_inc_at g p pl i a ds n)) = 0.
Proof. exact sampled_md_orthogonal. Qed.

Theorem C04_sampled_run_tower :
  forall (g : @game RNum) (p : @params RNum),
    WFgame g -> ChanceOK g -> NoRepeat (g_root g) ->
    forall pl i a T,
      expect_run (g_chance g) T (fun ds => sum_upto T (sampled_inc_at g p pl i a ds)) =
      expect_run (g_chance g) T (fun ds => sum_upto T (true_inc_at g p pl i a ds)).
Proof. exact sampled_run_tower. Qed.

Theorem C04_sampled_run_regret_tower :
  forall (g : @game RNum), WFgame g -> ChanceOK g -> NoRepeat (g_root g) ->
  forall pl i a T,
    (i < length (arities g pl))%nat -> (a < nth i (arities g pl) O)%nat ->
    expect_run (g_chance g) T
      (fun ds => nth a (cum_regret (@ri_get RNum (run_state g (@p_vanilla RNum) ds) pl i)) 0) =
    expect_run (g_chance g) T (fun ds => sum_upto T (true_inc_at g (@p_vanilla RNum) pl i a ds)).
Proof. exact sampled_run_regret_tower. Qed.

Theorem C04_run_state_is_solve_loop :
  forall (g : @game RNum) (p : @params RNum) ds (stop : R -> bool),
    (forall b, stop b = false) ->
    fst (fst (@solve_loop RNum g Sampled (draw_run ds) p stop (length ds) 1
                          (@init_state RNum g) None 0%N)) = run_state g p ds.
Proof. exact run_state_solve_loop. Qed.

Theorem C04_external_md_step :
  forall (g : @game RNum) (p : @params RNum),
    WFgame g -> PerfectRecall g -> ChanceOK g -> NoRepeat (g_root g) ->
    forall me i a it st,
      InvA (arities g true) (arities g false) st ->
      expect_iter g p it st (ext_sampled_inc g p me i a it st) =
      expect_iter g p it st (ext_true_inc g p me i a it st).
Proof. exact ext_md_step. Qed.

Theorem C04_external_run_tower :
  forall (g : @game RNum) (p : @params RNum),
    WFgame g -> PerfectRecall g -> ChanceOK g -> NoRepeat (g_root g) ->
    forall me i a n,
      expect_run_ext g p n 1 (@init_state RNum g) (ext_sampled_sum g p me i a 1 (@init_state RNum g)) =
      expect_run_ext g p n 1 (@init_state RNum g) (ext_true_sum g p me i a 1 (@init_state RNum g)).
Proof. exact ext_run_tower. Qed.

(** 7. (round 3) the first probability bound: the differences between sampled and true increments are
    pairwise orthogonal, so the second moment of their sum over T iterations is the sum of the second moments,
    at most 4 D^2 T; by Chebyshev's inequality (in its finite-expectation form: [expect_run] of an indicator is
    the total weight of the draw histories on which the event holds) the cumulative regret that the
    chance-sampled solver accumulates for an action deviates from the true cumulative counterfactual regret
    along the trajectory it actually plays by [lam] or more with probability at most [4 D^2 T / lam^2]; the
    average deviation per iteration exceeds [eps] with probability at most [4 D^2 / (eps^2 T)], which tends to
    zero; for the vanilla parameters the statement is about the [cum_regret] the solver itself holds.
    *)
Theorem C04_md_orthogonal :
  forall (g : @game RNum) (p : @params RNum), WFgame g -> ChanceOK g -> NoRepeat (g_root g) ->
  forall pl i a s t T, (s < t)%nat -> (t < T)%nat ->
    expect_run (g_chance g) T (fun ds => md g p pl i a ds s * md g p pl i a ds t) = 0.
Proof. exact md_orthogonal. Qed.

Theorem C04_mart_second_moment :
  forall (g : @game RNum) (p : @params RNum), WFgame g -> ChanceOK g -> NoRepeat (g_root g) ->
  forall pl i a T,
    expect_run (g_chance g) T (fun ds => mart g p pl i a T ds ^ 2) =
    sum_upto T (fun t => expect_run (g_chance g) T (fun ds => md g p pl i a ds t ^ 2)).
Proof. exact mart_second_moment. Qed.

Theorem C04_chebyshev_run :
  forall rows n lam (f : list (list nat) -> R),
    Forall (Forall (fun x => 0 <= x)) rows -> 0 < lam ->
    expect_run rows n (fun ds => ind_ge lam (f ds)) <= expect_run rows n (fun ds => f ds ^ 2) / lam ^ 2.
Proof. exact chebyshev_run. Qed.

Theorem C04_md_abs_bound :
  forall (g : @game RNum) (p : @params RNum) lo hi,
    WFgame g -> PerfectRecall g -> ChanceOK g -> PayoffsIn lo hi (g_root g) ->
  forall pl i a, (i < length (arities g pl))%nat -> (a < nth i (arities g pl) O)%nat ->
  forall T ds t, history_in (g_chance g) T ds -> (t < T)%nat ->
    Rabs (md g p pl i a ds t) <= 2 * (hi - lo).
Proof. exact md_abs_bound. Qed.

Theorem C04_mart_second_moment_bound :
  forall (g : @game RNum) (p : @params RNum) lo hi,
    WFgame g -> PerfectRecall g -> ChanceOK g -> PayoffsIn lo hi (g_root g) ->
  forall pl i a, (i < length (arities g pl))%nat -> (a < nth i (arities g pl) O)%nat ->
  NoRepeat (g_root g) ->
  forall T, expect_run (g_chance g) T (fun ds => mart g p pl i a T ds ^ 2) <= 4 * (hi - lo) ^ 2 * INR T.
Proof. exact mart_second_moment_bound. Qed.

Theorem C04_sampled_chebyshev_explicit :
  forall (g : @game RNum) (p : @params RNum) lo hi,
    WFgame g -> PerfectRecall g -> ChanceOK g -> PayoffsIn lo hi (g_root g) ->
  forall pl i a, (i < length (arities g pl))%nat -> (a < nth i (arities g pl) O)%nat ->
  NoRepeat (g_root g) ->
  forall T lam, 0 < lam ->
    expect_run (g_chance g) T
      (fun ds => if Rle_dec lam (Rabs (sum_upto T (sampled_inc_at g p pl i a ds) -
                                       sum_upto T (true_inc_at g p pl i a ds)))
                 then 1 else 0) <=
    4 * (hi - lo) ^ 2 * INR T / lam ^ 2.
Proof. exact sampled_chebyshev_explicit. Qed.

Theorem C04_sampled_chebyshev_rate :
  forall (g : @game RNum) (p : @params RNum) lo hi,
    WFgame g -> PerfectRecall g -> ChanceOK g -> PayoffsIn lo hi (g_root g) -> NoRepeat (g_root g) ->
  forall pl i a, (i < length (arities g pl))%nat -> (a < nth i (arities g pl) O)%nat ->
  forall T eps, (0 < T)%nat -> 0 < eps ->
    expect_run (g_chance g) T (fun ds => ind_ge eps (mart g p pl i a T ds / INR T)) <=
    4 * (hi - lo) ^ 2 / (eps ^ 2 * INR T).
Proof. exact sampled_chebyshev_rate. Qed.

Theorem C04_sampled_deviation_vanishes :
  forall (g : @game RNum) (p : @params RNum) lo hi,
    WFgame g -> PerfectRecall g -> ChanceOK g -> PayoffsIn lo hi (g_root g) -> NoRepeat (g_root g) ->
  forall pl i a, (i < length (arities g pl))%nat -> (a < nth i (arities g pl) O)%nat ->
  forall eps delta, 0 < eps -> 0 < delta ->
    exists T0 : nat, forall T, (T0 <= T)%nat ->
      expect_run (g_chance g) T (fun ds => ind_ge eps (mart g p pl i a T ds / INR T)) <= delta.
Proof. exact sampled_deviation_vanishes. Qed.

Theorem C04_sampled_chebyshev_vanilla :
  forall (g : @game RNum) lo hi,
    WFgame g -> PerfectRecall g -> ChanceOK g -> PayoffsIn lo hi (g_root g) -> NoRepeat (g_root g) ->
  forall pl i a, (i < length (arities g pl))%nat -> (a < nth i (arities g pl) O)%nat ->
  forall T lam, 0 < lam ->
    expect_run (g_chance g) T (fun ds => ind_ge lam (regret_dev g pl i a T ds)) <=
    4 * (hi - lo) ^ 2 * INR T / lam ^ 2.
Proof. exact sampled_chebyshev_vanilla. Qed.

Theorem C04_sampled_deviation_vanishes_vanilla :
  forall (g : @game RNum) lo hi,
    WFgame g -> PerfectRecall g -> ChanceOK g -> PayoffsIn lo hi (g_root g) -> NoRepeat (g_root g) ->
  forall pl i a, (i < length (arities g pl))%nat -> (a < nth i (arities g pl) O)%nat ->
  forall eps delta, 0 < eps -> 0 < delta ->
    exists T0 : nat, forall T, (T0 <= T)%nat ->
      expect_run (g_chance g) T (fun ds => ind_ge eps (regret_dev g pl i a T ds / INR T)) <= delta.
Proof. exact sampled_deviation_vanishes_vanilla. Qed.

Print Assumptions C04_md_orthogonal.
Print Assumptions C04_mart_second_moment.
Print Assumptions C04_chebyshev_run.
Print Assumptions C04_md_abs_bound.
Print Assumptions C04_mart_second_moment_bound.
Print Assumptions C04_sampled_chebyshev_explicit.
Print Assumptions C04_sampled_chebyshev_rate.
Print Assumptions C04_sampled_deviation_vanishes.
Print Assumptions C04_sampled_chebyshev_vanilla.
Print Assumptions C04_sampled_deviation_vanishes_vanilla.
(** 8. (round 3) the same second-moment method for the external-sampled solver: the expectation is over the chance
    draws and the action draws of the non-updating player, whose weights are the current strategy of the reached state *)
Theorem C04_ext_md_orthogonal :
  forall (g : @game RNum) (p : @params RNum),
    WFgame g -> PerfectRecall g -> ChanceOK g -> NoRepeat (g_root g) ->
  forall me i a s t n it st,
    InvA (arities g true) (arities g false) st -> (s < t)%nat -> (t < n)%nat ->
    expect_run_ext g p n it st
      (fun xs => ext_md_at g p me i a it st xs s * ext_md_at g p me i a it st xs t) = 0.
Proof. exact ext_md_orthogonal. Qed.

Theorem C04_ext_second_moment :
  forall (g : @game RNum) (p : @params RNum),
    WFgame g -> PerfectRecall g -> ChanceOK g -> NoRepeat (g_root g) ->
  forall me i a n it st,
    InvA (arities g true) (arities g false) st ->
    expect_run_ext g p n it st (fun xs => ext_mart g p me i a it st xs ^ 2) =
    sum_upto n (fun t => expect_run_ext g p n it st (fun xs => ext_md_at g p me i a it st xs t ^ 2)).
Proof. exact ext_second_moment. Qed.

Theorem C04_ext_md_abs_bound :
  forall (g : @game RNum) (p : @params RNum) lo hi,
    WFgame g -> PerfectRecall g -> ChanceOK g -> PayoffsIn lo hi (g_root g) ->
  forall me i a, (i < length (arities g me))%nat -> (a < nth i (arities g me) O)%nat ->
  forall it st x,
    InvA (arities g true) (arities g false) st -> ext_draws_in g p it st x ->
    Rabs (ext_md g p me i a it st x) <= 2 * (hi - lo).
Proof. exact ext_md_abs_bound. Qed.

Theorem C04_ext_second_moment_bound :
  forall (g : @game RNum) (p : @params RNum) lo hi,
    WFgame g -> PerfectRecall g -> ChanceOK g -> PayoffsIn lo hi (g_root g) -> NoRepeat (g_root g) ->
  forall me i a, (i < length (arities g me))%nat -> (a < nth i (arities g me) O)%nat ->
  forall n,
    expect_run_ext g p n 1 (@init_state RNum g)
      (fun xs => ext_mart g p me i a 1 (@init_state RNum g) xs ^ 2) <= 4 * (hi - lo) ^ 2 * INR n.
Proof. exact ext_second_moment_bound. Qed.

Theorem C04_ext_chebyshev_explicit :
  forall (g : @game RNum) (p : @params RNum) lo hi,
    WFgame g -> PerfectRecall g -> ChanceOK g -> PayoffsIn lo hi (g_root g) -> NoRepeat (g_root g) ->
  forall me i a, (i < length (arities g me))%nat -> (a < nth i (arities g me) O)%nat ->
  forall n lam, 0 < lam ->
    expect_run_ext g p n 1 (@init_state RNum g)
      (fun xs => if Rle_dec lam (Rabs (ext_sampled_sum g p me i a 1 (@init_state RNum g) xs -
                                       ext_true_sum g p me i a 1 (@init_state RNum g) xs))
                 then 1 else 0) <=
    4 * (hi - lo) ^ 2 * INR n / lam ^ 2.
Proof. exact ext_chebyshev_explicit. Qed.

Theorem C04_ext_chebyshev_rate :
  forall (g : @game RNum) (p : @params RNum) lo hi,
    WFgame g -> PerfectRecall g -> ChanceOK g -> PayoffsIn lo hi (g_root g) -> NoRepeat (g_root g) ->
  forall me i a, (i < length (arities g me))%nat -> (a < nth i (arities g me) O)%nat ->
  forall n eps, (0 < n)%nat -> 0 < eps ->
    expect_run_ext g p n 1 (@init_state RNum g)
      (fun xs => ind_ge eps (ext_mart g p me i a 1 (@init_state RNum g) xs / INR n)) <=
    4 * (hi - lo) ^ 2 / (eps ^ 2 * INR n).
Proof. exact ext_chebyshev_rate. Qed.

Theorem C04_ext_deviation_vanishes :
  forall (g : @game RNum) (p : @params RNum) lo hi,
    WFgame g -> PerfectRecall g -> ChanceOK g -> PayoffsIn lo hi (g_root g) -> NoRepeat (g_root g) ->
  forall me i a, (i < length (arities g me))%nat -> (a < nth i (arities g me) O)%nat ->
  forall eps delta, 0 < eps -> 0 < delta ->
    exists n0 : nat, forall n, (n0 <= n)%nat ->
      expect_run_ext g p n 1 (@init_state RNum g)
        (fun xs => ind_ge eps (ext_mart g p me i a 1 (@init_state RNum g) xs / INR n)) <= delta.
Proof. exact ext_deviation_vanishes. Qed.

Theorem C04_ext_chebyshev_vanilla :
  forall (g : @game RNum) lo hi,
    WFgame g -> PerfectRecall g -> ChanceOK g -> PayoffsIn lo hi (g_root g) -> NoRepeat (g_root g) ->
  forall me i a, (i < length (arities g me))%nat -> (a < nth i (arities g me) O)%nat ->
  forall n lam, 0 < lam ->
    expect_run_ext g (@p_vanilla RNum) n 1 (@init_state RNum g)
      (fun xs => ind_ge lam (ext_regret_dev g me i a xs)) <= 4 * (hi - lo) ^ 2 * INR n / lam ^ 2.
Proof. exact ext_chebyshev_vanilla. Qed.

Print Assumptions C04_ext_md_orthogonal.
Print Assumptions C04_ext_second_moment.
Print Assumptions C04_ext_md_abs_bound.
Print Assumptions C04_ext_second_moment_bound.
Print Assumptions C04_ext_chebyshev_explicit.
Print Assumptions C04_ext_chebyshev_rate.
Print Assumptions C04_ext_deviation_vanishes.
Print Assumptions C04_ext_chebyshev_vanilla.
Print Assumptions C04_sampled_md_step.
Print Assumptions C04_sampled_md_orthogonal.
Print Assumptions C04_sampled_run_tower.
Print Assumptions C04_sampled_run_regret_tower.
Print Assumptions C04_run_state_is_solve_loop.
Print Assumptions C04_external_md_step.
Print Assumptions C04_external_run_tower.
Print Assumptions C04_sampled_bound_rate.
Print Assumptions C04_sampled_bound_rate_per_player.
Print Assumptions C04_external_bound_rate.
Print Assumptions C04_external_bound_rate_per_player.
Print Assumptions C04_sampled_multi_bound_rate.
Print Assumptions C04_external_multi_bound_rate.
Print Assumptions C04_out_of_range_counterexample.
Print Assumptions C04_sampled_unbiased.
Print Assumptions C04_external_unbiased.
Print Assumptions C04_repeat_is_biased.
