(** * C11 at binary64 — the normalisation of chance weights by the executed instance itself.

    Statements only; proofs are in [theories/NormFloat.v].  [normalise] is the model of the chance
    branch of [Game::init_recurse] *after the repair D14*.  For every list of finite positive
    binary64 weights — whether or not their sum overflows — the stored probabilities are finite
    numbers in [0,1] summing to one within [(2n+2) * 2^-53]: construction never produces a NaN or
    an infinite probability.  A probability can still *underflow* to 0 when a weight is below
    [2^-1074] of the total (the note of DESIGN 0.5: [5e-324, 1e308] gives the row [0, 1]); the
    exact side condition under which every probability is positive is stated. *)
From Coq Require Import List ZArith Reals Floats Bool.
From Flocq Require Import Core.
From Cfr.theories Require Import Num FInst Tree Strat TruncFloat NormFloat.
Import ListNotations.
Local Open Scope R_scope.
Local Notation float := PrimFloat.float.

Theorem C11_binary64_accepted_chance_weights : forall x : float,
  (ltb FNum (zero FNum) x && is_fin FNum x)%bool = true <-> finpos x.
Proof. exact chance_ok_finpos. Qed.

Theorem C11_binary64_probabilities_valid : forall ws : list float,
  Forall finpos ws ->
  (Z.of_nat (length ws) < 2 ^ 53)%Z ->
  Forall fin01 (@normalise FNum ws).
Proof. exact normalise_float_valid. Qed.

Theorem C11_binary64_probabilities_sum : forall ws : list float,
  Forall finpos ws -> ws <> [] -> (Z.of_nat (length ws) < 2 ^ 53)%Z ->
  Rabs (RS (@normalise FNum ws) - 1) <= (2 * INR (length ws) + 2) * bpow radix2 (-53).
Proof. exact normalise_float_sum. Qed.

Theorem C11_binary64_probabilities_positive : forall ws : list float,
  Forall finpos ws ->
  (Z.of_nat (length ws) < 2 ^ 53)%Z ->
  let total := @sum FNum ws in
  let m := fold_left (fmax FNum) ws 0%float in
  let out := @normalise FNum ws in
  length out = length ws /\
  forall k, (k < length ws)%nat ->
    let w := nth k ws 0%float in
    let y := nth k out 0%float in
    (Ffin total -> bpow radix2 (-1074) * FR total <= FR w -> bpow radix2 (-1074) <= FR y) /\
    (~ Ffin total -> bpow radix2 (-1021) * FR m <= FR w -> bpow radix2 (-1074) <= FR y).
Proof. exact normalise_float_pos. Qed.

Print Assumptions C11_binary64_accepted_chance_weights.
Print Assumptions C11_binary64_probabilities_valid.
Print Assumptions C11_binary64_probabilities_sum.
Print Assumptions C11_binary64_probabilities_positive.
