(** * C13 at binary64 — the named view / import round trip computed by the executed instance itself.

    Statements only; proofs are in [theories/RoundTripFloat.v] (Flocq, on top of [TruncFloat.v] and
    [NormFloat.v]).  The view lists the positive entries of a stored row, the import writes them into a
    dense row and runs [finish_row]; [trip r] is that composition on a row, [stored r] what an earlier
    import or solve leaves behind (entries finite in [0,1], exact sum within [(2n+2) * 2^-53] of one).
    "Importing that view back yields the original profile (up to rounding in the last place)":
    - every entry comes back within the relative distance [(3n+4) * 2^-53] (n <= 2^25 actions), zeros
      stay exactly zero, positive entries stay positive;
    - a row whose binary64 sum is exactly one comes back bit for bit;
    - the result is again [stored], so repeated round trips stay within the same distance per trip and
      drift by at most [j * (3n+4) * 2^-53] after [j] trips.
    What the theorems make precise: "in the last place" can mean two units (example [ex_sevenths] in the
    theory file), and the round trip need not be idempotent (period two on the rounded sixths). *)
From Coq Require Import List ZArith Reals Floats Bool.
From Flocq Require Import Core.
From Cfr.theories Require Import Num FInst Tree Strat Solve TruncFloat NormFloat RoundTripFloat.
Import ListNotations.
Local Open Scope R_scope.
Local Notation float := PrimFloat.float.

Theorem C13_binary64_round_trip_close : forall r, stored r -> (Z.of_nat (length r) <= 2 ^ 25)%Z ->
  let out := trip (redense r) in
  length out = length r /\ stored out /\
  forall k, (k < length r)%nat ->
    let p := nth k r 0%float in let y := nth k out 0%float in
    (FR p = 0 -> y = 0%float) /\ (0 < FR p -> 0 < FR y) /\
    Rabs (FR y - FR p) <= (3 * INR (length r) + 4) * bpow radix2 (-53) * FR p + bpow radix2 (-1075) /\
    (bpow radix2 (-1021) <= FR p -> Rabs (FR y - FR p) <= (3 * INR (length r) + 4) * bpow radix2 (-53) * FR p).
Proof. exact round_trip_close. Qed.

Theorem C13_binary64_exact_rows_fixed : forall r : list float,
  Forall fin01 r -> (Z.of_nat (length r) < 2 ^ 53)%Z -> FR (@sum FNum r) = 1 -> trip r = r.
Proof. exact trip_fixed. Qed.

Theorem C13_binary64_import_is_stored : forall r, Forall fin01 r -> (Z.of_nat (length r) < 2 ^ 53)%Z ->
  eqb FNum (@sum FNum r) (zero FNum) = false -> stored (trip r) /\ length (trip r) = length r.
Proof. exact trip_stored_gen. Qed.

Theorem C13_binary64_repeated_trips : forall j r, stored r -> (Z.of_nat (length r) <= 2 ^ 25)%Z ->
  forall k, (k < length r)%nat ->
    Rabs (FR (nth k (trips j r) 0%float) - FR (nth k r 0%float))
    <= INR j * ((3 * INR (length r) + 4) * bpow radix2 (-53) + bpow radix2 (-1075)).
Proof. exact trips_drift. Qed.

Theorem C13_binary64_support_kept : forall j r, stored r -> (Z.of_nat (length r) <= 2 ^ 25)%Z ->
  forall k, (k < length r)%nat ->
    (FR (nth k r 0%float) = 0 -> FR (nth k (trips j r) 0%float) = 0) /\
    (nth k r 0%float = 0%float -> nth k (trips j r) 0%float = 0%float) /\
    (0 < FR (nth k r 0%float) -> 0 < FR (nth k (trips j r) 0%float)).
Proof. exact trips_support. Qed.

Print Assumptions C13_binary64_round_trip_close.
Print Assumptions C13_binary64_exact_rows_fixed.
Print Assumptions C13_binary64_import_is_stored.
Print Assumptions C13_binary64_repeated_trips.
Print Assumptions C13_binary64_support_kept.
