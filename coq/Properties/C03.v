(** * C03 — The unsampled solver converges to equilibrium at the CFR rate on every game.

    Statements only; proofs are in [theories/IterChar.v] (what one iteration does to the
    state), [theories/RmPotential.v] (regret-matching potential), [theories/CfMass.v]
    (counterfactual reaches of an infoset sum to at most one under perfect recall;
    counterfactual regret increments are bounded by the payoff range) and
    [theories/CfrRate.v].

    Clause 1 (the CFR theorem for the returned bound) is proved for **every** parameter
    set, not only vanilla: with payoffs in [[lo, hi]] (D = hi - lo), N infosets and at
    most A actions per infoset, after [ran] iterations of the unsampled method each
    player's returned bound is at most [2 * D * N * sqrt A / sqrt ran] — for every
    early-termination predicate and every prefix of the run.

    Clause 2 (the *true* regret of the returned profile obeys
    [6 * D * N * (sqrt A + 1 / sqrt T) / sqrt T]) is proved for **every documented preset**:
    vanilla ([Properties/C02.v], [C02_true_regret_rate_vanilla]), lcfr
    ([C03_true_regret_rate_lcfr]: regrets and average carry the same weights t) and
    cfr_plus, dcfr, dcfr_prune ([C03_true_regret_rate_presets]: summation by parts over the
    discounted regrets, lower bounds on the discounted cumulative regrets, weighted
    decomposition and average realisation — [theories/DiscountedSpec.v],
    [theories/DiscountedBound.v]), for every early-termination predicate.  Side results: for
    lcfr only [b1 + b2] (not [max b1 b2]) dominates the true regret (witness); for cfr_plus
    [3/2 * (b1 + b2)] does. *)
From Coq Require Import Reals List Bool NArith.
From Cfr.theories Require Import Num RInst Tree GameWF Valid Strat Eval Solve SolveValidProofs LoopProofs Incr
     IterChar RmPotential CfMass CfrRate LcfrBound DiscountedBound.
Import ListNotations.
Open Scope R_scope.

(** 1. the regret-matching potential step, per infoset, for every parameter set:
       adding an increment orthogonal to the played strategy and then discounting raises
       the sum of squared positive regrets by at most the squared increment *)
Theorem C03_rm_potential :
  forall (p q : @params RNum) it (Rg r : list R),
    length Rg = length r -> dot (@regret_match RNum p Rg) r = 0 ->
    sqpos (@discount_cum_regret RNum q it (vadd Rg r)) <= sqpos Rg + sqsum r.
Proof. exact rm_potential_discounted. Qed.

(** 2. the increment the traversal adds is orthogonal to the played strategy ... *)
Theorem C03_increment_orthogonal :
  forall chance sg pl i n pc p1 p2,
    Rsum (sg pl i) = 1 -> dot (sg pl i) (cfr_incs chance sg pl i n pc p1 p2) = 0.
Proof. exact cfr_inc_orthogonal. Qed.

(** ... and bounded by the payoff range (perfect recall: the counterfactual reaches of the
    nodes of one infoset sum to at most one) *)
Theorem C03_cf_mass_le_1 :
  forall (g : @game RNum) (st : @pstate RNum) pl i,
    PerfectRecall g -> ChanceOK g -> Inv st ->
    cf_mass (g_chance g) (strat_view st) pl i (g_root g) 1 1 1 <= 1.
Proof. exact cf_mass_le_1. Qed.

Theorem C03_increment_bounded :
  forall (g : @game RNum) (st : @pstate RNum) (lo hi : R) pl i a,
    WFgame g -> PerfectRecall g -> ChanceOK g ->
    InvA (arities g true) (arities g false) st -> PayoffsIn lo hi (g_root g) ->
    (a < length (strat_view st pl i))%nat ->
    Rabs (cfr_inc (g_chance g) (strat_view st) pl i a (g_root g) 1 1 1) <= hi - lo.
Proof. exact cfr_inc_bounded. Qed.

(** 3. the rate of the returned bounds: every parameter set, oracle, budget, stop predicate *)
Theorem C03_bound_rate :
  forall (g : @game RNum) draw (p : @params RNum) (lo hi : R) (A : nat),
    WFgame g -> PerfectRecall g -> ChanceOK g -> PayoffsIn lo hi (g_root g) ->
    (forall pl, Forall (fun a => (a <= A)%nat) (arities g pl)) ->
    forall budget (stop : R -> bool) strats b1 b2 ran,
      @solve_single RNum g Full draw p budget stop = (strats, Some (b1, b2), ran) ->
      (1 <= ran)%N /\
      b1 <= 2 * (hi - lo) * INR (num_infosets g) * sqrt (INR A) / sqrt (INR (N.to_nat ran)) /\
      b2 <= 2 * (hi - lo) * INR (num_infosets g) * sqrt (INR A) / sqrt (INR (N.to_nat ran)).
Proof.
  intros g draw p lo hi A H1 H2 H3 H4 H5 budget stop strats b1 b2 ran E.
  split.
  - exact (proj1 (bound_rate_all_params g draw p lo hi A H1 H2 H3 H4 H5 budget stop strats b1 b2 ran E)).
  - exact (bound_rate_div g draw p lo hi A H1 H2 H3 H4 H5 budget stop strats b1 b2 ran E).
Qed.

(** the property's clause, literally: vanilla parameters *)
Theorem C03_bound_rate_vanilla :
  forall (g : @game RNum) draw (lo hi : R) (A : nat) budget (stop : R -> bool) strats b1 b2 ran,
    WFgame g -> PerfectRecall g -> ChanceOK g -> PayoffsIn lo hi (g_root g) ->
    (forall pl, Forall (fun a => (a <= A)%nat) (arities g pl)) ->
    @solve_single RNum g Full draw (@p_vanilla RNum) budget stop = (strats, Some (b1, b2), ran) ->
    b1 <= 2 * (hi - lo) * INR (num_infosets g) * sqrt (INR A) / sqrt (INR (N.to_nat ran)) /\
    b2 <= 2 * (hi - lo) * INR (num_infosets g) * sqrt (INR A) / sqrt (INR (N.to_nat ran)).
Proof. exact bound_rate_vanilla_div. Qed.

(** every prefix of the unthresholded run: the bound after [t] iterations; it tends to zero *)
Theorem C03_bound_at_rate :
  forall (g : @game RNum) draw (p : @params RNum) (lo hi : R) (A : nat),
    WFgame g -> PerfectRecall g -> ChanceOK g -> PayoffsIn lo hi (g_root g) ->
    (forall pl, Forall (fun a => (a <= A)%nat) (arities g pl)) ->
    forall t b, bound_at g Full draw p t = Some b ->
                b * sqrt (INR t) <= 2 * (hi - lo) * INR (num_infosets g) * sqrt (INR A).
Proof. exact bound_at_rate. Qed.

(** 4. clause 2 for the LCFR preset: regrets and average strategy are weighted by the same
       weights t, so the decomposition / realisation argument of C02 goes through with weights:
       true regret <= b1 + b2, hence the rate (every stop predicate) *)
Theorem C03_true_regret_rate_lcfr :
  forall (g : @game RNum) draw (lo hi : R) (A : nat),
    WFgame g -> PerfectRecall g -> ChanceOK g -> PayoffsIn lo hi (g_root g) ->
    (forall pl, Forall (fun a => (a <= A)%nat) (arities g pl)) ->
    forall budget (stop : R -> bool) strats b1 b2 ran,
      @solve_single RNum g Full draw (@p_lcfr RNum) budget stop = (strats, Some (b1, b2), ran) ->
      let T := INR (N.to_nat ran) in
      @si_regret RNum (@info RNum g strats) <=
      6 * (hi - lo) * INR (num_infosets g) * (sqrt (INR A) + 1 / sqrt T) / sqrt T.
Proof. exact lcfr_true_regret_rate_C03. Qed.

Theorem C03_lcfr_bound_dominates_sum :
  forall (g : @game RNum) draw budget (stop : R -> bool) strats b1 b2 ran,
    WFgame g -> PerfectRecall g -> ChanceOK g ->
    @solve_single RNum g Full draw (@p_lcfr RNum) budget stop = (strats, Some (b1, b2), ran) ->
    @si_regret RNum (@info RNum g strats) <= 1 * (b1 + b2) /\ 0 <= b1 /\ 0 <= b2.
Proof. exact lcfr_bound_dominates. Qed.

(** for LCFR the *maximum* of the two bounds does not dominate the true regret (which is why
    C02 is stated for vanilla parameters only): a witness *)
Theorem C03_lcfr_max_bound_refuted :
  forall draw : @oracle RNum,
  exists (g : @game RNum) (budget : nat) (stop : R -> bool) (strats : list R * list R) (b1 b2 : R) (ran : N),
    WFgame g /\ PerfectRecall g /\ ChanceOK g /\
    @solve_single RNum g Full draw (@p_lcfr RNum) budget stop = (strats, Some (b1, b2), ran) /\
    Rmax b1 b2 < @si_regret RNum (@info RNum g strats) /\
    @si_regret RNum (@info RNum g strats) <= b1 + b2.
Proof. exact lcfr_max_bound_refuted. Qed.

(** 5. clause 2 for the three presets whose regret discount and averaging weights differ
       (cfr_plus, dcfr, dcfr_prune): summation by parts over the discounted regrets
       ([abel_weighted]), lower bounds on the discounted cumulative regrets, the weighted
       decomposition and average realisation ([theories/DiscountedSpec.v],
       [theories/DiscountedBound.v]); every stop predicate *)
Definition C03_true_regret_rate_presets_statement : Prop :=
  forall (g : @game RNum) draw (p : @params RNum) (lo hi : R) (A : nat) budget strats b1 b2 ran,
    In p [@p_cfr_plus RNum; @p_dcfr RNum; @p_dcfr_prune RNum] ->
    WFgame g -> PerfectRecall g -> ChanceOK g -> PayoffsIn lo hi (g_root g) ->
    (forall pl, Forall (fun a => (a <= A)%nat) (arities g pl)) ->
    @solve_single RNum g Full draw p budget (fun _ => false) = (strats, Some (b1, b2), ran) ->
    let T := INR (N.to_nat ran) in
    @si_regret RNum (@info RNum g strats) <=
    6 * (hi - lo) * INR (num_infosets g) * (sqrt (INR A) + 1 / sqrt T) / sqrt T.

Theorem C03_true_regret_rate_presets : C03_true_regret_rate_presets_statement.
Proof. exact C03_true_regret_rate_presets_proved. Qed.

(** how far the returned bounds are from the true regret for these presets *)
Theorem C03_cfr_plus_bound_dominates :
  forall (g : @game RNum) draw budget (stop : R -> bool) strats b1 b2 ran,
    WFgame g -> PerfectRecall g -> ChanceOK g ->
    @solve_single RNum g Full draw (@p_cfr_plus RNum) budget stop = (strats, Some (b1, b2), ran) ->
    @si_regret RNum (@info RNum g strats) <= 3 / 2 * (b1 + b2) /\ 0 <= b1 /\ 0 <= b2.
Proof. intros g draw budget stop strats b1 b2 ran H1 H2 H3 E. exact (cfr_plus_bound_dominates g H1 draw budget stop strats b1 b2 ran H2 H3 E). Qed.

(** Non-vacuity: matching pennies (D = 2, one infoset per player, two actions). *)
Example C03_example :
  forall draw budget (stop : R -> bool),
    budget <> 0%nat ->
    exists strats b1 b2 ran,
      @solve_single RNum mp_game Full draw (@p_vanilla RNum) budget stop = (strats, Some (b1, b2), ran) /\
      b1 * sqrt (INR (N.to_nat ran)) <= 4 * sqrt 2 /\ b2 * sqrt (INR (N.to_nat ran)) <= 4 * sqrt 2.
Proof. exact mp_rate_exists. Qed.

Print Assumptions C03_rm_potential.
Print Assumptions C03_increment_orthogonal.
Print Assumptions C03_cf_mass_le_1.
Print Assumptions C03_increment_bounded.
Print Assumptions C03_bound_rate.
Print Assumptions C03_bound_rate_vanilla.
Print Assumptions C03_bound_at_rate.
Print Assumptions C03_true_regret_rate_lcfr.
Print Assumptions C03_lcfr_bound_dominates_sum.
Print Assumptions C03_lcfr_max_bound_refuted.
Print Assumptions C03_true_regret_rate_presets.
Print Assumptions C03_cfr_plus_bound_dominates.
Print Assumptions C03_example.
