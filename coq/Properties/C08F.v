(** * C08 at binary64 — the documented special values of the update rules, for the executed instance itself.

    Property C08: "cumulative positive and negative regrets are multiplied by t^a/(t^a+1) and t^b/(t^b+1) after
    iteration t (0, 1/2, 1 for an exponent of -inf, 0, +inf) ... The named presets denote the documented parameter
    tuples, and omitting parameters means the documented default."  Over the reals that is [Properties/C08.v]; the
    general factor goes through [exp]/[ln], which at [FNum] are Gallina re-implementations compared with the code only
    by the correspondence.  The special values and the presets involve no transcendental function: at [FNum] they are
    *exactly* the documented binary64 numbers, for every iteration number (closed computations: [Print Assumptions]
    lists primitive float operations only, no axiom). *)
From Coq Require Import List NArith Bool Floats.
From Cfr.theories Require Import Num FInst Tree Strat Solve.
Import ListNotations.
Local Notation float := PrimFloat.float.

Theorem C08_binary64_discount_minus_infinity : forall t : N, @gen_discount FNum t (@NegInf FNum) = 0%float.
Proof. reflexivity. Qed.

Theorem C08_binary64_discount_plus_infinity : forall t : N, @gen_discount FNum t (@PosInf FNum) = 1%float.
Proof. reflexivity. Qed.

Theorem C08_binary64_discount_zero : forall t : N,
  @gen_discount FNum t (@Fin FNum 0%float) = 0.5%float /\ @gen_discount FNum t (@Fin FNum (-0)%float) = 0.5%float.
Proof. intros t. split; vm_compute; reflexivity. Qed.

(** the averaging weight: exponent [+inf] forgets the accumulated strategy, [-inf] and [0] keep it untouched *)
Theorem C08_binary64_average_discount_special : forall (a b w : @ext FNum) (t : N) (avg : list float),
  @discount_average_strat FNum (@mkParams FNum a b (@PosInf FNum) w) t avg = map (fun _ => 0%float) avg /\
  @discount_average_strat FNum (@mkParams FNum a b (@NegInf FNum) w) t avg = avg /\
  @discount_average_strat FNum (@mkParams FNum a b (@Fin FNum 0%float) w) t avg = avg.
Proof. intros a b w t avg. repeat split. Qed.

(** the presets are the documented tuples, bit for bit; the default is DCFR *)
Theorem C08_binary64_presets :
  @p_vanilla FNum = @mkParams FNum (@PosInf FNum) (@PosInf FNum) (@Fin FNum 0%float) (@Fin FNum 0%float) /\
  @p_lcfr FNum = @mkParams FNum (@Fin FNum 1%float) (@Fin FNum 1%float) (@Fin FNum 1%float) (@PosInf FNum) /\
  @p_cfr_plus FNum = @mkParams FNum (@PosInf FNum) (@NegInf FNum) (@Fin FNum 2%float) (@PosInf FNum) /\
  @p_dcfr FNum = @mkParams FNum (@Fin FNum 1.5%float) (@Fin FNum 0%float) (@Fin FNum 2%float) (@PosInf FNum) /\
  @p_dcfr_prune FNum = @mkParams FNum (@Fin FNum 1.5%float) (@Fin FNum 0.5%float) (@Fin FNum 2%float) (@PosInf FNum) /\
  @p_default FNum = @p_dcfr FNum.
Proof. repeat split; vm_compute; reflexivity. Qed.

(** every preset is accepted by the constructor's test *)
Theorem C08_binary64_presets_accepted :
  @params_ok FNum (@p_vanilla FNum) = true /\ @params_ok FNum (@p_lcfr FNum) = true /\
  @params_ok FNum (@p_cfr_plus FNum) = true /\ @params_ok FNum (@p_dcfr FNum) = true /\
  @params_ok FNum (@p_dcfr_prune FNum) = true.
Proof. repeat split; vm_compute; reflexivity. Qed.

Print Assumptions C08_binary64_discount_minus_infinity.
Print Assumptions C08_binary64_discount_plus_infinity.
Print Assumptions C08_binary64_discount_zero.
Print Assumptions C08_binary64_average_discount_special.
Print Assumptions C08_binary64_presets.
Print Assumptions C08_binary64_presets_accepted.
