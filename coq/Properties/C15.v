(** * C15 — CLI output is faithful to the game in the input file.

    Statements only; proofs are in [theories/CliProofs.v], [theories/CliNamesProofs.v],
    [theories/CliGambitProofs.v], [theories/CliUtilityProofs.v],
    [theories/CliFinalProofs.v].  Model: [theories/Cli.v] — the JSON and Gambit readers
    *after* text parsing ([serde_json], [gambit-parser] and [clap] are dependencies) and
    the [Output] assembly of [main.rs].

    What is proved: whatever profile the solve step returns (any method, any options),
    (1) the five printed numbers are exactly [get_info] of the *printed* profile — which by
        C01 is the expected payoff and the best-response gains on the loaded game;
    (2) for a Gambit file whose pair sums are constantly [c], the loaded game is the game as
        written (player one's own cumulative payoffs) shifted by [-c/2], the printed
        utilities are the two players' own expected payoffs on the game as written and add
        up to [c]; the printed regrets are invariant under that shift (C12_shift_info);
    (3) what is printed is a valid behavioural strategy per infoset: positive probabilities
        summing to one, every infoset and action name once (zero-probability actions
        omitted), for every game [from_root] accepts;
    (4) for JSON files the constant is 0 and the game is [from_root] of the tree with the
        children ordered by key.
    The text -> AST step is exercised end to end by the check, not modelled. *)
From Coq Require Import Reals List Bool NArith Sorting.Sorted Permutation.
From Cfr.theories Require Import Num RInst Tree GameWF Valid Strat Eval Cli
     CliProofs CliNamesProofs CliGambitProofs CliExamples CliUtilityProofs CliFinalProofs CliMoreProofs.
Import ListNotations.
Open Scope R_scope.

(** 1. the printed numbers are [get_info] of the printed profile (+ the constant) *)
Theorem C15_numbers_are_info_of_printed :
  forall (g : @game RNum) (sum clip : R) (prof : list R * list R),
    let out := @cli_choose RNum g sum clip prof in
    let i := @info RNum g (o_prof out) in
    o_regret out = @si_regret RNum i /\ o_reg1 out = si_reg1 i /\ o_reg2 out = si_reg2 i /\
    o_util1 out = si_util i + sum /\ o_util2 out = - si_util i + sum.
Proof. exact cli_output_is_info_of_printed. Qed.

Theorem C15_total_regret_is_max :
  forall (g : @game RNum) (sum clip : R) prof,
    o_regret (@cli_choose RNum g sum clip prof) =
    Rmax (o_reg1 (@cli_choose RNum g sum clip prof)) (o_reg2 (@cli_choose RNum g sum clip prof)).
Proof. exact cli_total_regret. Qed.

(** 2. constant-sum Gambit files: utilities are each player's own expected payoff on the
       game as written; they add up to the constant *)
Theorem C15_gambit_utilities :
  forall (numname : N -> N) (root : @enode RNum) (c : R) (g : @game RNum) (sum : R),
    (forall p, In p (own_pairs root) -> fst p + snd p = c) ->
    gambit_load numname root = Loaded (g, sum) ->
    exists (n1 n2 : list (N * N)) (g1 : @game RNum),
      final_names numname true root = Some n1 /\
      final_names numname false root = Some n2 /\
      from_root (joined (outcomes_of root) n1 n2 0 root 0) = Ok g1 /\
      sum = c / 2 /\
      g = game_map_payoffs (fun x => x - c / 2) g1 /\
      (forall clip prof,
         Valid g prof ->
         let out := @cli_choose RNum g sum clip prof in
         let e := @expected RNum g1 (split_by (fst (o_prof out)) (arities g1 true))
                            (split_by (snd (o_prof out)) (arities g1 false)) in
         Valid g1 (o_prof out) /\ o_util1 out = e /\ o_util2 out = c - e /\
         o_util1 out + o_util2 out = c).
Proof. exact cli_gambit_utilities_final. Qed.

(** ... and the printed regrets are the regrets of the printed profile on the game as
    written (the unshifted game [g1]); the clip decision is the same on both *)
Theorem C15_gambit_regrets :
  forall (numname : N -> N) (root : @enode RNum) (c : R) (g : @game RNum) (sum : R),
    (forall p, In p (own_pairs root) -> fst p + snd p = c) ->
    gambit_load numname root = Loaded (g, sum) ->
    exists (n1 n2 : list (N * N)) (g1 : @game RNum),
      final_names numname true root = Some n1 /\ final_names numname false root = Some n2 /\
      from_root (joined (outcomes_of root) n1 n2 0 root 0) = Ok g1 /\
      sum = c / 2 /\ g = CliGambitProofs.game_map_payoffs (fun x => x - c / 2) g1 /\
      forall clip prof, Valid g prof ->
        let out := @cli_choose RNum g sum clip prof in
        let i1 := @info RNum g1 (o_prof out) in
        Valid g1 (o_prof out) /\
        o_reg1 out = si_reg1 i1 /\ o_reg2 out = si_reg2 i1 /\ o_regret out = @si_regret RNum i1 /\
        o_pruned out = o_pruned (@cli_choose RNum g1 0 clip prof) /\
        o_prof out = o_prof (@cli_choose RNum g1 0 clip prof).
Proof. exact cli_gambit_regrets. Qed.

(** the constant-sum scan on such a file *)
Theorem C15_gambit_constant :
  forall (c : R) (root : @enode RNum),
    (forall p, In p (own_pairs root) -> fst p + snd p = c) -> own_pairs root <> [] ->
    exists cs, @scan_sums RNum (own_pairs root) = Some cs /\ cs_min cs = c / 2 /\ cs_max cs = c / 2 /\
               not_constant_sum cs = false /\ game_sum cs = c / 2.
Proof. exact gambit_constant. Qed.

(** 3. what is printed per player is a valid behavioural strategy over the game's names *)
Theorem C15_printed_valid :
  forall (g : @game RNum) (sum clip : R) prof,
    Valid g prof -> Valid g (o_prof (@cli_choose RNum g sum clip prof)).
Proof. exact cli_printed_valid. Qed.

Theorem C15_printed_rows :
  forall (g : @game RNum) (pl : bool) (prof : list R * list R),
    Valid g prof ->
    Forall (fun e : N * list (N * R) => Rsum (map snd (snd e)) = 1) (@printed_strategy RNum g pl prof) /\
    (forall name l a p, In (name, l) (@printed_strategy RNum g pl prof) -> In (a, p) l -> 0 < p).
Proof.
  intros g pl prof HV. split; [now apply printed_sums_one|].
  intros name l a p H1 H2. exact (printed_positive g pl prof name l a p H1 H2).
Qed.

Theorem C15_printed_names_once :
  forall (t : @gnode RNum) (g : @game RNum) (pl : bool) prof,
    from_root t = Ok g ->
    NoDup (map fst (@printed_strategy RNum g pl prof)) /\
    Forall (fun e : N * list (N * R) => NoDup (map fst (snd e))) (@printed_strategy RNum g pl prof).
Proof. exact printed_no_duplicates. Qed.

(** 4. JSON files *)
Theorem C15_json_loaded :
  forall (j : @jnode RNum) (g : @game RNum) (s : R),
    json_load j = Loaded (g, s) -> s = 0 /\ from_root (json_to_gnode j) = Ok g.
Proof. exact json_load_loaded. Qed.

Theorem C15_json_children_by_key :
  forall (pl : bool) (info : N) (acts : list (N * @jnode RNum)),
    exists kids : list (N * @gnode RNum),
      json_to_gnode (JPlayer pl info acts) = GPlayer pl info kids /\
      StronglySorted N.le (map fst kids) /\ Permutation kids (map jconv_p acts).
Proof. exact json_player_children. Qed.

(** Non-vacuity: a constant-sum file with c = 10: the shift is 5 and the utilities add up to 10. *)
Example C15_example :
  forall (numname : N -> N) (g : @game RNum) (sum clip : R) prof,
    gambit_load numname ex_const = Loaded (g, sum) -> Valid g prof ->
    sum = 5 /\
    o_util1 (@cli_choose RNum g sum clip prof) + o_util2 (@cli_choose RNum g sum clip prof) = 10.
Proof. exact ex_const_utilities. Qed.

Print Assumptions C15_numbers_are_info_of_printed.
Print Assumptions C15_total_regret_is_max.
Print Assumptions C15_gambit_utilities.
Print Assumptions C15_gambit_regrets.
Print Assumptions C15_gambit_constant.
Print Assumptions C15_printed_valid.
Print Assumptions C15_printed_rows.
Print Assumptions C15_printed_names_once.
Print Assumptions C15_json_loaded.
Print Assumptions C15_json_children_by_key.
Print Assumptions C15_example.
