#!/usr/bin/env python3
"""Writes MANIFEST.json from the table below (kept in one place so it stays valid)."""
import json

import os
COMMON_NOTE = ("Assumes: the hand-written Gallina model equals the code only as far as the differential correspondence of this check "
               "shows (model executed at binary64 by vm_compute inside coqc vs the real API, tolerance stated in the evidence); "
               "theorems are over the real-number instance (rounding, overflow and NaN propagation are validated by the float "
               "instance and the monitors, not proved) except those of the Properties/CxxF.v files, which are about the binary64 "
               "instance itself; axioms as printed by Print Assumptions and allowlisted by name "
               "(ClassicalDedekindReals.sig_forall_dec, sig_not_dec, Classical_Prop.classic, functional_extensionality_dep; for the "
               "CxxF.v files additionally the standard library's Floats.FloatAxioms and Uint63 specifications of the primitive types). ")
TECH = "Coq proof over a Gallina model + vm_compute model/implementation correspondence + property monitor"
SPEC = {
    "C01": ("Kernel-checked theorems: the model evaluator equals the expected terminal payoff (leaf sum) for every profile; under WFgame + PerfectRecall + ChanceOK (what from_root guarantees, C11) the best-response value is an upper bound over every behavioural deviation and is attained by a pure strategy, so each reported regret is exactly the largest unilateral gain, non-negative, total = max; zero regret iff equilibrium. Correspondence of get_info with the model at binary64 + independent exhaustive best-response oracle as monitor. Round 3: at binary64 itself (Properties/C01F.v, Flocq) the computed utility is finite and within k*2^-52*(S + L*B*2^-1022) of the exact expectation of the same data, which is the real-number model's value. The best response, both regrets and the exploitability computed at binary64 (BRFloat.v) are finite with an explicit bound under no hypothesis on underflow, and within ops*2^-52*2B of the real-number model's values on the same data when no reach product underflows (decidable checker).", "7 (C01)", ""),
    "C02": ("Kernel-checked CFR theorem on the model: regret decomposition into the model's own cumulative counterfactual regrets, average-strategy realisation under perfect recall, best response (C01): for every accepted game, budget and stop predicate the returned total bound >= true regret of the returned profile, player bounds >= 0, early stop => true regret below the threshold; with C03 the true-regret rate for vanilla; threads by C06. Correspondence of solve(Full, vanilla) + monitor bound >= true regret (get_info and independent exhaustive best response).", "7 (C02)", "Rounding: the theorem is over R; the monitor allows 1e-9 relative slack. "),
    "C03": ("Kernel-checked CFR rate of the returned bounds for EVERY parameter set, oracle, budget and stop predicate: b_pl <= 2*D*N*sqrt(A)/sqrt(T) (regret-matching potential, counterfactual mass <= 1 under perfect recall, increments bounded by the payoff range), every prefix; clause 2 (true regret <= 6*D*N*(sqrt A + 1/sqrt T)/sqrt T) proved for every documented preset: vanilla (via C02), lcfr (weighted decomposition; only b1+b2 dominates there, max(b1,b2) refuted), cfr_plus / dcfr / dcfr_prune (summation by parts over discounted regrets). Correspondence + monitors of both envelopes on adversarial games.", "7 (C03)", "Both clauses are theorems over R; the monitors add the binary64 reading. "),
    "C04": ("PARTIAL. Kernel-checked pathwise facts with every sampling decision universally quantified: the bounds returned by the chance-sampled and external-sampled solvers obey 2*D*N*sqrt(A)/sqrt(T) for every oracle (in range), params, budget, stop predicate, thread target and schedule; one-step unbiasedness of the sampled regret increments (finite expectation over one draw per infoset) when no chance infoset repeats on a path, refuted otherwise. Correspondence under pinned draws + statistical monitor under seeded weight-honouring sampling. Round 3: over whole runs the sampled increments are martingale differences (conditional mean = true counterfactual increment, orthogonal to the past), E[sum sampled] = E[sum true] for every T, and by the second-moment method / Chebyshev the cumulative regret a sampled solver holds for an action is within lambda of the true cumulative counterfactual regret along its own trajectory with probability >= 1 - 4 D^2 T / lambda^2 (both methods).", "7 (C04)", "PARTIAL: the high-probability bound on the TRUE regret of the RETURNED profile and the empirical sentence are decided statistically, not proved (the Chebyshev bounds of round 3 control the cumulative counterfactual regrets along the sampled trajectory, not yet the random averaging weights). Known finding: a chance infoset repeated on one path makes the sampled solvers converge on a different game (listed). "),
    "C05": ("Kernel-checked invariants of the solver model for every method, oracle, parameter set, budget and stop predicate "
            "(every strategy row is a distribution, cum_strat >= 0, returned profile valid, bounds non-negative and None iff no "
            "iteration ran) + correspondence and no-panic/validity monitor over methods x params x budgets x thresholds x thread "
            "counts incl. the usize::MAX/3 boundary. Round 3: at binary64 itself (C05F.v) avg_strat and regret_match (main branch, uniform and arg-max/min fallbacks) return rows of finite numbers in [0,1] summing to one within (2n+2)*2^-53 when the normaliser is finite. The whole solve (SolveFloat.v): for Full and Sampled, any oracle and stop predicate, no NaN and no infinity can arise while reg_cap(g,T)*2^e < 2^1024 (the positive counterpart of the listed overflow finding): returned rows finite in [0,1], bounds finite and non-negative, for vanilla, CFR+ and every parameter tuple with discount factors in [0,1] and a non-softmax fallback; external sampling likewise (ExternalFloat.v).", "7 (C05)",
            "Known finding: binary64 overflow at |payoff| ~ 1e308 (listed). OS thread creation and rayon are runtime, not model. "),
    "C06": ("Kernel-checked: the traversal is a pure value plus a list of atomic increments that commute; cut lemma for any antichain; the code's frontier is one for every target; hence the model of the multi-threaded solve (thread_threshold, payoff cache, tasks under ANY permutation schedule per iteration) returns exactly what the single-threaded solve returns, for every target, params, budget, stop predicate. Correspondence implementation(k threads) vs implementation(1 thread) vs model on frontier-adversarial trees with seeded yield points.", "7 (C06)", "Atomics, Mutex and rayon are trusted; equality is over the reals (summation order). "),
    "C07": ("Kernel-checked: chance-sampled multi = single (shared with C06); external-sampled: pass = pure value + commuting increments, unique visit of every active infoset per pass under perfect recall (over workers and cached traversal together: no try_lock collision), cut lemma, frontier antichain, one draw per cell and pass, solve_ext_multi = solve_single for every oracle, target, schedule and reduction order. Correspondence under pinned draws (k threads vs 1 vs model), draw-event monitor.", "7 (C07)", "Atomics, Mutex and rayon are trusted. "),
    "C08": ("The Coq model is the executable specification; 29 kernel-checked theorems show its update rules mean what the "
            "documentation says (discount factors t^a/(t^a+1), averaging weights t^g, regret matching and its four fallbacks, order "
            "of updates, presets); trajectory-level correspondence for every method under pinned draws decides agreement. Round 3 (C08F.v): at binary64 itself the discount factor is exactly 0, 1/2, 1 for an exponent of -inf, 0, +inf at every iteration, and the presets are the documented tuples bit for bit.", "7 (C08)",
            "Agreement itself is differential (tolerance 1e-8, ill-conditioned cases detected by perturbation and not judged). "),
    "C09": ("Kernel-checked theorem that a thresholded run equals the unthresholded run of budget t* (first iteration whose bound "
            "satisfies the test), for every method/oracle/params/predicate; non-positive and NaN thresholds never stop; "
            "correspondence with thresholds at, just above and just below every bound of the trajectory. Round 3 (C09F.v, LoopGeneric.v): the same theorem for EVERY number type with no law of arithmetic assumed, hence for the executed binary64 instance; there the test is the strict float comparison and a NaN threshold or NaN bound never stops the run.", "7 (C09)", ""),
    "C10": ("Kernel-checked categorical-sampler specification (index k iff the variate lies in the k-th cumulative interval) and "
            "solver frame properties; observer-mode correspondence: recorded live draws replayed through the model reproduce the "
            "run and the presented weights; z-test of production sampler frequencies. Round 3 (C10F.v): the categorical sampler at binary64 itself — index always in range, exact characterisation by the chain of rounded residuals for every input, equal to the cumulative-interval index whenever no subtraction rounds (in particular on the 2^-53 grid of rng.gen::<f64>()), monotone in the variate.", "7 (C10)",
            "rand_distr::WeightedAliasIndex / thread_rng trusted. "),
    "C11": ("Kernel-checked: acceptance <-> declarative contract on node occurrences (over R; completeness and blame for every number type), a rejection names a violated rule, accepted games satisfy WFgame + PerfectRecall (whole history) + ChanceOK, accepted data is finite/positive for every number type incl. binary64. Correspondence on valid and invalid trees + independent Python contract oracle. Round 3: at binary64 itself (C11F.v) the stored chance probabilities are finite numbers in [0,1] for every finite positive weights, overflowing sum or not (repair D14 complete).", "7 (C11)", ""),
    "C12": ("Kernel-checked invariance theorems: rescaling chance weights, inserting/removing transparent nodes and injective renaming give literally the same from_root result (up to names), hence the same evaluation and the same solve by every method; payoffs x c>0 scale utilities/regrets/bounds with strategies unchanged (fallback weight 0 or +-inf: necessary, counterexample proved), + constant shifts utility only and leaves the solver unchanged, swapping the players mirrors everything; unsampled and chance-sampled methods. Correspondence of original vs transformed presentations through the implementation and the model. Round 3 (C12F.v): at binary64 itself multiplying the payoffs by a power of two is bit-exact for the evaluator and for every number get_info reports, under a decidable range check; and for the solver itself (ScaleSolveFloat.v): same strategies, same iteration count, bounds scaled bit for bit for the unsampled and chance-sampled methods and every non-softmax parameter set, under a checker over the unscaled run.", "7 (C12)", "Inexact variants (x3, +constant) are compared at T <= 10 with tolerance 1e-6. "),
    "C13": ("Kernel-checked theorems on the iterator state machines (exact lengths at every prefix, items, round trip) + "
            "correspondence incl. len() before every next(). Round 3: at binary64 itself (C13F.v) the round trip moves every entry by at most (3n+4)*2^-53 relative, keeps zeros and positivity and is the identity on rows whose float sum is exactly one.", "7 (C13)", ""),
    "C14": ("Kernel-checked agreement of the hash-based and scan-based import models for every input + result/ok-iff theorems + "
            "correspondence with an independent oracle. Round 3: at binary64 itself (C14F.v) the imported row is a valid row for every finite non-negative weights that are not all zero, with no hypothesis about overflow (repair D17 complete).", "7 (C14)",
            "Totals that overflow binary64 were a genuine defect (D17), repaired by fix: 2a29992; the model has the same rescaling branch. "),
    "C15": ("Model of the binary's pipeline after text parsing (json/gambit readers, Output assembly) executed against the shipped binary; kernel-checked: the printed numbers are get_info of the printed profile, for constant-sum Gambit files the utilities are each player's own expected payoff on the game as written and add up to the constant, printed strategies are valid rows with every name once. End-to-end monitor: printed strategies re-evaluated on the file-level game by an independent Python evaluator; -m full outputs vs library vs model.", "7 (C15)", "Text parsing (serde_json, gambit-parser), clap and I/O are dependencies, not modelled. "),
    "C16": ("Kernel-checked clip decision (pruned iff strictly lower regret, printed profile valid for every threshold incl. NaN/inf, never worse) + end-to-end correspondence of the binary with the library and the model over the option space (presets, budgets incl. -t 0, thresholds, threads, routes, formats); kernel-checked agreement of the JSON and Gambit reader models on two encodings of one game. Round 3: the option table, the composition reader -> solve -> clip -> output (CliRun.v) and the reader selection flag > extension > content with every documented route printing the same result (CliRoute.v, text parsers universally quantified) are theorems; at binary64 itself (C16F.v) the clip decision is the strict float comparison of the two computed regrets and every printed probability is a finite number in (0,1] for every float threshold.", "7 (C16)", "clap's parsing of the command line and the two text parsers are dependencies: decided by the differential check, universally quantified in the route theorems. "),
    "C17": ("Kernel-checked semantic rejection layer of the reader model (total, a rejection yields no game, not-constant-sum iff the 0.1% rule, duplicate-infosets iff numeric clash or shared name per player with separate name spaces, game error iff from_root refuses) executed against the binary on the same parsed files + corruption stream on the shipped binary (exit status, documented anchors, no output).", "7 (C17)", "PARTIAL: malformed bytes / missing fields / player count are rejected by the dependencies' parsers; that part is a test with generator-computed expectations. "),
    "C18": ("Kernel-checked theorems over the real-number instance of the model of Strategies::truncate (validity for every "
            "threshold incl. NaN/inf via arbitrary predicates, exact support and proportional rescaling, nothing-above branch, "
            "small-threshold identity, idempotence) + correspondence + independent monitor. Round 3: at binary64 itself (C18F.v) truncation maps profiles of finite entries in [0,1] to such profiles for every float threshold incl. NaN and the infinities, removed actions are exactly +0.", "7 (C18)", ""),
    "C19": ("Kernel-checked theorems on the distance model (zero, symmetry, positivity, range for p >= 1, attained bound, no "
            "division by zero, panic iff p <= 0; range refuted for p < 1) + correspondence + monitor. Round 3: at binary64 itself (C19F.v) symmetry holds bit for bit for every exponent, equal finite profiles have distance exactly 0, and for p in {1,2} the distance is finite, non-negative and at most 1 + (2m+2)*2^-53.", "7 (C19)",
            "Known finding: range fails for p < 1 (listed). "),
}
CLAIMED = {}
for pid, (text, ref, extra) in SPEC.items():
    if os.path.exists("/verif/coq/Properties/%s.v" % pid) and os.path.exists("/verif/vplib/props/%s.py" % pid.lower()):
        CLAIMED[pid] = dict(text=text, note=extra + COMMON_NOTE, technique=TECH, ref=ref)
ALL = ["C%02d" % i for i in range(1, 20)]

checks = []
for pid, c in CLAIMED.items():
    checks.append({
        "property_id": pid,
        "quick_cmd": "./check %s --tier quick" % pid,
        "thorough_cmd": "./check %s --tier thorough" % pid,
        "evidence_file": "/verif/evidence/%s.json" % pid,
        "replay_cmd_template": "./check %s --replay {path}" % pid,
        "engine": "coq-model",
        "level_claimed": {"category": "proof", "text": c["text"], "design_ref": "DESIGN.md section " + c["ref"]},
        "level_note": c["note"],
        "technique": c["technique"],
    })
manifest = {
    "version": 1,
    "setup_cmd": "./check --setup",
    "hooks": {
        "guard": "cfr_verif",
        "enable": "RUSTFLAGS=\"--cfg cfr_verif\" (set by /verif/harness/.cargo/config.toml and by vplib/harness.py)",
        "baseline_off_cmd": "cd /repo && cargo test --workspace --no-fail-fast --offline",
        "source_commits": ["a37031b"],
        "add_only": True,
    },
    "engines": [{
        "name": "coq-model",
        "path": "/verif/coq",
        "serves_properties": sorted(CLAIMED),
        "kind_free_text": "hand-written Gallina model (number-polymorphic: theorems at R, execution at binary64 by vm_compute) "
                          "+ Rust executor /verif/harness + Python driver /verif/check",
    }],
    "checks": checks,
    "notes": "See DESIGN.md. Fix commits in /repo are listed in known_findings.json (fixed entries).",
    "not_applicable": [{"property_id": p, "reason": "not yet claimed at this commit: machinery under construction (see DESIGN.md section 10)"}
                       for p in ALL if p not in CLAIMED],
}
json.dump(manifest, open("/verif/MANIFEST.json", "w"), indent=1)
print("claimed:", sorted(CLAIMED))
