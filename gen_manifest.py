#!/usr/bin/env python3
"""Writes MANIFEST.json from the table below (kept in one place so it stays valid)."""
import json

CLAIMED = {
    "C18": dict(
        text="Kernel-checked theorems over the real-number instance of the hand-written Gallina model of "
             "Strategies::truncate (validity for every threshold incl. NaN/inf via arbitrary predicates, exact support and "
             "proportional rescaling, nothing-above branch, small-threshold identity, idempotence), tied to /repo on every run "
             "by a differential correspondence (model at binary64 vs the real API) plus an independent property monitor on the "
             "implementation's outputs.",
        note="Assumes: model = code only as far as the correspondence shows (differential test, tolerance 1e-9); theorems are "
             "over R, rounding is validated not proved; axioms: the standard library's real-number axioms, classic, "
             "functional extensionality (as printed by Print Assumptions, allowlisted by name).",
        technique="Coq proof (induction over rows) + vm_compute model/implementation correspondence",
        ref="7 (C18)"),
}
ALL = ["C%02d" % i for i in range(1, 20)]

checks = []
for pid, c in CLAIMED.items():
    checks.append({
        "property_id": pid,
        "quick_cmd": "./check %s --tier quick" % pid,
        "thorough_cmd": "./check %s --tier thorough" % pid,
        "evidence_file": "/verif/evidence/%s.json" % pid,
        "replay_cmd_template": "./check %s --replay {path}" % pid,
        "engine": "coq-model",
        "level_claimed": {"category": "proof", "text": c["text"], "design_ref": "DESIGN.md section " + c["ref"]},
        "level_note": c["note"],
        "technique": c["technique"],
    })
manifest = {
    "version": 1,
    "setup_cmd": "./check --setup",
    "hooks": {
        "guard": "cfr_verif",
        "enable": "RUSTFLAGS=\"--cfg cfr_verif\" (set by /verif/harness/.cargo/config.toml and by vplib/harness.py)",
        "baseline_off_cmd": "cd /repo && cargo test --workspace --no-fail-fast --offline",
        "source_commits": ["a37031b"],
        "add_only": True,
    },
    "engines": [{
        "name": "coq-model",
        "path": "/verif/coq",
        "serves_properties": sorted(CLAIMED),
        "kind_free_text": "hand-written Gallina model (number-polymorphic: theorems at R, execution at binary64 by vm_compute) "
                          "+ Rust executor /verif/harness + Python driver /verif/check",
    }],
    "checks": checks,
    "notes": "See DESIGN.md. Fix commits in /repo are listed in known_findings.json (fixed entries).",
    "not_applicable": [{"property_id": p, "reason": "not yet claimed at this commit: machinery under construction (see DESIGN.md section 10)"}
                       for p in ALL if p not in CLAIMED],
}
json.dump(manifest, open("/verif/MANIFEST.json", "w"), indent=1)
print("claimed:", sorted(CLAIMED))
