"""Shared pieces of the solver properties: parameter tuples, pinned draw tables, frontier-adversarial trees."""
import math

from .common import f2b, b2f
from .gen import infosets_of, gen_tree, tree_stats

INF = float("inf")
PRESETS = ["vanilla", "lcfr", "cfr_plus", "dcfr", "dcfr_prune"]
EXPS = [-INF, -1.0, 0.0, 0.5, 1.0, 1.5, 2.0, 3.0, INF]


def rand_params(rng, wild=False):
    """None | preset | accepted tuple (strat finite >= 0)"""
    c = rng.random()
    if c < 0.15:
        return None
    if c < 0.5:
        return rng.choice(PRESETS)
    exps = EXPS + ([-1000.0, 1000.0, 37.5, -12.25] if wild else [])
    a, b = rng.choice(exps), rng.choice(exps)
    g = rng.choice([0.0, 0.5, 1.0, 2.0, 3.0] + ([1000.0, 1e-3] if wild else []))
    w = rng.choice([-INF, -2.0, -0.5, 0.0, 0.5, 1.0, 3.0, INF] + ([-1000.0, 1000.0] if wild else []))
    return [a, b, g, w]


def draws_for(rng, t, st=None, n=64):
    st = st or tree_stats(t)
    multi, _ = infosets_of(t)
    return {"chance": [[rng.randrange(1000) for _ in range(n)] for _ in range(st["chance"] + 1)],
            "player": [[rng.randrange(1000) for _ in range(n)] for _ in range(len(multi[1]) + len(multi[2]) + 1)]}


def level_tree(rng, widths, share=True):
    """A tree whose BFS levels have exactly the given numbers of nodes (frontier-adversarial for
    the multi-threaded solvers: widths around 3 * threads). Players alternate, infosets are shared
    among nodes with the same own history where possible."""
    # build level by level: each level's nodes are distributed as children of the previous level's nodes
    counter = [0]

    def fresh():
        counter[0] += 1
        return counter[0]

    root = {"kind": None, "kids": [], "h": ((), ())}
    level = [root]
    for d, w in enumerate(widths):
        nxt = []
        # distribute w children over the current level, each parent gets >= 2 children or 0
        parents = list(level)
        rng.shuffle(parents)
        remaining = w
        alloc = {}
        for i, p in enumerate(parents):
            left = len(parents) - i - 1
            if remaining < 2:
                k = 0
            else:
                k = rng.randint(2, min(4, remaining)) if remaining - 2 >= 0 else 0
                if remaining - k == 1:
                    k += 1
                if left == 0:
                    k = remaining
                if k > 6 and left > 0:
                    k = 4
            alloc[id(p)] = k
            remaining -= k
        for p in level:
            k = alloc.get(id(p), 0)
            p["nkids"] = k
            for _ in range(k):
                c = {"kind": None, "kids": [], "h": p["h"]}
                p["kids"].append(c)
                nxt.append(c)
        level = nxt
    pools = {}

    def render(n, depth, h):
        if not n["kids"]:
            return {"t": f2b(rng.uniform(-10, 10))}
        k = len(n["kids"])
        c = rng.random()
        if c < 0.2:
            return {"c": None, "o": [[f2b(rng.uniform(0.1, 2.0)), render(x, depth + 1, h)] for x in n["kids"]]}
        pl = 1 if (depth + (1 if c < 0.6 else 0)) % 2 == 0 else 2
        key = (pl, h[pl - 1], k)
        pool = pools.setdefault(key, [])
        if share and pool and rng.random() < 0.6:
            info, acts = rng.choice(pool)
        else:
            info, acts = fresh() + 100, [fresh() + 10000 for _ in range(k)]
            pool.append((info, acts))
        kids = []
        for ai, (a, x) in enumerate(zip(acts, n["kids"])):
            nh = list(h)
            nh[pl - 1] = h[pl - 1] + ((info, ai),)
            kids.append([a, render(x, depth + 1, tuple(nh))])
        return {"p": pl, "i": info, "a": kids}

    t = render(root, 0, ((), ()))
    return t, tree_stats(t)


def rows_valid(named_player_items, multi_pl, tol=1e-9):
    """each multi-action infoset carries finite non-negative probabilities summing to one"""
    by = {it[1]: [b2f(p) for _, p in it[3]] for it in named_player_items}
    bad = []
    for info, acts in multi_pl:
        r = by.get(info)
        if r is None:
            bad.append((info, "missing"))
        elif any(not (math.isfinite(x) and x > 0) for x in r) or abs(sum(r) - 1.0) > tol:
            bad.append((info, r))
    return bad


def alternating_tree(rng, depth, first=1, p_stop=0.1, share=0.4, chance_rate=0.15):
    """A bushy game in which the players move in turn (2-3 actions each), occasionally interrupted by chance nodes and
    early terminals; a player's nodes may share an infoset when the own history agrees.  In the external-sampling
    frontier only the updating player's decisions branch, so such trees make the frontier stop in the middle of a level
    with a short remainder - the shape on which workspace state leaking between passes shows (D1/D2)."""
    pools = {}
    counter = [0]

    def fresh():
        counter[0] += 1
        return counter[0]

    def go(d, pl, h):
        if d == 0 or (d < depth - 1 and rng.random() < p_stop):
            return {"t": f2b(rng.uniform(-10, 10))}
        if rng.random() < chance_rate:
            k = rng.choice([2, 2, 3])
            return {"c": None, "o": [[f2b(rng.uniform(0.2, 2.0)), go(d - 1, pl, h)] for _ in range(k)]}
        k = rng.choice([2, 2, 3])
        key = (pl, h[pl - 1], k)
        pool = pools.setdefault(key, [])
        if pool and rng.random() < share:
            info, acts = rng.choice(pool)
        else:
            info, acts = fresh() + 100, [fresh() + 10000 for _ in range(k)]
            pool.append((info, acts))
        kids = []
        for ai, a in enumerate(acts):
            nh = list(h)
            nh[pl - 1] = h[pl - 1] + ((info, ai),)
            kids.append([a, go(d - 1, 3 - pl, tuple(nh))])
        return {"p": pl, "i": info, "a": kids}
    t = go(depth, first, ((), ()))
    return t, tree_stats(t)


def blind_guess_tree(rng):
    """One player opts in or out; after "in" nature draws a hidden state with a *skewed* distribution and the other
    player guesses it without seeing it (one infoset spanning chance outcomes of different probability), then the
    first player may react.  A wrong reach weighting of that infoset (chance reach dropped, stale reach) changes what
    the guesser converges to, which random trees with near-uniform draws do not show."""
    k = rng.choice([2, 2, 3])
    ws = sorted([rng.uniform(0.05, 0.2) for _ in range(k - 1)] + [1.0], reverse=True)
    guesser = rng.choice([1, 2])
    first = 3 - guesser
    outs = []
    for state in range(k):
        acts = []
        for g in range(k):
            pay = rng.uniform(1.0, 3.0) if g == state else -rng.uniform(0.5, 1.5)
            pay = pay if guesser == 1 else -pay
            if rng.random() < 0.3:
                leaf = {"p": first, "i": 300 + g, "a": [[1, {"t": f2b(pay)}], [2, {"t": f2b(pay * rng.uniform(0.2, 1.5))}]]}
            else:
                leaf = {"t": f2b(pay)}
            acts.append([g + 1, leaf])
        outs.append([f2b(ws[state]), {"p": guesser, "i": 200, "a": acts}])
    inner = {"c": None, "o": outs}
    out_pay = rng.uniform(-0.5, 0.5)
    t = {"p": first, "i": 100, "a": [[1, {"t": f2b(out_pay)}], [2, inner]]}
    if rng.random() < 0.4:
        t = {"c": None, "o": [[f2b(rng.uniform(0.5, 2.0)), t], [f2b(rng.uniform(0.5, 2.0)), {"t": f2b(rng.uniform(-1, 1))}]]}
    return t, tree_stats(t)


def hidden_deal_tree(rng, outcomes=12, depth=6, actions=3):
    """an unobserved deal followed by `depth` alternating moves with `actions` actions each, no player observing
    anything but the own moves: every infoset is shared by all deals, so different workers of the multi-threaded
    solvers update the same cells at the same time (contention on the atomic regret cells and the strategy mutex)"""
    def go(d, pl, h, deal):
        if d == 0:
            return {"t": f2b(rng.uniform(-5, 5))}
        info = 1000 * pl + hash((pl, h[pl - 1])) % 100003
        kids = []
        for a in range(actions):
            nh = list(h)
            nh[pl - 1] = h[pl - 1] + (a,)
            kids.append([a + 1, go(d - 1, 3 - pl, tuple(nh), deal)])
        return {"p": pl, "i": names.setdefault((pl, h[pl - 1]), len(names) + 1), "a": kids}
    names = {}
    t = {"c": None, "o": [[f2b(rng.uniform(0.5, 2.0)), go(depth, 1, ((), ()), k)] for k in range(outcomes)]}
    return t, tree_stats(t)


def scale_payoffs(t, c):
    """every terminal payoff multiplied by c (exact for a power of two within range)"""
    if "t" in t:
        return {"t": f2b(b2f(t["t"]) * c)}
    n = dict(t)
    if "o" in t:
        n["o"] = [[w, scale_payoffs(ch, c)] for w, ch in t["o"]]
    else:
        n["a"] = [[a, scale_payoffs(ch, c)] for a, ch in t["a"]]
    return n


def tiny_unit(rng, t):
    """the same game in a far-out payoff unit (exact power of two): every rule of the solvers is homogeneous in the
    payoffs, so absolute tolerances hidden in the code (|x| <= f64::EPSILON treated as zero) show here"""
    c = 2.0 ** rng.choice([-70, -70, -200, -40, 150, -1040])      # the last one: subnormal payoffs
    return scale_payoffs(t, c), c


def with_duplicate_action(rng, t):
    """the same game with one more action at some decision node whose infoset occurs only there: a copy of an
    existing action (identical subtree), so the two have exactly equal value in every iteration -- an exact tie"""
    import copy
    count = {}

    def scan(n):
        if "a" in n:
            count[(n["p"], n["i"])] = count.get((n["p"], n["i"]), 0) + 1
            for _, c in n["a"]:
                scan(c)
        elif "o" in n:
            for _, c in n["o"]:
                scan(c)
    scan(t)
    t2 = copy.deepcopy(t)
    cands = []

    def collect(n):
        if "a" in n:
            if count[(n["p"], n["i"])] == 1 and len(n["a"]) >= 2:
                cands.append(n)
            for _, c in n["a"]:
                collect(c)
        elif "o" in n:
            for _, c in n["o"]:
                collect(c)
    collect(t2)
    if not cands:
        return None
    n = rng.choice(cands)
    a, sub = rng.choice(n["a"])
    new_label = max(x for x, _ in n["a"]) + 7
    # the copy must not contain decisions of the same player again under the same labels (perfect recall would break):
    # copy only subtrees without further decisions of that player
    def has_own(m, pl):
        if "a" in m:
            return m["p"] == pl or any(has_own(c, pl) for _, c in m["a"])
        if "o" in m:
            return any(has_own(c, pl) for _, c in m["o"])
        return False
    if has_own(sub, n["p"]):
        return None
    if rng.random() < 0.5:
        # every action of the node a copy of one of them: all regrets there are exactly zero in every iteration, so the
        # "no positive regret" fallback of regret matching decides the strategy at this infoset
        n["a"] = [[lab, copy.deepcopy(sub)] for lab, _ in n["a"]]
    else:
        n["a"].append([new_label, copy.deepcopy(sub)])
    return t2


def double_move_tree(rng, swap=False):
    """"Hide and seek": one player makes two consecutive choices (k1 x k2 hiding spots), the other observes nothing and
    guesses (one infoset spanning every node of the level); random payoffs with a penalty where the guess is right.
    The breadth-first frontier of the multi-threaded solvers passes through two decisions of the same player here."""
    from .gen import tree_stats
    from .common import f2b
    k1, k2 = rng.choice([2, 2, 3]), rng.choice([2, 3])
    hider, seeker = (2, 1) if swap else (1, 2)
    spots = k1 * k2
    guesses = rng.choice([spots, 2, 3])
    pen = [rng.choice([1.0, 2.0, 3.0]) for _ in range(spots)]

    def seek(spot):
        acts = []
        for gno in range(guesses):
            caught = (spot % guesses) == gno
            v = -pen[spot] if caught else rng.choice([0.0, 0.0, 0.25])
            acts.append([gno + 1, {"t": f2b(v if hider == 1 else -v)}])
        return {"p": seeker, "i": 900, "a": acts}
    root = {"p": hider, "i": 1, "a": [[a + 1, {"p": hider, "i": 10 + a,
                                                "a": [[b + 1, seek(a * k2 + b)] for b in range(k2)]}] for a in range(k1)]}
    return root, tree_stats(root)


def needle_tree(rng, width, pl=1):
    """one decision with `width` actions (more than any fixed-size buffer a traversal might use), the good action near
    the end; the other player then makes a small choice"""
    from .gen import tree_stats
    from .common import f2b
    good = width - 2
    acts = []
    for a in range(width):
        v = 1.0 if a == good else rng.choice([0.0, 0.0, -0.25])
        v = v if pl == 1 else -v
        acts.append([a + 1, {"p": 3 - pl, "i": 700, "a": [[1, {"t": f2b(v)}], [2, {"t": f2b(v - (0.125 if pl == 1 else -0.125))}]]}])
    t = {"p": pl, "i": 1, "a": acts}
    return t, tree_stats(t)


def biased_rps_tree(rng):
    """rock-paper-scissors with unequal stakes in extensive form (the second player does not see the first move):
    a properly mixed equilibrium, D = 4, N = 2, A = 3"""
    from .gen import tree_stats
    from .common import f2b
    a, b, c = rng.choice([(1.0, 2.0, 1.0), (2.0, 1.0, 1.0), (1.0, 1.0, 2.0)])
    M = [[0.0, -a, b], [a, 0.0, -c], [-b, c, 0.0]]
    t = {"p": 1, "i": 1, "a": [[i + 1, {"p": 2, "i": 2, "a": [[j + 1, {"t": f2b(M[i][j])}] for j in range(3)]}] for i in range(3)]}
    return t, tree_stats(t)


def two_coins_tree(rng):
    """two anonymous fair coins one after the other; player one sees the first and passes (0.1) or bets that they are
    equal; player two sees the second and folds (0.25) or calls (+-1).  The coins are independent: value 0.1."""
    from .gen import tree_stats
    from .common import f2b

    def p2(c2, equal):
        return {"p": 2, "i": 40 + c2, "a": [[1, {"t": f2b(0.25)}], [2, {"t": f2b(1.0 if equal else -1.0)}]]}

    def p1(c1):
        return {"p": 1, "i": 30 + c1, "a": [[1, {"t": f2b(0.1)}],
                                             [2, {"c": None, "o": [[f2b(1.0), p2(0, c1 == 0)], [f2b(1.0), p2(1, c1 == 1)]]}]]}
    t = {"c": None, "o": [[f2b(1.0), p1(0)], [f2b(1.0), p1(1)]]}
    return t, tree_stats(t)


def lone_chooser_tree(rng, pl=1):
    """only one player ever has a choice: a card dealt 1:2:3, keep / swap / gamble (a coin and a second choice behind a
    forced move of the other player)"""
    from .gen import tree_stats
    from .common import f2b
    sgn = 1.0 if pl == 1 else -1.0

    def T(x):
        return {"t": f2b(sgn * x)}
    outs = []
    for card, w in enumerate([1.0, 2.0, 3.0]):
        second = {"p": pl, "i": 60 + card, "a": [[1, T(4.0 - card)], [2, T(card * 1.5)]]}
        gamble = {"p": 3 - pl, "i": 80, "a": [[1, {"c": None, "o": [[f2b(1.0), second], [f2b(1.0), T(-4.0)]]}]]}
        outs.append([f2b(w), {"p": pl, "i": 50 + card, "a": [[1, T(float(card))], [2, T(2.0 - card)], [3, gamble]]}])
    t = {"c": None, "o": outs}
    return t, tree_stats(t)


def blind_tree(rng, d1, d2):
    """a coin in front of two identical subgames; player one makes d1 hidden binary moves (an infoset per own history),
    then player two makes d2 binary moves seeing nothing but her own moves; payoffs depend on both histories"""
    from .gen import tree_stats
    from .common import f2b
    table = {}

    def pay(h1, h2):
        key = (h1, h2)
        if key not in table:
            table[key] = rng.choice([-2.0, -1.0, 0.0, 0.5, 1.0, 3.0]) + rng.random() * 0.25
        return table[key]

    def p2(h1, h2):
        if len(h2) == d2:
            return {"t": f2b(pay(h1, h2))}
        info = 5000 + int("1" + "".join(map(str, h2)), 2)
        return {"p": 2, "i": info, "a": [[1, p2(h1, h2 + (0,))], [2, p2(h1, h2 + (1,))]]}

    def p1(h1):
        if len(h1) == d1:
            return p2(h1, ())
        info = 100 + int("1" + "".join(map(str, h1)), 2)
        return {"p": 1, "i": info, "a": [[1, p1(h1 + (0,))], [2, p1(h1 + (1,))]]}
    sub = p1(())
    import copy
    t = {"c": None, "o": [[f2b(1.0), sub], [f2b(1.0), copy.deepcopy(sub)]]}
    return t, tree_stats(t)
