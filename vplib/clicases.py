"""Shared machinery of the CLI properties C15-C17: generated files, what the library and the Coq model
say the binary must print for `-m full`, and the independent file-level evaluation of what it printed."""
import json
import math
from fractions import Fraction

from .common import b2f, f2b, close
from .gen import gen_tree, infosets_of, tree_stats
from .ops import CaseBuilder
from . import cli, harness, coqrun

PRESET_OPT = {"vanilla": "vanilla", "lcfr": "lcfr", "cfr_plus": "cfr-plus", "dcfr": "dcfr", "dcfr_prune": "dcfr-prune"}


class FileCase:
    """one generated input file with everything needed to judge the binary's output"""

    def __init__(self, cid, fmt, text, crate_tree, own_tree, const, names, stats):
        self.cid = cid
        self.fmt = fmt                  # "json" | "gambit"
        self.text = text
        self.crate_tree = crate_tree    # raw tree dict (int labels) the crate's reader hands to from_root
        self.own_tree = own_tree        # file-level tree with both players' own payoffs (printed names)
        self.const = const              # the constant pair sum (float)
        self.names = names              # {"i1": {label: name}, "i2": {...}, "a": {label: name}}
        self.stats = stats


def _unify_chance(t, tab=None):
    """serde_json's default float parser is not always correctly rounded, so two weight vectors that are exact
    power-of-two multiples of each other in the file may not be after parsing; shared chance infosets are
    therefore written with literally the same weights (binary64-range class, see DESIGN 9)"""
    tab = {} if tab is None else tab
    if "t" in t:
        return t
    if "o" in t:
        ws = [w for w, _ in t["o"]]
        if t.get("c") is not None and len(ws) >= 2:
            ws = tab.setdefault((t["c"], len(ws)), ws)
        return {"c": t.get("c"), "o": [[w, _unify_chance(c, tab)] for w, (_, c) in zip(ws, t["o"])]}
    return {"p": t["p"], "i": t["i"], "a": [[a, _unify_chance(c, tab)] for a, c in t["a"]]}


def json_case(cid, rng, t, st):
    t = _unify_chance(t)
    ts = cli.sort_tree(t)
    asc = rng.random() < 0.5      # non-ASCII names either as \u escapes or as raw UTF-8
    text = json.dumps(cli.tree_to_json(t), ensure_ascii=asc)
    # the same document as other byte sequences: pretty-printed, with leading / trailing white space
    c = rng.random()
    if c < 0.2:
        text = json.dumps(cli.tree_to_json(t), indent=rng.choice([1, 2, 4]), ensure_ascii=asc)
    if c < 0.1 or 0.2 <= c < 0.35:
        text = rng.choice(["\n", "  ", "\t\n ", "\r\n"]) + text + rng.choice(["", "\n", " \n"])
    multi, singles = infosets_of(ts)
    names = {"i1": {}, "i2": {}, "a": {}}

    def reg(n):
        if "t" in n:
            return
        if "o" in n:
            for _, c in n["o"]:
                reg(c)
            return
        names["i%d" % n["p"]][n["i"]] = cli.iname(n["i"])
        for a, c in n["a"]:
            names["a"][a] = cli.aname(a)
            reg(c)
    reg(ts)

    def own(n):
        if "t" in n:
            x = Fraction(b2f(n["t"]))
            return {"tq": (x, -x)}
        if "o" in n:
            ws = [Fraction(b2f(w)) for w, _ in n["o"]]
            tot = sum(ws)
            return {"c": n.get("c"), "o": [[w / tot, own(c)] for w, (_, c) in zip(ws, n["o"])]}
        return {"p": n["p"], "i": cli.iname(n["i"]), "a": [[cli.aname(a), own(c)] for a, c in n["a"]]}
    fc = FileCase(cid, "json", text, ts, own(ts), 0.0, names, st)
    fc.sum_expected = 0.0
    fc.coq_tree_expr = "(f_json_tree %s)" % cli.coq_jnode(t)     # file order; the model sorts by key
    fc.coq_sum_expr = "0"
    fc.coq_load_expr = None
    return fc


def gambit_case(cid, rng, t, st, c=None, interior=True, unnamed_rate=0.3):
    b = cli.FileGameBuilder(rng, c=c, interior=interior, unnamed_rate=unnamed_rate)
    fg = b.build(t)
    shown = cli.shuffle_presentation(fg, rng) if rng.random() < 0.7 else fg
    if rng.random() < 0.5:
        shown = cli.partial_names(shown, rng)
    text = cli.efg_text(shown, rng=rng)
    load_expr, rank = cli.coq_gambit_tree_expr(shown)

    def label_of(kind, name):
        return rank[name]
    crate_tree, total = cli.fg_to_crate_tree(fg, label_of)
    own_tree, sums = cli.fg_to_own_tree(fg)
    back = {v: k for k, v in rank.items()}
    names = {"i1": back, "i2": back, "a": back}
    fc = FileCase(cid, "gambit", text, crate_tree, own_tree, float(b.c), names, st)
    fc.coq_load_expr = load_expr
    fc.coq_tree_expr = "(tree_of_loaded %s)" % load_expr
    fc.coq_sum_expr = "(sum_of_loaded %s)" % load_expr
    fc.fg = fg
    fc.sum_expected = total
    return fc


def gen_file_case(cid, rng, fmt=None, **kw):
    fmt = fmt or rng.choice(["json", "gambit"])
    t, st = gen_tree(rng, max_nodes=rng.choice([6, 15, 30, 50]), max_depth=rng.choice([3, 4, 6]), label_space=rng.choice([30, 1000]),
                     p_share=rng.choice([0.5, 0.8]), single_rate=rng.choice([0.1, 0.2]), max_actions=rng.choice([2, 3]))
    if rng.random() < 0.25:
        # an infoset with exactly tied actions (a duplicated action, or all actions alike): its strategy is decided by the
        # "no positive regret" rule of the preset, which is where the presets differ besides their exponents
        from .solvers import with_duplicate_action
        from .gen import tree_stats
        t2 = with_duplicate_action(rng, t)
        if t2 is not None:
            t, st = t2, dict(tree_stats(t2), shared_uses=st.get("shared_uses", 0), chance_shared_uses=st.get("chance_shared_uses", 0))
    # a third of the files use awkward names (spaces, quotes, backslashes, both cases, non-ASCII): same order, same game
    cli.FANCY = cli.ALPHABET if rng.random() < 0.33 else None
    try:
        if fmt == "json":
            return json_case(cid, rng, t, st)
        return gambit_case(cid, rng, t, st, **kw)
    finally:
        cli.FANCY = None


# ---------------------------------------------------------------- options
def random_options(rng, full=None):
    method = "full" if full else rng.choice(["full", "full", "sampled", "external"])
    preset = rng.choice(list(PRESET_OPT))
    T = rng.choice([1, 2, 7, 30, 100])
    r = rng.choice([0.0, 0.0, 0.05, 0.5, 5.0])
    par = rng.choice([1, 1, 2, 0]) if method == "full" else rng.choice([1, 2, 0])
    clip = rng.choice([0.0, 0.0, 1e-3, 0.05, 0.3, 0.6, 1.5])
    return {"method": method, "preset": preset, "T": T, "r": r, "par": par, "clip": clip}


def option_args(o, explicit_defaults=True):
    a = []
    for flag, val in (("-m", o["method"]), ("-d", PRESET_OPT[o["preset"]]), ("-t", str(o["T"])), ("-r", repr(o["r"])),
                      ("-p", str(o["par"])), ("-c", repr(o["clip"]))):
        if flag not in o.get("omit", ()):
            a += [flag, val]
    return a


DEFAULTS = {"-d": ("preset", "dcfr"), "-t": ("T", 1000), "-r": ("r", 0.0), "-c": ("clip", 0.0), "-m": ("method", "external"),
            "-p": ("par", 0)}


def omit_some(rng, o, rate=0.2, flags=("-d", "-t", "-r", "-c")):
    """leave some options off the command line: the documented default must then be what runs (the expectations are
    computed from the option record, into which the default is written here)"""
    o["omit"] = set()
    for flag in flags:
        if rng.random() < rate:
            key, dflt = DEFAULTS[flag]
            o[key] = dflt
            o["omit"].add(flag)
    return o


# ---------------------------------------------------------------- what the library / model say
def add_cli_ops(cb, o, T=None):
    """solve + both candidate profiles, their infos and named views"""
    s = cb.solve("full", o["T"] if T is None else T, o["r"], 1, o["preset"])
    cb.info(s)
    cb.named(s)
    q = cb.truncate(s, o["clip"])
    cb.info(q)
    cb.named(q)
    return cb


def _impl_view(ops):
    """harness results -> (info0, named0, info1, named1) as floats / {label: {a: p}}"""
    def inf(o):
        return [b2f(x) for x in o["ok"]] if isinstance(o, dict) and "ok" in o else None

    def nam(o):
        if not (isinstance(o, dict) and "ok" in o):
            return None
        return [{it[1]: {a: b2f(p) for a, p in it[3]} for it in pl["items"]} for pl in o["ok"]]
    return inf(ops[1]), nam(ops[2]), inf(ops[4]), nam(ops[5])


def _model_view(ops):
    def inf(o):
        return [float(x) for x in o["args"]] if o.get("tag") == 0 else None

    def nam(o):
        if o.get("tag") != 0:
            return None
        return [{name: {a: float(p) for a, p in pairs} for name, pairs in pl[0]} for pl in o["args"]]
    return inf(ops[1]), nam(ops[2]), inf(ops[4]), nam(ops[5])


def expected_output(view, fc, force=None):
    """the Output object main.rs assembles, from one side's (info, named, pruned info, pruned named)"""
    i0, n0, i1, n1 = view
    if i0 is None or i1 is None or n0 is None or n1 is None:
        return None
    use_pruned = (i1[3] < i0[3]) if force is None else force
    info, named = (i1, n1) if use_pruned else (i0, n0)
    out = {"regret": info[3], "player_one_utility": info[0] + fc.sum_expected, "player_two_utility": info[4] + fc.sum_expected,
           "player_one_regret": info[1], "player_two_regret": info[2], "pruned": use_pruned,
           "margin": abs(i1[3] - i0[3])}
    for pl, key in ((0, "player_one_strategy"), (1, "player_two_strategy")):
        tab = {}
        for label, row in named[pl].items():
            tab[fc.names["i%d" % (pl + 1)][label]] = {fc.names["a"][a]: p for a, p in row.items() if p > 0.0}
        out[key] = tab
    return out


def expected_candidates(view, fc, exact=False):
    """the expected object; when the two regrets are within rounding of each other either choice is accepted -
    unless `exact`: the view comes from the very code the binary runs (library, one thread), so even an exact
    tie is decided: the pruned profile is printed only when its regret is *strictly* lower"""
    want = expected_output(view, fc)
    if want is None:
        return None
    if not exact and want["margin"] < 1e-9 * max(1.0, abs(want["regret"])):
        return [want, expected_output(view, fc, force=not want["pruned"])]
    return [want]


def compare_output(printed, want, rel=1e-8):
    """None if the printed object equals the expected one within tolerance"""
    for k in ("regret", "player_one_utility", "player_two_utility", "player_one_regret", "player_two_regret"):
        if not close(float(printed[k]), float(want[k]), rel, abs_=rel):
            return "%s: printed %r, expected %r" % (k, printed[k], want[k])
    for key in ("player_one_strategy", "player_two_strategy"):
        a, b = printed[key], want[key]
        if set(a) != set(b):
            return "%s: infosets %s vs %s" % (key, sorted(a)[:6], sorted(b)[:6])
        for i in a:
            acts = set(a[i]) | set(b[i])
            for x in acts:
                if abs(a[i].get(x, 0.0) - b[i].get(x, 0.0)) > 1e-7:
                    return "%s[%s][%s]: printed %r, expected %r" % (key, i, x, a[i].get(x, 0.0), b[i].get(x, 0.0))
    return None


def library_and_model(pid, cases):
    """cases: list of (FileCase, options, T override).  Returns ({cid: impl view}, {cid: model view}, raw).
    The harness gets the tree the Python mirror of the reader computes; the Coq side gets the *parsed file*
    and runs the model of the reader (Cli.v) itself, then the Output assembly [cli_choose]."""
    from .common import coq_float
    cbs = []
    for fc, o, T in cases:
        cb = CaseBuilder(fc.cid, fc.crate_tree, {"coq_tree_expr": getattr(fc, "coq_tree_expr", None)})
        add_cli_ops(cb, o, T)
        cb.raw("cli", {"op": "noop"}, [], "o_cli %s %s %s %s" % (cb.g, getattr(fc, "coq_sum_expr", "0"), coq_float(o["clip"]), cb.sl(0)), (0,))
        if getattr(fc, "coq_load_expr", None):
            cb.raw("loaded", {"op": "noop"}, [], "o_loaded %s" % fc.coq_load_expr)
        cbs.append(cb)
    impl = harness.run_cases(pid + "_lib", [cb.case() for cb in cbs], chunk=max(1, len(cbs) // 8 + 1), jobs=8)
    model = coqrun.run_shards(pid + "_lib", [cb.coq() for cb in cbs])
    iv, mv, raw = {}, {}, {}
    for cb in cbs:
        r = impl.get(cb.cid, {})
        raw[cb.cid] = (r, model.get(cb.cid))
        iv[cb.cid] = _impl_view(r["ops"]) if "ops" in r else None
        m = model.get(cb.cid)
        mv[cb.cid] = None
        if m and m[0].get("tag") == 0 and m[1]:
            v = _model_view(m[1])
            cli_out = m[1][6] if len(m[1]) > 6 else None
            loaded = m[1][7] if len(m[1]) > 7 else None
            mv[cb.cid] = v + (cli_out, loaded)
    return iv, mv, raw


def model_candidates(view, fc):
    """what the Coq model of the pipeline prints: the [cli_choose] output; when the two candidate regrets are
    within rounding of each other the other candidate is accepted as well"""
    if view is None:
        return None
    cands = expected_candidates(view[:4], fc) or []
    co = view[4]
    if co is None or co.get("tag") != 0:
        return None
    a = co["args"]
    want = {"regret": float(a[0]), "player_one_utility": float(a[1]), "player_two_utility": float(a[2]),
            "player_one_regret": float(a[3]), "player_two_regret": float(a[4]), "pruned": bool(a[5]), "margin": 1.0}
    for pl, key in ((0, "player_one_strategy"), (1, "player_two_strategy")):
        want[key] = {fc.names["i%d" % (pl + 1)][name]: {fc.names["a"][x]: float(p) for x, p in pairs} for name, pairs in a[6 + pl]}
    out = [want]
    if len(cands) == 2:
        out += cands
    return out


# ---------------------------------------------------------------- independent judgement of printed output
def judge_printed(fc, printed):
    """the property of C15 evaluated on what the binary printed, against the game as written in the file"""
    hits = []
    strat = {}
    scale = 1.0

    def walk(n):
        nonlocal scale
        if "tq" in n:
            scale = max(scale, abs(float(n["tq"][0])), abs(float(n["tq"][1])))
        elif "o" in n:
            for _, c in n["o"]:
                walk(c)
        else:
            for _, c in n["a"]:
                walk(c)
    walk(fc.own_tree)
    want_infos = {1: {}, 2: {}}

    def infos(n):
        if "tq" in n:
            return
        if "o" in n:
            for _, c in n["o"]:
                infos(c)
            return
        want_infos[n["p"]].setdefault(n["i"], [a for a, _ in n["a"]])
        for _, c in n["a"]:
            infos(c)
    infos(fc.own_tree)
    for pl, key in ((1, "player_one_strategy"), (2, "player_two_strategy")):
        tab = printed[key]
        strat[pl] = tab
        if set(tab) != set(want_infos[pl]):
            hits.append(("%s lists infosets %s but the file has %s" % (key, sorted(tab)[:8], sorted(want_infos[pl])[:8]), "infosets"))
            continue
        for i, row in tab.items():
            legal = want_infos[pl][i]
            if any(a not in legal for a in row):
                hits.append(("%s[%s] mentions actions %s, legal are %s" % (key, i, sorted(row), legal), "actions"))
            vals = list(row.values())
            if any((not isinstance(v, (int, float))) or not (v > 0.0) or not math.isfinite(v) for v in vals):
                hits.append(("%s[%s] has a non-positive or non-finite probability: %r" % (key, i, row), "row"))
            elif abs(sum(vals) - 1.0) > 1e-9:
                hits.append(("%s[%s] sums to %r" % (key, i, sum(vals)), "row"))
    if hits:
        return hits
    tol = 1e-8 * scale
    e1, e2 = cli.eval_own(fc.own_tree, strat)
    if abs(e1 - printed["player_one_utility"]) > tol:
        hits.append(("printed player_one_utility %r, but the printed strategies give player one %r on the game as written"
                     % (printed["player_one_utility"], e1), "utility-one"))
    if abs(e2 - printed["player_two_utility"]) > tol:
        hits.append(("printed player_two_utility %r, but the printed strategies give player two %r on the game as written"
                     % (printed["player_two_utility"], e2), "utility-two"))
    if abs(printed["player_one_utility"] + printed["player_two_utility"] - fc.const) > tol:
        hits.append(("utilities %r + %r do not add up to the constant %r" % (printed["player_one_utility"],
                                                                             printed["player_two_utility"], fc.const), "constant"))
    br1 = cli.best_response_own(fc.own_tree, strat, 1)
    br2 = cli.best_response_own(fc.own_tree, strat, 2)
    for nm, br, e, key in (("one", br1, e1, "player_one_regret"), ("two", br2, e2, "player_two_regret")):
        want = max(br - e, 0.0)
        if abs(want - printed[key]) > tol:
            hits.append(("printed %s %r, but player %s's best response to the printed strategies gains %r" % (key, printed[key], nm, want),
                         "regret-" + nm))
    if printed["regret"] != max(printed["player_one_regret"], printed["player_two_regret"]):
        hits.append(("regret %r is not the larger of %r, %r" % (printed["regret"], printed["player_one_regret"],
                                                                  printed["player_two_regret"]), "total"))
    return hits
