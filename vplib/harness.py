"""Build and run the Rust executor against /repo's current working tree."""
import json
import os
import shutil
import subprocess

from .common import VERIF, REPO, CACHE, WORK

HDIR = os.path.join(VERIF, "harness")
TARGET = os.path.join(CACHE, "target")
_built = {}


def _env():
    env = dict(os.environ)
    env["CARGO_NET_OFFLINE"] = "true"
    env["CARGO_TARGET_DIR"] = TARGET
    return env


def build_harness():
    """cargo is incremental; any edit under /repo/src triggers a rebuild of the cfr crate."""
    if _built.get("harness"):
        return _built["harness"]
    if os.environ.get("VERIF_HARNESS_EXE"):
        # tools/coverage.py: a coverage-instrumented build of the same executor (measurement only, never evidence)
        _built["harness"] = os.environ["VERIF_HARNESS_EXE"]
        return _built["harness"]
    os.makedirs(CACHE, exist_ok=True)
    hdir = HDIR
    if os.path.realpath(REPO) != "/repo":
        # development only (VERIF_REPO: a snapshot of the repository for long background runs): the executor crate
        # names its dependency by path, so build a copy of it that points at the other tree
        hdir = os.path.join(CACHE, "harness-alt")
        shutil.rmtree(hdir, ignore_errors=True)
        shutil.copytree(HDIR, hdir, ignore=shutil.ignore_patterns("target", "Cargo.lock"))
        toml = open(os.path.join(hdir, "Cargo.toml")).read().replace('path = "/repo"', 'path = "%s"' % REPO)
        open(os.path.join(hdir, "Cargo.toml"), "w").write(toml)
        cfg = os.path.join(hdir, ".cargo", "config.toml")
        if os.path.exists(cfg):
            open(cfg, "w").write(open(cfg).read().replace("/verif/.cache/target", TARGET))
    shutil.copyfile(os.path.join(REPO, "Cargo.lock"), os.path.join(hdir, "Cargo.lock"))
    env = _env()
    env["RUSTFLAGS"] = "--cfg cfr_verif"
    p = subprocess.run(["cargo", "build", "--release", "--offline", "--quiet"], cwd=hdir, env=env,
                       capture_output=True, text=True, timeout=1800)
    if p.returncode != 0:
        raise BuildError("harness build failed (does /repo still compile with --cfg cfr_verif?)\n" + p.stderr[-6000:])
    exe = os.path.join(TARGET, "release", "cfr-verif-harness")
    _built["harness"] = exe
    return exe


def build_cli():
    """The shipped binary: /repo built in release mode with the guard OFF, into our own target dir."""
    if _built.get("cli"):
        return _built["cli"]
    env = _env()
    env["CARGO_TARGET_DIR"] = os.path.join(CACHE, "target-cli")
    env.pop("RUSTFLAGS", None)
    p = subprocess.run(["cargo", "build", "--release", "--offline", "--quiet", "--bin", "cfr"], cwd=REPO, env=env,
                       capture_output=True, text=True, timeout=1800)
    if p.returncode != 0:
        raise BuildError("cfr binary build failed\n" + p.stderr[-6000:])
    exe = os.path.join(CACHE, "target-cli", "release", "cfr")
    _built["cli"] = exe
    return exe


class BuildError(Exception):
    pass


def _cpu_ticks(pid):
    """user + system time of the process and its threads (clock ticks), or None if it is gone"""
    try:
        f = open("/proc/%d/stat" % pid).read()
        rest = f[f.rindex(")") + 2:].split()
        return int(rest[11]) + int(rest[12])
    except Exception:
        return None


def _run_watched(cmd, timeout, idle=90):
    """Run the executor; a process that makes no CPU progress at all for `idle` seconds is deadlocked (every worker
    waiting for a lock) rather than busy: kill it and say so instead of waiting for the long timeout."""
    import tempfile
    import time
    with tempfile.TemporaryFile("w+") as errf:
        p = subprocess.Popen(cmd, stdout=subprocess.DEVNULL, stderr=errf, text=True)
        t0 = time.time()
        last_ticks, last_change = None, time.time()
        status = None
        while True:
            try:
                p.wait(timeout=2)
                status = p.returncode
                break
            except subprocess.TimeoutExpired:
                pass
            now = time.time()
            ticks = _cpu_ticks(p.pid)
            if ticks != last_ticks:
                last_ticks, last_change = ticks, now
            if now - last_change > idle:
                p.kill()
                p.wait()
                status = "hung (no CPU progress for %d s: deadlock)" % idle
                break
            if now - t0 > timeout:
                p.kill()
                p.wait()
                status = "timeout"
                break
        errf.seek(0)
        err = errf.read()[-2000:]
    return status, err


def run_cases(name, cases, timeout=1800, chunk=None, jobs=1):
    """Run cases through the executor; returns dict id -> result."""
    exe = build_harness()
    os.makedirs(WORK, exist_ok=True)
    out = {}
    chunks = [cases] if not chunk else [cases[i:i + chunk] for i in range(0, len(cases), chunk)]

    def one(ic):
        i, cs = ic
        inp = os.path.join(WORK, "%s_in_%d.json" % (name, i))
        outp = os.path.join(WORK, "%s_out_%d.json" % (name, i))
        with open(inp, "w") as f:
            json.dump(cs, f)
        if os.path.exists(outp):
            os.remove(outp)
        status, err = _run_watched([exe, inp, outp], timeout)
        res = {}
        if os.path.exists(outp):
            with open(outp) as f:
                for r in json.load(f):
                    res[r["id"]] = r["res"]
            os.remove(outp)
        os.remove(inp)
        if status != 0:
            for c in cs:
                res.setdefault(c["id"], {"executor_failed": str(status), "stderr": err})
        return res

    if jobs > 1 and len(chunks) > 1:
        import concurrent.futures as cf
        with cf.ThreadPoolExecutor(max_workers=jobs) as ex:
            for res in ex.map(one, enumerate(chunks)):
                out.update(res)
    else:
        for ic in enumerate(chunks):
            out.update(one(ic))
    return out
