"""Build and run the Rust executor against /repo's current working tree."""
import json
import os
import shutil
import subprocess

from .common import VERIF, REPO, CACHE, WORK

HDIR = os.path.join(VERIF, "harness")
TARGET = os.path.join(CACHE, "target")
_built = {}


def _env():
    env = dict(os.environ)
    env["CARGO_NET_OFFLINE"] = "true"
    env["CARGO_TARGET_DIR"] = TARGET
    return env


def build_harness():
    """cargo is incremental; any edit under /repo/src triggers a rebuild of the cfr crate."""
    if _built.get("harness"):
        return _built["harness"]
    os.makedirs(CACHE, exist_ok=True)
    shutil.copyfile(os.path.join(REPO, "Cargo.lock"), os.path.join(HDIR, "Cargo.lock"))
    env = _env()
    env["RUSTFLAGS"] = "--cfg cfr_verif"
    p = subprocess.run(["cargo", "build", "--release", "--offline", "--quiet"], cwd=HDIR, env=env,
                       capture_output=True, text=True, timeout=1800)
    if p.returncode != 0:
        raise BuildError("harness build failed (does /repo still compile with --cfg cfr_verif?)\n" + p.stderr[-6000:])
    exe = os.path.join(TARGET, "release", "cfr-verif-harness")
    _built["harness"] = exe
    return exe


def build_cli():
    """The shipped binary: /repo built in release mode with the guard OFF, into our own target dir."""
    if _built.get("cli"):
        return _built["cli"]
    env = _env()
    env["CARGO_TARGET_DIR"] = os.path.join(CACHE, "target-cli")
    env.pop("RUSTFLAGS", None)
    p = subprocess.run(["cargo", "build", "--release", "--offline", "--quiet", "--bin", "cfr"], cwd=REPO, env=env,
                       capture_output=True, text=True, timeout=1800)
    if p.returncode != 0:
        raise BuildError("cfr binary build failed\n" + p.stderr[-6000:])
    exe = os.path.join(CACHE, "target-cli", "release", "cfr")
    _built["cli"] = exe
    return exe


class BuildError(Exception):
    pass


def run_cases(name, cases, timeout=1800, chunk=None, jobs=1):
    """Run cases through the executor; returns dict id -> result."""
    exe = build_harness()
    os.makedirs(WORK, exist_ok=True)
    out = {}
    chunks = [cases] if not chunk else [cases[i:i + chunk] for i in range(0, len(cases), chunk)]

    def one(ic):
        i, cs = ic
        inp = os.path.join(WORK, "%s_in_%d.json" % (name, i))
        outp = os.path.join(WORK, "%s_out_%d.json" % (name, i))
        with open(inp, "w") as f:
            json.dump(cs, f)
        if os.path.exists(outp):
            os.remove(outp)
        try:
            p = subprocess.run([exe, inp, outp], capture_output=True, text=True, timeout=timeout)
            status = p.returncode
            err = p.stderr[-2000:]
        except subprocess.TimeoutExpired:
            status, err = "timeout", ""
        res = {}
        if os.path.exists(outp):
            with open(outp) as f:
                for r in json.load(f):
                    res[r["id"]] = r["res"]
            os.remove(outp)
        os.remove(inp)
        if status != 0:
            for c in cs:
                res.setdefault(c["id"], {"executor_failed": str(status), "stderr": err})
        return res

    if jobs > 1 and len(chunks) > 1:
        import concurrent.futures as cf
        with cf.ThreadPoolExecutor(max_workers=jobs) as ex:
            for res in ex.map(one, enumerate(chunks)):
                out.update(res)
    else:
        for ic in enumerate(chunks):
            out.update(one(ic))
    return out
