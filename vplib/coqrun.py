"""Run the Coq model on generated cases (Eval vm_compute inside coqc) and parse what it prints."""
import os
import re
import subprocess
import concurrent.futures as cf

from .common import COQDIR, WORK

HEADER = """From Coq Require Import Floats List NArith ZArith Bool.
From Cfr.theories Require Import Num FInst Tree Strat Eval Solve %s%s.
Import ListNotations.
Open Scope float_scope.
Set Printing Width 1000000.
Set Printing Depth 100000000.
Set Warnings "-inexact-float".
"""

_TOK = re.compile(r"\s*(?:(\[|\]|\(|\)|;|,)|([^\s\[\]\(\);,]+))")


def _tokens(s):
    pos = 0
    out = []
    n = len(s)
    while pos < n:
        m = _TOK.match(s, pos)
        if not m:
            break
        pos = m.end()
        if m.group(1):
            out.append(m.group(1))
        elif m.group(2):
            out.append(m.group(2))
    return out


def _atomval(tok):
    t = re.sub(r"%\w+$", "", tok)
    if t == "nan":
        return float("nan")
    if t == "infinity":
        return float("inf")
    if t == "neg_infinity":
        return float("-inf")
    if t == "true":
        return True
    if t == "false":
        return False
    if re.fullmatch(r"-?\d+", t):
        return int(t)
    try:
        return float(t)
    except ValueError:
        return ("id", t)


class _P:
    def __init__(self, toks):
        self.t = toks
        self.i = 0

    def peek(self):
        return self.t[self.i] if self.i < len(self.t) else None

    def eat(self):
        tok = self.t[self.i]
        self.i += 1
        return tok

    def term(self):
        atoms = []
        while self.peek() is not None and self.peek() not in ("]", ")", ";", ","):
            atoms.append(self.atom())
        if len(atoms) == 1:
            return atoms[0]
        head = atoms[0]
        name = head[1] if isinstance(head, tuple) and head and head[0] == "id" else head
        return ("app", name, atoms[1:])

    def atom(self):
        tok = self.eat()
        if tok == "[":
            items = []
            if self.peek() == "]":
                self.eat()
                return items
            while True:
                items.append(self.term())
                if self.eat() == "]":
                    break
            return items
        if tok == "(":
            items = [self.term()]
            while True:
                nxt = self.eat()
                if nxt == ")":
                    break
                items.append(self.term())
            return items[0] if len(items) == 1 else tuple(items)
        return _atomval(tok)


def parse_term(s):
    return _P(_tokens(s)).term()


def to_py(v):
    """Convert parsed `out` values (OF/ON/OB/OL/OTag applications) into plain Python."""
    if isinstance(v, tuple) and v and v[0] == "app":
        name, args = v[1], v[2]
        if name == "OF":
            return float(args[0])
        if name == "ON":
            return int(args[0])
        if name == "OB":
            return bool(args[0])
        if name == "OL":
            return [to_py(x) for x in args[0]]
        if name == "OTag":
            return {"tag": int(args[0]), "args": [to_py(x) for x in args[1]]}
        return (name, [to_py(a) for a in args])
    if isinstance(v, list):
        return [to_py(x) for x in v]
    if isinstance(v, tuple) and v and v[0] == "id":
        return v[1]
    if isinstance(v, tuple):
        return tuple(to_py(x) for x in v)
    return v


_RES = re.compile(r"^\s+= (.*?)\n\s+: ", re.S | re.M)


def run_file(path, timeout=600):
    """coqc one generated file; returns list of parsed results, one per Eval."""
    p = subprocess.run(
        ["coqc", "-noglob", "-Q", COQDIR, "Cfr", path],
        capture_output=True,
        text=True,
        timeout=timeout,
    )
    if p.returncode != 0:
        raise RuntimeError("coqc failed on %s:\n%s\n%s" % (path, p.stdout[-2000:], p.stderr[-4000:]))
    res = []
    for m in _RES.finditer(p.stdout):
        res.append(to_py(parse_term(m.group(1))))
    return res


def run_shards(name, bodies, extra_imports="", timeout=900, jobs=16, per_shard=48, exec_module="Exec"):
    """bodies: list of Coq source chunks, each ending in Eval commands printing (id, out).
    Returns dict id -> out.  At most `per_shard` cases go into one coqc process (bounded memory and
    output size); `jobs` processes run at a time."""
    os.makedirs(WORK, exist_ok=True)
    nshard = max(1, min(jobs, len(bodies)), -(-len(bodies) // per_shard))
    shards = [[] for _ in range(nshard)]
    for i, b in enumerate(bodies):
        shards[i % nshard].append(b)
    paths = []
    for i, sh in enumerate(shards):
        if not sh:
            continue
        path = os.path.join(WORK, "%s_%03d.v" % (name, i))
        with open(path, "w") as f:
            f.write(HEADER % (exec_module, extra_imports))
            f.write("\n".join(sh))
        paths.append(path)
    out = {}
    def attempt(p):
        try:
            return run_file(p, timeout)
        except RuntimeError:
            # a coqc process that died without a Coq error (killed for memory while the machine is busy): once more
            return run_file(p, timeout)

    with cf.ThreadPoolExecutor(max_workers=jobs) as ex:
        for res in ex.map(attempt, paths):
            for r in res:
                cid, val = r
                out[cid] = val
    for p in paths:
        for ext in (".v", ".vo", ".vok", ".vos", ".glob"):
            q = p[:-2] + ext
            if os.path.exists(q):
                os.remove(q)
        aux = os.path.join(os.path.dirname(p), "." + os.path.basename(p)[:-2] + ".aux")
        if os.path.exists(aux):
            os.remove(aux)
    return out


# ---------- emitting Coq terms ----------
from .common import coq_float, b2f  # noqa: E402


def coq_N(n):
    return "%d%%N" % n


def coq_list(items):
    return "[" + "; ".join(items) + "]"


def coq_tree(t):
    """t is the JSON tree used for the harness (floats as bits)."""
    if "t" in t:
        return "(FT %s)" % coq_float(b2f(t["t"]))
    if "o" in t:
        info = "None" if t.get("c") is None else "(Some %s)" % coq_N(t["c"])
        outs = coq_list(["(%s, %s)" % (coq_float(b2f(w)), coq_tree(c)) for w, c in t["o"]])
        return "(FC %s %s)" % (info, outs)
    acts = coq_list(["(%s, %s)" % (coq_N(a), coq_tree(c)) for a, c in t["a"]])
    return "(FP %s %s %s)" % ("true" if t["p"] == 1 else "false", coq_N(t["i"]), acts)


def coq_named(strat):
    """strat: [player1, player2], each a list of [name, [[act, wbits]...]]"""
    def one(pl):
        return coq_list(
            ["(%s, %s)" % (coq_N(n), coq_list(["(%s, %s)" % (coq_N(a), coq_float(b2f(w))) for a, w in acts]))
             for n, acts in pl])
    return "(%s, %s)" % (one(strat[0]), one(strat[1]))
