"""C04 - the chance-sampled and external-sampled solvers converge on every game (partial: statistical)."""
import math
import statistics
import sys

from ..common import b2f, f2b
from ..gen import gen_tree, infosets_of
from ..ops import CaseBuilder
from ..solvers import PRESETS, draws_for, level_tree, alternating_tree
from .c03 import game_constants, chain_tree, wide_tree

SCOPE = {"solve", "named", "info"}
REL = 1e-7
N_QUICK = 44
N_THOROUGH = 600
HARNESS_JOBS = 8
RULE = ("a broad collection of random and adversarial perfect-recall games x methods {Sampled, External} x the five presets x "
        "threads {1,4}: (a) statistical monitor with the hook drawing from a PRNG seeded by VERIF_SEED that honours the presented "
        "weights: true regret (get_info) of the returned profile < D*N*sqrt(A)/sqrt(T) on every run for T in {100, 1000, 4000}, "
        "and over the collection median(regret/D) at T=4000 < 0.01 and < 1/4 of its value at T=100; (b) correspondence with the "
        "model under pinned table draws for T in {1,5,30,100}; non-trivial = game with >= 3 infosets; distinct by (tree, config)")
ASSUMPTIONS = ["PARTIAL: the concentration step (high-probability bound on the true regret) and the empirical sentence are decided "
               "statistically by this monitor under a pinned PRNG stream, not proved",
               "thresholds are the property's own; margins measured on the pinned tree: max regret/envelope 0.023, median "
               "regret/D 0.0009-0.0011 at T=4000 vs 0.013-0.018 at T=100"]
TS = [100, 1000, 4000]


def generate(rng, tier, n):
    cases = []
    cid = 0
    seed = rng.randrange(1 << 40)
    # parameter sweeps: games of one shape but different chance weights built, solved with the production samplers,
    # evaluated and dropped one after the other in one process: nothing computed for one game may be reused for the next
    for m_, k in (("sampled", 1), ("external", 1), ("sampled", 4), ("external", 3)):
        # integer weights (1,9), (9,1), (2,8), ...: the normalised rows of consecutive games are permutations of each other
        ws = [(1.0, 9.0), (9.0, 1.0), (2.0, 8.0), (8.0, 2.0), (3.0, 7.0), (7.0, 3.0)]
        trees = [blind_bets_tree(w, k)[0] for w in ws]
        t, st = blind_bets_tree(ws[0], k)
        cb = CaseBuilder(cid, t, {"stats": st, "method": m_, "preset": "dcfr", "threads": 1, "stat_runs": [], "sweep_ws": ws})
        cb.meta["scope"] = set()
        cb.meta["sweep"] = {"trees": trees, "method": m_, "iters": 4000, "threads": 1, "params": "dcfr"}
        cb.meta["sweep_k"] = k
        cases.append(cb)
        cid += 1
    # two anonymous, identically distributed coins on one path (they are different chance infosets: independent draws),
    # and games in which only one player ever has a choice -- solved with the production samplers
    from ..solvers import two_coins_tree, lone_chooser_tree
    for t, st, m_ in ((two_coins_tree(rng) + ("sampled",)), (two_coins_tree(rng) + ("external",)),
                      (lone_chooser_tree(rng, 1) + ("external",)), (lone_chooser_tree(rng, 2) + ("external",))):
        pre = rng.choice(PRESETS)
        th = rng.choice([1, 2])
        cb = CaseBuilder(cid, t, {"stats": st, "method": m_, "preset": pre, "threads": th, "live": True, "stat_runs": []})
        for T in (1000, 4000):
            s = cb.solve(m_, T, 0.0, th, pre, None, kind="solve_long")
            cb.info(s, kind="info_long")
            cb.meta["stat_runs"].append((T, len(cb.ops) - 2))
        draws = draws_for(rng, t, st, n=211)
        for T in (1, 5, 30):
            s = cb.solve(m_, T, 0.0, th, pre, draws)
            cb.named(s)
            cb.info(s)
        cases.append(cb)
        cid += 1
    while len(cases) < n:
        c = rng.random()
        live = False
        early = False
        if c < 0.08 or len(cases) == 1:
            # most of the chance mass ends the game at once: the sampled bound of such an iteration is exactly zero,
            # which must not be mistaken for "below the threshold 0" (the documented fixed-budget setting)
            t, st = early_exit_tree(rng)
            early = True
        elif c < 0.2:
            # a matrix game with 3-4 actions per player and (almost surely) a properly mixed equilibrium, solved with
            # the *production* samplers (no pinned draws): the only place where the crate's own opponent-action
            # sampler decides whether the solver converges
            t, st = matrix_game(rng, rng.choice([3, 3, 4]))
            live = True
        elif c < 0.3:
            t, st = alternating_tree(rng, rng.choice([4, 5]), first=rng.choice([1, 2]))
        elif c < 0.4:
            t, st = chain_tree(rng, rng.choice([6, 10]))
        elif c < 0.5:
            t, st = wide_tree(rng, 8)
        elif c < 0.58:
            t, st = level_tree(rng, [3, 11, rng.choice([12, 20])])
        else:
            t, st = gen_tree(rng, max_nodes=rng.choice([20, 50, 90]), max_depth=rng.choice([4, 6]),
                             p_share=rng.choice([0.5, 0.8]), chance_share=0.7)
        multi, _ = infosets_of(t)
        if len(multi[1]) + len(multi[2]) < 2:
            continue
        tiny = False
        if not live and (len(cases) % 6 == 3 or rng.random() < 0.08):
            from ..solvers import tiny_unit
            t, _unit = tiny_unit(rng, t)           # the same game in a far-out payoff unit (on a fixed schedule, both methods)
            tiny = True
        if not live and st.get("chance", 0) >= 1 and rng.random() < 0.2:
            live = True                            # the production samplers themselves, on games with chance nodes
        method = "external" if (live and st.get("chance", 0) == 0) else rng.choice(["sampled", "external"] + (["sampled"] * 3 if early else []))
        if tiny and len(cases) % 6 == 3:
            method = ["external", "sampled"][(len(cases) // 6) % 2]
        preset = rng.choice(PRESETS)
        threads = rng.choice([1, 2, 2, 4])
        cb = CaseBuilder(cid, t, {"stats": st, "method": method, "preset": preset, "threads": threads})
        cb.meta["stat_runs"] = []
        cb.meta["live"] = live
        for T in (TS + [40000] if (live and st.get("chance", 0) == 0) or early else TS):
            s = cb.solve(method, T, 0.0, threads, preset, None if live else {"weighted_seed": seed + cid * 7 + T}, kind="solve_long")
            cb.info(s, kind="info_long")
            cb.meta["stat_runs"].append((T, len(cb.ops) - 2))
        draws = draws_for(rng, t, st, n=211)
        for T in (1, 5, 30, 100):
            s = cb.solve(method, T, 0.0, threads, preset, draws)
            cb.named(s)
            cb.info(s)
        cases.append(cb)
        cid += 1
    return cases


def blind_bet_tree(w):
    """a hidden coin with weights w : 1-w, player one (not seeing it) bets L or R, +-1; player two then makes an
    irrelevant choice.  The best bet depends on the weights: solving with another coin gives the wrong answer."""
    from ..gen import tree_stats

    def p2(x, info):
        return {"p": 2, "i": info, "a": [[1, {"t": f2b(x)}], [2, {"t": f2b(x - 0.25)}]]}

    def p1(sign):
        return {"p": 1, "i": 1, "a": [[1, p2(sign * 1.0, 21)], [2, p2(-sign * 1.0, 22)]]}
    t = {"c": None, "o": [[f2b(w), p1(1.0)], [f2b(1.0 - w), p1(-1.0)]]}
    return t, tree_stats(t)


def blind_bets_tree(w, k):
    """k independent blind bets, one of them picked uniformly at the root (its own coin, its own infosets): the regret
    of a profile is the average of its regrets in the k subgames"""
    from ..gen import tree_stats

    def sub(j):
        def p2(x, info):
            return {"p": 2, "i": 100 + 2 * j + info, "a": [[1, {"t": f2b(x)}], [2, {"t": f2b(x - 0.25)}]]}

        def p1(sign):
            return {"p": 1, "i": j, "a": [[1, p2(sign * 1.0, 0)], [2, p2(-sign * 1.0, 1)]]}
        wa, wb = w if isinstance(w, tuple) else (w, 1.0 - w)
        return {"c": 10 + j, "o": [[f2b(wa), p1(1.0)], [f2b(wb), p1(-1.0)]]}
    t = {"c": 1, "o": [[f2b(1.0), sub(j)] for j in range(k)]}
    return t, tree_stats(t)


def early_exit_tree(rng):
    """chance: weight 3 -> the game is over (payoff 0), weight 1 -> biased matching pennies (the uniform profile has a
    large regret there)"""
    from ..gen import tree_stats
    a, b, c_, d = rng.choice([(4.0, -2.0, -1.0, 1.0), (3.0, -1.0, -2.0, 1.5), (5.0, -3.0, -1.0, 2.0)])
    sub = {"p": 1, "i": 1, "a": [[1, {"p": 2, "i": 2, "a": [[1, {"t": f2b(a)}], [2, {"t": f2b(b)}]]}],
                                 [2, {"p": 2, "i": 2, "a": [[1, {"t": f2b(c_)}], [2, {"t": f2b(d)}]]}]]}
    t = {"c": None, "o": [[f2b(rng.choice([3.0, 5.0])), {"t": f2b(0.0)}], [f2b(1.0), sub]]}
    return t, tree_stats(t)


def matrix_game(rng, k):
    """player one picks a row, player two (not seeing it) a column; integer payoffs in [-3, 3]"""
    from ..gen import tree_stats
    pay = [[float(rng.randint(-3, 3)) for _ in range(k)] for _ in range(k)]
    # make pure equilibria unlikely: a cyclic dominance component
    for i in range(k):
        pay[i][i] = 0.0
        pay[i][(i + 1) % k] = float(rng.randint(1, 3))
        pay[(i + 1) % k][i] = -float(rng.randint(1, 3))
    t = {"p": 1, "i": 1, "a": [[r + 1, {"p": 2, "i": 2, "a": [[c + 1, {"t": f2b(pay[r][c])}] for c in range(k)]}] for r in range(k)]}
    return t, tree_stats(t)


def repeated_chance(t, seen=frozenset()):
    """does some chance infoset label (on nodes with >= 2 outcomes) occur twice on one root-to-leaf path?"""
    if "t" in t:
        return False
    if "o" in t:
        lab = t.get("c")
        if lab is not None and len(t["o"]) >= 2:
            if lab in seen:
                return True
            seen = seen | {lab}
        return any(repeated_chance(c, seen) for _, c in t["o"])
    return any(repeated_chance(c, seen) for _, c in t["a"])


def corpus():
    """probe of the known finding: the same chance infoset twice on a path"""
    def T(x):
        return {"t": f2b(x)}

    def P(x):
        return {"p": 1, "i": 1, "a": [[1, T(x)], [2, T(0.0)]]}

    def inner(a, b):
        return {"c": 7, "o": [[f2b(1.0), P(a)], [f2b(1.0), P(b)]]}
    t = {"c": 7, "o": [[f2b(1.0), inner(1.0, -10.0)], [f2b(1.0), inner(-10.0, 1.0)]]}
    from ..gen import tree_stats
    cb = CaseBuilder(900000, t, {"stats": tree_stats(t), "method": "sampled", "preset": "dcfr", "threads": 1, "probe": True})
    cb.meta["stat_runs"] = []
    s = cb.solve("sampled", 3000, 0.0, 1, "dcfr", {"weighted_seed": 12345}, kind="solve_long")
    cb.info(s, kind="info_long")
    cb.meta["stat_runs"].append((3000, 0))
    return [cb]


def monitor(cb, impl):
    hits = []
    if "ops" not in impl:
        if "executor_failed" in impl:
            hits.append(("the process running the solves died or hung: %r" % impl, "crash"))
        return hits
    D, N, A = game_constants(cb.tree)
    m = cb.meta
    for o in impl["ops"]:
        if isinstance(o, dict) and "panic" in o:
            hits.append(("panic: %s" % o["panic"], "panic"))
    if m.get("sweep"):
        # the envelope with per-infoset payoff ranges (the CFR bound is a sum over infosets of range_i*sqrt(A)/sqrt(T)):
        # in the uniform mixture of k independent subgames every counterfactual value carries the factor 1/k, so the
        # 3k infosets contribute (D/k)*sqrt(A)/sqrt(T) each: 3*D*sqrt(A)/sqrt(T) with D = 2.25, A = 2, whatever k
        res = impl["ops"][0].get("ok") if impl["ops"] else None
        T = m["sweep"]["iters"]
        env = 2.25 * 3 * math.sqrt(2) / math.sqrt(T)
        for j, r in enumerate(res or []):
            reg = b2f(r[3])
            if not (reg < env):
                hits.append(("sweep of %d games (%s, T=%d) in one process: game %d (coin weights %r) is returned with true regret %r, not below D*N*sqrt(A)/sqrt(T) = %r"
                             % (len(res), m["method"], T, j, m["sweep_ws"][j], reg, env), "sweep"))
        if res is None:
            hits.append(("sweep not executed: %r" % impl["ops"], "sweep"))
        return hits
    for T, k in m["stat_runs"]:
        s, info = impl["ops"][k], impl["ops"][k + 1]
        if "ok" not in s or "ok" not in info:
            continue
        reg = b2f(info["ok"][3])
        env = D * N * math.sqrt(A) / math.sqrt(T)
        if not (reg < env):
            hits.append(("%s/%s, %d threads, T=%d: true regret %r is not below D*N*sqrt(A)/sqrt(T) = %r (D=%r N=%d A=%d)"
                         % (m["method"], m["preset"], m["threads"], T, reg, env, D, N, A),
                         "repeated-chance-infoset" if repeated_chance(cb.tree) else "regret-envelope"))
    return hits


def nontrivial(cb, impl):
    multi, _ = infosets_of(cb.tree)
    return len(multi[1]) + len(multi[2]) >= 3


def classify(cb, impl):
    m = cb.meta
    return ["method_" + m["method"], "preset_" + m["preset"], "threads_%d" % m["threads"]]


def run(out, rng, tier, args):
    import importlib
    check = importlib.import_module("__main__")
    n = args.n or (N_THOROUGH if tier == "thorough" else N_QUICK)
    cases = corpus() + generate(rng, tier, n)
    # keep the implementation results for the collection-level statistic
    from .. import harness as H
    keep = {}
    orig = H.run_cases

    def spy(name, cs, **kw):
        r = orig(name, cs, **kw)
        if name == out.pid:
            keep.update(r)
        return r
    H.run_cases = spy
    try:
        check.process(sys.modules[__name__], out, cases, tier)
    finally:
        H.run_cases = orig
    rel = {T: [] for T in TS}
    for cb in cases:
        r = keep.get(cb.cid, {})
        if "ops" not in r or cb.meta.get("probe") or repeated_chance(cb.tree):
            continue
        if cb.meta.get("live"):
            out.count("live_production_sampler_games")
        D, _, _ = game_constants(cb.tree)
        if D <= 0:
            continue
        for T, k in cb.meta["stat_runs"]:
            info = r["ops"][k + 1]
            if "ok" in info and T in rel:
                rel[T].append(b2f(info["ok"][3]) / D)
    if all(len(rel[T]) >= 8 for T in TS):
        med = {T: statistics.median(rel[T]) for T in TS}
        out.extra["median_regret_over_D"] = med
        if not (med[4000] < 0.01):
            out.monitor_hits.append((-1, "median regret/D over %d games after 4000 iterations is %r, not below one percent"
                                     % (len(rel[4000]), med[4000]), {"medians": med}, "median"))
        if not (med[4000] < med[100] / 4):
            out.monitor_hits.append((-1, "median regret/D after 4000 iterations (%r) is not far below its value after 100 (%r)"
                                     % (med[4000], med[100]), {"medians": med}, "median-ratio"))
