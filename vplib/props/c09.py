"""C09 - early termination stops exactly at the first iteration below the threshold."""
import math

from ..common import b2f, f2b, next_up, next_down
from ..gen import gen_tree, infosets_of
from ..ops import CaseBuilder
from ..solvers import rand_params, draws_for
from .. import harness

SCOPE = {"solve", "named"}
REL = 1e-8
N_QUICK = 40
N_THOROUGH = 400
RULE = ("two phases per (tree, method, params, threads, pinned draws): phase 1 runs the implementation with budgets 1..N "
        "(N <= 12 quick, <= 40 thorough) and no threshold to obtain the bound trajectory b_1..b_N; phase 2 runs solve(N, r) for r "
        "placed exactly at, one float above and one float below every b_t, plus {0, -1, NaN, +inf, 2*max b} and compares with "
        "solve(t*, 0) of the same implementation (== on strategies with one thread; tolerance with several threads, where "
        "thresholds are kept 1e-6 relative away from every b_t) and with the model (thresholds away from every b_t only, "
        "because the model's transcendental functions may differ in the last place); non-trivial = a threshold that stops "
        "strictly inside 1..N-1; distinct by (tree, config, threshold) hash")


def run(out, rng, tier, args):
    import importlib
    check = importlib.import_module("__main__")
    nconf = args.n or (N_THOROUGH if tier == "thorough" else N_QUICK)
    N = 40 if tier == "thorough" else 12
    confs = []
    p1 = []
    for cid in range(nconf):
        t, st = gen_tree(rng, max_nodes=rng.choice([8, 20, 40]), max_depth=rng.choice([3, 5]))
        method = rng.choice(["full", "sampled", "external"])
        params = rand_params(rng)
        threads = rng.choice([1, 1, 1, 3])
        draws = draws_for(rng, t, st, n=101)
        n = rng.randint(3, N)
        cb = CaseBuilder(cid, t, {"stats": st})
        for T in range(1, n + 1):
            cb.solve(method, T, 0.0, threads, params, draws)
        confs.append((t, st, method, params, threads, draws, n))
        p1.append(cb)
    impl1 = harness.run_cases("C09p1", [cb.case() for cb in p1], chunk=max(1, nconf // 16 + 1), jobs=8)
    cases = []
    cid = 0
    for cb1, (t, st, method, params, threads, draws, n) in zip(p1, confs):
        r1 = impl1.get(cb1.cid, {})
        if "ops" not in r1 or any("ok" not in o for o in r1["ops"]):
            continue
        traj = [b2f(o["ok"][2]) for o in r1["ops"]]
        if any(not math.isfinite(b) for b in traj):
            continue
        cand = [0.0, -1.0, float("nan"), float("inf"), 2 * max(traj) + 1.0]
        for b in traj:
            cand += [b, next_up(b), next_down(b), b * (1 + 1e-4), b * (1 - 1e-4)]
        rng.shuffle(cand)
        cand = cand[:(len(cand) if tier == "thorough" else 10)]
        for near_flag in (True, False):
            ths = []
            for r in cand:
                near = any(abs(r - b) <= 1e-6 * max(abs(b), 1e-300) for b in traj) if r == r and math.isfinite(r) else False
                if near == near_flag and not (near and threads != 1):
                    ths.append(r)
            if not ths:
                continue
            cb = CaseBuilder(cid, t, {"stats": st, "traj": traj, "N": n, "threads": threads, "ths": ths,
                                      "scope": set() if near_flag else SCOPE, "near": near_flag,
                                      "config": [method, str(params), threads]})
            pairs = []
            for r in ths:
                tstar = next((i + 1 for i, b in enumerate(traj) if b < r), n)
                a = cb.solve(method, n, r, threads, params, draws)
                cb.named(a)
                b_ = cb.solve(method, tstar, 0.0, threads, params, draws)
                cb.named(b_)
                cb.eq(a, b_)
                pairs.append((r, tstar, len(cb.ops) - 5, n))
                if tstar < n and r == r and rng.random() < 0.35:
                    # "no limit": the documented way to run until the threshold is reached (u64::MAX)
                    big = 2 ** 64 - 1 - rng.choice([0, 0, 1])
                    a2 = cb.solve(method, big, r, threads, params, draws)
                    cb.named(a2)
                    b2 = cb.solve(method, tstar, 0.0, threads, params, draws)
                    cb.named(b2)
                    cb.eq(a2, b2)
                    pairs.append((r, tstar, len(cb.ops) - 5, big))
            if not near_flag:
                # budget zero: no iteration may run whatever the threshold and the thread count
                for r in (rng.choice([0.0, 0.5, float("nan"), 1e9]), float("inf")):
                    a = cb.solve(method, 0, r, threads, params, draws)
                    cb.named(a)
                    b_ = cb.solve(method, 0, 0.0, 1, params, draws)
                    cb.named(b_)
                    cb.eq(a, b_)
                    pairs.append((r, 0, len(cb.ops) - 5, 0))
            cb.meta["pairs"] = pairs
            cases.append(cb)
            cid += 1
    check.process(mod_self(), out, cases, tier)


def mod_self():
    import sys
    return sys.modules[__name__]


def monitor(cb, impl):
    hits = []
    if "ops" not in impl:
        return hits
    ops = impl["ops"]
    for r, tstar, k, n in cb.meta["pairs"]:
        a, na, b_, nb, eq = ops[k:k + 5]
        if any("panic" in o for o in (a, na, b_, nb)):
            hits.append(("panic: %r" % [o for o in (a, na, b_, nb) if "panic" in o][:1], "panic"))
            continue
        if "ok" not in a or "ok" not in b_:
            continue
        ba = [b2f(x) for x in a["ok"]]
        bb = [b2f(x) for x in b_["ok"]]
        exact = cb.meta["threads"] == 1
        same_b = ba == bb if exact else all(x == y or abs(x - y) <= 1e-9 * max(1.0, abs(x)) for x, y in zip(ba, bb))
        same_s = (eq.get("ok") is True) if exact else _named_close(na, nb)
        if not (same_b and same_s):
            hits.append(("solve(N=%d, r=%r) differs from solve(t*=%d, 0): bounds %r vs %r, strategies equal: %s "
                         "(bound trajectory %r)" % (n, r, tstar, ba, bb, same_s, cb.meta["traj"]), "not-first-below"))
        if n == 0 and not all(math.isinf(x) and x > 0 for x in ba):
            hits.append(("budget 0 (threshold %r, %d threads): bounds %r are not infinite - an iteration ran" % (r, cb.meta["threads"], ba),
                         "budget-exceeded"))
        if tstar < n and not (ba[2] < r):
            hits.append(("stopped early (t*=%d < N=%d) with bound %r not below the threshold %r" % (tstar, n, ba[2], r),
                         "bound-not-below"))
    return hits


def _named_close(na, nb):
    if "ok" not in na or "ok" not in nb:
        return False
    for pl in (0, 1):
        x = {it[1]: {a: b2f(p) for a, p in it[3]} for it in na["ok"][pl]["items"]}
        y = {it[1]: {a: b2f(p) for a, p in it[3]} for it in nb["ok"][pl]["items"]}
        if set(x) != set(y):
            return False
        for i in x:
            if set(x[i]) != set(y[i]) or any(abs(x[i][a] - y[i][a]) > 1e-9 for a in x[i]):
                return False
    return True


def nontrivial(cb, impl):
    return any(1 < ts < cb.meta["N"] for _, ts, _, _ in cb.meta["pairs"])


def classify(cb, impl):
    out = ["near_threshold_cases" if cb.meta["near"] else "far_threshold_cases", "method_" + cb.meta["config"][0],
           "threads_%d" % cb.meta["threads"]]
    for r, ts, _, nb in cb.meta["pairs"]:
        out.append("stop_at_1" if ts == 1 else "stop_never" if ts == cb.meta["N"] else "stop_inside")
        if nb > 2 ** 63:
            out.append("unbounded_budget_runs")
    return out
