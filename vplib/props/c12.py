"""C12 - results do not depend on how the game is presented."""
import copy
import math
import sys

from ..common import b2f, f2b, close
from ..gen import gen_tree, infosets_of, tree_stats
from ..ops import CaseBuilder
from ..solvers import PRESETS

SCOPE = {"from_root", "num_infosets", "solve", "named", "info"}
REL = 1e-7
N_QUICK = 120
N_THOROUGH = 3000
HARNESS_JOBS = 8
RULE = ("random perfect-recall trees (shared player and chance infosets, single-action / single-outcome nodes) x one transformation "
        "of the presentation: rescale (chance weights of a random subset of chance nodes multiplied by powers of two, exact in "
        "binary64), rename (injective relabelling of infosets per player, actions and chance infosets), insert (single-outcome "
        "chance nodes and fresh single-action decision nodes at random positions) / remove (delete every transparent node), scale "
        "(payoffs x 2^k, exact, k from -200 to 150), scale3 (payoffs x 3, inexact: T <= 10), shift (payoffs + constant, inexact: T <= 10), swap "
        "(players exchanged, payoffs negated); each pair (original, transformed) is run through from_root, get_info of a fixed "
        "profile and solve(Full) with a preset (fallback weight 0 or +-inf, as the scaling theorem requires), and the property's "
        "relation between the two results is checked on the implementation's outputs (monitor); each side is also compared with "
        "the Coq model; non-trivial = both players have a multi-action infoset and T >= 2; distinct by (tree, transformation)")
ASSUMPTIONS = ["exact-in-binary64 variants are on the pass/fail path at 1e-9; the inexact variants (x3, + constant) are compared at "
               "T <= 10 with tolerance 1e-6 because CFR amplifies rounding over long runs and no property bounds that amplification",
               "scaling is explored only for parameter sets whose fallback weight is 0 or +-inf (all presets): for a finite non-zero "
               "weight the documented softmax is not scale invariant (theorem C12_scale_softmax_counterexample)"]
KINDS = ["rescale", "rescale", "rename", "insert", "remove", "scale", "scale3", "shift", "swap"]


def map_tree(t, fterm=None, fchance=None, fplayer=None):
    if "t" in t:
        return fterm(t) if fterm else t
    if "o" in t:
        n = {"c": t.get("c"), "o": [[w, map_tree(c, fterm, fchance, fplayer)] for w, c in t["o"]]}
        return fchance(n) if fchance else n
    n = {"p": t["p"], "i": t["i"], "a": [[a, map_tree(c, fterm, fchance, fplayer)] for a, c in t["a"]]}
    return fplayer(n) if fplayer else n


def transform(rng, t, kind):
    """returns (t', info) where info describes how results must relate"""
    if kind == "rescale":
        flag = {}

        def fc(n):
            r = rng.random()
            if r < 0.4:
                k = 2.0 ** rng.randint(-6, 6)
                n["o"] = [[f2b(b2f(w) * k), c] for w, c in n["o"]]
            elif r < 0.95 and n.get("c") is None:
                # far out in the binary64 range (still positive and finite): subnormal weights, and weights whose
                # sum overflows; only on unshared nodes, because precision is lost down there and a shared
                # infoset would then legitimately be rejected as unequal
                k = 2.0 ** rng.choice([-1040, -1035, -1030, -1027, -1030, -1035, -1000, 900, 1010, 1015])
                ws = [b2f(w) * k for w, _ in n["o"]]
                if rng.random() < 0.35:
                    # the largest weight just below f64::MAX, in [2^1023, 2^1024) (ldexp: the factor itself may exceed the range)
                    sh = 1024 - math.frexp(max(b2f(w) for w, _ in n["o"]))[1]
                    ws = [math.ldexp(b2f(w), sh) for w, _ in n["o"]]
                if all(w > 0.0 and math.isfinite(w) for w in ws):
                    n["o"] = [[f2b(w), c] for w, (_, c) in zip(ws, n["o"])]
                    flag["extreme"] = True
            return n
        t2 = map_tree(t, fchance=fc)
        return t2, dict(flag)
    if kind == "rename":
        perm = {}

        def m(space, x):
            key = (space, x)
            if key not in perm:
                perm[key] = 5000 + 7 * len(perm) + (3 if space == "a" else 0)
            return perm[key]

        def fc(n):
            if n.get("c") is not None:
                n["c"] = m("c", n["c"])
            return n

        def fp(n):
            n["i"] = m("i%d" % n["p"], n["i"])
            n["a"] = [[m("a", a), c] for a, c in n["a"]]
            return n
        t2 = map_tree(t, fchance=fc, fplayer=fp)
        return t2, {"map": {"%s:%s" % k: v for k, v in perm.items()}}
    if kind == "insert":
        fresh = [100000]

        def wrap(n):
            r = rng.random()
            if r < 0.15:
                return {"c": rng.choice([None, 77777]), "o": [[f2b(rng.choice([1.0, 0.25, 3.7])), n]]}
            if r < 0.3:
                fresh[0] += 1
                return {"p": rng.choice([1, 2]), "i": fresh[0], "a": [[fresh[0] + 50000, n]]}
            return n
        return wrap(map_tree(t, fterm=wrap, fchance=wrap, fplayer=wrap)), {}
    if kind == "remove":
        def fc(n):
            return n["o"][0][1] if len(n["o"]) == 1 else n

        def fp(n):
            return n["a"][0][1] if len(n["a"]) == 1 else n
        return map_tree(t, fchance=fc, fplayer=fp), {}
    if kind in ("scale", "scale3"):
        c = 2.0 ** rng.randint(-4, 5) if kind == "scale" else 3.0
        if kind == "scale" and rng.random() < 0.4:
            # far-out units (still exact): absolute tolerances hidden in the solver are not scale invariant
            c = 2.0 ** rng.choice([-70, -70, -200, -40, 150])
        return map_tree(t, fterm=lambda n: {"t": f2b(b2f(n["t"]) * c)}), {"c": c}
    if kind == "shift":
        k = rng.choice([0.1, -2.5, 7.0, 1e-3])
        return map_tree(t, fterm=lambda n: {"t": f2b(b2f(n["t"]) + k)}), {"k": k}
    if kind == "swap":
        def fp(n):
            n["p"] = 3 - n["p"]
            return n
        return map_tree(t, fterm=lambda n: {"t": f2b(-b2f(n["t"]))}, fplayer=fp), {}
    raise ValueError(kind)


def fixed_named(rng, t):
    """a named profile (dirichlet rows) for tree t, as {pl: {info: {a: w}}}"""
    multi, singles = infosets_of(t)
    prof = {1: {}, 2: {}}
    for pl in (1, 2):
        for info, acts in multi[pl]:
            w = [rng.expovariate(1.0) + 1e-3 for _ in acts]
            z = rng.random()
            if z < 0.2:
                # a pure row, or a row with zero entries: whole subtrees (and the infosets in them) become unreachable
                k = rng.randrange(len(acts))
                w = [1.0 if j == k else 0.0 for j in range(len(acts))]
            elif z < 0.35 and len(acts) >= 2:
                w[rng.randrange(len(acts))] = 0.0
            s = sum(w)
            prof[pl][info] = {a: x / s for a, x in zip(acts, w)}
        for info, act in singles[pl].items():
            prof[pl][info] = {act: 1.0}
    return prof


def named_for(t, prof):
    """render prof for tree t (only infosets present in t; single-action infosets with weight 1)"""
    multi, singles = infosets_of(t)
    out = []
    for pl in (1, 2):
        ents = []
        for info, acts in multi[pl]:
            ents.append([info, [[a, f2b(prof[pl][info][a])] for a in acts]])
        for info, act in singles[pl].items():
            ents.append([info, [[act, f2b(1.0)]]])
        out.append(ents)
    return out


def transport_profile(prof, kind, tinfo):
    if kind == "rename":
        m = tinfo["map"]
        return {pl: {m["i%d:%s" % (pl, i)]: {m["a:%s" % a]: p for a, p in row.items()} for i, row in prof[pl].items()} for pl in (1, 2)}
    if kind == "swap":
        return {1: prof[2], 2: prof[1]}
    return prof


def build(cid, t, st, prof, preset, T, meta):
    cb = CaseBuilder(cid, t, dict(meta, stats=st))
    cb.num_infosets()
    s = cb.import_(named_for(t, prof), fast=True)
    cb.info(s)
    k = cb.solve("full", T, meta.get("r", 0.0), 1, preset)
    cb.named(k)
    cb.info(k)
    return cb


def generate(rng, tier, n):
    cases = []
    pair = 0
    while len(cases) < 2 * n:
        t, st = gen_tree(rng, max_nodes=rng.choice([8, 20, 40]), max_depth=rng.choice([3, 5, 6]), label_space=rng.choice([40, 1000]),
                         p_share=rng.choice([0.5, 0.8]), single_rate=rng.choice([0.1, 0.25]))
        kind = rng.choice(KINDS)
        big = None
        if kind == "rescale" and rng.random() < 0.4:
            # an unshared chance node with three or more outcomes of comparable weight: in the transformed presentation
            # the same weights times 2^1024, i.e. each in [0.75, 1) * 2^1024 (finite), their sum above 2 * f64::MAX
            paths = []

            def find(n, path):
                if "o" in n:
                    if n.get("c") is None and len(n["o"]) >= 3:
                        paths.append(path)
                    for k_, (_, c) in enumerate(n["o"]):
                        find(c, path + (k_,))
                elif "a" in n:
                    for k_, (_, c) in enumerate(n["a"]):
                        find(c, path + (k_,))
            find(t, ())
            if paths:
                big = rng.choice(paths)
                node = t
                for k_ in big:
                    node = (node["o"] if "o" in node else node["a"])[k_][1]
                us = [0.75 + 0.25 * rng.random() * (1 - 2.0 ** -20) for _ in node["o"]]
                node["o"] = [[f2b(u), c] for u, (_, c) in zip(us, node["o"])]
        t2, tinfo = transform(rng, t, kind)
        if big is not None:
            node = t2
            for k_ in big:
                node = (node["o"] if "o" in node else node["a"])[k_][1]
            node["o"] = [[f2b(math.ldexp(u, 1024)), c] for u, (_, c) in zip(us, node["o"])]
            tinfo["extreme"] = True
        inexact = kind in ("scale3", "shift")
        T = rng.choice([1, 2, 5, 10] if inexact else [1, 2, 5, 10, 30])
        preset = rng.choice(PRESETS)
        prof = fixed_named(rng, t)
        prof2 = transport_profile(prof, kind, tinfo)
        # inserted single-action infosets need an entry too
        _, singles2 = infosets_of(t2)
        for pl in (1, 2):
            for info, act in singles2[pl].items():
                prof2[pl].setdefault(info, {act: 1.0})
        meta = {"pair": pair, "kind": kind, "tinfo": tinfo, "T": T, "preset": preset}
        # a positive early-termination threshold (the same on both presentations; multiplied by c when the payoffs are):
        # which player's bound ends the run must not depend on the presentation
        r = rng.choice([0.0, 0.0, 0.3, 1.0, 3.0]) if kind in ("swap", "rename", "insert", "remove", "scale") and not tinfo.get("extreme") else 0.0
        r2 = r * tinfo.get("c", 1.0) if kind == "scale" else r
        cases.append(build(2 * pair, t, st, prof, preset, T, dict(meta, side="orig", r=r)))
        cases.append(build(2 * pair + 1, t2, tree_stats(t2), prof2, preset, T, dict(meta, side="trans", r=r2)))
        pair += 1
    return cases


def _named_view(o):
    return [{it[1]: {a: b2f(p) for a, p in it[3]} for it in pl["items"]} for pl in o["ok"]]


def relate(a, b, meta):
    """the property's relation between the implementation's results on the original (a) and the transformed (b) tree"""
    kind, tinfo = meta["kind"], meta["tinfo"]
    hits = []
    if ("ok" in a["from_root"]) != ("ok" in b["from_root"]):
        return [("%s: from_root gives %r on the original and %r on the transformed presentation" % (kind, a["from_root"], b["from_root"]),
                 "acceptance")]
    if "ok" not in a["from_root"]:
        return hits
    oa, ob = a["ops"], b["ops"]
    if any("panic" in o for o in oa + ob if isinstance(o, dict)):
        return [("%s: panic: %r" % (kind, [o for o in oa + ob if isinstance(o, dict) and "panic" in o][:1]), "panic")]
    need = [oa[2], oa[3], oa[4], oa[5], ob[2], ob[3], ob[4], ob[5]]
    if any(not (isinstance(o, dict) and "ok" in o) for o in need):
        return [("%s: an operation failed on one side: %r" % (kind, [o for o in need if not (isinstance(o, dict) and "ok" in o)][:2]), "failure")]
    loose = kind in ("scale3", "shift") or bool(tinfo.get("extreme"))
    tol = 1e-6 if loose else 1e-9
    c = tinfo.get("c", 1.0)
    k = tinfo.get("k", 0.0)

    def infos(o):
        return [b2f(x) for x in o["ok"]]

    def expect_info(i):
        util, r1, r2, reg, u2 = i
        if kind in ("scale", "scale3"):
            return [c * util, c * r1, c * r2, c * reg, c * u2]
        if kind == "shift":
            return [util + k, r1, r2, reg, u2 - k]
        if kind == "swap":
            return [u2, r2, r1, reg, util]
        return i
    for nm, x, y in (("get_info of a fixed profile", oa[2], ob[2]), ("get_info of the solution", oa[5], ob[5])):
        want, got = expect_info(infos(x)), infos(y)
        scale_ = max(1.0, max(abs(v) for v in want))
        if any(abs(w - g) > tol * scale_ for w, g in zip(want, got)):
            hits.append(("%s: %s is %r on the transformed presentation, expected %r (original %r)" % (kind, nm, got, want, infos(x)), "info"))
    if oa[0] != ob[0]:
        hits.append(("%s: num_infosets %r vs %r" % (kind, oa[0], ob[0]), "infosets"))
    # bounds
    ba, bb = infos(oa[3]), infos(ob[3])
    wb = [c * ba[0], c * ba[1], c * ba[2]] if kind in ("scale", "scale3") else ([ba[1], ba[0], ba[2]] if kind == "swap" else ba)
    sc = max(1.0, max(abs(v) for v in wb if math.isfinite(v)) if any(math.isfinite(v) for v in wb) else 1.0)
    if any((math.isinf(w) or math.isinf(g)) and w != g or (math.isfinite(w) and math.isfinite(g) and abs(w - g) > tol * sc) for w, g in zip(wb, bb)):
        hits.append(("%s: bounds %r on the transformed presentation, expected %r" % (kind, bb, wb), "bounds"))
    # strategies
    va, vb = _named_view(oa[4]), _named_view(ob[4])
    if kind == "swap":
        va = [va[1], va[0]]
    if kind == "rename":
        m = tinfo["map"]
        va = [{m["i%d:%s" % (pl + 1, i)]: {m["a:%s" % a]: p for a, p in row.items()} for i, row in va[pl].items()} for pl in (0, 1)]
    for pl in (0, 1):
        for i, row in va[pl].items():
            if len(row) == 1 and abs(list(row.values())[0] - 1.0) < 1e-12 and i not in vb[pl]:
                continue    # a single-action infoset removed by the transformation
            other = vb[pl].get(i)
            if other is None:
                hits.append(("%s: infoset %s of player %d is missing from the transformed solution" % (kind, i, pl + 1), "strategy"))
                continue
            for a_ in set(row) | set(other):
                if abs(row.get(a_, 0.0) - other.get(a_, 0.0)) > (1e-5 if loose else 1e-8):
                    hits.append(("%s (T=%d, %s): strategy of player %d at infoset %s action %s is %r, original %r"
                                 % (kind, meta["T"], meta["preset"], pl + 1, i, a_, other.get(a_, 0.0), row.get(a_, 0.0)), "strategy"))
                    break
    return hits[:3]


def nontrivial(cb, impl):
    multi, _ = infosets_of(cb.tree)
    return bool(multi[1]) and bool(multi[2]) and cb.meta["T"] >= 2 and cb.meta["side"] == "trans"


def classify(cb, impl):
    if cb.meta["side"] != "trans":
        return []
    return ["kind_" + cb.meta["kind"]] + (["rescale_far_out_in_binary64_range"] if cb.meta["tinfo"].get("extreme") else [])


def run(out, rng, tier, args):
    import importlib
    check = importlib.import_module("__main__")
    n = args.n or (N_THOROUGH if tier == "thorough" else N_QUICK)
    cases = generate(rng, tier, n)
    from .. import harness as H
    keep = {}
    orig = H.run_cases

    def spy(name, cs, **kw):
        r = orig(name, cs, **kw)
        if name == out.pid:
            keep.update(r)
        return r
    H.run_cases = spy
    try:
        check.process(sys.modules[__name__], out, cases, tier)
    finally:
        H.run_cases = orig
    by = {cb.cid: cb for cb in cases}
    for cid, cb in by.items():
        if cid % 2:
            continue
        a, b = keep.get(cid), keep.get(cid + 1)
        if not a or not b or "from_root" not in a or "from_root" not in b:
            continue
        for text, kclass in relate(a, b, cb.meta):
            out.monitor_hits.append((cid, text, {"original": cb.case(), "transformed": by[cid + 1].case(), "impl_original": a,
                                                 "impl_transformed": b, "meta": cb.meta}, kclass))
