"""C13 - the named view of a strategy is complete, consistent and round-trips."""
import math

from ..common import b2f, f2b, close
from ..gen import gen_tree, random_named, infosets_of
from ..ops import CaseBuilder

SCOPE = {"named", "roundtrip", "eq"}
N_QUICK = 200
N_THOROUGH = 5000
RULE = ("40 % of the cases continue with view / truncate the same object (in place or a clone) / view again; every view is also driven through nth, skip, step_by, last and count and compared with plain iteration; random perfect-recall trees x profiles from every source (imported with zeros / pure / dirichlet, truncated, solver "
        "output of Full/Sampled/External under pinned draws) -> as_named with len() queried before every next() on both "
        "iterator levels, then from_named / from_named_eq of the view compared with the original; non-trivial = at least one "
        "zero-probability action is omitted or a single-action infoset is present; distinct by (tree, profile source) hash")


def draws_for(rng, t, st, n=40):
    multi, _ = infosets_of(t)
    return {"chance": [[rng.randrange(1000) for _ in range(n)] for _ in range(st["chance"] + 1)],
            "player": [[rng.randrange(1000) for _ in range(n)] for _ in range(len(multi[1]) + len(multi[2]) + 1)]}


def generate(rng, tier, n):
    cases = []
    cid = 0
    while len(cases) < n:
        t, st = gen_tree(rng, max_nodes=rng.choice([8, 20, 45]), max_depth=rng.choice([3, 5, 6]),
                         single_rate=rng.choice([0.1, 0.3]))
        if cid == 2:
            # two infosets of one player offering the same actions in a different order
            from ..gen import tree_stats
            pl_ = rng.choice([1, 2])
            L = lambda: {"t": f2b(rng.uniform(-3, 3))}
            t = {"c": None, "o": [[f2b(1.0), {"p": pl_, "i": 1, "a": [[1, L()], [2, L()], [3, L()]]}],
                                  [f2b(2.0), {"p": pl_, "i": 2, "a": [[3, L()], [1, L()], [2, L()]]}],
                                  [f2b(1.0), {"p": 3 - pl_, "i": 3, "a": [[2, L()], [1, L()]]}],
                                  [f2b(1.0), {"p": 3 - pl_, "i": 4, "a": [[1, L()], [2, L()]]}]]}
            st = tree_stats(t)
        if cid == 1:
            from ..solvers import needle_tree
            t, st = needle_tree(rng, rng.choice([65, 70, 130]), pl=rng.choice([1, 2]))     # wider than a machine word
        cb = CaseBuilder(cid, t, {"stats": st})
        src_kind = rng.choice(["import", "import", "truncate", "solve", "solve"])
        if src_kind == "solve":
            m = rng.choice(["full", "sampled", "external"])
            s = cb.solve(m, rng.choice([0, 1, 3, 10]), 0.0, 1, rng.choice([None, "vanilla", "cfr_plus", "lcfr"]),
                         draws_for(rng, t, st))
        else:
            nm = random_named(rng, t, rng.choice(["zeros", "pure", "dirichlet", "tiny"]))
            if rng.random() < 0.15:
                # one infoset whose weights are all far down the binary64 range (subnormal total), or all near its top
                ents = [e for pl_ in nm for e in pl_ if len(e[1]) >= 2]
                if ents:
                    e = rng.choice(ents)
                    k = rng.choice([2.0 ** -1060, 1e-310, 2.0 ** -1030, 2.0 ** 1020])
                    for ap in e[1]:
                        w = b2f(ap[1])
                        if 0.0 < w <= 1.0:
                            ap[1] = f2b(w * k)
            if rng.random() < 0.25:
                # weights given more than once (an action repeated in one list, or the infoset listed twice): the later
                # entry overrides the earlier one, the row is normalised by the total of the weights that count
                ents = [e for pl_ in nm for e in pl_ if len(e[1]) >= 2]
                if ents:
                    e = rng.choice(ents)
                    if rng.random() < 0.5:
                        a, w = rng.choice(e[1])
                        e[1].append([a, f2b(rng.choice([0.0, 0.5, 2.0, b2f(w) * 3 + 0.25]))])
                    else:
                        for pl_ in nm:
                            if e in pl_:
                                pl_.append([e[0], [[a, f2b(rng.choice([0.0, 1.0, 0.25, rng.random()]))] for a, _ in e[1]]])
            s = cb.import_(nm, fast=rng.random() < 0.5)
            if src_kind == "truncate":
                s = cb.truncate(s, rng.choice([0.0, 0.1, 0.3, 0.5]))
        cb.meta["src"] = s
        cb.meta["named_op"] = cb.named(s)
        r1 = cb.roundtrip(s, fast=True)
        cb.meta["rt_fast"] = len(cb.ops) - 1
        cb.named(r1)
        r2 = cb.roundtrip(s, fast=False)
        cb.meta["rt_slow"] = len(cb.ops) - 1
        cb.named(r2)
        cb.eq(r1, r2)
        if rng.random() < 0.4:
            # view, truncate the very object (or a clone taken after the view), view again: the advertised lengths must
            # describe the profile as it is now
            cb.named(s)
            d = cb.truncate(s, rng.choice([0.1037, 0.317, 0.4831, 0.11 + 0.3 * rng.random()]), inplace=rng.random() < 0.5)   # never AT a typical probability
            cb.named(d)
            if rng.random() < 0.5:
                d2 = cb.truncate(d, rng.choice([0.0531, 0.4517, rng.random()]), inplace=rng.random() < 0.5)
                cb.named(d2)
        cases.append(cb)
        cid += 1
    return cases


def corpus():
    """repaired D6/D7: one infoset with three actions, one of probability zero"""
    t = {"p": 1, "i": 7, "a": [[1, {"t": f2b(1.0)}], [2, {"t": f2b(-1.0)}], [3, {"t": f2b(0.5)}]]}
    cb = CaseBuilder(1000000, t, {})
    s = cb.import_([[[7, [[1, f2b(0.25)], [3, f2b(0.75)]]]], []], fast=True)
    cb.meta["src"] = s
    cb.meta["named_op"] = cb.named(s)
    r1 = cb.roundtrip(s, fast=True)
    cb.meta["rt_fast"] = len(cb.ops) - 1
    cb.named(r1)
    r2 = cb.roundtrip(s, fast=False)
    cb.meta["rt_slow"] = len(cb.ops) - 1
    cb.named(r2)
    cb.eq(r1, r2)
    return [cb]


def monitor(cb, impl):
    hits = []
    if "ops" not in impl:
        return hits
    ops = impl["ops"]
    # every named view taken in the case is judged (also the ones after a truncation of the same object)
    for k2, kind in enumerate(cb.kinds):
        if kind == "named" and k2 < len(ops) and k2 != cb.meta["named_op"]:
            hits += [(t + " (view taken at op %d, after %s)" % (k2, "a truncation of the viewed object" if k2 > cb.meta["rt_slow"] + 2 else "a round trip"), c)
                     for t, c in _judge_view(cb, ops[k2])]
    k = cb.meta["named_op"]
    o = ops[k]
    hits += _judge_view(cb, o)
    if "ok" not in o:
        return hits
    return hits + _judge_roundtrip(cb, ops, o)


def _judge_view(cb, o):
    hits = []
    if "panic" in o:
        return [("as_named panicked: %s" % o["panic"], "panic")]
    if "ok" not in o:
        return hits
    multi, singles = infosets_of(cb.tree)
    for pl in (0, 1):
        v = o["ok"][pl]
        if v.get("alt"):
            hits.append(("player %d: driving the named view through nth/skip/step_by/last/count disagrees with plain iteration: %s"
                         % (pl + 1, v["alt"]), "alt-iteration"))
        items = v["items"]
        names = [it[1] for it in items]
        want = [i for i, _ in multi[pl + 1]] + list(singles[pl + 1].keys())
        if sorted(names) != sorted(want):
            hits.append(("player %d: named view lists infosets %r, the game has %r" % (pl + 1, sorted(names), sorted(want)),
                         "wrong-infosets"))
            continue
        # advertised lengths
        n = len(items)
        outer = [it[0] for it in items] + [v["final_len"]]
        if outer != list(range(n, -1, -1)):
            hits.append(("player %d: infoset iterator advertised lengths %r while %d items followed" % (pl + 1, outer, n),
                         "outer-len"))
        acts_of = dict(multi[pl + 1])
        for outer_len, name, lens, pairs in items:
            m = len(pairs)
            if lens != list(range(m, -1, -1)):
                hits.append(("player %d infoset %s: action iterator advertised lengths %r while %d items followed"
                             % (pl + 1, name, lens, m), "inner-len"))
            probs = [b2f(p) for _, p in pairs]
            if name in acts_of:
                legal = acts_of[name]
                got = [a for a, _ in pairs]
                if [a for a in legal if a in got] != got or len(set(got)) != len(got):
                    hits.append(("player %d infoset %s: actions %r not a sub-sequence of %r" % (pl + 1, name, got, legal), "actions"))
                if any(not (x > 0) for x in probs) or abs(sum(probs) - 1.0) > 1e-9:
                    hits.append(("player %d infoset %s: probabilities %r are not positive summing to one" % (pl + 1, name, probs),
                                 "not-distribution"))
            else:
                if [a for a, _ in pairs] != [singles[pl + 1][name]] or probs != [1.0]:
                    hits.append(("player %d single-action infoset %s: view %r" % (pl + 1, name, pairs), "single"))
    return hits


def _judge_roundtrip(cb, ops, o):
    hits = []
    # round trip
    for key in ("rt_fast", "rt_slow"):
        r = ops[cb.meta[key]]
        if "skip" in r:
            continue
        if "ok" not in r:
            hits.append(("importing the named view back failed: %r" % r, "roundtrip-fails"))
            continue
        back = ops[cb.meta[key] + 1]
        if "ok" in back:
            for pl in (0, 1):
                a = {it[1]: {x: b2f(p) for x, p in it[3]} for it in o["ok"][pl]["items"]}
                b_ = {it[1]: {x: b2f(p) for x, p in it[3]} for it in back["ok"][pl]["items"]}
                if set(a) != set(b_) or any(set(a[i]) != set(b_[i]) for i in a) or \
                        any(not close(a[i][x], b_[i][x], 1e-14) for i in a for x in a[i]):
                    hits.append(("round trip changed the profile of player %d: %r -> %r" % (pl + 1, a, b_), "roundtrip-differs"))
    return hits


def nontrivial(cb, impl):
    try:
        o = impl["ops"][cb.meta["named_op"]]["ok"]
    except Exception:
        return False
    multi, singles = infosets_of(cb.tree)
    omitted = False
    for pl in (0, 1):
        ar = {i: len(a) for i, a in multi[pl + 1]}
        for it in o[pl]["items"]:
            if it[1] in ar and len(it[3]) < ar[it[1]]:
                omitted = True
    return omitted or bool(singles[1]) or bool(singles[2])
