"""C19 - strategy distance is a well-defined, bounded, symmetric dissimilarity."""
import math

from ..common import b2f, f2b
from ..gen import gen_tree, random_named, infosets_of
from ..ops import CaseBuilder

SCOPE = {"distance", "distance_other"}
N_QUICK = 250
N_THOROUGH = 5000
RULE = ("random perfect-recall trees (incl. trees where a player has no multi-action infoset) x pairs of imported profiles "
        "(identical / different pure / random / with zeros) x p in {1e-3, 0.5, 1, 2, 10, 50, inf, 0, -1, NaN, subnormal and smallest-normal positive, 1e-300, 1e300, f64::MAX, -5e-324, -0.0} plus a profile of a "
        "second Game built from the same tree (must panic); non-trivial = the two profiles differ in some infoset and p > 0; "
        "distinct by (tree, profiles, p) hash")
ASSUMPTIONS = ["for large p a positive |d|^p underflows to 0 in binary64, so 'positive when they differ' is monitored only while "
               "min|d|^p >= 1e-300 (binary64-range class, DESIGN 9)",
               "the different-games panic is observed on the implementation only (the model's distance takes one game by construction)"]
PS = [1e-3, 0.5, 1.0, 2.0, 10.0, 50.0, float("inf"), 0.0, -1.0, float("nan"),
      5e-324, 1e-310, 2.2250738585072014e-308, 1e-300, 1e300, 1.7976931348623157e308, -5e-324, -0.0, 1.0, 1.0, 2.0, 0.5]


def build(cid, t, st, na, nb, p, other=False):
    cb = CaseBuilder(cid, t, {"stats": st, "p": p, "other": other})
    a = cb.import_(na, fast=True)
    b = cb.import_(nb, fast=True)
    cb.named(a)
    cb.named(b)
    cb.distance(a, b, p)
    cb.distance(b, a, p)
    cb.distance(a, a, p)
    if other:
        cb.raw("import_other", {"op": "import_other", "fast": True, "strat": nb}, [], "o_ok []")
        cb.raw("distance_other", {"op": "distance", "a": a, "b": None, "p": f2b(p)}, [], "o_panic", (a,))
    return cb


def generate(rng, tier, n):
    cases = []
    cid = 0
    while len(cases) < n:
        small = rng.random() < 0.25
        t, st = gen_tree(rng, max_nodes=rng.choice([4, 6]) if small else rng.choice([10, 25, 40]),
                         max_depth=2 if small else rng.choice([3, 5]), single_rate=0.3 if small else 0.12)
        if cid == 2:
            from ..solvers import needle_tree
            t, st = needle_tree(rng, rng.choice([65, 70, 130]), pl=rng.choice([1, 2]))     # wider than a machine word
        style_a = rng.choice([None, "pure", "dirichlet", "zeros"])
        na = random_named(rng, t, style_a)
        c = rng.random()
        if c < 0.2:
            nb = na
        else:
            nb = random_named(rng, t, "pure" if style_a == "pure" and rng.random() < 0.7 else None)
        for p in (PS if tier == "thorough" else rng.sample(PS, 5)):
            cases.append(build(cid, t, st, na, nb, p, other=(rng.random() < 0.15)))
            cid += 1
            if len(cases) >= n:
                break
    return cases


def corpus():
    """repaired D9: disjoint pure profiles (2.0 before), player without infosets (NaN before)"""
    t = {"p": 1, "i": 7, "a": [[1, {"t": f2b(1.0)}], [2, {"t": f2b(-1.0)}]]}
    na = [[[7, [[1, f2b(1.0)]]]], []]
    nb = [[[7, [[2, f2b(1.0)]]]], []]
    out = [build(1000000 + k, t, None, na, nb, p) for k, p in enumerate([1.0, 2.0, 0.5])]
    # dedicated probe of the known finding: range for p < 1 with three actions
    t3 = {"p": 1, "i": 7, "a": [[1, {"t": f2b(1.0)}], [2, {"t": f2b(-1.0)}], [3, {"t": f2b(0.0)}]]}
    na3 = [[[7, [[1, f2b(1.0)]]]], []]
    nb3 = [[[7, [[2, f2b(0.5)], [3, f2b(0.5)]]]], []]
    out.append(build(1000010, t3, None, na3, nb3, 0.5))
    return out


def _rows(named_items):
    return {name: {a: b2f(p) for a, p in pairs} for outer, name, lens, pairs in named_items}


def monitor(cb, impl):
    hits = []
    if "ops" not in impl:
        return hits
    ops = impl["ops"]
    if "ok" not in ops[0] or "ok" not in ops[1]:
        return hits
    p = cb.meta["p"]
    multi, _ = infosets_of(cb.tree)
    should_panic = not (p > 0)
    dab, dba, daa = ops[4], ops[5], ops[6]
    for name, o in (("d(a,b)", dab), ("d(b,a)", dba), ("d(a,a)", daa)):
        if should_panic and "panic" not in o:
            hits.append(("%s with p=%r did not panic: %r" % (name, p, o), "no-panic"))
        if not should_panic and "ok" not in o:
            hits.append(("%s with p=%r failed: %r" % (name, p, o), "panic"))
    if cb.meta.get("other") and len(ops) > 8:
        if "ok" in ops[7] and "panic" not in ops[8]:
            hits.append(("distance between profiles of two different Game values did not panic: %r" % ops[8], "no-panic-games"))
    if should_panic or any("ok" not in o for o in (dab, dba, daa)):
        return hits
    ab = [b2f(x) for x in dab["ok"]]
    ba = [b2f(x) for x in dba["ok"]]
    aa = [b2f(x) for x in daa["ok"]]
    for pl in (0, 1):
        ra = _rows(ops[2]["ok"][pl]["items"])
        rb = _rows(ops[3]["ok"][pl]["items"])
        deltas = []
        for info, acts in multi[pl + 1]:
            for a in acts:
                deltas.append(abs(ra.get(info, {}).get(a, 0.0) - rb.get(info, {}).get(a, 0.0)))
        d = ab[pl]
        if math.isnan(d):
            hits.append(("player %d distance is NaN (p=%r)" % (pl + 1, p), "nan"))
            continue
        if d < 0 or d > 1 + 1e-12:
            hits.append(("player %d distance %r outside [0,1] (p=%r)" % (pl + 1, d, p),
                         "range-small-p" if p < 1 else "range"))
        if ab[pl] != ba[pl]:
            hits.append(("not symmetric: %r vs %r (p=%r)" % (ab[pl], ba[pl], p), "asymmetric"))
        if aa[pl] != 0.0:
            hits.append(("distance of a profile to itself is %r" % aa[pl], "nonzero-self"))
        differs = any(x > 0 for x in deltas)
        if not differs and d != 0.0:
            hits.append(("identical strategies of player %d have distance %r" % (pl + 1, d), "nonzero-equal"))
        if differs and d <= 0.0:
            try:
                big_enough = max(x for x in deltas) ** p >= 1e-300 if math.isfinite(p) else max(deltas) >= 1.0
            except OverflowError:
                big_enough = True
            if big_enough:
                hits.append(("strategies of player %d differ (max delta %r) but distance is %r (p=%r)"
                             % (pl + 1, max(deltas), d, p), "zero-different"))
    return hits


def nontrivial(cb, impl):
    try:
        return cb.meta["p"] > 0 and impl["ops"][2]["ok"] != impl["ops"][3]["ok"]
    except Exception:
        return False


def classify(cb, impl):
    p = cb.meta["p"]
    out = ["p_nan" if p != p else "p_nonpos" if p <= 0 else "p_lt1" if p < 1 else "p_ge1"]
    multi, _ = infosets_of(cb.tree)
    if not multi[1] or not multi[2]:
        out.append("player_without_multi_infoset")
    return out
