"""C14 - strategy import validates, normalises, and both import paths agree."""
import math
from fractions import Fraction

from ..common import b2f, f2b, close
from ..gen import gen_tree, random_named, infosets_of
from ..ops import CaseBuilder

SCOPE = {"import", "named", "eq"}
N_QUICK = 300
N_THOROUGH = 8000
RULE = ("random perfect-recall trees x candidate named strategies = a valid one + 0..3 mutations (reorder, duplicate entry "
        "overriding an earlier one, drop an infoset, add an unknown infoset, use the other player's infoset, illegal action, wrong "
        "action on a single-action infoset, weights from {-1,-0.0,0,5e-324,1e-300,1,1e300,NaN,+-inf}, all-zero infoset, "
        "unnormalised weights); from_named vs from_named_eq vs model; an independent Python oracle written from the property "
        "text decides expected success / admissible error kinds / normalised result; non-trivial = at least one mutation "
        "applied or weights unnormalised; distinct by (tree, candidate) hash")
ASSUMPTIONS = ["weights range over the whole finite binary64 range incl. infosets whose total overflows (repaired D17: such "
               "rows are rescaled by their maximum first); subnormal quotients are compared with absolute tolerance"]
WEIRD = [-1.0, -0.0, 0.0, 5e-324, 1e-300, 1.0, 1e300, float("nan"), float("inf"), float("-inf")]


def mutate(rng, t, named):
    """returns (named', list of mutation tags)"""
    multi, singles = infosets_of(t)
    named = [[[i, [list(ap) for ap in acts]] for i, acts in pl] for pl in named]
    tags = []
    for _ in range(rng.choice([0, 1, 1, 1, 2, 3])):
        pl = rng.randrange(2)
        ents = named[pl]
        kind = rng.choice(["dup_entry", "dup_infoset", "drop", "unknown", "other_player", "bad_action",
                           "bad_single_action", "weird_weight", "zero_infoset", "empty_actions", "reorder", "tiny_infoset",
                           "tiny_infoset", "huge_infoset", "single_swap", "single_swap"])
        if kind == "single_swap":
            # one single-action infoset left out, another one of the same player mentioned once more (a repeated entry,
            # or its only action named twice): the number of single-action entries still fits, the coverage does not
            sing = [e for e in ents if e[0] in singles[pl + 1]]
            if len(sing) >= 2:
                gone, kept = rng.sample(sing, 2)
                ents.remove(gone)
                if rng.random() < 0.5:
                    ents.insert(rng.randrange(len(ents) + 1), [kept[0], [list(x) for x in kept[1]]])
                else:
                    kept[1].append(list(kept[1][0]))
            else:
                kind = "reorder"
        if kind == "reorder":
            rng.shuffle(ents)
        elif kind == "dup_entry" and ents:
            e = rng.choice(ents)
            if e[1]:
                a, w = rng.choice(e[1])
                e[1].append([a, f2b(rng.choice([0.0, 0.5, 2.0, b2f(w)]))])
        elif kind == "dup_infoset" and ents:
            e = rng.choice(ents)
            ents.insert(rng.randrange(len(ents) + 1), [e[0], [[a, f2b(rng.random())] for a, _ in e[1]]])
        elif kind == "drop" and ents:
            ents.pop(rng.randrange(len(ents)))
        elif kind == "unknown":
            ents.insert(rng.randrange(len(ents) + 1), [rng.randrange(2000, 3000), [[1, f2b(1.0)]]])
        elif kind == "other_player":
            oth = named[1 - pl]
            if oth:
                ents.insert(rng.randrange(len(ents) + 1), [oth[0][0], [list(x) for x in oth[0][1]]])
        elif kind == "bad_action" and ents:
            e = rng.choice(ents)
            e[1].insert(rng.randrange(len(e[1]) + 1), [rng.randrange(2000, 3000), f2b(rng.choice([0.3, 0.0, -1.0]))])
        elif kind == "bad_single_action" and singles[pl + 1]:
            i = rng.choice(list(singles[pl + 1]))
            ents.append([i, [[rng.randrange(2000, 3000), f2b(1.0)]]])
        elif kind == "weird_weight" and ents:
            e = rng.choice(ents)
            if e[1]:
                rng.choice(e[1])[1] = f2b(rng.choice(WEIRD))
        elif kind == "zero_infoset" and ents:
            e = rng.choice(ents)
            for ap in e[1]:
                ap[1] = f2b(rng.choice([0.0, -0.0]))
        elif kind == "tiny_infoset" and ents:
            # every weight of one infoset far down the binary64 range (still finite, non-negative, not all zero):
            # the result must be weight / total all the same
            e = rng.choice(ents)
            k = rng.choice([2.0 ** -60, 1e-20, 1e-150, 1e-300, 2.0 ** -1060])
            for ap in e[1]:
                ap[1] = f2b(b2f(ap[1]) * k)
        elif kind == "huge_infoset" and ents:
            # every weight of one infoset at the top of the binary64 range (finite): the total may overflow,
            # the result must be weight / total all the same (D17)
            e = rng.choice(ents)
            k = rng.choice([2.0 ** 1023, 2.0 ** 1022, 1.7e308, 1e300])
            if rng.random() < 0.5:
                # every weight close to f64::MAX: with three or more actions the total exceeds 2 * MAX
                for ap in e[1]:
                    ap[1] = f2b(1.7976931348623157e308 * rng.uniform(0.7, 1.0))
            else:
                for ap in e[1]:
                    w = b2f(ap[1])
                    if 0.0 < w <= 1.0:
                        ap[1] = f2b(w * k)
        elif kind == "empty_actions" and ents:
            rng.choice(ents)[1] = []
        else:
            continue
        tags.append(kind)
    return named, tags


def oracle(t, named):
    """Independent reading of the property: returns (set of violated error kinds, expected rows or None)."""
    multi, singles = infosets_of(t)
    viol = set()
    result = []
    for pl in (0, 1):
        acts_of = dict(multi[pl + 1])
        sing = singles[pl + 1]
        last = {}
        seen_single = set()
        for info, pairs in named[pl]:
            if info in acts_of:
                for a, wb in pairs:
                    w = b2f(wb)
                    if not (w >= 0.0 and math.isfinite(w)):
                        viol.add("InvalidProbability")
                    if a not in acts_of[info]:
                        viol.add("InvalidAction")
                    elif w >= 0.0 and math.isfinite(w):
                        last[(info, a)] = w
            elif info in sing:
                for a, wb in pairs:
                    w = b2f(wb)
                    if a != sing[info]:
                        viol.add("InvalidAction")
                    if not (w >= 0.0 and math.isfinite(w)):
                        viol.add("InvalidProbability")
                    if a == sing[info] and w >= 0.0 and math.isfinite(w):
                        seen_single.add(info)
            else:
                viol.add("InvalidInfoset")
        rows = {}
        for info, acts in multi[pl + 1]:
            ws = [last.get((info, a), 0.0) for a in acts]
            tot = sum(Fraction(w) for w in ws)        # exact: the property says weight / total
            if not (tot > 0):
                viol.add("UninitializedInfoset")
            else:
                rows[info] = {a: float(Fraction(w) / tot) for a, w in zip(acts, ws) if w > 0 and float(Fraction(w) / tot) > 0}
        if set(sing) - seen_single:
            viol.add("UninitializedInfoset")
        result.append(rows)
    return viol, result


def build(cid, t, st, cand, tags):
    cb = CaseBuilder(cid, t, {"stats": st, "cand": cand, "tags": tags})
    a = cb.import_(cand, fast=True)
    b = cb.import_(cand, fast=False)
    cb.named(a)
    cb.named(b)
    cb.eq(a, b)
    return cb


def generate(rng, tier, n):
    cases = []
    cid = 0
    while len(cases) < n:
        t, st = gen_tree(rng, max_nodes=rng.choice([8, 20, 40]), max_depth=rng.choice([3, 5]),
                         single_rate=rng.choice([0.1, 0.3]))
        if cid == 4:
            from ..solvers import needle_tree
            t, st = needle_tree(rng, rng.choice([65, 70, 130]), pl=rng.choice([1, 2]))     # wider than a machine word
        for _ in range(4):
            base = random_named(rng, t)
            cand, tags = mutate(rng, t, base)
            cases.append(build(cid, t, st, cand, tags))
            cid += 1
            if len(cases) >= n:
                break
    return cases


def corpus():
    """regression input of the repaired D17: finite weights whose total overflows binary64"""
    t = {"p": 1, "i": 7, "a": [[1, {"t": f2b(1.0)}], [2, {"t": f2b(-1.0)}]]}
    big = 2.0 ** 1023
    cand = [[[7, [[1, f2b(big)], [2, f2b(big)]]]], []]
    return [build(1000000, t, {"nodes": 3}, cand, ["overflow_total"])]


def _overflows(cand):
    for pl in cand:
        for _, pairs in pl:
            ws = [b2f(w) for _, w in pairs]
            if all(math.isfinite(w) for w in ws) and math.isinf(sum(w for w in ws if w > 0)):
                return True
    return False


def monitor(cb, impl):
    hits = []
    if "ops" not in impl:
        return hits
    ops = impl["ops"]
    fa, sl = ops[0], ops[1]
    for o in (fa, sl):
        if "panic" in o:
            hits.append(("import panicked: %s" % o["panic"], "panic"))
    if hits:
        return hits
    key = lambda o: ("ok",) if "ok" in o else ("err", o.get("err"))
    if key(fa) != key(sl):
        hits.append(("from_named gives %r but from_named_eq gives %r" % (fa, sl), "paths-differ"))
    viol, rows = oracle(cb.tree, cb.meta["cand"])
    for name, o in (("from_named", fa), ("from_named_eq", sl)):
        if viol and "ok" in o:
            hits.append(("%s accepted a candidate that violates %s" % (name, sorted(viol)), "accepts-invalid"))
        if not viol and "ok" not in o:
            hits.append(("%s rejected a valid candidate with %r" % (name, o), "rejects-valid"))
        if viol and "err" in o and o["err"] not in viol:
            hits.append(("%s reported %s but the violated rules are %s" % (name, o["err"], sorted(viol)), "wrong-kind"))
    if not viol and "ok" in fa and "ok" in ops[2]:
        for k in (2, 3):
            if "ok" not in ops[k]:
                continue
            for pl in (0, 1):
                got = {it[1]: {a: b2f(p) for a, p in it[3]} for it in ops[k]["ok"][pl]["items"]}
                for info, want in rows[pl].items():
                    g = got.get(info, {})
                    if set(g) != set(want) or any(not close(g[a], want[a], 1e-12) for a in want):
                        hits.append(("imported infoset %s of player %d is %r, expected weights/total = %r"
                                     % (info, pl + 1, g, want), "wrong-result"))
        if "ok" in ops[4] and ops[4]["ok"] is not True:
            hits.append(("from_named and from_named_eq results are not equal", "paths-differ"))
    return hits


def nontrivial(cb, impl):
    return bool(cb.meta["tags"])


def classify(cb, impl):
    out = ["mut_" + t for t in cb.meta["tags"]] or ["mut_none"]
    try:
        o = impl["ops"][0]
        out.append("outcome_ok" if "ok" in o else "outcome_" + str(o.get("err")))
    except Exception:
        pass
    return out
