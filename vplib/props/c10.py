"""C10 - sampling follows the declared distributions and is shared within a chance infoset."""
import math
import sys

from ..common import b2f, f2b, coq_float
from ..gen import gen_tree, infosets_of, random_row
from ..ops import CaseBuilder
from ..coqrun import coq_N, coq_list
from ..solvers import rand_params
from .. import harness, coqrun, core

N_QUICK = 60
N_THOROUGH = 1500
RULE = ("observer mode: real runs of Full / Sampled / External (1 and 4 threads, production samplers live, no override) with "
        "every sampling event (kind, cell, pass, weights, result) recorded by the hook; checked: no event for Full, no player "
        "event for Sampled, at most one event per (kind, cell, pass), results in range, chance weights = the declared normalised "
        "weights (model's from_root table), player weights = that player's current strategy (the model replays the recorded "
        "draws as its oracle and must reproduce the presented weights, the returned strategies and bounds); z-test (|z| < 6) of "
        "the empirical frequencies of the production samplers against the presented weights; categorical sampler: rows x "
        "variates {0, each partial sum and its float neighbours, 1-2^-53, random} vs the model's categorical and vs the "
        "cumulative-interval rule; non-trivial = a run with >= 1 chance and >= 1 player event, or a categorical row with >= 3 "
        "entries; distinct by (tree, config) / row hash")
ASSUMPTIONS = ["rand_distr::WeightedAliasIndex and thread_rng are trusted to sample proportionally to their weights; the z-test "
               "only supports that", "a uniform variate within 1e-12 of a cumulative boundary may fall on either side in binary64"]


def run(out, rng, tier, args):
    nconf = args.n or (N_THOROUGH if tier == "thorough" else N_QUICK)
    # ---------------- phase 1: record real runs ----------------
    confs = []
    p1 = []
    for cid in range(nconf):
        t, st = gen_tree(rng, max_nodes=rng.choice([10, 25, 50]), max_depth=rng.choice([3, 5, 6]),
                         chance_share=0.8, p_share=0.7)
        method = rng.choice(["full", "sampled", "external", "external"])
        params = rand_params(rng)
        threads = rng.choice([1, 1, 4])
        T = rng.choice([1, 2, 4, 6])
        cb = CaseBuilder(cid, t, {"stats": st})
        cb.solve(method, T, 0.0, threads, params, None, record=True)
        cb.named(0)
        confs.append((t, st, method, params, threads, T))
        p1.append(cb)
    # long single-threaded runs for the frequency test
    freq = []
    for j in range(4 if tier == "quick" else 16):
        t, st = gen_tree(rng, max_nodes=20, max_depth=4, chance_share=0.9)
        cb = CaseBuilder(nconf + j, t, {"stats": st})
        cb.solve(rng.choice(["sampled", "external"]), 1500, 0.0, 1, "vanilla", None, record=True)
        freq.append(cb)
    # a chance infoset one of whose declared (positive, finite) weights normalises to exactly 0 in binary64, with
    # outcomes declared after it: that outcome has probability 0 and must never be drawn, the others keep their shares
    for j in range(2 if tier == "quick" else 6):
        sub = lambda pl_, i_: {"p": pl_, "i": i_, "a": [[1, {"t": f2b(rng.uniform(-3, 3))}], [2, {"t": f2b(rng.uniform(-3, 3))}]]}
        ws = rng.choice([[1e-200, 1e200, 1e200], [1e200, 1e-200, 3e200], [2e-300, 5e-300 * 1e300, 1e10 * 1e200 / 1e10]])
        t = {"c": 5, "o": [[f2b(w), sub(1 + (k % 2), 40 + k)] for k, w in enumerate(ws)]}
        from ..gen import tree_stats
        cb = CaseBuilder(nconf + 100 + j, t, {"stats": tree_stats(t)})
        cb.solve(rng.choice(["sampled", "external"]), 400, 0.0, rng.choice([1, 2]), "vanilla", None, record=True)
        freq.append(cb)
    # several chance infosets in one game: two coins in sequence (both drawn in every pass: their draws must be
    # independent), and infosets whose weight rows are permutations of each other ((3,1) and (1,3), (9,1) and (1,9))
    for j in range(4 if tier == "quick" else 8):
        dec = lambda i_: {"p": 1 + (i_ % 2), "i": 300 + i_, "a": [[1, {"t": f2b(rng.uniform(-3, 3))}], [2, {"t": f2b(rng.uniform(-3, 3))}]]}
        wa, wb = rng.choice([((1.0, 1.0), (1.0, 1.0)), ((3.0, 1.0), (1.0, 3.0)), ((9.0, 1.0), (1.0, 9.0)), ((3.0, 7.0), (0.6, 0.4))])
        if j % 2 == 0:
            second = lambda base: {"c": 21, "o": [[f2b(wb[0]), dec(base)], [f2b(wb[1]), dec(base + 1)]]}
            t = {"c": 20, "o": [[f2b(wa[0]), second(0)], [f2b(wa[1]), second(2)]]}
        else:
            t = {"p": 1, "i": 290, "a": [[1, {"c": 20, "o": [[f2b(wa[0]), dec(0)], [f2b(wa[1]), dec(1)]]}],
                                         [2, {"c": 21, "o": [[f2b(wb[0]), dec(2)], [f2b(wb[1]), dec(3)]]}]]}
        from ..gen import tree_stats
        cb = CaseBuilder(nconf + 200 + j, t, {"stats": tree_stats(t), "joint": True})
        cb.solve(rng.choice(["sampled", "external"]), 1500, 0.0, rng.choice([1, 1, 2]), "vanilla", None, record=True)
        freq.append(cb)
    impl1 = harness.run_cases("C10p1", [cb.case() for cb in p1 + freq], chunk=max(1, (nconf + 8) // 8 + 1), jobs=4)
    # ---------------- phase 2: replay the recorded draws through the model ----------------
    cases = []
    for cb1, (t, st, method, params, threads, T) in zip(p1, confs):
        r1 = impl1.get(cb1.cid, {})
        out.evaluations += 1
        if "ops" not in r1:
            continue
        s = r1["ops"][0]
        if "panic" in s:
            out.monitor_hits.append((cb1.cid, "solve panicked: %s" % s["panic"], {"case": cb1.case()}, "panic"))
            continue
        evs = s.get("events", [])
        multi, _ = infosets_of(t)
        n1 = len(multi[1])
        hits = []
        seen = set()
        nch = npl = 0
        for kind, cell, pas, ws, res, ov in evs:
            if method == "full":
                hits.append(("the unsampled method made a random draw: %r" % [kind, cell, pas], "full-draws"))
                break
            if method == "sampled" and kind == 1:
                hits.append(("the chance-sampled method sampled a player action (cell %d, pass %d)" % (cell, pas), "sampled-player"))
                break
            if (kind, cell, pas) in seen:
                hits.append(("more than one draw for %s cell %d in pass %d" % ("chance" if kind == 0 else "player", cell, pas),
                             "double-draw"))
                break
            seen.add((kind, cell, pas))
            if not (0 <= res < len(ws)):
                hits.append(("draw %d out of range for %d weights" % (res, len(ws)), "range"))
            nch += kind == 0
            npl += kind == 1
        out.count("events_chance", nch)
        out.count("events_player", npl)
        out.count("method_" + method)
        for text, k in hits:
            out.monitor_hits.append((cb1.cid, text, {"case": cb1.case(), "events": evs[:50]}, k))
        if hits or method == "full":
            if method == "full":
                out.add_nontrivial({"t": t, "m": method})
            continue
        # draw tables from the events
        maxp = max([e[2] for e in evs], default=0) + 1
        nchance = max([e[1] for e in evs if e[0] == 0], default=-1) + 1
        nplayer = max([e[1] for e in evs if e[0] == 1], default=-1) + 1
        tab = {"chance": [[0] * maxp for _ in range(max(nchance, 1))], "player": [[0] * maxp for _ in range(max(nplayer, 1))]}
        for kind, cell, pas, ws, res, ov in evs:
            tab["chance" if kind == 0 else "player"][cell][pas] = res
        cb = CaseBuilder(cb1.cid, t, {"stats": st, "events": evs, "method": method, "n1": n1, "T": T,
                                      "impl_solve": s, "impl_named": r1["ops"][1]})
        k = cb.solve(method, T, 0.0, threads, params, tab)
        cb.named(k)
        cb.raw("chance_table", {"op": "num_infosets"}, [], "o_chance_table %s" % cb.g)
        tabc = lambda rows: coq_list([coq_list([coq_N(v) for v in r]) for r in rows])
        draw = "(table_draw %s %s)" % (tabc(tab["chance"]), tabc(tab["player"]))
        presets = {"vanilla": 0, "lcfr": 1, "cfr_plus": 2, "dcfr": 3, "dcfr_prune": 4}
        cp = "(preset 5%N)" if params is None else "(preset %d%%N)" % presets[params] if isinstance(params, str) \
            else "(params_new %s)" % " ".join(coq_float(x) for x in params)
        meth = {"sampled": "Sampled", "external": "External"}[method]
        for it in range(0, T + 1):
            cb.raw("strats_after", {"op": "num_infosets"}, [], "o_strats_after %s %s %s %s %s" % (cb.g, meth, draw, cp, coq_N(it)))
        cases.append(cb)
        if nch and npl:
            out.add_nontrivial({"t": t, "m": method, "p": str(params)})
    core.build_model()
    model = coqrun.run_shards("C10", [cb.coq() for cb in cases]) if cases else {}
    for cb in cases:
        m = model.get(cb.cid)
        if m is None:
            out.corr_breaks.append((cb.cid, "model produced no result", {"case": cb.case()}))
            continue
        fr, mops = m
        evs = cb.meta["events"]
        replay = {"case": cb.case(), "events": evs[:200], "model": mops, "impl_solve": cb.meta["impl_solve"]}
        # returned bounds/strategies reproduced by the model under the recorded draws
        from ..ops import compare_op
        multi, _ = infosets_of(cb.tree)
        mn = [set(i for i, _ in multi[1]), set(i for i, _ in multi[2])]
        d = compare_op("solve", cb.meta["impl_solve"], mops[0], 1e-8) or compare_op("named", cb.meta["impl_named"], mops[1], 1e-8, mn)
        if d:
            out.corr_breaks.append((cb.cid, "replaying the recorded draws through the model does not reproduce the run: " + d, replay))
            continue
        out.count("runs_reproduced_by_model")
        table = mops[2]["args"][0]
        strats = [o["args"] for o in mops[3:]]
        bad = None
        for kind, cell, pas, ws, res, ov in evs:
            w = [b2f(x) for x in ws]
            if kind == 0:
                want = table[cell] if cell < len(table) else None
            else:
                n1 = cb.meta["n1"]
                st = strats[pas] if pas < len(strats) else None
                want = None if st is None else (st[0][cell] if cell < n1 else st[1][cell - n1] if cell - n1 < len(st[1]) else None)
            if want is None or len(want) != len(w) or any(abs(a - b) > 1e-9 for a, b in zip(want, w)):
                bad = ("%s cell %d pass %d was sampled with weights %r, expected %s %r"
                       % ("chance" if kind == 0 else "player", cell, pas, w,
                          "the declared normalised weights" if kind == 0 else "the player's current strategy", want))
                break
        if bad:
            out.monitor_hits.append((cb.cid, bad, replay, "weights"))
        else:
            out.count("events_with_expected_weights", len(evs))
        if len(out.samples) < 2:
            out.samples.append({"tree": cb.tree, "method": cb.meta["method"], "events": evs[:12]})
    # ---------------- frequencies of the production samplers ----------------
    for cb in freq:
        r = impl1.get(cb.cid, {})
        if "ops" not in r or "events" not in r["ops"][0]:
            continue
        acc = {}
        for kind, cell, pas, ws, res, ov in r["ops"][0]["events"]:
            w = [b2f(x) for x in ws]
            a = acc.setdefault((kind, cell), [[0.0, 0.0, 0] for _ in w])
            if len(a) != len(w):
                continue
            for k_, wk in enumerate(w):
                a[k_][0] += wk
                a[k_][1] += wk * (1 - wk)
                a[k_][2] += (res == k_)
        # joint frequencies of two chance infosets drawn in the same pass: the product of the declared distributions
        bypass = {}
        for kind, cell, pas, ws, res, ov in r["ops"][0]["events"]:
            if kind == 0:
                bypass.setdefault(pas, {}).setdefault(cell, ([b2f(x) for x in ws], res))
        joint = {}
        for pas, cells in bypass.items():
            if not cb.meta.get("joint"):
                break       # only where neither infoset lies below a particular outcome of the other (the family above)
            ids = sorted(cells)
            for x in range(len(ids)):
                for y in range(x + 1, len(ids)):
                    (w1, r1), (w2, r2) = cells[ids[x]], cells[ids[y]]
                    J = joint.setdefault((ids[x], ids[y], len(w1), len(w2)), {})
                    for k1, p1_ in enumerate(w1):
                        for k2, p2_ in enumerate(w2):
                            e_ = J.setdefault((k1, k2), [0.0, 0.0, 0])
                            e_[0] += p1_ * p2_
                            e_[1] += p1_ * p2_ * (1 - p1_ * p2_)
                            e_[2] += (r1 == k1 and r2 == k2)
        for (c1, c2, _l1, _l2), J in joint.items():
            for (k1, k2), (e, v, c) in J.items():
                out.count("joint_frequency_cells_tested")
                if v > 5 and abs(c - e) / math.sqrt(v) > 6.0:
                    out.monitor_hits.append((cb.cid, "chance cells %d and %d were drawn as (%d, %d) in the same pass %d times, expected %.1f +- %.1f "
                                             "under independent draws from the declared weights (z = %.1f)"
                                             % (c1, c2, k1, k2, c, e, math.sqrt(v), (c - e) / math.sqrt(v)), {"case": cb.case()}, "joint-frequency"))
        for (kind, cell), a in acc.items():
            for k_, (e, v, c) in enumerate(a):
                out.count("frequency_cells_tested")
                if e == 0.0 and c > 0:
                    out.monitor_hits.append((cb.cid, "%s cell %d outcome %d has probability exactly 0 at every draw but was drawn %d times"
                                             % ("chance" if kind == 0 else "player", cell, k_, c), {"case": cb.case()}, "frequency-zero"))
                elif v > 5 and abs(c - e) / math.sqrt(v) > 6.0:
                    out.monitor_hits.append((cb.cid, "%s cell %d outcome %d was drawn %d times, expected %.1f +- %.1f (z = %.1f)"
                                             % ("chance" if kind == 0 else "player", cell, k_, c, e, math.sqrt(v),
                                                (c - e) / math.sqrt(v)), {"case": cb.case()}, "frequency"))
    # ---------------- the categorical sampler ----------------
    rows = []
    for j in range(150 if tier == "quick" else 3000):
        n = rng.choice([1, 2, 2, 3, 3, 4, 6])
        row = random_row(rng, n, rng.choice(["dirichlet", "zeros", "tiny", "pure", "uniform"]))
        bits = {0, 1, (1 << 53) - 1, 1 << 52}
        acc = 0.0
        for p in row:
            acc += p
            b = min(max(int(acc * (1 << 53)), 0), (1 << 53) - 1)
            bits |= {b, max(b - 1, 0), min(b + 1, (1 << 53) - 1)}
        for _ in range(6):
            bits.add(rng.getrandbits(53))
        rows.append((row, sorted(bits)))
    t0 = {"t": f2b(0.0)}
    cat_cases = []
    bodies = []
    for j, (row, bits) in enumerate(rows):
        cat_cases.append({"id": j, "tree": t0, "ops": [{"op": "categorical", "probs": [f2b(p) for p in row], "bits": bits}]})
        us = [b / float(1 << 53) for b in bits]
        bodies.append("Eval vm_compute in (%s, o_categorical %s %s)." %
                      (coq_N(j), coq_list([coq_float(p) for p in row]), coq_list([coq_float(u) for u in us])))
    ic = harness.run_cases("C10cat", cat_cases)
    mc = coqrun.run_shards("C10cat", bodies)
    for j, (row, bits) in enumerate(rows):
        out.evaluations += 1
        o = ic.get(j, {}).get("ops", [{}])[0]
        if "ok" not in o:
            out.monitor_hits.append((j, "categorical sampler failed on %r: %r" % (row, o), {"row": row}, "categorical"))
            continue
        got = [x[0] for x in o["ok"]]
        us = [b2f(x[1]) for x in o["ok"]]
        mod = mc.get(j, {}).get("args", [[]])[0]
        if got != mod:
            k = next(i for i, (a, b) in enumerate(zip(got, mod)) if a != b)
            out.corr_breaks.append((j, "categorical(%r, u=%r): implementation %d, model %d" % (row, us[k], got[k], mod[k]),
                                    {"row": row, "u": us[k]}))
        # cumulative-interval rule (independent)
        cs = []
        acc = 0.0
        for p in row:
            acc += p
            cs.append(acc)
        for u, k in zip(us, got):
            lo = cs[k - 1] if k > 0 else -1.0
            hi = cs[k] if k < len(row) - 1 else 2.0
            if not (lo - 1e-12 < u <= hi + 1e-12) or not (0 <= k < len(row)):
                out.monitor_hits.append((j, "categorical(%r, u=%r) returned %d but the cumulative intervals are %r" % (row, u, k, cs),
                                         {"row": row, "u": u}, "categorical"))
                break
        if len(row) >= 3:
            out.add_nontrivial({"row": row})
    out.count("categorical_rows", len(rows))
    out.count("categorical_variates", sum(len(b) for _, b in rows))
