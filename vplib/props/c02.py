"""C02 - the regret bound of an unsampled vanilla solve dominates the true regret."""
import math

from ..common import b2f, f2b
from ..gen import gen_tree, infosets_of
from ..ops import CaseBuilder
from ..solvers import level_tree, blind_guess_tree
from .. import oracle

SCOPE = {"solve", "named", "info"}
REL = 1e-8
N_QUICK = 200
N_THOROUGH = 5000
HARNESS_JOBS = 4
RULE = ("random perfect-recall trees (shared infosets) and frontier-adversarial level trees x solve(Full, T, r, k, vanilla) for "
        "T in {1..20, 50, 200}, thresholds r in {0, values around the final bound, large}, k in {1,2,3,4,8,16}: strategies and "
        "bounds vs the model, and the monitor bound >= true regret - 1e-9*scale (true regret from get_info, itself the subject of "
        "C01, and from an independent exhaustive best response when a player has <= 4096 pure strategies); when the returned "
        "bound is below r the true regret must be below r; non-trivial = T >= 2 and true regret > 0; distinct by (tree, T, r, k)")
ASSUMPTIONS = ["rounding: the theorem is over R; the monitor allows 1e-9 relative slack"]


def generate(rng, tier, n):
    cases = []
    cid = 0
    while len(cases) < n:
        c0 = rng.random()
        forced = None
        if len(cases) == 0:
            # an infoset with more actions than any fixed-size scratch buffer (17 .. 40)
            from ..solvers import needle_tree
            t, st = needle_tree(rng, rng.choice([17, 20, 34, 40]), pl=rng.choice([1, 2]))
        elif len(cases) == 3:
            # hidden moves of one player, the other moves blind: her few infosets have nodes in every work item of the
            # multi-threaded traversal (a lost update there makes the bound too small)
            from ..solvers import hidden_deal_tree
            t, st = hidden_deal_tree(rng, outcomes=23, depth=5, actions=2)      # 3 * 8 - 1 deals: one work item each
            forced = [(40, 8), (40, 5), (20, 12)]
        elif c0 < 0.06:
            # a decision behind a chance branch of probability 1e-17 .. 1e-30 whose payoffs are of the order 1/probability
            from .c01 import jackpot_tree
            t, st = jackpot_tree(rng)
        elif c0 < 0.15:
            t, st = blind_guess_tree(rng)
        elif c0 < 0.4:
            k = rng.choice([2, 3, 4])
            t, st = level_tree(rng, [2, rng.choice([3 * k - 1, 3 * k + 1, 5]), rng.choice([6, 3 * k + 2])])
        else:
            t, st = gen_tree(rng, max_nodes=rng.choice([8, 20, 40, 70]), max_depth=rng.choice([3, 5, 6]),
                             p_share=rng.choice([0.5, 0.8]))
        for j_ in range(3):
            T = rng.choice(list(range(1, 21)) + [50, 200])
            threads = rng.choice([1, 1, 2, 3, 4, 8, 16])
            if forced:
                T, threads = forced[j_]
            r = rng.choice([0.0, 0.0, 0.05, 0.5, 2.0, 10.0, 100.0])
            cb = CaseBuilder(cid, t, {"stats": st, "T": T, "r": r, "threads": threads})
            s = cb.solve("full", T, r, threads, "vanilla")
            cb.named(s)
            cb.info(s)
            cases.append(cb)
            cid += 1
            if len(cases) >= n:
                break
    return cases


def monitor(cb, impl):
    hits = []
    if "ops" not in impl:
        return hits
    s, named, info = impl["ops"][:3]
    if any("panic" in o for o in (s, named, info)):
        return [("panic: %r" % [o for o in (s, named, info) if "panic" in o][:1], "panic")]
    if "ok" not in s or "ok" not in info or "ok" not in named:
        return hits
    b1, b2, b = [b2f(x) for x in s["ok"]]
    util, r1, r2, reg, _ = [b2f(x) for x in info["ok"]]
    lo, hi = oracle.payoff_range(cb.tree)
    tol = 1e-9 * max(1.0, abs(lo), abs(hi))
    m = cb.meta
    if b != max(b1, b2):
        hits.append(("regret_bound() %r is not the larger of the player bounds %r, %r" % (b, b1, b2), "max"))
    if b1 < 0 or b2 < 0:
        hits.append(("negative player bound %r / %r" % (b1, b2), "negative"))
    regs = [reg]
    strat = oracle.strat_from_named(named["ok"])
    brs = [oracle.best_response_value(cb.tree, strat, pl) for pl in (1, 2)]
    if all(x is not None for x in brs):
        eu = oracle.expected_utility(cb.tree, strat)
        regs.append(max(brs[0] - eu, brs[1] + eu, 0.0))
    for true_reg in regs:
        if true_reg > b + tol:
            hits.append(("vanilla Full solve (T=%d, r=%r, %d threads) returned bound %r but the true regret of the returned "
                         "profile is %r" % (m["T"], m["r"], m["threads"], b, true_reg), "bound-below-regret"))
            break
        if b < m["r"] and not (true_reg < m["r"] + tol):
            hits.append(("stopped below the threshold %r with bound %r but the true regret is %r" % (m["r"], b, true_reg),
                         "early-stop-unsound"))
            break
    return hits


def nontrivial(cb, impl):
    try:
        return cb.meta["T"] >= 2 and b2f(impl["ops"][2]["ok"][3]) > 0
    except Exception:
        return False


def classify(cb, impl):
    m = cb.meta
    out = ["threads_%d" % m["threads"], "T_le5" if m["T"] <= 5 else "T_le20" if m["T"] <= 20 else "T_gt20"]
    try:
        if b2f(impl["ops"][0]["ok"][2]) < m["r"]:
            out.append("stopped_below_threshold")
    except Exception:
        pass
    return out


def escalate(cb, cid0):
    """the same game and thread count with larger budgets and no threshold: a wrong regret weighting shows as a bound
    that keeps shrinking while the true regret does not"""
    out = []
    for k, T in enumerate([100, 500, 2000]):
        m = dict(cb.meta, T=T, r=0.0)
        nb = CaseBuilder(cid0 + k, cb.tree, m)
        s = nb.solve("full", T, 0.0, m["threads"], "vanilla")
        nb.named(s)
        nb.info(s)
        out.append(nb)
    return out
