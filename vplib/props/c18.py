"""C18 - truncation keeps a valid profile and only removes small actions."""
import math

from ..common import b2f, f2b, next_up, next_down, close
from ..gen import gen_tree, random_named, infosets_of
from ..ops import CaseBuilder
from .. import core

SCOPE = {"truncate", "named"}
RULE = ("random perfect-recall trees (shared infosets, single-action nodes) x imported profiles "
        "(dirichlet / pure / with zeros / tiny entries) x thresholds {-inf,-1,0, below the smallest positive entry, "
        "each entry value and its two float neighbours, the largest entry, 1, 2, +inf, NaN}; 40 % of the cases continue with a "
        "sequence of 2-4 further truncations of the same object (thresholds in any order, in place or via clone, get_info in "
        "between), each step judged against the view just before it; a case is non-trivial "
        "when the truncation changes at least one infoset or hits the nothing-above branch; distinct by "
        "(tree, profile, threshold) hash")


def entries_after_import(named_pl, multi_pl):
    """Replicate the import normalisation in binary64: dense in action order, total = left fold from 0."""
    rows = []
    last = {}
    for info, pairs in named_pl:
        for a, w in pairs:
            last[(info, a)] = b2f(w)
    for info, acts in multi_pl:
        dense = [last.get((info, a), 0.0) for a in acts]
        tot = 0.0
        for x in dense:
            tot += x
        rows.append([x / tot for x in dense])
    return rows


def thresholds(rng, rows, tier):
    vals = sorted({p for r in rows for p in r if p > 0.0})
    th = [float("-inf"), -1.0, 0.0, 1.0, 2.0, float("inf"), float("nan")]
    if vals:
        th.append(vals[0] / 2)
        th.append(vals[-1])
        picks = vals if tier == "thorough" else rng.sample(vals, min(len(vals), 3))
        for v in picks:
            th += [v, next_up(v), next_down(v)]
        # at or above the largest probability of some infoset
        for r in rows:
            m = max(r)
            th += [m, next_down(m)]
    if tier != "thorough":
        keep = th[:7] + rng.sample(th[7:], min(len(th) - 7, 6))
        th = keep
    return th


def generate(rng, tier, n):
    cases = []
    cid = 0
    while len(cases) < n:
        t, st = gen_tree(rng, max_nodes=rng.choice([8, 20, 40]), max_depth=rng.choice([3, 5, 6]))
        if cid == 0 or (cid > 0 and rng.random() < 0.04):
            # an infoset wider than a machine word (65 .. 130 actions)
            from ..solvers import needle_tree
            t, st = needle_tree(rng, rng.choice([65, 70, 100, 130]), pl=rng.choice([1, 2]))
        multi, singles = infosets_of(t)
        if not (multi[1] or multi[2]):
            continue
        named = random_named(rng, t)
        sub = rng.random() < 0.12
        if sub:
            # some weights far below the normal range: the imported probabilities are subnormal (still positive), and
            # thresholds of that size must remove exactly what does not exceed them
            for pl_ in named:
                for _, pairs in pl_:
                    if len(pairs) >= 2 and rng.random() < 0.7:
                        pairs[rng.randrange(len(pairs))][1] = f2b(rng.choice([4e-310, 1e-312, 5e-324, 3e-309]) * rng.choice([1, 2, 3]))
        rows = entries_after_import(named[0], multi[1]) + entries_after_import(named[1], multi[2])
        ths = thresholds(rng, rows, tier)
        if sub:
            ths = ths[:4] + [5e-324, 1e-310, 2.2250738585072014e-308, 4e-310, 1e-311]
        for h in ths:
            cb = CaseBuilder(cid, t, {"stats": st, "thresh": h, "named": named})
            src = cb.import_(named, fast=True)
            cb.named(src)
            d1 = cb.truncate(src, h)
            cb.named(d1)
            d2 = cb.truncate(d1, h)
            cb.named(d2)
            cb.info(d1)
            # operation sequences on one profile object (40 %): further truncations in any order of thresholds
            # (lower after higher, equal, higher), in place or through a clone, each step judged against the
            # named view just before it; info/named in between must not disturb anything
            steps = []
            if rng.random() < 0.4:
                pos = sorted({p for r in rows for p in r if p > 0.0})
                cur, cur_named = src, 1
                for _ in range(rng.choice([2, 3, 4])):
                    hh = rng.choice([h, h, 0.0, float("nan")] + ([rng.choice(pos), rng.choice(pos) * 0.5, next_down(rng.choice(pos)),
                                                                   max(pos), min(pos) * 0.5] if pos else []))
                    if rng.random() < 0.3:
                        cb.info(cur)
                    nxt = cb.truncate(cur, hh, inplace=rng.random() < 0.5)
                    after = cb.named(nxt)
                    steps.append((cur_named, hh, after))
                    cur, cur_named = nxt, after
            cb.meta["steps"] = steps
            cases.append(cb)
            cid += 1
            if len(cases) >= n:
                break
    return cases


def _rows_from_named(named_player_items, multi_pl):
    """positive entries -> full rows (zeros restored) for the multi-action infosets"""
    by = {}
    for outer, name, lens, pairs in named_player_items:
        by[name] = {a: b2f(p) for a, p in pairs}
    rows = []
    for info, acts in multi_pl:
        d = by.get(info)
        if d is None:
            return None
        rows.append([d.get(a, 0.0) for a in acts])
    return rows


def monitor(cb, impl):
    """Evaluate C18 on the implementation's own outputs. Returns list of (text, class)."""
    hits = []
    if "ops" not in impl:
        return hits
    ops = impl["ops"]
    if any("ok" not in ops[k] for k in (0, 1, 2, 3, 4, 5)):
        if any("panic" in ops[k] for k in range(len(ops))):
            hits.append(("truncate/as_named panicked: %s" % [o for o in ops if "panic" in o][:1], "panic"))
        return hits
    h = cb.meta["thresh"]
    multi, _ = infosets_of(cb.tree)
    for before, hh, after in cb.meta.get("steps", []):
        if before >= len(ops) or after >= len(ops) or "ok" not in ops[before] or "ok" not in ops[after]:
            if after < len(ops) and "panic" in ops[after]:
                hits.append(("as_named panicked in a truncation sequence: %s" % ops[after]["panic"], "panic"))
            continue
        for pl in (0, 1):
            r_before = _rows_from_named(ops[before]["ok"][pl]["items"], multi[pl + 1])
            r_after = _rows_from_named(ops[after]["ok"][pl]["items"], multi[pl + 1])
            if r_before is None or r_after is None:
                hits.append(("an infoset is missing from a named view (player %d)" % (pl + 1), "missing"))
                continue
            for (info, acts), r0, r1 in zip(multi[pl + 1], r_before, r_after):
                if not all(math.isfinite(x) and x >= 0 for x in r0 + r1) or abs(sum(r0) - 1.0) > 1e-9 or abs(sum(r1) - 1.0) > 1e-9:
                    hits.append(("in a sequence of truncations, infoset %s of player %d is not a distribution: %r -> truncate(%r) -> %r"
                                 % (info, pl + 1, r0, hh, r1), "invalid-seq"))
                    continue
                above = [p > hh for p in r0]
                if any(above):
                    tot = sum(p for p, a in zip(r0, above) if a)
                    exp = [p / tot if a else 0.0 for p, a in zip(r0, above)]
                else:
                    exp = r0
                if any((e == 0.0) != (x == 0.0) for e, x in zip(exp, r1)) or \
                        any(not close(e, x, 1e-9) for e, x in zip(exp, r1)):
                    hits.append(("in a sequence of truncations on one profile, infoset %s of player %d: truncate(%r) gave %r, "
                                 "expected %r (before that call: %r; thresholds so far %r)"
                                 % (info, pl + 1, hh, r1, exp, r0, [h] + [x[1] for x in cb.meta["steps"]]), "wrong-support-seq"))
    for pl in (0, 1):
        src = _rows_from_named(ops[1]["ok"][pl]["items"], multi[pl + 1])
        d1 = _rows_from_named(ops[3]["ok"][pl]["items"], multi[pl + 1])
        d2 = _rows_from_named(ops[5]["ok"][pl]["items"], multi[pl + 1])
        if src is None or d1 is None or d2 is None:
            hits.append(("an infoset is missing from a named view (player %d)" % (pl + 1), "missing"))
            continue
        for (info, acts), r0, r1, r2 in zip(multi[pl + 1], src, d1, d2):
            s1 = sum(r1)
            if not all(math.isfinite(x) and x >= 0 for x in r1) or abs(s1 - 1.0) > 1e-9:
                hits.append(("infoset %s of player %d is not a distribution after truncate(%r): %r (before: %r)"
                             % (info, pl + 1, h, r1, r0), "invalid"))
                continue
            above = [p > h for p in r0]
            if any(above):
                tot = sum(p for p, a in zip(r0, above) if a)
                exp = [p / tot if a else 0.0 for p, a in zip(r0, above)]
            else:
                exp = r0
            if any((e == 0.0) != (x == 0.0) for e, x in zip(exp, r1)) or \
                    any(not close(e, x, 1e-9) for e, x in zip(exp, r1)):
                hits.append(("infoset %s of player %d: truncate(%r) gave %r, expected %r (before: %r)"
                             % (info, pl + 1, h, r1, exp, r0), "wrong-support"))
            # binary64 boundary: renormalising can move an entry that was just above the threshold onto it
            # (the row sum is 1 only up to an ulp), and the second truncation then drops it.  Over the reals
            # truncation is idempotent (theorem C18_idempotent); an entry within a few ulps of the threshold
            # after the first truncation is the rounding case and is not judged (binary64-range class, DESIGN 9)
            on_boundary = any(x != 0.0 and abs(x - h) <= 8 * 2.0 ** -52 * max(abs(h), abs(x)) for x in r1)
            if any(not close(x, y, 1e-9) for x, y in zip(r1, r2)) and not on_boundary:
                hits.append(("infoset %s of player %d: truncating twice differs from once: %r vs %r (thresh %r)"
                             % (info, pl + 1, r2, r1, h), "not-idempotent"))
    return hits


def _boundary(rows, h):
    """some stored probability is within a few ulps of the threshold: whether it 'exceeds h' is decided by the last
    bits of the normalisation, which no property constrains"""
    return any(x != 0.0 and abs(x - h) <= 8 * 2.0 ** -52 * max(abs(h), abs(x)) for r in rows for x in r)


def not_judged(cb, impl, dis):
    """Model and implementation are compared op by op.  The model divides and sums in the code's order, so on the
    unchanged code they agree bit for bit; a harmless rewrite of a summation moves probabilities by an ulp, and a
    threshold that sits within a few ulps of a stored probability (the generator aims thresholds AT the entries) then
    selects a different support on the two sides.  From the first such truncation on, the model/implementation diff
    of this case is not judged; the monitor, which reads only the implementation's own views, still is."""
    ops = impl.get("ops") or []
    multi, _ = infosets_of(cb.tree)
    steps = [(1, cb.meta["thresh"], 3), (3, cb.meta["thresh"], 5)] + list(cb.meta.get("steps", []))
    first = None
    for before, h, after in steps:
        if before >= len(ops) or "ok" not in ops[before]:
            continue
        for pl in (0, 1):
            rows = _rows_from_named(ops[before]["ok"][pl]["items"], multi[pl + 1]) or []
            if _boundary(rows, h):
                first = after - 1 if first is None else min(first, after - 1)
    if first is None:
        return dis
    kept = []
    for kind, text in dis:
        try:
            k = int(text.split()[1])
        except Exception:
            kept.append((kind, text))
            continue
        if k < first:
            kept.append((kind, text))
    return kept


def nontrivial(cb, impl):
    try:
        a = impl["ops"][1]["ok"]
        b = impl["ops"][3]["ok"]
    except Exception:
        return False
    h = cb.meta["thresh"]
    changed = [x["items"] for x in a] != [x["items"] for x in b]
    multi, _ = infosets_of(cb.tree)
    none_above = False
    for pl in (0, 1):
        rows = _rows_from_named(a[pl]["items"], multi[pl + 1]) or []
        none_above = none_above or any(not any(p > h for p in r) for r in rows)
    return changed or none_above

N_QUICK = 300
N_THOROUGH = 6000


def corpus():
    """regression input of the repaired defect D8: [0.5, 0.5] at threshold 0.6"""
    t = {"p": 1, "i": 7, "a": [[1, {"t": f2b(1.0)}], [2, {"t": f2b(-1.0)}]]}
    named = [[[7, [[1, f2b(0.5)], [2, f2b(0.5)]]]], []]
    out = []
    for k, h in enumerate([0.6, 0.5, float("nan")]):
        cb = CaseBuilder(1000000 + k, t, {"thresh": h, "named": named, "corpus": "D8"})
        src = cb.import_(named, fast=True)
        cb.named(src)
        d1 = cb.truncate(src, h)
        cb.named(d1)
        d2 = cb.truncate(d1, h)
        cb.named(d2)
        cb.info(d1)
        out.append(cb)
    return out
