"""C08 - the solvers compute the documented discounted-CFR iterates.

The Coq model *is* the independent executable specification; its update rules are shown to
mean what the documentation says by the theorems of Properties/C08.v.  The decision procedure
is trajectory-level agreement, so a disagreement is itself the failing input."""
from ..common import b2f, f2b
from ..gen import gen_tree, infosets_of
from ..ops import CaseBuilder
from ..solvers import rand_params, draws_for, PRESETS, INF

SCOPE = {"solve", "named", "presets"}
CORR_IS_VIOLATION = True
REL = 1e-8
N_QUICK = 120
N_THOROUGH = 2000
RULE = ("random perfect-recall trees x {Full, Sampled, External} x {five presets, None, accepted tuples over "
        "{-inf,-1,0,.5,1,1.5,2,3,+inf} and, for 40% of them, also large / odd finite exponents {-1000,-12.25,37.5,1000} and weights}} x a ladder of budgets (quick: 0..5,7,10,15,25,50; thorough: every T in 0..50) under "
        "pinned draws (table indexed by infoset cell and pass, weights ignored so that every sequence of sampling decisions is "
        "eligible) x 1 and 4 threads: strategies and both bounds against the model; presets read back from the crate's "
        "public fields; non-trivial = T >= 2 on a tree with >= 2 infosets; distinct by (tree, config, T) hash")
BUDGETS_Q = [0, 1, 2, 3, 4, 5, 7, 10, 15, 25, 50]


def generate(rng, tier, n):
    cases = []
    cid = 0
    while len(cases) < n:
        t, st = gen_tree(rng, max_nodes=rng.choice([8, 20, 40]), max_depth=rng.choice([3, 5, 6]),
                         p_share=rng.choice([0.5, 0.8]))
        if cid % 7 == 5:
            # the same rules in a far-out payoff unit (exact power of two), down to subnormal regret totals
            from ..solvers import scale_payoffs
            t = scale_payoffs(t, 2.0 ** [-1040, -200, 150][(cid // 7) % 3])
        method = rng.choice(["full", "sampled", "external"])
        params = rand_params(rng, wild=rng.random() < 0.4)
        threads = rng.choice([1, 1, 4])
        if cid % 7 == 3:
            # a hidden, unevenly weighted deal near the root with infosets spanning it, odd thread counts: the iterates
            # of the multi-threaded solvers are the documented ones too
            from ..solvers import hidden_deal_tree
            t, st = hidden_deal_tree(rng, outcomes=rng.choice([2, 3, 4]), depth=rng.choice([3, 4]), actions=2)
            threads = rng.choice([3, 5, 2])
            method = rng.choice(["full", "full", "sampled"])
        draws = draws_for(rng, t, st, n=101)
        budgets = range(0, 51) if tier == "thorough" else BUDGETS_Q
        cb = CaseBuilder(cid, t, {"stats": st, "method": method, "params": params, "threads": threads})
        if cid % 3 == 2 and isinstance(params, list):
            # two parameter tuples that differ in one component, solved alternately with unrelated budgets in one
            # process and thread: nothing of one solve may survive into the next
            q = list(params)
            j = rng.choice([0, 1, 1, 1, 2, 3])
            if j < 2:
                # a finite exponent against an infinite one: the discount factors differ already at t = 1 (1/2 vs 0 or 1)
                q[j] = rng.choice([INF, -INF]) if abs(q[j]) != INF else rng.choice([0.0, 1.0, 2.0, 0.5])
            else:
                q[j] = rng.choice([x for x in ([0.0, 1.0, 2.0] if j == 2 else [-INF, -0.5, 0.0, 1.0, INF]) if x != q[j]])
            # ... in particular a solve that ends after exactly one iteration followed by a longer one with the other tuple
            for T in (3, 5, 8, 12):
                for pq, tt in ((params, 1), (q, T), (q, 1), (params, T)):
                    k = cb.solve(method, tt, 0.0, 1 if rng.random() < 0.8 else threads, pq, draws)
                    cb.named(k)
            budgets = []
        for T in budgets:
            k = cb.solve(method, T, 0.0, threads, params, draws)
            cb.named(k)
        if cid % 10 == 0:
            cb.raw("presets", {"op": "presets"}, [], "o_presets")
        cases.append(cb)
        cid += 1
    return cases


_THREAD_PROBES = [0]


def not_judged(cb, impl, dis):
    """A solve with several threads differs from the specification's iterates.  The specification is sequential; the
    multi-threaded solvers add the same increments in another order, which the property ("within rounding") allows and
    which regret matching can amplify where a cumulative regret is zero up to rounding (typically with strongly negative
    discount exponents).  core.thread_difference_explained decides: the difference is excused only if a one-ulp
    perturbation of the model, or the model of the multi-threaded solver under another schedule, leaves the model no
    later than the k-thread run leaves the one-thread run of the implementation itself."""
    import re
    from .. import core
    if cb.meta.get("threads", 1) < 2 or not dis:
        return dis
    first = None
    for kind, text in dis:
        m = re.match(r"op (\d+) \((solve|named|info)\)", text)
        if m:
            j = int(m.group(1))
            while j >= 0 and cb.ops[j].get("op") != "solve":
                j -= 1
            if j >= 0 and int(cb.ops[j].get("threads", 1)) >= 2:
                first = j
                break
    if first is None or _THREAD_PROBES[0] >= 6:
        return dis
    _THREAD_PROBES[0] += 1
    ok, why = core.thread_difference_explained(cb, first, 1e-9, name="condt8_%d" % cb.cid)
    if ok:
        return [(k, t) for k, t in dis if k not in ("solve", "named", "info")]
    return dis


def nontrivial(cb, impl):
    multi, _ = infosets_of(cb.tree)
    return len(multi[1]) + len(multi[2]) >= 2


def classify(cb, impl):
    p = cb.meta["params"]
    return ["method_" + cb.meta["method"], "threads_%d" % cb.meta["threads"],
            "params_" + ("default" if p is None else p if isinstance(p, str) else "tuple")]
