"""C05 - every solve returns a well-formed strategy profile and never panics."""
import math
import os
import resource
import subprocess
import json

from ..common import b2f, f2b, WORK
from ..gen import gen_tree, infosets_of
from ..ops import CaseBuilder
from ..solvers import rand_params, draws_for, rows_valid, INF, alternating_tree
from .. import harness

SCOPE = {"solve", "named"}
REL = 1e-7
N_QUICK = 300
N_THOROUGH = 12000
HARNESS_JOBS = 4
RULE = ("random perfect-recall trees (|payoff| <= 1e6) x {Full, Sampled, External} x {five presets, None, accepted tuples with "
        "exponents in {-inf,-1000..1000,+inf} and fallback weights in {-inf,negative,0,positive,+inf}} x T in {0,1,2,7,50} x "
        "thresholds {-1,0,1e-3,+inf,NaN} x threads {0,1,2,3,16} with live production samplers or pinned draws and seeded "
        "yield points; thread counts at the usize::MAX/3 boundary run in a child process under ulimit -v; RegretParams::new "
        "acceptance on NaN/negative/infinite tuples; non-trivial = T >= 1 with >= 2 threads or a non-preset tuple; distinct by "
        "(tree, config) hash; plus a binary64-underflow stress family (averaging exponent 50..300 over 600..1500 iterations; a "
        "chain of 200-270 sixteen-way decisions of one player) judged by the validity monitor only; games in which one chance "
        "infoset is met twice on a path, all methods, 1-3 threads")
ASSUMPTIONS = ["OS-level thread creation, allocator failure and rayon internals are runtime behaviour outside the model; "
               "ThreadSpawnError is accepted as the documented error for absurd thread counts",
               "binary64 overflow of accumulated regret at |payoff| ~ 1e308 is a known finding (D13); generators keep |payoff| <= 1e6"]
THRESH = [-1.0, 0.0, 1e-3, INF, float("nan")]
BIG = (2 ** 64 - 1) // 3


def build(cid, t, st, method, T, r, threads, params, draws, yseed, meta=None):
    cb = CaseBuilder(cid, t, dict({"stats": st, "method": method, "T": T, "r": r, "threads": threads,
                                   "params": params, "pinned": draws is not None}, **(meta or {})))
    if draws is None and method != "full":
        cb.meta["scope"] = set()      # live randomness: only the monitor judges
    k = cb.solve(method, T, r, threads, params, draws, yield_seed=yseed)
    cb.named(k)
    cb.info(k)
    return cb


def deep_chain(rng, depth, width):
    """one player decides `depth` times in a row among `width` actions (all but one end the game): the reach of the
    deepest infoset under the uniform strategy is width^-depth, far below the normal binary64 range"""
    from ..gen import tree_stats
    t = {"t": f2b(rng.uniform(-1, 1))}
    for d in range(depth):
        acts = [[a, {"t": f2b(rng.uniform(-1, 1))}] for a in range(1, width)]
        acts.insert(rng.randrange(width), [width, t])
        t = {"p": 1, "i": 1000 + d, "a": acts}
    return t, tree_stats(t)


def shared_coin_tree(rng):
    """chance X -> [decisions of both players ->] chance X again (same label, same weights) -> decisions -> payoffs"""
    from ..gen import tree_stats
    w = [f2b(1.0), f2b(rng.choice([1.0, 2.0, 0.5]))]
    k = [0]

    def leaf():
        return {"t": f2b(rng.uniform(-5, 5))}

    def dec(pl, info, kids):
        return {"p": pl, "i": info, "a": [[a + 1, c] for a, c in enumerate(kids)]}

    def second(tag):
        # the same chance infoset again, below the first flip (and below a decision in half of the cases)
        return {"c": 77, "o": [[w[0], dec(2, 300 + tag, [leaf(), leaf()])], [w[1], dec(2, 310 + tag, [leaf(), leaf(), leaf()])]]}

    def below(tag):
        if rng.random() < 0.5:
            return dec(1, 100 + tag, [second(tag), leaf()])
        return second(tag)
    t = {"c": 77, "o": [[w[0], below(0)], [w[1], below(1)]]}
    return t, tree_stats(t)


def generate(rng, tier, n):
    cases = []
    cid = 0
    # binary64 *underflow* stress (accumulated average strategies that become subnormal): strong averaging
    # discount over many iterations, and reaches that underflow on a deep chain; judged by the monitor only
    n_stress = max(4, n // 40)
    for _ in range(n_stress):
        if rng.random() < 0.3:
            t, st = deep_chain(rng, rng.choice([200, 270]), 16)
            cases.append(build(cid, t, st, rng.choice(["full", "sampled"]), rng.choice([1, 2]), 0.0, 1, rng.choice(["vanilla", None]),
                               None, 0, {"scope": set(), "stress": "deep-chain"}))
        else:
            t, st = gen_tree(rng, max_nodes=rng.choice([15, 40]), max_depth=rng.choice([4, 6]))
            params = [rng.choice([1.5, INF]), rng.choice([0.0, -INF, 0.5]), rng.choice([50.0, 100.0, 300.0]), rng.choice([INF, 0.0])]
            cases.append(build(cid, t, st, rng.choice(["full", "external"]), rng.choice([600, 1500]), 0.0, 1, params,
                               None, 0, {"scope": set(), "stress": "averaging-decay"}))
        cid += 1
    # contention: bushy alternating games solved by several workers with live samplers (every lock / borrow site of
    # the multi-threaded solvers is hit from sibling subtrees at once)
    for _ in range(max(6, n // 25)):
        t, st = alternating_tree(rng, rng.choice([5, 6]), first=rng.choice([1, 2]), p_stop=0.05, share=0.6)
        cases.append(build(cid, t, st, rng.choice(["external", "external", "sampled", "full"]), rng.choice([7, 50]), 0.0,
                           rng.choice([2, 3, 5, 8]), rng.choice(["dcfr", None, "vanilla"]), None,
                           rng.randrange(1, 1 << 30) if rng.random() < 0.5 else 0, {"stress": "contention"}))
        cid += 1
    # one chance infoset met twice on a path (accepted: chance infosets need no perfect recall): every cell of the
    # solvers that belongs to it is entered while it is already in use further up
    for _ in range(max(4, n // 60)):
        t, st = shared_coin_tree(rng)
        cases.append(build(cid, t, st, rng.choice(["external", "external", "sampled", "full"]), rng.choice([1, 5, 20]), 0.0,
                           rng.choice([1, 1, 2, 3]), rng.choice(["dcfr", None, "vanilla"]), None, 0, {"stress": "chance-infoset-twice-on-a-path"}))
        cid += 1
    # the documented "no limit" budget (u64::MAX; the CLI's -t 0) and its neighbour, ended by the threshold: a positive
    # budget must run at least one iteration and return a finite bound, with every method and thread count
    for _ in range(max(6, n // 40)):
        t, st = gen_tree(rng, max_nodes=rng.choice([6, 15]), max_depth=3)
        method = rng.choice(["full", "sampled", "external"])
        cases.append(build(cid, t, st, method, rng.choice([2 ** 64 - 1, 2 ** 64 - 1, 2 ** 64 - 2]), rng.choice([INF, 1e9]),
                           rng.choice([1, 1, 2, 0]), rng.choice(["vanilla", None, "cfr_plus"]),
                           draws_for(rng, t, st) if rng.random() < 0.5 else None, 0, {"stress": "unlimited-budget"}))
        cid += 1
    while len(cases) < n:
        t, st = gen_tree(rng, max_nodes=rng.choice([6, 15, 40, 70]), max_depth=rng.choice([3, 5, 6]),
                         payoff_scale=rng.choice([1.0, 10.0, 1e6]))
        for _ in range(4):
            method = rng.choice(["full", "sampled", "external"])
            params = rand_params(rng, wild=True)
            T = rng.choice([0, 1, 2, 7, 50])
            threads = rng.choice([0, 1, 1, 2, 3, 16])
            draws = draws_for(rng, t, st) if rng.random() < 0.6 else None
            cases.append(build(cid, t, st, method, T, rng.choice(THRESH), threads, params, draws,
                               rng.randrange(1, 1 << 30) if threads != 1 and rng.random() < 0.5 else 0))
            cid += 1
            if len(cases) >= n:
                break
    return cases


def _t(x):
    return {"t": f2b(x)}


def corpus():
    out = []
    # repaired D12: negative finite fallback weight with forgotten positive regrets
    t = {"p": 1, "i": 1, "a": [[1, {"p": 2, "i": 2, "a": [[1, _t(3.0)], [2, _t(-700.0)]]}],
                                [2, {"p": 2, "i": 2, "a": [[1, _t(-500.0)], [2, _t(900.0)]]}]]}
    st = {"chance": 0, "players": 3, "nodes": 7}
    for k, T in enumerate([1, 3, 7]):
        out.append(build(1000000 + k, t, st, "full", T, 0.0, 1, [-INF, INF, 0.0, -1.0], None, 0, {"corpus": "D12"}))
    # rejected parameter tuples
    for k, p in enumerate([[float("nan"), 0.0, 0.0, 0.0], [0.0, float("nan"), 0.0, 0.0], [0.0, 0.0, -1.0, 0.0],
                           [0.0, 0.0, INF, 0.0], [0.0, 0.0, float("nan"), 0.0], [0.0, 0.0, 0.0, float("nan")]]):
        out.append(build(1000010 + k, t, st, "full", 1, 0.0, 1, p, None, 0, {"corpus": "params"}))
    # thread-count overflow boundary through the normal path (overflow is decided before any thread is created)
    out.append(build(1000020, t, st, "full", 1, 0.0, BIG + 1, "vanilla", None, 0, {"corpus": "overflow"}))
    out.append(build(1000021, t, st, "external", 1, 0.0, 2 ** 64 - 1, None, None, 0, {"corpus": "overflow"}))
    # known finding D13: accumulated regret leaves the binary64 range
    big = {"p": 1, "i": 1, "a": [[1, {"p": 2, "i": 2, "a": [[1, _t(1e308)], [2, _t(9e307)]]}],
                                  [2, {"p": 2, "i": 2, "a": [[1, _t(-1e308)], [2, _t(-9e307)]]}]]}
    for k, T in enumerate([1, 3]):
        out.append(build(1000030 + k, big, st, "full", T, 0.0, 1, "vanilla", None, 0, {"corpus": "D13", "scope": set()}))
    return out


def huge_thread_probe():
    """solve with floor((2^64-1)/3) threads in a child process under a memory limit: must return an error
    (ThreadSpawnError) or succeed, never crash the process by panicking."""
    exe = harness.build_harness()
    t = {"p": 1, "i": 1, "a": [[1, _t(1.0)], [2, _t(-1.0)]]}
    cases = [{"id": 1, "tree": t, "ops": [{"op": "solve", "dst": 0, "method": m, "iters": 1, "max_reg": f2b(0.0),
                                            "threads": BIG, "params": None, "draws": None, "yield_seed": 0}]}
             for m in ("full",)]
    os.makedirs(WORK, exist_ok=True)
    inp, outp = os.path.join(WORK, "C05_huge_in.json"), os.path.join(WORK, "C05_huge_out.json")
    json.dump(cases, open(inp, "w"))
    if os.path.exists(outp):
        os.remove(outp)

    def lim():
        resource.setrlimit(resource.RLIMIT_AS, (8 << 30, 8 << 30))
    try:
        p = subprocess.run([exe, inp, outp], capture_output=True, text=True, timeout=300, preexec_fn=lim)
        status = p.returncode
    except subprocess.TimeoutExpired:
        return "timeout"
    res = json.load(open(outp)) if os.path.exists(outp) else None
    for f in (inp, outp):
        if os.path.exists(f):
            os.remove(f)
    if res is None:
        return "process died with status %s" % status
    o = res[0]["res"]["ops"][0]
    return o


def monitor(cb, impl):
    hits = []
    if "ops" not in impl:
        if "executor_failed" in impl:
            hits.append(("the process running the solve died or hung: %r" % impl, "crash"))
        return hits
    s, named, info = impl["ops"][:3]
    m = cb.meta
    known = "f64-overflow" if m.get("corpus") == "D13" else None
    if "params_panic" in s:
        p = m["params"]
        bad = isinstance(p, list) and (any(x != x for x in p) or not (p[2] >= 0) or p[2] == INF)
        if not bad:
            hits.append(("RegretParams::new rejected the documented-valid tuple %r: %s" % (p, s["params_panic"]), "params"))
        return hits
    if isinstance(m["params"], list):
        p = m["params"]
        if any(x != x for x in p) or not (p[2] >= 0) or p[2] == INF:
            hits.append(("RegretParams::new accepted the invalid tuple %r" % p, "params"))
            return hits
    if "panic" in s:
        return [("solve panicked: %s (config %r)" % (s["panic"], [m["method"], m["T"], m["r"], m["threads"], m["params"]]), "panic")]
    overflow = m["threads"] != 1 and 3 * m["threads"] >= 2 ** 64
    if "err" in s:
        if m["threads"] == 1:
            hits.append(("one thread returned the error %s" % s["err"], "one-thread-error"))
        elif s["err"] == "ThreadOverflow" and not overflow:
            hits.append(("ThreadOverflow for %d threads" % m["threads"], "overflow"))
        return hits
    if overflow:
        hits.append(("no ThreadOverflow for %d threads" % m["threads"], "overflow"))
    b1, b2, b = [b2f(x) for x in s["ok"]]
    for nm, x in (("player one", b1), ("player two", b2)):
        if x != x or x < 0:
            hits.append(("%s bound is %r" % (nm, x), known or "bound"))
        if (x == INF) != (m["T"] == 0):
            hits.append(("%s bound is %r after a budget of %d iterations" % (nm, x, m["T"]), known or "bound-inf"))
    if "panic" in named or "panic" in info:
        hits.append(("as_named/get_info panicked on the returned profile", known or "panic"))
    elif "ok" in named:
        multi, _ = infosets_of(cb.tree)
        for pl in (0, 1):
            bad = rows_valid(named["ok"][pl]["items"], multi[pl + 1])
            if bad:
                hits.append(("player %d infosets without a probability distribution: %r (config %r)"
                             % (pl + 1, bad[:3], [m["method"], m["T"], m["r"], m["threads"], m["params"]]),
                             known or "invalid-row"))
    return hits


def nontrivial(cb, impl):
    m = cb.meta
    return m["T"] >= 1 and (m["threads"] != 1 or isinstance(m["params"], list))


def classify(cb, impl):
    m = cb.meta
    return ["method_" + m["method"], "threads_%s" % (m["threads"] if m["threads"] < 100 else "huge"), "T_%d" % m["T"],
            "draws_pinned" if m["pinned"] else "draws_live"] + (["stress_" + m["stress"]] if m.get("stress") else [])


def run(out, rng, tier, args):
    import importlib
    check = importlib.import_module("__main__")
    import sys
    n = args.n or (N_THOROUGH if tier == "thorough" else N_QUICK)
    cases = corpus() + generate(rng, tier, n)
    check.process(sys.modules[__name__], out, cases, tier)
    o = huge_thread_probe()
    for _ in range(2):
        if isinstance(o, str) and o.startswith("process died with status -"):
            o = huge_thread_probe()
    out.count("huge_thread_probe")
    out.extra["huge_thread_probe"] = str(o)[:200]
    if isinstance(o, str) and o.startswith("process died with status -"):
        # killed by a signal (SIGABRT from the allocator, SIGKILL, SIGSEGV on a guard page) while creating an absurd
        # number of threads under the address-space limit: which allocation fails first depends on the load of the
        # machine; resource exhaustion of the runtime is outside the property (ASSUMPTIONS) and is not judged
        out.count("huge_thread_probe_resource_exhaustion_not_judged")
    elif not (isinstance(o, dict) and ("err" in o or "ok" in o)):
        out.monitor_hits.append((-2, "solve with %d threads under ulimit -v 8G: %r" % (BIG, o),
                                 {"threads": BIG, "result": str(o)}, "huge-threads"))
