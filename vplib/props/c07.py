"""C07 - sampled solvers are thread-count invariant once random choices are fixed."""
from . import c06
from .c06 import monitor, nontrivial, classify, REL, HARNESS_JOBS  # noqa: F401

SCOPE = {"solve", "named"}
N_QUICK = 150
N_THOROUGH = 4000
RULE = ("as C06 but for the chance-sampled and external-sampled methods with every sampling decision pinned by the hook to "
        "table[cell][pass] mod arity (weights ignored on purpose: all sequences of sampling decisions, not only likely ones); "
        "the hook also records every draw, and more than one draw per (kind, cell, pass) or a panic at the try_lock site is a "
        "violation; k in {2,3,4,8,16,64} threads vs 1 thread vs the model, repeated under seeded yield-point perturbation")
ASSUMPTIONS = c06.ASSUMPTIONS
EXPLAINED = c06.EXPLAINED


def generate(rng, tier, n):
    return c06.generate(rng, tier, n, methods=["sampled", "external", "external"])
