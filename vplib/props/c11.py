"""C11 - game construction accepts exactly the documented class of games."""
import math

from ..common import b2f, f2b
from ..gen import gen_tree, infosets_of, tree_stats
from ..ops import CaseBuilder
from .. import contract

SCOPE = {"from_root", "num_infosets", "named", "info"}
N_QUICK = 500
N_THOROUGH = 20000
RULE = ("valid stream: random perfect-recall trees with shared player and chance infosets, rescaled shared chance weights, "
        "single-action and single-outcome nodes, small (20) and large (1000) label alphabets; invalid stream: a valid tree + "
        "1..2 contract mutations (empty chance/player node, weight in {0,-0,-1,NaN,+-inf}, unequal / reordered / rescaled shared "
        "chance weights, forgotten own action, absent-mindedness, same infoset under distant different histories, action lists "
        "that differ / are reordered / differ in length, one action here and several there in both orders, duplicate actions, "
        "non-finite payoffs, clashing single-action infosets, shared single-outcome chance nodes) placed at a random position; "
        "expected outcome from an independent Python reading of the contract; non-trivial = invalid tree, or valid tree with a "
        "shared infoset; distinct by tree hash")
ASSUMPTIONS = ["'equal normalised weights' is exact over R; proportional weight vectors whose binary64 normalisations differ by "
               "rounding only (relative 1e-12) may be accepted or rejected (counted as ambiguous, not judged)"]


def build(cid, t, st, tags, viol):
    cb = CaseBuilder(cid, t, {"stats": st, "tags": tags, "viol": sorted(viol)})
    cb.num_infosets()
    s = cb.solve("full", 0, 0.0, 1, "vanilla")
    cb.named(s)
    cb.info(s)
    if not viol:
        for m in ("full", "sampled", "external"):
            k = cb.solve(m, 2, 0.0, 1, None, {"chance": [[1, 0, 2, 1]] * (st["chance"] + 1),
                                               "player": [[0, 1, 2, 1]] * (st["players"] + 1)})
            cb.info(k)
    return cb


def generate(rng, tier, n):
    cases = []
    cid = 0
    while len(cases) < n:
        ls = rng.choice([20, 1000])
        t, st = gen_tree(rng, max_nodes=rng.choice([6, 15, 40, 80]), max_depth=rng.choice([3, 5, 8]), label_space=ls,
                         p_share=rng.choice([0.5, 0.8]), single_rate=rng.choice([0.1, 0.25]))
        if rng.random() < 0.55:
            t2, tags = contract.mutate(rng, t, label_space=rng.choice([4, 50]))
            st2 = tree_stats(t2)
            st2["shared_uses"] = st.get("shared_uses", 0)
        else:
            t2, tags, st2 = t, [], st
        if not tags and rng.random() < 0.08:
            t2 = _huge_weights(rng, t2)
            tags = ["huge_weights"]
        viol = contract.violations(t2)
        cases.append(build(cid, t2, st2, tags, viol))
        cid += 1
    return cases


def _t(x):
    return {"t": f2b(x)}


def _huge_weights(rng, t):
    """scale the weights of every unshared chance node so that their sum leaves the binary64 range (D14)"""
    if "t" in t:
        return t
    if "o" in t:
        outs = [[w, _huge_weights(rng, c)] for w, c in t["o"]]
        if t.get("c") is None and len(outs) >= 2:
            top = max(b2f(w) for w, _ in outs)
            k = rng.choice([1.2e308, 1.7e308, 9e307]) / top
            outs = [[f2b(b2f(w) * k), c] for w, c in outs]
            if rng.random() < 0.5:
                # ... next to a weight of ordinary size, at any position (its probability is tiny but positive)
                j = rng.choice([0, 0, len(outs) - 1, rng.randrange(len(outs))])
                outs[j] = [f2b(rng.choice([1.0, 0.5, 4.0])), outs[j][1]]
                if len(outs) == 2:
                    outs.append([f2b(1.1e308), outs[1 - j][1]] if False else [f2b(1.1e308), {"t": f2b(0.5)}])
        return {"c": t.get("c"), "o": outs}
    return {"p": t["p"], "i": t["i"], "a": [[a, _huge_weights(rng, c)] for a, c in t["a"]]}


def corpus():
    """inputs of the repaired acceptances D3, D4 (both orders), D5"""
    out = []
    y = lambda: {"p": 1, "i": 2, "a": [[1, _t(0.0)], [2, _t(2.0)]]}
    d3 = {"p": 1, "i": 1, "a": [[1, y()], [2, {"p": 1, "i": 2, "a": [[1, _t(2.0)], [2, _t(0.0)]]}]]}
    one = {"p": 1, "i": 5, "a": [[1, _t(0.0)]]}
    two = {"p": 1, "i": 5, "a": [[1, _t(0.0)], [2, _t(1.0)]]}
    d4a = {"c": None, "o": [[f2b(1.0), one], [f2b(1.0), two]]}
    d4b = {"c": None, "o": [[f2b(1.0), two], [f2b(1.0), one]]}
    # D14: finite positive weights whose sum overflows binary64 (accepted; must be solvable)
    big = {"c": None, "o": [[f2b(1e308), {"p": 1, "i": 1, "a": [[1, _t(1.0)], [2, _t(0.0)]]}],
                            [f2b(1e308), {"p": 2, "i": 2, "a": [[1, _t(1.0)], [2, _t(-1.0)]]}]]}
    big2 = {"p": 1, "i": 9, "a": [[1, _t(0.25)], [2, {"c": None, "o": [[f2b(1.0), _t(-8.0)], [f2b(1e308), _t(1.0)], [f2b(1e308), _t(1.0)]]}]]}
    for k, t in enumerate([d3, d4a, d4b, _t(float("nan")), _t(float("inf")),
                           {"c": None, "o": [[f2b(1.0), _t(1.0)], [f2b(1.0), _t(float("-inf"))]]}, big, big2]):
        out.append(build(1000000 + k, t, tree_stats(t), ["corpus"], contract.violations(t)))
    return out


def monitor(cb, impl):
    hits = []
    viol = set(cb.meta["viol"])
    fr = impl.get("from_root")
    if fr is None:
        return [("executor failed: %r" % impl, "executor")]
    if "panic" in fr:
        return [("from_root panicked: %s" % fr["panic"], "panic")]
    hard = viol - {"ProbabilitiesNotEqual?"}
    ambiguous = "ProbabilitiesNotEqual?" in viol
    if "ok" in fr:
        if hard:
            hits.append(("from_root accepted a tree that violates %s (mutations %s)" % (sorted(hard), cb.meta["tags"]),
                         "accepts-invalid"))
        # accepted trees must be evaluable and solvable
        for k, o in enumerate(impl.get("ops", [])):
            if not isinstance(o, dict):
                continue
            if "panic" in o:
                hits.append(("operation %d (%s) panicked on an accepted tree: %s" % (k, cb.ops[k]["op"], o["panic"]),
                             "undefined-on-accepted"))
            elif cb.ops[k]["op"] == "info" and "ok" in o and any(not math.isfinite(b2f(x)) for x in o["ok"]):
                hits.append(("get_info returned a non-finite number on an accepted tree: %r" % [b2f(x) for x in o["ok"]],
                             "undefined-on-accepted"))
    else:
        if not viol:
            hits.append(("from_root rejected a valid tree with %s (mutations %s)" % (fr["err"], cb.meta["tags"]),
                         "rejects-valid"))
        elif fr["err"] not in viol and not (ambiguous and fr["err"] == "ProbabilitiesNotEqual"):
            hits.append(("from_root reported %s but the violated rules are %s" % (fr["err"], sorted(viol)), "wrong-kind"))
    return hits


def nontrivial(cb, impl):
    return bool(cb.meta["viol"]) or bool(cb.meta["stats"].get("shared_uses"))


def classify(cb, impl):
    out = ["viol_" + v for v in cb.meta["viol"]] or ["valid"]
    out += ["mut_" + t for t in cb.meta["tags"]]
    return out
