"""C01 - reported utility and regret of any strategy profile are exact."""
import math

from ..common import b2f, f2b, close
from ..gen import gen_tree, random_named, infosets_of
from ..ops import CaseBuilder
from .. import oracle

SCOPE = {"info"}
N_QUICK = 250
N_THOROUGH = 8000
RULE = ("30 % of the imported cases continue as a sequence evaluate / truncate (clone or in place) / evaluate on one object, every get_info judged against the view at that moment; random perfect-recall trees (shared infosets, shared chance infosets, rare outcomes, single-action/-outcome nodes, "
        "depth <= 7) x profiles (pure, with zero-probability actions making subtrees unreachable, dirichlet, tiny entries, "
        "solver outputs) -> get_info vs the Coq evaluator at binary64, and vs an independent exhaustive best response over all "
        "pure strategies (Python, only the definitions) when a player has <= 4096 pure strategies; non-trivial = both players "
        "have a multi-action infoset and some regret is positive; distinct by (tree, profile) hash")
ASSUMPTIONS = ["floating-point underflow of reach on very deep trees is outside the real-number theorem; generated trees have depth <= 8"]


def build(cid, t, st, named=None, solve=None, seq=None, second=None):
    cb = CaseBuilder(cid, t, {"stats": st})
    if named is not None:
        s = cb.import_(named, fast=True)
    else:
        s = cb.solve(*solve)
    n0 = cb.named(s)
    i0 = cb.info(s)
    pairs = [(n0, i0)]
    if seq is not None:
        # the evaluation must be exact for whatever profile the object holds NOW: evaluate, truncate (clone or in
        # place), evaluate again; the untouched original must still give the first answer
        rng = seq
        cur = s
        for _ in range(rng.choice([1, 2])):
            h = rng.choice([0.05, 0.34, 0.11 + rng.random() * 0.3, rng.random()])   # never AT a typical probability (1/2, 1/4, 1/5): see C18.not_judged
            inplace = rng.random() < 0.5
            if not inplace and rng.random() < 0.5:
                i_again = cb.info(cur)
                pairs.append((pairs[-1][0], i_again))
            cur = cb.truncate(cur, h, inplace=inplace)
            nn = cb.named(cur)
            ii = cb.info(cur)
            pairs.append((nn, ii))
    if second is not None:
        # further profiles evaluated on the SAME Game value, narrow support first, broad support afterwards: whatever an
        # evaluation leaves behind in the game must not leak into the next one
        rng = second
        for style in (["pure", "dirichlet"] if rng.random() < 0.6 else [rng.choice(["zeros", "dirichlet", "uniform"])]):
            s2 = cb.import_(random_named(rng, t, style), fast=rng.random() < 0.5)
            n2 = cb.named(s2)
            i2 = cb.info(s2)
            pairs.append((n2, i2))
    cb.meta["pairs"] = pairs
    return cb


def widths_tree(rng, widths, pl=1):
    """a deal observed by player pl only: after outcome j that player moves at an infoset of width widths[j]; the other
    player then guesses (one infoset spanning everything, or one per own action count) and random payoffs follow"""
    from ..gen import tree_stats
    other = 3 - pl
    v = rng.choice([2, 3])

    def guess(info):
        return {"p": other, "i": info, "a": [[g + 1, {"t": f2b(rng.choice([-3.0, -1.0, 0.0, 0.5, 2.0, 4.0]) + rng.random())}] for g in range(v)]}
    outs = []
    for j, w in enumerate(widths):
        outs.append([f2b(rng.choice([1.0, 2.0, 0.5])), {"p": pl, "i": 10 + j, "a": [[a + 1, guess(500)] for a in range(w)]}])
    t = {"c": None, "o": outs}
    return t, tree_stats(t)


def exact_offset_tree(rng, offset):
    """small integer payoffs around a common offset, no chance moves except (sometimes) one fair coin at the root"""
    from ..gen import tree_stats

    def shift(n):
        if "t" in n:
            return {"t": f2b(float(round(b2f(n["t"]) / 4.0)) + offset)}     # gains of one or two units
        if "o" in n:
            return {"c": n["c"], "o": [[w, shift(c)] for w, c in n["o"]]}
        return {"p": n["p"], "i": n["i"], "a": [[a, shift(c)] for a, c in n["a"]]}
    while True:
        t, _ = gen_tree(rng, max_nodes=rng.choice([12, 25, 40]), max_depth=rng.choice([3, 4, 5]), p_share=0.6,
                        max_actions=rng.choice([2, 3]), chance_share=0.0)
        if _has_chance(t):
            continue
        multi, _s = infosets_of(t)
        if multi[1] and multi[2]:
            break
    t = shift(t)
    if rng.random() < 0.5:
        # a fair coin nobody observes in front of two copies that differ in one payoff
        import copy
        t2 = copy.deepcopy(t)
        leaf = t2
        while "t" not in leaf:
            leaf = (leaf.get("a") or leaf.get("o"))[-1][1]
        leaf["t"] = f2b(b2f(leaf["t"]) + rng.choice([1.0, -2.0, 3.0]))
        t = {"c": None, "o": [[f2b(1.0), t], [f2b(1.0), t2]]}
    return t, tree_stats(t)


def _has_chance(n):
    if "t" in n:
        return False
    if "o" in n:
        return True
    return any(_has_chance(c) for _, c in n["a"])


def jackpot_tree(rng):
    """a decision that is reached with probability ~1e-17..1e-30 but whose payoffs are of the order of 1/reach:
    its contribution to the best-response value is of order one although its reach is below machine epsilon"""
    from ..gen import tree_stats
    reach = rng.choice([1e-17, 3e-20, 1e-30])
    big = rng.choice([1.0, 2.0, 5.0]) / reach
    pl = rng.choice([1, 2])
    rare = {"p": pl, "i": 50, "a": [[1, {"t": f2b(big)}], [2, {"t": f2b(-big)}], [3, {"t": f2b(0.0)}]]}
    if rng.random() < 0.5:
        rare = {"p": 3 - pl, "i": 60, "a": [[1, rare], [2, {"t": f2b(rng.uniform(-1, 1))}]]}
    common = {"p": rng.choice([1, 2]), "i": 70, "a": [[1, {"t": f2b(rng.uniform(-3, 3))}], [2, {"t": f2b(rng.uniform(-3, 3))}]]}
    t = {"c": None, "o": [[f2b(1.0), common], [f2b(reach), rare]]}
    return t, tree_stats(t)


def generate(rng, tier, n):
    cases = []
    cid = 0
    for _ in range(max(4, n // 30)):
        t, st = jackpot_tree(rng)
        cases.append(build(cid, t, st, named=random_named(rng, t, rng.choice(["pure", "dirichlet", "uniform"]))))
        cases[-1].meta["jackpot"] = True
        cid += 1
    # a hidden, unevenly weighted deal and players who see nothing but their own moves: every infoset spans nodes of
    # different counterfactual reach, and each player's later infosets lie below several nodes of the earlier ones
    for _ in range(max(6, n // 12)):
        from ..solvers import hidden_deal_tree
        t, st = hidden_deal_tree(rng, outcomes=rng.choice([2, 3, 4]), depth=rng.choice([3, 4]), actions=2)
        cases.append(build(cid, t, st, named=random_named(rng, t, rng.choice(["dirichlet", "dirichlet", "zeros", "uniform"])),
                           seq=rng if rng.random() < 0.3 else None, second=rng))
        cid += 1
    # infosets of unequal widths whose first width is the mean width (3,2,4 / 4,2,6 / ...): a row layout that assumes
    # equal widths "when the length fits" cuts the strategy vector at the wrong offsets
    for k in range(max(6, n // 40)):
        t, st = widths_tree(rng, rng.choice([(3, 2, 4), (4, 2, 6), (3, 4, 2), (3, 2, 4, 3), (4, 6, 2), (2, 1, 3), (3, 5, 1)]), pl=1 + k % 2)
        cases.append(build(cid, t, st, named=random_named(rng, t, rng.choice(["dirichlet", "dirichlet", "pure"])), second=rng))
        cid += 1
    # exact arithmetic: integer payoffs around a large common offset, pure profiles, at most one fair coin at the root:
    # every intermediate of every correct evaluation order is exactly representable, so the reported numbers must be
    # exactly the rational ones (no tolerance): a regret of 1 next to utilities of 2^48 is not rounding noise
    for k in range(max(10, n // 25)):
        t, st = exact_offset_tree(rng, [2.0 ** 50, -2.0 ** 50, 2.0 ** 51, -2.0 ** 51, 2.0 ** 48, 0.0][k % 6])
        cases.append(build(cid, t, st, named=random_named(rng, t, "pure", scale=False), second=None))
        cases[-1].meta["exact"] = True
        cid += 1
    while len(cases) < n:
        t, st = gen_tree(rng, max_nodes=rng.choice([8, 20, 40, 70]), max_depth=rng.choice([3, 5, 7]),
                         p_share=rng.choice([0.5, 0.8]), max_actions=rng.choice([2, 3, 4]))
        for _ in range(3):
            if rng.random() < 0.2:
                cases.append(build(cid, t, st, solve=("full", rng.choice([1, 5, 30]), 0.0, 1,
                                                      rng.choice(["vanilla", "dcfr", "cfr_plus"]))))
            else:
                cases.append(build(cid, t, st, named=random_named(rng, t, rng.choice(["pure", "zeros", "dirichlet", "tiny", "uniform"])),
                                   seq=rng if rng.random() < 0.3 else None, second=rng if rng.random() < 0.35 else None))
            cid += 1
            if len(cases) >= n:
                break
    return cases


def _t(x):
    return {"t": f2b(x)}


def corpus():
    """matching pennies with a shared infoset (regret known: 1 for the exploited player), and a Kuhn-like chance game"""
    mp = {"p": 1, "i": 1, "a": [[1, {"p": 2, "i": 2, "a": [[1, _t(1.0)], [2, _t(-1.0)]]}],
                                [2, {"p": 2, "i": 2, "a": [[1, _t(-1.0)], [2, _t(1.0)]]}]]}
    named = [[[1, [[1, f2b(1.0)]]]], [[2, [[1, f2b(0.5)], [2, f2b(0.5)]]]]]
    # repaired D16: the reach of player one's infoset 3 is 1e-300 * 1e-300 = 0 in binary64; the regret of playing
    # "left" at the root (1.0) must still be reported
    x = {"p": 1, "i": 3, "a": [[1, _t(5.0)], [2, _t(-5.0)]]}
    b = {"p": 2, "i": 5, "a": [[1, x], [2, _t(1.0)]]}
    a = {"p": 2, "i": 4, "a": [[1, b], [2, _t(1.0)]]}
    d16 = {"p": 1, "i": 1, "a": [[1, _t(0.0)], [2, a]]}
    named16 = [[[1, [[1, f2b(1.0)]]], [3, [[2, f2b(1.0)]]]],
               [[4, [[1, f2b(1e-300)], [2, f2b(1.0)]]], [5, [[1, f2b(1e-300)], [2, f2b(1.0)]]]]]
    return [build(1000000, mp, {"nodes": 7, "shared_uses": 1}, named=named),
            build(1000001, d16, {"nodes": 9, "shared_uses": 0}, named=named16)]


def monitor(cb, impl):
    hits = []
    if "ops" not in impl:
        return hits
    ops = impl["ops"]
    if any("panic" in o for o in ops if isinstance(o, dict)):
        return [("panic: %r" % [o for o in ops if isinstance(o, dict) and "panic" in o][:1], "panic")]
    for n_idx, i_idx in cb.meta.get("pairs", [(1, 2)]):
        if n_idx >= len(ops) or i_idx >= len(ops) or "ok" not in ops[n_idx] or "ok" not in ops[i_idx]:
            continue
        hits += _judge(cb, ops[n_idx]["ok"], ops[i_idx]["ok"], "" if (n_idx, i_idx) == (1, 2) else
                       " (get_info call at op %d of a sequence evaluate / truncate / evaluate on one profile object)" % i_idx)
    return hits


def _judge(cb, named_ok, info_ok, where):
    hits = []
    strat = oracle.strat_from_named(named_ok)
    util, r1, r2, reg, u2 = [b2f(x) for x in info_ok]
    lo, hi = oracle.payoff_range(cb.tree)
    scale = max(1.0, min(max(abs(lo), abs(hi)), oracle.payoff_mass(cb.tree) * 16))
    tol = 1e-9 * scale
    if cb.meta.get("exact"):
        tol = 0.0      # every intermediate is exactly representable (see generate): the rational value itself is due
    eu = oracle.expected_utility(cb.tree, strat)
    if abs(eu - util) > tol:
        hits.append(("reported utility %r but the expected payoff of the profile is %r" % (util, eu), "utility"))
    if u2 != -util:
        hits.append(("player two's utility %r is not the negation of %r" % (u2, util), "utility-two"))
    if reg != max(r1, r2):
        hits.append(("total regret %r is not max(%r, %r)" % (reg, r1, r2), "total"))
    for pl, r, u in ((1, r1, eu), (2, r2, -eu)):
        br = oracle.best_response_value(cb.tree, strat, pl)
        if br is None:
            continue
        want = max(br - u, 0.0)
        if abs(want - r) > tol:
            hits.append(("player %d: reported regret %r, exhaustive best response gains %r (br %r, utility %r)"
                         % (pl, r, want, br, u), "regret"))
    return [(t + where, c) for t, c in hits]


def nontrivial(cb, impl):
    multi, _ = infosets_of(cb.tree)
    try:
        _, r1, r2, _, _ = [b2f(x) for x in impl["ops"][2]["ok"]]
    except Exception:
        return False
    return bool(multi[1]) and bool(multi[2]) and max(r1, r2) > 0


def classify(cb, impl):
    out = []
    for pl in (1, 2):
        out.append("bruteforce_%s" % ("yes" if oracle.count_pure(cb.tree, pl) <= 4096 else "skipped_too_many"))
    return out
